(** Executable model of btcwallet's recovery from seed (property C16).

    Transcribed from /repo/wallet/recovery.go (BranchRecoveryState,
    ScopeRecoveryState, RecoveryState, RecoveryManager.Resurrect),
    /repo/wallet/wallet.go (recovery, recoverScopedAddresses,
    expandScopeHorizons, newFilterBlocksRequest, extendFoundAddresses,
    locateBirthdayBlock), /repo/chain/block_filterer.go (FilterBlock,
    FilterTx), /repo/waddrmgr/scoped_manager.go (extendAddresses, MarkUsed)
    and the part of /repo/wallet/chainntfns.go:addRelevantTx that recovery
    relies on (insert once, debit spent credits, credit outputs whose address
    the manager knows, mark them used).

    Abstractions: an address is its derivation path (scope, branch, index) -
    two paths give the same address only if they are equal; a transaction is
    (id, spent outpoints, outputs) where an output either pays a wallet path
    or is foreign; uint32 wrap-around is not modelled.  Model only, no proofs. *)
From Verif Require Import Base.Prelude.
Local Open Scope N_scope.

(** * Abstract chain *)

Definition scope := N.            (* 0 = BIP44, 1 = BIP49+, 2 = BIP84, 3 = BIP86 *)
Definition index := N.
(** branch: [false] = external (0), [true] = internal (1). *)
Definition bkey := (scope * bool)%type.
Definition key := (scope * bool * index)%type.
Definition outpoint := (N * N)%type.       (* (txid, output position) *)

Record txout := { o_key : option key; o_val : Z }.
Record tx := { t_id : N; t_ins : list outpoint; t_outs : list txout }.
Definition block := list tx.

Definition bkey_eqb (a b : bkey) : bool := N.eqb (fst a) (fst b) && Bool.eqb (snd a) (snd b).
Definition key_eqb (a b : key) : bool := bkey_eqb (fst a) (fst b) && N.eqb (snd a) (snd b).
Definition op_eqb (a b : outpoint) : bool := N.eqb (fst a) (fst b) && N.eqb (snd a) (snd b).

Definition memN (i : N) (l : list N) : bool := existsb (N.eqb i) l.
Definition mem_op (o : outpoint) (l : list outpoint) : bool := existsb (op_eqb o) l.
Definition mem_key (k : key) (l : list key) : bool := existsb (key_eqb k) l.
Definition insN (i : N) (l : list N) : list N := if memN i l then l else i :: l.
Definition ins_op (o : outpoint) (l : list outpoint) := if mem_op o l then l else o :: l.
Definition ins_key (k : key) (l : list key) := if mem_key k l then l else k :: l.

(** Outputs of a transaction with their positions. *)
Fixpoint number_from {A} (n : N) (l : list A) : list (N * A) :=
  match l with [] => [] | x :: r => (n, x) :: number_from (N.succ n) r end.

(** * BranchRecoveryState (recovery.go:291) *)

Record brs := {
  b_window : N;            (* recoveryWindow *)
  b_horizon : N;           (* horizon *)
  b_next : N;              (* nextUnfound *)
  b_addrs : list N;        (* addresses: key set of the map index -> address *)
  b_invalid : list N }.    (* invalidChildren: key set *)

Definition new_brs (w : N) : brs :=
  {| b_window := w; b_horizon := 0; b_next := 0; b_addrs := []; b_invalid := [] |}.

(** NumInvalidInHorizon *)
Definition num_invalid_in_horizon (st : brs) : N :=
  N.of_nat (length (filter (fun c => (b_next st <=? c) && (c <? b_horizon st)) (b_invalid st))).

(** ExtendHorizon: (state, (current horizon, number of addresses to derive)) *)
Definition extend_horizon (st : brs) : brs * (N * N) :=
  let cur := b_horizon st in
  let min_valid := b_next st + b_window st + num_invalid_in_horizon st in
  if min_valid <=? cur then (st, (cur, 0))
  else ({| b_window := b_window st; b_horizon := min_valid; b_next := b_next st;
           b_addrs := b_addrs st; b_invalid := b_invalid st |}, (cur, min_valid - cur)).

(** AddAddr *)
Definition add_addr (i : N) (st : brs) : brs :=
  {| b_window := b_window st; b_horizon := b_horizon st; b_next := b_next st;
     b_addrs := insN i (b_addrs st); b_invalid := b_invalid st |}.

(** ReportFound, with the pruning of invalid children below the index *)
Definition report_found (i : N) (st : brs) : brs :=
  if b_next st <=? i then
    {| b_window := b_window st; b_horizon := b_horizon st; b_next := i + 1;
       b_addrs := b_addrs st;
       b_invalid := filter (fun c => negb (c <? i)) (b_invalid st) |}
  else st.

(** MarkInvalidChild *)
Definition mark_invalid_child (i : N) (st : brs) : brs :=
  {| b_window := b_window st; b_horizon := b_horizon st + 1; b_next := b_next st;
     b_addrs := b_addrs st; b_invalid := insN i (b_invalid st) |}.

Definition next_unfound (st : brs) : N := b_next st.
Definition has_addr (i : N) (st : brs) : bool := memN i (b_addrs st).

(** * Scope and global recovery state *)

Record sstate := { ss_ext : brs; ss_int : brs }.
Definition new_sstate (w : N) : sstate := {| ss_ext := new_brs w; ss_int := new_brs w |}.
Definition branch (ss : sstate) (b : bool) : brs := if b then ss_int ss else ss_ext ss.
Definition set_branch (ss : sstate) (b : bool) (v : brs) : sstate :=
  if b then {| ss_ext := ss_ext ss; ss_int := v |} else {| ss_ext := v; ss_int := ss_int ss |}.

Record rstate := {
  r_window : N;
  r_scopes : list (scope * sstate);     (* map scope -> *ScopeRecoveryState *)
  r_watched : list outpoint }.          (* key set of watchedOutPoints *)

Definition new_rstate (w : N) : rstate := {| r_window := w; r_scopes := []; r_watched := [] |}.

Fixpoint assoc_scope (s : scope) (l : list (scope * sstate)) : option sstate :=
  match l with
  | [] => None
  | (s', v) :: r => if s' =? s then Some v else assoc_scope s r
  end.

(** StateForScope (created on first use with the state's window) *)
Definition state_for_scope (s : scope) (rs : rstate) : sstate :=
  match assoc_scope s (r_scopes rs) with Some v => v | None => new_sstate (r_window rs) end.

Definition set_scope (s : scope) (v : sstate) (rs : rstate) : rstate :=
  {| r_window := r_window rs;
     r_scopes := (s, v) :: filter (fun p => negb (fst p =? s)) (r_scopes rs);
     r_watched := r_watched rs |}.

Definition get_branch (k : bkey) (rs : rstate) : brs := branch (state_for_scope (fst k) rs) (snd k).
Definition set_br (k : bkey) (v : brs) (rs : rstate) : rstate :=
  set_scope (fst k) (set_branch (state_for_scope (fst k) rs) (snd k) v) rs.

(** AddWatchedOutPoint *)
Definition add_watched (o : outpoint) (rs : rstate) : rstate :=
  {| r_window := r_window rs; r_scopes := r_scopes rs; r_watched := ins_op o (r_watched rs) |}.

(** * Persistent wallet state touched by recovery *)

Record pstate := {
  p_next : list (bkey * N);          (* account rows: next external / internal index (absent = 0) *)
  p_used : list key;                 (* addresses marked used *)
  p_txs : list (N * N);              (* recorded transactions (height, txid), in recording order *)
  p_unspent : list (outpoint * Z);   (* unspent credits, in creation order *)
  p_synced : N }.                    (* synced-to height *)

Definition fresh_pstate : pstate :=
  {| p_next := []; p_used := []; p_txs := []; p_unspent := []; p_synced := 0 |}.

Fixpoint assoc_bkey (k : bkey) (l : list (bkey * N)) : N :=
  match l with
  | [] => 0
  | (k', v) :: r => if bkey_eqb k' k then v else assoc_bkey k r
  end.
Definition get_next (k : bkey) (p : pstate) : N := assoc_bkey k (p_next p).
Definition set_next (k : bkey) (v : N) (p : pstate) : pstate :=
  {| p_next := (k, v) :: filter (fun q => negb (bkey_eqb (fst q) k)) (p_next p);
     p_used := p_used p; p_txs := p_txs p; p_unspent := p_unspent p; p_synced := p_synced p |}.
Definition mark_used (k : key) (p : pstate) : pstate :=
  {| p_next := p_next p; p_used := ins_key k (p_used p); p_txs := p_txs p;
     p_unspent := p_unspent p; p_synced := p_synced p |}.
Definition set_synced (h : N) (p : pstate) : pstate :=
  {| p_next := p_next p; p_used := p_used p; p_txs := p_txs p;
     p_unspent := p_unspent p; p_synced := h |}.

(** Filter blocks response (FoundExternalAddrs/FoundInternalAddrs merged into
    one list of paths, FoundOutPoints, RelevantTxns). *)
Record fresp := { f_keys : list key; f_ops : list outpoint; f_txs : list tx }.
Definition empty_fresp : fresp := {| f_keys := []; f_ops := []; f_txs := [] |}.

Section Model.
  (** [invalid_child s b i]: deriving child [i] of branch [b] of scope [s]
      fails with hdkeychain.ErrInvalidChild.  [inv_bound] bounds the invalid
      indices (a hypothesis of the theorems, not of the model); it only feeds
      the fuel of the two loops that skip invalid children. *)
  Variable invalid_child : scope -> bool -> index -> bool.
  Variable inv_bound : N.
  (** the active scoped key managers (default scopes) *)
  Variable scopes : list scope.

  (** ** expandScopeHorizons (wallet.go:951), one branch *)
  Fixpoint derive_loop (fuel : nat) (k : bkey) (idx count window : N) (st : brs) : brs :=
    match fuel with
    | O => st
    | S f =>
        if count <? window then
          if invalid_child (fst k) (snd k) idx
          then derive_loop f k (idx + 1) count window (mark_invalid_child idx st)
          else derive_loop f k (idx + 1) (count + 1) window (add_addr idx st)
        else st
    end.

  Definition derive_fuel (window : N) : nat := S (N.to_nat window + N.to_nat inv_bound).

  Definition expand_branch (k : bkey) (st : brs) : brs :=
    let '(st1, (hor, win)) := extend_horizon st in
    derive_loop (derive_fuel win) k hor 0 win st1.

  Definition expand_scope_horizons (s : scope) (ss : sstate) : sstate :=
    let e := expand_branch (s, false) (ss_ext ss) in
    let i := expand_branch (s, true) (ss_int ss) in
    {| ss_ext := e; ss_int := i |}.

  Definition expand_all (rs : rstate) : rstate :=
    fold_left (fun rs s => set_scope s (expand_scope_horizons s (state_for_scope s rs)) rs) scopes rs.

  (** ** waddrmgr extendAddresses (scoped_manager.go:1231): next index after
      deriving every valid child through [last]; an invalid child is skipped,
      also past [last]. *)
  Fixpoint next_valid (fuel : nat) (k : bkey) (i : N) : N :=
    match fuel with
    | O => i
    | S f => if invalid_child (fst k) (snd k) i then next_valid f k (i + 1) else i
    end.

  Fixpoint extend_loop (fuel : nat) (k : bkey) (next last : N) : N :=
    match fuel with
    | O => next
    | S f => if next <=? last
             then extend_loop f k (next_valid (S (N.to_nat inv_bound)) k next + 1) last
             else next
    end.

  Definition extend_addresses (k : bkey) (last : N) (p : pstate) : pstate :=
    let next := get_next k p in
    if last <? next then p
    else set_next k (extend_loop (S (N.to_nat (last + 1 - next))) k next last) p.

  (** the address manager knows the address of a path (Manager.Address) *)
  Definition known (p : pstate) (k : key) : bool :=
    let '(s, b, i) := k in
    memN s scopes && (i <? get_next (s, b) p) && negb (invalid_child s b i).

  (** ** addRelevantTx (chainntfns.go:316), mined transaction *)
  Definition add_credits (p : pstate) (id : N) (outs : list (N * txout)) : pstate :=
    fold_left (fun p '(pos, o) =>
      match o_key o with
      | Some k =>
          if known p k then
            mark_used k
              {| p_next := p_next p; p_used := p_used p; p_txs := p_txs p;
                 p_unspent := p_unspent p ++ [((id, pos), o_val o)]; p_synced := p_synced p |}
          else p
      | None => p
      end) outs p.

  Definition add_relevant_tx (h : N) (t : tx) (p : pstate) : pstate :=
    if existsb (fun r => snd r =? t_id t) (p_txs p) then p
    else
      let p1 := {| p_next := p_next p; p_used := p_used p;
                   p_txs := p_txs p ++ [(h, t_id t)];
                   p_unspent := filter (fun u => negb (mem_op (fst u) (t_ins t))) (p_unspent p);
                   p_synced := p_synced p |} in
      add_credits p1 (t_id t) (number_from 0 (t_outs t)).

  (** ** BlockFilterer (block_filterer.go) *)
  Definition watched_key (rs : rstate) (k : key) : bool :=
    let '(s, b, i) := k in
    memN s scopes && has_addr i (get_branch (s, b) rs).

  (** FilterTx: inputs against WatchedOutPoints and this block's
      FoundOutPoints, then every output against the reverse filters. *)
  Definition filter_tx (rs : rstate) (acc : fresp) (t : tx) : fresp :=
    let spends := existsb (fun o => mem_op o (r_watched rs) || mem_op o (f_ops acc)) (t_ins t) in
    let '(keys, ops, pays) :=
      fold_left (fun '(keys, ops, pays) '(pos, o) =>
        match o_key o with
        | Some k => if watched_key rs k
                    then (ins_key k keys, ins_op (t_id t, pos) ops, true)
                    else (keys, ops, pays)
        | None => (keys, ops, pays)
        end) (number_from 0 (t_outs t)) (f_keys acc, f_ops acc, false) in
    {| f_keys := keys; f_ops := ops;
       f_txs := if spends || pays then f_txs acc ++ [t] else f_txs acc |}.

  (** FilterBlock: true iff some transaction is relevant *)
  Definition filter_block (rs : rstate) (b : block) : option fresp :=
    let r := fold_left (filter_tx rs) b empty_fresp in
    match f_txs r with [] => None | _ => Some r end.

  (** FilterBlocks: the first block of the batch with a match
      (BatchIndex, BlockMeta = height, response). *)
  Fixpoint filter_blocks (rs : rstate) (i : nat) (batch : list (N * block))
    : option (nat * N * fresp) :=
    match batch with
    | [] => None
    | (h, b) :: rest =>
        match filter_block rs b with
        | Some r => Some (i, h, r)
        | None => filter_blocks rs (S i) rest
        end
    end.

  (** ** extendFoundAddresses (wallet.go:1077), one branch of one scope *)
  Definition found_indices (k : bkey) (keys : list key) : list N :=
    map snd (filter (fun q => bkey_eqb (fst q) k) keys).

  Definition extend_found_branch (k : bkey) (keys : list key) (st : rstate * pstate)
    : rstate * pstate :=
    let idxs := found_indices k keys in
    match idxs with
    | [] => st
    | _ =>
        let rs := fst st in
        let br := fold_left (fun br i => report_found i br) idxs (get_branch k rs) in
        let rs1 := set_br k br rs in
        let nu := next_unfound br in
        let last := if 0 <? nu then nu - 1 else nu in
        let p1 := extend_addresses k last (snd st) in
        let p2 := fold_left (fun p i => mark_used (k, i) p) idxs p1 in
        (rs1, p2)
    end.

  (** all external branches first, then all internal ones *)
  Definition scope_bkeys : list bkey :=
    map (fun s => (s, false)) scopes ++ map (fun s => (s, true)) scopes.

  Definition extend_found_addresses (keys : list key) (st : rstate * pstate) : rstate * pstate :=
    fold_left (fun st k => extend_found_branch k keys st) scope_bkeys st.

  (** the part of recoverScopedAddresses after a match *)
  Definition process_response (h : N) (r : fresp) (st : rstate * pstate) : rstate * pstate :=
    let '(rs1, p1) := extend_found_addresses (f_keys r) st in
    let rs2 := fold_left (fun rs o => add_watched o rs) (f_ops r) rs1 in
    let p2 := fold_left (fun p t => add_relevant_tx h t p) (f_txs r) p1 in
    (rs2, p2).

  (** ** recoverScopedAddresses (wallet.go:846) *)
  Fixpoint recover_scoped (fuel : nat) (st : rstate * pstate) (batch : list (N * block))
    : rstate * pstate :=
    match fuel with
    | O => st
    | S f =>
        (* expandHorizons: *)
        let rs := expand_all (fst st) in
        match filter_blocks rs 0 batch with
        | None => (rs, snd st)
        | Some (i, h, r) =>
            let st2 := process_response h r (rs, snd st) in
            (* batch = batch[filterResp.BatchIndex+1:] *)
            match skipn (S i) batch with
            | [] => st2
            | batch' => recover_scoped f st2 batch'
            end
        end
    end.

  Definition recover_batch (st : rstate * pstate) (batch : list (N * block)) : rstate * pstate :=
    match batch with
    | [] => st
    | _ => recover_scoped (length batch) st batch
    end.

  (** ** RecoveryManager.Resurrect (recovery.go:59) *)
  Fixpoint resurrect_loop (n : nat) (k : bkey) (i : N) (st : brs) : brs :=
    match n with
    | O => st
    | S m => resurrect_loop m k (i + 1)
               (if invalid_child (fst k) (snd k) i then mark_invalid_child i st else add_addr i st)
    end.

  Definition resurrect_branch (k : bkey) (count : N) (st : brs) : brs :=
    let st1 := resurrect_loop (N.to_nat count) k 0 st in
    if 0 <? count then report_found (count - 1) st1 else st1.

  Definition resurrect (w : N) (p : pstate) : rstate :=
    let rs0 := new_rstate w in
    let rs1 := fold_left (fun rs s =>
                 let ss := state_for_scope s rs in
                 let e := resurrect_branch (s, false) (get_next (s, false) p) (ss_ext ss) in
                 let i := resurrect_branch (s, true) (get_next (s, true) p) (ss_int ss) in
                 set_scope s {| ss_ext := e; ss_int := i |} rs) scopes rs0 in
    fold_left (fun rs u => add_watched (fst u) rs) (p_unspent p) rs1.

  (** ** Wallet.recovery (wallet.go:698).  [chain] lists the blocks at heights
      1, 2, ...; [best] is the height the backend reports; blocks below the
      birthday height are not scanned; a batch is flushed when it holds
      [bs] blocks or at the best height, together with the synced-to update. *)
  Fixpoint recovery_loop (hs : list (N * block)) (best : N) (bs : nat) (bday : N)
      (batch : list (N * block)) (st : rstate * pstate) : rstate * pstate :=
    match hs with
    | [] => st
    | (h, blk) :: rest =>
        let batch1 := if bday <=? h then batch ++ [(h, blk)] else batch in
        if Nat.eqb (length batch1) bs || (h =? best) then
          let st1 := recover_batch st batch1 in
          recovery_loop rest best bs bday [] (fst st1, set_synced h (snd st1))
        else recovery_loop rest best bs bday batch1 st
    end.

  Definition heights_to_scan (chain : list block) (synced best : N) : list (N * block) :=
    skipn (N.to_nat synced) (firstn (N.to_nat best) (number_from 1 chain)).

  Definition recovery (w : N) (bs : nat) (bday best : N) (chain : list block) (p : pstate) : pstate :=
    let rs := resurrect w p in
    snd (recovery_loop (heights_to_scan chain (p_synced p) best) best bs bday [] (rs, p)).

  (** Recovery run repeatedly against the chain truncated at the heights
      [cuts] (each run on a reopened wallet: the in-memory recovery state is
      rebuilt by [resurrect]). *)
  Definition recovery_runs (w : N) (bs : nat) (bday : N) (cuts : list N) (chain : list block)
      (p : pstate) : pstate :=
    fold_left (fun p best => recovery w bs bday best chain p) cuts p.

End Model.

(** * locateBirthdayBlock (wallet.go:610).  [ts] = block timestamps by height
    (genesis first), [bday] the birthday, both in seconds. *)
Definition birthday_block_delta : Z := 7200.

Fixpoint locate_loop (fuel : nat) (ts : list Z) (bday : Z) (best left right : Z) : option Z :=
  match fuel with
  | O => None
  | S f =>
      let mid := (left + (right - left) / 2)%Z in
      let t := nth (Z.to_nat mid) ts 0%Z in
      if (mid =? 0)%Z || (mid =? best)%Z || (mid =? left)%Z then Some mid
      else if (birthday_block_delta <? t - bday)%Z then locate_loop f ts bday best left mid
      else if (t - bday <? - birthday_block_delta)%Z then locate_loop f ts bday best mid right
      else Some mid
  end.

(** [None] only for an empty chain or when the fuel runs out (shown
    unreachable in RecoveryProofs). *)
Definition locate_birthday (ts : list Z) (bday : Z) : option Z :=
  match ts with
  | [] => None
  | _ => let best := (Z.of_nat (length ts) - 1)%Z in
         locate_loop (S (length ts)) ts bday best 0%Z best
  end.

(** * The production entry into recovery: handleChainNotifications on
    chain.ClientConnected (chainntfns.go:135-160) runs birthdaySanityCheck
    and then syncWithChain (wallet.go:393-475) with its result.

    [w_bblock] is the stored, verified birthday block (its height); a wallet
    restored from seed has none (waddrmgr.ErrBirthdayBlockNotSet), so
    syncWithChain is entered with birthdayStamp = nil: it locates the birthday
    block on the backend's chain (heights 0..best, timestamps [ts]), stores
    it as synced-to (SetSyncedTo(startHeight), startHeight = its height) and
    as verified birthday block, and runs [recovery] with it - which scans
    from SyncedTo()+1.  A wallet that has one (any later start) hands it to
    syncWithChain, which runs [recovery] from the stored synced-to height.

    Not modelled (outside C16): recoveryWindow = 0 (no recovery; the property
    has W >= 1), the comparison of stored block hashes with the backend's
    after recovery (no reorganisation happens here; C15), and the final
    rescan request, which starts at the synced-to height recovery ended at,
    i.e. at the backend's best block. *)
Record wstate := { w_bblock : option N; w_p : pstate }.
Definition fresh_wstate : wstate := {| w_bblock := None; w_p := fresh_pstate |}.

Section Startup.
  Variable invalid_child : scope -> bool -> index -> bool.
  Variable inv_bound : N.
  Variable scopes : list scope.

  (** syncWithChain with birthdayStamp = nil, after the search returned the
      block at height [b]: SetSyncedTo(b), SetBirthdayBlock(b, verified),
      recovery(b). *)
  Definition first_start (w : N) (bs : nat) (b best : N) (chain : list block) (p : pstate) : pstate :=
    recovery invalid_child inv_bound scopes w bs b best chain (set_synced b p).

  Definition startup (w : N) (bs : nat) (ts : list Z) (birthday : Z) (best : N)
      (chain : list block) (ws : wstate) : option wstate :=
    match w_bblock ws with
    | Some b =>
        Some {| w_bblock := Some b;
                w_p := recovery invalid_child inv_bound scopes w bs b best chain (w_p ws) |}
    | None =>
        match locate_birthday (firstn (S (N.to_nat best)) ts) birthday with
        | None => None
        | Some hz =>
            let b := Z.to_N hz in
            Some {| w_bblock := Some b; w_p := first_start w bs b best chain (w_p ws) |}
        end
    end.

  (** The wallet started repeatedly, each time against the chain as far as
      the height in [cuts] (a reopened wallet: the recovery state is rebuilt
      from the database by [resurrect] inside [recovery]). *)
  Definition startups (w : N) (bs : nat) (ts : list Z) (birthday : Z) (cuts : list N)
      (chain : list block) (ws : wstate) : option wstate :=
    fold_left (fun o best => match o with
                             | Some s => startup w bs ts birthday best chain s
                             | None => None
                             end) cuts (Some ws).
End Startup.
