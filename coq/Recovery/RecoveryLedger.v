(** Connecting recovery (C16) to the transaction store (C01).

    The abstract chain of Recovery.v is translated into a universe of the
    transaction-store model, and the list of transactions the recovery model
    records ([p_txs], in recording order with their heights) into the history
    of [Confirm] events that [addRelevantTx] applies to the store.  Under the
    hypotheses of the completeness theorem plus the well-formedness the store
    model asks of a universe, that history is chain-consistent for a
    well-formed universe, so C01 applies: the store's balance is the ledger
    balance of the history's facts, and for minconf 1 at the tip that balance
    is the sum of the model's final unspent wallet outputs that are mature. *)
From stdpp Require Import gmap list numbers sorting.
From Coq Require Import ZArith NArith Lia.
From Verif Require Import Tx.Store Tx.Ledger Tx.Hist Tx.Inv Tx.InvObs Tx.Corollaries.
From Verif Require Import Recovery.Recovery Recovery.RecoveryProofs.
Local Open Scope Z_scope.

Notation rtx := Recovery.tx (only parsing).
Notation stx := Store.tx (only parsing).

(** * The translation *)

(** credited outputs: position and change flag (internal branch) of every
    output that pays a wallet path *)
Definition cred_list (outs : list (N * txout)) : list (N * bool) :=
  flat_map (fun x : N * txout => match o_key x.2 with
                                | Some k => [(x.1, k.1.2)]
                                | None => []
                                end) outs.

(** [cb id] says whether transaction [id] is a coinbase. *)
Definition conv (cb : N → bool) (t : rtx) : stx :=
  {| Store.t_id := Recovery.t_id t;
     Store.t_ins := Recovery.t_ins t;
     Store.t_outs := map o_val (Recovery.t_outs t);
     t_creds := cred_list (number_from 0%N (Recovery.t_outs t));
     t_coinbase := cb (Recovery.t_id t) |}.

Definition universe_of (cb : N → bool) (txs : list (N * rtx)) : universe :=
  list_to_map (map (fun x : N * rtx => (Recovery.t_id x.2, conv cb x.2)) txs).

(** a recorded transaction (height, id) is a confirmation in the block of that
    height; the block hash is the height (one block per height), time 0 *)
Definition confirm_of (r : N * N) : event := Confirm r.2 (Z.of_N r.1) r.1 0.
Definition history_of (rec : list (N * N)) : list event := map confirm_of rec.

(** * Well-formedness the store model asks for *)

Record ledger_wf (cb : N → bool) (txs : list (N * rtx)) : Prop := {
  (* transaction ids are ranks: they increase along the chain ... *)
  lw_ids : StronglySorted N.lt (ids txs);
  (* ... no id is 0 and every input names a transaction with a smaller id
     ("txids commit to their parents", the convention of Tx/Hist.v) *)
  lw_ranked : ∀ x, x ∈ txs → Recovery.t_id x.2 ≠ 0%N ∧
                              ∀ o, o ∈ Recovery.t_ins x.2 → (o.1 < Recovery.t_id x.2)%N;
  (* an input that names a transaction of the chain names one of its outputs *)
  lw_range : ∀ x y o, x ∈ txs → y ∈ txs → o ∈ Recovery.t_ins x.2 → o.1 = Recovery.t_id y.2 →
                      (N.to_nat o.2 < length (Recovery.t_outs y.2))%nat;
  lw_pos : ∀ x o, x ∈ txs → o ∈ Recovery.t_outs x.2 → 0 < o_val o;
  lw_ins_nodup : NoDup (inputs txs);
  lw_cb : ∀ x, x ∈ txs → cb (Recovery.t_id x.2) = true → Recovery.t_ins x.2 = [];
  (* block heights do not decrease along the chain *)
  lw_heights : StronglySorted N.le (map fst txs);
}.

(** * Small list facts *)

Lemma In_elem_of {A} (x : A) l : In x l ↔ x ∈ l.
Proof. symmetry. apply elem_of_list_In. Qed.

Lemma sorted_lt_NoDup (l : list N) : StronglySorted N.lt l → NoDup l.
Proof.
  induction 1 as [|a l Hs IH Hall]; constructor; [|done].
  intros Hin. rewrite Forall_forall in Hall. specialize (Hall a Hin). lia.
Qed.

Lemma ids_fmap txs : ids txs = (fun x : N * rtx => Recovery.t_id x.2) <$> txs.
Proof. done. Qed.

Lemma ids_nodup cb txs : ledger_wf cb txs → NoDup (ids txs).
Proof. intros H. apply sorted_lt_NoDup, H. Qed.

Lemma same_id_same_tx cb txs x y :
  ledger_wf cb txs → x ∈ txs → y ∈ txs → Recovery.t_id x.2 = Recovery.t_id y.2 → x = y.
Proof.
  intros Hwf Hx Hy E. pose proof (ids_nodup cb txs Hwf) as Hnd. rewrite ids_fmap in Hnd.
  apply elem_of_list_lookup in Hx as [i Hi]. apply elem_of_list_lookup in Hy as [j Hj].
  assert (i = j) as ->; [|congruence].
  eapply NoDup_lookup; [exact Hnd| |]; rewrite list_lookup_fmap.
  - by rewrite Hi.
  - rewrite Hj. simpl. by rewrite E.
Qed.

Lemma universe_lookup cb txs x :
  ledger_wf cb txs → x ∈ txs → universe_of cb txs !! Recovery.t_id x.2 = Some (conv cb x.2).
Proof.
  intros Hwf Hx. unfold universe_of. apply elem_of_list_to_map.
  - rewrite <-list_fmap_compose. pose proof (ids_nodup cb txs Hwf) as H. by rewrite ids_fmap in H.
  - apply elem_of_list_fmap. by exists x.
Qed.

Lemma universe_lookup_inv cb txs k t :
  universe_of cb txs !! k = Some t → ∃ x, x ∈ txs ∧ k = Recovery.t_id x.2 ∧ t = conv cb x.2.
Proof.
  intros H. apply elem_of_list_to_map_2 in H. apply elem_of_list_fmap in H as (x & E & Hx).
  exists x. inversion E. done.
Qed.

Lemma universe_lookup_None cb txs k :
  (∀ x, x ∈ txs → Recovery.t_id x.2 ≠ k) → universe_of cb txs !! k = None.
Proof.
  intros H. destruct (universe_of cb txs !! k) eqn:E; [|done].
  apply universe_lookup_inv in E as (x & Hx & -> & _). by destruct (H x Hx).
Qed.

Lemma cred_list_spec outs pos b :
  (pos, b) ∈ cred_list outs ↔ ∃ o k, (pos, o) ∈ outs ∧ o_key o = Some k ∧ b = k.1.2.
Proof.
  unfold cred_list. rewrite elem_of_flat_map. split.
  - intros ([p o] & Hx & Hy). simpl in Hy. destruct (o_key o) as [k|] eqn:Ek; [|by apply elem_of_nil in Hy].
    apply elem_of_list_singleton in Hy. inversion Hy; subst. by exists o, k.
  - intros (o & k & Hx & Ek & ->). exists (pos, o). split; [done|]. simpl. rewrite Ek. by left.
Qed.

Lemma number_from_spec {A} (l : list A) : ∀ a pos x,
  (pos, x) ∈ number_from a l ↔ (a <= pos)%N ∧ l !! N.to_nat (pos - a) = Some x.
Proof.
  induction l as [|y l IH]; intros a pos x; simpl.
  - split; [by intros ?%elem_of_nil|by intros [_ ?]].
  - rewrite elem_of_cons, IH. split.
    + intros [E|[Hle Hl]].
      * inversion E; subst. split; [lia|]. by rewrite N.sub_diag.
      * split; [lia|]. replace (N.to_nat (pos - a)) with (S (N.to_nat (pos - N.succ a))) by lia. done.
    + intros [Hle Hl]. destruct (decide (pos = a)) as [->|Hne].
      * left. rewrite N.sub_diag in Hl. simpl in Hl. by inversion Hl.
      * right. split; [lia|]. replace (N.to_nat (pos - a)) with (S (N.to_nat (pos - N.succ a))) in Hl by lia. done.
Qed.

Lemma number_from_fst_nodup {A} (l : list A) : ∀ a, NoDup (number_from a l).*1.
Proof.
  induction l as [|y l IH]; intros a; simpl; [constructor|]. constructor; [|apply IH].
  intros Hin. apply elem_of_list_fmap in Hin as ([p x] & E & Hx). simpl in E. subst p.
  apply number_from_spec in Hx as [Hle _]. lia.
Qed.

Lemma cred_list_fst_nodup outs : NoDup outs.*1 → NoDup (cred_list outs).*1.
Proof.
  induction outs as [|[p o] outs IH]; simpl; intros Hnd; [constructor|].
  apply NoDup_cons in Hnd as [Hp Hnd]. destruct (o_key o) as [k|]; simpl; [|by apply IH].
  constructor; [|by apply IH].
  intros Hin. apply elem_of_list_fmap in Hin as ([p' b] & E & Hx). simpl in E. subst p'.
  apply cred_list_spec in Hx as (o' & k' & Hx & _). apply Hp. apply elem_of_list_fmap. by exists (p, o').
Qed.

(** * The universe is well formed *)

Lemma conv_wf_tx cb txs x : ledger_wf cb txs → x ∈ txs → wf_tx (Recovery.t_id x.2) (conv cb x.2) = true.
Proof.
  intros Hwf Hx. destruct (lw_ranked _ _ Hwf x Hx) as [Hne Hlt].
  unfold wf_tx. rewrite !andb_true_iff. repeat split.
  - by apply bool_decide_eq_true.
  - apply bool_decide_eq_true. simpl.
    (* the inputs of one transaction are part of the chain's duplicate-free input list *)
    pose proof (lw_ins_nodup _ _ Hwf) as Hnd. unfold inputs in Hnd.
    apply elem_of_list_In, in_split in Hx as (l1 & l2 & ->).
    rewrite flat_map_app in Hnd. apply NoDup_app in Hnd as (_ & _ & Hnd). simpl in Hnd.
    by apply NoDup_app in Hnd as (Hnd & _).
  - apply forallb_forall. intros a Ha. apply bool_decide_eq_true. simpl in Ha.
    apply in_map_iff in Ha as (o & <- & Ho). apply (lw_pos _ _ Hwf x o Hx). by apply elem_of_list_In.
  - apply bool_decide_eq_true. simpl. apply cred_list_fst_nodup, number_from_fst_nodup.
  - apply forallb_forall. intros [pos b] Hic. apply bool_decide_eq_true. simpl in *.
    apply In_elem_of, cred_list_spec in Hic as (o & k & Ho & _).
    apply number_from_spec in Ho as [_ Ho]. apply lookup_lt_Some in Ho. rewrite map_length. lia.
  - apply forallb_forall. intros op Hop. apply bool_decide_eq_true. simpl in Hop.
    apply Hlt. by apply In_elem_of.
  - simpl. destruct (cb (Recovery.t_id x.2)) eqn:Ecb; [|done]. simpl. apply bool_decide_eq_true.
    by apply (lw_cb _ _ Hwf x Hx).
Qed.

Lemma universe_wf cb txs : ledger_wf cb txs → wf_universe (universe_of cb txs) = true.
Proof.
  intros Hwf. unfold wf_universe. rewrite !andb_true_iff. repeat split.
  - apply bool_decide_eq_true. apply universe_lookup_None. intros x Hx. apply (lw_ranked _ _ Hwf x Hx).
  - apply forallb_forall. intros [k t] Hkt. apply In_elem_of, elem_of_map_to_list in Hkt.
    apply universe_lookup_inv in Hkt as (x & Hx & -> & ->). simpl. by apply (conv_wf_tx cb txs).
  - unfold ins_in_range_b. apply forallb_forall. intros [k t] Hkt. apply In_elem_of, elem_of_map_to_list in Hkt.
    apply universe_lookup_inv in Hkt as (x & Hx & -> & ->). simpl.
    apply forallb_forall. intros op Hop. apply In_elem_of in Hop.
    destruct (universe_of cb txs !! op.1) as [p|] eqn:Ep; [|done].
    apply universe_lookup_inv in Ep as (y & Hy & Ey & ->). apply bool_decide_eq_true. simpl.
    rewrite map_length. by apply (lw_range _ _ Hwf x y op).
Qed.

(** * The recorded list: a subsequence of the chain's transactions *)

Lemma subseq_incl {A} (l1 l2 : list A) : subseq l1 l2 → ∀ x, x ∈ l1 → x ∈ l2.
Proof.
  induction 1 as [|l1 l2 y Hs IH|l1 l2 y Hs IH]; intros x Hx; [done| |].
  - right. by apply IH.
  - apply elem_of_cons in Hx as [->|Hx]; [left|right; by apply IH].
Qed.

Lemma subseq_fmap {A B} (f : A → B) (l1 l2 : list A) : subseq l1 l2 → subseq (f <$> l1) (f <$> l2).
Proof. induction 1; csimpl; by constructor. Qed.

Lemma subseq_sorted {A} (R : relation A) (l1 l2 : list A) :
  subseq l1 l2 → StronglySorted R l2 → StronglySorted R l1.
Proof.
  induction 1 as [|l1 l2 y Hs IH|l1 l2 y Hs IH]; intros Hso; [done| |].
  - apply StronglySorted_inv in Hso as [Hso _]. by apply IH.
  - apply StronglySorted_inv in Hso as [Hso Hall]. constructor; [by apply IH|].
    rewrite Forall_forall in *. intros z Hz. apply Hall. by apply (subseq_incl l1 l2).
Qed.

Record rec_ok (txs : list (N * rtx)) (rec : list (N * N)) : Prop := {
  ro_in : ∀ r, r ∈ rec → ∃ x, x ∈ txs ∧ x.1 = r.1 ∧ Recovery.t_id x.2 = r.2;
  ro_ids : StronglySorted N.lt rec.*2;
  ro_heights : StronglySorted N.le rec.*1;
}.

Lemma ledger_rec_ok cb txs : ledger_wf cb txs → rec_ok txs (ledger txs).1.
Proof.
  intros Hwf. pose proof (ledger_rec_subseq txs) as Hs. split.
  - intros r Hr. apply (subseq_incl _ _ Hs) in Hr. unfold tx_tags in Hr.
    apply elem_of_list_fmap in Hr as (x & -> & Hx). by exists x.
  - apply (subseq_sorted _ _ ((tx_tags txs).*2)); [by apply subseq_fmap|].
    unfold tx_tags. rewrite <-list_fmap_compose. apply (lw_ids _ _ Hwf).
  - apply (subseq_sorted _ _ ((tx_tags txs).*1)); [by apply subseq_fmap|].
    unfold tx_tags. rewrite <-list_fmap_compose. apply (lw_heights _ _ Hwf).
Qed.

(** * The facts of the history *)

Definition conf_entry (r : N * N) : N * (Z * N) := (r.2, (Z.of_N r.1, r.1)).

Definition facts_of (dn : list (N * N)) : facts :=
  {| f_conf := list_to_map (conf_entry <$> dn); f_unconf := ∅; f_leases := ∅ |}.

Lemma facts_conf_lookup dn k b :
  f_conf (facts_of dn) !! k = Some b → ∃ d, d ∈ dn ∧ d.2 = k ∧ b = (Z.of_N d.1, d.1).
Proof.
  simpl. intros H. apply elem_of_list_to_map_2 in H. apply elem_of_list_fmap in H as (d & E & Hd).
  exists d. inversion E. done.
Qed.

Lemma facts_conf_None dn k : k ∉ dn.*2 → f_conf (facts_of dn) !! k = None.
Proof.
  intros H. simpl. apply not_elem_of_list_to_map_1. rewrite <-list_fmap_compose. exact H.
Qed.

Lemma facts_conf_Some dn d :
  NoDup dn.*2 → d ∈ dn → f_conf (facts_of dn) !! d.2 = Some (Z.of_N d.1, d.1).
Proof.
  intros Hnd Hd. simpl. apply elem_of_list_to_map; [by rewrite <-list_fmap_compose|].
  apply elem_of_list_fmap. by exists d.
Qed.

Lemma foldl_delete_empty {K A} `{Countable K} (l : list K) :
  foldl (fun (m : gmap K A) op => delete op m) ∅ l = ∅.
Proof. induction l as [|x l IH]; simpl; [done|]. by rewrite delete_empty. Qed.

Lemma spec_step_confirm U dn r c :
  r.2 ∉ dn.*2 →
  spec_step U {| fs := facts_of dn; sclock := c |} (confirm_of r) =
  {| fs := facts_of (dn ++ [r]); sclock := c |}.
Proof.
  intros Hr. unfold spec_step, confirm_of. cbn [fs sclock]. f_equal.
  unfold spec_confirm. rewrite (facts_conf_None dn r.2 Hr).
  unfold remove_unconf_with_descendants, facts_of. cbn [f_conf f_unconf f_leases].
  f_equal.
  - rewrite fmap_app. change (conf_entry <$> [r]) with [(r.2, (Z.of_N r.1, r.1))].
    rewrite list_to_map_snoc; [done|].
    by rewrite <-list_fmap_compose.
  - apply set_eq. intros t. rewrite elem_of_filter. set_solver.
  - apply foldl_delete_empty.
Qed.

(** * Every recorded confirmation is one a validating node could emit *)

Lemma flat_map_nodup_disjoint {A B} (g : A → list B) (l : list A) x y o :
  NoDup (flat_map g l) → x ∈ l → y ∈ l → o ∈ g x → o ∈ g y → x = y.
Proof.
  induction l as [|a l IH]; simpl; intros Hnd Hx Hy Hox Hoy; [by apply elem_of_nil in Hx|].
  apply NoDup_app in Hnd as (_ & Hdis & Hnd).
  apply elem_of_cons in Hx as [->|Hx]; apply elem_of_cons in Hy as [->|Hy]; [done| | |by apply IH].
  - exfalso. apply (Hdis o Hox). apply elem_of_flat_map. by exists y.
  - exfalso. apply (Hdis o Hoy). apply elem_of_flat_map. by exists x.
Qed.

Lemma tx_ins_universe cb txs x :
  ledger_wf cb txs → x ∈ txs → tx_ins (universe_of cb txs) (Recovery.t_id x.2) = Recovery.t_ins x.2.
Proof. intros Hwf Hx. unfold tx_ins. by rewrite (universe_lookup cb txs x Hwf Hx). Qed.

Lemma event_ok_confirm cb txs dn r :
  ledger_wf cb txs →
  (∃ x, x ∈ txs ∧ x.1 = r.1 ∧ Recovery.t_id x.2 = r.2) →
  (∀ d, d ∈ dn → (∃ y, y ∈ txs ∧ y.1 = d.1 ∧ Recovery.t_id y.2 = d.2) ∧ (d.2 < r.2)%N ∧ (d.1 <= r.1)%N) →
  event_ok (universe_of cb txs) (facts_of dn) (confirm_of r) = true.
Proof.
  intros Hwf (x & Hx & Hx1 & Hx2) Hdone.
  assert (Hnotin : r.2 ∉ dn.*2).
  { intros Hin. apply elem_of_list_fmap in Hin as (d & E & Hd). destruct (Hdone d Hd) as (_ & Hlt & _). lia. }
  assert (Hcl : ∀ c, c ∈ conf_list (facts_of dn) →
                ∃ d y, d ∈ dn ∧ d.2 = c ∧ y ∈ txs ∧ Recovery.t_id y.2 = c ∧ (c < r.2)%N).
  { intros c Hc. unfold conf_list in Hc. apply elem_of_list_fmap in Hc as ([c' b] & -> & Hcb).
    apply elem_of_map_to_list in Hcb. apply facts_conf_lookup in Hcb as (d & Hd & E & _). simpl.
    destruct (Hdone d Hd) as ((y & Hy & _ & Hy2) & Hlt & _). exists d, y. rewrite <-E. repeat split; done. }
  unfold event_ok, confirm_of. cbn [fst snd]. rewrite <-Hx2 at 1. rewrite (universe_lookup cb txs x Hwf Hx).
  rewrite (facts_conf_None dn r.2 Hnotin).
  rewrite !andb_true_iff. repeat split.
  - apply bool_decide_eq_true. lia.
  - unfold height_hash_ok. apply forallb_forall. intros [k b] Hkb. apply In_elem_of, elem_of_map_to_list in Hkb.
    apply facts_conf_lookup in Hkb as (d & Hd & _ & ->). simpl.
    destruct (decide (Z.of_N d.1 = Z.of_N r.1)) as [E|Hne].
    + apply orb_true_iff. right. apply bool_decide_eq_true. lia.
    + apply orb_true_iff. left. apply negb_true_iff, bool_decide_eq_false. done.
  - apply forallb_forall. intros c Hc. apply In_elem_of, Hcl in Hc as (d & y & Hd & Ed & Hy & Ey & Hlt).
    apply negb_true_iff. unfold shares_input. apply andb_false_iff. right.
    apply not_true_iff_false. intros Hex. apply existsb_elem_of in Hex as (op & Hop & Hsp).
    unfold spends in Hsp. apply bool_decide_eq_true in Hsp.
    rewrite <-Hx2 in Hop. rewrite (tx_ins_universe cb txs x Hwf Hx) in Hop.
    rewrite <-Ey, (tx_ins_universe cb txs y Hwf Hy) in Hsp.
    assert (x = y) as ->.
    { apply (flat_map_nodup_disjoint (fun z : N * rtx => Recovery.t_ins z.2) txs x y op); try done.
      apply (lw_ins_nodup _ _ Hwf). }
    lia.
  - apply forallb_forall. intros c Hc. apply In_elem_of, Hcl in Hc as (d & y & Hd & Ed & Hy & Ey & Hlt).
    apply negb_true_iff. unfold spends_output_of. apply not_true_iff_false. intros Hex.
    apply existsb_elem_of in Hex as (op & Hop & Hsp). apply bool_decide_eq_true in Hsp.
    rewrite <-Ey, (tx_ins_universe cb txs y Hwf Hy) in Hop.
    destruct (lw_ranked _ _ Hwf y Hy) as [_ Hr]. specialize (Hr op Hop). lia.
  - apply forallb_forall. intros op Hop. simpl in Hop.
    destruct (f_conf (facts_of dn) !! op.1) as [[ph pb]|] eqn:Ec.
    + apply orb_true_iff. right. apply facts_conf_lookup in Ec as (d & Hd & _ & E). inversion E; subst.
      destruct (Hdone d Hd) as (_ & _ & Hle). apply bool_decide_eq_true. lia.
    + apply orb_true_iff. left. apply negb_true_iff. unfold Ledger.known. rewrite Ec.
      apply orb_false_iff. split; apply bool_decide_eq_false; [by intros [? ?]|set_solver].
Qed.

Lemma consistent_from_rec cb txs : ∀ rest dn c,
  ledger_wf cb txs → rec_ok txs (dn ++ rest) →
  consistent_from (universe_of cb txs) {| fs := facts_of dn; sclock := c |} (history_of rest) = true.
Proof.
  induction rest as [|r rest IH]; intros dn c Hwf Hok; [done|].
  change (history_of (r :: rest)) with (confirm_of r :: history_of rest).
  cbn [consistent_from fs]. apply andb_true_iff.
  assert (Hsplit : ∀ d, d ∈ dn → (d.2 < r.2)%N ∧ (d.1 <= r.1)%N).
  { intros d Hd. pose proof (ro_ids _ _ Hok) as Hi. pose proof (ro_heights _ _ Hok) as Hh.
    rewrite fmap_app in Hi, Hh. csimpl in Hi. csimpl in Hh.
    apply elem_of_list_split in Hd as (l1 & l2 & ->).
    rewrite fmap_app in Hi, Hh. csimpl in Hi. csimpl in Hh. rewrite <-!app_assoc in Hi, Hh. simpl in Hi, Hh.
    apply StronglySorted_app_inv_r, StronglySorted_inv in Hi as [_ Hi].
    apply StronglySorted_app_inv_r, StronglySorted_inv in Hh as [_ Hh].
    rewrite Forall_forall in Hi, Hh. split; [apply Hi|apply Hh]; set_solver. }
  assert (Hnotin : r.2 ∉ dn.*2).
  { intros Hin. apply elem_of_list_fmap in Hin as (d & E & Hd). destruct (Hsplit d Hd). lia. }
  split.
  - apply (event_ok_confirm cb txs dn r Hwf).
    + apply (ro_in _ _ Hok). set_solver.
    + intros d Hd. split; [apply (ro_in _ _ Hok); set_solver|by apply Hsplit].
  - rewrite spec_step_confirm by done. apply IH; [done|]. by rewrite <-app_assoc.
Qed.

Lemma history_consistent cb txs :
  ledger_wf cb txs → chain_consistent (universe_of cb txs) (history_of (ledger txs).1) = true.
Proof.
  intros Hwf. unfold chain_consistent.
  change empty_facts with (facts_of []). apply consistent_from_rec; [done|]. by apply (ledger_rec_ok cb).
Qed.

Lemma spec_run_history U : ∀ rest dn c,
  NoDup (dn ++ rest).*2 →
  foldl (spec_step U) {| fs := facts_of dn; sclock := c |} (history_of rest) =
  {| fs := facts_of (dn ++ rest); sclock := c |}.
Proof.
  induction rest as [|r rest IH]; intros dn c Hnd; [simpl; by rewrite app_nil_r|].
  change (history_of (r :: rest)) with (confirm_of r :: history_of rest). cbn [foldl].
  rewrite spec_step_confirm.
  - rewrite IH; [by rewrite <-app_assoc|]. by rewrite <-app_assoc.
  - rewrite fmap_app in Hnd. apply NoDup_app in Hnd as (_ & Hdis & _).
    intros Hin. apply (Hdis _ Hin). csimpl. left.
Qed.

Lemma spec_run_facts U rec : NoDup rec.*2 → fs (spec_run U (history_of rec)) = facts_of rec.
Proof.
  intros Hnd. unfold spec_run. change empty_facts with (facts_of []).
  by rewrite (spec_run_history U rec [] 0 Hnd).
Qed.

(** * The model's unspent set as a filter of the created wallet outputs *)

Definition all_wallet_outs (l : list (N * rtx)) : list ((N * N) * Z) :=
  flat_map (fun x : N * rtx => wallet_outs x.2) l.

Definition unspent_in (l : list (N * rtx)) (u : (N * N) * Z) : bool := negb (mem_op u.1 (inputs l)).

Lemma filter_filter_bool {A} (f g : A → bool) l :
  List.filter f (List.filter g l) = List.filter (fun x => g x && f x) l.
Proof.
  induction l as [|a l IH]; simpl; [done|]. destruct (g a); simpl; [|done]. destruct (f a); by rewrite IH.
Qed.

Lemma filter_ext_bool {A} (f g : A → bool) l :
  (∀ x, x ∈ l → f x = g x) → List.filter f l = List.filter g l.
Proof.
  induction l as [|a l IH]; simpl; intros H; [done|].
  rewrite (H a) by left. rewrite IH; [done|]. intros x Hx. apply H. by right.
Qed.

Lemma mem_op_app o l1 l2 : mem_op o (l1 ++ l2) = mem_op o l1 || mem_op o l2.
Proof. unfold mem_op. apply existsb_app. Qed.

Lemma ledger_unspent_filter l :
  (∀ l1 x l2, l = l1 ++ x :: l2 → ∀ u, u ∈ wallet_outs x.2 → ¬ In u.1 (inputs (l1 ++ [x]))) →
  (ledger l).2 = List.filter (unspent_in l) (all_wallet_outs l).
Proof.
  induction l as [|x l IH] using rev_ind; intros Hac; [done|].
  rewrite ledger_snoc. unfold ledger_step, ledger_tx. cbn [snd].
  rewrite IH.
  - unfold all_wallet_outs. rewrite flat_map_app, List.filter_app. simpl. rewrite app_nil_r. f_equal.
    + rewrite filter_filter_bool. apply filter_ext_bool. intros u Hu. unfold unspent_in.
      rewrite inputs_app, mem_op_app. unfold inputs at 2. simpl. rewrite app_nil_r.
      by rewrite negb_orb.
    + symmetry. apply filter_all_true. intros u Hu. unfold unspent_in. apply negb_true_iff.
      apply mem_op_false. apply (Hac l x [] eq_refl u). by apply In_elem_of.
  - intros l1 y l2 E u Hu. apply (Hac l1 y (l2 ++ [x])); [|done]. rewrite E, <-app_assoc. done.
Qed.

Lemma sorted_lt_app_le (l1 : list N) a l2 b :
  StronglySorted N.lt (l1 ++ a :: l2) → b ∈ l1 ++ [a] → (b <= a)%N.
Proof.
  intros Hs Hb. apply elem_of_app in Hb as [Hb|Hb].
  - apply elem_of_list_split in Hb as (k1 & k2 & ->). rewrite <-app_assoc in Hs. simpl in Hs.
    apply StronglySorted_app_inv_r, StronglySorted_inv in Hs as [_ Hs]. rewrite Forall_forall in Hs.
    assert (b < a)%N; [apply Hs; set_solver|lia].
  - apply elem_of_list_singleton in Hb. lia.
Qed.

Lemma wallet_outs_id t u : u ∈ wallet_outs t → u.1.1 = Recovery.t_id t.
Proof.
  unfold wallet_outs, wallet_outs_from. intros Hu. apply elem_of_flat_map in Hu as ([pos o] & _ & Hu).
  simpl in Hu. destruct (o_key o); [|by apply elem_of_nil in Hu]. apply elem_of_list_singleton in Hu. by subst.
Qed.

Lemma ledger_wf_acyclic cb txs :
  ledger_wf cb txs →
  ∀ l1 x l2, txs = l1 ++ x :: l2 → ∀ u, u ∈ wallet_outs x.2 → ¬ In u.1 (inputs (l1 ++ [x])).
Proof.
  intros Hwf l1 x l2 E u Hu Hin. unfold inputs in Hin. apply in_flat_map in Hin as (y & Hy & Ho).
  apply In_elem_of in Hy. apply In_elem_of in Ho.
  assert (Hyt : y ∈ txs) by (rewrite E; set_solver).
  destruct (lw_ranked _ _ Hwf y Hyt) as [_ Hlt]. specialize (Hlt _ Ho).
  assert (Eid : u.1.1 = Recovery.t_id x.2) by exact (wallet_outs_id _ _ Hu). rewrite Eid in Hlt.
  pose proof (lw_ids _ _ Hwf) as Hs. rewrite E, ids_app in Hs. simpl in Hs.
  assert (Recovery.t_id y.2 <= Recovery.t_id x.2)%N; [|lia].
  apply (sorted_lt_app_le (ids l1) _ (ids l2)); [done|].
  change [Recovery.t_id x.2] with (ids [x]). rewrite <-ids_app. rewrite ids_fmap. apply elem_of_list_fmap. by exists y.
Qed.

(** * The ledger balance of the facts, transaction by transaction *)

Definition height_in (rec : list (N * N)) (id : N) : option N :=
  fst <$> List.find (fun r : N * N => N.eqb r.2 id) rec.

(** an unspent output counts at the tip unless it is an immature coinbase output *)
Definition mature (cb : N → bool) (rec : list (N * N)) (tip : Z) (u : (N * N) * Z) : bool :=
  negb (cb u.1.1) ||
  match height_in rec u.1.1 with
  | Some h => bool_decide (coinbase_maturity <= tip - Z.of_N h + 1)
  | None => false
  end.

Definition mature_sum (cb : N → bool) (rec : list (N * N)) (tip : Z) (l : list ((N * N) * Z)) : Z :=
  sumZ (map (fun u => if mature cb rec tip u then u.2 else 0) l).

Lemma height_in_rec rec r : NoDup rec.*2 → r ∈ rec → height_in rec r.2 = Some r.1.
Proof.
  unfold height_in. induction rec as [|a rec IH]; intros Hnd Hr; [by apply elem_of_nil in Hr|].
  csimpl in Hnd. apply NoDup_cons in Hnd as [Ha Hnd]. simpl.
  apply elem_of_cons in Hr as [->|Hr].
  - by rewrite N.eqb_refl.
  - destruct (N.eqb_spec a.2 r.2) as [E|Hne]; [|by apply IH].
    exfalso. apply Ha. rewrite E. apply elem_of_list_fmap. by exists r.
Qed.

Definition bal_val (U : universe) (F : facts) (minconf sync now : Z) : stx * N * bool → option Z :=
  fun '(t, i, _) =>
    let op : N * N := (Store.t_id t, i) in
    if spent_by_known U F op || leased F op now then None
    else match confs_of F (Store.t_id t) sync with
         | Some c => if bool_decide (minconf <= c) && (negb (t_coinbase t) || bool_decide (coinbase_maturity <= c))
                     then Some (out_amount t i) else None
         | None => if bool_decide (minconf = 0) then Some (out_amount t i) else None
         end.

Lemma spec_balance_unfold U F minconf sync now :
  spec_balance U F minconf sync now = sumZ (omap (bal_val U F minconf sync now) (credited_outputs U F)).
Proof. reflexivity. Qed.

Definition cred_triples (U : universe) (h : N) : list (stx * N * bool) :=
  match U !! h with
  | Some t => map (fun ic : N * bool => (t, ic.1, ic.2)) (t_creds t)
  | None => []
  end.

Lemma credited_outputs_unfold U F : credited_outputs U F = flat_map (cred_triples U) (known_list F).
Proof. reflexivity. Qed.

Lemma subseq_sum {A} (f : A → Z) (l1 l2 : list A) :
  subseq l1 l2 → NoDup l2 → (∀ y, y ∈ l2 → y ∉ l1 → f y = 0) →
  sumZ (map f l1) = sumZ (map f l2).
Proof.
  induction 1 as [|l1 l2 x Hs IH|l1 l2 x Hs IH]; intros Hnd Hz; [done| |].
  - apply NoDup_cons in Hnd as [Hx Hnd]. simpl. unfold sumZ in *. simpl.
    rewrite (Hz x); [|left|]. 
    + rewrite IH; [lia|done|]. intros y Hy Hy'. apply Hz; [by right|done].
    + intros Hin. apply Hx. by apply (subseq_incl l1 l2).
  - apply NoDup_cons in Hnd as [Hx Hnd]. unfold sumZ in *. simpl.
    rewrite IH; [done|done|]. intros y Hy Hy'. apply Hz; [by right|].
    intros Hin. apply elem_of_cons in Hin as [->|Hin]; done.
Qed.

Lemma sumZ_filter_bool {A} (g : A → bool) (f : A → Z) l :
  sumZ (map f (List.filter g l)) = sumZ (map (fun x => if g x then f x else 0) l).
Proof.
  unfold sumZ. induction l as [|a l IH]; simpl; [done|]. destruct (g a); simpl; lia.
Qed.

Section Balance.
  Variable cb : N → bool.
  Variable txs : list (N * rtx).
  Hypothesis Hwf : ledger_wf cb txs.
  Variable tip now : Z.
  Hypothesis Htip : ∀ x, x ∈ txs → Z.of_N x.1 <= tip.

  Let U := universe_of cb txs.
  Let rec := (ledger txs).1.
  Let F := facts_of rec.

  Lemma rec_nodup : NoDup rec.*2.
  Proof. apply sorted_lt_NoDup. apply (ro_ids txs). by apply (ledger_rec_ok cb). Qed.

  (** a transaction with a wallet output is recorded *)
  Lemma paying_tx_recorded x : x ∈ txs → wallet_outs x.2 ≠ [] → (x.1, Recovery.t_id x.2) ∈ rec.
  Proof.
    intros Hx Hne. apply elem_of_list_In, in_split in Hx as (l1 & l2 & E). destruct x as [h t]. simpl in *.
    apply In_elem_of. unfold rec. rewrite E. apply ledger_records. left.
    rewrite has_keys_wallet_outs. by destruct (wallet_outs t).
  Qed.

  Lemma known_list_elem id : id ∈ known_list F ↔ id ∈ rec.*2.
  Proof.
    unfold known_list. cbn [f_unconf F facts_of]. rewrite elements_empty, app_nil_r. split.
    - intros Hin. apply elem_of_list_fmap in Hin as ([k b] & -> & Hkb). apply elem_of_map_to_list in Hkb.
      apply facts_conf_lookup in Hkb as (d & Hd & E & _). simpl. rewrite <-E. apply elem_of_list_fmap. by exists d.
    - intros Hin. apply elem_of_list_fmap in Hin as (d & -> & Hd).
      apply elem_of_list_fmap. exists (d.2, (Z.of_N d.1, d.1)). split; [done|].
      apply elem_of_map_to_list. apply (facts_conf_Some rec d rec_nodup Hd).
  Qed.

  Lemma known_list_perm : known_list F ≡ₚ rec.*2.
  Proof.
    unfold known_list. cbn [f_unconf f_conf F facts_of]. rewrite elements_empty, app_nil_r.
    rewrite map_fmap. rewrite map_to_list_to_map.
    - rewrite <-list_fmap_compose. done.
    - rewrite <-list_fmap_compose. exact rec_nodup.
  Qed.

  (** the ledger's "spent by a known transaction" is "spent by the chain" *)
  Lemma spent_by_known_inputs x u :
    x ∈ txs → u ∈ wallet_outs x.2 → spent_by_known U F u.1 = mem_op u.1 (inputs txs).
  Proof.
    intros Hx Hu. apply Bool.eq_iff_eq_true. rewrite mem_op_In. unfold spent_by_known.
    rewrite existsb_elem_of. split.
    - intros (id & Hid & Hsp). apply known_list_elem in Hid. apply elem_of_list_fmap in Hid as (d & -> & Hd).
      destruct (ro_in txs rec (ledger_rec_ok cb txs Hwf) d Hd) as (y & Hy & _ & Ey).
      unfold spends in Hsp. apply bool_decide_eq_true in Hsp. rewrite <-Ey in Hsp.
      unfold U in Hsp. rewrite (tx_ins_universe cb txs y Hwf Hy) in Hsp.
      unfold inputs. apply in_flat_map. exists y. split; by apply In_elem_of.
    - intros Hin. unfold inputs in Hin. apply in_flat_map in Hin as (y & Hy & Ho).
      apply In_elem_of in Hy. apply In_elem_of in Ho.
      pose proof Hy as Hy'. apply elem_of_list_In, in_split in Hy' as (l1 & l2 & E).
      destruct (lw_ranked _ _ Hwf y Hy) as [_ Hlt]. specialize (Hlt _ Ho).
      assert (Eid : u.1.1 = Recovery.t_id x.2) by exact (wallet_outs_id _ _ Hu). rewrite Eid in Hlt.
      (* the creator comes before the spender *)
      assert (Hx1 : x ∈ l1).
      { pose proof (lw_ids _ _ Hwf) as Hs. rewrite E, ids_app in Hs. simpl in Hs.
        rewrite E in Hx. apply elem_of_app in Hx as [Hx|Hx]; [done|]. exfalso.
        apply StronglySorted_app_inv_r, StronglySorted_inv in Hs as [_ Hs]. rewrite Forall_forall in Hs.
        apply elem_of_cons in Hx as [->|Hx]; [lia|].
        assert (Recovery.t_id y.2 < Recovery.t_id x.2)%N; [|lia].
        apply Hs. rewrite ids_fmap. apply elem_of_list_fmap. by exists x. }
      assert (Hrec : (y.1, Recovery.t_id y.2) ∈ rec).
      { destruct y as [h t]. simpl in *. apply In_elem_of. unfold rec. rewrite E. apply ledger_records. right.
        exists u.1. split; [by apply In_elem_of|]. split.
        - unfold created. apply in_flat_map. exists x. split; [by apply In_elem_of|].
          apply in_map. by apply In_elem_of.
        - intros Hin1. pose proof (lw_ins_nodup _ _ Hwf) as Hnd. rewrite E, inputs_app in Hnd.
          apply NoDup_app in Hnd as (_ & Hdis & _). apply (Hdis u.1); [by apply In_elem_of|].
          unfold inputs. simpl. apply elem_of_app. left. done. }
      exists (Recovery.t_id y.2). split.
      + apply known_list_elem. apply elem_of_list_fmap. by exists (y.1, Recovery.t_id y.2).
      + unfold spends. apply bool_decide_eq_true. unfold U. by rewrite (tx_ins_universe cb txs y Hwf Hy).
  Qed.

  Definition chain_val (u : (N * N) * Z) : Z :=
    if unspent_in txs u then (if mature cb rec tip u then u.2 else 0) else 0.

  Definition dv (c : stx * N * bool) : Z := default 0 (bal_val U F 1 tip now c).

  (** one credited output of the universe = one wallet output of the chain *)
  Lemma credit_value x pos o k :
    x ∈ txs → (pos, o) ∈ number_from 0%N (Recovery.t_outs x.2) → o_key o = Some k →
    dv (conv cb x.2, pos, k.1.2) = chain_val ((Recovery.t_id x.2, pos), o_val o).
  Proof.
    intros Hx Hpo Ek.
    assert (Hu : ((Recovery.t_id x.2, pos), o_val o) ∈ wallet_outs x.2).
    { unfold wallet_outs, wallet_outs_from. apply elem_of_flat_map. exists (pos, o). split; [done|].
      simpl. rewrite Ek. by left. }
    assert (Hrec : (x.1, Recovery.t_id x.2) ∈ rec).
    { apply paying_tx_recorded; [done|]. intros E. rewrite E in Hu. by apply elem_of_nil in Hu. }
    unfold dv, bal_val, chain_val. cbn [conv Store.t_id t_coinbase].
    pose proof (spent_by_known_inputs x _ Hx Hu) as Hs. cbn [fst snd] in Hs. rewrite Hs. cbn [fst snd].
    unfold unspent_in. cbn [fst snd].
    assert (Hl : leased F (Recovery.t_id x.2, pos) now = false) by (unfold leased; cbn; by rewrite lookup_empty).
    rewrite Hl, orb_false_r.
    destruct (mem_op (Recovery.t_id x.2, pos) (inputs txs)); [done|]. cbn [negb].
    pose proof (facts_conf_Some rec (x.1, Recovery.t_id x.2) rec_nodup Hrec) as Hc. cbn [fst snd] in Hc.
    unfold confs_of. unfold F. rewrite Hc. cbn [fst snd].
    pose proof (height_in_rec rec (x.1, Recovery.t_id x.2) rec_nodup Hrec) as Hh. cbn [fst snd] in Hh.
    unfold mature. cbn [fst snd]. rewrite Hh. cbn [fst snd].
    assert (Hamt : out_amount (conv cb x.2) pos = o_val o).
    { unfold out_amount. cbn [conv Store.t_outs]. apply number_from_spec in Hpo as [_ Hl'].
      rewrite N.sub_0_r in Hl'. erewrite nth_lookup_Some; [done|]. rewrite map_fmap, list_lookup_fmap, Hl'. done. }
    rewrite Hamt.
    assert (H1 : bool_decide (1 <= tip - Z.of_N x.1 + 1) = true).
    { apply bool_decide_eq_true. specialize (Htip x Hx). lia. }
    rewrite H1. cbn [andb].
    destruct (negb (cb (Recovery.t_id x.2)) || bool_decide (coinbase_maturity <= tip - Z.of_N x.1 + 1)); done.
  Qed.

  Lemma credit_values_sum x : ∀ outs,
    x ∈ txs → (∀ e, e ∈ outs → e ∈ number_from 0%N (Recovery.t_outs x.2)) →
    sumZ (map dv (map (fun ic : N * bool => (conv cb x.2, ic.1, ic.2)) (cred_list outs))) =
    sumZ (map chain_val (wallet_outs_from (Recovery.t_id x.2) outs)).
  Proof.
    induction outs as [|[pos o] outs IH]; intros Hx Hsub; [done|].
    unfold cred_list, wallet_outs_from. cbn [flat_map fst snd].
    fold (cred_list outs). fold (wallet_outs_from (Recovery.t_id x.2) outs).
    rewrite !map_app, !sumZ_app. rewrite IH; [|done|intros e He; apply Hsub; by right].
    f_equal. destruct (o_key o) as [k|] eqn:Ek; [|done]. unfold sumZ. simpl.
    rewrite (credit_value x pos o k Hx); [done| |done]. apply Hsub. by left.
  Qed.

  Lemma tx_credit_sum x :
    x ∈ txs →
    sumZ (map dv (cred_triples U (Recovery.t_id x.2))) = sumZ (map chain_val (wallet_outs x.2)).
  Proof.
    intros Hx. unfold cred_triples, U. rewrite (universe_lookup cb txs x Hwf Hx). cbn [conv t_creds].
    by apply credit_values_sum.
  Qed.

  (** the ledger balance of the history's facts for minconf 1 at the tip is
      the mature part of the chain's unspent wallet outputs *)
  Lemma spec_balance_is_mature_sum :
    spec_balance U F 1 tip now = mature_sum cb rec tip (ledger txs).2.
  Proof.
    rewrite spec_balance_unfold, credited_outputs_unfold.
    rewrite (sumZ_perm _ (omap (bal_val U F 1 tip now) (flat_map (cred_triples U) rec.*2))).
    2:{ apply omap_Permutation. apply Permutation_flat_map. apply known_list_perm. }
    rewrite sumZ_omap. fold dv. rewrite sumZ_flat_map.
    rewrite <-(map_fmap snd rec), sumZ_map_map.
    (* from the recorded transactions to all transactions of the chain *)
    rewrite (subseq_sum (fun r : N * N => sumZ (map dv (cred_triples U r.2))) rec (tx_tags txs)).
    - unfold tx_tags. rewrite sumZ_map_map. cbn [snd].
      rewrite (sumZ_map_ext _ (fun x : N * rtx => sumZ (map chain_val (wallet_outs x.2)))).
      2:{ intros x Hx. by apply tx_credit_sum. }
      etrans; [symmetry; exact (sumZ_flat_map (fun x : N * rtx => wallet_outs x.2) chain_val txs)|].
      fold (all_wallet_outs txs).
      rewrite (ledger_unspent_filter txs (ledger_wf_acyclic cb txs Hwf)).
      unfold mature_sum. rewrite sumZ_filter_bool. done.
    - apply ledger_rec_subseq.
    - unfold tx_tags. apply (NoDup_fmap_1 snd).
      pose proof (ids_nodup cb txs Hwf) as Hnd. rewrite ids_fmap in Hnd.
      rewrite (map_fmap (λ x : N * rtx, (x.1, Recovery.t_id x.2)) txs), <-list_fmap_compose. exact Hnd.
    - intros r Hr Hnr. unfold tx_tags in Hr. rewrite map_fmap in Hr. apply elem_of_list_fmap in Hr as (x & -> & Hx).
      cbn [snd]. rewrite (tx_credit_sum x Hx).
      destruct (wallet_outs x.2) eqn:Ew; [done|]. exfalso. apply Hnr.
      apply paying_tx_recorded; [done|]. by rewrite Ew.
  Qed.
End Balance.

(** * Heights of the scanned chain *)

Lemma number_from_sorted {A} (l : list A) : ∀ a, StronglySorted N.lt (number_from a l).*1.
Proof.
  induction l as [|y l IH]; intros a; simpl; [constructor|]. constructor; [apply IH|].
  apply Forall_forall. intros h Hh. apply elem_of_list_fmap in Hh as ([p x] & -> & Hx).
  apply number_from_spec in Hx as [Hle _]. simpl. lia.
Qed.

Lemma sorted_filter_bool {A} (R : relation A) (f : A → bool) l :
  StronglySorted R l → StronglySorted R (List.filter f l).
Proof.
  induction 1 as [|a l Hs IH Hall]; simpl; [constructor|]. destruct (f a); [|done].
  constructor; [done|]. rewrite Forall_forall in *. intros x Hx. apply Hall.
  apply elem_of_list_In. apply elem_of_list_In in Hx. by apply List.filter_In in Hx as [? _].
Qed.

Lemma sorted_fst_filter {B} (f : N * B → bool) (l : list (N * B)) :
  StronglySorted N.lt l.*1 → StronglySorted N.lt (List.filter f l).*1.
Proof.
  induction l as [|a l IH]; simpl; intros Hs; [constructor|].
  apply StronglySorted_inv in Hs as [Hs Hall]. destruct (f a); csimpl; [|by apply IH].
  constructor; [by apply IH|]. rewrite Forall_forall in *. intros h Hh. apply Hall.
  apply elem_of_list_fmap in Hh as (x & -> & Hx). apply elem_of_list_fmap. exists x. split; [done|].
  apply elem_of_list_In. apply elem_of_list_In in Hx. by apply List.filter_In in Hx as [? _].
Qed.

Lemma txs_of_heights_sorted (hb : list (N * block)) :
  StronglySorted N.lt hb.*1 → StronglySorted N.le (map fst (txs_of hb)).
Proof.
  induction hb as [|[h b] hb IH]; simpl; intros Hs; [constructor|].
  apply StronglySorted_inv in Hs as [Hs Hall]. specialize (IH Hs).
  unfold txs_of. simpl. fold (txs_of hb). rewrite map_app.
  induction b as [|t b IHb]; simpl; [done|]. constructor; [done|].
  apply Forall_forall. intros h' Hh'. apply elem_of_app in Hh' as [Hh'|Hh'].
  - apply elem_of_list_In, in_map_iff in Hh' as (x & <- & Hx). apply in_map_iff in Hx as (t' & <- & _). simpl. lia.
  - apply elem_of_list_In, in_map_iff in Hh' as (x & <- & Hx). unfold txs_of in Hx.
    apply in_flat_map in Hx as (y & Hy & Hx). apply in_map_iff in Hx as (t' & <- & _). simpl.
    rewrite Forall_forall in Hall. assert (h < y.1)%N; [|lia]. apply Hall. apply elem_of_list_fmap.
    exists y. split; [done|]. by apply elem_of_list_In.
Qed.

Lemma scanned_chain_heights bday (chain : list block) :
  StronglySorted N.le (map fst (txs_of (scanned_chain bday chain))) ∧
  ∀ x, x ∈ txs_of (scanned_chain bday chain) → (x.1 <= N.of_nat (length chain))%N.
Proof.
  split.
  - apply txs_of_heights_sorted. unfold scanned_chain, scanned. apply sorted_fst_filter, number_from_sorted.
  - intros x Hx. unfold txs_of in Hx. apply elem_of_list_In, in_flat_map in Hx as (y & Hy & Hx).
    apply in_map_iff in Hx as (t & <- & _). simpl. unfold scanned_chain, scanned in Hy.
    apply List.filter_In in Hy as [Hy _]. destruct y as [h b]. apply In_elem_of, number_from_spec in Hy as [Hle Hl].
    apply lookup_lt_Some in Hl. simpl. lia.
Qed.

(** the well-formedness asked of the chain's transactions (the heights part of
    [ledger_wf] holds for every scanned chain) *)
Record chain_txs_wf (cb : N → bool) (txs : list (N * rtx)) : Prop := {
  cw_ids : StronglySorted N.lt (ids txs);
  cw_ranked : ∀ x, x ∈ txs → Recovery.t_id x.2 ≠ 0%N ∧
                              ∀ o, o ∈ Recovery.t_ins x.2 → (o.1 < Recovery.t_id x.2)%N;
  cw_range : ∀ x y o, x ∈ txs → y ∈ txs → o ∈ Recovery.t_ins x.2 → o.1 = Recovery.t_id y.2 →
                      (N.to_nat o.2 < length (Recovery.t_outs y.2))%nat;
  cw_pos : ∀ x o, x ∈ txs → o ∈ Recovery.t_outs x.2 → 0 < o_val o;
  cw_ins_nodup : NoDup (inputs txs);
  cw_cb : ∀ x, x ∈ txs → cb (Recovery.t_id x.2) = true → Recovery.t_ins x.2 = [];
}.

Lemma ledger_wf_scanned cb bday chain :
  chain_txs_wf cb (txs_of (scanned_chain bday chain)) → ledger_wf cb (txs_of (scanned_chain bday chain)).
Proof.
  intros [H1 H2 H3 H4 H5 H6]. split; try done. apply scanned_chain_heights.
Qed.

Lemma chain_txs_wf_chain_wf cb all : chain_txs_wf cb (txs_of all) → chain_wf all.
Proof.
  intros H. split; apply NoDup_ListNoDup; [apply sorted_lt_NoDup, (cw_ids _ _ H)|apply (cw_ins_nodup _ _ H)].
Qed.

(** * Recovery, then the store: the balance is the chain's wallet balance *)
Theorem recovered_balance_is_ledger_balance
    (invalid_child : scope → bool → index → bool) (inv_bound : N)
    (Hbound : ∀ s b i, invalid_child s b i = true → (i < inv_bound)%N)
    (scopes : list scope) (Hscopes : List.NoDup scopes)
    (W : N) (bs : nat) (bday : N) (chain : list block) (cuts : list N) (cb : N → bool) :
  let all := scanned_chain bday chain in
  within_window invalid_child scopes W all →
  chain_txs_wf cb (txs_of all) →
  (∀ c, In c cuts → (c <= N.of_nat (length chain))%N) →
  In (N.of_nat (length chain)) cuts →
  let p := recovery_runs invalid_child inv_bound scopes W bs bday cuts chain fresh_pstate in
  let U := universe_of cb (txs_of all) in
  let H := history_of (p_txs p) in
  let tip := Z.of_nat (length chain) in
  wf_universe U = true ∧ chain_consistent U H = true ∧
  balance U (st (run U H)) 1 tip (clock (run U H)) =
    spec_balance U (fs (spec_run U H)) 1 tip (clock (run U H)) ∧
  spec_balance U (fs (spec_run U H)) 1 tip (clock (run U H)) = mature_sum cb (p_txs p) tip (p_unspent p).
Proof.
  intros all Hw Hcw Hc Hlast p U H tip.
  pose proof (ledger_wf_scanned cb bday chain Hcw) as Hwf. fold all in Hwf.
  destruct (recovery_complete invalid_child inv_bound Hbound scopes Hscopes W bs bday chain cuts
              Hw (chain_txs_wf_chain_wf cb all Hcw) Hc Hlast) as (_ & Hled & _).
  fold all in Hled. change (recovery_runs' invalid_child inv_bound scopes W bs bday cuts chain fresh_pstate) with p in Hled.
  assert (E1 : p_txs p = (ledger (txs_of all)).1) by (by rewrite <-Hled).
  assert (E2 : p_unspent p = (ledger (txs_of all)).2) by (by rewrite <-Hled).
  assert (HU : wf_universe U = true) by (by apply universe_wf).
  assert (HC : chain_consistent U H = true) by (unfold H; rewrite E1; by apply history_consistent).
  assert (Hnd : NoDup (p_txs p).*2).
  { rewrite E1. apply sorted_lt_NoDup. apply (ro_ids (txs_of all)). by apply (ledger_rec_ok cb). }
  assert (HF : fs (spec_run U H) = facts_of (p_txs p)) by (by apply spec_run_facts).
  assert (Htip : ∀ x, x ∈ txs_of all → Z.of_N x.1 <= tip).
  { intros x Hx. destruct (scanned_chain_heights bday chain) as [_ Hh]. specialize (Hh x Hx). unfold tip. lia. }
  split; [done|]. split; [done|]. split.
  - destruct (c01_holds U H H HU HC) as [Hbal _]; [done|]. apply Hbal; [lia|].
    intros t hh b Hcf. rewrite HF in Hcf. apply facts_conf_lookup in Hcf as (d & Hd & _ & E). inversion E; subst.
    rewrite E1 in Hd. destruct (ro_in (txs_of all) _ (ledger_rec_ok cb _ Hwf) d Hd) as (x & Hx & <- & _).
    by apply Htip.
  - rewrite HF, E1, E2. by apply spec_balance_is_mature_sum.
Qed.

(** * The same from the production entry point

    A wallet restored from seed, started through syncWithChain without a
    stored birthday block (the search returns the block at height [b] on the
    chain as it is at the first start, [c0] blocks long), and started again at
    the heights [cuts]: the balance the store reports is the ledger balance of
    the blocks AFTER the located birthday block - heights b+1 .. tip, each
    scanned once ([blocks_after b chain]). *)
Theorem first_sync_balance_is_ledger_balance
    (invalid_child : scope → bool → index → bool) (inv_bound : N)
    (Hbound : ∀ s b i, invalid_child s b i = true → (i < inv_bound)%N)
    (scopes : list scope) (Hscopes : List.NoDup scopes)
    (W : N) (bs : nat) (ts : list Z) (birthday : Z) (chain : list block)
    (c0 : N) (cuts : list N) (hz : Z) (cb : N → bool) :
  locate_birthday (firstn (S (N.to_nat c0)) ts) birthday = Some hz →
  let b := Z.to_N hz in
  let all := blocks_after b chain in
  within_window invalid_child scopes W all →
  chain_txs_wf cb (txs_of all) →
  (∀ c, In c (c0 :: cuts) → (c <= N.of_nat (length chain))%N) →
  In (N.of_nat (length chain)) (c0 :: cuts) →
  ∃ p, startups invalid_child inv_bound scopes W bs ts birthday (c0 :: cuts) chain fresh_wstate =
         Some {| w_bblock := Some b; w_p := p |} ∧
    let U := universe_of cb (txs_of all) in
    let H := history_of (p_txs p) in
    let tip := Z.of_nat (length chain) in
    wf_universe U = true ∧ chain_consistent U H = true ∧
    balance U (st (run U H)) 1 tip (clock (run U H)) =
      spec_balance U (fs (spec_run U H)) 1 tip (clock (run U H)) ∧
    spec_balance U (fs (spec_run U H)) 1 tip (clock (run U H)) = mature_sum cb (p_txs p) tip (p_unspent p).
Proof.
  intros Hloc b all Hw Hcw Hc Hlast.
  assert (Eall : all = scanned_chain (b + 1) chain) by (symmetry; apply (scanned_after invalid_child inv_bound Hbound)).
  destruct (startups_complete invalid_child inv_bound Hbound scopes Hscopes W bs ts birthday chain c0 cuts hz
              Hloc Hw (chain_txs_wf_chain_wf cb all Hcw) Hc Hlast) as (p & Est & _ & _ & Hled & _).
  change (Z.to_N hz) with b in Est, Hled. change (blocks_after b chain) with all in Hled.
  exists p. split; [exact Est|].
  intros U H tip.
  assert (Hwf : ledger_wf cb (txs_of all)).
  { rewrite Eall. apply ledger_wf_scanned. rewrite <-Eall. exact Hcw. }
  assert (E1 : p_txs p = (ledger (txs_of all)).1) by (by rewrite <-Hled).
  assert (E2 : p_unspent p = (ledger (txs_of all)).2) by (by rewrite <-Hled).
  assert (HU : wf_universe U = true) by (by apply universe_wf).
  assert (HC : chain_consistent U H = true) by (unfold H; rewrite E1; by apply history_consistent).
  assert (Hnd : NoDup (p_txs p).*2).
  { rewrite E1. apply sorted_lt_NoDup. apply (ro_ids (txs_of all)). by apply (ledger_rec_ok cb). }
  assert (HF : fs (spec_run U H) = facts_of (p_txs p)) by (by apply spec_run_facts).
  assert (Htip : ∀ x, x ∈ txs_of all → Z.of_N x.1 <= tip).
  { intros x Hx. destruct (scanned_chain_heights (b + 1) chain) as [_ Hh]. rewrite <-Eall in Hh.
    specialize (Hh x Hx). unfold tip. lia. }
  split; [done|]. split; [done|]. split.
  - destruct (c01_holds U H H HU HC) as [Hbal _]; [done|]. apply Hbal; [lia|].
    intros t hh bb Hcf. rewrite HF in Hcf. apply facts_conf_lookup in Hcf as (d & Hd & _ & E). inversion E; subst.
    rewrite E1 in Hd. destruct (ro_in (txs_of all) _ (ledger_rec_ok cb _ Hwf) d Hd) as (x & Hx & <- & _).
    by apply Htip.
  - rewrite HF, E1, E2. by apply spec_balance_is_mature_sum.
Qed.

(** for users that do not import std++ *)
Lemma NoDup_iff_ListNoDup {A} (l : list A) : NoDup l ↔ List.NoDup l.
Proof. apply NoDup_ListNoDup. Qed.
