(** Executable model of wtxmgr/kahnsort.go (makeGraph, graphRoots,
    DependencySort), transcribed branch for branch.  Model only - proofs are in
    Tx/KahnProofs.v.

    Go ranges over two maps, whose iteration order is arbitrary:
      - makeGraph:   [for _, tx := range set]      -> parameter [order1 : list tx]
      - graphRoots:  [for _, node := range graph]  -> parameter [order2 : list N]
    The theorems quantify over every permutation of the set (resp. of its key
    set) for these two parameters.

    A transaction is (txid, inputs); an input is (previous txid, output index).
    [set] is the Go map [map[chainhash.Hash]*wire.MsgTx] as an association list
    keyed by txid (the key of an entry is the hash of its value, as in
    Store.UnminedTxs). *)
From Verif Require Import Base.Prelude.
Local Open Scope N_scope.

Definition tx : Type := N * list (N * N).
Definition txid (t : tx) : N := fst t.
Definition inputs (t : tx) : list (N * N) := snd t.

(** [set[h]] (comma-ok form). *)
Fixpoint set_lookup (set : list tx) (h : N) : option tx :=
  match set with
  | [] => None
  | t :: r => if txid t =? h then Some t else set_lookup r h
  end.

(** graphNode.  [value] is never nil in a stored node (every node written by
    makeGraph carries a transaction), so it is a plain [tx]; the Go test
    [inputNode.value == nil] is exactly "the parent has no node yet". *)
Record node : Type := mkNode { value : tx; out_edges : list N; in_degree : N }.

(** hashGraph: association list, the most recent binding of a key wins. *)
Definition graph : Type := list (N * node).

Fixpoint gget (g : graph) (k : N) : option node :=
  match g with
  | [] => None
  | (k', n) :: r => if k =? k' then Some n else gget r k
  end.

Definition gset (g : graph) (k : N) (n : node) : graph := (k, n) :: g.

(** Fields of [graph[k]] when the entry may be missing (Go zero value). *)
Definition outs (g : graph) (k : N) : list N :=
  match gget g k with Some n => out_edges n | None => [] end.
Definition indeg (g : graph) (k : N) : N :=
  match gget g k with Some n => in_degree n | None => 0 end.

(** Body of [for _, input := range tx.TxIn] (label inputLoop). *)
Definition add_input (set : list tx) (t : tx) (g : graph) (input : N * N) : graph :=
  let prev := fst input in
  match set_lookup set prev with
  | None => g                                    (* not in the set: continue *)
  | Some ptx =>
      (* inputNode := graph[prev] *)
      let pout := outs g prev in
      (* "Skip duplicate edges": compares each out-edge (a CHILD hash) with the
         PARENT hash, as the code does. *)
      if existsb (fun e => e =? prev) pout then g  (* continue inputLoop *)
      else
        let pval := match gget g prev with Some n => value n | None => ptx end in
        let g1 := gset g prev (mkNode pval (pout ++ [txid t]) (indeg g prev)) in
        (* node := graph[txHash]  (read after the store above) *)
        gset g1 (txid t) (mkNode t (outs g1 (txid t)) (indeg g1 (txid t) + 1))
  end.

(** Body of [for _, tx := range set]. *)
Definition visit (set : list tx) (g : graph) (t : tx) : graph :=
  let g0 := match gget g (txid t) with
            | Some _ => g
            | None => gset g (txid t) (mkNode t [] 0)
            end in
  fold_left (add_input set t) (inputs t) g0.

Definition make_graph (order1 set : list tx) : graph :=
  fold_left (visit set) order1 [].

(** graphRoots: [roots = append(roots, node.value)] for the nodes of in-degree
    0, in the order [order2] in which the graph is ranged over. *)
Definition graph_roots (order2 : list N) (g : graph) : list tx :=
  flat_map (fun k => match gget g k with
                     | Some n => if in_degree n =? 0 then [value n] else []
                     | None => []
                     end) order2.

(** Body of [for _, mHash := range n.outEdges]; state = (queue s, graph). *)
Definition relax (st : list tx * graph) (c : N) : list tx * graph :=
  let '(s, g) := st in
  match gget g c with
  | None => (s, g)                               (* zero node: inDegree == 0 *)
  | Some m =>
      if in_degree m =? 0 then (s, g)
      else
        let d := in_degree m - 1 in
        let g' := gset g c (mkNode (value m) (out_edges m) d) in
        if d =? 0 then (s ++ [value m], g') else (s, g')
  end.

(** [for len(s) != 0 { tx := s[0]; s = s[1:]; ... }] with explicit fuel.
    [None] = out of fuel (shown unreachable in KahnProofs.v). *)
Fixpoint kahn (fuel : nat) (s sorted : list tx) (g : graph) : option (list tx) :=
  match s with
  | [] => Some sorted
  | t :: s' =>
      match fuel with
      | O => None
      | S fuel' =>
          let '(s'', g') := fold_left relax (outs g (txid t)) (s', g) in
          kahn fuel' s'' (sorted ++ [t]) g'
      end
  end.

Definition dependency_sort (order1 : list tx) (order2 : list N) (set : list tx)
  : option (list tx) :=
  let g := make_graph order1 set in
  let s := graph_roots order2 g in
  if (length s =? length set)%nat then Some s      (* no edges: shortcut *)
  else kahn (S (length set)) s [] g.

(** Specification vocabulary shared by the proofs and by Tx/KahnCorr.v: the
    in-set parents of a transaction, one entry per spending input (so a parent
    spent twice is listed twice). *)
Definition in_set (set : list tx) (h : N) : bool :=
  match set_lookup set h with Some _ => true | None => false end.
Definition parents (set : list tx) (t : tx) : list N :=
  filter (in_set set) (map fst (inputs t)).

(* ------------------------------------------------------------------ *)
(** * The property as an executable test on an observed order (ids)

    [admissible set out]: [out] lists ids of the set, none twice, all of them
    ([length]), and when an id is emitted all in-set parents of its transaction
    have been emitted before.  This is at the same time
      - the property C14 stated on an output (proved equivalent to
        "permutation of the set + parents first" in KahnProofs.v), and
      - the set of outputs of Kahn's algorithm with an arbitrary choice among
        the ready nodes: replaying [out], each next element must be ready.
    Every output of [dependency_sort] passes it (KahnProofs.v). *)
Definition memN (x : N) (l : list N) : bool := existsb (fun y => y =? x) l.

Fixpoint admissible_from (set : list tx) (emitted out : list N) : bool :=
  match out with
  | [] => true
  | k :: rest =>
      match set_lookup set k with
      | None => false
      | Some t =>
          negb (memN k emitted)
          && forallb (fun p => memN p emitted) (parents set t)
          && admissible_from set (k :: emitted) rest
      end
  end.

Definition admissible (set : list tx) (out : list N) : bool :=
  (length out =? length set)%nat && admissible_from set [] out.
