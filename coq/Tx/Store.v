(** Executable model of wtxmgr's transaction store (wtxmgr/tx.go,
    unconfirmed.go, db.go, query.go), bucket for bucket.

    Transactions are looked up in a fixed universe [U : gmap txid tx] (the
    store keeps the serialized transaction in its record; the model keeps
    the txid and reads the body from [U]).  Amounts, heights and times are
    [Z] (Go's int64/int32 wrap-around is outside the model; the harness
    stays within range).  Times are in milliseconds. *)
From stdpp Require Import gmap list numbers sorting.
From Coq Require Import ZArith NArith.
Local Open Scope Z_scope.

Notation txid := N (only parsing).
Notation outpoint := (N * N)%type (only parsing).          (* txid, output index *)
Notation blockid := (Z * N)%type (only parsing).           (* height, block hash *)

Record tx := {
  t_id : txid;
  t_ins : list outpoint;
  t_outs : list Z;                            (* output amounts *)
  t_creds : list (N * bool);                  (* wallet-credited output index, change flag *)
  t_coinbase : bool;
}.

Notation universe := (gmap N tx) (only parsing).

(** Bucket values *)
Record blockrec := { b_hash : N; b_time : Z; b_txs : list txid }.
Notation txkey := (N * Z * N)%type (only parsing).      (* txid, height, block hash *)
Notation credkey := (N * Z * N * N)%type (only parsing). (* txid, height, block hash, index *)
Record credval := { c_amt : Z; c_spent : bool; c_change : bool;
                    c_by : option credkey (* spender incidence + input index *) }.
Record lockval := { l_id : N; l_expiry : Z }.

Record store := {
  blocks : gmap Z blockrec;                   (* b  *)
  txrecs : gmap txkey unit;                   (* t  *)
  credits : gmap credkey credval;             (* c  *)
  unspent : gmap outpoint blockid;            (* u  *)
  debits : gmap credkey (Z * credkey);        (* d : (spender,height,hash,input idx) -> amount, credit key *)
  unmined : gmap txid unit;                   (* m  *)
  unmined_credits : gmap outpoint (Z * bool); (* mc *)
  unmined_inputs : gmap outpoint (list txid); (* mi *)
  locked : gmap outpoint lockval;             (* lo *)
  bal : Z;                                    (* root key "bal" *)
}.

Definition empty_store : store :=
  {| blocks := ∅; txrecs := ∅; credits := ∅; unspent := ∅; debits := ∅;
     unmined := ∅; unmined_credits := ∅; unmined_inputs := ∅; locked := ∅; bal := 0 |}.

(** Record update helpers *)
Definition set_blocks f s := {| blocks := f (blocks s); txrecs := txrecs s; credits := credits s; unspent := unspent s; debits := debits s; unmined := unmined s; unmined_credits := unmined_credits s; unmined_inputs := unmined_inputs s; locked := locked s; bal := bal s |}.
Definition set_txrecs f s := {| blocks := blocks s; txrecs := f (txrecs s); credits := credits s; unspent := unspent s; debits := debits s; unmined := unmined s; unmined_credits := unmined_credits s; unmined_inputs := unmined_inputs s; locked := locked s; bal := bal s |}.
Definition set_credits f s := {| blocks := blocks s; txrecs := txrecs s; credits := f (credits s); unspent := unspent s; debits := debits s; unmined := unmined s; unmined_credits := unmined_credits s; unmined_inputs := unmined_inputs s; locked := locked s; bal := bal s |}.
Definition set_unspent f s := {| blocks := blocks s; txrecs := txrecs s; credits := credits s; unspent := f (unspent s); debits := debits s; unmined := unmined s; unmined_credits := unmined_credits s; unmined_inputs := unmined_inputs s; locked := locked s; bal := bal s |}.
Definition set_debits f s := {| blocks := blocks s; txrecs := txrecs s; credits := credits s; unspent := unspent s; debits := f (debits s); unmined := unmined s; unmined_credits := unmined_credits s; unmined_inputs := unmined_inputs s; locked := locked s; bal := bal s |}.
Definition set_unmined f s := {| blocks := blocks s; txrecs := txrecs s; credits := credits s; unspent := unspent s; debits := debits s; unmined := f (unmined s); unmined_credits := unmined_credits s; unmined_inputs := unmined_inputs s; locked := locked s; bal := bal s |}.
Definition set_unmined_credits f s := {| blocks := blocks s; txrecs := txrecs s; credits := credits s; unspent := unspent s; debits := debits s; unmined := unmined s; unmined_credits := f (unmined_credits s); unmined_inputs := unmined_inputs s; locked := locked s; bal := bal s |}.
Definition set_unmined_inputs f s := {| blocks := blocks s; txrecs := txrecs s; credits := credits s; unspent := unspent s; debits := debits s; unmined := unmined s; unmined_credits := unmined_credits s; unmined_inputs := f (unmined_inputs s); locked := locked s; bal := bal s |}.
Definition set_locked f s := {| blocks := blocks s; txrecs := txrecs s; credits := credits s; unspent := unspent s; debits := debits s; unmined := unmined s; unmined_credits := unmined_credits s; unmined_inputs := unmined_inputs s; locked := f (locked s); bal := bal s |}.
Definition set_bal f s := {| blocks := blocks s; txrecs := txrecs s; credits := credits s; unspent := unspent s; debits := debits s; unmined := unmined s; unmined_credits := unmined_credits s; unmined_inputs := unmined_inputs s; locked := locked s; bal := f (bal s) |}.

Definition out_amount (t : tx) (i : N) : Z := nth (N.to_nat i) (t_outs t) 0.
Definition indices {A} (l : list A) : list N := map N.of_nat (seq 0 (length l)).

(** ** db.go helpers *)

(** [putRawUnminedInput]: append the spender to the outpoint's list. *)
Definition put_unmined_input (op : outpoint) (h : txid) (s : store) : store :=
  set_unmined_inputs (fun m => <[op := default [] (m !! op) ++ [h]]> m) s.

(** [deleteRawUnminedInput]: filter the spender out; delete the key when empty. *)
Definition delete_unmined_input (op : outpoint) (h : txid) (s : store) : store :=
  match unmined_inputs s !! op with
  | None | Some [] => s
  | Some l =>
    let l' := filter (fun x => x ≠ h) l in
    match l' with
    | [] => set_unmined_inputs (delete op) s
    | _ => set_unmined_inputs (<[op := l']>) s
    end
  end.

(** [latestTxRecord]: some mined record for this hash (the one with the
    greatest key; only existence matters to the callers modelled here). *)
Definition mined_keys_of (h : txid) (s : store) : list txkey :=
  filter (fun k => k.1.1 = h) (map fst (map_to_list (txrecs s))).
Definition has_mined_record (h : txid) (s : store) : bool :=
  match mined_keys_of h s with [] => false | _ => true end.

(** [isLockedOutput] *)
Definition is_locked (s : store) (op : outpoint) (now : Z) : option lockval :=
  match locked s !! op with
  | Some l => if bool_decide (now < l_expiry l) then Some l else None
  | None => None
  end.
Definition is_locked_b s op now : bool :=
  match is_locked s op now with Some _ => true | None => false end.

Definition cred_key_of_unspent (s : store) (op : outpoint) : option credkey :=
  match unspent s !! op with
  | Some (h, bh) => Some (op.1, h, bh, op.2)
  | None => None
  end.

(** ** unconfirmed.go *)

(** [removeConflict], recursion over the unmined spend graph by fuel. *)
Fixpoint remove_conflict (U : universe) (fuel : nat) (h : txid) (s : store) : option store :=
  match fuel with
  | O => None
  | S fuel' =>
    match U !! h with
    | None => None
    | Some t =>
      (* for each output: recursively remove its unmined spenders, delete the credit *)
      let step_out (acc : option store) (i : N) : option store :=
        match acc with
        | None => None
        | Some s1 =>
          let spenders := default [] (unmined_inputs s1 !! (h, i)) in
          let s2 := foldl (fun (acc : option store) sp =>
                       match acc with
                       | None => None
                       | Some s' =>
                         match unmined s' !! sp with
                         | None => Some s'
                         | Some _ => remove_conflict U fuel' sp s'
                         end
                       end) (Some s1) spenders in
          match s2 with
          | None => None
          | Some s3 => Some (set_unmined_credits (delete (h, i)) s3)
          end
        end in
      match foldl step_out (Some s) (indices (t_outs t)) with
      | None => None
      | Some s4 =>
        let s5 := foldl (fun s' op => delete_unmined_input op h s') s4 (t_ins t) in
        Some (set_unmined (delete h) s5)
      end
    end
  end.

(** [removeDoubleSpends] *)
Definition remove_double_spends (U : universe) (fuel : nat) (t : tx) (s : store) : option store :=
  foldl (fun (acc : option store) op =>
    match acc with
    | None => None
    | Some s1 =>
      foldl (fun (acc : option store) ds =>
        match acc with
        | None => None
        | Some s' =>
          if bool_decide (ds = t_id t) then Some s'
          else match unmined s' !! ds with
               | None => Some s'
               | Some _ => remove_conflict U fuel ds s'
               end
        end) (Some s1) (default [] (unmined_inputs s1 !! op))
    end) (Some s) (t_ins t).

(** [insertMemPoolTx]; returns (already-existed flag, store). *)
Definition insert_mempool (t : tx) (s : store) : bool * store :=
  let h := t_id t in
  if bool_decide (is_Some (unmined s !! h)) || has_mined_record h s then (true, s)
  else if existsb (fun i => bool_decide (is_Some (unspent s !! (h, i)))) (indices (t_outs t))
  then (false, s)
  else
    let s1 := set_unmined (<[h := tt]>) s in
    (false, foldl (fun s' op => put_unmined_input op h s') s1 (t_ins t)).

(** ** tx.go *)

(** [updateMinedBalance] *)
Definition update_mined_balance (t : tx) (b : blockid) (s : store) : store :=
  let h := t_id t in
  let '(bh, bhash) := b in
  (* debits *)
  let step_in (acc : store * Z) (ii : N * outpoint) : store * Z :=
    let '(s1, nb) := acc in
    let '(i, op) := ii in
    match cred_key_of_unspent s1 op with
    | None => (s1, nb)
    | Some ck =>
      let spender : credkey := (h, bh, bhash, i) in
      (* spendCredit: a missing credit value reads as zeroes *)
      let cv := default {| c_amt := 0; c_spent := false; c_change := false; c_by := None |} (credits s1 !! ck) in
      let amt := c_amt cv in
      let s2 := set_credits (<[ck := {| c_amt := amt; c_spent := true; c_change := c_change cv; c_by := Some spender |}]>) s1 in
      let s3 := set_debits (<[spender := (amt, ck)]>) s2 in
      let s4 := set_unspent (delete op) s3 in
      (s4, nb - amt)
    end in
  let '(s5, nb1) := foldl step_in (s, bal s) (zip (indices (t_ins t)) (t_ins t)) in
  (* move unmined credits of this tx to mined credits (iterated in key order;
     the effect is order independent) *)
  let mcs := filter (fun kv => kv.1.1 = h) (map_to_list (unmined_credits s5)) in
  let step_mc (acc : store * Z) (kv : outpoint * (Z * bool)) : store * Z :=
    let '(s1, nb) := acc in
    let '(op, (amt, chg)) := kv in
    let ck : credkey := (h, bh, bhash, op.2) in
    let s2 := set_credits (<[ck := {| c_amt := amt; c_spent := false; c_change := chg; c_by := None |}]>) s1 in
    let s3 := set_unspent (<[op := b]>) s2 in
    (s3, nb + amt) in
  let '(s6, nb2) := foldl step_mc (s5, nb1) mcs in
  set_bal (fun _ => nb2) s6.

(** [deleteUnminedTx] *)
Definition delete_unmined_tx (t : tx) (s : store) : store :=
  let h := t_id t in
  let s1 := foldl (fun s' op => delete_unmined_input op h s') s (t_ins t) in
  let s2 := foldl (fun s' i => set_unmined_credits (delete (h, i)) s') s1 (indices (t_outs t)) in
  set_unmined (delete h) s2.

(** [unlockOutput] *)
Definition unlock_raw (op : outpoint) (s : store) : store := set_locked (delete op) s.

(** [insertMinedTx]; returns (already-existed flag, store); None = out of fuel. *)
Definition insert_mined (U : universe) (fuel : nat) (t : tx) (b : blockid) (btime : Z) (s : store)
  : option (bool * store) :=
  let h := t_id t in
  let '(bh, bhash) := b in
  if bool_decide (is_Some (txrecs s !! (h, bh, bhash))) then Some (true, s)
  else
    let s1 := match blocks s !! bh with
              | None => set_blocks (<[bh := {| b_hash := bhash; b_time := btime; b_txs := [h] |}]>) s
              | Some br => set_blocks (<[bh := {| b_hash := b_hash br; b_time := b_time br; b_txs := b_txs br ++ [h] |}]>) s
              end in
    let s2 := set_txrecs (<[(h, bh, bhash) := tt]>) s1 in
    let s3 := update_mined_balance t b s2 in
    let s4 := match unmined s3 !! h with
              | Some _ => delete_unmined_tx t s3
              | None => s3
              end in
    match remove_double_spends U fuel t s4 with
    | None => None
    | Some s5 => Some (false, foldl (fun s' op => unlock_raw op s') s5 (t_ins t))
    end.

(** [addCredit] *)
Definition add_credit (t : tx) (b : option blockid) (i : N) (chg : bool) (s : store) : store :=
  let h := t_id t in
  let amt := out_amount t i in
  match b with
  | None =>
    if bool_decide (is_Some (unmined_credits s !! (h, i))) then s
    else if has_mined_record h s then s
    else set_unmined_credits (<[(h, i) := (amt, chg)]>) s
  | Some (bh, bhash) =>
    let ck : credkey := (h, bh, bhash, i) in
    if bool_decide (is_Some (credits s !! ck)) then s
    else
      let s1 := set_credits (<[ck := {| c_amt := amt; c_spent := false; c_change := chg; c_by := None |}]>) s in
      let s2 := set_bal (fun x => x + amt) s1 in
      set_unspent (<[(h, i) := (bh, bhash)]>) s2
  end.

(** [rollback]: one transaction of a block being detached. *)
Definition rollback_tx (U : universe) (bh : Z) (bhash : N) (acc : store * Z * list outpoint) (h : txid)
  : store * Z * list outpoint :=
  let '(s, mb, cbc) := acc in
  match U !! h with
  | None => acc
  | Some t =>
    let s1 := set_txrecs (delete (h, bh, bhash)) s in
    if t_coinbase t then
      let step (acc : store * Z * list outpoint) (i : N) :=
        let '(s', mb', cbc') := acc in
        let ck : credkey := (h, bh, bhash, i) in
        let op : outpoint := (h, i) in
        (* every output of the detached coinbase is remembered, credited or not *)
        match credits s' !! ck with
        | None => (s', mb', cbc' ++ [op])
        | Some _ =>
          let '(s'', mb'') :=
            match cred_key_of_unspent s' op with
            | Some _ => (set_unspent (delete op) s', mb' - out_amount t i)
            | None => (s', mb')
            end in
          (set_credits (delete ck) s'', mb'', cbc' ++ [op])
        end in
      foldl step (s1, mb, cbc) (indices (t_outs t))
    else
      let s2 := set_unmined (<[h := tt]>) s1 in
      let step_in (acc : store * Z) (ii : N * outpoint) : store * Z :=
        let '(s', mb') := acc in
        let '(i, op) := ii in
        let s'1 := put_unmined_input op h s' in
        let dk : credkey := (h, bh, bhash, i) in
        match debits s'1 !! dk with
        | None => (s'1, mb')
        | Some (_, ck) =>
          (* unspendRawCredit *)
          let '(amt, s'2) :=
            match credits s'1 !! ck with
            | None => (0, s'1)
            | Some cv => (c_amt cv,
                          set_credits (<[ck := {| c_amt := c_amt cv; c_spent := false; c_change := c_change cv; c_by := None |}]>) s'1)
            end in
          let s'3 := set_debits (delete dk) s'2 in
          if bool_decide (amt = 0) then (s'3, mb')
          else
            let '(ch, cheight, chash, _) := ck in
            (set_unspent (<[op := (cheight, chash)]>) s'3, mb' + amt)
        end in
      let '(s3, mb1) := foldl step_in (s2, mb) (zip (indices (t_ins t)) (t_ins t)) in
      let step_out (acc : store * Z) (i : N) : store * Z :=
        let '(s', mb') := acc in
        let ck : credkey := (h, bh, bhash, i) in
        match credits s' !! ck with
        | None => acc
        | Some cv =>
          let op : outpoint := (h, i) in
          let s'1 := set_unmined_credits (<[op := (c_amt cv, c_change cv)]>) s' in
          let s'2 := set_credits (delete ck) s'1 in
          match cred_key_of_unspent s'2 op with
          | Some _ => (set_unspent (delete op) s'2, mb' - out_amount t i)
          | None => (s'2, mb')
          end
        end in
      let '(s4, mb2) := foldl step_out (s3, mb1) (indices (t_outs t)) in
      (s4, mb2, cbc)
  end.

(** Heights of the block records at or above [height], descending. *)
Definition heights_from (s : store) (height : Z) : list Z :=
  reverse (merge_sort Z.le (filter (fun h => height <= h) (map fst (map_to_list (blocks s))))).

Definition rollback (U : universe) (fuel : nat) (height : Z) (s : store) : option store :=
  let hs := heights_from s height in
  let step_block (acc : store * Z * list outpoint) (h : Z) :=
    match blocks acc.1.1 !! h with
    | None => acc
    | Some br => foldl (rollback_tx U h (b_hash br)) acc (b_txs br)
    end in
  let '(s1, mb, cbc) := foldl step_block (s, bal s, []) hs in
  let s2 := foldl (fun s' h => set_blocks (delete h) s') s1 hs in
  let s3 := foldl (fun (acc : option store) op =>
              match acc with
              | None => None
              | Some s' =>
                foldl (fun (acc : option store) sp =>
                  match acc with
                  | None => None
                  | Some s'' =>
                    match unmined s'' !! sp with
                    | None => Some s''
                    | Some _ => remove_conflict U fuel sp s''
                    end
                  end) (Some s') (default [] (unmined_inputs s' !! op))
              end) (Some s2) cbc in
  match s3 with
  | None => None
  | Some s4 => Some (set_bal (fun _ => mb) s4)
  end.

(** ** Queries *)

Definition coinbase_maturity : Z := 100.

Definition tip_height (s : store) : Z :=
  foldr Z.max (-1) (map fst (map_to_list (blocks s))).

(** [Balance] *)
Definition balance (U : universe) (s : store) (minconf sync now : Z) : Z :=
  (* unspent outputs that are locked or spent by an unmined tx *)
  let b1 := foldl (fun b (kv : outpoint * blockid) =>
              let '(op, (h, bhash)) := kv in
              let amt := match credits s !! (op.1, h, bhash, op.2) with Some cv => c_amt cv | None => 0 end in
              if is_locked_b s op now then b - amt
              else if bool_decide (is_Some (unmined_inputs s !! op)) then b - amt
              else b) (bal s) (map_to_list (unspent s)) in
  let stop := Z.max minconf coinbase_maturity in
  let last := sync - stop in
  let b2 := foldl (fun b (kv : Z * blockrec) =>
              let '(h, br) := kv in
              if bool_decide (h < last) then b
              else foldl (fun b txh =>
                     match U !! txh with
                     | None => b
                     | Some t =>
                       foldl (fun b i =>
                         let op : outpoint := (txh, i) in
                         if is_locked_b s op now then b
                         else if bool_decide (is_Some (unmined_inputs s !! op)) then b
                         else match credits s !! (txh, h, b_hash br, i) with
                              | None => b
                              | Some cv =>
                                if c_spent cv then b
                                else
                                  let confs := sync - h + 1 in
                                  if bool_decide (confs < minconf) || (t_coinbase t && bool_decide (confs < coinbase_maturity))
                                  then b - c_amt cv else b
                              end) b (indices (t_outs t))
                     end) b (b_txs br)) b1 (map_to_list (blocks s)) in
  if bool_decide (minconf = 0) then
    foldl (fun b (kv : outpoint * (Z * bool)) =>
      let '(op, (amt, _)) := kv in
      if is_locked_b s op now then b
      else if bool_decide (is_Some (unmined_inputs s !! op)) then b
      else b + amt) b2 (map_to_list (unmined_credits s))
  else b2.

(** [UnspentOutputs] / [OutputsToWatch] ([fetchCredits]): outpoint, amount,
    height (-1 unmined), block hash (0 unmined), coinbase flag. *)
Record utxo := { u_op : outpoint; u_amt : Z; u_height : Z; u_hash : N; u_coinbase : bool }.

Definition fetch_credits (U : universe) (s : store) (now : Z) (incl_locked incl_spent : bool) : list utxo :=
  let keep op := (incl_locked || negb (is_locked_b s op now))
                 && (incl_spent || negb (bool_decide (is_Some (unmined_inputs s !! op)))) in
  let mined := omap (fun (kv : outpoint * blockid) =>
      let '(op, (h, bhash)) := kv in
      if keep op then
        match U !! op.1 with
        | Some t => Some {| u_op := op; u_amt := out_amount t op.2; u_height := h; u_hash := bhash; u_coinbase := t_coinbase t |}
        | None => None
        end
      else None) (map_to_list (unspent s)) in
  let unm := omap (fun (kv : outpoint * (Z * bool)) =>
      let '(op, _) := kv in
      if keep op then
        match unmined s !! op.1, U !! op.1 with
        | Some _, Some t => Some {| u_op := op; u_amt := out_amount t op.2; u_height := -1; u_hash := 0%N; u_coinbase := t_coinbase t |}
        | _, _ => None
        end
      else None) (map_to_list (unmined_credits s)) in
  mined ++ unm.

Definition unspent_outputs U s now := fetch_credits U s now false false.
Definition outputs_to_watch U s now := fetch_credits U s now true true.

(** ** Leases (LockOutput / UnlockOutput / DeleteExpiredLockedOutputs / ListLockedOutputs) *)

Inductive lock_result := LockOk (expiry : Z) | ErrUnknownOutput | ErrAlreadyLocked | ErrUnlockNotAllowed | UnlockOk.

Definition is_known_output (s : store) (op : outpoint) : bool :=
  bool_decide (is_Some (unmined_credits s !! op)) || bool_decide (is_Some (unspent s !! op)).

(** the stored expiry is truncated to whole seconds ([expiry.Unix()]) *)
Definition trunc_sec (ms : Z) : Z := (ms `div` 1000) * 1000.

Definition lock_output (id : N) (op : outpoint) (dur now : Z) (s : store) : lock_result * store :=
  if negb (is_known_output s op) then (ErrUnknownOutput, s)
  else match is_locked s op now with
       | Some l => if bool_decide (l_id l = id)
                   then (LockOk (now + dur), set_locked (<[op := {| l_id := id; l_expiry := trunc_sec (now + dur) |}]>) s)
                   else (ErrAlreadyLocked, s)
       | None => (LockOk (now + dur), set_locked (<[op := {| l_id := id; l_expiry := trunc_sec (now + dur) |}]>) s)
       end.

Definition unlock_output (id : N) (op : outpoint) (now : Z) (s : store) : lock_result * store :=
  if negb (is_known_output s op) then (ErrUnknownOutput, s)
  else match is_locked s op now with
       | None => (UnlockOk, s)
       | Some l => if bool_decide (l_id l = id) then (UnlockOk, unlock_raw op s) else (ErrUnlockNotAllowed, s)
       end.

Definition delete_expired (now : Z) (s : store) : store :=
  set_locked (filter (fun kv => now < l_expiry kv.2)) s.

Definition list_locked (s : store) (now : Z) : list (outpoint * lockval) :=
  filter (fun kv => now < l_expiry kv.2) (map_to_list (locked s)).

(** ** Transaction details (query.go) *)

Record credit_rec := { cr_index : N; cr_amt : Z; cr_spent : bool; cr_change : bool }.
Record details := { d_block : option blockid; d_credits : list credit_rec; d_debits : list (N * Z) }.

Definition mined_details (U : universe) (s : store) (k : txkey) : details :=
  let '(h, bh, bhash) := k in
  let n_outs := match U !! h with Some t => indices (t_outs t) | None => [] end in
  let n_ins := match U !! h with Some t => indices (t_ins t) | None => [] end in
  {| d_block := Some (bh, bhash);
     d_credits := omap (fun i =>
        match credits s !! (h, bh, bhash, i) with
        | None => None
        | Some cv =>
          let spent := c_spent cv || bool_decide (is_Some (unmined_inputs s !! (h, i))) in
          Some {| cr_index := i; cr_amt := c_amt cv; cr_spent := spent; cr_change := c_change cv |}
        end) n_outs;
     d_debits := omap (fun i =>
        match debits s !! (h, bh, bhash, i) with
        | None => None
        | Some (amt, _) => Some (i, amt)
        end) n_ins |}.

Definition unmined_details (U : universe) (s : store) (h : txid) : details :=
  let t_opt := U !! h in
  let n_outs := match t_opt with Some t => indices (t_outs t) | None => [] end in
  let ins := match t_opt with Some t => zip (indices (t_ins t)) (t_ins t) | None => [] end in
  {| d_block := None;
     d_credits := omap (fun i =>
        match unmined_credits s !! (h, i) with
        | None => None
        | Some (amt, chg) =>
          Some {| cr_index := i; cr_amt := amt;
                  cr_spent := bool_decide (is_Some (unmined_inputs s !! (h, i))); cr_change := chg |}
        end) n_outs;
     d_debits := omap (fun (ii : N * outpoint) =>
        let '(i, op) := ii in
        match cred_key_of_unspent s op with
        | Some ck => Some (i, match credits s !! ck with Some cv => c_amt cv | None => 0 end)
        | None =>
          match unmined_credits s !! op with
          | Some (amt, _) => Some (i, amt)
          | None => None
          end
        end) ins |}.

(** [TxDetails]: unmined first, else the latest mined record. *)
Definition max_txkey (l : list txkey) : option txkey :=
  foldl (fun acc k => match acc with
                      | None => Some k
                      | Some k0 => if bool_decide (k0.1.2 < k.1.2 ∨ (k0.1.2 = k.1.2 ∧ (k0.2 < k.2)%N)) then Some k else acc
                      end) None l.

Definition tx_details (U : universe) (s : store) (h : txid) : option details :=
  match unmined s !! h with
  | Some _ => Some (unmined_details U s h)
  | None =>
    match max_txkey (mined_keys_of h s) with
    | None => None
    | Some k => Some (mined_details U s k)
    end
  end.

(** [UniqueTxDetails] *)
Definition unique_tx_details (U : universe) (s : store) (h : txid) (b : option blockid) : option details :=
  match b with
  | None => match unmined s !! h with Some _ => Some (unmined_details U s h) | None => None end
  | Some (bh, bhash) =>
    match txrecs s !! (h, bh, bhash) with
    | Some _ => Some (mined_details U s (h, bh, bhash))
    | None => None
    end
  end.

Definition unmined_hashes (s : store) : list txid := map fst (map_to_list (unmined s)).

(** [RangeTransactions begin end]: list of groups (block or unmined), each a
    list of (txid, details); -1 conventions as in the code. *)
Definition max_i32 : Z := 2147483647.

Definition range_blocks (U : universe) (s : store) (b e : Z) : list (list (txid * details)) :=
  let b' := if bool_decide (b < 0) then max_i32 else b in
  let e' := if bool_decide (e < 0) then max_i32 else e in
  let hs := merge_sort Z.le (map fst (map_to_list (blocks s))) in
  let sel := if bool_decide (b' < e')
             then filter (fun h => b' <= h ∧ h <= e') hs
             else reverse (filter (fun h => e' <= h ∧ h <= b') hs) in
  omap (fun h => match blocks s !! h with
                 | None => None
                 | Some br => Some (map (fun txh => (txh, mined_details U s (txh, h, b_hash br))) (b_txs br))
                 end) sel.

Definition range_unmined (U : universe) (s : store) : list (list (txid * details)) :=
  match unmined_hashes s with
  | [] => []
  | l => [map (fun h => (h, unmined_details U s h)) l]
  end.

Definition range_transactions (U : universe) (s : store) (b e : Z) : list (list (txid * details)) :=
  if bool_decide (b < 0) then range_unmined U s ++ range_blocks U s b e
  else range_blocks U s b e ++ (if bool_decide (e < 0) then range_unmined U s else []).
