(** Final composition: every event preserves the refinement invariant, hence
    the store refines the ledger on every chain-consistent history, and the
    observation lemmas transfer the ledger's answers to the store. *)
From stdpp Require Import gmap list numbers sorting.
From Coq Require Import ZArith NArith.
From Verif Require Import Tx.Store Tx.Ledger Tx.Hist Tx.Inv Tx.Refine
  Tx.InvObs Tx.InvLease Tx.InvRemove Tx.InvSeen Tx.InvConfirm Tx.InvRollback Tx.InvRedeliver.
Local Open Scope Z_scope.

Lemma all_steps_preserve U : wf_universe U = true → ∀ e, step_preserves U e.
Proof.
  intros _ [t|t h b bt|h|t|id op dur|id op|dt| |t ob].
  - apply step_preserves_seen.
  - apply step_preserves_confirm.
  - apply step_preserves_disconnect.
  - apply step_preserves_abandon.
  - apply step_preserves_lease.
  - apply step_preserves_release.
  - apply step_preserves_tick.
  - apply step_preserves_sweep.
  - apply step_preserves_redeliver.
Qed.

Theorem refinement : refinement_statement.
Proof. apply refinement_from_steps. exact all_steps_preserve. Qed.

(** The invariant holds after every prefix of a consistent history. *)
Lemma refinement_prefix U h p :
  wf_universe U = true → chain_consistent U h = true → p `prefix_of` h →
  Inv U (st (run U p)) (fs (spec_run U p)) ∧ clock (run U p) = sclock (spec_run U p).
Proof.
  intros Hwf Hc Hp. apply refinement; [done|]. by eapply chain_consistent_prefix.
Qed.

(** No step of a consistent history runs out of fuel (the recursion over the
    unconfirmed spend graph always terminates within [fuel_of U]). *)
Lemma consistent_never_out_of_fuel U h p e :
  wf_universe U = true → chain_consistent U h = true → p ++ [e] `prefix_of` h →
  (step U (run U p) e).2 ≠ OFuel.
Proof.
  intros Hwf Hc Hp. unfold run.
  eapply (no_fuel_from U Hwf (all_steps_preserve U Hwf) h init_state
            {| fs := empty_facts; sclock := 0 |}); [apply Inv_init|done|exact Hc|exact Hp].
Qed.
