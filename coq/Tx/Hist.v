(** Events as the wallet applies them to the store, the run of a history on
    the model, the facts a history establishes, and the decidable predicate
    [chain_consistent] (hypothesis of C01/C02/C12/C13). *)
From stdpp Require Import gmap list numbers sorting.
From Coq Require Import ZArith NArith.
From Verif Require Import Tx.Store Tx.Ledger.
Local Open Scope Z_scope.

Inductive event :=
| Seen (t : txid)                                   (* relevant unconfirmed tx notification *)
| Confirm (t : txid) (h : Z) (bhash : N) (btime : Z)(* relevant tx in a connected block *)
| Disconnect (h : Z)                                (* Rollback(h): blocks >= h detached *)
| Abandon (t : txid)                                (* RemoveUnminedTx *)
| Lease (id : N) (op : outpoint) (dur : Z)          (* LockOutput *)
| Release (id : N) (op : outpoint)                  (* UnlockOutput *)
| Tick (dt : Z)                                     (* clock advance, dt >= 0 *)
| Sweep                                             (* DeleteExpiredLockedOutputs *)
| Redeliver (t : txid) (b : option (Z * N * Z)).    (* a notification for an already recorded tx is
                                                       applied again through the store API WITHOUT the
                                                       wallet's early return: InsertTx, then AddCredit
                                                       for every credit (None = as unconfirmed) *)

Record mstate := { st : store; clock : Z }.

Definition init_state : mstate := {| st := empty_store; clock := 0 |}.

Definition fuel_of (U : universe) : nat := S (size U).

Inductive outp := ONone | OLock (r : lock_result) | OFuel.

(** What [addRelevantTx] does with a notification. *)
Definition apply_seen (U : universe) (t : tx) (s : store) : store :=
  let '(ex, s1) := insert_mempool t s in
  if ex then s1
  else foldl (fun s' ic => add_credit t None ic.1 ic.2 s') s1 (t_creds t).

Definition apply_confirm (U : universe) (t : tx) (b : blockid) (btime : Z) (s : store) : option store :=
  match insert_mined U (fuel_of U) t b btime s with
  | None => None
  | Some (ex, s1) =>
    if ex then Some s1
    else Some (foldl (fun s' ic => add_credit t (Some b) ic.1 ic.2 s') s1 (t_creds t))
  end.

Definition step (U : universe) (m : mstate) (e : event) : mstate * outp :=
  let s := st m in
  let now := clock m in
  match e with
  | Seen h =>
    match U !! h with
    | Some t => ({| st := apply_seen U t s; clock := now |}, ONone)
    | None => (m, ONone)
    end
  | Confirm h bh bhash bt =>
    match U !! h with
    | Some t => match apply_confirm U t (bh, bhash) bt s with
                | Some s' => ({| st := s'; clock := now |}, ONone)
                | None => (m, OFuel)
                end
    | None => (m, ONone)
    end
  | Disconnect h =>
    match rollback U (fuel_of U) h s with
    | Some s' => ({| st := s'; clock := now |}, ONone)
    | None => (m, OFuel)
    end
  | Abandon h =>
    match remove_conflict U (fuel_of U) h s with
    | Some s' => ({| st := s'; clock := now |}, ONone)
    | None => (m, OFuel)
    end
  | Lease id op dur =>
    let '(r, s') := lock_output id op dur now s in ({| st := s'; clock := now |}, OLock r)
  | Release id op =>
    let '(r, s') := unlock_output id op now s in ({| st := s'; clock := now |}, OLock r)
  | Tick dt => ({| st := s; clock := now + dt |}, ONone)
  | Sweep => ({| st := delete_expired now s; clock := now |}, ONone)
  | Redeliver h ob =>
    match U !! h with
    | None => (m, ONone)
    | Some t =>
      match ob with
      | None =>
        let s1 := (insert_mempool t s).2 in
        ({| st := foldl (fun s' ic => add_credit t None ic.1 ic.2 s') s1 (t_creds t); clock := now |}, ONone)
      | Some (bh, bhash, bt) =>
        match insert_mined U (fuel_of U) t (bh, bhash) bt s with
        | None => (m, OFuel)
        | Some (_, s1) =>
          ({| st := foldl (fun s' ic => add_credit t (Some (bh, bhash)) ic.1 ic.2 s') s1 (t_creds t); clock := now |}, ONone)
        end
      end
    end
  end.

Definition run (U : universe) (h : list event) : mstate :=
  foldl (fun m e => (step U m e).1) init_state h.

(** ** Facts established by a history (spec side) *)

Definition spec_lease (F : facts) (id : N) (op : outpoint) (dur now : Z) (known_op : bool) : facts :=
  if negb known_op then F
  else match f_leases F !! op with
       | Some l => if bool_decide (now < l_expiry l) && negb (bool_decide (l_id l = id)) then F
                   else {| f_conf := f_conf F; f_unconf := f_unconf F;
                           f_leases := <[op := {| l_id := id; l_expiry := trunc_sec (now + dur) |}]> (f_leases F) |}
       | None => {| f_conf := f_conf F; f_unconf := f_unconf F;
                    f_leases := <[op := {| l_id := id; l_expiry := trunc_sec (now + dur) |}]> (f_leases F) |}
       end.

Definition spec_release (F : facts) (id : N) (op : outpoint) (now : Z) (known_op : bool) : facts :=
  if negb known_op then F
  else match f_leases F !! op with
       | Some l => if bool_decide (now < l_expiry l) && bool_decide (l_id l = id)
                   then {| f_conf := f_conf F; f_unconf := f_unconf F; f_leases := delete op (f_leases F) |}
                   else F
       | None => F
       end.

(** an outpoint is "known to the wallet" when it is a credited output of a
    known transaction that no *confirmed* known transaction spends *)
Definition spent_by_confirmed (U : universe) (F : facts) (op : outpoint) : bool :=
  existsb (fun t => spends U t op) (map fst (map_to_list (f_conf F))).

Definition credited (U : universe) (op : outpoint) : bool :=
  match U !! op.1 with
  | Some t => existsb (fun ic => bool_decide (ic.1 = op.2)) (t_creds t)
  | None => false
  end.

Definition known_output (U : universe) (F : facts) (op : outpoint) : bool :=
  known F op.1 && credited U op && negb (spent_by_confirmed U F op).

Record sstate := { fs : facts; sclock : Z }.

Definition spec_step (U : universe) (m : sstate) (e : event) : sstate :=
  let F := fs m in
  let now := sclock m in
  match e with
  | Seen t => {| fs := spec_seen U F t; sclock := now |}
  | Confirm t h bhash _ => {| fs := spec_confirm U F t (h, bhash); sclock := now |}
  | Disconnect h => {| fs := spec_disconnect U F h; sclock := now |}
  | Abandon t => {| fs := spec_abandon U F t; sclock := now |}
  | Lease id op dur => {| fs := spec_lease F id op dur now (known_output U F op); sclock := now |}
  | Release id op => {| fs := spec_release F id op now (known_output U F op); sclock := now |}
  | Tick dt => {| fs := F; sclock := now + dt |}
  | Sweep => {| fs := {| f_conf := f_conf F; f_unconf := f_unconf F;
                         f_leases := filter (fun kv => now < l_expiry kv.2) (f_leases F) |}; sclock := now |}
  | Redeliver _ _ => m
  end.

Definition spec_run (U : universe) (h : list event) : sstate :=
  foldl (spec_step U) {| fs := empty_facts; sclock := 0 |} h.

(** ** Chain consistency: each event is one a validating node could emit in
    the situation described by the facts of the prefix before it. *)

Definition shares_input (U : universe) (a b : txid) : bool :=
  bool_decide (a ≠ b) && existsb (fun op => spends U b op) (tx_ins U a).

Definition conf_list (F : facts) : list txid := map fst (map_to_list (f_conf F)).

Definition height_hash_ok (F : facts) (h : Z) (bhash : N) : bool :=
  forallb (fun kv : txid * blockid => negb (bool_decide (kv.2.1 = h)) || bool_decide (kv.2.2 = bhash))
          (map_to_list (f_conf F)).

Definition event_ok (U : universe) (F : facts) (e : event) : bool :=
  match e with
  | Seen t =>
    match U !! t with
    | None => false
    | Some x =>
      negb (t_coinbase x) &&
      (known F t ||
       (* no confirmed tx conflicts with it, and no confirmed tx spends one
          of its outputs (it would have to be confirmed itself) *)
       forallb (fun c => negb (shares_input U t c) && negb (spends_output_of U c t)) (conf_list F))
    end
  | Confirm t h bhash _ =>
    match U !! t with
    | None => false
    | Some x =>
      bool_decide (0 <= h) && height_hash_ok F h bhash &&
      match f_conf F !! t with
      | Some b => bool_decide (b = (h, bhash))             (* re-delivery of the same confirmation *)
      | None =>
        (* no confirmed tx conflicts with it *)
        forallb (fun c => negb (shares_input U t c)) (conf_list F) &&
        (* no confirmed tx spends one of its outputs (parents come first) *)
        forallb (fun c => negb (spends_output_of U c t)) (conf_list F) &&
        (* every input that spends an output of a known tx spends a tx confirmed at height <= h *)
        forallb (fun op => negb (known F op.1) ||
                           match f_conf F !! op.1 with
                           | Some (ph, _) => bool_decide (ph <= h)
                           | None => false
                           end) (t_ins x) &&
        (* coinbase only in a block; nothing more to check *) true
      end
    end
  | Disconnect h => bool_decide (0 <= h)
  | Abandon t => bool_decide (t ∈ f_unconf F)
  | Lease _ _ dur => bool_decide (0 <= dur)
  | Release _ _ => true
  | Tick dt => bool_decide (0 <= dt)
  | Sweep => true
  | Redeliver t ob =>
    (* only re-deliveries: the transaction is known; a block is named only if
       it is the block that currently confirms it *)
    bool_decide (is_Some (U !! t)) &&
    match ob with
    | None => known F t
    | Some (bh, bhash, _) => bool_decide (f_conf F !! t = Some (bh, bhash))
    end
  end.

Fixpoint consistent_from (U : universe) (m : sstate) (h : list event) : bool :=
  match h with
  | [] => true
  | e :: h' => event_ok U (fs m) e && consistent_from U (spec_step U m e) h'
  end.

Definition chain_consistent (U : universe) (h : list event) : bool :=
  consistent_from U {| fs := empty_facts; sclock := 0 |} h.

(** Well-formed universe: ids match keys, inputs of a tx are duplicate free,
    amounts are positive, credited indices exist and are duplicate free,
    coinbase txs have no inputs that name universe txs, and the spend relation
    is acyclic by rank (a tx only spends outputs of txs with a smaller id -
    "txids commit to their parents"). *)
Definition wf_tx (k : txid) (t : tx) : bool :=
  bool_decide (t_id t = k) &&
  bool_decide (NoDup (t_ins t)) &&
  forallb (fun a => bool_decide (0 < a)) (t_outs t) &&
  bool_decide (NoDup (map fst (t_creds t))) &&
  forallb (fun ic => bool_decide (N.to_nat ic.1 < length (t_outs t))%nat) (t_creds t) &&
  forallb (fun op => bool_decide (op.1 < k)%N) (t_ins t) &&
  (negb (t_coinbase t) || bool_decide (t_ins t = [])).

(** every input that names a universe transaction names one of its existing
    outputs (a validating node never relays anything else) *)
Definition ins_in_range_b (U : universe) : bool :=
  forallb (fun kv : N * tx =>
    forallb (fun op : outpoint =>
      match U !! op.1 with
      | Some p => bool_decide (N.to_nat op.2 < length (t_outs p))%nat
      | None => true
      end) (t_ins kv.2)) (map_to_list U).

Definition wf_universe (U : universe) : bool :=
  bool_decide (U !! 0%N = None) &&
  forallb (fun kv => wf_tx kv.1 kv.2) (map_to_list U) &&
  ins_in_range_b U.

Definition universe_of_list (l : list tx) : universe := list_to_map (map (fun t => (t_id t, t)) l).
