(** Leases (LockOutput / UnlockOutput / clock / DeleteExpiredLockedOutputs):
    these events preserve the refinement invariant, and the lemmas behind
    property C12 stated about the model.  Owner: prover-obs. *)
From stdpp Require Import gmap list numbers sorting.
From Coq Require Import ZArith NArith Lia.
From Verif Require Import Tx.Store Tx.Ledger Tx.Hist Tx.Inv Tx.InvObs.
Local Open Scope Z_scope.

(** * The invariant only sees the [locked] bucket through [f_leases] *)

Lemma Inv_locked_change (U : gmap N tx) (s : store) (F : facts) (f g : gmap (N * N) lockval → gmap (N * N) lockval) :
  Inv U s F → f (locked s) = g (f_leases F) →
  Inv U (set_locked f s)
      {| f_conf := f_conf F; f_unconf := f_unconf F; f_leases := g (f_leases F) |}.
Proof.
  intros HI Heq.
  destruct HI as [Hw Hbs Hbc Htr Hum Hcs Hcc Hus Hds Hdc Hmc Hmis Hmic Hbal Hlo].
  split; try assumption.
  destruct Hw as [H1 H2 H3 H4 H5 H6 H7 H8]. split; assumption.
Qed.

Lemma Inv_same_facts U s F :
  Inv U s F → Inv U s {| f_conf := f_conf F; f_unconf := f_unconf F; f_leases := f_leases F |}.
Proof. by destruct F. Qed.

(** * [is_known_output] is the specification's [known_output] *)

Lemma credited_true U op : credited U op = true ↔ ∃ chg, is_credited U op chg.
Proof.
  unfold credited, is_credited, creds_of. destruct (U !! op.1) as [x|].
  - rewrite existsb_elem_of. split.
    + intros ([i c] & Hin & Heq). apply bool_decide_eq_true in Heq. simpl in Heq. subst i. by exists c.
    + intros [c Hin]. exists (op.2, c). split; [done|]. by apply bool_decide_eq_true.
  - split; [done|]. intros [c Hin]. inversion Hin.
Qed.

Lemma is_known_output_spec U s F op :
  Inv U s F → is_known_output s op = known_output U F op.
Proof.
  intros HI. apply eq_true_iff_eq. unfold is_known_output, known_output.
  rewrite orb_true_iff, !andb_true_iff, !bool_decide_eq_true, negb_true_iff.
  rewrite known_true, credited_true, <-not_true_iff_false, spent_by_confirmed_true.
  split.
  - intros [[[a chg] Hmc]|[[h bh] Hus]].
    + apply (inv_unmined_credits U s F HI) in Hmc as (Hu & Hcr & _).
      split_and!; [by right|by eexists|]. by eapply unconf_no_conf_spender.
    + apply (inv_unspent U s F HI) in Hus as (Hc & Hcr & Hns).
      split_and!; [left; by eexists|done|done].
  - intros [[[[[h bh] Hc]|Hu] [chg Hcr]] Hns].
    + right. exists (h, bh). apply (inv_unspent U s F HI). split_and!; [done|by eexists|done].
    + left. exists (amount_of U op, chg). by apply (inv_unmined_credits U s F HI).
Qed.

(** * The four lease/clock events preserve the invariant *)

Lemma lock_output_inv U s F id op dur now :
  Inv U s F →
  Inv U (lock_output id op dur now s).2 (spec_lease F id op dur now (known_output U F op)).
Proof.
  intros HI. unfold lock_output, spec_lease.
  rewrite <-(is_known_output_spec U s F op HI).
  destruct (is_known_output s op); simpl; [|done].
  unfold is_locked. rewrite (inv_locked U s F HI).
  destruct (f_leases F !! op) as [l|] eqn:Hl.
  - destruct (bool_decide (now < l_expiry l)) eqn:Hex; simpl.
    + destruct (bool_decide (l_id l = id)); simpl; [|done].
      apply (Inv_locked_change U s F _ (<[op:=_]>)); [done|]. by rewrite (inv_locked U s F HI).
    + apply (Inv_locked_change U s F _ (<[op:=_]>)); [done|]. by rewrite (inv_locked U s F HI).
  - apply (Inv_locked_change U s F _ (<[op:=_]>)); [done|]. by rewrite (inv_locked U s F HI).
Qed.

Lemma unlock_output_inv U s F id op now :
  Inv U s F →
  Inv U (unlock_output id op now s).2 (spec_release F id op now (known_output U F op)).
Proof.
  intros HI. unfold unlock_output, spec_release.
  rewrite <-(is_known_output_spec U s F op HI).
  destruct (is_known_output s op); simpl; [|done].
  unfold is_locked. rewrite (inv_locked U s F HI).
  destruct (f_leases F !! op) as [l|] eqn:Hl; [|done].
  destruct (bool_decide (now < l_expiry l)) eqn:Hex; simpl; [|done].
  destruct (bool_decide (l_id l = id)); simpl; [|done].
  apply (Inv_locked_change U s F _ (delete op)); [done|]. by rewrite (inv_locked U s F HI).
Qed.

Lemma step_preserves_lease U id op dur : step_preserves U (Lease id op dur).
Proof.
  intros m sm Hwf HI Hclk _. unfold step.
  destruct (lock_output id op dur (clock m) (st m)) as [r s'] eqn:Hlo.
  split; [done|]. simpl. split; [|done].
  rewrite <-Hclk. change s' with (r, s').2. rewrite <-Hlo. by apply lock_output_inv.
Qed.

Lemma step_preserves_release U id op : step_preserves U (Release id op).
Proof.
  intros m sm Hwf HI Hclk _. unfold step.
  destruct (unlock_output id op (clock m) (st m)) as [r s'] eqn:Hlo.
  split; [done|]. simpl. split; [|done].
  rewrite <-Hclk. change s' with (r, s').2. rewrite <-Hlo. by apply unlock_output_inv.
Qed.

Lemma step_preserves_tick U dt : step_preserves U (Tick dt).
Proof.
  intros m sm Hwf HI Hclk _. simpl. split; [done|]. split; [done|]. by rewrite Hclk.
Qed.

Lemma step_preserves_sweep U : step_preserves U Sweep.
Proof.
  intros m sm Hwf HI Hclk _. simpl. split; [done|]. split; [|done].
  unfold delete_expired. rewrite <-Hclk.
  apply (Inv_locked_change U (st m) (fs sm) _ (filter (λ kv : (N * N) * lockval, clock m < l_expiry kv.2)));
    [done|]. by rewrite (inv_locked U _ _ HI).
Qed.

(** * C12: the behaviour of leases on the model *)

Lemma is_locked_b_Some s op now l : is_locked s op now = Some l → is_locked_b s op now = true.
Proof. unfold is_locked_b. by intros ->. Qed.

Lemma keepb_locked s op now l : is_locked s op now = Some l → keepb s op now = false.
Proof. intros Hl. unfold keepb. by rewrite (is_locked_b_Some _ _ _ _ Hl). Qed.

(** A leased output is not offered by [UnspentOutputs] (any state of the model). *)
Lemma lease_excludes_from_utxos U s op now l :
  is_locked s op now = Some l → op ∉ map u_op (unspent_outputs U s now).
Proof.
  intros Hl Hin. rewrite map_fmap in Hin. apply elem_of_list_fmap in Hin as (u & -> & Hu).
  pose proof (keepb_locked _ _ _ _ Hl) as Hk.
  rewrite unspent_outputs_alt in Hu. apply elem_of_app in Hu as [Hu|Hu];
    apply elem_of_list_omap in Hu as (kv & _ & Hf).
  - pose proof (mined_fn_Some _ _ _ _ _ Hf) as (Hop & _). unfold mined_fn in Hf.
    rewrite <-Hop, Hk in Hf. done.
  - pose proof (unm_fn_Some _ _ _ _ _ Hf) as Hop. unfold unm_fn in Hf.
    rewrite <-Hop, Hk in Hf. done.
Qed.

Lemma filter_all {A} (P : A → Prop) `{!∀ x, Decision (P x)} (l : list A) :
  (∀ x, x ∈ l → P x) → filter P l = l.
Proof.
  induction l as [|x l IH]; intros Hall; [done|].
  rewrite filter_cons_True by (apply Hall; left). f_equal. apply IH. intros y Hy. apply Hall. by right.
Qed.

(** ... and contributes nothing to [Balance]: under the invariant the balance
    is the sum over the spendable outputs other than the leased one. *)
Lemma lease_excludes_from_balance U s F op now l minconf sync :
  wf_universe U = true → Inv U s F → is_locked s op now = Some l →
  balance U s minconf sync now =
  sumZ (omap (bal_contrib minconf sync) (filter (λ u, u_op u ≠ op) (unspent_outputs U s now))).
Proof.
  intros Hwf HI Hl. rewrite (balance_as_utxo_sum U s F Hwf HI). f_equal. f_equal.
  symmetry. apply filter_all. intros u Hu Heq.
  apply (lease_excludes_from_utxos U s op now l Hl). rewrite map_fmap.
  apply elem_of_list_fmap. by exists u.
Qed.

(** The specification agrees: a live lease in the model is a live lease in the facts. *)
Lemma lease_is_spec_lease U s F op now l :
  Inv U s F → is_locked s op now = Some l → leased F op now = true.
Proof.
  intros HI Hl. rewrite <-(is_locked_b_leased U s F HI). by eapply is_locked_b_Some.
Qed.

(** Another owner cannot take over a live lease. *)
Lemma lease_other_id_rejected s op now l id' dur :
  is_locked s op now = Some l → id' ≠ l_id l → is_known_output s op = true →
  lock_output id' op dur now s = (ErrAlreadyLocked, s).
Proof.
  intros Hl Hid Hk. unfold lock_output. rewrite Hk, Hl. simpl.
  rewrite bool_decide_eq_false_2; [done|]. congruence.
Qed.

(** without the known-output premise the call still never succeeds *)
Lemma lease_other_id_never_succeeds s op now l id' dur :
  is_locked s op now = Some l → id' ≠ l_id l →
  (lock_output id' op dur now s).2 = s ∧
  ((lock_output id' op dur now s).1 = ErrAlreadyLocked ∨
   (lock_output id' op dur now s).1 = ErrUnknownOutput).
Proof.
  intros Hl Hid. unfold lock_output. destruct (is_known_output s op); simpl; [|by auto].
  rewrite Hl, bool_decide_eq_false_2 by congruence. by auto.
Qed.

(** The owner may extend: the new expiry is [trunc_sec (now + dur)]. *)
Lemma lease_same_id_extends s op now l dur :
  is_locked s op now = Some l → is_known_output s op = true →
  lock_output (l_id l) op dur now s =
    (LockOk (now + dur),
     set_locked (<[op := {| l_id := l_id l; l_expiry := trunc_sec (now + dur) |}]>) s) ∧
  locked (lock_output (l_id l) op dur now s).2 !! op =
    Some {| l_id := l_id l; l_expiry := trunc_sec (now + dur) |}.
Proof.
  intros Hl Hk. unfold lock_output. rewrite Hk, Hl. simpl.
  rewrite bool_decide_eq_true_2 by done. split; [done|]. simpl. by rewrite lookup_insert.
Qed.

(** A fresh (or expired) lease on a known output is granted. *)
Lemma lease_free_output_granted s op now id dur :
  is_locked s op now = None → is_known_output s op = true →
  lock_output id op dur now s =
    (LockOk (now + dur),
     set_locked (<[op := {| l_id := id; l_expiry := trunc_sec (now + dur) |}]>) s).
Proof. intros Hl Hk. unfold lock_output. by rewrite Hk, Hl. Qed.

(** Only the owner may release. *)
Lemma release_other_id_rejected s op now l id' :
  is_locked s op now = Some l → id' ≠ l_id l → is_known_output s op = true →
  unlock_output id' op now s = (ErrUnlockNotAllowed, s).
Proof.
  intros Hl Hid Hk. unfold unlock_output. rewrite Hk, Hl. simpl.
  rewrite bool_decide_eq_false_2; [done|]. congruence.
Qed.

Lemma release_other_id_never_frees s op now l id' :
  is_locked s op now = Some l → id' ≠ l_id l →
  (unlock_output id' op now s).2 = s ∧ (unlock_output id' op now s).1 ≠ UnlockOk.
Proof.
  intros Hl Hid. unfold unlock_output. destruct (is_known_output s op); simpl; [|done].
  rewrite Hl, bool_decide_eq_false_2 by congruence. done.
Qed.

Lemma release_owner_frees s op now l :
  is_locked s op now = Some l → is_known_output s op = true →
  unlock_output (l_id l) op now s = (UnlockOk, unlock_raw op s) ∧
  ∀ now', is_locked (unlock_raw op s) op now' = None.
Proof.
  intros Hl Hk. unfold unlock_output. rewrite Hk, Hl. simpl.
  rewrite bool_decide_eq_true_2 by done. split; [done|].
  intros now'. unfold is_locked, unlock_raw. simpl. by rewrite lookup_delete.
Qed.

(** A lease is live exactly while [now < expiry]. *)
Lemma lease_expires_exactly_at_expiry s op l now :
  locked s !! op = Some l →
  (is_locked s op now = None ↔ l_expiry l <= now) ∧
  (is_locked s op now = Some l ↔ now < l_expiry l).
Proof.
  intros Hl. unfold is_locked. rewrite Hl. case_bool_decide; split; split; try done; lia.
Qed.

(** ... so the output is offered again exactly from [expiry] on (provided it
    would be offered when locks are ignored). *)
Lemma lease_available_iff_expired U s op l now u :
  locked s !! op = Some l → u_op u = op →
  (u ∈ unspent_outputs U s now ↔ l_expiry l <= now ∧ u ∈ fetch_credits U s now true false).
Proof.
  intros Hl Hop. unfold unspent_outputs, fetch_credits. simpl.
  rewrite !elem_of_app, !elem_of_list_omap.
  assert (is_locked_b s op now = bool_decide (now < l_expiry l)) as Hlb.
  { unfold is_locked_b, is_locked. rewrite Hl. by case_bool_decide. }
  split.
  - intros [([o [h bh]] & Hin & Hf)|([o [a c]] & Hin & Hf)].
    + destruct (is_locked_b s o now) eqn:Hlo; [done|]. simpl in Hf.
      destruct (bool_decide (is_Some (unmined_inputs s !! o))) eqn:Hsp; [done|]. simpl in Hf.
      destruct (U !! o.1) as [t|] eqn:Ht; [|done]. injection Hf as <-. simpl in Hop. subst o.
      rewrite Hlb in Hlo. apply bool_decide_eq_false in Hlo. split; [lia|].
      left. exists (op, (h, bh)). split; [done|]. by rewrite Hsp, Ht.
    + destruct (is_locked_b s o now) eqn:Hlo; [done|]. simpl in Hf.
      destruct (bool_decide (is_Some (unmined_inputs s !! o))) eqn:Hsp; [done|]. simpl in Hf.
      destruct (unmined s !! o.1) as [v|] eqn:Hm; [|done].
      destruct (U !! o.1) as [t|] eqn:Ht; [|done]. injection Hf as <-. simpl in Hop. subst o.
      rewrite Hlb in Hlo. apply bool_decide_eq_false in Hlo. split; [lia|].
      right. exists (op, (a, c)). split; [done|]. by rewrite Hsp, Hm, Ht.
  - intros [Hexp [([o [h bh]] & Hin & Hf)|([o [a c]] & Hin & Hf)]].
    + destruct (bool_decide (is_Some (unmined_inputs s !! o))) eqn:Hsp; [done|]. simpl in Hf.
      destruct (U !! o.1) as [t|] eqn:Ht; [|done]. injection Hf as <-. simpl in Hop. subst o.
      left. exists (op, (h, bh)). split; [done|].
      rewrite Hlb, bool_decide_eq_false_2 by lia. simpl. by rewrite Hsp, Ht.
    + destruct (bool_decide (is_Some (unmined_inputs s !! o))) eqn:Hsp; [done|]. simpl in Hf.
      destruct (unmined s !! o.1) as [v|] eqn:Hm; [|done].
      destruct (U !! o.1) as [t|] eqn:Ht; [|done]. injection Hf as <-. simpl in Hop. subst o.
      right. exists (op, (a, c)). split; [done|].
      rewrite Hlb, bool_decide_eq_false_2 by lia. simpl. by rewrite Hsp, Hm, Ht.
Qed.

(** Unknown outputs cannot be leased. *)
Lemma lease_unknown_output_rejected s op id dur now :
  is_known_output s op = false → lock_output id op dur now s = (ErrUnknownOutput, s).
Proof. intros Hk. unfold lock_output. by rewrite Hk. Qed.

Lemma release_unknown_output_rejected s op id now :
  is_known_output s op = false → unlock_output id op now s = (ErrUnknownOutput, s).
Proof. intros Hk. unfold unlock_output. by rewrite Hk. Qed.

(** in terms of the facts: *)
Lemma lease_unknown_output_rejected_spec U s F op id dur now :
  Inv U s F → known_output U F op = false → lock_output id op dur now s = (ErrUnknownOutput, s).
Proof. intros HI Hk. apply lease_unknown_output_rejected. by rewrite (is_known_output_spec U s F op HI). Qed.

(** An output that is both leased and spent by an unmined transaction is
    subtracted from the balance once, not twice: dropping its lease leaves
    [Balance] unchanged (any state of the model). *)
Lemma keepb_unlock_spent s op op' now :
  is_Some (unmined_inputs s !! op) → keepb (unlock_raw op s) op' now = keepb s op' now.
Proof.
  intros Hsp. unfold keepb. destruct (decide (op' = op)) as [->|Hne].
  - change (unmined_inputs (unlock_raw op s)) with (unmined_inputs s).
    rewrite (bool_decide_eq_true_2 _ Hsp). simpl. by rewrite !andb_false_r.
  - f_equal. f_equal. unfold is_locked_b, is_locked, unlock_raw. simpl.
    by rewrite lookup_delete_ne.
Qed.

Lemma leased_and_unmined_spent_subtracted_once U s op minconf sync now :
  is_Some (unmined_inputs s !! op) →
  balance U (unlock_raw op s) minconf sync now = balance U s minconf sync now.
Proof.
  intros Hsp. rewrite !balance_unfold.
  change (bal (unlock_raw op s)) with (bal s).
  change (unspent (unlock_raw op s)) with (unspent s).
  change (blocks (unlock_raw op s)) with (blocks s).
  change (unmined_credits (unlock_raw op s)) with (unmined_credits s).
  assert (sumZ (map (w1 (unlock_raw op s) now) (map_to_list (unspent s))) =
          sumZ (map (w1 s now) (map_to_list (unspent s)))) as ->.
  { apply sumZ_map_ext. intros kv _. unfold w1. by rewrite keepb_unlock_spent. }
  assert (sumZ (map (w_blk U (unlock_raw op s) minconf sync now) (map_to_list (blocks s))) =
          sumZ (map (w_blk U s minconf sync now) (map_to_list (blocks s)))) as ->.
  { apply sumZ_map_ext. intros kv _. unfold w_blk. destruct (bool_decide _); [done|].
    apply sumZ_map_ext. intros txh _. unfold w_tx. destruct (U !! txh) as [t|]; [|done].
    apply sumZ_map_ext. intros i _. unfold w_out. by rewrite keepb_unlock_spent. }
  assert (sumZ (map (w3 (unlock_raw op s) now) (map_to_list (unmined_credits s))) =
          sumZ (map (w3 s now) (map_to_list (unmined_credits s)))) as ->.
  { apply sumZ_map_ext. intros kv _. unfold w3. by rewrite keepb_unlock_spent. }
  done.
Qed.

(** * C12 at reachable states (history level)

    The lemmas above speak about one operation in ANY store state.  The ones
    below speak about a store state [m] that refines ledger facts [sm] (as
    every state reached by a chain-consistent history does,
    [RefineAll.refinement_prefix]): the premise is what the LEDGER says about
    the lease, the conclusion what the store does. *)

From Verif Require Tx.LeaseLemmas.

Lemma mstate_eta (m : mstate) : {| st := st m; clock := clock m |} = m.
Proof. by destruct m. Qed.

Lemma ledger_lease_is_locked U m sm op l :
  Inv U (st m) (fs sm) → clock m = sclock sm →
  f_leases (fs sm) !! op = Some l → sclock sm < l_expiry l →
  is_locked (st m) op (clock m) = Some l.
Proof.
  intros HI Hclk Hl Hlt. apply (proj2 (LeaseLemmas.is_locked_Some (st m) op (clock m) l)).
  rewrite (inv_locked U _ _ HI), Hclk. done.
Qed.

(** An output the ledger holds leased by [l_id l] cannot be leased under
    another identifier before the expiry instant: the call fails, neither the
    store nor the ledger changes. *)
Lemma reach_other_id_cannot_lease U m sm id' op dur l :
  Inv U (st m) (fs sm) → clock m = sclock sm →
  f_leases (fs sm) !! op = Some l → sclock sm < l_expiry l → l_id l ≠ id' →
  (step U m (Lease id' op dur)).1 = m ∧
  spec_step U sm (Lease id' op dur) = sm ∧
  ((step U m (Lease id' op dur)).2 = OLock ErrAlreadyLocked ∨
   (step U m (Lease id' op dur)).2 = OLock ErrUnknownOutput) ∧
  (known_output U (fs sm) op = true → (step U m (Lease id' op dur)).2 = OLock ErrAlreadyLocked).
Proof.
  intros HI Hclk Hl Hlt Hne.
  pose proof (ledger_lease_is_locked U m sm op l HI Hclk Hl Hlt) as Hlk.
  assert (id' ≠ l_id l) as Hne' by congruence.
  destruct (lease_other_id_never_succeeds (st m) op (clock m) l id' dur Hlk Hne') as [Hst Hres].
  unfold step. destruct (lock_output id' op dur (clock m) (st m)) as [r s'] eqn:Hlo. simpl in *. subst s'.
  split; [apply mstate_eta|]. split.
  - unfold spec_lease. destruct (negb (known_output U (fs sm) op)); [by destruct sm|].
    rewrite Hl, (bool_decide_eq_true_2 _ Hlt), (bool_decide_eq_false_2 _ Hne). simpl. by destruct sm.
  - split; [destruct Hres as [->| ->]; by auto|].
    intros Hk. rewrite <-(is_known_output_spec U _ _ op HI) in Hk.
    pose proof (lease_other_id_rejected (st m) op (clock m) l id' dur Hlk Hne' Hk) as Hrej.
    rewrite Hlo in Hrej. by injection Hrej as ->.
Qed.

(** ... nor released under another identifier. *)
Lemma reach_other_id_cannot_release U m sm id' op l :
  Inv U (st m) (fs sm) → clock m = sclock sm →
  f_leases (fs sm) !! op = Some l → sclock sm < l_expiry l → l_id l ≠ id' →
  (step U m (Release id' op)).1 = m ∧
  spec_step U sm (Release id' op) = sm ∧
  (step U m (Release id' op)).2 ≠ OLock UnlockOk ∧
  (known_output U (fs sm) op = true → (step U m (Release id' op)).2 = OLock ErrUnlockNotAllowed).
Proof.
  intros HI Hclk Hl Hlt Hne.
  pose proof (ledger_lease_is_locked U m sm op l HI Hclk Hl Hlt) as Hlk.
  assert (id' ≠ l_id l) as Hne' by congruence.
  destruct (release_other_id_never_frees (st m) op (clock m) l id' Hlk Hne') as [Hst Hres].
  unfold step. destruct (unlock_output id' op (clock m) (st m)) as [r s'] eqn:Hlo. simpl in *. subst s'.
  split; [apply mstate_eta|]. split.
  - unfold spec_release. destruct (negb (known_output U (fs sm) op)); [by destruct sm|].
    rewrite Hl, (bool_decide_eq_true_2 _ Hlt), (bool_decide_eq_false_2 _ Hne). simpl. by destruct sm.
  - split; [congruence|].
    intros Hk. rewrite <-(is_known_output_spec U _ _ op HI) in Hk.
    pose proof (release_other_id_rejected (st m) op (clock m) l id' Hlk Hne' Hk) as Hrej.
    rewrite Hlo in Hrej. by injection Hrej as ->.
Qed.

(** The output becomes leasable by anyone exactly at the expiry instant: a
    request under another identifier for a known output is granted if and only
    if the ledger's expiry has been reached. *)
Lemma reach_leasable_by_anyone_iff_expired U m sm id' op dur l :
  Inv U (st m) (fs sm) → clock m = sclock sm →
  f_leases (fs sm) !! op = Some l → l_id l ≠ id' → known_output U (fs sm) op = true →
  ((step U m (Lease id' op dur)).2 = OLock (LockOk (clock m + dur)) ↔ l_expiry l <= sclock sm).
Proof.
  intros HI Hclk Hl Hne Hk. split.
  - intros Hok. destruct (decide (sclock sm < l_expiry l)) as [Hlt|]; [|lia].
    destruct (reach_other_id_cannot_lease U m sm id' op dur l HI Hclk Hl Hlt Hne) as (_ & _ & _ & Hrej).
    rewrite (Hrej Hk) in Hok. done.
  - intros Hexp. rewrite <-(is_known_output_spec U _ _ op HI) in Hk.
    assert (is_locked (st m) op (clock m) = None) as Hfree.
    { apply (proj2 (LeaseLemmas.is_locked_None (st m) op (clock m))). right. exists l. rewrite (inv_locked U _ _ HI), Hclk. done. }
    unfold step. rewrite (lease_free_output_granted (st m) op (clock m) id' dur Hfree Hk). done.
Qed.

(** ... and is offered by [UnspentOutputs] again exactly from that instant on
    (if it would be offered when leases are ignored). *)
Lemma reach_available_iff_expired U m sm op l u :
  Inv U (st m) (fs sm) → clock m = sclock sm →
  f_leases (fs sm) !! op = Some l → u_op u = op →
  (u ∈ unspent_outputs U (st m) (clock m) ↔
   l_expiry l <= sclock sm ∧ u ∈ fetch_credits U (st m) (clock m) true false).
Proof.
  intros HI Hclk Hl Hop. rewrite <-Hclk.
  apply (lease_available_iff_expired U (st m) op l (clock m) u); [|done]. by rewrite (inv_locked U _ _ HI).
Qed.

(** Restart: the harness renders a close-and-reopen as the event [Tick 0],
    whose model and ledger steps are the identity - a store without in-memory
    state must report after the restart exactly what it reported before. *)
Lemma restart_step_is_identity U m sm :
  step U m (Tick 0) = (m, ONone) ∧ spec_step U sm (Tick 0) = sm.
Proof.
  split; simpl.
  - rewrite Z.add_0_r. by rewrite mstate_eta.
  - rewrite Z.add_0_r. by destruct sm.
Qed.
