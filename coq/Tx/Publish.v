(** Executable model of the wallet's broadcast path (wallet/wallet.go:
    reliablyPublishTransaction, publishTransaction, resendUnminedTxs) on top
    of the transaction-store model [Tx/Store.v] and the events of [Tx/Hist.v].
    Model only - proofs are in Tx/PublishProofs.v.

    What the code does with each outcome is a *parameter* of the model
    ([pcfg]); the instance that describes the repository's current source is
    regenerated on every run (Generated/PublishFacts.v, instantiated in
    Tx/PublishCorr.v and Properties/C20.v):

      reliablyPublishTransaction(tx):
         Update { addRelevantTx(tx, block = nil) }            -> [apply_seen]
         if NotifyReceived(ourAddrs) fails:
            [cfg_notify]: remove the recorded tx or not; return the error
         publishTransaction(tx)

      publishTransaction(tx):  SendRawTransaction(tx), then by answer class
         [cfg_class]: RemoveUnminedTx(tx) or not; return an error or (txid, nil)

      resendUnminedTxs: txs := Store.UnminedTxs() (= DependencySort of the
         unmined records, computed ONCE); for every element, in order,
         publishTransaction (errors are logged and ignored).  An element
         that an earlier rejection already removed together with its parent is
         still offered - the loop ranges over the precomputed slice.

    RemoveUnminedTx is [remove_conflict] (recursive removal of the unmined
    spenders of every output, then of the transaction itself).

    The answers.  SendRawTransaction of a chain.Interface returns nil or an
    error; publishTransaction looks at the error only through
    errors.Is(rpcErr, chain.X).  An answer of the model is therefore: no
    error; an error that Is one exported sentinel of package chain
    ([ASentinel name] - plain or wrapped with %w makes no difference to
    errors.Is); or an error that Is none of them ([AReject]).  [AInMempool],
    [AKnown], [AConfirmed] are the three classes the property text names
    besides acceptance and rejection; [sentinel_class] says to which class the
    property assigns each sentinel.  The list [sentinel_classes] is written
    by hand and must list EVERY exported sentinel of package chain: the list
    regenerated from the source is compared with it (Properties/C20.v), so a
    new sentinel breaks an obligation until it is classified here.

    The error mapping.  Every backend's SendRawTransaction passes the node's
    error through MapRPCErr (chain/btcd.go, bitcoind_client.go, neutrino.go):
    the text is normalised ('-' -> ' ', lower case) and searched for the
    normalised keys of the tables of chain/errors.go ([match_err_str] =
    matchErrStr).  [map_candidates] is the set of sentinels MapRPCErr can
    return for a text (Go iterates BtcdErrMap and friends in map order, so
    when several keys occur in a text any of them may win; bitcoind's loop
    over RPCErr(0..errSentinel) is ordered). *)
From stdpp Require Import gmap list numbers sorting strings.
From Coq Require Import ZArith NArith Strings.String Strings.Ascii.
From Verif Require Import Tx.Store Tx.Ledger Tx.Hist.
From Verif Require Tx.Kahn.
Local Open Scope Z_scope.

(** Answers of the backend's SendRawTransaction. *)
Inductive answer :=
| AAccept                    (* no error *)
| AInMempool                 (* class: the backend already has it in its mempool *)
| AKnown                     (* class: already known (in the block chain, testmempoolaccept wording) *)
| AConfirmed                 (* class: already confirmed *)
| AReject                    (* class: rejected for any other reason; as an answer: an error that Is no sentinel *)
| ASentinel (name : string). (* an error that Is chain.<name> *)

Global Instance answer_eq_dec : EqDecision answer.
Proof. solve_decision. Defined.

Definition answer_eqb (a b : answer) : bool := bool_decide (a = b).

(** association lists keyed by strings *)
Fixpoint assoc {A} (k : string) (l : list (string * A)) : option A :=
  match l with
  | [] => None
  | (k', v) :: l' => if String.eqb k' k then Some v else assoc k l'
  end.

(** The class the property gives to every exported error sentinel of package
    chain (chain/errors.go and the other files of the package; doc comments
    there).  Hand-written; compared with the regenerated list. *)
Definition sentinel_classes : list (string * answer) :=
  [ ("ErrBitcoindClientShuttingDown", AReject); ("ErrBitcoindStartTimeout", AReject);
    ("ErrBackendVersion", AReject); ("ErrInvalidParam", AReject); ("ErrUndefined", AReject);
    ("ErrUnimplemented", AReject);
    ("ErrMissingInputsOrSpent", AReject); ("ErrMaxBurnExceeded", AReject); ("ErrMaxFeeExceeded", AReject);
    ("ErrTxAlreadyKnown", AKnown); ("ErrTxAlreadyConfirmed", AConfirmed);
    ("ErrMempoolConflict", AReject); ("ErrReplacementAddsUnconfirmed", AReject); ("ErrInsufficientFee", AReject);
    ("ErrTooManyReplacements", AReject); ("ErrMempoolMinFeeNotMet", AReject); ("ErrConflictingTx", AReject);
    ("ErrEmptyOutput", AReject); ("ErrEmptyInput", AReject); ("ErrTxTooSmall", AReject);
    ("ErrDuplicateInput", AReject); ("ErrEmptyPrevOut", AReject); ("ErrBelowOutValue", AReject);
    ("ErrNegativeOutput", AReject); ("ErrLargeOutput", AReject); ("ErrLargeTotalOutput", AReject);
    ("ErrScriptVerifyFlag", AReject); ("ErrTooManySigOps", AReject); ("ErrInvalidOpcode", AReject);
    ("ErrTxAlreadyInMempool", AInMempool);
    ("ErrMissingInputs", AReject); ("ErrOversizeTx", AReject); ("ErrCoinbaseTx", AReject);
    ("ErrNonStandardVersion", AReject); ("ErrNonStandardScript", AReject); ("ErrBareMultiSig", AReject);
    ("ErrScriptSigNotPushOnly", AReject); ("ErrScriptSigSize", AReject); ("ErrTxTooLarge", AReject);
    ("ErrDust", AReject); ("ErrMultiOpReturn", AReject); ("ErrNonFinal", AReject); ("ErrNonBIP68Final", AReject);
    ("ErrSameNonWitnessData", AReject); ("ErrNonMandatoryScriptVerifyFlag", AReject) ].

(** a name that is not a sentinel of the package: errors.Is is false for every
    test of publishTransaction, the class is "any other reason" *)
Definition sentinel_class (n : string) : answer := default AReject (assoc n sentinel_classes).

(** the class of an answer: one of AAccept AInMempool AKnown AConfirmed AReject *)
Definition class_of (a : answer) : answer :=
  match a with
  | ASentinel n => match sentinel_class n with ASentinel _ | AAccept => AReject | c => c end
  | _ => a
  end.

Definition is_rejection (a : answer) : bool := answer_eqb (class_of a) AReject.
Definition is_mempool (a : answer) : bool :=
  match class_of a with AAccept | AInMempool => true | _ => false end.
Definition is_known (a : answer) : bool :=
  match class_of a with AKnown | AConfirmed => true | _ => false end.

(** What a branch of the code does: call RemoveUnminedTx? return an error? *)
Record action := { act_removes : bool; act_error : bool }.

Global Instance action_eq_dec : EqDecision action.
Proof. solve_decision. Defined.

Record pcfg := {
  cfg_notify : action;                  (* branch after a failed NotifyReceived *)
  cfg_class : answer → action;          (* branch per SendRawTransaction answer *)
}.

(** A configuration given by the five branches of publishTransaction ([base])
    and, per sentinel name, the branch an error that Is this sentinel takes
    ([tbl], regenerated from the source).  A name outside the table matches no
    test: the rejection path. *)
Definition table_class (base : answer → action) (tbl : list (string * action)) (a : answer) : action :=
  match a with
  | ASentinel n => default (base AReject) (assoc n tbl)
  | _ => base a
  end.

(** Result of a publish call: (txid, nil) / error.  [PFuel] = the explicit
    fuel of [remove_conflict] ran out (shown unreachable in PublishProofs.v). *)
Inductive presult := PSuccess | PError | PFuel.

Global Instance presult_eq_dec : EqDecision presult.
Proof. solve_decision. Defined.

(** [RemoveUnminedTx] *)
Definition remove_unmined_tx (U : universe) (t : txid) (s : store) : option store :=
  remove_conflict U (fuel_of U) t s.

(** One branch: optional removal, then the return value. *)
Definition finish (act : action) (U : universe) (t : txid) (s : store) : presult * store :=
  let r := if act_error act then PError else PSuccess in
  if act_removes act then
    match remove_unmined_tx U t s with
    | Some s' => (r, s')
    | None => (PFuel, s)
    end
  else (r, s).

(** [publishTransaction] with the backend's answer [a]. *)
Definition publish_tx (cfg : pcfg) (U : universe) (t : txid) (a : answer) (s : store)
  : presult * store :=
  finish (cfg_class cfg a) U t s.

(** [reliablyPublishTransaction] (= PublishTransaction, and the second half
    of SendOutputs): [notify_ok] = the NotifyReceived subscription succeeded.
    A transaction outside the universe is not modelled (error, no change). *)
Definition publish (cfg : pcfg) (U : universe) (t : txid) (a : answer) (notify_ok : bool)
           (s : store) : presult * store :=
  match U !! t with
  | None => (PError, s)
  | Some x =>
    let s1 := apply_seen U x s in
    if notify_ok then publish_tx cfg U t a s1
    else finish (cfg_notify cfg) U t s1
  end.

(** The loop of [resendUnminedTxs] over an already computed list; the k-th
    offered transaction gets the k-th scripted answer (none left = accepted). *)
Fixpoint resend_list (cfg : pcfg) (U : universe) (l : list txid) (answers : list answer)
         (s : store) : list presult * store :=
  match l with
  | [] => ([], s)
  | t :: l' =>
    let '(r, s1) := publish_tx cfg U t (hd AAccept answers) s in
    let '(rs, s2) := resend_list cfg U l' (tl answers) s1 in
    (r :: rs, s2)
  end.

(** The map handed to DependencySort by [Store.UnminedTxs]: every unmined
    record with its inputs (key = txid). *)
Definition unmined_set (U : universe) (s : store) : list Kahn.tx :=
  map (fun h => (h, tx_ins U h)) (unmined_hashes s).

(** [resendUnminedTxs]; [pi1], [pi2] are the two map iteration orders inside
    DependencySort (Tx/Kahn.v).  Result: the offered sequence, the result of
    each offer, the final store; [None] = the fuel of the Kahn loop ran out. *)
Definition resend (cfg : pcfg) (U : universe) (pi1 : list Kahn.tx) (pi2 : list N)
           (answers : list answer) (s : store) : option (list txid * list presult * store) :=
  match Kahn.dependency_sort pi1 pi2 (unmined_set U s) with
  | None => None
  | Some out =>
    let l := map Kahn.txid out in
    let '(rs, s') := resend_list cfg U l answers s in
    Some (l, rs, s')
  end.

(** ** The configuration the property asks for *)

Definition keep_ok : action := {| act_removes := false; act_error := false |}.
Definition drop_ok : action := {| act_removes := true; act_error := false |}.
Definition drop_err : action := {| act_removes := true; act_error := true |}.
Definition keep_err : action := {| act_removes := false; act_error := true |}.

Definition expected_class (a : answer) : action :=
  match class_of a with
  | AAccept | AInMempool => keep_ok
  | AKnown | AConfirmed => drop_ok
  | AReject | ASentinel _ => drop_err
  end.

(** every error path removes what was recorded *)
Definition expected_cfg : pcfg := {| cfg_notify := drop_err; cfg_class := expected_class |}.

(** the pinned tree (finding S9): the subscription-failure branch returns the
    error and leaves the transaction recorded *)
Definition pinned_cfg : pcfg := {| cfg_notify := keep_err; cfg_class := expected_class |}.

(** ** Specification level (facts only) *)

(** the transaction stays recorded exactly when the subscription succeeded and
    the backend has it in its mempool (just accepted, or already there) *)
Definition stays (a : answer) (notify_ok : bool) : bool :=
  notify_ok && is_mempool a.

(** the attempt failed: error returned to the caller *)
Definition failed (a : answer) (notify_ok : bool) : bool :=
  negb notify_ok || negb (is_mempool a || is_known a).

Definition expected_result (a : answer) (notify_ok : bool) : presult :=
  if failed a notify_ok then PError else PSuccess.

(** Facts after a publish attempt, as the property states them: recorded as
    unconfirmed when it stays; otherwise the transaction and every unconfirmed
    transaction that (transitively) spends its outputs are forgotten. *)
Definition spec_publish (U : universe) (F : facts) (t : txid) (a : answer) (notify_ok : bool) : facts :=
  let F1 := spec_seen U F t in
  if stays a notify_ok then F1 else spec_abandon U F1 t.

(** ... and as a configuration implements them *)
Definition spec_finish (act : action) (U : universe) (F : facts) (t : txid) : facts :=
  if act_removes act then spec_abandon U F t else F.

Definition spec_publish_cfg (cfg : pcfg) (U : universe) (F : facts) (t : txid) (a : answer)
           (notify_ok : bool) : facts :=
  let F1 := spec_seen U F t in
  if notify_ok then spec_finish (cfg_class cfg a) U F1 t else spec_finish (cfg_notify cfg) U F1 t.

Fixpoint spec_resend_list (cfg : pcfg) (U : universe) (l : list txid) (answers : list answer)
         (F : facts) : facts :=
  match l with
  | [] => F
  | t :: l' => spec_resend_list cfg U l' (tl answers) (spec_finish (cfg_class cfg (hd AAccept answers)) U F t)
  end.

(** A transaction is *fresh* for the facts when it is not known and no
    unconfirmed transaction spends one of its outputs (the situation of every
    transaction the wallet has just authored). *)
Definition fresh (U : universe) (F : facts) (t : txid) : bool :=
  negb (known F t) && forallb (fun c => negb (spends_output_of U c t)) (elements (f_unconf F)).

(** ** What the property TEXT demands of a configuration

    The text fixes the outcome of acceptance / already-in-mempool (stays,
    counted once) and of a failure (rejection, or the hand-over fails and an
    error is returned: forgotten).  For "already known / already confirmed"
    it demands nothing beyond "an error returned means forgotten": keeping the
    transaction and reporting success, or forgetting it (with or without an
    error) are all compatible with it.  [text_cfg code] is the expected
    configuration with that freedom resolved the way the code resolves it -
    unless the code keeps the transaction AND returns an error, which the
    text excludes. *)
Definition admissible_known (act : action) : bool := negb (act_error act && negb (act_removes act)).

(** [a]: the answer as publishTransaction sees it (after the error mapping);
    [truth]: what the backend meant.  The text decides by the truth; on
    "already known / confirmed" it accepts what the code does with [a]. *)
Definition text_action (code : pcfg) (a truth : answer) : action :=
  if is_known truth then (if admissible_known (cfg_class code a) then cfg_class code a else drop_err)
  else expected_class truth.

Definition text_cfg (code : pcfg) : pcfg :=
  {| cfg_notify := drop_err; cfg_class := fun a => text_action code a a |}.

(** the facts the text asks for after an attempt / a re-broadcast, when the
    answers seen by the wallet ([a]) and their truths may differ (a node's
    reply that the error mapping put into another class) *)
Definition spec_publish_text (code : pcfg) (U : universe) (F : facts) (t : txid) (a truth : answer)
           (notify_ok : bool) : facts :=
  let F1 := spec_seen U F t in
  spec_finish (if notify_ok then text_action code a truth else drop_err) U F1 t.

Definition text_result (code : pcfg) (a truth : answer) (notify_ok : bool) : presult :=
  if act_error (if notify_ok then text_action code a truth else drop_err) then PError else PSuccess.

Fixpoint spec_resend_text (code : pcfg) (U : universe) (l : list txid) (answers truths : list answer)
         (F : facts) : facts :=
  match l with
  | [] => F
  | t :: l' =>
    spec_resend_text code U l' (tl answers) (tl truths)
      (spec_finish (text_action code (hd AAccept answers) (hd AAccept truths)) U F t)
  end.

(** the action of the branch taken, and the value it returns *)
Definition branch_of (cfg : pcfg) (a : answer) (notify_ok : bool) : action :=
  if notify_ok then cfg_class cfg a else cfg_notify cfg.
Definition cfg_result (cfg : pcfg) (a : answer) (notify_ok : bool) : presult :=
  if act_error (branch_of cfg a notify_ok) then PError else PSuccess.

(** ** MapRPCErr (chain/btcd.go, bitcoind_client.go, neutrino.go) and
    matchErrStr (chain/errors.go) *)

Definition lower_char (c : ascii) : ascii :=
  let n := N_of_ascii c in
  if ((65 <=? n) && (n <=? 90))%N then ascii_of_N (n + 32) else c.

Definition norm_char (c : ascii) : ascii := if Ascii.eqb c "-" then " "%char else lower_char c.

Fixpoint norm (s : string) : string :=
  match s with
  | EmptyString => EmptyString
  | String c s' => String (norm_char c) (norm s')
  end.

Fixpoint contains (sub s : string) : bool :=
  String.prefix sub s || match s with EmptyString => false | String _ s' => contains sub s' end.

(** matchErrStr(err, key) with err.Error() = msg *)
Definition match_err_str (msg key : string) : bool := contains (norm key) (norm msg).

Inductive backend := BBitcoind | BBtcd | BBtcdOld | BNeutrino.

Global Instance backend_eq_dec : EqDecision backend.
Proof. solve_decision. Defined.

(** the tables: (text, sentinel name) *)
Record map_tables := {
  mt_bitcoind : list (string * string);      (* RPCErr(i).Error(), i = 0 .. errSentinel-1, in this order *)
  mt_bitcoind28 : list (string * string);    (* Bitcoind28ErrMap *)
  mt_btcd : list (string * string);          (* BtcdErrMap *)
  mt_btcd_pre : list (string * string);      (* BtcdErrMapPre2402 *)
}.

Definition all_tables (T : map_tables) : list (list (string * string)) :=
  [mt_bitcoind T; mt_bitcoind28 T; mt_btcd T; mt_btcd_pre T].

(** the sentinels of the rows whose key occurs in the text *)
Definition hits (msg : string) (tbl : list (string * string)) : list string :=
  map snd (List.filter (fun r => match_err_str msg r.1) tbl).

Definition undefined_name : string := "ErrUndefined".

(** the sentinels MapRPCErr of the backend can return for a node's text (the
    result wraps ErrUndefined when nothing matches) *)
Definition map_candidates (T : map_tables) (b : backend) (msg : string) : list string :=
  match b with
  | BBitcoind =>
    match hits msg (mt_bitcoind T) with
    | x :: _ => [x]
    | [] => match hits msg (mt_bitcoind28 T) with [] => [undefined_name] | l => l end
    end
  | BBtcd => match hits msg (mt_btcd T) with [] => [undefined_name] | l => l end
  | BBtcdOld | BNeutrino =>
    match hits msg (mt_btcd T) with
    | [] => match hits msg (mt_btcd_pre T) with [] => [undefined_name] | l => l end
    | l => l
    end
  end.

(** The texts by which a node says "I have this transaction already", with
    the class (hand-written: chain/errors.go's tables at the time of writing,
    btcd mempool.go / bitcoind validation.cpp wording).  Every other key of
    the tables is a rejection. *)
Definition accepting_texts : list (string * answer) :=
  [ ("txn already in mempool", AInMempool);
    ("already have transaction in mempool", AInMempool);
    ("already have transaction", AInMempool);
    ("txn already known", AKnown);
    ("database contains entry for spent tx output", AKnown);
    ("Transaction already in block chain", AConfirmed);
    ("transaction outputs already in utxo set", AConfirmed);
    ("transaction already exists in blockchain", AConfirmed);
    ("transaction already exists", AConfirmed) ].

Definition text_class (key : string) : answer := default AReject (assoc key accepting_texts).

(** a table maps every key to a sentinel of the key's class *)
Definition table_respects (tbl : list (string * string)) : bool :=
  forallb (fun r => answer_eqb (sentinel_class r.2) (text_class r.1)) tbl.

Definition tables_respect (T : map_tables) : bool := forallb table_respects (all_tables T).

(** the text contains none of the accepting texts *)
Definition plain_rejection_text (msg : string) : bool :=
  forallb (fun p => negb (match_err_str msg p.1)) accepting_texts.
