(** Executable model of the wallet's broadcast path (wallet/wallet.go:
    reliablyPublishTransaction, publishTransaction, resendUnminedTxs) on top
    of the transaction-store model [Tx/Store.v] and the events of [Tx/Hist.v].
    Model only - proofs are in Tx/PublishProofs.v.

    What the code does with each outcome is a *parameter* of the model
    ([pcfg]); the instance that describes the repository's current source is
    regenerated on every run (Generated/PublishFacts.v, instantiated in
    Tx/PublishCorr.v and Properties/C20.v):

      reliablyPublishTransaction(tx):
         Update { addRelevantTx(tx, block = nil) }            -> [apply_seen]
         if NotifyReceived(ourAddrs) fails:
            [cfg_notify]: remove the recorded tx or not; return the error
         publishTransaction(tx)

      publishTransaction(tx):  SendRawTransaction(tx), then by answer class
         [cfg_class]: RemoveUnminedTx(tx) or not; return an error or (txid, nil)

      resendUnminedTxs: txs := Store.UnminedTxs() (= DependencySort of the
         unmined records, computed ONCE); for every element, in order,
         publishTransaction (errors are logged and ignored).  An element
         that an earlier rejection already removed together with its parent is
         still offered - the loop ranges over the precomputed slice.

    RemoveUnminedTx is [remove_conflict] (recursive removal of the unmined
    spenders of every output, then of the transaction itself). *)
From stdpp Require Import gmap list numbers sorting.
From Coq Require Import ZArith NArith.
From Verif Require Import Tx.Store Tx.Ledger Tx.Hist.
From Verif Require Tx.Kahn.
Local Open Scope Z_scope.

(** Answer classes of the backend's SendRawTransaction as [publishTransaction]
    distinguishes them (chain/errors.go). *)
Inductive answer :=
| AAccept            (* no error *)
| AInMempool         (* chain.ErrTxAlreadyInMempool *)
| AKnown             (* chain.ErrTxAlreadyKnown *)
| AConfirmed         (* chain.ErrTxAlreadyConfirmed *)
| AReject.           (* any other error *)

Global Instance answer_eq_dec : EqDecision answer.
Proof. solve_decision. Defined.

(** What a branch of the code does: call RemoveUnminedTx? return an error? *)
Record action := { act_removes : bool; act_error : bool }.

Record pcfg := {
  cfg_notify : action;                  (* branch after a failed NotifyReceived *)
  cfg_class : answer → action;          (* branch per SendRawTransaction answer *)
}.

(** Result of a publish call: (txid, nil) / error.  [PFuel] = the explicit
    fuel of [remove_conflict] ran out (shown unreachable in PublishProofs.v). *)
Inductive presult := PSuccess | PError | PFuel.

Global Instance presult_eq_dec : EqDecision presult.
Proof. solve_decision. Defined.

(** [RemoveUnminedTx] *)
Definition remove_unmined_tx (U : universe) (t : txid) (s : store) : option store :=
  remove_conflict U (fuel_of U) t s.

(** One branch: optional removal, then the return value. *)
Definition finish (act : action) (U : universe) (t : txid) (s : store) : presult * store :=
  let r := if act_error act then PError else PSuccess in
  if act_removes act then
    match remove_unmined_tx U t s with
    | Some s' => (r, s')
    | None => (PFuel, s)
    end
  else (r, s).

(** [publishTransaction] with the backend's answer [a]. *)
Definition publish_tx (cfg : pcfg) (U : universe) (t : txid) (a : answer) (s : store)
  : presult * store :=
  finish (cfg_class cfg a) U t s.

(** [reliablyPublishTransaction] (= PublishTransaction, and the second half
    of SendOutputs): [notify_ok] = the NotifyReceived subscription succeeded.
    A transaction outside the universe is not modelled (error, no change). *)
Definition publish (cfg : pcfg) (U : universe) (t : txid) (a : answer) (notify_ok : bool)
           (s : store) : presult * store :=
  match U !! t with
  | None => (PError, s)
  | Some x =>
    let s1 := apply_seen U x s in
    if notify_ok then publish_tx cfg U t a s1
    else finish (cfg_notify cfg) U t s1
  end.

(** The loop of [resendUnminedTxs] over an already computed list; the k-th
    offered transaction gets the k-th scripted answer (none left = accepted). *)
Fixpoint resend_list (cfg : pcfg) (U : universe) (l : list txid) (answers : list answer)
         (s : store) : list presult * store :=
  match l with
  | [] => ([], s)
  | t :: l' =>
    let '(r, s1) := publish_tx cfg U t (hd AAccept answers) s in
    let '(rs, s2) := resend_list cfg U l' (tl answers) s1 in
    (r :: rs, s2)
  end.

(** The map handed to DependencySort by [Store.UnminedTxs]: every unmined
    record with its inputs (key = txid). *)
Definition unmined_set (U : universe) (s : store) : list Kahn.tx :=
  map (fun h => (h, tx_ins U h)) (unmined_hashes s).

(** [resendUnminedTxs]; [pi1], [pi2] are the two map iteration orders inside
    DependencySort (Tx/Kahn.v).  Result: the offered sequence, the result of
    each offer, the final store; [None] = the fuel of the Kahn loop ran out. *)
Definition resend (cfg : pcfg) (U : universe) (pi1 : list Kahn.tx) (pi2 : list N)
           (answers : list answer) (s : store) : option (list txid * list presult * store) :=
  match Kahn.dependency_sort pi1 pi2 (unmined_set U s) with
  | None => None
  | Some out =>
    let l := map Kahn.txid out in
    let '(rs, s') := resend_list cfg U l answers s in
    Some (l, rs, s')
  end.

(** ** The configuration the property asks for *)

Definition keep_ok : action := {| act_removes := false; act_error := false |}.
Definition drop_ok : action := {| act_removes := true; act_error := false |}.
Definition drop_err : action := {| act_removes := true; act_error := true |}.
Definition keep_err : action := {| act_removes := false; act_error := true |}.

Definition expected_class (a : answer) : action :=
  match a with
  | AAccept | AInMempool => keep_ok
  | AKnown | AConfirmed => drop_ok
  | AReject => drop_err
  end.

(** every error path removes what was recorded *)
Definition expected_cfg : pcfg := {| cfg_notify := drop_err; cfg_class := expected_class |}.

(** the pinned tree (finding S9): the subscription-failure branch returns the
    error and leaves the transaction recorded *)
Definition pinned_cfg : pcfg := {| cfg_notify := keep_err; cfg_class := expected_class |}.

(** ** Specification level (facts only) *)

(** the transaction stays recorded exactly when the subscription succeeded and
    the backend has it in its mempool (just accepted, or already there) *)
Definition stays (a : answer) (notify_ok : bool) : bool :=
  notify_ok && match a with AAccept | AInMempool => true | _ => false end.

(** the attempt failed: error returned to the caller *)
Definition failed (a : answer) (notify_ok : bool) : bool :=
  negb notify_ok || match a with AReject => true | _ => false end.

Definition expected_result (a : answer) (notify_ok : bool) : presult :=
  if failed a notify_ok then PError else PSuccess.

(** Facts after a publish attempt, as the property states them: recorded as
    unconfirmed when it stays; otherwise the transaction and every unconfirmed
    transaction that (transitively) spends its outputs are forgotten. *)
Definition spec_publish (U : universe) (F : facts) (t : txid) (a : answer) (notify_ok : bool) : facts :=
  let F1 := spec_seen U F t in
  if stays a notify_ok then F1 else spec_abandon U F1 t.

(** ... and as a configuration implements them *)
Definition spec_finish (act : action) (U : universe) (F : facts) (t : txid) : facts :=
  if act_removes act then spec_abandon U F t else F.

Definition spec_publish_cfg (cfg : pcfg) (U : universe) (F : facts) (t : txid) (a : answer)
           (notify_ok : bool) : facts :=
  let F1 := spec_seen U F t in
  if notify_ok then spec_finish (cfg_class cfg a) U F1 t else spec_finish (cfg_notify cfg) U F1 t.

Fixpoint spec_resend_list (cfg : pcfg) (U : universe) (l : list txid) (answers : list answer)
         (F : facts) : facts :=
  match l with
  | [] => F
  | t :: l' => spec_resend_list cfg U l' (tl answers) (spec_finish (cfg_class cfg (hd AAccept answers)) U F t)
  end.

(** A transaction is *fresh* for the facts when it is not known and no
    unconfirmed transaction spends one of its outputs (the situation of every
    transaction the wallet has just authored). *)
Definition fresh (U : universe) (F : facts) (t : txid) : bool :=
  negb (known F t) && forallb (fun c => negb (spends_output_of U c t)) (elements (f_unconf F)).
