(** The refinement invariant between the concrete store and the ledger facts
    (DESIGN.md Appendix A.1), and the well-formedness conditions that
    chain-consistent histories maintain on the facts.  Definitions only;
    proofs are in the Inv*Proofs files. *)
From stdpp Require Import gmap list numbers sorting.
From Coq Require Import ZArith NArith.
From Verif Require Import Tx.Store Tx.Ledger Tx.Hist.
Local Open Scope Z_scope.

Section inv.
  Context (U : universe).

  Definition creds_of (t : txid) : list (N * bool) :=
    match U !! t with Some x => t_creds x | None => [] end.
  Definition amount_of (op : outpoint) : Z :=
    match U !! op.1 with Some x => out_amount x op.2 | None => 0 end.
  Definition is_credited (op : outpoint) (chg : bool) : Prop := (op.2, chg) ∈ creds_of op.1.
  Definition input_at (m : txid) (j : N) : option outpoint := tx_ins U m !! N.to_nat j.

  Definition conf_spender (F : facts) (op : outpoint) (m : txid) : Prop :=
    is_Some (f_conf F !! m) ∧ op ∈ tx_ins U m.
  Definition unconf_spender (F : facts) (op : outpoint) (u : txid) : Prop :=
    u ∈ f_unconf F ∧ op ∈ tx_ins U u.

  (** Conditions on the facts themselves. *)
  Record facts_wf (F : facts) : Prop := {
    fw_in_universe : ∀ t, (is_Some (f_conf F !! t) ∨ t ∈ f_unconf F) → is_Some (U !! t);
    fw_disjoint : ∀ t, is_Some (f_conf F !! t) → t ∉ f_unconf F;
    fw_one_conf_spender : ∀ op m1 m2, conf_spender F op m1 → conf_spender F op m2 → m1 = m2;
    fw_no_unconf_conflict : ∀ op m u, conf_spender F op m → ¬ unconf_spender F op u;
    fw_parents_confirmed : ∀ m h bh op, f_conf F !! m = Some (h, bh) → op ∈ tx_ins U m →
        (is_Some (f_conf F !! op.1) ∨ op.1 ∈ f_unconf F) →
        ∃ ph pbh, f_conf F !! op.1 = Some (ph, pbh) ∧ ph <= h;
    fw_coinbase_confirmed : ∀ t, t ∈ f_unconf F → is_coinbase U t = false;
    fw_one_hash_per_height : ∀ t1 t2 h b1 b2, f_conf F !! t1 = Some (h, b1) → f_conf F !! t2 = Some (h, b2) → b1 = b2;
    fw_heights_nonneg : ∀ t h b, f_conf F !! t = Some (h, b) → 0 <= h;
  }.

  Definition sumZ (l : list Z) : Z := foldr Z.add 0 l.

  (** The invariant: every bucket is characterised by the facts. *)
  Record Inv (s : store) (F : facts) : Prop := {
    inv_wf : facts_wf F;
    (* b: block records *)
    inv_blocks_sound : ∀ h br, blocks s !! h = Some br →
        b_txs br ≠ [] ∧ NoDup (b_txs br) ∧ ∀ t, t ∈ b_txs br → f_conf F !! t = Some (h, b_hash br);
    inv_blocks_complete : ∀ t h bh, f_conf F !! t = Some (h, bh) →
        ∃ br, blocks s !! h = Some br ∧ b_hash br = bh ∧ t ∈ b_txs br;
    (* t: mined records *)
    inv_txrecs : ∀ t h bh, is_Some (txrecs s !! (t, h, bh)) ↔ f_conf F !! t = Some (h, bh);
    (* m: unmined records *)
    inv_unmined : ∀ t, is_Some (unmined s !! t) ↔ t ∈ f_unconf F;
    (* c: mined credits *)
    inv_credits_sound : ∀ t h bh i cv, credits s !! (t, h, bh, i) = Some cv →
        f_conf F !! t = Some (h, bh) ∧ is_credited (t, i) (c_change cv) ∧ c_amt cv = amount_of (t, i) ∧
        (c_spent cv = true ↔ ∃ m, conf_spender F (t, i) m);
    inv_credits_complete : ∀ t h bh i chg, f_conf F !! t = Some (h, bh) → is_credited (t, i) chg →
        is_Some (credits s !! (t, h, bh, i));
    (* u: unspent index *)
    inv_unspent : ∀ op h bh, unspent s !! op = Some (h, bh) ↔
        (f_conf F !! op.1 = Some (h, bh) ∧ (∃ chg, is_credited op chg) ∧ ¬ ∃ m, conf_spender F op m);
    (* d: debits *)
    inv_debits_sound : ∀ m h bh j a ck, debits s !! (m, h, bh, j) = Some (a, ck) →
        f_conf F !! m = Some (h, bh) ∧
        ∃ op ph pbh, input_at m j = Some op ∧ (∃ chg, is_credited op chg) ∧
                     f_conf F !! op.1 = Some (ph, pbh) ∧ ck = (op.1, ph, pbh, op.2) ∧ a = amount_of op;
    inv_debits_complete : ∀ m h bh j op ph pbh chg, f_conf F !! m = Some (h, bh) → input_at m j = Some op →
        is_credited op chg → f_conf F !! op.1 = Some (ph, pbh) →
        is_Some (debits s !! (m, h, bh, j));
    (* mc: unmined credits *)
    inv_unmined_credits : ∀ op a chg, unmined_credits s !! op = Some (a, chg) ↔
        (op.1 ∈ f_unconf F ∧ is_credited op chg ∧ a = amount_of op);
    (* mi: unmined inputs *)
    inv_unmined_inputs_sound : ∀ op l, unmined_inputs s !! op = Some l →
        l ≠ [] ∧ NoDup l ∧ ∀ u, u ∈ l ↔ unconf_spender F op u;
    inv_unmined_inputs_complete : ∀ op u, unconf_spender F op u → is_Some (unmined_inputs s !! op);
    (* bal *)
    inv_bal : bal s = sumZ (map (fun kv : outpoint * blockid => amount_of kv.1) (map_to_list (unspent s)));
    (* lo *)
    inv_locked : locked s = f_leases F;
  }.

  (** Declarative counterpart of [Ledger.descendants]: [u] is unconfirmed and
      reachable from a root by spends among unconfirmed transactions. *)
  Inductive depends_on (F : facts) (roots : list txid) : txid → Prop :=
  | dep_root r : r ∈ roots → depends_on F roots r
  | dep_step p c : depends_on F roots p → c ∈ f_unconf F → spends_output_of U c p = true →
                   depends_on F roots c.
End inv.

(** Full statements of the refinement theorems (proved, or partially proved
    with the missing part named, in the Inv*Proofs files and quoted by the
    property files). *)
Definition refinement_statement : Prop :=
  ∀ (U : universe) (h : list event),
    wf_universe U = true → chain_consistent U h = true →
    Inv U (st (run U h)) (fs (spec_run U h)) ∧ clock (run U h) = sclock (spec_run U h).

Definition balance_statement : Prop :=
  ∀ (U : universe) (s : store) (F : facts) (minconf sync now : Z),
    wf_universe U = true → Inv U s F → 0 <= minconf →
    (∀ t h b, f_conf F !! t = Some (h, b) → h <= sync) →
    balance U s minconf sync now = spec_balance U F minconf sync now.

Definition utxos_statement : Prop :=
  ∀ (U : universe) (s : store) (F : facts) (now : Z),
    wf_universe U = true → Inv U s F →
    unspent_outputs U s now ≡ₚ spec_utxos U F now.

Definition details_statement : Prop :=
  ∀ (U : universe) (s : store) (F : facts) (t : txid),
    wf_universe U = true → Inv U s F →
    tx_details U s t = spec_details U F t ∧
    unique_tx_details U s t (f_conf F !! t) = spec_details U F t ∧
    unmined_hashes s ≡ₚ elements (f_unconf F).

(** Interfaces between the proof files (each is proved in one file and used
    as a Section hypothesis in the others until the final composition). *)
Definition descendants_correct (U : universe) : Prop :=
  ∀ (F : facts) (roots : list txid) (t : txid),
    let uc := elements (f_unconf F) in
    t ∈ descendants U (S (length uc)) uc roots ↔ depends_on U F roots t.

Definition remove_conflict_correct (U : universe) : Prop :=
  ∀ (s : store) (F : facts) (t : txid),
    wf_universe U = true → Inv U s F → t ∈ f_unconf F →
    ∃ s', remove_conflict U (fuel_of U) t s = Some s' ∧
          Inv U s' (remove_unconf_with_descendants U F [t]).

(** One event preserves the invariant (the per-event obligations). *)
Definition step_preserves (U : universe) (e : event) : Prop :=
  ∀ (m : mstate) (sm : sstate),
    wf_universe U = true → Inv U (st m) (fs sm) → clock m = sclock sm →
    event_ok U (fs sm) e = true →
    let '(m', o) := step U m e in
    o ≠ OFuel ∧ Inv U (st m') (fs (spec_step U sm e)) ∧ clock m' = sclock (spec_step U sm e).
