(** Composition: per-event preservation of the invariant gives the
    refinement for every chain-consistent history, at every prefix. *)
From stdpp Require Import gmap list numbers sorting.
From Coq Require Import ZArith NArith.
From Verif Require Import Tx.Store Tx.Ledger Tx.Hist Tx.Inv.
Local Open Scope Z_scope.
Local Open Scope stdpp_scope.

Lemma facts_wf_empty U : facts_wf U empty_facts.
Proof.
  unfold empty_facts. split; simpl.
  - intros t [H|H]; [rewrite lookup_empty in H; by destruct H | set_solver].
  - intros t H. rewrite lookup_empty in H. by destruct H.
  - intros op m1 m2 [H _]. simpl in H. rewrite lookup_empty in H. by destruct H.
  - intros op m u [H _]. simpl in H. rewrite lookup_empty in H. by destruct H.
  - intros m h bh op H. by rewrite lookup_empty in H.
  - set_solver.
  - intros t1 t2 h b1 b2 H. by rewrite lookup_empty in H.
  - intros t h b H. by rewrite lookup_empty in H.
Qed.

Lemma Inv_init U : Inv U empty_store empty_facts.
Proof.
  pose proof (facts_wf_empty U) as Hwf0.
  unfold empty_facts, empty_store in *. split; simpl; try done.
  - intros t h bh. rewrite !lookup_empty. split; [intros [? ?]; done | done].
  - intros t. rewrite lookup_empty. split; [intros [? ?]; done | set_solver].
  - intros op h bh. rewrite !lookup_empty. split; [done | intros [? _]; done].
  - intros op a chg. rewrite lookup_empty. split; [done | set_solver].
  - intros op u [H _]. simpl in H. set_solver.
Qed.

(** generalised runs from arbitrary related states *)
Definition run_from (U : universe) (m : mstate) (h : list event) : mstate :=
  foldl (fun m e => (step U m e).1) m h.
Definition spec_run_from (U : universe) (sm : sstate) (h : list event) : sstate :=
  foldl (spec_step U) sm h.

Lemma refinement_from U :
  wf_universe U = true → (∀ e, step_preserves U e) →
  ∀ h m sm, Inv U (st m) (fs sm) → clock m = sclock sm → consistent_from U sm h = true →
    Inv U (st (run_from U m h)) (fs (spec_run_from U sm h)) ∧
    clock (run_from U m h) = sclock (spec_run_from U sm h).
Proof.
  intros Hwf Hsteps h. induction h as [|e h IH]; intros m sm HI Hc Hcons; simpl.
  - done.
  - simpl in Hcons. apply andb_true_iff in Hcons as [Hok Hrest].
    pose proof (Hsteps e m sm Hwf HI Hc Hok) as Hs.
    destruct (step U m e) as [m' o] eqn:Est. destruct Hs as (_ & HI' & Hc').
    simpl. apply IH; assumption.
Qed.

Theorem refinement_from_steps :
  (∀ U, wf_universe U = true → ∀ e, step_preserves U e) → refinement_statement.
Proof.
  intros Hsteps U h Hwf Hcons.
  unfold run, spec_run.
  apply (refinement_from U Hwf (Hsteps U Hwf) h init_state {| fs := empty_facts; sclock := 0 |}).
  - apply Inv_init.
  - done.
  - exact Hcons.
Qed.

(** Every prefix of a consistent history is consistent. *)
Lemma consistent_from_app U sm h1 h2 :
  consistent_from U sm (h1 ++ h2) = true → consistent_from U sm h1 = true.
Proof.
  revert sm. induction h1 as [|e h1 IH]; intros sm; simpl; [done|].
  rewrite !andb_true_iff. intros [? ?]. split; [done|]. by apply IH.
Qed.

Lemma chain_consistent_prefix U h p :
  p `prefix_of` h → chain_consistent U h = true → chain_consistent U p = true.
Proof. intros [k ->]. apply consistent_from_app. Qed.

(** No step of a consistent history runs out of fuel. *)
Lemma no_fuel_from U :
  wf_universe U = true → (∀ e, step_preserves U e) →
  ∀ h m sm, Inv U (st m) (fs sm) → clock m = sclock sm → consistent_from U sm h = true →
    ∀ p e, p ++ [e] `prefix_of` h → (step U (run_from U m p) e).2 ≠ OFuel.
Proof.
  intros Hwf Hsteps h m sm HI Hc Hcons p e [k Hk].
  rewrite Hk in Hcons. rewrite <- app_assoc in Hcons. simpl in Hcons.
  assert (consistent_from U sm p = true) as Hp by (eapply consistent_from_app; exact Hcons).
  destruct (refinement_from U Hwf Hsteps p m sm HI Hc Hp) as [HI' Hc'].
  assert (Hok : event_ok U (fs (spec_run_from U sm p)) e = true).
  { clear -Hcons. revert sm Hcons. induction p as [|a p IH]; intros sm; simpl.
    - rewrite andb_true_iff. tauto.
    - rewrite andb_true_iff. intros [_ H]. by apply IH. }
  pose proof (Hsteps e _ _ Hwf HI' Hc' Hok) as Hs.
  destruct (step U (run_from U m p) e) as [m' o]. simpl. tauto.
Qed.
