(** [step_preserves U (Confirm t h bhash btime)]: the model's [apply_confirm]
    re-establishes the refinement invariant for [spec_confirm].
    Owner: prover-confirm.

    Structure of the argument.  No facts satisfy the full [Inv] while
    [remove_double_spends] runs inside [insert_mined] (the transaction is
    already confirmed while its unconfirmed double spends are still present,
    and its credits are not recorded yet).  The proof therefore separates the
    store into the three unmined buckets and the rest ([graft], section B):
    [remove_conflict], [remove_double_spends], [delete_unmined_tx] read and
    write only the unmined buckets; [update_mined_balance], [add_credit (Some _)]
    and [unlock_raw] never write them.  Hence

      apply_confirm s = graft (rds (delete_unmined_tx? s))
                              (unlock_all (add_credits (umb (txrec (blk s)))))

    ([apply_confirm_eq]).  The left component is a store for which the full
    [Inv] holds w.r.t. the OLD confirmed map and the unconfirmed set minus
    the transaction, so [remove_conflict_correct] applies call by call
    ([rds_correct], section D, which also shows that removing the double
    spends one after another equals [remove_unconf_with_descendants] of the
    conflicting set).  The right component is characterised bucket by bucket
    (sections F, G) and shown to satisfy the mined half [InvM] of the
    invariant for the NEW confirmed map ([mined_InvM]).  [Inv] is the
    conjunction of [facts_wf], [InvM] (a function of [f_conf]), [InvU] (a
    function of [f_unconf]) and the lease clause (section C); the pieces are
    joined in [confirm_first]. *)
From stdpp Require Import gmap list numbers sorting.
From Coq Require Import ZArith NArith.
From Verif Require Import Tx.Store Tx.Ledger Tx.Hist Tx.Inv Tx.InvRemove.
Local Open Scope Z_scope.

(** * A. Generic facts: sums over [map_to_list], list helpers *)

Lemma sumZ_perm (l l' : list Z) : l ≡ₚ l' → sumZ l = sumZ l'.
Proof.
  induction 1 as [|x l l' Hp IH|x y l|l l' l'' Hp1 IH1 Hp2 IH2]; simpl; try lia.
Qed.

Section sums.
  Context {K : Type} `{Countable K} {V : Type}.
  Implicit Types (m : gmap K V) (f : K * V → Z).

  Lemma sum_map_insert f m k v :
    m !! k = None →
    sumZ (map f (map_to_list (<[k := v]> m))) = f (k, v) + sumZ (map f (map_to_list m)).
  Proof.
    intros Hk.
    rewrite (sumZ_perm _ (map f ((k, v) :: map_to_list m))).
    - reflexivity.
    - apply Permutation_map. apply map_to_list_insert. exact Hk.
  Qed.

  Lemma sum_map_delete f m k v :
    m !! k = Some v →
    sumZ (map f (map_to_list m)) = f (k, v) + sumZ (map f (map_to_list (delete k m))).
  Proof.
    intros Hk.
    rewrite (sumZ_perm _ (map f ((k, v) :: map_to_list (delete k m)))).
    - reflexivity.
    - apply Permutation_map. symmetry. apply map_to_list_delete. exact Hk.
  Qed.
End sums.

Lemma foldl_snoc {A B} (f : A → B → A) a l x : foldl f a (l ++ [x]) = f (foldl f a l) x.
Proof. rewrite foldl_app. reflexivity. Qed.

Lemma indices_length {A} (l : list A) : length (indices l) = length l.
Proof. unfold indices. rewrite map_length, seq_length. reflexivity. Qed.

Lemma indices_snoc {A} (l : list A) x : indices (l ++ [x]) = indices l ++ [N.of_nat (length l)].
Proof.
  unfold indices. rewrite app_length. simpl. rewrite Nat.add_1_r, seq_S, map_app. reflexivity.
Qed.

Lemma zip_indices_snoc {A} (l : list A) x :
  zip (indices (l ++ [x])) (l ++ [x]) = zip (indices l) l ++ [(N.of_nat (length l), x)].
Proof.
  rewrite indices_snoc. rewrite zip_with_app.
  - reflexivity.
  - apply indices_length.
Qed.

Lemma elem_of_indices {A} (l : list A) (i : N) : i ∈ indices l ↔ (N.to_nat i < length l)%nat.
Proof.
  unfold indices. rewrite elem_of_list_In, in_map_iff. split.
  - intros (n & <- & Hn). apply in_seq in Hn. rewrite Nat2N.id. lia.
  - intros Hlt. exists (N.to_nat i). split; [apply N2Nat.id|]. apply in_seq. lia.
Qed.

Lemma elem_of_zip_indices {A} (l : list A) (i : N) (x : A) :
  (i, x) ∈ zip (indices l) l ↔ l !! N.to_nat i = Some x.
Proof.
  induction l as [|y l IH] using rev_ind.
  - simpl. split; [intros Hin; inversion Hin | intros Hl; discriminate].
  - rewrite zip_indices_snoc, elem_of_app, IH, elem_of_list_singleton. split.
    + intros [Hl | Heq].
      * rewrite lookup_app_l; [exact Hl|]. apply lookup_lt_Some in Hl. exact Hl.
      * inversion Heq; subst. rewrite Nat2N.id. rewrite lookup_app_r by lia.
        rewrite Nat.sub_diag. reflexivity.
    + intros Hl. destruct (decide (N.to_nat i < length l)%nat) as [Hlt|Hge].
      * left. rewrite lookup_app_l in Hl by exact Hlt. exact Hl.
      * right. rewrite lookup_app_r in Hl by lia.
        destruct (N.to_nat i - length l)%nat as [|n] eqn:Hd; simpl in Hl; [|destruct n; discriminate].
        inversion Hl; subst. f_equal. lia.
Qed.

Lemma zip_indices_fst_NoDup {A} (l : list A) : NoDup (zip (indices l) l).*1.
Proof.
  rewrite fst_zip.
  - unfold indices. apply NoDup_fmap_2_strong.
    + intros a b Ha Hb Hab. apply Nat2N.inj. exact Hab.
    + apply NoDup_ListNoDup, seq_NoDup.
  - rewrite indices_length. lia.
Qed.

Lemma zip_indices_snd {A} (l : list A) : (zip (indices l) l).*2 = l.
Proof. apply snd_zip. rewrite indices_length. lia. Qed.

(** * B. The unmined buckets are independent of the mined ones

    [graft r base]: the store [base] with the three unmined buckets of [r].
    [remove_conflict], [remove_double_spends], [delete_unmined_tx] read and
    write only the unmined buckets; [add_credit _ (Some _)], [unlock_raw] and
    [update_mined_balance] never write them. *)

Definition graft (r base : store) : store :=
  {| blocks := blocks base; txrecs := txrecs base; credits := credits base;
     unspent := unspent base; debits := debits base;
     unmined := unmined r; unmined_credits := unmined_credits r; unmined_inputs := unmined_inputs r;
     locked := locked base; bal := bal base |}.

Definition gopt (base : store) (o : option store) : option store :=
  match o with Some r => Some (graft r base) | None => None end.

Lemma graft_same r base :
  unmined base = unmined r → unmined_credits base = unmined_credits r →
  unmined_inputs base = unmined_inputs r → graft r base = base.
Proof. destruct base, r; simpl; intros -> -> ->; reflexivity. Qed.

Lemma foldl_gopt {A} (f : option store → A → option store) base (l : list A) :
  (∀ o a, a ∈ l → f (gopt base o) a = gopt base (f o a)) →
  ∀ o, foldl f (gopt base o) l = gopt base (foldl f o l).
Proof.
  induction l as [|a l IH]; intros Hf o; simpl; [reflexivity|].
  rewrite Hf by left. apply IH. intros o' a' Ha'. apply Hf. right. exact Ha'.
Qed.

Lemma foldl_graft {A} (f : store → A → store) base (l : list A) :
  (∀ r a, f (graft r base) a = graft (f r a) base) →
  ∀ r, foldl f (graft r base) l = graft (foldl f r l) base.
Proof.
  intros Hf. induction l as [|a l IH]; intros r; simpl; [reflexivity|].
  rewrite Hf. apply IH.
Qed.

Lemma dui_graft op h r base :
  delete_unmined_input op h (graft r base) = graft (delete_unmined_input op h r) base.
Proof.
  unfold delete_unmined_input. simpl.
  destruct (unmined_inputs r !! op) as [[|x l]|]; try reflexivity.
  destruct (filter (λ x0, x0 ≠ h) (x :: l)); reflexivity.
Qed.

(** unfolding equations with named step functions *)
Definition rc_sp (U : universe) (fuel : nat) (acc : option store) (sp : txid) : option store :=
  match acc with
  | None => None
  | Some s' => match unmined s' !! sp with
               | None => Some s'
               | Some _ => remove_conflict U fuel sp s'
               end
  end.

Definition rc_out (U : universe) (fuel : nat) (h : txid) (acc : option store) (i : N) : option store :=
  match acc with
  | None => None
  | Some s1 =>
    match foldl (rc_sp U fuel) (Some s1) (default [] (unmined_inputs s1 !! (h, i))) with
    | None => None
    | Some s3 => Some (set_unmined_credits (delete (h, i)) s3)
    end
  end.

Lemma rc_S U fuel h s :
  remove_conflict U (S fuel) h s =
  match U !! h with
  | None => None
  | Some t =>
    match foldl (rc_out U fuel h) (Some s) (indices (t_outs t)) with
    | None => None
    | Some s4 => Some (set_unmined (delete h) (foldl (fun s' op => delete_unmined_input op h s') s4 (t_ins t)))
    end
  end.
Proof. reflexivity. Qed.

Lemma rc_graft U fuel : ∀ h r base,
  remove_conflict U fuel h (graft r base) = gopt base (remove_conflict U fuel h r).
Proof.
  induction fuel as [|fuel IH]; intros h r base; [reflexivity|].
  rewrite !rc_S. destruct (U !! h) as [t|]; [|reflexivity].
  assert (Hsp : ∀ l o, foldl (rc_sp U fuel) (gopt base o) l = gopt base (foldl (rc_sp U fuel) o l)).
  { intros l. apply foldl_gopt. intros [s'|] sp _; simpl; [|reflexivity].
    destruct (unmined s' !! sp); [apply IH|reflexivity]. }
  change (Some (graft r base)) with (gopt base (Some r)).
  rewrite foldl_gopt.
  - destruct (foldl (rc_out U fuel h) (Some r) (indices (t_outs t))) as [s4|]; simpl; [|reflexivity].
    rewrite foldl_graft; [reflexivity|]. intros r' a. apply dui_graft.
  - intros [s1|] i _; simpl; [|reflexivity].
    change (Some (graft s1 base)) with (gopt base (Some s1)). rewrite Hsp.
    destruct (foldl (rc_sp U fuel) (Some s1) (default [] (unmined_inputs s1 !! (h, i)))); reflexivity.
Qed.

Definition rds_sp (U : universe) (fuel : nat) (tid : txid) (acc : option store) (ds : txid) : option store :=
  match acc with
  | None => None
  | Some s' =>
    if bool_decide (ds = tid) then Some s'
    else match unmined s' !! ds with
         | None => Some s'
         | Some _ => remove_conflict U fuel ds s'
         end
  end.

Definition rds_op (U : universe) (fuel : nat) (tid : txid) (acc : option store) (op : outpoint) : option store :=
  match acc with
  | None => None
  | Some s1 => foldl (rds_sp U fuel tid) (Some s1) (default [] (unmined_inputs s1 !! op))
  end.

Lemma rds_eq U fuel t s :
  remove_double_spends U fuel t s = foldl (rds_op U fuel (t_id t)) (Some s) (t_ins t).
Proof. reflexivity. Qed.

Lemma rds_graft U fuel t r base :
  remove_double_spends U fuel t (graft r base) = gopt base (remove_double_spends U fuel t r).
Proof.
  rewrite !rds_eq. change (Some (graft r base)) with (gopt base (Some r)).
  apply foldl_gopt. intros [s1|] op _; simpl; [|reflexivity].
  change (Some (graft s1 base)) with (gopt base (Some s1)).
  apply foldl_gopt. intros [s'|] ds _; simpl; [|reflexivity].
  destruct (bool_decide (ds = t_id t)); [reflexivity|].
  destruct (unmined s' !! ds); [apply rc_graft|reflexivity].
Qed.

Lemma dut_graft t r base :
  delete_unmined_tx t (graft r base) = graft (delete_unmined_tx t r) base.
Proof.
  unfold delete_unmined_tx.
  rewrite foldl_graft by (intros; apply dui_graft).
  rewrite foldl_graft by reflexivity. reflexivity.
Qed.

Lemma add_credit_graft t b i chg r base :
  add_credit t (Some b) i chg (graft r base) = graft r (add_credit t (Some b) i chg base).
Proof.
  unfold add_credit. destruct b as [bh bhash]. simpl.
  destruct (bool_decide (is_Some (credits base !! (t_id t, bh, bhash, i)))); reflexivity.
Qed.

Definition add_credits (t : tx) (b : blockid) (s : store) (cl : list (N * bool)) : store :=
  foldl (fun s' ic => add_credit t (Some b) ic.1 ic.2 s') s cl.

Lemma add_credits_graft t b cl : ∀ r base,
  add_credits t b (graft r base) cl = graft r (add_credits t b base cl).
Proof.
  unfold add_credits. induction cl as [|ic cl IH]; intros r base; cbn [foldl]; [reflexivity|].
  rewrite add_credit_graft. apply IH.
Qed.

Definition unlock_all (s : store) (ops : list outpoint) : store :=
  foldl (fun s' op => unlock_raw op s') s ops.

Lemma unlock_all_graft ops : ∀ r base, unlock_all (graft r base) ops = graft r (unlock_all base ops).
Proof.
  unfold unlock_all. induction ops as [|op ops IH]; intros r base; cbn [foldl]; [reflexivity|].
  change (unlock_raw op (graft r base)) with (graft r (unlock_raw op base)). apply IH.
Qed.

(** * C. The invariant splits into a mined part (a function of [f_conf]),
      an unmined part (a function of [f_unconf]), the leases and [facts_wf]. *)

Section split.
  Context (U : universe).

  Definition conf_sp (cm : gmap N (Z * N)) (op : outpoint) (m : txid) : Prop :=
    is_Some (cm !! m) ∧ op ∈ tx_ins U m.

  Record InvM (s : store) (cm : gmap N (Z * N)) : Prop := {
    im_blocks_sound : ∀ h br, blocks s !! h = Some br →
        b_txs br ≠ [] ∧ NoDup (b_txs br) ∧ ∀ t, t ∈ b_txs br → cm !! t = Some (h, b_hash br);
    im_blocks_complete : ∀ t h bh, cm !! t = Some (h, bh) →
        ∃ br, blocks s !! h = Some br ∧ b_hash br = bh ∧ t ∈ b_txs br;
    im_txrecs : ∀ t h bh, is_Some (txrecs s !! (t, h, bh)) ↔ cm !! t = Some (h, bh);
    im_credits_sound : ∀ t h bh i cv, credits s !! (t, h, bh, i) = Some cv →
        cm !! t = Some (h, bh) ∧ is_credited U (t, i) (c_change cv) ∧ c_amt cv = amount_of U (t, i) ∧
        (c_spent cv = true ↔ ∃ m, conf_sp cm (t, i) m);
    im_credits_complete : ∀ t h bh i chg, cm !! t = Some (h, bh) → is_credited U (t, i) chg →
        is_Some (credits s !! (t, h, bh, i));
    im_unspent : ∀ op h bh, unspent s !! op = Some (h, bh) ↔
        (cm !! op.1 = Some (h, bh) ∧ (∃ chg, is_credited U op chg) ∧ ¬ ∃ m, conf_sp cm op m);
    im_debits_sound : ∀ m h bh j a ck, debits s !! (m, h, bh, j) = Some (a, ck) →
        cm !! m = Some (h, bh) ∧
        ∃ op ph pbh, input_at U m j = Some op ∧ (∃ chg, is_credited U op chg) ∧
                     cm !! op.1 = Some (ph, pbh) ∧ ck = (op.1, ph, pbh, op.2) ∧ a = amount_of U op;
    im_debits_complete : ∀ m h bh j op ph pbh chg, cm !! m = Some (h, bh) → input_at U m j = Some op →
        is_credited U op chg → cm !! op.1 = Some (ph, pbh) →
        is_Some (debits s !! (m, h, bh, j));
    im_bal : bal s = sumZ (map (fun kv : outpoint * blockid => amount_of U kv.1) (map_to_list (unspent s)));
  }.

  Record InvU (s : store) (C : gset N) : Prop := {
    iu_unmined : ∀ t, is_Some (unmined s !! t) ↔ t ∈ C;
    iu_credits : ∀ op a chg, unmined_credits s !! op = Some (a, chg) ↔
        (op.1 ∈ C ∧ is_credited U op chg ∧ a = amount_of U op);
    iu_inputs_sound : ∀ op l, unmined_inputs s !! op = Some l →
        l ≠ [] ∧ NoDup l ∧ ∀ u, u ∈ l ↔ (u ∈ C ∧ op ∈ tx_ins U u);
    iu_inputs_complete : ∀ op u, u ∈ C → op ∈ tx_ins U u → is_Some (unmined_inputs s !! op);
  }.

  Lemma Inv_split s F :
    Inv U s F → facts_wf U F ∧ InvM s (f_conf F) ∧ InvU s (f_unconf F) ∧ locked s = f_leases F.
  Proof.
    intros HI. destruct HI. split; [assumption|]. split; [|split; [|assumption]].
    - constructor; assumption.
    - constructor; try assumption.
      intros op u Hu Hop. apply (inv_unmined_inputs_complete op u). split; assumption.
  Qed.

  Lemma Inv_join s F :
    facts_wf U F → InvM s (f_conf F) → InvU s (f_unconf F) → locked s = f_leases F → Inv U s F.
  Proof.
    intros Hwf HM [HU1 HU2 HU3 HU4] HL. destruct HM. constructor; try assumption.
    intros op u [Hu Hop]. exact (HU4 op u Hu Hop).
  Qed.

  (** InvM / InvU only look at their own buckets *)
  Lemma InvM_graft r base cm : InvM base cm → InvM (graft r base) cm.
  Proof. intros HM. destruct HM. constructor; assumption. Qed.

  Lemma InvU_graft r base C : InvU r C → InvU (graft r base) C.
  Proof. intros HU. destruct HU. constructor; assumption. Qed.
End split.

(** * D. Removing the double spends one after another = removing the
      conflicting set with its descendants at once *)

Definition wu (F : facts) (C : gset N) : facts :=
  {| f_conf := f_conf F; f_unconf := C; f_leases := f_leases F |}.

Lemma depends_on_ext U F F' roots u :
  f_unconf F = f_unconf F' → depends_on U F roots u → depends_on U F' roots u.
Proof.
  intros Heq Hd. induction Hd as [r Hr|p c Hp IH Hc Hs].
  - apply dep_root. exact Hr.
  - eapply dep_step; [exact IH| |exact Hs]. rewrite <- Heq. exact Hc.
Qed.

Section rds.
  Context (U : universe).
  Hypothesis Hdesc : descendants_correct U.
  Hypothesis Hrc : remove_conflict_correct U.
  Hypothesis HwfU : wf_universe U = true.

  Lemma elem_of_rm F roots u :
    u ∈ f_unconf (remove_unconf_with_descendants U F roots) ↔ u ∈ f_unconf F ∧ ¬ depends_on U F roots u.
  Proof.
    unfold remove_unconf_with_descendants. simpl. rewrite elem_of_filter.
    pose proof (Hdesc F roots u) as Hd. simpl in Hd. rewrite Hd. tauto.
  Qed.

  Lemma rm_wu F C roots :
    remove_unconf_with_descendants U (wu F C) roots =
    wu F (f_unconf (remove_unconf_with_descendants U (wu F C) roots)).
  Proof. reflexivity. Qed.

  (** the loop of [remove_double_spends] over base facts [F], starting from the
      unconfirmed set [C0]; [ins] are the inputs of the confirmed transaction,
      [cf] the roots of the specification *)
  Context (F : facts) (C0 : gset N) (ins : list outpoint) (cf : list txid) (tid : txid).
  Hypothesis Hcf : ∀ u, u ∈ cf ↔ u ∈ C0 ∧ ∃ op, op ∈ ins ∧ op ∈ tx_ins U u.
  Hypothesis Htid : tid ∉ C0.

  Definition good (C : gset N) : Prop :=
    C ⊆ C0 ∧
    (∀ u, u ∈ C0 → u ∉ C → depends_on U (wu F C0) cf u) ∧
    (∀ p c, p ∈ C0 → p ∉ C → c ∈ C0 → spends_output_of U c p = true → c ∉ C).

  Lemma good_C0 : good C0.
  Proof. split; [intros x Hx; exact Hx|]. split; intros; contradiction. Qed.

  Lemma dep_local_global C ds u :
    C ⊆ C0 → ds ∈ C → (∃ op, op ∈ ins ∧ op ∈ tx_ins U ds) →
    depends_on U (wu F C) [ds] u → depends_on U (wu F C0) cf u.
  Proof.
    intros HC Hds Hop Hd. induction Hd as [r Hr|p c Hp IH Hc Hs].
    - apply elem_of_list_singleton in Hr. subst r. apply dep_root. apply Hcf. split; [apply HC; exact Hds|exact Hop].
    - eapply dep_step; [exact IH| |exact Hs]. simpl in *. apply HC. exact Hc.
  Qed.

  Lemma dep_dec G roots u : depends_on U G roots u ∨ ¬ depends_on U G roots u.
  Proof.
    pose proof (Hdesc G roots u) as Hd. simpl in Hd.
    destruct (decide (u ∈ descendants U (S (length (elements (f_unconf G)))) (elements (f_unconf G)) roots)) as [Hin|Hin].
    - left. apply Hd. exact Hin.
    - right. intros Hdep. apply Hin. apply Hd. exact Hdep.
  Qed.

  Lemma good_step C ds :
    good C → ds ∈ C → (∃ op, op ∈ ins ∧ op ∈ tx_ins U ds) →
    good (f_unconf (remove_unconf_with_descendants U (wu F C) [ds])).
  Proof.
    intros (HC & Hrem & Hcl) Hds Hop. split; [|split].
    - intros u Hu. apply elem_of_rm in Hu. simpl in Hu. destruct Hu as [Hu _]. apply HC. exact Hu.
    - intros u Hu0 Hu. destruct (decide (u ∈ C)) as [HuC|HuC]; [|apply Hrem; assumption].
      destruct (dep_dec (wu F C) [ds] u) as [Hd|Hd].
      + apply (dep_local_global C ds u HC Hds Hop Hd).
      + exfalso. apply Hu. apply elem_of_rm. simpl. split; assumption.
    - intros p c Hp0 Hp Hc0 Hs Hc. apply elem_of_rm in Hc. simpl in Hc. destruct Hc as [HcC Hcd].
      destruct (decide (p ∈ C)) as [HpC|HpC].
      + apply Hcd. eapply dep_step; [|exact HcC|exact Hs].
        destruct (dep_dec (wu F C) [ds] p) as [Hd|Hd]; [exact Hd|].
        exfalso. apply Hp. apply elem_of_rm. simpl. split; assumption.
      + apply (Hcl p c Hp0 HpC Hc0 Hs HcC).
  Qed.

  (** one call *)
  Lemma rc_call s C ds :
    Inv U s (wu F C) → ds ∈ C →
    ∃ s', remove_conflict U (fuel_of U) ds s = Some s' ∧
          Inv U s' (wu F (f_unconf (remove_unconf_with_descendants U (wu F C) [ds]))) ∧
          ds ∉ f_unconf (remove_unconf_with_descendants U (wu F C) [ds]).
  Proof.
    intros HI Hds. destruct (Hrc s (wu F C) ds HwfU HI Hds) as (s' & Hs' & HI').
    exists s'. split; [exact Hs'|]. split; [exact HI'|].
    intros Hin. apply elem_of_rm in Hin. destruct Hin as [_ Hnd]. apply Hnd. apply dep_root. left.
  Qed.

  Lemma rds_inner l : ∀ s C,
    Inv U s (wu F C) → good C →
    (∀ ds, ds ∈ l → ds ∈ C → ∃ op, op ∈ ins ∧ op ∈ tx_ins U ds) →
    ∃ s' C', foldl (rds_sp U (fuel_of U) tid) (Some s) l = Some s' ∧
             Inv U s' (wu F C') ∧ good C' ∧ C' ⊆ C ∧ ∀ ds, ds ∈ l → ds ∉ C'.
  Proof.
    induction l as [|ds l IH]; intros s C HI Hg Hl.
    - exists s, C. split; [reflexivity|]. split; [exact HI|]. split; [exact Hg|]. split; [intros x Hx; exact Hx|].
      intros ds Hin. inversion Hin.
    - cbn [foldl]. unfold rds_sp at 2.
      assert (Hl' : ∀ C', C' ⊆ C → ∀ ds0, ds0 ∈ l → ds0 ∈ C' → ∃ op, op ∈ ins ∧ op ∈ tx_ins U ds0).
      { intros C' HC' ds0 Hin HinC. apply Hl; [right; exact Hin|]. apply HC'. exact HinC. }
      assert (Hskip : ds ∉ C →
                ∃ s' C', foldl (rds_sp U (fuel_of U) tid) (Some s) l = Some s' ∧
                  Inv U s' (wu F C') ∧ good C' ∧ C' ⊆ C ∧ ∀ ds0, ds0 ∈ ds :: l → ds0 ∉ C').
      { intros HdsC. destruct (IH s C HI Hg (Hl' C (reflexivity C))) as (s' & C' & Hf & HI' & Hg' & HC' & Hnl).
        exists s', C'. split; [exact Hf|]. split; [exact HI'|]. split; [exact Hg'|]. split; [exact HC'|].
        intros ds0 Hin. apply elem_of_cons in Hin. destruct Hin as [->|Hin]; [|apply Hnl; exact Hin].
        intros Hx. apply HdsC. apply HC'. exact Hx. }
      case_bool_decide as Heq.
      { apply Hskip. subst ds. destruct Hg as (HC & _). intros Hx. apply Htid. apply HC. exact Hx. }
      destruct (unmined s !! ds) as [[]|] eqn:Hun.
      + assert (HdsC : ds ∈ C).
        { apply (inv_unmined U s (wu F C) HI ds). rewrite Hun. eexists; reflexivity. }
        destruct (rc_call s C ds HI HdsC) as (s1 & Hs1 & HI1 & Hds1).
        rewrite Hs1.
        set (C1 := f_unconf (remove_unconf_with_descendants U (wu F C) [ds])) in *.
        assert (Hg1 : good C1).
        { apply good_step; [exact Hg|exact HdsC|]. apply Hl; [left|exact HdsC]. }
        assert (HC1 : C1 ⊆ C).
        { intros u Hu. apply elem_of_rm in Hu. simpl in Hu. tauto. }
        destruct (IH s1 C1 HI1 Hg1 (Hl' C1 HC1)) as (s' & C' & Hf & HI' & Hg' & HC' & Hnl).
        exists s', C'. split; [exact Hf|]. split; [exact HI'|]. split; [exact Hg'|].
        split; [intros x Hx; apply HC1, HC', Hx|].
        intros ds0 Hin. apply elem_of_cons in Hin. destruct Hin as [->|Hin]; [|apply Hnl; exact Hin].
        intros Hx. apply Hds1. apply HC'. exact Hx.
      + apply Hskip. intros HdsC. apply (inv_unmined U s (wu F C) HI ds) in HdsC.
        rewrite Hun in HdsC. destruct HdsC as [x Hx]. discriminate.
  Qed.

  Lemma rds_outer ops : ∀ s C,
    Inv U s (wu F C) → good C → (∀ op, op ∈ ops → op ∈ ins) →
    ∃ s' C', foldl (rds_op U (fuel_of U) tid) (Some s) ops = Some s' ∧
             Inv U s' (wu F C') ∧ good C' ∧ C' ⊆ C ∧
             ∀ op u, op ∈ ops → u ∈ C' → op ∉ tx_ins U u.
  Proof.
    induction ops as [|op ops IH]; intros s C HI Hg Hops.
    - exists s, C. split; [reflexivity|]. split; [exact HI|]. split; [exact Hg|]. split; [intros x Hx; exact Hx|].
      intros op u Hin. inversion Hin.
    - cbn [foldl]. unfold rds_op at 2.
      set (l := default [] (unmined_inputs s !! op)).
      assert (Hl : ∀ ds, ds ∈ l → ds ∈ C → ∃ op0, op0 ∈ ins ∧ op0 ∈ tx_ins U ds).
      { intros ds Hin _. exists op. split; [apply Hops; left|].
        unfold l in Hin. destruct (unmined_inputs s !! op) as [l0|] eqn:Hmi; simpl in Hin; [|inversion Hin].
        destruct (inv_unmined_inputs_sound U s (wu F C) HI op l0 Hmi) as (_ & _ & Hiff).
        apply Hiff in Hin. destruct Hin as [_ Hin]. exact Hin. }
      destruct (rds_inner l s C HI Hg Hl) as (s1 & C1 & Hf1 & HI1 & Hg1 & HC1 & Hnl).
      rewrite Hf1.
      destruct (IH s1 C1 HI1 Hg1) as (s' & C' & Hf & HI' & Hg' & HC' & Hno).
      { intros op0 Hin. apply Hops. right. exact Hin. }
      exists s', C'. split; [exact Hf|]. split; [exact HI'|]. split; [exact Hg'|].
      split; [intros x Hx; apply HC1, HC', Hx|].
      intros op0 u Hin Hu Hsp. apply elem_of_cons in Hin. destruct Hin as [->|Hin].
      + assert (HuC : u ∈ C) by (apply HC1, HC', Hu).
        destruct (inv_unmined_inputs_complete U s (wu F C) HI op u) as [l0 Hmi]; [split; [exact HuC|exact Hsp]|].
        destruct (inv_unmined_inputs_sound U s (wu F C) HI op l0 Hmi) as (_ & _ & Hiff).
        assert (Hul : u ∈ l).
        { unfold l. rewrite Hmi. simpl. apply Hiff. split; [exact HuC|exact Hsp]. }
        apply (Hnl u Hul). apply HC'. exact Hu.
      + eapply Hno; eassumption.
  Qed.

  (** what the final set is *)
  Lemma good_final C u :
    good C → (∀ op v, op ∈ ins → v ∈ C → op ∉ tx_ins U v) →
    u ∈ C ↔ u ∈ C0 ∧ ¬ depends_on U (wu F C0) cf u.
  Proof.
    intros (HC & Hrem & Hcl) Hno. split.
    - intros Hu. split; [apply HC; exact Hu|]. intros Hd.
      assert (Hgone : u ∈ C0 ∧ u ∉ C); [|tauto].
      clear Hu. induction Hd as [r Hr|p c Hp IH Hc Hs].
      + apply Hcf in Hr. destruct Hr as [Hr0 (op & Hop & Hsp)]. split; [exact Hr0|].
        intros HrC. eapply Hno; eassumption.
      + destruct IH as [Hp0 HpC]. simpl in Hc. split; [exact Hc|]. eapply Hcl; eassumption.
    - intros [Hu0 Hnd]. destruct (decide (u ∈ C)) as [HuC|HuC]; [exact HuC|].
      exfalso. apply Hnd. apply Hrem; assumption.
  Qed.

  Lemma rds_correct s :
    Inv U s (wu F C0) →
    ∃ s' C', foldl (rds_op U (fuel_of U) tid) (Some s) ins = Some s' ∧
             Inv U s' (wu F C') ∧
             (∀ u, u ∈ C' ↔ u ∈ C0 ∧ ¬ depends_on U (wu F C0) cf u) ∧
             (∀ op v, op ∈ ins → v ∈ C' → op ∉ tx_ins U v).
  Proof.
    intros HI.
    destruct (rds_outer ins s C0 HI good_C0 (λ op H, H)) as (s' & C' & Hf & HI' & Hg' & _ & Hno).
    exists s', C'. split; [exact Hf|]. split; [exact HI'|]. split; [|exact Hno].
    intros u. apply good_final; assumption.
  Qed.
End rds.

(** * E. Phase (4): [delete_unmined_tx] on the unmined part *)

Lemma foldl_proj {A B} (f : store → A → store) (pr : store → B) (l : list A) :
  (∀ s a, pr (f s a) = pr s) → ∀ s, pr (foldl f s l) = pr s.
Proof.
  intros Hf. induction l as [|a l IH]; intros s; simpl; [reflexivity|]. rewrite IH. apply Hf.
Qed.

Definition dui_val (h : txid) (o : option (list txid)) : option (list txid) :=
  match o with
  | None => None
  | Some [] => Some []
  | Some l => match filter (fun x => x ≠ h) l with [] => None | l' => Some l' end
  end.

Lemma dui_lookup op h s op' :
  unmined_inputs (delete_unmined_input op h s) !! op' =
  if decide (op' = op) then dui_val h (unmined_inputs s !! op) else unmined_inputs s !! op'.
Proof.
  unfold delete_unmined_input, dui_val.
  destruct (unmined_inputs s !! op) as [[|x l]|] eqn:Hmi.
  - destruct (decide (op' = op)) as [->|]; [exact Hmi|reflexivity].
  - destruct (filter (λ x0, x0 ≠ h) (x :: l)) as [|y l'] eqn:Hf; simpl.
    + destruct (decide (op' = op)) as [->|Hne]; [apply lookup_delete|apply lookup_delete_ne; congruence].
    + destruct (decide (op' = op)) as [->|Hne]; [apply lookup_insert|apply lookup_insert_ne; congruence].
  - destruct (decide (op' = op)) as [->|]; [exact Hmi|reflexivity].
Qed.

Lemma dui_unmined op h s : unmined (delete_unmined_input op h s) = unmined s.
Proof.
  unfold delete_unmined_input. destruct (unmined_inputs s !! op) as [[|x l]|]; try reflexivity.
  destruct (filter _ _); reflexivity.
Qed.

Lemma dui_unmined_credits op h s : unmined_credits (delete_unmined_input op h s) = unmined_credits s.
Proof.
  unfold delete_unmined_input. destruct (unmined_inputs s !! op) as [[|x l]|]; try reflexivity.
  destruct (filter _ _); reflexivity.
Qed.

Lemma dui_fold_lookup h ops : NoDup ops → ∀ s op',
  unmined_inputs (foldl (fun s' op => delete_unmined_input op h s') s ops) !! op' =
  if decide (op' ∈ ops) then dui_val h (unmined_inputs s !! op') else unmined_inputs s !! op'.
Proof.
  induction 1 as [|op ops Hnin Hnd IH]; intros s op'; cbn [foldl].
  - destruct (decide (op' ∈ [])) as [Hin|]; [inversion Hin|reflexivity].
  - rewrite IH. rewrite !dui_lookup.
    destruct (decide (op' = op)) as [->|Hne].
    + destruct (decide (op ∈ ops)) as [Hin|_]; [contradiction|].
      destruct (decide (op ∈ op :: ops)) as [_|Hn]; [reflexivity|]. exfalso. apply Hn. left.
    + destruct (decide (op' ∈ ops)) as [Hin|Hin].
      * destruct (decide (op' ∈ op :: ops)) as [_|Hn]; [reflexivity|]. exfalso. apply Hn. right. exact Hin.
      * destruct (decide (op' ∈ op :: ops)) as [Hin'|_]; [|reflexivity].
        apply elem_of_cons in Hin'. destruct Hin' as [?|?]; contradiction.
Qed.

Lemma del_mc_fold_lookup h idx : ∀ s op',
  unmined_credits (foldl (fun s' i => set_unmined_credits (delete (h, i)) s') s idx) !! op' =
  if decide (op'.1 = h ∧ op'.2 ∈ idx) then None else unmined_credits s !! op'.
Proof.
  induction idx as [|i idx IH]; intros s op'; cbn [foldl].
  - destruct (decide (op'.1 = h ∧ op'.2 ∈ [])) as [[_ Hin]|]; [inversion Hin|reflexivity].
  - rewrite IH. simpl. destruct op' as [a j]. simpl.
    destruct (decide (a = h ∧ j ∈ idx)) as [[-> Hin]|Hn].
    + destruct (decide (h = h ∧ j ∈ i :: idx)) as [_|Hn]; [reflexivity|]. exfalso. apply Hn. split; [reflexivity|right; exact Hin].
    + destruct (decide (a = h ∧ j ∈ i :: idx)) as [[-> Hin]|Hn'].
      * apply elem_of_cons in Hin. destruct Hin as [->|Hin]; [apply lookup_delete|]. exfalso. apply Hn. split; [reflexivity|exact Hin].
      * apply lookup_delete_ne. intros Heq. inversion Heq; subst. apply Hn'. split; [reflexivity|left].
Qed.

Section phase4.
  Context (U : universe).

  Lemma dut_InvU s C t tid :
    U !! tid = Some t → t_id t = tid → NoDup (t_ins t) →
    (∀ ic, ic ∈ t_creds t → (N.to_nat ic.1 < length (t_outs t))%nat) →
    InvU U s C → InvU U (delete_unmined_tx t s) (C ∖ {[tid]}).
  Proof.
    intros HUt Hid Hnd Hrange HU. destruct HU as [Hun Hmc Hmis Hmic].
    assert (Hins : tx_ins U tid = t_ins t) by (unfold tx_ins; rewrite HUt; reflexivity).
    unfold delete_unmined_tx. rewrite Hid.
    set (s1 := foldl (λ s' op, delete_unmined_input op tid s') s (t_ins t)).
    set (s2 := foldl (λ s' i, set_unmined_credits (delete (tid, i)) s') s1 (indices (t_outs t))).
    assert (Hun1 : unmined s1 = unmined s) by (apply (foldl_proj _ unmined); intros; apply dui_unmined).
    assert (Hmc1 : unmined_credits s1 = unmined_credits s)
      by (apply (foldl_proj _ unmined_credits); intros; apply dui_unmined_credits).
    assert (Hun2 : unmined s2 = unmined s1) by (apply (foldl_proj _ unmined); intros; reflexivity).
    assert (Hmi2 : unmined_inputs s2 = unmined_inputs s1) by (apply (foldl_proj _ unmined_inputs); intros; reflexivity).
    constructor.
    - intros x. simpl. rewrite Hun2, Hun1, elem_of_difference, elem_of_singleton.
      destruct (decide (x = tid)) as [->|Hne].
      + rewrite lookup_delete. split; [intros [y Hy]; discriminate|intros [_ Hn]; contradiction].
      + rewrite lookup_delete_ne by congruence. rewrite Hun. tauto.
    - intros op a chg. simpl. unfold s2. rewrite del_mc_fold_lookup, Hmc1.
      rewrite elem_of_difference, elem_of_singleton.
      destruct (decide (op.1 = tid ∧ op.2 ∈ indices (t_outs t))) as [[Heq Hin]|Hn].
      + split; [discriminate|]. intros [[_ Hne] _]. contradiction.
      + rewrite Hmc. split.
        * intros (HC & Hcr & Ha). split; [|split; assumption]. split; [exact HC|].
          intros Heq. apply Hn. split; [exact Heq|].
          unfold is_credited, creds_of in Hcr. rewrite Heq, HUt in Hcr.
          apply elem_of_indices. apply (Hrange _ Hcr).
        * intros ((HC & _) & Hcr & Ha). split; [exact HC|split; assumption].
    - intros op l. simpl. rewrite Hmi2. unfold s1. rewrite dui_fold_lookup by exact Hnd.
      destruct (decide (op ∈ t_ins t)) as [Hin|Hin].
      + destruct (unmined_inputs s !! op) as [l0|] eqn:Hl0; simpl; [|discriminate].
        destruct (Hmis op l0 Hl0) as (Hne0 & Hnd0 & Hiff0).
        destruct l0 as [|x0 l0]; [contradiction|].
        destruct (filter (λ x, x ≠ tid) (x0 :: l0)) as [|y l'] eqn:Hf; [discriminate|].
        intros Heq. inversion Heq; subst l. split; [discriminate|]. rewrite <- Hf. split.
        * apply NoDup_filter. exact Hnd0.
        * intros u. rewrite elem_of_list_filter, Hiff0, elem_of_difference, elem_of_singleton. tauto.
      + intros Hl. destruct (Hmis op l Hl) as (Hne0 & Hnd0 & Hiff0).
        split; [exact Hne0|]. split; [exact Hnd0|]. intros u.
        rewrite Hiff0, elem_of_difference, elem_of_singleton. split; [|tauto].
        intros [HuC Hop]. split; [|exact Hop]. split; [exact HuC|].
        intros ->. apply Hin. rewrite <- Hins. exact Hop.
    - intros op u Hu Hop. simpl. rewrite Hmi2. unfold s1. rewrite dui_fold_lookup by exact Hnd.
      apply elem_of_difference in Hu. destruct Hu as [HuC Hne]. rewrite elem_of_singleton in Hne.
      destruct (Hmic op u HuC Hop) as [l0 Hl0].
      destruct (decide (op ∈ t_ins t)) as [Hin|Hin]; [|rewrite Hl0; eexists; reflexivity].
      rewrite Hl0. simpl.
      destruct (Hmis op l0 Hl0) as (Hne0 & Hnd0 & Hiff0).
      destruct l0 as [|x0 l0]; [contradiction|].
      assert (Huf : u ∈ filter (λ x, x ≠ tid) (x0 :: l0)).
      { apply elem_of_list_filter. split; [exact Hne|]. apply Hiff0. split; assumption. }
      destruct (filter (λ x, x ≠ tid) (x0 :: l0)) as [|y l']; [inversion Huf|eexists; reflexivity].
  Qed.
End phase4.

(** * F. Phase (3): [update_mined_balance] *)

Definition zero_cv : credval := {| c_amt := 0; c_spent := false; c_change := false; c_by := None |}.

Definition umb_in (h : txid) (bh : Z) (bhash : N) (acc : store * Z) (ii : N * outpoint) : store * Z :=
  let '(s1, nb) := acc in
  let '(i, op) := ii in
  match cred_key_of_unspent s1 op with
  | None => (s1, nb)
  | Some ck =>
    let spender : credkey := (h, bh, bhash, i) in
    let cv := default zero_cv (credits s1 !! ck) in
    let amt := c_amt cv in
    let s2 := set_credits (<[ck := {| c_amt := amt; c_spent := true; c_change := c_change cv; c_by := Some spender |}]>) s1 in
    let s3 := set_debits (<[spender := (amt, ck)]>) s2 in
    let s4 := set_unspent (delete op) s3 in
    (s4, nb - amt)
  end.

Definition umb_mc (h : txid) (bh : Z) (bhash : N) (acc : store * Z) (kv : outpoint * (Z * bool)) : store * Z :=
  let '(s1, nb) := acc in
  let '(op, (amt, chg)) := kv in
  let ck : credkey := (h, bh, bhash, op.2) in
  let s2 := set_credits (<[ck := {| c_amt := amt; c_spent := false; c_change := chg; c_by := None |}]>) s1 in
  let s3 := set_unspent (<[op := (bh, bhash)]>) s2 in
  (s3, nb + amt).

Lemma umb_eq t bh bhash s :
  update_mined_balance t (bh, bhash) s =
  let '(s5, nb1) := foldl (umb_in (t_id t) bh bhash) (s, bal s) (zip (indices (t_ins t)) (t_ins t)) in
  let '(s6, nb2) := foldl (umb_mc (t_id t) bh bhash) (s5, nb1)
                      (filter (fun kv => kv.1.1 = t_id t) (map_to_list (unmined_credits s5))) in
  set_bal (fun _ => nb2) s6.
Proof. reflexivity. Qed.

Section phase3.
  Context (U : universe).

  Definition usum (m : gmap (N * N) (Z * N)) : Z :=
    sumZ (map (fun kv : outpoint * blockid => amount_of U kv.1) (map_to_list m)).

  Lemma usum_insert m k v : m !! k = None → usum (<[k := v]> m) = amount_of U k + usum m.
  Proof. intros Hk. unfold usum. rewrite (sum_map_insert _ m k v Hk). reflexivity. Qed.

  Lemma usum_delete m k v : m !! k = Some v → usum m = amount_of U k + usum (delete k m).
  Proof. intros Hk. unfold usum. rewrite (sum_map_delete _ m k v Hk). reflexivity. Qed.

  Context (h : txid) (bh : Z) (bhash : N).

  (** ** the debit loop *)
  Record PostIn (s : store) (nb0 : Z) (iis : list (N * outpoint)) (r : store * Z) : Prop := {
    pi_blocks : blocks r.1 = blocks s;
    pi_txrecs : txrecs r.1 = txrecs s;
    pi_unmined : unmined r.1 = unmined s;
    pi_unmined_credits : unmined_credits r.1 = unmined_credits s;
    pi_unmined_inputs : unmined_inputs r.1 = unmined_inputs s;
    pi_locked : locked r.1 = locked s;
    pi_unspent : ∀ op', unspent r.1 !! op' = if decide (op' ∈ iis.*2) then None else unspent s !! op';
    pi_credits_other : ∀ ck',
        (∀ i op h' bh', (i, op) ∈ iis → unspent s !! op = Some (h', bh') → ck' ≠ (op.1, h', bh', op.2)) →
        credits r.1 !! ck' = credits s !! ck';
    pi_credits_spent : ∀ i op h' bh' cv,
        (i, op) ∈ iis → unspent s !! op = Some (h', bh') → credits s !! (op.1, h', bh', op.2) = Some cv →
        ∃ by_, credits r.1 !! (op.1, h', bh', op.2) =
               Some {| c_amt := c_amt cv; c_spent := true; c_change := c_change cv; c_by := by_ |};
    pi_debits_other : ∀ dk,
        (∀ i op, (i, op) ∈ iis → is_Some (unspent s !! op) → dk ≠ (h, bh, bhash, i)) →
        debits r.1 !! dk = debits s !! dk;
    pi_debits_new : ∀ i op h' bh',
        (i, op) ∈ iis → unspent s !! op = Some (h', bh') →
        debits r.1 !! (h, bh, bhash, i) = Some (amount_of U op, (op.1, h', bh', op.2));
    pi_bal : r.2 - usum (unspent r.1) = nb0 - usum (unspent s);
  }.

  Lemma umb_in_fold s nb0 (iis : list (N * outpoint)) :
    NoDup iis.*1 → NoDup iis.*2 →
    (∀ i op h' bh', (i, op) ∈ iis → unspent s !! op = Some (h', bh') →
       ∃ cv, credits s !! (op.1, h', bh', op.2) = Some cv ∧ c_amt cv = amount_of U op) →
    PostIn s nb0 iis (foldl (umb_in h bh bhash) (s, nb0) iis).
  Proof.
    induction iis as [|[i op] iis IH] using rev_ind; intros Hnd1 Hnd2 Hcred.
    - simpl. constructor; try reflexivity; simpl.
      + intros i op h' bh' cv Hin. inversion Hin.
      + intros i op h' bh' Hin. inversion Hin.
    - rewrite fmap_app in Hnd1. rewrite fmap_app in Hnd2. simpl in Hnd1, Hnd2.
      apply NoDup_app in Hnd1. destruct Hnd1 as (Hnd1 & Hi & _).
      apply NoDup_app in Hnd2. destruct Hnd2 as (Hnd2 & Hop & _).
      assert (Hinew : i ∉ iis.*1). { intros Hin. apply (Hi i Hin). left. }
      assert (Hopnew : op ∉ iis.*2). { intros Hin. apply (Hop op Hin). left. }
      assert (Hcred' : ∀ i0 op0 h' bh', (i0, op0) ∈ iis → unspent s !! op0 = Some (h', bh') →
                ∃ cv, credits s !! (op0.1, h', bh', op0.2) = Some cv ∧ c_amt cv = amount_of U op0).
      { intros i0 op0 h' bh' Hin. apply (Hcred i0). apply elem_of_app. left. exact Hin. }
      specialize (IH Hnd1 Hnd2 Hcred').
      rewrite foldl_snoc. destruct (foldl (umb_in h bh bhash) (s, nb0) iis) as [s1 nb] eqn:Hfold.
      destruct IH as [Hb Ht Hu Hmc Hmi Hl Hus Hco Hcs Hdo Hdn Hbal]. simpl in *.
      assert (Hus_op : unspent s1 !! op = unspent s !! op).
      { rewrite Hus. destruct (decide (op ∈ iis.*2)); [contradiction|reflexivity]. }
      assert (Hmem : ∀ i0 op0, (i0, op0) ∈ iis ++ [(i, op)] ↔ (i0, op0) ∈ iis ∨ (i0 = i ∧ op0 = op)).
      { intros i0 op0. rewrite elem_of_app, elem_of_list_singleton. split; intros [Hin|Heq]; auto.
        - right. inversion Heq; auto.
        - right. destruct Heq as [-> ->]. reflexivity. }
      assert (Hmem2 : ∀ op', op' ∈ (iis ++ [(i, op)]).*2 ↔ op' ∈ iis.*2 ∨ op' = op).
      { intros op'. rewrite fmap_app, elem_of_app. simpl. rewrite elem_of_list_singleton. tauto. }
      assert (Hin_fst : ∀ i0 op0, (i0, op0) ∈ iis → i0 ∈ iis.*1).
      { intros i0 op0 Hin. apply elem_of_list_fmap. exists (i0, op0). split; [reflexivity|exact Hin]. }
      assert (Hin_snd : ∀ i0 op0, (i0, op0) ∈ iis → op0 ∈ iis.*2).
      { intros i0 op0 Hin. apply elem_of_list_fmap. exists (i0, op0). split; [reflexivity|exact Hin]. }
      unfold cred_key_of_unspent. rewrite Hus_op.
      destruct (unspent s !! op) as [[h' bh']|] eqn:Hop_s.
      + (* the input is an unspent mined credit *)
        destruct (Hcred i op h' bh') as (cv & Hcv & Hamt); [apply Hmem; right; auto|exact Hop_s|].
        assert (Hcv1 : credits s1 !! (op.1, h', bh', op.2) = Some cv).
        { rewrite Hco; [exact Hcv|]. intros i0 op0 h0 bh0 Hin Hu0 Heq. inversion Heq as [[H1 H2 H3 H4]].
          apply Hopnew. replace op with op0; [eapply Hin_snd; exact Hin|].
          destruct op, op0; simpl in *; congruence. }
        rewrite Hcv1. simpl. constructor; simpl; try assumption.
        * intros op'. destruct (decide (op' = op)) as [->|Hne].
          -- rewrite lookup_delete. destruct (decide (op ∈ (iis ++ [(i, op)]).*2)) as [_|Hn]; [reflexivity|].
             exfalso. apply Hn. apply Hmem2. right. reflexivity.
          -- rewrite lookup_delete_ne by congruence. rewrite Hus.
             destruct (decide (op' ∈ iis.*2)) as [Hin|Hin];
               destruct (decide (op' ∈ (iis ++ [(i, op)]).*2)) as [Hin'|Hin']; try reflexivity.
             ++ exfalso. apply Hin'. apply Hmem2. left. exact Hin.
             ++ exfalso. apply Hmem2 in Hin'. destruct Hin'; contradiction.
        * intros ck' Hck'. rewrite lookup_insert_ne.
          -- apply Hco. intros i0 op0 h0 bh0 Hin. apply (Hck' i0). apply Hmem. left. exact Hin.
          -- intros Heq. apply (Hck' i op h' bh'); [apply Hmem; right; auto|exact Hop_s|]. symmetry. exact Heq.
        * intros i0 op0 h0 bh0 cv0 Hin Hu0 Hcv0. apply Hmem in Hin. destruct Hin as [Hin|[-> ->]].
          -- rewrite lookup_insert_ne; [eapply Hcs; eassumption|].
             intros Heq. inversion Heq as [[H1 H2 H3 H4]]. apply Hopnew.
             replace op with op0; [eapply Hin_snd; exact Hin|]. destruct op, op0; simpl in *; congruence.
          -- rewrite Hop_s in Hu0. inversion Hu0; subst h0 bh0. rewrite Hcv in Hcv0. inversion Hcv0; subst cv0.
             rewrite lookup_insert. eexists. reflexivity.
        * intros dk Hdk. rewrite lookup_insert_ne.
          -- apply Hdo. intros i0 op0 Hin. apply Hdk. apply Hmem. left. exact Hin.
          -- intros Heq. apply (Hdk i op); [apply Hmem; right; auto|rewrite Hop_s; eexists; reflexivity|].
             symmetry. exact Heq.
        * intros i0 op0 h0 bh0 Hin Hu0. apply Hmem in Hin. destruct Hin as [Hin|[-> ->]].
          -- rewrite lookup_insert_ne; [eapply Hdn; eassumption|].
             intros Heq. inversion Heq; subst i0. apply Hinew. eapply Hin_fst. exact Hin.
          -- rewrite Hop_s in Hu0. inversion Hu0; subst h0 bh0. rewrite lookup_insert. rewrite Hamt. reflexivity.
        * assert (Hs1op : unspent s1 !! op = Some (h', bh')) by (rewrite Hus_op; reflexivity).
          rewrite (usum_delete _ _ _ Hs1op) in Hbal. lia.
      + (* not ours / already spent: skipped *)
        constructor; simpl; try assumption.
        * intros op'. rewrite Hus.
          destruct (decide (op' ∈ iis.*2)) as [Hin|Hin];
            destruct (decide (op' ∈ (iis ++ [(i, op)]).*2)) as [Hin'|Hin']; try reflexivity.
          -- exfalso. apply Hin'. apply Hmem2. left. exact Hin.
          -- apply Hmem2 in Hin'. destruct Hin' as [? | ->]; [contradiction|]. exact Hop_s.
        * intros ck' Hck'. apply Hco. intros i0 op0 h0 bh0 Hin. apply (Hck' i0). apply Hmem. left. exact Hin.
        * intros i0 op0 h0 bh0 cv0 Hin Hu0 Hcv0. apply Hmem in Hin. destruct Hin as [Hin|[-> ->]].
          -- eapply Hcs; eassumption.
          -- rewrite Hop_s in Hu0. discriminate.
        * intros dk Hdk. apply Hdo. intros i0 op0 Hin. apply Hdk. apply Hmem. left. exact Hin.
        * intros i0 op0 h0 bh0 Hin Hu0. apply Hmem in Hin. destruct Hin as [Hin|[-> ->]].
          -- eapply Hdn; eassumption.
          -- rewrite Hop_s in Hu0. discriminate.
  Qed.

  (** ** the loop that moves the unmined credits of the transaction *)
  Record PostMc (s5 : store) (nb1 : Z) (mcs : list (outpoint * (Z * bool))) (r : store * Z) : Prop := {
    pm_blocks : blocks r.1 = blocks s5;
    pm_txrecs : txrecs r.1 = txrecs s5;
    pm_debits : debits r.1 = debits s5;
    pm_unmined : unmined r.1 = unmined s5;
    pm_unmined_credits : unmined_credits r.1 = unmined_credits s5;
    pm_unmined_inputs : unmined_inputs r.1 = unmined_inputs s5;
    pm_locked : locked r.1 = locked s5;
    pm_unspent : ∀ op', unspent r.1 !! op' = if decide (op' ∈ mcs.*1) then Some (bh, bhash) else unspent s5 !! op';
    pm_credits_other : ∀ ck', (∀ op v, (op, v) ∈ mcs → ck' ≠ (h, bh, bhash, op.2)) →
        credits r.1 !! ck' = credits s5 !! ck';
    pm_credits_new : ∀ op a c, (op, (a, c)) ∈ mcs →
        credits r.1 !! (h, bh, bhash, op.2) = Some {| c_amt := a; c_spent := false; c_change := c; c_by := None |};
    pm_bal : r.2 - usum (unspent r.1) = nb1 - usum (unspent s5);
  }.

  Lemma umb_mc_fold s5 nb1 (mcs : list (outpoint * (Z * bool))) :
    NoDup mcs.*1 →
    (∀ op a c, (op, (a, c)) ∈ mcs → op.1 = h ∧ unspent s5 !! op = None ∧ a = amount_of U op) →
    PostMc s5 nb1 mcs (foldl (umb_mc h bh bhash) (s5, nb1) mcs).
  Proof.
    induction mcs as [|[op [a c]] mcs IH] using rev_ind; intros Hnd Hmcs.
    - simpl. constructor; try reflexivity; simpl.
      intros op a c Hin. inversion Hin.
    - rewrite fmap_app in Hnd. simpl in Hnd.
      apply NoDup_app in Hnd. destruct Hnd as (Hnd & Hop & _).
      assert (Hopnew : op ∉ mcs.*1). { intros Hin. apply (Hop op Hin). left. }
      assert (Hmcs' : ∀ op0 a0 c0, (op0, (a0, c0)) ∈ mcs → op0.1 = h ∧ unspent s5 !! op0 = None ∧ a0 = amount_of U op0).
      { intros op0 a0 c0 Hin. apply (Hmcs op0 a0 c0). apply elem_of_app. left. exact Hin. }
      specialize (IH Hnd Hmcs').
      rewrite foldl_snoc. destruct (foldl (umb_mc h bh bhash) (s5, nb1) mcs) as [s1 nb] eqn:Hfold.
      destruct IH as [Hb Ht Hd Hu Hmc Hmi Hl Hus Hco Hcn Hbal]. simpl in *.
      destruct (Hmcs op a c) as (Hop1 & Hop_s & Ha); [apply elem_of_app; right; left|].
      assert (Hmem : ∀ op0 v0, (op0, v0) ∈ mcs ++ [(op, (a, c))] ↔ (op0, v0) ∈ mcs ∨ (op0 = op ∧ v0 = (a, c))).
      { intros op0 v0. rewrite elem_of_app, elem_of_list_singleton. split; intros [Hin|Heq]; auto.
        - right. inversion Heq; auto.
        - right. destruct Heq as [-> ->]. reflexivity. }
      assert (Hmem1 : ∀ op', op' ∈ (mcs ++ [(op, (a, c))]).*1 ↔ op' ∈ mcs.*1 ∨ op' = op).
      { intros op'. rewrite fmap_app, elem_of_app. simpl. rewrite elem_of_list_singleton. tauto. }
      assert (Hin_fst : ∀ op0 v0, (op0, v0) ∈ mcs → op0 ∈ mcs.*1).
      { intros op0 v0 Hin. apply elem_of_list_fmap. exists (op0, v0). split; [reflexivity|exact Hin]. }
      assert (Hus_op : unspent s1 !! op = None).
      { rewrite Hus. destruct (decide (op ∈ mcs.*1)); [contradiction|exact Hop_s]. }
      constructor; simpl; try assumption.
      + intros op'. destruct (decide (op' = op)) as [->|Hne].
        * rewrite lookup_insert. destruct (decide (op ∈ (mcs ++ [(op, (a, c))]).*1)) as [_|Hn]; [reflexivity|].
          exfalso. apply Hn. apply Hmem1. right. reflexivity.
        * rewrite lookup_insert_ne by congruence. rewrite Hus.
          destruct (decide (op' ∈ mcs.*1)) as [Hin|Hin];
            destruct (decide (op' ∈ (mcs ++ [(op, (a, c))]).*1)) as [Hin'|Hin']; try reflexivity.
          -- exfalso. apply Hin'. apply Hmem1. left. exact Hin.
          -- exfalso. apply Hmem1 in Hin'. destruct Hin'; contradiction.
      + intros ck' Hck'. rewrite lookup_insert_ne.
        * apply Hco. intros op0 v0 Hin. apply (Hck' op0 v0). apply Hmem. left. exact Hin.
        * intros Heq. apply (Hck' op (a, c)); [apply Hmem; right; auto|]. symmetry. exact Heq.
      + intros op0 a0 c0 Hin. apply Hmem in Hin. destruct Hin as [Hin|[-> Heq]].
        * rewrite lookup_insert_ne; [eapply Hcn; exact Hin|].
          intros Heq. inversion Heq as [Heq2]. apply Hopnew.
          destruct (Hmcs' op0 a0 c0 Hin) as (Hop01 & _ & _).
          replace op with op0; [eapply Hin_fst; exact Hin|]. destruct op, op0; simpl in *; congruence.
        * inversion Heq; subst a0 c0. apply lookup_insert.
      + rewrite (usum_insert _ _ _ Hus_op). lia.
  Qed.

  (** ** [add_credit (Some b)] for a transaction none of whose credits is recorded yet *)
  Record PostAc (t : tx) (s : store) (cl : list (N * bool)) (r : store) : Prop := {
    pa_blocks : blocks r = blocks s;
    pa_txrecs : txrecs r = txrecs s;
    pa_debits : debits r = debits s;
    pa_unmined : unmined r = unmined s;
    pa_unmined_credits : unmined_credits r = unmined_credits s;
    pa_unmined_inputs : unmined_inputs r = unmined_inputs s;
    pa_locked : locked r = locked s;
    pa_unspent : ∀ op', unspent r !! op' =
        if decide (op'.1 = h ∧ op'.2 ∈ cl.*1) then Some (bh, bhash) else unspent s !! op';
    pa_credits_other : ∀ ck', (∀ i, i ∈ cl.*1 → ck' ≠ (h, bh, bhash, i)) → credits r !! ck' = credits s !! ck';
    pa_credits_new : ∀ i chg, (i, chg) ∈ cl →
        credits r !! (h, bh, bhash, i) = Some {| c_amt := out_amount t i; c_spent := false; c_change := chg; c_by := None |};
    pa_bal : bal r - usum (unspent r) = bal s - usum (unspent s);
  }.

  Lemma add_credits_fresh t s (cl : list (N * bool)) :
    t_id t = h → U !! h = Some t → NoDup cl.*1 →
    (∀ i, i ∈ cl.*1 → credits s !! (h, bh, bhash, i) = None ∧ unspent s !! (h, i) = None) →
    PostAc t s cl (add_credits t (bh, bhash) s cl).
  Proof.
    intros Hid HUt. unfold add_credits.
    induction cl as [|[i chg] cl IH] using rev_ind; intros Hnd Hfresh.
    - simpl. constructor; try reflexivity; simpl.
      + intros op'. destruct (decide (op'.1 = h ∧ op'.2 ∈ [])) as [[_ Hin]|]; [inversion Hin|reflexivity].
      + intros i chg Hin. inversion Hin.
    - rewrite fmap_app in Hnd. simpl in Hnd.
      apply NoDup_app in Hnd. destruct Hnd as (Hnd & Hi & _).
      assert (Hinew : i ∉ cl.*1). { intros Hin. apply (Hi i Hin). left. }
      assert (Hmem1 : ∀ j, j ∈ (cl ++ [(i, chg)]).*1 ↔ j ∈ cl.*1 ∨ j = i).
      { intros j. rewrite fmap_app, elem_of_app. simpl. rewrite elem_of_list_singleton. tauto. }
      assert (Hfresh' : ∀ j, j ∈ cl.*1 → credits s !! (h, bh, bhash, j) = None ∧ unspent s !! (h, j) = None).
      { intros j Hin. apply Hfresh. apply Hmem1. left. exact Hin. }
      specialize (IH Hnd Hfresh').
      rewrite foldl_snoc. set (s1 := foldl (λ s' ic, add_credit t (Some (bh, bhash)) ic.1 ic.2 s') s cl) in *.
      destruct IH as [Hb Ht Hd Hu Hmc Hmi Hl Hus Hco Hcn Hbal].
      destruct (Hfresh i) as (Hci & Hui); [apply Hmem1; right; reflexivity|].
      assert (Hc1 : credits s1 !! (h, bh, bhash, i) = None).
      { rewrite Hco; [exact Hci|]. intros j Hj Heq. inversion Heq; subst j. contradiction. }
      assert (Hu1 : unspent s1 !! (h, i) = None).
      { rewrite Hus. simpl. destruct (decide (h = h ∧ i ∈ cl.*1)) as [[_ Hin]|_]; [contradiction|exact Hui]. }
      assert (Hmem : ∀ j c, (j, c) ∈ cl ++ [(i, chg)] ↔ (j, c) ∈ cl ∨ (j = i ∧ c = chg)).
      { intros j c. rewrite elem_of_app, elem_of_list_singleton. split; intros [Hin|Heq]; auto.
        - right. inversion Heq; auto.
        - right. destruct Heq as [-> ->]. reflexivity. }
      assert (Hin_fst : ∀ j c, (j, c) ∈ cl → j ∈ cl.*1).
      { intros j c Hin. apply elem_of_list_fmap. exists (j, c). split; [reflexivity|exact Hin]. }
      unfold add_credit. simpl. rewrite Hid, Hc1.
      rewrite bool_decide_eq_false_2 by (intros [x Hx]; discriminate).
      constructor; simpl; try assumption.
      + intros op'. destruct (decide (op' = (h, i))) as [->|Hne].
        * rewrite lookup_insert. simpl.
          destruct (decide (h = h ∧ i ∈ (cl ++ [(i, chg)]).*1)) as [_|Hn]; [reflexivity|].
          exfalso. apply Hn. split; [reflexivity|]. apply Hmem1. right. reflexivity.
        * rewrite lookup_insert_ne by congruence. rewrite Hus.
          destruct (decide (op'.1 = h ∧ op'.2 ∈ cl.*1)) as [[H1 Hin]|Hin];
            destruct (decide (op'.1 = h ∧ op'.2 ∈ (cl ++ [(i, chg)]).*1)) as [[H1' Hin']|Hin']; try reflexivity.
          -- exfalso. apply Hin'. split; [exact H1|]. apply Hmem1. left. exact Hin.
          -- exfalso. apply Hmem1 in Hin'. destruct Hin' as [Hin'|Heq]; [apply Hin; split; assumption|].
             apply Hne. destruct op'; simpl in *; congruence.
      + intros ck' Hck'. rewrite lookup_insert_ne.
        * apply Hco. intros j Hj. apply Hck'. apply Hmem1. left. exact Hj.
        * intros Heq. apply (Hck' i); [apply Hmem1; right; reflexivity|]. symmetry. exact Heq.
      + intros j c Hin. apply Hmem in Hin. destruct Hin as [Hin|[-> ->]].
        * rewrite lookup_insert_ne; [apply Hcn; exact Hin|].
          intros Heq. inversion Heq; subst j. apply Hinew. eapply Hin_fst. exact Hin.
        * apply lookup_insert.
      + rewrite (usum_insert _ _ _ Hu1).
        assert (Hamt : amount_of U (h, i) = out_amount t i) by (unfold amount_of; simpl; rewrite HUt; reflexivity).
        lia.
  Qed.

  (** ... and for one whose credits are all recorded already *)
  Lemma add_credit_present t s i chg :
    is_Some (credits s !! (t_id t, bh, bhash, i)) → add_credit t (Some (bh, bhash)) i chg s = s.
  Proof. intros Hs. unfold add_credit. rewrite bool_decide_eq_true_2 by exact Hs. reflexivity. Qed.

  Lemma add_credits_present t s (cl : list (N * bool)) :
    t_id t = h →
    (∀ i, i ∈ cl.*1 → is_Some (credits s !! (h, bh, bhash, i))) →
    add_credits t (bh, bhash) s cl = s.
  Proof.
    intros Hid. rewrite <- Hid. unfold add_credits.
    induction cl as [|[i chg] cl IH]; intros Hall; cbn [foldl]; [reflexivity|].
    rewrite add_credit_present by (apply Hall; left).
    apply IH. intros j Hj. apply Hall. right. exact Hj.
  Qed.
End phase3.

Lemma NoDup_fst_filter {A B} (P : A * B → Prop) `{∀ x, Decision (P x)} (l : list (A * B)) :
  NoDup l.*1 → NoDup (filter P l).*1.
Proof.
  induction l as [|x l IH]; intros Hnd; [constructor|].
  simpl in Hnd. apply NoDup_cons in Hnd. destruct Hnd as [Hx Hnd].
  rewrite filter_cons. destruct (decide (P x)); [|apply IH; exact Hnd].
  simpl. apply NoDup_cons. split; [|apply IH; exact Hnd].
  intros Hin. apply Hx. apply elem_of_list_fmap in Hin. destruct Hin as (y & Hy & Hin).
  apply elem_of_list_filter in Hin. destruct Hin as [_ Hin].
  apply elem_of_list_fmap. exists y. split; assumption.
Qed.

Lemma add_credit_set_locked t b i chg f s :
  add_credit t (Some b) i chg (set_locked f s) = set_locked f (add_credit t (Some b) i chg s).
Proof.
  unfold add_credit. destruct b as [bh bhash]. simpl.
  destruct (bool_decide (is_Some (credits s !! (t_id t, bh, bhash, i)))); reflexivity.
Qed.

Lemma add_credits_unlock_all t b cl ops : ∀ s,
  add_credits t b (unlock_all s ops) cl = unlock_all (add_credits t b s cl) ops.
Proof.
  unfold unlock_all. induction ops as [|op ops IH] using rev_ind; intros s; [reflexivity|].
  rewrite !foldl_snoc. unfold unlock_raw at 1 3. rewrite <- IH.
  unfold add_credits. generalize (foldl (λ s' op0, unlock_raw op0 s') s ops). clear.
  induction cl as [|ic cl IH]; intros s; cbn [foldl]; [reflexivity|].
  rewrite add_credit_set_locked. apply IH.
Qed.

(** * G. The mined buckets after [update_mined_balance] + [add_credit]s *)

Section mined.
  Context (U : universe) (t : tx) (tid : txid) (bh : Z) (bhash : N).
  Hypothesis HUt : U !! tid = Some t.
  Hypothesis Hid : t_id t = tid.
  Hypothesis Hnd_ins : NoDup (t_ins t).
  Hypothesis Hins_ne : ∀ op, op ∈ t_ins t → op.1 ≠ tid.
  Hypothesis Hnd_creds : NoDup (t_creds t).*1.

  Lemma amount_of_own i : amount_of U (tid, i) = out_amount t i.
  Proof. unfold amount_of. simpl. rewrite HUt. reflexivity. Qed.

  Definition mc_moved (s : store) : Prop :=
    ∀ op a chg, op.1 = tid → (unmined_credits s !! op = Some (a, chg) ↔ (op.2, chg) ∈ t_creds t ∧ a = amount_of U op).
  Definition mc_none (s : store) : Prop :=
    ∀ op, op.1 = tid → unmined_credits s !! op = None.

  Lemma mined_post s :
    (∀ op h' bh', op ∈ t_ins t → unspent s !! op = Some (h', bh') →
       ∃ cv, credits s !! (op.1, h', bh', op.2) = Some cv ∧ c_amt cv = amount_of U op) →
    (∀ h' bh' i, credits s !! (tid, h', bh', i) = None) →
    (∀ i, unspent s !! (tid, i) = None) →
    mc_moved s ∨ mc_none s →
    ∃ s5 nb1,
      PostIn U tid bh bhash s (bal s) (zip (indices (t_ins t)) (t_ins t)) (s5, nb1) ∧
      PostAc U tid bh bhash t (set_bal (fun _ => nb1) s5) (t_creds t)
             (add_credits t (bh, bhash) (update_mined_balance t (bh, bhash) s) (t_creds t)).
  Proof.
    intros H1 H2 H3 H5.
    rewrite umb_eq, Hid.
    pose proof (umb_in_fold U tid bh bhash s (bal s) (zip (indices (t_ins t)) (t_ins t))) as HPI.
    destruct (foldl (umb_in tid bh bhash) (s, bal s) (zip (indices (t_ins t)) (t_ins t))) as [s5 nb1] eqn:Hf1.
    assert (HPI' : PostIn U tid bh bhash s (bal s) (zip (indices (t_ins t)) (t_ins t)) (s5, nb1)).
    { apply HPI.
      - apply zip_indices_fst_NoDup.
      - rewrite zip_indices_snd. exact Hnd_ins.
      - intros i op h' bh' Hin. apply H1.
        apply elem_of_zip_indices in Hin. eapply elem_of_list_lookup_2. exact Hin. }
    clear HPI. exists s5, nb1. split; [exact HPI'|].
    destruct HPI' as [Hb Ht Hu Hmc Hmi Hl Hus Hco Hcs Hdo Hdn Hbal]. simpl in *.
    set (mcs := filter (λ kv : N * N * (Z * bool), kv.1.1 = tid) (map_to_list (unmined_credits s5))).
    assert (Hmcs_in : ∀ op a c, (op, (a, c)) ∈ mcs ↔ op.1 = tid ∧ unmined_credits s !! op = Some (a, c)).
    { intros op a c. unfold mcs. rewrite elem_of_list_filter, elem_of_map_to_list, Hmc. simpl. tauto. }
    assert (Hus5_own : ∀ op, op.1 = tid → unspent s5 !! op = None).
    { intros [a i] Ha. simpl in Ha. subst a. rewrite Hus. destruct (decide _); [reflexivity|apply H3]. }
    assert (Hc5_own : ∀ i, credits s5 !! (tid, bh, bhash, i) = None).
    { intros i. rewrite Hco; [apply H2|]. intros i0 op h' bh' Hin _ Heq. inversion Heq as [[Heq1 Heq2 Heq3 Heq4]].
      apply elem_of_zip_indices in Hin. apply elem_of_list_lookup_2 in Hin. apply (Hins_ne op Hin). congruence. }
    destruct H5 as [HA|HB].
    - (* the transaction was unmined: its credits move, add_credit finds them *)
      pose proof (umb_mc_fold U tid bh bhash s5 nb1 mcs) as HPM.
      destruct (foldl (umb_mc tid bh bhash) (s5, nb1) mcs) as [s6 nb2] eqn:Hf2.
      assert (HPM' : PostMc U tid bh bhash s5 nb1 mcs (s6, nb2)).
      { apply HPM.
        - apply NoDup_fst_filter. apply NoDup_fst_map_to_list.
        - intros op a c Hin. apply Hmcs_in in Hin. destruct Hin as [Hop Hin].
          split; [exact Hop|]. split; [apply Hus5_own; exact Hop|].
          apply (HA op a c Hop) in Hin. tauto. }
      clear HPM. destruct HPM' as [Hb6 Ht6 Hd6 Hu6 Hmc6 Hmi6 Hl6 Hus6 Hco6 Hcn6 Hbal6]. simpl in *.
      assert (Hdom : ∀ op', op' ∈ mcs.*1 ↔ op'.1 = tid ∧ op'.2 ∈ (t_creds t).*1).
      { intros op'. rewrite elem_of_list_fmap. split.
        - intros ([op [a c]] & -> & Hin). simpl. apply Hmcs_in in Hin. destruct Hin as [Hop Hin].
          split; [exact Hop|]. apply (HA op a c Hop) in Hin. destruct Hin as [Hin _].
          apply elem_of_list_fmap. exists (op.2, c). split; [reflexivity|exact Hin].
        - intros [Hop Hin]. apply elem_of_list_fmap in Hin. destruct Hin as ([i c] & Hi & Hin). simpl in Hi.
          exists (op', (amount_of U op', c)). split; [reflexivity|]. apply Hmcs_in. split; [exact Hop|].
          apply (HA op' _ c Hop). split; [rewrite Hi; exact Hin|reflexivity]. }
      rewrite add_credits_present with (h := tid).
      + constructor; simpl; try assumption.
        * intros op'. rewrite Hus6.
          destruct (decide (op' ∈ mcs.*1)) as [Hin|Hin];
            destruct (decide (op'.1 = tid ∧ op'.2 ∈ (t_creds t).*1)) as [Hin'|Hin']; try reflexivity.
          -- exfalso. apply Hin'. apply Hdom. exact Hin.
          -- exfalso. apply Hin. apply Hdom. exact Hin'.
        * intros ck' Hck'. apply Hco6. intros op [a c] Hin. apply Hck'.
          assert (Hin1 : op ∈ mcs.*1) by (apply elem_of_list_fmap; exists (op, (a, c)); split; [reflexivity|exact Hin]).
          apply Hdom in Hin1. tauto.
        * intros i chg Hin. rewrite <- amount_of_own.
          apply (Hcn6 (tid, i) (amount_of U (tid, i)) chg). apply Hmcs_in. split; [reflexivity|].
          apply (HA (tid, i) _ chg eq_refl). split; [exact Hin|reflexivity].
      + exact Hid.
      + intros i Hin. simpl. apply elem_of_list_fmap in Hin. destruct Hin as ([i0 c] & Hi & Hin). simpl in Hi. subst i0.
        assert (Hx : credits s6 !! (tid, bh, bhash, i) =
                     Some {| c_amt := amount_of U (tid, i); c_spent := false; c_change := c; c_by := None |});
          [|rewrite Hx; eexists; reflexivity].
        apply (Hcn6 (tid, i) (amount_of U (tid, i)) c).
        apply Hmcs_in. split; [reflexivity|]. apply (HA (tid, i) _ c eq_refl). split; [exact Hin|reflexivity].
    - (* the transaction was unknown: nothing to move, add_credit records every credit *)
      assert (Hnil : mcs = []).
      { destruct mcs as [|[op [a c]] mcs'] eqn:Hm; [reflexivity|]. exfalso.
        assert (Hin : (op, (a, c)) ∈ (op, (a, c)) :: mcs') by left.
        apply Hmcs_in in Hin. destruct Hin as [Hop Hin]. rewrite (HB op Hop) in Hin. discriminate. }
      rewrite Hnil. cbn [foldl].
      apply add_credits_fresh; try assumption.
      intros i _. simpl. split; [apply Hc5_own|apply (Hus5_own (tid, i)); reflexivity].
  Qed.

  (** ** phases (1), (2): block record and transaction record *)
  Definition blk_upd (btime : Z) (s : store) : store :=
    match blocks s !! bh with
    | None => set_blocks (<[bh := {| b_hash := bhash; b_time := btime; b_txs := [tid] |}]>) s
    | Some br => set_blocks (<[bh := {| b_hash := b_hash br; b_time := b_time br; b_txs := b_txs br ++ [tid] |}]>) s
    end.

  Definition mined_part (btime : Z) (s : store) : store :=
    add_credits t (bh, bhash)
      (update_mined_balance t (bh, bhash) (set_txrecs (<[(tid, bh, bhash) := tt]>) (blk_upd btime s)))
      (t_creds t).

  Lemma conf_sp_insert cm op m :
    cm !! tid = None →
    conf_sp U (<[tid := (bh, bhash)]> cm) op m ↔ conf_sp U cm op m ∨ (m = tid ∧ op ∈ t_ins t).
  Proof.
    intros Hnone. unfold conf_sp. destruct (decide (m = tid)) as [->|Hne].
    - rewrite lookup_insert. unfold tx_ins. rewrite HUt, Hnone. split.
      + intros [_ Hin]. right. split; [reflexivity|exact Hin].
      + intros [[[x Hx] _]|[_ Hin]]; [discriminate|]. split; [eexists; reflexivity|exact Hin].
    - rewrite lookup_insert_ne by congruence. split; [intros Hc; left; exact Hc|].
      intros [Hc|[Heq _]]; [exact Hc|contradiction].
  Qed.

  Record MSumm (s sM : store) : Prop := {
    ms_unspent : ∀ op', unspent sM !! op' =
        if decide (op'.1 = tid ∧ op'.2 ∈ (t_creds t).*1) then Some (bh, bhash)
        else if decide (op' ∈ t_ins t) then None else unspent s !! op';
    ms_credits_other : ∀ ck',
        (∀ i, i ∈ (t_creds t).*1 → ck' ≠ (tid, bh, bhash, i)) →
        (∀ op h' bh', op ∈ t_ins t → unspent s !! op = Some (h', bh') → ck' ≠ (op.1, h', bh', op.2)) →
        credits sM !! ck' = credits s !! ck';
    ms_credits_spent : ∀ op h' bh' cv,
        op ∈ t_ins t → unspent s !! op = Some (h', bh') → credits s !! (op.1, h', bh', op.2) = Some cv →
        ∃ by_, credits sM !! (op.1, h', bh', op.2) =
               Some {| c_amt := c_amt cv; c_spent := true; c_change := c_change cv; c_by := by_ |};
    ms_credits_new : ∀ i chg, (i, chg) ∈ t_creds t →
        credits sM !! (tid, bh, bhash, i) =
        Some {| c_amt := out_amount t i; c_spent := false; c_change := chg; c_by := None |};
    ms_debits_other : ∀ dk,
        (∀ i op, t_ins t !! N.to_nat i = Some op → is_Some (unspent s !! op) → dk ≠ (tid, bh, bhash, i)) →
        debits sM !! dk = debits s !! dk;
    ms_debits_new : ∀ i op h' bh', t_ins t !! N.to_nat i = Some op → unspent s !! op = Some (h', bh') →
        debits sM !! (tid, bh, bhash, i) = Some (amount_of U op, (op.1, h', bh', op.2));
    ms_bal : bal sM = usum U (unspent sM);
    ms_blocks : ∀ btime', blocks sM = blocks (blk_upd btime' s) → True;
  }.

  Lemma mined_summary btime s :
    (∀ op h' bh', op ∈ t_ins t → unspent s !! op = Some (h', bh') →
       ∃ cv, credits s !! (op.1, h', bh', op.2) = Some cv ∧ c_amt cv = amount_of U op) →
    (∀ h' bh' i, credits s !! (tid, h', bh', i) = None) →
    (∀ i, unspent s !! (tid, i) = None) →
    mc_moved s ∨ mc_none s →
    bal s = usum U (unspent s) →
    MSumm s (mined_part btime s) ∧
    blocks (mined_part btime s) = blocks (blk_upd btime s) ∧
    txrecs (mined_part btime s) = <[(tid, bh, bhash) := tt]> (txrecs s) ∧
    unmined (mined_part btime s) = unmined s ∧
    unmined_credits (mined_part btime s) = unmined_credits s ∧
    unmined_inputs (mined_part btime s) = unmined_inputs s ∧
    locked (mined_part btime s) = locked s.
  Proof.
    intros H1 H2 H3 H5 Hbal0. unfold mined_part.
    set (s2 := set_txrecs <[(tid, bh, bhash):=()]> (blk_upd btime s)).
    assert (Hc2 : credits s2 = credits s) by (unfold s2, blk_upd; destruct (blocks s !! bh); reflexivity).
    assert (Hu2 : unspent s2 = unspent s) by (unfold s2, blk_upd; destruct (blocks s !! bh); reflexivity).
    assert (Hd2 : debits s2 = debits s) by (unfold s2, blk_upd; destruct (blocks s !! bh); reflexivity).
    assert (Hb2 : bal s2 = bal s) by (unfold s2, blk_upd; destruct (blocks s !! bh); reflexivity).
    assert (Hmc2 : unmined_credits s2 = unmined_credits s) by (unfold s2, blk_upd; destruct (blocks s !! bh); reflexivity).
    assert (Hum2 : unmined s2 = unmined s) by (unfold s2, blk_upd; destruct (blocks s !! bh); reflexivity).
    assert (Hmi2 : unmined_inputs s2 = unmined_inputs s) by (unfold s2, blk_upd; destruct (blocks s !! bh); reflexivity).
    assert (Hl2 : locked s2 = locked s) by (unfold s2, blk_upd; destruct (blocks s !! bh); reflexivity).
    assert (Hbl2 : blocks s2 = blocks (blk_upd btime s)) by reflexivity.
    assert (Htx2 : txrecs s2 = <[(tid, bh, bhash) := tt]> (txrecs s))
      by (unfold s2, blk_upd; destruct (blocks s !! bh); reflexivity).
    destruct (mined_post s2) as (s5 & nb1 & HPI & HPA).
    { rewrite Hc2, Hu2. exact H1. }
    { rewrite Hc2. exact H2. }
    { rewrite Hu2. exact H3. }
    { unfold mc_moved, mc_none. rewrite Hmc2. exact H5. }
    set (sM := add_credits t (bh, bhash) (update_mined_balance t (bh, bhash) s2) (t_creds t)) in *.
    destruct HPI as [Hb Ht Hu Hmc Hmi Hl Hus Hco Hcs Hdo Hdn Hbal].
    destruct HPA as [Hba Hta Hda Hua Hmca Hmia Hla Husa Hcoa Hcna Hbala]. simpl in *.
    rewrite zip_indices_snd in Hus. rewrite Hu2 in *. rewrite Hc2 in *. rewrite Hd2 in *.
    assert (Hzip : ∀ op, op ∈ t_ins t → ∃ i, (i, op) ∈ zip (indices (t_ins t)) (t_ins t)).
    { intros op Hin. apply elem_of_list_lookup in Hin. destruct Hin as [n Hn]. exists (N.of_nat n).
      apply elem_of_zip_indices. rewrite Nat2N.id. exact Hn. }
    assert (Hzip' : ∀ i op, (i, op) ∈ zip (indices (t_ins t)) (t_ins t) → op ∈ t_ins t).
    { intros i op Hin. apply elem_of_zip_indices in Hin. eapply elem_of_list_lookup_2. exact Hin. }
    split; [|repeat split; congruence].
    constructor.
    - intros op'. rewrite Husa, Hus. reflexivity.
    - intros ck' Hnew Hsp. rewrite Hcoa by exact Hnew. apply Hco.
      intros i op h' bh' Hin. apply Hsp. eapply Hzip'. exact Hin.
    - intros op h' bh' cv Hin Hu0 Hcv. destruct (Hzip op Hin) as [i Hi].
      destruct (Hcs i op h' bh' cv Hi Hu0 Hcv) as [by_ Hby]. exists by_.
      rewrite Hcoa; [exact Hby|]. intros j _ Heq. inversion Heq as [[Heq1 Heq2 Heq3 Heq4]].
      apply (Hins_ne op Hin). exact Heq1.
    - exact Hcna.
    - intros dk Hdk. rewrite Hda. apply Hdo. intros i op Hin. apply Hdk. apply elem_of_zip_indices. exact Hin.
    - intros i op h' bh' Hin Hu0. rewrite Hda. eapply Hdn; [|exact Hu0]. apply elem_of_zip_indices. exact Hin.
    - rewrite Hb2 in Hbal. lia.
    - intros; exact I.
  Qed.

  Lemma credited_own i chg : is_credited U (tid, i) chg ↔ (i, chg) ∈ t_creds t.
  Proof. unfold is_credited, creds_of. simpl. rewrite HUt. reflexivity. Qed.

  Lemma in_creds_fst i : i ∈ (t_creds t).*1 ↔ ∃ chg, (i, chg) ∈ t_creds t.
  Proof.
    rewrite elem_of_list_fmap. split.
    - intros ([j c] & Hj & Hin). simpl in Hj. subst j. exists c. exact Hin.
    - intros [c Hin]. exists (i, c). split; [reflexivity|exact Hin].
  Qed.

  Lemma tx_ins_own : tx_ins U tid = t_ins t.
  Proof. unfold tx_ins. rewrite HUt. reflexivity. Qed.

  Section assemble_mined.
    Context (btime : Z) (s : store) (cm : gmap N (Z * N)).
    Hypothesis HM : InvM U s cm.
    Hypothesis Hnone : cm !! tid = None.
    Hypothesis Hmc : mc_moved s ∨ mc_none s.
    Hypothesis E2 : ∀ t' h' b', cm !! t' = Some (h', b') → h' = bh → b' = bhash.
    Hypothesis E3 : ∀ c op, is_Some (cm !! c) → op ∈ t_ins t → op ∉ tx_ins U c.
    Hypothesis E4 : ∀ c op, is_Some (cm !! c) → op ∈ tx_ins U c → op.1 ≠ tid.

    Let cm' := <[tid := (bh, bhash)]> cm.

    Lemma cm'_other x : x ≠ tid → cm' !! x = cm !! x.
    Proof. intros Hne. unfold cm'. apply lookup_insert_ne. congruence. Qed.

    Lemma cm'_own : cm' !! tid = Some (bh, bhash).
    Proof. unfold cm'. apply lookup_insert. Qed.

    Lemma cm_Some_ne x v : cm !! x = Some v → x ≠ tid.
    Proof. intros Hx ->. rewrite Hnone in Hx. discriminate. Qed.

    Lemma no_spender_own i m : ¬ conf_sp U cm' (tid, i) m.
    Proof.
      intros Hc. apply conf_sp_insert in Hc; [|exact Hnone]. destruct Hc as [[Hm Hin]|[_ Hin]].
      - apply (E4 m (tid, i) Hm Hin). reflexivity.
      - apply (Hins_ne (tid, i) Hin). reflexivity.
    Qed.

    Lemma no_old_spender_of_input op m : op ∈ t_ins t → ¬ conf_sp U cm op m.
    Proof. intros Hin [Hm Hop]. exact (E3 m op Hm Hin Hop). Qed.

    Lemma pre_H1 : ∀ op h' bh', op ∈ t_ins t → unspent s !! op = Some (h', bh') →
       ∃ cv, credits s !! (op.1, h', bh', op.2) = Some cv ∧ c_amt cv = amount_of U op.
    Proof.
      intros [a i] h' bh' _ Hu. simpl.
      apply (im_unspent U s cm HM) in Hu. simpl in Hu. destruct Hu as (Hcm & [chg Hcr] & _).
      destruct (im_credits_complete U s cm HM a h' bh' i chg Hcm Hcr) as [cv Hcv].
      exists cv. split; [exact Hcv|].
      destruct (im_credits_sound U s cm HM a h' bh' i cv Hcv) as (_ & _ & Hamt & _). exact Hamt.
    Qed.

    Lemma pre_H2 : ∀ h' bh' i, credits s !! (tid, h', bh', i) = None.
    Proof.
      intros h' bh' i. destruct (credits s !! (tid, h', bh', i)) as [cv|] eqn:Hcv; [|reflexivity].
      destruct (im_credits_sound U s cm HM tid h' bh' i cv Hcv) as (Hcm & _). rewrite Hnone in Hcm. discriminate.
    Qed.

    Lemma pre_H3 : ∀ i, unspent s !! (tid, i) = None.
    Proof.
      intros i. destruct (unspent s !! (tid, i)) as [[h' bh']|] eqn:Hu; [|reflexivity].
      apply (im_unspent U s cm HM) in Hu. simpl in Hu. destruct Hu as (Hcm & _). rewrite Hnone in Hcm. discriminate.
    Qed.

    Lemma pre_debits : ∀ h' bh' j, debits s !! (tid, h', bh', j) = None.
    Proof.
      intros h' bh' j. destruct (debits s !! (tid, h', bh', j)) as [[a ck]|] eqn:Hd; [|reflexivity].
      destruct (im_debits_sound U s cm HM tid h' bh' j a ck Hd) as (Hcm & _). rewrite Hnone in Hcm. discriminate.
    Qed.

    Lemma mined_InvM : InvM U (mined_part btime s) cm'.
    Proof.
      destruct (mined_summary btime s pre_H1 pre_H2 pre_H3 Hmc (im_bal U s cm HM))
        as (HS & Hbl & Htx & _).
      set (sM := mined_part btime s) in *.
      destruct HS as [Sus Sco Scs Scn Sdo Sdn Sbal _].
      constructor.
      - (* blocks sound *)
        intros h br. rewrite Hbl. unfold blk_upd.
        destruct (blocks s !! bh) as [br0|] eqn:Hbr0; simpl.
        + destruct (im_blocks_sound U s cm HM bh br0 Hbr0) as (Hne0 & Hnd0 & Hall0).
          destruct (decide (h = bh)) as [->|Hne].
          * rewrite lookup_insert. intros Heq. inversion Heq; subst br. simpl. split; [|split].
            -- destruct (b_txs br0); discriminate.
            -- apply NoDup_app. split; [exact Hnd0|]. split; [|apply NoDup_singleton].
               intros x Hx Hx'. apply elem_of_list_singleton in Hx'. subst x.
               rewrite (Hall0 tid Hx) in Hnone. discriminate.
            -- intros x Hx. apply elem_of_app in Hx. destruct Hx as [Hx|Hx].
               ++ rewrite cm'_other; [apply Hall0; exact Hx|]. eapply cm_Some_ne. apply Hall0. exact Hx.
               ++ apply elem_of_list_singleton in Hx. subst x. rewrite cm'_own.
                  destruct (b_txs br0) as [|x0 l0] eqn:Hl0; [contradiction|].
                  assert (Hx0 : cm !! x0 = Some (bh, b_hash br0)) by (apply Hall0; left).
                  rewrite (E2 x0 bh (b_hash br0) Hx0 eq_refl). reflexivity.
          * rewrite lookup_insert_ne by congruence. intros Hbr.
            destruct (im_blocks_sound U s cm HM h br Hbr) as (Hne1 & Hnd1 & Hall1).
            split; [exact Hne1|]. split; [exact Hnd1|]. intros x Hx.
            rewrite cm'_other; [apply Hall1; exact Hx|]. eapply cm_Some_ne. apply Hall1. exact Hx.
        + destruct (decide (h = bh)) as [->|Hne].
          * rewrite lookup_insert. intros Heq. inversion Heq; subst br. simpl. split; [discriminate|].
            split; [apply NoDup_singleton|]. intros x Hx. apply elem_of_list_singleton in Hx. subst x. apply cm'_own.
          * rewrite lookup_insert_ne by congruence. intros Hbr.
            destruct (im_blocks_sound U s cm HM h br Hbr) as (Hne1 & Hnd1 & Hall1).
            split; [exact Hne1|]. split; [exact Hnd1|]. intros x Hx.
            rewrite cm'_other; [apply Hall1; exact Hx|]. eapply cm_Some_ne. apply Hall1. exact Hx.
      - (* blocks complete *)
        intros x h bh' Hx. rewrite Hbl. unfold blk_upd.
        destruct (decide (x = tid)) as [->|Hne].
        + rewrite cm'_own in Hx. inversion Hx; subst h bh'.
          destruct (blocks s !! bh) as [br0|] eqn:Hbr0; simpl; rewrite lookup_insert; eexists; (split; [reflexivity|]); simpl.
          * split; [|apply elem_of_app; right; left].
            destruct (im_blocks_sound U s cm HM bh br0 Hbr0) as (Hne0 & _ & Hall0).
            destruct (b_txs br0) as [|x0 l0] eqn:Hl0; [contradiction|].
            assert (Hx0 : cm !! x0 = Some (bh, b_hash br0)) by (apply Hall0; left).
            apply (E2 x0 bh (b_hash br0) Hx0 eq_refl).
          * split; [reflexivity|left].
        + rewrite cm'_other in Hx by exact Hne.
          destruct (im_blocks_complete U s cm HM x h bh' Hx) as (br & Hbr & Hbh & Hin).
          destruct (decide (h = bh)) as [->|Hneh].
          * rewrite Hbr. simpl. rewrite lookup_insert. eexists. split; [reflexivity|]. simpl.
            split; [exact Hbh|]. apply elem_of_app. left. exact Hin.
          * destruct (blocks s !! bh); simpl; rewrite lookup_insert_ne by congruence;
              exists br; (split; [exact Hbr|split; [exact Hbh|exact Hin]]).
      - (* txrecs *)
        intros x h bh'. rewrite Htx.
        destruct (decide ((x, h, bh') = (tid, bh, bhash))) as [Heq|Hne].
        + inversion Heq; subst. rewrite lookup_insert, cm'_own. split; [reflexivity|]. intros _. eexists; reflexivity.
        + rewrite lookup_insert_ne by congruence. rewrite (im_txrecs U s cm HM x h bh').
          destruct (decide (x = tid)) as [->|Hnex].
          * rewrite Hnone, cm'_own. split; [discriminate|]. intros Heq. inversion Heq; subst. contradiction.
          * rewrite cm'_other by exact Hnex. reflexivity.
      - (* credits sound *)
        intros x h' bh' i cv Hcv.
        destruct (decide (x = tid)) as [->|Hnex].
        + destruct (decide ((h', bh') = (bh, bhash) ∧ i ∈ (t_creds t).*1)) as [[Heq Hi]|Hnot].
          * inversion Heq; subst h' bh'. apply in_creds_fst in Hi. destruct Hi as [chg Hi].
            rewrite (Scn i chg Hi) in Hcv. inversion Hcv; subst cv. simpl.
            split; [apply cm'_own|]. split; [apply credited_own; exact Hi|]. split; [symmetry; apply amount_of_own|].
            split; [discriminate|]. intros [m Hm]. exfalso. exact (no_spender_own i m Hm).
          * exfalso. rewrite Sco in Hcv.
            -- rewrite pre_H2 in Hcv. discriminate.
            -- intros j Hj Heq. inversion Heq; subst. apply Hnot. split; [reflexivity|exact Hj].
            -- intros op h0 bh0 Hin _ Heq. inversion Heq as [[Heq1 Heq2 Heq3 Heq4]].
               apply (Hins_ne op Hin). symmetry. exact Heq1.
        + destruct (decide ((x, i) ∈ t_ins t ∧ unspent s !! (x, i) = Some (h', bh'))) as [[Hin Hu]|Hnot].
          * (* spent by the confirmed transaction *)
            pose proof Hu as Hu'. apply (im_unspent U s cm HM) in Hu'. simpl in Hu'. destruct Hu' as (Hcm & [chg Hcr] & _).
            destruct (im_credits_complete U s cm HM x h' bh' i chg Hcm Hcr) as [cv0 Hcv0].
            destruct (Scs (x, i) h' bh' cv0 Hin Hu Hcv0) as [by_ Hby]. simpl in Hby.
            rewrite Hby in Hcv. inversion Hcv; subst cv. simpl.
            destruct (im_credits_sound U s cm HM x h' bh' i cv0 Hcv0) as (_ & Hcr0 & Hamt0 & _).
            split; [rewrite cm'_other by exact Hnex; exact Hcm|]. split; [exact Hcr0|]. split; [exact Hamt0|].
            split; [|reflexivity]. intros _. exists tid. apply conf_sp_insert; [exact Hnone|]. right. split; [reflexivity|exact Hin].
          * rewrite Sco in Hcv.
            -- destruct (im_credits_sound U s cm HM x h' bh' i cv Hcv) as (Hcm & Hcr & Hamt & Hsp).
               split; [rewrite cm'_other by exact Hnex; exact Hcm|]. split; [exact Hcr|]. split; [exact Hamt|].
               split.
               ++ intros Htrue. apply Hsp in Htrue. destruct Htrue as [m Hm]. exists m.
                  apply conf_sp_insert; [exact Hnone|]. left. exact Hm.
               ++ intros [m Hm]. apply conf_sp_insert in Hm; [|exact Hnone]. destruct Hm as [Hm|[_ Hin]].
                  ** apply Hsp. exists m. exact Hm.
                  ** destruct (c_spent cv) eqn:Hspent; [reflexivity|]. exfalso. apply Hnot. split; [exact Hin|].
                     apply (im_unspent U s cm HM). simpl. split; [exact Hcm|]. split; [eexists; exact Hcr|].
                     intros Hex. apply Hsp in Hex. discriminate.
            -- intros j _ Heq. inversion Heq; subst. contradiction.
            -- intros op h0 bh0 Hin Hu0 Heq. inversion Heq as [[Heq1 Heq2 Heq3 Heq4]]. apply Hnot.
               destruct op as [a k]. simpl in *. subst. split; assumption.
      - (* credits complete *)
        intros x h bh' i chg Hx Hcr.
        destruct (decide (x = tid)) as [->|Hnex].
        + rewrite cm'_own in Hx. inversion Hx; subst h bh'. apply credited_own in Hcr.
          rewrite (Scn i chg Hcr). eexists; reflexivity.
        + rewrite cm'_other in Hx by exact Hnex.
          destruct (im_credits_complete U s cm HM x h bh' i chg Hx Hcr) as [cv0 Hcv0].
          destruct (decide ((x, i) ∈ t_ins t ∧ unspent s !! (x, i) = Some (h, bh'))) as [[Hin Hu]|Hnot].
          * destruct (Scs (x, i) h bh' cv0 Hin Hu Hcv0) as [by_ Hby]. simpl in Hby. rewrite Hby. eexists; reflexivity.
          * rewrite Sco; [rewrite Hcv0; eexists; reflexivity| |].
            -- intros j _ Heq. inversion Heq; subst. contradiction.
            -- intros op h0 bh0 Hin Hu0 Heq. inversion Heq as [[Heq1 Heq2 Heq3 Heq4]]. apply Hnot.
               destruct op as [a k]. simpl in *. subst. split; assumption.
      - (* unspent *)
        intros op h' bh'. rewrite Sus.
        destruct (decide (op.1 = tid ∧ op.2 ∈ (t_creds t).*1)) as [[Hop1 Hop2]|Hnot].
        + destruct op as [a i]. simpl in *. subst a. rewrite cm'_own. split.
          * intros Heq. split; [exact Heq|]. split.
            -- apply in_creds_fst in Hop2. destruct Hop2 as [chg Hc]. exists chg. apply credited_own. exact Hc.
            -- intros [m Hm]. exact (no_spender_own i m Hm).
          * intros (Heq & _). exact Heq.
        + destruct (decide (op ∈ t_ins t)) as [Hin|Hin].
          * split; [discriminate|]. intros (_ & _ & Hno). exfalso. apply Hno. exists tid.
            apply conf_sp_insert; [exact Hnone|]. right. split; [reflexivity|exact Hin].
          * rewrite (im_unspent U s cm HM op h' bh').
            destruct (decide (op.1 = tid)) as [Hop1|Hop1].
            -- split.
               ++ intros (Hcm & _). rewrite Hop1, Hnone in Hcm. discriminate.
               ++ intros (_ & [chg Hcr] & _). exfalso. apply Hnot. split; [exact Hop1|].
                  destruct op as [a i]. simpl in *. subst a. apply in_creds_fst. exists chg. apply credited_own. exact Hcr.
            -- rewrite cm'_other by exact Hop1.
               assert (Hsp : (∃ m, conf_sp U cm' op m) ↔ (∃ m, conf_sp U cm op m)).
               { split; intros [m Hm]; exists m.
                 - apply conf_sp_insert in Hm; [|exact Hnone]. destruct Hm as [Hm|[_ Hin']]; [exact Hm|contradiction].
                 - apply conf_sp_insert; [exact Hnone|]. left. exact Hm. }
               rewrite Hsp. reflexivity.
      - (* debits sound *)
        intros m h' bh' j a ck Hd.
        destruct (decide (m = tid)) as [->|Hnem].
        + destruct (decide ((h', bh') = (bh, bhash))) as [Heq|Hneq].
          * inversion Heq; subst h' bh'.
            destruct (t_ins t !! N.to_nat j) as [op|] eqn:Hj.
            -- destruct (unspent s !! op) as [[ph pbh]|] eqn:Hu.
               ++ rewrite (Sdn j op ph pbh Hj Hu) in Hd. inversion Hd; subst a ck.
                  split; [apply cm'_own|]. exists op, ph, pbh.
                  assert (Hin : op ∈ t_ins t) by (eapply elem_of_list_lookup_2; exact Hj).
                  apply (im_unspent U s cm HM) in Hu. destruct Hu as (Hcm & Hcr & _).
                  split; [unfold input_at; rewrite tx_ins_own; exact Hj|]. split; [exact Hcr|].
                  split; [rewrite cm'_other by (apply Hins_ne; exact Hin); exact Hcm|]. split; reflexivity.
               ++ exfalso. rewrite Sdo in Hd; [rewrite pre_debits in Hd; discriminate|].
                  intros i op0 Hi [v Hv] Heq'. inversion Heq'; subst i. rewrite Hj in Hi. inversion Hi; subst op0.
                  rewrite Hu in Hv. discriminate.
            -- exfalso. rewrite Sdo in Hd; [rewrite pre_debits in Hd; discriminate|].
               intros i op0 Hi _ Heq'. inversion Heq'; subst i. rewrite Hj in Hi. discriminate.
          * exfalso. rewrite Sdo in Hd; [rewrite pre_debits in Hd; discriminate|].
            intros i op0 _ _ Heq'. inversion Heq'; subst. contradiction.
        + rewrite Sdo in Hd.
          * destruct (im_debits_sound U s cm HM m h' bh' j a ck Hd) as (Hcm & op & ph & pbh & Hia & Hcr & Hcmo & Hck & Ha).
            split; [rewrite cm'_other by exact Hnem; exact Hcm|]. exists op, ph, pbh.
            split; [exact Hia|]. split; [exact Hcr|].
            split; [rewrite cm'_other by (eapply cm_Some_ne; exact Hcmo); exact Hcmo|]. split; assumption.
          * intros i op0 _ _ Heq'. inversion Heq'; subst. contradiction.
      - (* debits complete *)
        intros m h bh' j op ph pbh chg Hm Hia Hcr Hop.
        destruct (decide (m = tid)) as [->|Hnem].
        + rewrite cm'_own in Hm. inversion Hm; subst h bh'.
          unfold input_at in Hia. rewrite tx_ins_own in Hia.
          assert (Hin : op ∈ t_ins t) by (eapply elem_of_list_lookup_2; exact Hia).
          rewrite cm'_other in Hop by (apply Hins_ne; exact Hin).
          assert (Hu : unspent s !! op = Some (ph, pbh)).
          { apply (im_unspent U s cm HM). split; [exact Hop|]. split; [eexists; exact Hcr|].
            intros [m Hm']. exact (no_old_spender_of_input op m Hin Hm'). }
          rewrite (Sdn j op ph pbh Hia Hu). eexists; reflexivity.
        + rewrite cm'_other in Hm by exact Hnem.
          assert (Hin : op ∈ tx_ins U m) by (eapply elem_of_list_lookup_2; exact Hia).
          assert (Hop1 : op.1 ≠ tid) by (apply (E4 m op); [rewrite Hm; eexists; reflexivity|exact Hin]).
          rewrite cm'_other in Hop by exact Hop1.
          rewrite Sdo; [eapply (im_debits_complete U s cm HM); eassumption|].
          intros i op0 _ _ Heq'. inversion Heq'; subst. contradiction.
      - exact Sbal.
    Qed.
  End assemble_mined.
End mined.

(** * H. What [event_ok] gives for a first confirmation *)

Lemma existsb_false_forall {A} (f : A → bool) (l : list A) :
  existsb f l = false → ∀ x, x ∈ l → f x = false.
Proof.
  intros Hex x Hin. destruct (f x) eqn:Hfx; [|reflexivity].
  assert (Ht : existsb f l = true); [|rewrite Ht in Hex; discriminate].
  apply existsb_exists. exists x. split; [apply elem_of_list_In; exact Hin|exact Hfx].
Qed.

Lemma elem_of_conf_list F c : c ∈ conf_list F ↔ is_Some (f_conf F !! c).
Proof.
  unfold conf_list. rewrite elem_of_list_In, in_map_iff. split.
  - intros ([k v] & Hk & Hin). simpl in Hk. subst k. apply elem_of_list_In, elem_of_map_to_list in Hin.
    rewrite Hin. eexists; reflexivity.
  - intros [v Hv]. exists (c, v). split; [reflexivity|]. apply elem_of_list_In, elem_of_map_to_list. exact Hv.
Qed.

Lemma event_ok_confirm_first U F tid h bhash btime t :
  event_ok U F (Confirm tid h bhash btime) = true →
  U !! tid = Some t → f_conf F !! tid = None →
  0 <= h ∧
  (∀ t' h' b', f_conf F !! t' = Some (h', b') → h' = h → b' = bhash) ∧
  (∀ c op, is_Some (f_conf F !! c) → op ∈ t_ins t → op ∉ tx_ins U c) ∧
  (∀ c op, is_Some (f_conf F !! c) → op ∈ tx_ins U c → op.1 ≠ tid) ∧
  (∀ op, op ∈ t_ins t → known F op.1 = true → ∃ ph pbh, f_conf F !! op.1 = Some (ph, pbh) ∧ ph <= h).
Proof.
  intros Hok HUt Hnone. simpl in Hok. rewrite HUt, Hnone in Hok.
  rewrite !andb_true_iff in Hok. destruct Hok as [[H0 Hhh] [[[HA HB] HC] _]].
  apply bool_decide_eq_true in H0.
  assert (Hins : tx_ins U tid = t_ins t) by (unfold tx_ins; rewrite HUt; reflexivity).
  split; [exact H0|]. split; [|split; [|split]].
  - intros t' h' b' Hc Heq. unfold height_hash_ok in Hhh. rewrite forallb_forall in Hhh.
    specialize (Hhh (t', (h', b'))). simpl in Hhh.
    assert (Hin : In (t', (h', b')) (map_to_list (f_conf F))) by (apply elem_of_list_In, elem_of_map_to_list; exact Hc).
    apply Hhh in Hin. apply orb_true_iff in Hin. destruct Hin as [Hn|Hb].
    + apply negb_true_iff, bool_decide_eq_false in Hn. contradiction.
    + apply bool_decide_eq_true in Hb. exact Hb.
  - intros c op Hc Hop Hop'. rewrite forallb_forall in HA.
    assert (Hin : In c (conf_list F)) by (apply elem_of_list_In, elem_of_conf_list; exact Hc).
    apply HA in Hin. apply negb_true_iff in Hin. unfold shares_input in Hin.
    assert (Hne : tid ≠ c). { intros <-. rewrite Hnone in Hc. destruct Hc as [x Hx]. discriminate. }
    rewrite (bool_decide_eq_true_2 _ Hne) in Hin. simpl in Hin. rewrite Hins in Hin.
    pose proof (existsb_false_forall _ _ Hin op Hop) as Hf. unfold spends in Hf.
    apply bool_decide_eq_false in Hf. contradiction.
  - intros c op Hc Hop Heq. rewrite forallb_forall in HB.
    assert (Hin : In c (conf_list F)) by (apply elem_of_list_In, elem_of_conf_list; exact Hc).
    apply HB in Hin. apply negb_true_iff in Hin. unfold spends_output_of in Hin.
    pose proof (existsb_false_forall _ _ Hin op Hop) as Hf. simpl in Hf.
    apply bool_decide_eq_false in Hf. contradiction.
  - intros op Hop Hk. rewrite forallb_forall in HC.
    apply elem_of_list_In in Hop. apply HC in Hop. rewrite Hk in Hop. simpl in Hop.
    destruct (f_conf F !! op.1) as [[ph pbh]|]; [|discriminate].
    apply bool_decide_eq_true in Hop. exists ph, pbh. split; [reflexivity|exact Hop].
Qed.

(** * I. [facts_wf] of the resulting facts *)

Lemma facts_wf_confirm (U : universe) (F : facts) (tid : N) (t : tx) (h : Z) (bhash : N)
    (C' : gset N) (L : gmap (N * N) lockval) :
  U !! tid = Some t →
  (∀ op, op ∈ t_ins t → op.1 ≠ tid) →
  f_conf F !! tid = None →
  facts_wf U (wu F C') → tid ∉ C' → C' ⊆ f_unconf F →
  0 <= h →
  (∀ t' h' b', f_conf F !! t' = Some (h', b') → h' = h → b' = bhash) →
  (∀ c op, is_Some (f_conf F !! c) → op ∈ t_ins t → op ∉ tx_ins U c) →
  (∀ c op, is_Some (f_conf F !! c) → op ∈ tx_ins U c → op.1 ≠ tid) →
  (∀ op, op ∈ t_ins t → known F op.1 = true → ∃ ph pbh, f_conf F !! op.1 = Some (ph, pbh) ∧ ph <= h) →
  (∀ op v, op ∈ t_ins t → v ∈ C' → op ∉ tx_ins U v) →
  facts_wf U {| f_conf := <[tid := (h, bhash)]> (f_conf F); f_unconf := C'; f_leases := L |}.
Proof.
  intros HUt Hins_ne Hnone [W1 W2 W3 W4 W5 W6 W7 W8] HtidC HsubC E1 E2 E3 E4 E5 Hno.
  simpl in *.
  assert (Hins : tx_ins U tid = t_ins t) by (unfold tx_ins; rewrite HUt; reflexivity).
  assert (Hlk : ∀ x, x ≠ tid → <[tid := (h, bhash)]> (f_conf F) !! x = f_conf F !! x).
  { intros x Hne. apply lookup_insert_ne. congruence. }
  assert (Hcs : ∀ op m, conf_spender U {| f_conf := <[tid := (h, bhash)]> (f_conf F); f_unconf := C'; f_leases := L |} op m →
                        (m = tid ∧ op ∈ t_ins t) ∨ (m ≠ tid ∧ conf_spender U (wu F C') op m)).
  { intros op m [Hm Hop]. simpl in Hm. destruct (decide (m = tid)) as [->|Hne].
    - left. split; [reflexivity|]. rewrite <- Hins. exact Hop.
    - right. split; [exact Hne|]. split; [simpl; rewrite <- (Hlk m Hne); exact Hm|exact Hop]. }
  constructor; simpl.
  - intros x [Hx|Hx].
    + destruct (decide (x = tid)) as [->|Hne]; [rewrite HUt; eexists; reflexivity|].
      rewrite Hlk in Hx by exact Hne. apply W1. left. exact Hx.
    + apply W1. right. exact Hx.
  - intros x Hx HxC. destruct (decide (x = tid)) as [->|Hne]; [contradiction|].
    rewrite Hlk in Hx by exact Hne. exact (W2 x Hx HxC).
  - intros op m1 m2 H1 H2. apply Hcs in H1. apply Hcs in H2.
    destruct H1 as [[-> Hop1]|[Hne1 H1]], H2 as [[-> Hop2]|[Hne2 H2]].
    + reflexivity.
    + exfalso. destruct H2 as [Hm2 Hop2]. exact (E3 m2 op Hm2 Hop1 Hop2).
    + exfalso. destruct H1 as [Hm1 Hop1]. exact (E3 m1 op Hm1 Hop2 Hop1).
    + exact (W3 op m1 m2 H1 H2).
  - intros op m u Hm Hu. apply Hcs in Hm. destruct Hm as [[-> Hop]|[Hne Hm]].
    + destruct Hu as [HuC Hopu]. simpl in HuC. exact (Hno op u Hop HuC Hopu).
    + exact (W4 op m u Hm Hu).
  - intros m h0 bh0 op Hm Hop Hk.
    destruct (decide (m = tid)) as [->|Hne].
    + rewrite lookup_insert in Hm. inversion Hm; subst h0 bh0.
      rewrite Hins in Hop. pose proof (Hins_ne op Hop) as Hop1. rewrite Hlk by exact Hop1.
      apply E5; [exact Hop|]. unfold known. apply orb_true_iff. rewrite Hlk in Hk by exact Hop1.
      destruct Hk as [Hk|Hk]; [left|right]; apply bool_decide_eq_true_2; [exact Hk|apply HsubC; exact Hk].
    + rewrite Hlk in Hm by exact Hne.
      assert (Hop1 : op.1 ≠ tid) by (apply (E4 m op); [rewrite Hm; eexists; reflexivity|exact Hop]).
      rewrite Hlk by exact Hop1. rewrite Hlk in Hk by exact Hop1.
      exact (W5 m h0 bh0 op Hm Hop Hk).
  - exact W6.
  - intros t1 t2 h0 b1 b2 H1 H2.
    destruct (decide (t1 = tid)) as [->|Hne1], (decide (t2 = tid)) as [->|Hne2].
    + rewrite H1 in H2. inversion H2. reflexivity.
    + rewrite lookup_insert in H1. inversion H1; subst h0 b1. rewrite Hlk in H2 by exact Hne2.
      symmetry. exact (E2 t2 h b2 H2 eq_refl).
    + rewrite lookup_insert in H2. inversion H2; subst h0 b2. rewrite Hlk in H1 by exact Hne1.
      exact (E2 t1 h b1 H1 eq_refl).
    + rewrite Hlk in H1 by exact Hne1. rewrite Hlk in H2 by exact Hne2. exact (W7 t1 t2 h0 b1 b2 H1 H2).
  - intros x h0 b0 Hx. destruct (decide (x = tid)) as [->|Hne].
    + rewrite lookup_insert in Hx. inversion Hx; subst. exact E1.
    + rewrite Hlk in Hx by exact Hne. exact (W8 x h0 b0 Hx).
Qed.

(** * J. Gluing the phases together *)

Lemma foldl_proj' {A B S} (f : S → A → S) (pr : S → B) (l : list A) :
  (∀ s a, pr (f s a) = pr s) → ∀ s, pr (foldl f s l) = pr s.
Proof.
  intros Hf. induction l as [|a l IH]; intros s; simpl; [reflexivity|]. rewrite IH. apply Hf.
Qed.

Lemma umb_in_unm h bh bhash acc ii :
  unmined (umb_in h bh bhash acc ii).1 = unmined acc.1 ∧
  unmined_credits (umb_in h bh bhash acc ii).1 = unmined_credits acc.1 ∧
  unmined_inputs (umb_in h bh bhash acc ii).1 = unmined_inputs acc.1.
Proof.
  destruct acc as [s nb], ii as [i op]. unfold umb_in.
  destruct (cred_key_of_unspent s op); simpl; auto.
Qed.

Lemma umb_mc_unm h bh bhash acc kv :
  unmined (umb_mc h bh bhash acc kv).1 = unmined acc.1 ∧
  unmined_credits (umb_mc h bh bhash acc kv).1 = unmined_credits acc.1 ∧
  unmined_inputs (umb_mc h bh bhash acc kv).1 = unmined_inputs acc.1.
Proof. destruct acc as [s nb], kv as [op [a c]]. simpl. auto. Qed.

Lemma umb_unm t bh bhash s :
  unmined (update_mined_balance t (bh, bhash) s) = unmined s ∧
  unmined_credits (update_mined_balance t (bh, bhash) s) = unmined_credits s ∧
  unmined_inputs (update_mined_balance t (bh, bhash) s) = unmined_inputs s.
Proof.
  rewrite umb_eq.
  pose proof (foldl_proj' (umb_in (t_id t) bh bhash) (λ acc, unmined acc.1) (zip (indices (t_ins t)) (t_ins t))
                (λ acc ii, proj1 (umb_in_unm _ _ _ acc ii)) (s, bal s)) as H1.
  pose proof (foldl_proj' (umb_in (t_id t) bh bhash) (λ acc, unmined_credits acc.1) (zip (indices (t_ins t)) (t_ins t))
                (λ acc ii, proj1 (proj2 (umb_in_unm _ _ _ acc ii))) (s, bal s)) as H2.
  pose proof (foldl_proj' (umb_in (t_id t) bh bhash) (λ acc, unmined_inputs acc.1) (zip (indices (t_ins t)) (t_ins t))
                (λ acc ii, proj2 (proj2 (umb_in_unm _ _ _ acc ii))) (s, bal s)) as H3.
  destruct (foldl (umb_in (t_id t) bh bhash) (s, bal s) (zip (indices (t_ins t)) (t_ins t))) as [s5 nb1].
  simpl in H1, H2, H3.
  set (mcs := filter (λ kv : N * N * (Z * bool), kv.1.1 = t_id t) (map_to_list (unmined_credits s5))).
  pose proof (foldl_proj' (umb_mc (t_id t) bh bhash) (λ acc, unmined acc.1) mcs
                (λ acc kv, proj1 (umb_mc_unm _ _ _ acc kv)) (s5, nb1)) as H4.
  pose proof (foldl_proj' (umb_mc (t_id t) bh bhash) (λ acc, unmined_credits acc.1) mcs
                (λ acc kv, proj1 (proj2 (umb_mc_unm _ _ _ acc kv))) (s5, nb1)) as H5.
  pose proof (foldl_proj' (umb_mc (t_id t) bh bhash) (λ acc, unmined_inputs acc.1) mcs
                (λ acc kv, proj2 (proj2 (umb_mc_unm _ _ _ acc kv))) (s5, nb1)) as H6.
  destruct (foldl (umb_mc (t_id t) bh bhash) (s5, nb1) mcs) as [s6 nb2].
  simpl in *. rewrite H4, H5, H6, H1, H2, H3. auto.
Qed.

Lemma umb_in_locked h bh bhash acc ii : locked (umb_in h bh bhash acc ii).1 = locked acc.1.
Proof.
  destruct acc as [s nb], ii as [i op]. unfold umb_in.
  destruct (cred_key_of_unspent s op); reflexivity.
Qed.

Lemma umb_mc_locked h bh bhash acc kv : locked (umb_mc h bh bhash acc kv).1 = locked acc.1.
Proof. destruct acc as [s nb], kv as [op [a c]]. reflexivity. Qed.

Lemma umb_locked t bh bhash s : locked (update_mined_balance t (bh, bhash) s) = locked s.
Proof.
  rewrite umb_eq.
  pose proof (foldl_proj' (umb_in (t_id t) bh bhash) (λ acc, locked acc.1) (zip (indices (t_ins t)) (t_ins t))
                (umb_in_locked _ _ _) (s, bal s)) as H1.
  destruct (foldl (umb_in (t_id t) bh bhash) (s, bal s) (zip (indices (t_ins t)) (t_ins t))) as [s5 nb1].
  simpl in H1.
  set (mcs := filter (λ kv : N * N * (Z * bool), kv.1.1 = t_id t) (map_to_list (unmined_credits s5))).
  pose proof (foldl_proj' (umb_mc (t_id t) bh bhash) (λ acc, locked acc.1) mcs
                (umb_mc_locked _ _ _) (s5, nb1)) as H2.
  destruct (foldl (umb_mc (t_id t) bh bhash) (s5, nb1) mcs) as [s6 nb2].
  simpl in *. rewrite H2, H1. reflexivity.
Qed.

Lemma add_credit_locked t b i chg s : locked (add_credit t (Some b) i chg s) = locked s.
Proof.
  unfold add_credit. destruct b as [bh bhash].
  destruct (bool_decide (is_Some (credits s !! (t_id t, bh, bhash, i)))); reflexivity.
Qed.

Lemma mined_part_locked t tid bh bhash btime s : locked (mined_part t tid bh bhash btime s) = locked s.
Proof.
  unfold mined_part, add_credits.
  rewrite (foldl_proj' _ locked) by (intros; apply add_credit_locked).
  rewrite umb_locked. unfold blk_upd. destruct (blocks s !! bh); reflexivity.
Qed.

Lemma unlock_all_set_locked ops : ∀ s,
  unlock_all s ops = set_locked (fun m => foldl (fun m op => delete op m) m ops) s.
Proof.
  unfold unlock_all. induction ops as [|op ops IH]; intros s; cbn [foldl].
  - destruct s; reflexivity.
  - rewrite IH. reflexivity.
Qed.

Lemma InvM_set_locked U f s cm : InvM U s cm → InvM U (set_locked f s) cm.
Proof. intros HM. destruct HM. constructor; assumption. Qed.

Definition dutq (t : tx) (s : store) : store :=
  match unmined s !! t_id t with Some _ => delete_unmined_tx t s | None => s end.

Lemma graft_self s : graft s s = s.
Proof. destruct s; reflexivity. Qed.

Lemma dutq_graft t r base : dutq t (graft r base) = graft (dutq t r) base.
Proof. unfold dutq. simpl. destruct (unmined r !! t_id t); [apply dut_graft|reflexivity]. Qed.

Lemma dutq_self_graft t s : dutq t s = graft (dutq t s) s.
Proof. rewrite <- dutq_graft. rewrite graft_self. reflexivity. Qed.

Lemma insert_mined_eq U fuel t bh bhash btime s :
  txrecs s !! (t_id t, bh, bhash) = None →
  insert_mined U fuel t (bh, bhash) btime s =
  match remove_double_spends U fuel t
          (dutq t (update_mined_balance t (bh, bhash)
                     (set_txrecs (<[(t_id t, bh, bhash) := tt]>) (blk_upd (t_id t) bh bhash btime s)))) with
  | None => None
  | Some s5 => Some (false, unlock_all s5 (t_ins t))
  end.
Proof.
  intros Hn. unfold insert_mined. rewrite Hn.
  rewrite bool_decide_eq_false_2 by (intros [x Hx]; discriminate). reflexivity.
Qed.

Lemma apply_confirm_eq U t bh bhash btime s sU' :
  txrecs s !! (t_id t, bh, bhash) = None →
  remove_double_spends U (fuel_of U) t (dutq t s) = Some sU' →
  apply_confirm U t (bh, bhash) btime s =
  Some (graft sU' (unlock_all (mined_part t (t_id t) bh bhash btime s) (t_ins t))).
Proof.
  intros Hn Hrds. unfold apply_confirm. rewrite insert_mined_eq by exact Hn.
  set (s3 := update_mined_balance t (bh, bhash)
               (set_txrecs (<[(t_id t, bh, bhash) := tt]>) (blk_upd (t_id t) bh bhash btime s))).
  assert (Hs3 : s3 = graft s s3).
  { symmetry. apply graft_same; unfold s3.
    - destruct (umb_unm t bh bhash (set_txrecs (<[(t_id t, bh, bhash) := tt]>) (blk_upd (t_id t) bh bhash btime s))) as (H1 & _).
      rewrite H1. unfold blk_upd. destruct (blocks s !! bh); reflexivity.
    - destruct (umb_unm t bh bhash (set_txrecs (<[(t_id t, bh, bhash) := tt]>) (blk_upd (t_id t) bh bhash btime s))) as (_ & H2 & _).
      rewrite H2. unfold blk_upd. destruct (blocks s !! bh); reflexivity.
    - destruct (umb_unm t bh bhash (set_txrecs (<[(t_id t, bh, bhash) := tt]>) (blk_upd (t_id t) bh bhash btime s))) as (_ & _ & H3).
      rewrite H3. unfold blk_upd. destruct (blocks s !! bh); reflexivity. }
  rewrite Hs3 at 1. rewrite dutq_graft, rds_graft, Hrds. simpl.
  rewrite unlock_all_graft.
  change (Some (add_credits t (bh, bhash) (graft sU' (unlock_all s3 (t_ins t))) (t_creds t)) =
          Some (graft sU' (unlock_all (mined_part t (t_id t) bh bhash btime s) (t_ins t)))).
  rewrite add_credits_graft, add_credits_unlock_all. reflexivity.
Qed.

Lemma locked_unlock_all s ops : locked (unlock_all s ops) = foldl (fun m op => delete op m) (locked s) ops.
Proof. rewrite unlock_all_set_locked. reflexivity. Qed.

Lemma InvU_minus_absent U s (C : gset N) (x : N) : x ∉ C → InvU U s C → InvU U s (C ∖ {[x]}).
Proof.
  intros Hx [H1 H2 H3 H4].
  assert (Heq : ∀ y, y ∈ C ∖ {[x]} ↔ y ∈ C).
  { intros y. rewrite elem_of_difference, elem_of_singleton. split; [tauto|]. intros Hy. split; [exact Hy|].
    intros ->. contradiction. }
  constructor.
  - intros y. rewrite Heq. apply H1.
  - intros op a chg. rewrite Heq. apply H2.
  - intros op l Hl. destruct (H3 op l Hl) as (Ha & Hb & Hc). split; [exact Ha|]. split; [exact Hb|].
    intros u. rewrite Heq. apply Hc.
  - intros op u Hu. apply H4. apply Heq. exact Hu.
Qed.

Section confirm.
  Context (U : universe).
  Hypothesis Hdesc : descendants_correct U.
  Hypothesis Hrc : remove_conflict_correct U.

  Lemma confirm_first (tid : N) (t : tx) (h : Z) (bhash : N) (btime : Z) (s : store) (F : facts) :
    wf_universe U = true → Inv U s F →
    U !! tid = Some t → f_conf F !! tid = None →
    event_ok U F (Confirm tid h bhash btime) = true →
    ∃ s', apply_confirm U t (h, bhash) btime s = Some s' ∧ Inv U s' (spec_confirm U F tid (h, bhash)).
  Proof.
    intros HwfU HI HUt Hnone Hok.
    destruct (wf_tx_unpack tid t (wf_universe_tx U tid t HwfU HUt)) as (Hid & Hnd_ins & Hnd_creds & Hrange & Hins_lt).
    assert (Hins_ne : ∀ op, op ∈ t_ins t → op.1 ≠ tid).
    { intros op Hop Heq. specialize (Hins_lt op Hop). rewrite Heq in Hins_lt. lia. }
    destruct (event_ok_confirm_first U F tid h bhash btime t Hok HUt Hnone) as (E1 & E2 & E3 & E4 & E5).
    destruct (Inv_split U s F HI) as (HwfF & HM & HU & HL).
    assert (Hins : tx_ins U tid = t_ins t) by (unfold tx_ins; rewrite HUt; reflexivity).
    set (C0 := f_unconf F ∖ {[tid]}).
    assert (HtidC0 : tid ∉ C0). { unfold C0. rewrite elem_of_difference, elem_of_singleton. tauto. }
    assert (HC0sub : C0 ⊆ f_unconf F). { intros x Hx. unfold C0 in Hx. apply elem_of_difference in Hx. tauto. }
    (* the unmined part, with the transaction taken out of the mempool *)
    assert (HI0 : Inv U (dutq t s) (wu F C0)).
    { apply Inv_join; simpl.
      - apply (facts_wf_shrink U F C0 HwfF HC0sub).
      - rewrite dutq_self_graft. apply InvM_graft. exact HM.
      - unfold dutq. rewrite Hid. destruct (unmined s !! tid) as [[]|] eqn:Hun.
        + apply dut_InvU; assumption.
        + apply InvU_minus_absent; [|exact HU]. intros Hin. apply (iu_unmined U s _ HU) in Hin.
          rewrite Hun in Hin. destruct Hin as [x Hx]. discriminate.
      - rewrite dutq_self_graft. simpl. exact HL. }
    set (cf := filter (λ u, conflicts U tid u) (elements C0)).
    assert (Hcf : ∀ u, u ∈ cf ↔ u ∈ C0 ∧ ∃ op, op ∈ t_ins t ∧ op ∈ tx_ins U u).
    { intros u. unfold cf. rewrite elem_of_list_filter, elem_of_elements. unfold conflicts.
      rewrite Hins. split.
      - intros [Hc Hu]. split; [exact Hu|]. apply Is_true_true in Hc. apply andb_true_iff in Hc. destruct Hc as [_ Hex].
        apply existsb_exists in Hex. destruct Hex as (op & Hop & Hsp). exists op.
        split; [apply elem_of_list_In; exact Hop|]. unfold spends in Hsp. apply bool_decide_eq_true in Hsp. exact Hsp.
      - intros [Hu (op & Hop & Hsp)]. split; [|exact Hu]. apply Is_true_true. apply andb_true_iff. split.
        + apply bool_decide_eq_true_2. intros ->. contradiction.
        + apply existsb_exists. exists op. split; [apply elem_of_list_In; exact Hop|].
          unfold spends. apply bool_decide_eq_true_2. exact Hsp. }
    destruct (rds_correct U Hdesc Hrc HwfU F C0 (t_ins t) cf tid Hcf HtidC0 (dutq t s) HI0)
      as (sU' & C' & Hfold & HI' & Hchar & Hno).
    assert (Hrds : remove_double_spends U (fuel_of U) t (dutq t s) = Some sU').
    { rewrite rds_eq, Hid. exact Hfold. }
    assert (Htxn : txrecs s !! (t_id t, h, bhash) = None).
    { rewrite Hid. destruct (txrecs s !! (tid, h, bhash)) as [x|] eqn:Htx; [|reflexivity].
      assert (Hs : is_Some (txrecs s !! (tid, h, bhash))) by (rewrite Htx; eexists; reflexivity).
      apply (im_txrecs U s _ HM) in Hs. rewrite Hnone in Hs. discriminate. }
    rewrite (apply_confirm_eq U t h bhash btime s sU' Htxn Hrds). rewrite Hid.
    eexists. split; [reflexivity|].
    (* the resulting facts *)
    assert (HC'sub : C' ⊆ C0). { intros x Hx. apply Hchar in Hx. tauto. }
    set (F1 := {| f_conf := <[tid := (h, bhash)]> (f_conf F); f_unconf := f_unconf F ∖ {[tid]};
                  f_leases := foldl (λ m op, delete op m) (f_leases F) (tx_ins U tid) |}).
    assert (Hspec : spec_confirm U F tid (h, bhash) = wu F1 C').
    { unfold spec_confirm. rewrite Hnone. fold F1. fold C0. fold cf.
      apply (rm_eq_with_unconf U F1 cf C'). intros c. rewrite Hchar. simpl. fold C0.
      split; intros [Hc Hnd]; (split; [exact Hc|]); intros Hd; apply Hnd;
        (eapply depends_on_ext; [|exact Hd]); reflexivity. }
    rewrite Hspec.
    apply Inv_join; simpl.
    - apply (facts_wf_confirm U F tid t h bhash C' _ HUt Hins_ne Hnone); try assumption.
      + exact (inv_wf U sU' (wu F C') HI').
      + intros Hin. apply HtidC0. apply HC'sub. exact Hin.
      + intros x Hx. apply HC0sub, HC'sub, Hx.
    - apply InvM_graft. rewrite unlock_all_set_locked. apply InvM_set_locked.
      apply mined_InvM; try assumption.
      destruct (decide (tid ∈ f_unconf F)) as [Hin|Hnin].
      + left. intros op a chg Hop. rewrite (iu_credits U s _ HU op a chg).
        unfold is_credited, creds_of. rewrite Hop, HUt. split.
        * intros (_ & Hc & Ha). split; assumption.
        * intros (Hc & Ha). split; [exact Hin|split; assumption].
      + right. intros op Hop. destruct (unmined_credits s !! op) as [[a chg]|] eqn:Hmc; [|reflexivity].
        apply (iu_credits U s _ HU op a chg) in Hmc. destruct Hmc as (Hin & _). rewrite Hop in Hin. contradiction.
    - apply InvU_graft. destruct (Inv_split U sU' (wu F C') HI') as (_ & _ & HU' & _). exact HU'.
    - rewrite locked_unlock_all, mined_part_locked, HL, Hins. reflexivity.
  Qed.

  (** re-delivery of a confirmation that is already recorded *)
  Lemma confirm_redelivery (tid : N) (t : tx) (h : Z) (bhash : N) (btime : Z) (s : store) (F : facts) b :
    wf_universe U = true → Inv U s F →
    U !! tid = Some t → f_conf F !! tid = Some b →
    event_ok U F (Confirm tid h bhash btime) = true →
    apply_confirm U t (h, bhash) btime s = Some s ∧ spec_confirm U F tid (h, bhash) = F.
  Proof.
    intros HwfU HI HUt Hconf Hok.
    destruct (wf_tx_unpack tid t (wf_universe_tx U tid t HwfU HUt)) as (Hid & _).
    simpl in Hok. rewrite HUt, Hconf in Hok.
    rewrite !andb_true_iff in Hok. destruct Hok as [_ Hb]. apply bool_decide_eq_true in Hb. subst b.
    split.
    - unfold apply_confirm, insert_mined. rewrite Hid.
      rewrite bool_decide_eq_true_2; [reflexivity|].
      apply (inv_txrecs U s F HI). exact Hconf.
    - unfold spec_confirm. rewrite Hconf. reflexivity.
  Qed.

  Lemma step_preserves_confirm_hyp t h bhash btime : step_preserves U (Confirm t h bhash btime).
  Proof.
    intros m sm HwfU HI Hclk Hok.
    destruct (U !! t) as [x|] eqn:HUt.
    - destruct (f_conf (fs sm) !! t) as [b|] eqn:Hconf.
      + destruct (confirm_redelivery t x h bhash btime (st m) (fs sm) b HwfU HI HUt Hconf Hok) as [Hap Hsp].
        cbn [step]. rewrite HUt, Hap. cbn [spec_step fs sclock st clock]. rewrite Hsp.
        split; [discriminate|]. split; [exact HI|exact Hclk].
      + destruct (confirm_first t x h bhash btime (st m) (fs sm) HwfU HI HUt Hconf Hok) as (s' & Hap & HI').
        cbn [step]. rewrite HUt, Hap. cbn [spec_step fs sclock st clock].
        split; [discriminate|]. split; [exact HI'|exact Hclk].
    - exfalso. simpl in Hok. rewrite HUt in Hok. discriminate.
  Qed.
End confirm.

(** * The exported statement (no hypotheses): the two interface facts come
      from [Tx/InvRemove.v]. *)
Lemma step_preserves_confirm U t h bhash btime : step_preserves U (Confirm t h bhash btime).
Proof.
  apply step_preserves_confirm_hyp; [apply descendants_ok|apply remove_conflict_ok].
Qed.

Print Assumptions step_preserves_confirm.
