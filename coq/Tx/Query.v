(** Executable model of the remaining query surface of property C13
    (wtxmgr/query.go, wallet/wallet.go), on top of [Tx.Store]:

    - [RangeTransactions] WITH its callback (the callback's "stop" answer ends
      the iteration without an error) - [range_transactions_cb];
    - [Store.PreviousPkScripts] - [previous_pkscripts] (an output script is
      identified by the outpoint that carries it);
    - [Wallet.GetTransactions]: resolution of the start/end block identifiers,
      the range callback that sorts groups into mined blocks / the unmined
      list, [makeTxSummary] - [get_transactions];
    - the specification-level counterparts, functions of the ledger facts
      only ([spec_unique], [spec_range], [spec_prev], [spec_get_transactions]).

    Definitions only; the proofs are in [Tx.QueryProofs]. *)
From stdpp Require Import gmap list numbers sorting.
From Coq Require Import ZArith NArith.
From Verif Require Import Tx.Store Tx.Ledger Tx.Hist.
Local Open Scope Z_scope.

Notation group := (list (txid * details)) (only parsing).

(** ** [RangeTransactions] with a callback

    [f acc group] returns (stop?, acc').  [rangeUnminedTransactions] calls it
    at most once (never for an empty set), [rangeBlockTransactions] once per
    block until it answers stop. *)
Section callback.
  Context {A : Type} (f : A → group → bool * A).

  Fixpoint run_groups (gs : list group) (a : A) : bool * A :=
    match gs with
    | [] => (false, a)
    | g :: gs' => let '(brk, a') := f a g in
                  if brk then (true, a') else run_groups gs' a'
    end.

  (** [RangeTransactions], branch for branch *)
  Definition range_transactions_cb (U : universe) (s : store) (b e : Z) (a : A) : A :=
    let '(brk1, a1, added) :=
      if bool_decide (b < 0)
      then let '(brk, a') := run_groups (range_unmined U s) a in (brk, a', true)
      else (false, a, false) in
    if brk1 then a1
    else
      let '(brk2, a2) := run_groups (range_blocks U s b e) a1 in
      if negb brk2 && negb added && bool_decide (e < 0)
      then (run_groups (range_unmined U s) a2).2
      else a2.
End callback.

(** the callback of the correspondence harness: collect the groups, answer
    "stop" on the [k]-th call ([k = 0]: never) *)
Definition collect_cb (k : nat) (acc : nat * list group) (g : group) : bool * (nat * list group) :=
  let n := S acc.1 in
  (bool_decide (n = k), (n, acc.2 ++ [g])).

Definition range_collect (U : universe) (s : store) (b e : Z) (k : nat) : list group :=
  (range_transactions_cb (collect_cb k) U s b e (O, [])).2.

(** ** [PreviousPkScripts]

    [None] = the data error the code returns when the transaction record of
    a referenced credit is missing or has no such output. *)
Definition script_of (U : universe) (op : outpoint) : option outpoint :=
  match U !! op.1 with
  | Some p => if bool_decide (N.to_nat op.2 < length (t_outs p))%nat then Some op else None
  | None => None
  end.

Definition sequence_opt {A} (l : list (option A)) : option (list A) :=
  foldr (fun x acc => match x, acc with Some y, Some r => Some (y :: r) | _, _ => None end) (Some []) l.

Definition previous_pkscripts (U : universe) (s : store) (h : txid) (b : option blockid)
  : option (list outpoint) :=
  match b with
  | None =>
    (* one step per input; inner None = input skipped *)
    sequence_opt (omap (fun op : outpoint =>
      match unmined s !! op.1 with
      | Some _ =>
        if bool_decide (is_Some (unmined_credits s !! op)) then Some (script_of U op) else None
      | None =>
        match unspent s !! op with
        | Some (ph, pbh) =>
          Some (match txrecs s !! (op.1, ph, pbh) with Some _ => script_of U op | None => None end)
        | None => None
        end
      end) (tx_ins U h))
  | Some (bh, bhash) =>
    sequence_opt (omap (fun i : N =>
      match debits s !! (h, bh, bhash, i) with
      | Some (_, ck) =>
        let '(ct, ch, cbh, ci) := ck in
        Some (match txrecs s !! (ct, ch, cbh) with Some _ => script_of U (ct, ci) | None => None end)
      | None => None
      end) (indices (tx_ins U h)))
  end.

(** ** [Wallet.GetTransactions] *)

(** a block identifier: a height, or a hash together with what the chain
    backend answers for it ([None] = the backend returns an error) *)
Inductive bident := IdHeight (h : Z) | IdHash (answer : option Z).

Definition resolve_ident (dflt : Z) (i : option bident) : option Z :=
  match i with
  | None => Some dflt
  | Some (IdHeight h) => Some h
  | Some (IdHash a) => a
  end.

(** [makeTxSummary]: hash, MyInputs (index, previous amount), MyOutputs
    (indices), Fee *)
Record summary := { sm_tx : txid; sm_inputs : list (N * Z); sm_outputs : list N; sm_fee : Z }.

(** the walk over the outputs: the next unconsumed credit decides *)
Fixpoint my_outputs (idxs : list N) (creds : list credit_rec) : list N :=
  match idxs with
  | [] => []
  | i :: r =>
    match creds with
    | c :: cs => if bool_decide (cr_index c = i) then i :: my_outputs r cs else my_outputs r creds
    | [] => my_outputs r []
    end
  end.

Definition sumZ' (l : list Z) : Z := foldr Z.add 0 l.

(** number of inputs of the real transaction: a coinbase carries its coinbase
    input, which [t_ins] does not list *)
Definition n_inputs (t : tx) : nat := if t_coinbase t then S (length (t_ins t)) else length (t_ins t).

Definition summary_of (U : universe) (td : txid * details) : summary :=
  let '(h, d) := td in
  let n_ins := match U !! h with Some t => n_inputs t | None => O end in
  let outs := match U !! h with Some t => t_outs t | None => [] end in
  {| sm_tx := h;
     sm_inputs := d_debits d;
     sm_outputs := my_outputs (indices outs) (d_credits d);
     sm_fee := if bool_decide (length (d_debits d) = n_ins)
               then sumZ' (map snd (d_debits d)) - sumZ' outs else 0 |}.

Record gt_result := { gt_mined : list (blockid * list summary); gt_unmined : list summary }.

Inductive gt_outcome := GtOk (r : gt_result) | GtErr | GtPanic.

(** the range callback of GetTransactions; [None] = index out of range on an
    empty group (cannot happen: the store never passes one) *)
Definition gt_cb (U : universe) (cancel : bool) (acc : option gt_result) (g : group)
  : bool * option gt_result :=
  match acc, g with
  | None, _ => (true, None)
  | Some _, [] => (true, None)
  | Some r, (_, d0) :: _ =>
    let txs := map (summary_of U) g in
    let r' := match d_block d0 with
              | Some b => {| gt_mined := gt_mined r ++ [(b, txs)]; gt_unmined := gt_unmined r |}
              | None => {| gt_mined := gt_mined r; gt_unmined := txs |}
              end in
    (cancel, Some r')
  end.

Definition get_transactions (U : universe) (s : store) (start end_ : option bident) (cancel : bool)
  : gt_outcome :=
  match resolve_ident 0 start with
  | None => GtErr
  | Some b =>
    match resolve_ident (-1) end_ with
    | None => GtErr
    | Some e =>
      match range_transactions_cb (gt_cb U cancel) U s b e (Some {| gt_mined := []; gt_unmined := [] |}) with
      | Some r => GtOk r
      | None => GtPanic
      end
    end
  end.

(** ** Specification level: functions of the facts only *)

(** lookup qualified by a block ([None] = as unconfirmed) *)
Definition spec_unique (U : universe) (F : facts) (t : txid) (b : option blockid) : option details :=
  match b with
  | Some bb => if bool_decide (f_conf F !! t = Some bb) then spec_details U F t else None
  | None => if bool_decide (t ∈ f_unconf F) then spec_details U F t else None
  end.

Definition with_details (U : universe) (F : facts) (l : list txid) : group :=
  omap (fun t => match spec_details U F t with Some d => Some (t, d) | None => None end) l.

Definition conf_heights (F : facts) : list Z :=
  merge_sort Z.le (remove_dups (map (fun kv : txid * blockid => kv.2.1) (map_to_list (f_conf F)))).

Definition spec_sel (F : facts) (b' e' : Z) : list Z :=
  if bool_decide (b' < e') then filter (fun h => b' <= h ∧ h <= e') (conf_heights F)
  else reverse (filter (fun h => e' <= h ∧ h <= b') (conf_heights F)).

Definition conf_at (F : facts) (h : Z) : list txid :=
  omap (fun kv : txid * blockid => if bool_decide (kv.2.1 = h) then Some kv.1 else None)
       (map_to_list (f_conf F)).

Definition spec_range_blocks (U : universe) (F : facts) (b e : Z) : list group :=
  let b' := if bool_decide (b < 0) then max_i32 else b in
  let e' := if bool_decide (e < 0) then max_i32 else e in
  map (fun h => with_details U F (conf_at F h)) (spec_sel F b' e').

Definition spec_range_unmined (U : universe) (F : facts) : list group :=
  match elements (f_unconf F) with
  | [] => []
  | l => [with_details U F l]
  end.

(** what [RangeTransactions begin end] must deliver, group by group (the
    order inside a group is not fixed) *)
Definition spec_range (U : universe) (F : facts) (b e : Z) : list group :=
  if bool_decide (b < 0) then spec_range_unmined U F ++ spec_range_blocks U F b e
  else spec_range_blocks U F b e ++ (if bool_decide (e < 0) then spec_range_unmined U F else []).

Definition take_stop {A} (k : nat) (l : list A) : list A :=
  match k with O => l | _ => take k l end.

(** the scripts [PreviousPkScripts] must return for a known transaction at
    its current status: one per input that spends a wallet credit *)
Definition spec_prev (U : universe) (F : facts) (t : txid) : list outpoint :=
  filter (fun op : outpoint => known F op.1 && credited U op = true) (tx_ins U t).

Definition spec_summary (U : universe) (td : txid * details) : summary :=
  let '(h, d) := td in
  let n_ins := match U !! h with Some t => n_inputs t | None => O end in
  let outs := match U !! h with Some t => t_outs t | None => [] end in
  {| sm_tx := h;
     sm_inputs := d_debits d;
     sm_outputs := map cr_index (d_credits d);
     sm_fee := if bool_decide (length (d_debits d) = n_ins)
               then sumZ' (map snd (d_debits d)) - sumZ' outs else 0 |}.

(** a block group carries the block of its members and is appended to the
    mined list; the unconfirmed group (no block) becomes the unmined list *)
Definition gt_step (U : universe) (r : gt_result) (g : group) : gt_result :=
  match g with
  | (_, d0) :: _ =>
    let txs := map (spec_summary U) g in
    match d_block d0 with
    | Some b => {| gt_mined := gt_mined r ++ [(b, txs)]; gt_unmined := gt_unmined r |}
    | None => {| gt_mined := gt_mined r; gt_unmined := txs |}
    end
  | [] => r
  end.

Definition spec_gt_of_groups (U : universe) (gs : list group) : gt_result :=
  foldl (gt_step U) {| gt_mined := []; gt_unmined := [] |} gs.

(** [cancel] = the caller's cancel channel is already closed: one group *)
Definition spec_get_transactions (U : universe) (F : facts) (start end_ : option bident) (cancel : bool)
  : option gt_result :=
  match resolve_ident 0 start, resolve_ident (-1) end_ with
  | Some b, Some e =>
    Some (spec_gt_of_groups U (take_stop (if cancel then 1%nat else O) (spec_range U F b e)))
  | _, _ => None
  end.
