(** Range iteration (RangeTransactions) under the refinement invariant: the
    remaining clause of property C13.  Also OutputsToWatch and
    ListLockedOutputs.  Owner: prover-obs. *)
From stdpp Require Import gmap list numbers sorting.
From Coq Require Import ZArith NArith Lia.
From Verif Require Import Tx.Store Tx.Ledger Tx.Hist Tx.Inv Tx.InvObs Tx.InvLease.
Local Open Scope Z_scope.

(** * Sorted-list toolkit *)

Lemma SSorted_filter {A} (R : relation A) (P : A → Prop) `{!∀ x, Decision (P x)} (l : list A) :
  StronglySorted R l → StronglySorted R (filter P l).
Proof.
  induction 1 as [|x l Hs IH Hf]; [constructor|].
  rewrite filter_cons. destruct (decide (P x)); [|done].
  constructor; [done|]. rewrite Forall_forall in Hf. apply Forall_forall.
  intros y Hy. apply elem_of_list_filter in Hy as [_ Hy]. by apply Hf.
Qed.

Lemma SSorted_snoc {A} (R : relation A) (l : list A) x :
  StronglySorted R l → (∀ y, y ∈ l → R y x) → StronglySorted R (l ++ [x]).
Proof.
  induction 1 as [|a l Hs IH Hf]; intros Hx; simpl.
  - constructor; [constructor|constructor].
  - constructor.
    + apply IH. intros y Hy. apply Hx. by right.
    + apply Forall_app. split; [done|]. apply Forall_singleton. apply Hx. left.
Qed.

Lemma SSorted_reverse {A} (R : relation A) (l : list A) :
  StronglySorted R l → StronglySorted (flip R) (reverse l).
Proof.
  induction 1 as [|a l Hs IH Hf]; [constructor|].
  rewrite reverse_cons. apply SSorted_snoc; [done|].
  intros y Hy. rewrite elem_of_reverse in Hy. rewrite Forall_forall in Hf. unfold flip. by apply Hf.
Qed.

Lemma SSorted_le_lt (l : list Z) :
  StronglySorted Z.le l → NoDup l → StronglySorted Z.lt l.
Proof.
  induction 1 as [|a l Hs IH Hf]; intros Hnd; [constructor|].
  apply NoDup_cons in Hnd as [Hnotin Hnd]. constructor; [by apply IH|].
  rewrite Forall_forall in Hf. apply Forall_forall. intros y Hy.
  pose proof (Hf y Hy). assert (a ≠ y) by (by intros ->). lia.
Qed.

Lemma omap_reverse {A B} (f : A → option B) (l : list A) :
  omap f (reverse l) = reverse (omap f l).
Proof.
  induction l as [|x l IH]; [done|].
  rewrite reverse_cons, omap_app, IH. rewrite (omap_cons' f x l), (omap_cons' f x []).
  destruct (f x) as [y|].
  - by rewrite reverse_cons.
  - change (omap f []) with (@nil B). by rewrite app_nil_r.
Qed.

Lemma NoDup_map_fst_filter {A B} (P : A * B → Prop) `{!∀ x, Decision (P x)} (l : list (A * B)) :
  NoDup (map fst l) → NoDup (map fst (filter P l)).
Proof.
  induction l as [|x l IH]; simpl; intros Hnd; [constructor|].
  apply NoDup_cons in Hnd as [Hnotin Hnd]. rewrite filter_cons.
  destruct (decide (P x)); [|by apply IH]. simpl. constructor; [|by apply IH].
  intros Hin. apply Hnotin. rewrite map_fmap in Hin |- *.
  apply elem_of_list_fmap in Hin as (y & -> & Hy). apply elem_of_list_filter in Hy as [_ Hy].
  apply elem_of_list_fmap. by exists y.
Qed.

(** * [range_blocks] in a form that names its parts *)

Definition rb_bound (x : Z) : Z := if bool_decide (x < 0) then max_i32 else x.

Definition block_heights (s : store) : list Z :=
  merge_sort Z.le (map fst (map_to_list (blocks s))).

Definition rb_sel (s : store) (b' e' : Z) : list Z :=
  if bool_decide (b' < e') then filter (λ h, b' <= h ∧ h <= e') (block_heights s)
  else reverse (filter (λ h, e' <= h ∧ h <= b') (block_heights s)).

Definition rb_group (U : gmap N tx) (s : store) (h : Z) : option (list (N * details)) :=
  match blocks s !! h with
  | None => None
  | Some br => Some (map (λ txh, (txh, mined_details U s (txh, h, b_hash br))) (b_txs br))
  end.

Lemma range_blocks_alt U s b e :
  range_blocks U s b e = omap (rb_group U s) (rb_sel s (rb_bound b) (rb_bound e)).
Proof. done. Qed.

Lemma elem_of_block_heights s h : h ∈ block_heights s ↔ is_Some (blocks s !! h).
Proof.
  unfold block_heights. rewrite merge_sort_Permutation, map_fmap, elem_of_list_fmap. split.
  - intros ([k br] & -> & Hin). apply elem_of_map_to_list in Hin. by eexists.
  - intros [br Hbr]. exists (h, br). split; [done|]. by apply elem_of_map_to_list.
Qed.

Lemma NoDup_block_heights s : NoDup (block_heights s).
Proof.
  unfold block_heights. rewrite merge_sort_Permutation, map_fmap. apply NoDup_fst_map_to_list.
Qed.

Lemma block_heights_sorted s : StronglySorted Z.lt (block_heights s).
Proof.
  apply SSorted_le_lt; [|apply NoDup_block_heights].
  unfold block_heights. apply StronglySorted_merge_sort; apply _.
Qed.

Lemma elem_of_rb_sel s b' e' h :
  h ∈ rb_sel s b' e' ↔ is_Some (blocks s !! h) ∧ Z.min b' e' <= h <= Z.max b' e'.
Proof.
  unfold rb_sel. case_bool_decide as Hlt.
  - rewrite elem_of_list_filter, elem_of_block_heights. split; intros [? ?]; split; (done || lia).
  - rewrite elem_of_reverse, elem_of_list_filter, elem_of_block_heights.
    split; intros [? ?]; split; (done || lia).
Qed.

Lemma NoDup_rb_sel s b' e' : NoDup (rb_sel s b' e').
Proof.
  unfold rb_sel. case_bool_decide.
  - apply NoDup_filter, NoDup_block_heights.
  - rewrite reverse_Permutation. apply NoDup_filter, NoDup_block_heights.
Qed.

(** ascending when [b' < e'], descending otherwise *)
Lemma rb_sel_sorted s b' e' :
  if bool_decide (b' < e') then StronglySorted Z.lt (rb_sel s b' e')
  else StronglySorted (flip Z.lt) (rb_sel s b' e').
Proof.
  unfold rb_sel. case_bool_decide.
  - apply SSorted_filter, block_heights_sorted.
  - apply SSorted_reverse, SSorted_filter, block_heights_sorted.
Qed.

(** the same filter read in both directions *)
Lemma range_blocks_backward_reverse U s :
  range_blocks U s (-1) 0 = reverse (range_blocks U s 0 (-1)).
Proof.
  rewrite !range_blocks_alt, <-omap_reverse. f_equal.
Qed.

(** * Under the invariant *)

Definition conf_height (F : facts) (hh : Z) : Prop := ∃ t bh, f_conf F !! t = Some (hh, bh).

(** one block group: the transactions confirmed at [hh], once each, with
    their mined details, which are the specification's details *)
Definition block_group_ok (U : gmap N tx) (s : store) (F : facts) (hh : Z) (g : list (N * details)) : Prop :=
  ∃ bh, NoDup (map fst g) ∧
        (∀ t d, (t, d) ∈ g ↔ f_conf F !! t = Some (hh, bh) ∧ d = mined_details U s (t, hh, bh)) ∧
        (∀ t d, (t, d) ∈ g → Some d = spec_details U F t).

Definition unmined_group_ok (U : gmap N tx) (s : store) (F : facts) (g : list (N * details)) : Prop :=
  NoDup (map fst g) ∧ map fst g ≡ₚ elements (f_unconf F) ∧
  (∀ t d, (t, d) ∈ g → d = unmined_details U s t ∧ Some d = spec_details U F t).

Definition group_txids (gs : list (list (N * details))) : list N := flat_map (map fst) gs.

Lemma group_txids_app gs1 gs2 : group_txids (gs1 ++ gs2) = group_txids gs1 ++ group_txids gs2.
Proof. unfold group_txids. apply flat_map_app. Qed.

Lemma map_fst_pair {A B} (f : A → B) (l : list A) : map fst (map (λ x, (x, f x)) l) = l.
Proof. induction l as [|x l IH]; simpl; [done|]. by rewrite IH. Qed.

Section range.
  Context (U : gmap N tx) (s : store) (F : facts).
  Context (Hwf : wf_universe U = true) (HI : Inv U s F).

  Lemma mined_details_spec t hh bh :
    f_conf F !! t = Some (hh, bh) → Some (mined_details U s (t, hh, bh)) = spec_details U F t.
  Proof.
    intros Hc. destruct (details_correct U s F t Hwf HI) as (_ & H2 & _).
    rewrite Hc in H2. unfold unique_tx_details in H2.
    destruct (proj2 (inv_txrecs U s F HI t hh bh) Hc) as [[] Hr]. by rewrite Hr in H2.
  Qed.

  Lemma unmined_details_spec t :
    t ∈ f_unconf F → Some (unmined_details U s t) = spec_details U F t.
  Proof.
    intros Hu. destruct (details_correct U s F t Hwf HI) as (_ & H2 & _).
    rewrite (unconf_not_conf U s F HI t Hu) in H2. unfold unique_tx_details in H2.
    destruct (proj2 (inv_unmined U s F HI t) Hu) as [[] Hm]. by rewrite Hm in H2.
  Qed.

  Lemma block_conf_height h : is_Some (blocks s !! h) ↔ conf_height F h.
  Proof.
    unfold conf_height. split.
    - intros [br Hbr]. destruct (inv_blocks_sound U s F HI h br Hbr) as (Hne & _ & Hall).
      destruct (b_txs br) as [|t l] eqn:Htx; [done|]. exists t, (b_hash br). apply Hall. left.
    - intros (t & bh & Hc). destruct (inv_blocks_complete U s F HI t h bh Hc) as (br & Hbr & _).
      by eexists.
  Qed.

  Lemma block_txs_conf h br t :
    blocks s !! h = Some br → (t ∈ b_txs br ↔ f_conf F !! t = Some (h, b_hash br)).
  Proof.
    intros Hbr. destruct (inv_blocks_sound U s F HI h br Hbr) as (_ & _ & Hall). split; [apply Hall|].
    intros Hc. destruct (inv_blocks_complete U s F HI t h _ Hc) as (br' & Hbr' & _ & Hin).
    congruence.
  Qed.

  Lemma rb_group_ok h br :
    blocks s !! h = Some br →
    block_group_ok U s F h (map (λ txh, (txh, mined_details U s (txh, h, b_hash br))) (b_txs br)).
  Proof.
    intros Hbr. exists (b_hash br). split_and!.
    - rewrite map_fst_pair. by destruct (inv_blocks_sound U s F HI h br Hbr) as (_ & Hnd & _).
    - intros t d. rewrite map_fmap, elem_of_list_fmap. split.
      + intros (t' & [= -> ->] & Hin). split; [|done]. by apply (block_txs_conf h br).
      + intros [Hc ->]. exists t. split; [done|]. by apply (block_txs_conf h br).
    - intros t d Hin. rewrite map_fmap in Hin. apply elem_of_list_fmap in Hin as (t' & [= -> ->] & Hin).
      apply mined_details_spec. by apply (block_txs_conf h br).
  Qed.

  Lemma rb_groups_ok l :
    (∀ h, h ∈ l → is_Some (blocks s !! h)) →
    Forall2 (block_group_ok U s F) l (omap (rb_group U s) l).
  Proof.
    induction l as [|h l IH]; intros Hall; [constructor|].
    rewrite omap_cons'. destruct (Hall h) as [br Hbr]; [left|].
    unfold rb_group at 1. rewrite Hbr. constructor.
    - by apply rb_group_ok.
    - apply IH. intros h' Hh'. apply Hall. by right.
  Qed.

  (** (1) the block groups of any range *)
  Lemma range_blocks_groups_main b e :
    ∃ hl : list Z,
      (if bool_decide (rb_bound b < rb_bound e) then StronglySorted Z.lt hl
       else StronglySorted (flip Z.lt) hl) ∧
      (∀ hh, hh ∈ hl ↔ conf_height F hh ∧
                       Z.min (rb_bound b) (rb_bound e) <= hh <= Z.max (rb_bound b) (rb_bound e)) ∧
      Forall2 (block_group_ok U s F) hl (range_blocks U s b e).
  Proof.
    exists (rb_sel s (rb_bound b) (rb_bound e)). split_and!.
    - apply rb_sel_sorted.
    - intros hh. by rewrite elem_of_rb_sel, block_conf_height.
    - rewrite range_blocks_alt. apply rb_groups_ok. intros h Hh.
      by apply elem_of_rb_sel in Hh as [? _].
  Qed.

  Lemma group_txids_blocks l :
    group_txids (omap (rb_group U s) l) =
    flat_map (λ h, match blocks s !! h with Some br => b_txs br | None => [] end) l.
  Proof.
    induction l as [|h l IH]; [done|].
    rewrite omap_cons'. unfold rb_group at 1. simpl flat_map.
    destruct (blocks s !! h) as [br|] eqn:Hbr; [|by rewrite IH].
    rewrite <-IH. unfold group_txids. simpl flat_map. by rewrite map_fst_pair.
  Qed.

  (** the txids reported for any range: exactly the transactions confirmed
      within the range, once each *)
  Lemma range_blocks_txids b e :
    group_txids (range_blocks U s b e) ≡ₚ
    map fst (filter (λ kv : N * (Z * N),
                       Z.min (rb_bound b) (rb_bound e) <= kv.2.1 <= Z.max (rb_bound b) (rb_bound e))
                    (map_to_list (f_conf F))).
  Proof.
    rewrite range_blocks_alt, group_txids_blocks. apply NoDup_Permutation.
    - apply NoDup_flat_map.
      + apply NoDup_rb_sel.
      + intros h _. destruct (blocks s !! h) as [br|] eqn:Hbr; [|constructor].
        by destruct (inv_blocks_sound U s F HI h br Hbr) as (_ & Hnd & _).
      + intros h1 h2 t _ _ H1 H2.
        destruct (blocks s !! h1) as [br1|] eqn:Hbr1; [|by inversion H1].
        destruct (blocks s !! h2) as [br2|] eqn:Hbr2; [|by inversion H2].
        apply (block_txs_conf h1 br1 t Hbr1) in H1. apply (block_txs_conf h2 br2 t Hbr2) in H2.
        congruence.
    - apply NoDup_map_fst_filter. rewrite map_fmap. apply NoDup_fst_map_to_list.
    - intros t. rewrite elem_of_flat_map, map_fmap, elem_of_list_fmap. split.
      + intros (h & Hh & Hin). apply elem_of_rb_sel in Hh as [[br Hbr] Hrange]. rewrite Hbr in Hin.
        apply (block_txs_conf h br t Hbr) in Hin. exists (t, (h, b_hash br)). split; [done|].
        apply elem_of_list_filter. split; [done|]. by apply elem_of_map_to_list.
      + intros ([t' [h bh]] & -> & Hin). apply elem_of_list_filter in Hin as [Hrange Hin].
        apply elem_of_map_to_list in Hin. simpl in *.
        destruct (inv_blocks_complete U s F HI t' h bh Hin) as (br & Hbr & _ & Htx).
        exists h. split; [|by rewrite Hbr]. apply elem_of_rb_sel. split; [by eexists|done].
  Qed.

  (** (2) the unmined group *)
  Lemma range_unmined_main :
    (range_unmined U s = [] ↔ f_unconf F = ∅) ∧
    (f_unconf F ≠ ∅ → ∃ g, range_unmined U s = [g] ∧ unmined_group_ok U s F g) ∧
    group_txids (range_unmined U s) ≡ₚ elements (f_unconf F).
  Proof.
    destruct (details_correct U s F 0%N Hwf HI) as (_ & _ & Hp).
    unfold range_unmined. destruct (unmined_hashes s) as [|x l] eqn:Hl.
    - apply Permutation_nil in Hp.
      assert (f_unconf F = ∅) as He by (apply leibniz_equiv; by apply elements_empty_inv).
      split_and!; [done|done|]. by rewrite Hp.
    - assert (f_unconf F ≠ ∅) as Hne.
      { intros He. rewrite He, elements_empty in Hp. by apply Permutation_sym, Permutation_nil in Hp. }
      split_and!.
      + split; [done|]. intros He. done.
      + intros _. eexists. split; [done|]. unfold unmined_group_ok. rewrite map_fst_pair. split_and!.
        * rewrite Hp. apply NoDup_elements.
        * done.
        * intros t d Hin. rewrite map_fmap in Hin. apply elem_of_list_fmap in Hin as (t' & [= -> ->] & Hin).
          split; [done|]. apply unmined_details_spec. apply elem_of_elements. by rewrite <-Hp.
      + unfold group_txids. simpl flat_map. by rewrite map_fst_pair, app_nil_r.
  Qed.

  Lemma conf_list_all_in_range :
    (∀ t h b, f_conf F !! t = Some (h, b) → h <= max_i32) →
    filter (λ kv : N * (Z * N), Z.min 0 max_i32 <= kv.2.1 <= Z.max 0 max_i32) (map_to_list (f_conf F))
    = map_to_list (f_conf F).
  Proof.
    intros Hmax. apply filter_all. intros [t [h bh]] Hin. apply elem_of_map_to_list in Hin. simpl.
    pose proof (Hmax _ _ _ Hin). pose proof (fw_heights_nonneg U F (inv_wf U s F HI) _ _ _ Hin).
    unfold max_i32 in *. lia.
  Qed.

  (** (3) everything, oldest first / newest first *)
  Lemma range_all_forward_main :
    (∀ t h b, f_conf F !! t = Some (h, b) → h <= max_i32) →
    range_transactions U s 0 (-1) = range_blocks U s 0 (-1) ++ range_unmined U s ∧
    group_txids (range_transactions U s 0 (-1)) ≡ₚ known_list F.
  Proof.
    intros Hmax. split; [done|].
    change (range_transactions U s 0 (-1)) with (range_blocks U s 0 (-1) ++ range_unmined U s).
    rewrite group_txids_app. unfold known_list. apply Permutation_app.
    - rewrite range_blocks_txids.
      change (rb_bound 0) with 0. change (rb_bound (-1)) with max_i32.
      by rewrite (conf_list_all_in_range Hmax).
    - apply range_unmined_main.
  Qed.

  Lemma range_all_backward_main :
    (∀ t h b, f_conf F !! t = Some (h, b) → h <= max_i32) →
    range_transactions U s (-1) 0 = range_unmined U s ++ reverse (range_blocks U s 0 (-1)) ∧
    group_txids (range_transactions U s (-1) 0) ≡ₚ known_list F.
  Proof.
    intros Hmax. rewrite <-range_blocks_backward_reverse. split; [done|].
    change (range_transactions U s (-1) 0) with (range_unmined U s ++ range_blocks U s (-1) 0).
    rewrite group_txids_app. unfold known_list.
    etrans; [apply Permutation_app_comm|]. apply Permutation_app.
    - rewrite range_blocks_txids.
      change (rb_bound 0) with 0. change (rb_bound (-1)) with max_i32.
      rewrite Z.min_comm, Z.max_comm. by rewrite (conf_list_all_in_range Hmax).
    - apply range_unmined_main.
  Qed.
End range.

(** * The statements, closed *)

Lemma range_blocks_groups U s F b e :
  wf_universe U = true → Inv U s F →
  ∃ hl : list Z,
    (if bool_decide (rb_bound b < rb_bound e) then StronglySorted Z.lt hl
     else StronglySorted (flip Z.lt) hl) ∧
    (∀ hh, hh ∈ hl ↔ conf_height F hh ∧
                     Z.min (rb_bound b) (rb_bound e) <= hh <= Z.max (rb_bound b) (rb_bound e)) ∧
    Forall2 (block_group_ok U s F) hl (range_blocks U s b e).
Proof. intros Hwf HI. by apply range_blocks_groups_main. Qed.

Lemma range_blocks_reported_txids U s F b e :
  wf_universe U = true → Inv U s F →
  group_txids (range_blocks U s b e) ≡ₚ
  map fst (filter (λ kv : N * (Z * N),
                     Z.min (rb_bound b) (rb_bound e) <= kv.2.1 <= Z.max (rb_bound b) (rb_bound e))
                  (map_to_list (f_conf F))).
Proof. intros Hwf HI. by eapply range_blocks_txids. Qed.

Lemma range_unmined_group U s F :
  wf_universe U = true → Inv U s F →
  (range_unmined U s = [] ↔ f_unconf F = ∅) ∧
  (f_unconf F ≠ ∅ → ∃ g, range_unmined U s = [g] ∧ unmined_group_ok U s F g).
Proof. intros Hwf HI. destruct (range_unmined_main U s F Hwf HI) as (H1 & H2 & _). done. Qed.

Lemma range_all_forward U s F :
  wf_universe U = true → Inv U s F →
  (∀ t h b, f_conf F !! t = Some (h, b) → h <= max_i32) →
  range_transactions U s 0 (-1) = range_blocks U s 0 (-1) ++ range_unmined U s ∧
  group_txids (range_transactions U s 0 (-1)) ≡ₚ known_list F.
Proof. intros Hwf HI. by apply range_all_forward_main. Qed.

Lemma range_all_backward U s F :
  wf_universe U = true → Inv U s F →
  (∀ t h b, f_conf F !! t = Some (h, b) → h <= max_i32) →
  range_transactions U s (-1) 0 = range_unmined U s ++ reverse (range_blocks U s 0 (-1)) ∧
  range_blocks U s (-1) 0 = reverse (range_blocks U s 0 (-1)) ∧
  group_txids (range_transactions U s (-1) 0) ≡ₚ known_list F.
Proof.
  intros Hwf HI Hmax. destruct (range_all_backward_main U s F Hwf HI Hmax) as [H1 H2].
  split_and!; [done| |done]. apply range_blocks_backward_reverse.
Qed.

Definition range_statement : Prop :=
  ∀ (U : gmap N tx) (s : store) (F : facts),
    wf_universe U = true → Inv U s F →
    (* (1) block groups of any range [b, e] (with the -1 = max_i32 convention) *)
    (∀ b e, ∃ hl : list Z,
        (if bool_decide (rb_bound b < rb_bound e) then StronglySorted Z.lt hl
         else StronglySorted (flip Z.lt) hl) ∧
        (∀ hh, hh ∈ hl ↔ conf_height F hh ∧
                         Z.min (rb_bound b) (rb_bound e) <= hh <= Z.max (rb_bound b) (rb_bound e)) ∧
        Forall2 (block_group_ok U s F) hl (range_blocks U s b e)) ∧
    (∀ b e, group_txids (range_blocks U s b e) ≡ₚ
            map fst (filter (λ kv : N * (Z * N),
                               Z.min (rb_bound b) (rb_bound e) <= kv.2.1 <= Z.max (rb_bound b) (rb_bound e))
                            (map_to_list (f_conf F)))) ∧
    (* (2) the unmined group *)
    (range_unmined U s = [] ↔ f_unconf F = ∅) ∧
    (f_unconf F ≠ ∅ → ∃ g, range_unmined U s = [g] ∧ unmined_group_ok U s F g) ∧
    (* (3) everything, forward and backward (confirmed heights fit in int32) *)
    ((∀ t h b, f_conf F !! t = Some (h, b) → h <= max_i32) →
     range_transactions U s 0 (-1) = range_blocks U s 0 (-1) ++ range_unmined U s ∧
     group_txids (range_transactions U s 0 (-1)) ≡ₚ known_list F ∧
     range_transactions U s (-1) 0 = range_unmined U s ++ reverse (range_blocks U s 0 (-1)) ∧
     range_blocks U s (-1) 0 = reverse (range_blocks U s 0 (-1)) ∧
     group_txids (range_transactions U s (-1) 0) ≡ₚ known_list F).

Lemma range_correct : range_statement.
Proof.
  intros U s F Hwf HI. split_and!.
  - intros b e. by apply range_blocks_groups.
  - intros b e. by apply range_blocks_reported_txids.
  - by apply (range_unmined_group U s F).
  - by apply (range_unmined_group U s F).
  - intros Hmax.
    destruct (range_all_forward U s F Hwf HI Hmax) as [H1 H2].
    destruct (range_all_backward U s F Hwf HI Hmax) as (H3 & H4 & H5). done.
Qed.

(** * ListLockedOutputs and OutputsToWatch *)

Lemma locked_list_eq U s F now :
  Inv U s F →
  list_locked s now = filter (λ kv : (N * N) * lockval, now < l_expiry kv.2) (map_to_list (f_leases F)).
Proof. intros HI. unfold list_locked. by rewrite (inv_locked U s F HI). Qed.

Lemma locked_list_correct U s F now :
  Inv U s F →
  list_locked s now ≡ₚ filter (λ kv : (N * N) * lockval, now < l_expiry kv.2) (map_to_list (f_leases F)).
Proof. intros HI. by rewrite (locked_list_eq U s F now HI). Qed.

(** every credited output of a known transaction that the wallet still
    knows (no confirmed spender) *)
Definition spec_watch (U : gmap N tx) (F : facts) : list (N * N) :=
  omap (λ x : tx * N * bool,
          if known_output U F (t_id x.1.1, x.1.2) then Some (t_id x.1.1, x.1.2) else None)
       (credited_outputs U F).

Lemma map_omap_total {A B C} (f : A → option B) (g : B → C) (h : A → C) (l : list A) :
  (∀ x, x ∈ l → ∃ y, f x = Some y ∧ g y = h x) → map g (omap f l) = map h l.
Proof.
  induction l as [|x l IH]; intros Hall; [done|].
  rewrite omap_cons'. destruct (Hall x) as (y & Hy & Hg); [left|]. rewrite Hy. simpl.
  rewrite Hg. f_equal. apply IH. intros z Hz. apply Hall. by right.
Qed.

Lemma watch_keys U s F now :
  wf_universe U = true → Inv U s F →
  map u_op (outputs_to_watch U s now) =
  map fst (map_to_list (unspent s)) ++ map fst (map_to_list (unmined_credits s)).
Proof.
  intros Hwf HI. unfold outputs_to_watch, fetch_credits. rewrite map_app. f_equal.
  - apply map_omap_total. intros [op [h bh]] Hin. apply elem_of_map_to_list in Hin.
    apply (inv_unspent U s F HI) in Hin as (Hc & _).
    destruct (known_in_universe U s F Hwf HI op.1) as (x & Hx & _); [left; by eexists|].
    simpl. rewrite Hx. by eexists.
  - apply map_omap_total. intros [op [a c]] Hin. apply elem_of_map_to_list in Hin.
    apply (inv_unmined_credits U s F HI) in Hin as (Hu & _).
    destruct (known_in_universe U s F Hwf HI op.1) as (x & Hx & _); [by right|].
    destruct (proj2 (inv_unmined U s F HI op.1) Hu) as [[] Hm].
    simpl. rewrite Hm, Hx. by eexists.
Qed.

Lemma watch_correct U s F now :
  wf_universe U = true → Inv U s F →
  map u_op (outputs_to_watch U s now) ≡ₚ spec_watch U F.
Proof.
  intros Hwf HI. rewrite (watch_keys U s F now Hwf HI). apply NoDup_Permutation.
  - apply NoDup_app. split_and!.
    + rewrite map_fmap. apply NoDup_fst_map_to_list.
    + intros op H1 H2. rewrite map_fmap in H1. rewrite map_fmap in H2.
      apply elem_of_list_fmap in H1 as ([o1 [h bh]] & -> & H1).
      apply elem_of_list_fmap in H2 as ([o2 [a c]] & Heq & H2). simpl in Heq. subst o2.
      apply elem_of_map_to_list in H1, H2.
      apply (inv_unspent U s F HI) in H1 as (Hc & _).
      apply (inv_unmined_credits U s F HI) in H2 as (Hu & _).
      by eapply (conf_not_unconf U s F HI).
    + rewrite map_fmap. apply NoDup_fst_map_to_list.
  - unfold spec_watch. apply NoDup_omap; [by eapply NoDup_credited_outputs|].
    intros [[t1 i1] c1] [[t2 i2] c2] y H1 H2 Hf1 Hf2. simpl in Hf1, Hf2.
    destruct (known_output U F (t_id t1, i1)); [|done].
    destruct (known_output U F (t_id t2, i2)); [|done].
    injection Hf1 as <-. injection Hf2 as Hid ->.
    apply (elem_of_credited_outputs U F Hwf) in H1 as (_ & Ht1 & Hc1).
    apply (elem_of_credited_outputs U F Hwf) in H2 as (_ & Ht2 & Hc2).
    rewrite Hid, Ht1 in Ht2. injection Ht2 as <-.
    pose proof (wt_creds_nodup _ _ (wf_universe_lookup _ _ _ Hwf Ht1)) as Hnd.
    by rewrite (NoDup_fst_unique _ _ _ _ Hnd Hc1 Hc2).
  - intros op.
    transitivity (is_known_output s op = true).
    { unfold is_known_output. rewrite orb_true_iff, !bool_decide_eq_true, elem_of_app, !map_fmap,
        !elem_of_list_fmap. split.
      - intros [([o v] & -> & Hin)|([o v] & -> & Hin)]; apply elem_of_map_to_list in Hin;
          [right|left]; by eexists.
      - intros [[v Hv]|[v Hv]]; [right|left]; exists (op, v); (split; [done|]);
          by apply elem_of_map_to_list. }
    rewrite (is_known_output_spec U s F op HI). unfold spec_watch. rewrite elem_of_list_omap. split.
    + intros Hk. pose proof Hk as Hk'. unfold known_output in Hk'.
      rewrite !andb_true_iff in Hk'. destruct Hk' as [[Hkn Hcr] _].
      apply known_true in Hkn. apply credited_true in Hcr as [chg Hcr].
      destruct (known_in_universe U s F Hwf HI op.1 Hkn) as (x & Hx & Hwx).
      pose proof (wt_id _ _ Hwx) as Hid.
      unfold is_credited in Hcr. rewrite (creds_of_lookup U _ _ Hx) in Hcr.
      exists (x, op.2, chg). simpl. rewrite Hid. split.
      * apply (elem_of_credited_outputs U F Hwf). rewrite Hid. done.
      * destruct op as [o1 o2]. simpl in *. by rewrite Hk.
    + intros ([[t i] c] & _ & Hf). simpl in Hf.
      destruct (known_output U F (t_id t, i)) eqn:Hk; [|done]. by injection Hf as <-.
Qed.
