(** Executable comparison for the correspondence check of C20: wallet-level
    histories (chain notifications, leases, PublishTransaction / SendOutputs
    with a scripted backend answer and subscription outcome, re-broadcasts
    with per-transaction answers, restarts) are run on
      - the model [Tx/Publish.v] instantiated with the facts regenerated from
        the current source ([code_cfg], Tx/PublishCode.v), and
      - the specification ([spec_publish_text], [spec_resend_text]: the
        property's text as a function of the ledger
        facts and of what the backend MEANT - the truth of the answer, stated
        by the harness independently of btcwallet's error mapping; where the
        text leaves a choice, "already known / confirmed", the choice of the
        code is taken as long as it is one the text admits),
    and both are compared with what the real wallet reported after every
    event (balances, spendable set, unconfirmed set, result class).  For a
    re-broadcast the observed sequence of SendRawTransaction calls must pass
    [Kahn.admissible] for the unconfirmed set before it - which is exactly
    "every unconfirmed transaction once, parents first" (C14) and exactly the
    set of sequences the model's [resend] can produce; the model's loop is
    then run on that sequence.

    The answer of the model is the error's relation to the sentinels of
    package chain ([ASentinel name]: errors.Is(err, chain.name)), as the
    harness observed it AFTER the real MapRPCErr when the scripted answer was
    a node's raw reply.

    Mapping cases ([mcase]): the real MapRPCErr of a backend flavour was run
    on a text; the class of the sentinel it produced must be a class the model
    of MapRPCErr ([map_candidates] over the regenerated tables) allows (only
    the class is compared - it is all the theorems depend on), and it must be
    compatible with the truth: a rejection stays a rejection, "in my mempool"
    stays "in my mempool". *)
From stdpp Require Import gmap list numbers sorting strings.
From Coq Require Import ZArith NArith Strings.String.
From Verif Require Import Tx.Store Tx.Ledger Tx.Hist Tx.StoreCorr Tx.Publish Tx.PublishCode.
From Verif Require Tx.Kahn.
Local Open Scope Z_scope.

Inductive wevent :=
| WStore (e : event)                              (* notification handler / LeaseOutput *)
| WPublish (t : txid) (a truth : answer) (ok : bool)    (* PublishTransaction, SendOutputs *)
| WResend (offered : list txid) (answers truths : list answer)  (* observed order, scripted answers *)
| WNop.                                           (* restart; a send that failed before recording *)

Record wobs := {
  wo_res : N;                  (* 0 not applicable, 1 success, 2 error *)
  wo_sync : Z;                 (* the wallet's synced-to height *)
  wo_bal : list Z;             (* CalculateBalance for each entry of [wc_minconfs] *)
  wo_utxos : list utxo;        (* TxStore.UnspentOutputs, sorted by outpoint *)
  wo_unmined : list txid;      (* TxStore.UnminedTxHashes, sorted *)
}.

Record wcase := {
  wc_universe : list tx;
  wc_minconfs : list Z;
  wc_events : list (wevent * wobs);
}.

Definition res_code (r : presult) : N :=
  match r with PSuccess => 1%N | PError => 2%N | PFuel => 3%N end.

Section obs.
  Context (U : universe) (c : wcase).

  Definition wm_bal (m : mstate) (sync : Z) : list Z :=
    map (fun mc => balance U (st m) mc sync (clock m)) (wc_minconfs c).
  Definition ws_bal (sm : sstate) (sync : Z) : list Z :=
    map (fun mc => spec_balance U (fs sm) mc sync (sclock sm)) (wc_minconfs c).

  (** codes: 1x/3x implementation differs from the MODEL; 1xx implementation
      differs from the SPECIFICATION (property violated); 9xx inadmissible case *)
  Definition check_obs (m : mstate) (sm : sstate) (io : wobs) : list nat :=
    let sync := wo_sync io in
    first_fail
      [ (bool_decide (s_tip sm <= sync), 900%nat);
        (eqb_on (wm_bal m sync) (wo_bal io), 13%nat);
        (eqb_on (m_utxos U m) (wo_utxos io), 14%nat);
        (eqb_on (m_unmined m) (wo_unmined io), 16%nat);
        (eqb_on (ws_bal sm sync) (wo_bal io), 113%nat);
        (eqb_on (s_utxos U sm) (wo_utxos io), 114%nat);
        (eqb_on (s_unmined sm) (wo_unmined io), 116%nat) ].

  (** one event on model and specification; extra failure codes of the event *)
  Definition wstep (m : mstate) (sm : sstate) (e : wevent) (io : wobs) : mstate * sstate * list nat :=
    match e with
    | WStore ev =>
      let ok := event_ok U (fs sm) ev in
      let '(m', o) := step U m ev in
      (m', spec_step U sm ev,
       (if ok then [] else [901%nat]) ++ (match o with OFuel => [902%nat] | _ => [] end))
    | WPublish t a truth nok =>
      let ok := event_ok U (fs sm) (Seen t) in
      let '(r, s') := publish code_cfg U t a nok (st m) in
      ({| st := s'; clock := clock m |},
       {| fs := spec_publish_text code_cfg U (fs sm) t a truth nok; sclock := sclock sm |},
       (if ok then [] else [901%nat]) ++ (match r with PFuel => [902%nat] | _ => [] end)
       ++ first_fail [ (eqb_on (res_code r) (wo_res io), 30%nat);
                       (eqb_on (res_code (text_result code_cfg a truth nok)) (wo_res io), 130%nat) ])
    | WResend offered answers truths =>
      let adm := Kahn.admissible (unmined_set U (st m)) offered in
      let '(rs, s') := resend_list code_cfg U offered answers (st m) in
      ({| st := s'; clock := clock m |},
       {| fs := spec_resend_text code_cfg U offered answers truths (fs sm); sclock := sclock sm |},
       (if existsb (fun r => bool_decide (r = PFuel)) rs then [902%nat] else [])
       ++ first_fail [ (adm, 131%nat) ])
    | WNop => (m, sm, [])
    end.
End obs.

Fixpoint check_wevents (U : universe) (c : wcase) (i : nat) (m : mstate) (sm : sstate)
         (l : list (wevent * wobs)) : list (nat * nat) :=
  match l with
  | [] => []
  | (e, io) :: l' =>
    let '(m', sm', extra) := wstep U m sm e io in
    map (fun code => (i, code)) (extra ++ check_obs U c m' sm' io)
    ++ check_wevents U c (S i) m' sm' l'
  end.

Definition check_wcase (c : wcase) : list (nat * nat) :=
  let U := universe_of (wc_universe c) in
  (if wf_universe U && bool_decide (size U = List.length (wc_universe c)) then [] else [(0%nat, 905%nat)])
  ++ check_wevents U c 0 init_state {| fs := empty_facts; sclock := 0 |} (wc_events c).

Fixpoint wfailures_from (i : nat) (l : list wcase) : list (nat * nat * nat) :=
  match l with
  | [] => []
  | c :: l' => map (fun '(e, code) => (i, e, code)) (check_wcase c) ++ wfailures_from (S i) l'
  end.

(** (case index, event index, code) of every disagreement *)
Definition wfailures := wfailures_from 0.

(** * The error mapping *)
Record mrow := {
  mr_backend : backend;
  mr_text : string;              (* err.Error() of what the node's reply became in rpcclient *)
  mr_mapped : string;            (* the sentinel the result of the real MapRPCErr Is ("" = none) *)
  mr_truth : option answer;      (* what the node means (class), when the harness knows *)
}.

Definition class_eqb (a b : answer) : bool := answer_eqb (class_of a) (class_of b).

(** codes: 40 the class of the mapped sentinel is not one the model of
    MapRPCErr allows for this text; 140 a rejection came out as an "I have it"
    class; 141 "in my mempool" came out as another class *)
Definition check_mrow (r : mrow) : list nat :=
  let cands := map_candidates code_tables (mr_backend r) (mr_text r) in
  let got := ASentinel (mr_mapped r) in
  first_fail
    [ (existsb (fun c => class_eqb (ASentinel c) got) cands, 40%nat);
      (match mr_truth r with
       | Some t => negb (is_rejection t) || is_rejection got
       | None => true
       end, 140%nat);
      (match mr_truth r with
       | Some t => negb (class_eqb t AInMempool) || class_eqb got AInMempool
       | None => true
       end, 141%nat) ].

Fixpoint check_mrows (i : nat) (l : list mrow) : list (nat * nat) :=
  match l with
  | [] => []
  | r :: l' => map (fun code => (i, code)) (check_mrow r) ++ check_mrows (S i) l'
  end.

Fixpoint mfailures_from (i : nat) (l : list (list mrow)) : list (nat * nat * nat) :=
  match l with
  | [] => []
  | c :: l' => map (fun '(e, code) => (i, e, code)) (check_mrows 0 c) ++ mfailures_from (S i) l'
  end.

(** (case index, row index, code) of every disagreement *)
Definition mfailures := mfailures_from 0.
