(** Proofs about the broadcast path (model: Tx/Publish.v), on top of the closed
    refinement lemmas of the transaction store:
      [step_preserves_seen] (InvSeen.v), [remove_conflict_ok] and the algebra
      of [remove_unconf_with_descendants] (InvRemove.v), [balance_correct],
      [utxos_correct], [details_correct] (InvObs.v), and C14's
      [dependency_sort_correct] (KahnProofs.v). *)
From stdpp Require Import gmap list numbers sorting.
From Coq Require Import ZArith NArith.
From Verif Require Import Tx.Store Tx.Ledger Tx.Hist Tx.Inv Tx.InvRemove Tx.InvSeen Tx.InvObs Tx.Refine.
From Verif Require Import Tx.Publish.
From Verif Require Tx.Kahn Tx.KahnProofs.
Local Open Scope Z_scope.
Local Open Scope stdpp_scope.

(** * 1. [RemoveUnminedTx] on a transaction that is NOT in the unconfirmed store

    [publishTransaction] calls RemoveUnminedTx whatever the state of the
    transaction: on a confirmed one (PublishTransaction of a mined
    transaction answered "already confirmed"), or on one that the same
    resend loop removed a moment ago together with its rejected parent.
    [remove_conflict_ok] covers [t ∈ f_unconf F]; this section covers the
    rest: the unconfirmed spenders of [t]'s outputs (and their descendants)
    are removed, nothing else changes - which is again
    [remove_unconf_with_descendants U F [t]]. *)
Section absent.
  Context (U : gmap N tx) (Hwf : wf_universe U = true).
  Local Notation rm := (remove_unconf_with_descendants U).

  Lemma remove_conflict_PInv_fuel (fuel : nat) (s : store) (F : facts) (C : gset (N * N)) (t : N) :
    (above U t < fuel)%nat → A_in_U U (f_unconf F) → PInv U s (f_unconf F) C → t ∈ f_unconf F →
    ∃ s', remove_conflict U fuel t s = Some s' ∧
          PInv U s' (f_unconf (rm F [t])) C ∧ same_rest s s'.
  Proof.
    intros Hab HAU HP Ht.
    destruct (rc_spec_all U Hwf fuel t s (f_unconf F) C Hab HAU HP Ht) as (s' & A' & Hrc & HP' & Hsr & HA').
    exists s'. split; [done|]. split; [|done].
    eapply PInv_ext; [|done|exact HP'].
    intros c. by rewrite HA', rm_unconf_elem, depends_on_reach.
  Qed.

  Lemma remove_list_fuel (fuel : nat) : ∀ (l : list N) (s : store) (F : facts) (C : gset (N * N)),
    (∀ sp, sp ∈ l → (above U sp < fuel)%nat) → A_in_U U (f_unconf F) → PInv U s (f_unconf F) C →
    ∃ s', foldl (rc_inner U fuel) (Some s) l = Some s' ∧
          PInv U s' (f_unconf (rm F (filter (λ x, x ∈ f_unconf F) l))) C ∧ same_rest s s'.
  Proof.
    induction l as [|a l IH]; intros s F C Hfuel HAU HP.
    - exists s. split; [done|]. split; [|apply same_rest_refl]. by rewrite filter_nil, rm_nil.
    - cbn [foldl]. unfold rc_inner at 2. rewrite filter_cons.
      assert (Hfuel' : ∀ sp, sp ∈ l → (above U sp < fuel)%nat).
      { intros sp Hsp. apply Hfuel. by right. }
      destruct (unmined s !! a) as [[]|] eqn:Hm.
      + assert (Ha : a ∈ f_unconf F). { apply (pi_unmined U s _ C HP). by rewrite Hm. }
        destruct (remove_conflict_PInv_fuel fuel s F C a) as (s1 & Hrc & HP1 & Hsr1); [|done|done|done|].
        { apply Hfuel. by left. }
        rewrite Hrc.
        destruct (IH s1 (rm F [a]) C) as (s' & Hfold & HP' & Hsr'); [done| |done|].
        { by apply A_in_U_rm. }
        exists s'. split; [done|]. rewrite decide_True by done.
        rewrite rm_cons_filter in HP'. split; [done|]. by eapply same_rest_trans.
      + assert (Ha : a ∉ f_unconf F).
        { intros Hin. apply (pi_unmined U s _ C HP) in Hin. rewrite Hm in Hin. by destruct Hin. }
        rewrite decide_False by done. by apply IH.
  Qed.

  (** the spender list of an outpoint, read from [unmined_inputs] *)
  Lemma spender_list_spec (s : store) (A : gset N) (C : gset (N * N)) (op : N * N) (u : N) :
    PInv U s A C →
    u ∈ default [] (unmined_inputs s !! op) ↔ u ∈ A ∧ op ∈ tx_ins U u.
  Proof.
    intros HP. destruct (pi_mi U s A C HP) as [Hs Hc].
    destruct (unmined_inputs s !! op) as [l0|] eqn:Hl0; simpl.
    - destruct (Hs op l0 Hl0) as (_ & _ & Hel). by rewrite Hel.
    - rewrite elem_of_nil. split; [done|]. intros Hu.
      destruct (Hc op u Hu) as [? Hsome]. rewrite Hl0 in Hsome. done.
  Qed.

  (** the loop over the outputs of an absent transaction [h] *)
  Lemma absent_outer (h : N) (t : tx) : U !! h = Some t →
    ∀ (idx : list N) (s : store) (F : facts) (C : gset (N * N)),
      A_in_U U (f_unconf F) → PInv U s (f_unconf F) C →
      ∃ s' R, foldl (rc_step_out U (size U) h) (Some s) idx = Some s' ∧
              PInv U s' (f_unconf (rm F R)) (C ∪ list_to_set ((λ i, (h, i)) <$> idx)) ∧
              same_rest s s' ∧
              (∀ r, r ∈ R → r ∈ f_unconf F ∧ spends_output_of U r h = true) ∧
              (∀ i u, i ∈ idx → ¬ unconf_spender U (rm F R) (h, i) u).
  Proof.
    intros Ht. induction idx as [|i idx IH]; intros s F C HAU HP.
    - exists s, []. split; [done|]. rewrite rm_nil. split.
      { eapply PInv_ext; [done| |exact HP]. intros op. set_solver. }
      split; [apply same_rest_refl|]. split.
      + intros r Hr. by apply elem_of_nil in Hr.
      + intros i u Hi. by apply elem_of_nil in Hi.
    - cbn [foldl]. unfold rc_step_out at 2.
      set (l := default [] (unmined_inputs s !! (h, i))).
      assert (Hl : ∀ u, u ∈ l ↔ u ∈ f_unconf F ∧ (h, i) ∈ tx_ins U u).
      { intros u. by apply (spender_list_spec s _ C). }
      assert (Hsp : ∀ u, u ∈ l → spends_output_of U u h = true).
      { intros u [_ Hin]%Hl. apply spends_output_of_iff. by exists (h, i). }
      destruct (remove_list_fuel (size U) l s F C) as (s1 & Hf1 & HP1 & Hsr1); [|done|done|].
      { intros sp Hin. apply Hsp in Hin. apply (spends_rank U Hwf) in Hin.
        pose proof (above_lt U h sp ltac:(by rewrite Ht) Hin).
        pose proof (above_le_size U h). lia. }
      rewrite Hf1.
      set (R1 := filter (λ x, x ∈ f_unconf F) l) in *.
      pose proof (PInv_delete_credit U s1 _ C (h, i) HP1) as HP2.
      destruct (IH (set_unmined_credits (delete (h, i)) s1) (rm F R1) (C ∪ {[(h, i)]}))
        as (s' & R' & Hf' & HP' & Hsr' & HR' & Hno'); [by apply A_in_U_rm|done|].
      exists s', (R1 ++ R'). split; [done|].
      rewrite rm_rm in HP', Hno'. split.
      { eapply PInv_ext; [done| |exact HP']. intros op. rewrite fmap_cons, list_to_set_cons. set_solver. }
      split.
      { eapply same_rest_trans; [exact Hsr1|].
        eapply same_rest_trans; [apply same_rest_set_unmined_credits|exact Hsr']. }
      split.
      + intros r [Hr|Hr]%elem_of_app.
        * apply elem_of_list_filter in Hr as [HrF Hrl]. split; [done|]. by apply Hsp.
        * destruct (HR' r Hr) as [HrF Hrs]. split; [|done]. by apply (rm_unconf_subseteq U F R1).
      + intros i' u [->|Hi']%elem_of_cons.
        * intros [Hu Hin]. pose proof (rm_unconf_subseteq U F _ _ Hu) as HuF.
          apply (rm_roots_gone U F (R1 ++ R') u); [|done].
          apply elem_of_app. left. apply elem_of_list_filter. split; [done|]. by apply Hl.
        * by apply Hno'.
  Qed.

  Lemma remove_conflict_absent (s : store) (F : facts) (h : N) (t : tx) :
    Inv U s F → U !! h = Some t → h ∉ f_unconf F →
    ∃ s', remove_conflict U (fuel_of U) h s = Some s' ∧ Inv U s' (rm F [h]).
  Proof.
    intros HI Ht Hh.
    pose proof (A_in_U_of_Inv U s F HI) as HAU.
    unfold fuel_of. rewrite remove_conflict_unfold, Ht.
    destruct (absent_outer h t Ht (indices (t_outs t)) s F ∅ HAU (PInv_of_Inv U s F HI))
      as (s4 & R & Hf & HP4 & Hsr4 & HR & Hno).
    rewrite Hf. eexists. split; [done|].
    (* the facts: removing the spenders of the outputs = removing [h] *)
    assert (Heq : rm F R = rm F [h]).
    { apply rm_ext_unconf. intros c Hc. split.
      - apply depends_on_trans. intros r Hr. destruct (HR r Hr) as [HrF Hrs].
        eapply dep_step; [|exact HrF|exact Hrs]. apply dep_root. by left.
      - intros Hd.
        assert (Hgen : ∀ c, depends_on U F [h] c → c = h ∨ depends_on U F R c).
        { clear c Hc Hd. induction 1 as [r Hr|p c Hp IHp Hc Hsp].
          - left. by apply elem_of_list_singleton in Hr.
          - right. destruct IHp as [->|Hp']; [|by eapply dep_step].
            destruct (depends_on_dec U F R c) as [Hd|Hd]; [done|exfalso].
            apply spends_output_of_iff in Hsp as ([x i] & Hop & Hx). simpl in Hx. subst x.
            destruct (HAU c Hc) as [tc Htc].
            assert (Hi : i ∈ indices (t_outs t)).
            { apply InvRemove.elem_of_indices.
              rewrite (tx_ins_lookup U c tc Htc) in Hop.
              exact (ins_in_range_of_wf U Hwf c tc (h, i) t Htc Hop Ht). }
            apply (Hno i c Hi). split; [|done]. by apply rm_unconf_elem. }
        destruct (Hgen c Hd) as [->|]; [done|done]. }
    rewrite <- Heq.
    assert (HhA : h ∉ f_unconf (rm F R)).
    { intros Hin. by apply Hh, (rm_unconf_subseteq U F R). }
    apply (Inv_rm U s); [done| |].
    - eapply same_rest_trans; [exact Hsr4|].
      eapply same_rest_trans; [apply (foldl_delete_unmined_input_same_rest (t_ins t) h)|].
      apply same_rest_set_unmined.
    - destruct HP4 as [H1 H2 H3]. split.
      + intros x. simpl. rewrite foldl_delete_unmined_input_unmined, lookup_delete_is_Some, H1.
        split; [by intros [_ ?]|]. intros Hx. split; [|done]. by intros ->.
      + intros op a chg. simpl. rewrite foldl_delete_unmined_input_unmined_credits, H2.
        split.
        * intros (HopA & Hcred & Ha & _). split; [done|]. split; [done|]. split; [done|]. set_solver.
        * intros (HopA & Hcred & Ha & _). split; [done|]. split; [done|]. split; [done|].
          apply not_elem_of_union. split; [set_solver|].
          intros Hin. apply elem_of_list_to_set, elem_of_list_fmap in Hin as (i & -> & _).
          by apply HhA.
      + eapply MIinv_same_mi; [|eapply MIinv_ext; [|apply (MIinv_delete_list (t_ins t) h), H3]].
        { done. }
        intros op u. simpl. split; [by intros [? _]|].
        intros [Hu Hop]. split; [done|]. intros [_ ->]. by apply HhA.
  Qed.
End absent.

(** [RemoveUnminedTx] of any universe transaction refines [spec_abandon]. *)
Lemma remove_unmined_tx_ok U s F t :
  wf_universe U = true → Inv U s F → is_Some (U !! t) →
  ∃ s', remove_unmined_tx U t s = Some s' ∧ Inv U s' (spec_abandon U F t).
Proof.
  intros Hwf HI [x Hx]. unfold remove_unmined_tx, spec_abandon.
  destruct (decide (t ∈ f_unconf F)) as [Hin|Hin].
  - by apply remove_conflict_ok.
  - by eapply remove_conflict_absent.
Qed.
