(** Proofs about the broadcast path (model: Tx/Publish.v), on top of the closed
    refinement lemmas of the transaction store:
      [step_preserves_seen] (InvSeen.v), [remove_conflict_ok] and the algebra
      of [remove_unconf_with_descendants] (InvRemove.v), [balance_correct],
      [utxos_correct], [details_correct] (InvObs.v), and C14's
      [dependency_sort_correct] (KahnProofs.v). *)
From stdpp Require Import gmap list numbers sorting strings.
From Coq Require Import ZArith NArith Strings.String.
From Verif Require Import Tx.Store Tx.Ledger Tx.Hist Tx.Inv Tx.InvRemove Tx.InvSeen Tx.InvObs Tx.Refine.
From Verif Require Import Tx.Publish.
From Verif Require Tx.Kahn Tx.KahnProofs.
Local Open Scope Z_scope.
Local Open Scope stdpp_scope.

(** * 1. [RemoveUnminedTx] on a transaction that is NOT in the unconfirmed store

    [publishTransaction] calls RemoveUnminedTx whatever the state of the
    transaction: on a confirmed one (PublishTransaction of a mined
    transaction answered "already confirmed"), or on one that the same
    resend loop removed a moment ago together with its rejected parent.
    [remove_conflict_ok] covers [t ∈ f_unconf F]; this section covers the
    rest: the unconfirmed spenders of [t]'s outputs (and their descendants)
    are removed, nothing else changes - which is again
    [remove_unconf_with_descendants U F [t]]. *)
Section absent.
  Context (U : gmap N tx) (Hwf : wf_universe U = true).
  Local Notation rm := (remove_unconf_with_descendants U).

  Lemma remove_conflict_PInv_fuel (fuel : nat) (s : store) (F : facts) (C : gset (N * N)) (t : N) :
    (above U t < fuel)%nat → A_in_U U (f_unconf F) → PInv U s (f_unconf F) C → t ∈ f_unconf F →
    ∃ s', remove_conflict U fuel t s = Some s' ∧
          PInv U s' (f_unconf (rm F [t])) C ∧ same_rest s s'.
  Proof.
    intros Hab HAU HP Ht.
    destruct (rc_spec_all U Hwf fuel t s (f_unconf F) C Hab HAU HP Ht) as (s' & A' & Hrc & HP' & Hsr & HA').
    exists s'. split; [done|]. split; [|done].
    eapply PInv_ext; [|done|exact HP'].
    intros c. by rewrite HA', rm_unconf_elem, depends_on_reach.
  Qed.

  Lemma remove_list_fuel (fuel : nat) : ∀ (l : list N) (s : store) (F : facts) (C : gset (N * N)),
    (∀ sp, sp ∈ l → (above U sp < fuel)%nat) → A_in_U U (f_unconf F) → PInv U s (f_unconf F) C →
    ∃ s', foldl (rc_inner U fuel) (Some s) l = Some s' ∧
          PInv U s' (f_unconf (rm F (filter (λ x, x ∈ f_unconf F) l))) C ∧ same_rest s s'.
  Proof.
    induction l as [|a l IH]; intros s F C Hfuel HAU HP.
    - exists s. split; [done|]. split; [|apply same_rest_refl]. by rewrite filter_nil, rm_nil.
    - cbn [foldl]. unfold rc_inner at 2. rewrite filter_cons.
      assert (Hfuel' : ∀ sp, sp ∈ l → (above U sp < fuel)%nat).
      { intros sp Hsp. apply Hfuel. by right. }
      destruct (unmined s !! a) as [[]|] eqn:Hm.
      + assert (Ha : a ∈ f_unconf F). { apply (pi_unmined U s _ C HP). by rewrite Hm. }
        destruct (remove_conflict_PInv_fuel fuel s F C a) as (s1 & Hrc & HP1 & Hsr1); [|done|done|done|].
        { apply Hfuel. by left. }
        rewrite Hrc.
        destruct (IH s1 (rm F [a]) C) as (s' & Hfold & HP' & Hsr'); [done| |done|].
        { by apply A_in_U_rm. }
        exists s'. split; [done|]. rewrite decide_True by done.
        rewrite rm_cons_filter in HP'. split; [done|]. by eapply same_rest_trans.
      + assert (Ha : a ∉ f_unconf F).
        { intros Hin. apply (pi_unmined U s _ C HP) in Hin. rewrite Hm in Hin. by destruct Hin. }
        rewrite decide_False by done. by apply IH.
  Qed.

  (** the spender list of an outpoint, read from [unmined_inputs] *)
  Lemma spender_list_spec (s : store) (A : gset N) (C : gset (N * N)) (op : N * N) (u : N) :
    PInv U s A C →
    u ∈ default [] (unmined_inputs s !! op) ↔ u ∈ A ∧ op ∈ tx_ins U u.
  Proof.
    intros HP. destruct (pi_mi U s A C HP) as [Hs Hc].
    destruct (unmined_inputs s !! op) as [l0|] eqn:Hl0; simpl.
    - destruct (Hs op l0 Hl0) as (_ & _ & Hel). by rewrite Hel.
    - rewrite elem_of_nil. split; [done|]. intros Hu.
      destruct (Hc op u Hu) as [? Hsome]. rewrite Hl0 in Hsome. done.
  Qed.

  (** the loop over the outputs of an absent transaction [h] *)
  Lemma absent_outer (h : N) (t : tx) : U !! h = Some t →
    ∀ (idx : list N) (s : store) (F : facts) (C : gset (N * N)),
      A_in_U U (f_unconf F) → PInv U s (f_unconf F) C →
      ∃ s' R, foldl (rc_step_out U (size U) h) (Some s) idx = Some s' ∧
              PInv U s' (f_unconf (rm F R)) (C ∪ list_to_set ((λ i, (h, i)) <$> idx)) ∧
              same_rest s s' ∧
              (∀ r, r ∈ R → r ∈ f_unconf F ∧ spends_output_of U r h = true) ∧
              (∀ i u, i ∈ idx → ¬ unconf_spender U (rm F R) (h, i) u).
  Proof.
    intros Ht. induction idx as [|i idx IH]; intros s F C HAU HP.
    - exists s, []. split; [done|]. rewrite rm_nil. split.
      { eapply PInv_ext; [done| |exact HP]. intros op. set_solver. }
      split; [apply same_rest_refl|]. split.
      + intros r Hr. by apply elem_of_nil in Hr.
      + intros i u Hi. by apply elem_of_nil in Hi.
    - cbn [foldl]. unfold rc_step_out at 2.
      set (l := default [] (unmined_inputs s !! (h, i))).
      assert (Hl : ∀ u, u ∈ l ↔ u ∈ f_unconf F ∧ (h, i) ∈ tx_ins U u).
      { intros u. by apply (spender_list_spec s _ C). }
      assert (Hsp : ∀ u, u ∈ l → spends_output_of U u h = true).
      { intros u [_ Hin]%Hl. apply spends_output_of_iff. by exists (h, i). }
      destruct (remove_list_fuel (size U) l s F C) as (s1 & Hf1 & HP1 & Hsr1); [|done|done|].
      { intros sp Hin. apply Hsp in Hin. apply (spends_rank U Hwf) in Hin.
        pose proof (above_lt U h sp ltac:(by rewrite Ht) Hin).
        pose proof (above_le_size U h). lia. }
      rewrite Hf1.
      set (R1 := filter (λ x, x ∈ f_unconf F) l) in *.
      pose proof (PInv_delete_credit U s1 _ C (h, i) HP1) as HP2.
      destruct (IH (set_unmined_credits (delete (h, i)) s1) (rm F R1) (C ∪ {[(h, i)]}))
        as (s' & R' & Hf' & HP' & Hsr' & HR' & Hno'); [by apply A_in_U_rm|done|].
      exists s', (R1 ++ R'). split; [done|].
      rewrite rm_rm in HP', Hno'. split.
      { eapply PInv_ext; [done| |exact HP']. intros op. rewrite fmap_cons, list_to_set_cons, !elem_of_union. tauto. }
      split.
      { eapply same_rest_trans; [exact Hsr1|].
        eapply same_rest_trans; [apply same_rest_set_unmined_credits|exact Hsr']. }
      split.
      + intros r [Hr|Hr]%elem_of_app.
        * apply elem_of_list_filter in Hr as [HrF Hrl]. split; [done|]. by apply Hsp.
        * destruct (HR' r Hr) as [HrF Hrs]. split; [|done]. by apply (rm_unconf_subseteq U F R1).
      + intros i' u [->|Hi']%elem_of_cons.
        * intros [Hu Hin]. pose proof (rm_unconf_subseteq U F _ _ Hu) as HuF.
          apply (rm_roots_gone U F (R1 ++ R') u); [|done].
          apply elem_of_app. left. apply elem_of_list_filter. split; [done|]. by apply Hl.
        * by apply Hno'.
  Qed.

  Lemma remove_conflict_absent (s : store) (F : facts) (h : N) (t : tx) :
    Inv U s F → U !! h = Some t → h ∉ f_unconf F →
    ∃ s', remove_conflict U (fuel_of U) h s = Some s' ∧ Inv U s' (rm F [h]).
  Proof.
    intros HI Ht Hh.
    pose proof (A_in_U_of_Inv U s F HI) as HAU.
    unfold fuel_of. rewrite remove_conflict_unfold, Ht.
    destruct (absent_outer h t Ht (indices (t_outs t)) s F ∅ HAU (PInv_of_Inv U s F HI))
      as (s4 & R & Hf & HP4 & Hsr4 & HR & Hno).
    rewrite Hf. eexists. split; [done|].
    (* the facts: removing the spenders of the outputs = removing [h] *)
    assert (Heq : rm F R = rm F [h]).
    { apply rm_ext_unconf. intros c Hc. split.
      - apply depends_on_trans. intros r Hr. destruct (HR r Hr) as [HrF Hrs].
        eapply dep_step; [|exact HrF|exact Hrs]. apply dep_root. by left.
      - intros Hd.
        assert (Hgen : ∀ c, depends_on U F [h] c → c = h ∨ depends_on U F R c).
        { clear c Hc Hd. induction 1 as [r Hr|p c Hp IHp Hc Hsp].
          - left. by apply elem_of_list_singleton in Hr.
          - right. destruct IHp as [->|Hp']; [|by eapply dep_step].
            destruct (depends_on_dec U F R c) as [Hd|Hd]; [done|exfalso].
            apply spends_output_of_iff in Hsp as ([x i] & Hop & Hx). simpl in Hx. subst x.
            destruct (HAU c Hc) as [tc Htc].
            assert (Hi : i ∈ indices (t_outs t)).
            { apply InvRemove.elem_of_indices.
              rewrite (tx_ins_lookup U c tc Htc) in Hop.
              exact (ins_in_range_of_wf U Hwf c tc (h, i) t Htc Hop Ht). }
            apply (Hno i c Hi). split; [|done]. by apply rm_unconf_elem. }
        destruct (Hgen c Hd) as [->|]; [done|done]. }
    rewrite <- Heq.
    assert (HhA : h ∉ f_unconf (rm F R)).
    { intros Hin. by apply Hh, (rm_unconf_subseteq U F R). }
    apply (Inv_rm U s); [done| |].
    - eapply same_rest_trans; [exact Hsr4|].
      eapply same_rest_trans; [apply (foldl_delete_unmined_input_same_rest (t_ins t) h)|].
      apply same_rest_set_unmined.
    - destruct HP4 as [H1 H2 H3]. split.
      + intros x. simpl. rewrite foldl_delete_unmined_input_unmined, lookup_delete_is_Some, H1.
        split; [by intros [_ ?]|]. intros Hx. split; [|done]. by intros ->.
      + intros op a chg. simpl. rewrite foldl_delete_unmined_input_unmined_credits, H2.
        split.
        * intros (HopA & Hcred & Ha & _). split; [done|]. split; [done|]. split; [done|]. set_solver.
        * intros (HopA & Hcred & Ha & _). split; [done|]. split; [done|]. split; [done|].
          apply not_elem_of_union. split; [set_solver|].
          intros Hin. apply elem_of_list_to_set, elem_of_list_fmap in Hin as (i & -> & _).
          by apply HhA.
      + eapply MIinv_same_mi; [|eapply MIinv_ext; [|apply (MIinv_delete_list (t_ins t) h), H3]].
        { done. }
        intros op u. simpl. split; [by intros [? _]|].
        intros [Hu Hop]. split; [done|]. intros [_ ->]. by apply HhA.
  Qed.
End absent.

(** [RemoveUnminedTx] of any universe transaction refines [spec_abandon]. *)
Lemma remove_unmined_tx_ok U s F t :
  wf_universe U = true → Inv U s F → is_Some (U !! t) →
  ∃ s', remove_unmined_tx U t s = Some s' ∧ Inv U s' (spec_abandon U F t).
Proof.
  intros Hwf HI [x Hx]. unfold remove_unmined_tx, spec_abandon.
  destruct (decide (t ∈ f_unconf F)) as [Hin|Hin].
  - by apply remove_conflict_ok.
  - by eapply remove_conflict_absent.
Qed.

(** * 2. One publish attempt refines the specification *)

Notation branch := branch_of (only parsing).

Definition result_of (act : action) : presult := if act_error act then PError else PSuccess.

Section publish.
  Context (U : gmap N tx) (Hwf : wf_universe U = true).
  Local Notation rm := (remove_unconf_with_descendants U).

  Lemma event_ok_seen_lookup (F : facts) (t : N) :
    event_ok U F (Seen t) = true → ∃ x, U !! t = Some x ∧ t_coinbase x = false.
  Proof.
    simpl. destruct (U !! t) as [x|]; [|done]. intros H%andb_true_iff. destruct H as [H _].
    exists x. split; [done|]. by apply negb_true_iff.
  Qed.

  (** [addRelevantTx] with a nil block *)
  Lemma apply_seen_ok (s : store) (F : facts) (t : N) (x : tx) :
    Inv U s F → U !! t = Some x → event_ok U F (Seen t) = true →
    Inv U (apply_seen U x s) (spec_seen U F t).
  Proof.
    intros HI Hx Hok.
    pose proof (step_preserves_seen U t {| st := s; clock := 0 |} {| fs := F; sclock := 0 |}
                  Hwf HI eq_refl Hok) as H.
    cbn [step st clock] in H. rewrite Hx in H. cbn in H. tauto.
  Qed.

  Lemma finish_ok (act : action) (s : store) (F : facts) (t : N) :
    Inv U s F → is_Some (U !! t) →
    ∃ s', finish act U t s = (result_of act, s') ∧ Inv U s' (spec_finish act U F t).
  Proof.
    intros HI Ht. unfold finish, spec_finish, result_of. destruct (act_removes act).
    - destruct (remove_unmined_tx_ok U s F t Hwf HI Ht) as (s' & -> & HI'). by exists s'.
    - by exists s.
  Qed.

  (** every configuration: the store after the attempt satisfies the invariant
      for the facts that this configuration establishes, and the result is the
      one of the branch taken; the fuel never runs out *)
  Lemma publish_ok (cfg : pcfg) (s : store) (F : facts) (t : N) (a : answer) (ok : bool) :
    Inv U s F → event_ok U F (Seen t) = true →
    ∃ s', publish cfg U t a ok s = (result_of (branch cfg a ok), s') ∧
          Inv U s' (spec_publish_cfg cfg U F t a ok).
  Proof.
    intros HI Hok. destruct (event_ok_seen_lookup F t Hok) as (x & Hx & _).
    pose proof (apply_seen_ok s F t x HI Hx Hok) as HI1.
    unfold publish, spec_publish_cfg, branch, publish_tx. rewrite Hx. cbv zeta.
    destruct ok; apply finish_ok; try done; by rewrite Hx.
  Qed.

  (** ** Facts after a failed attempt *)

  (** a fresh transaction that is recorded and removed again leaves the facts
      as they were *)
  Lemma fresh_spec (F : facts) (t : N) :
    fresh U F t = true ↔ known F t = false ∧ ∀ c, c ∈ f_unconf F → spends_output_of U c t = false.
  Proof.
    unfold fresh. rewrite andb_true_iff, negb_true_iff, forallb_forall. split.
    - intros [Hk Hf]. split; [done|]. intros c Hc. apply negb_true_iff, Hf.
      by apply elem_of_list_In, elem_of_elements.
    - intros [Hk Hf]. split; [done|]. intros c Hc%elem_of_list_In%elem_of_elements.
      by apply negb_true_iff, Hf.
  Qed.

  Lemma known_false (F : facts) (t : N) :
    known F t = false ↔ f_conf F !! t = None ∧ t ∉ f_unconf F.
  Proof.
    unfold known. rewrite orb_false_iff, !bool_decide_eq_false. split.
    - intros [H1 H2]. split; [|done]. destruct (f_conf F !! t) eqn:E; [|done]. destruct H1. by eexists.
    - intros [-> H2]. split; [|done]. by intros [? ?].
  Qed.

  Lemma spec_seen_new (F : facts) (t : N) :
    known F t = false →
    spec_seen U F t = {| f_conf := f_conf F; f_unconf := {[t]} ∪ f_unconf F; f_leases := f_leases F |}.
  Proof. unfold spec_seen. by intros ->. Qed.

  Lemma spec_seen_known (F : facts) (t : N) : known F t = true → spec_seen U F t = F.
  Proof. unfold spec_seen. by intros ->. Qed.

  Lemma abandon_fresh (F : facts) (t : N) :
    fresh U F t = true → spec_abandon U (spec_seen U F t) t = F.
  Proof.
    intros [Hk Hf]%fresh_spec. rewrite (spec_seen_new F t Hk). unfold spec_abandon.
    apply known_false in Hk as [Hc Hu].
    set (F1 := {| f_conf := f_conf F; f_unconf := {[t]} ∪ f_unconf F; f_leases := f_leases F |}).
    assert (Hdep : ∀ c, depends_on U F1 [t] c → c = t).
    { induction 1 as [r Hr|p c Hp IHp Hc1 Hsp]; [by apply elem_of_list_singleton in Hr|].
      subst p. simpl in Hc1. apply elem_of_union in Hc1 as [Hc1|Hc1]; [by apply elem_of_singleton in Hc1|].
      rewrite (Hf c Hc1) in Hsp. done. }
    apply facts_eq; [done| |done]. apply leibniz_equiv. intros c.
    rewrite rm_unconf_elem. simpl. rewrite elem_of_union, elem_of_singleton. split.
    - intros [[->|Hc1] Hn]; [|done]. exfalso. apply Hn, dep_root. by left.
    - intros Hc1. split; [by right|]. intros Hd. apply Hdep in Hd as ->. done.
  Qed.

  (** ** Same facts, same observables *)

  Definition same_observables (s s' : store) (F : facts) : Prop :=
    (∀ minconf sync now, 0 <= minconf → (∀ t h b, f_conf F !! t = Some (h, b) → h <= sync) →
       balance U s' minconf sync now = balance U s minconf sync now) ∧
    (∀ now, unspent_outputs U s' now ≡ₚ unspent_outputs U s now) ∧
    unmined_hashes s' ≡ₚ unmined_hashes s.

  Lemma same_facts_same_observables (s s' : store) (F : facts) :
    Inv U s F → Inv U s' F → same_observables s s' F.
  Proof.
    intros HI HI'. split; [|split].
    - intros minconf sync now Hm Hs.
      rewrite (balance_correct U s' F minconf sync now Hwf HI' Hm Hs).
      by rewrite (balance_correct U s F minconf sync now Hwf HI Hm Hs).
    - intros now. rewrite (utxos_correct U s' F now Hwf HI'). symmetry. by apply utxos_correct.
    - rewrite (unmined_hashes_perm U s' F HI'). symmetry. by apply (unmined_hashes_perm U s F).
  Qed.

  (** (a) A failed attempt (a branch that removes and returns the error) on a
      fresh transaction: error, invariant for the SAME facts, hence every
      balance, the spendable set and the unconfirmed set are the pre-attempt
      ones. *)
  Theorem failed_attempt_no_trace (cfg : pcfg) (s : store) (F : facts) (t : N) (a : answer) (ok : bool) :
    branch cfg a ok = drop_err →
    Inv U s F → event_ok U F (Seen t) = true → fresh U F t = true →
    ∃ s', publish cfg U t a ok s = (PError, s') ∧ Inv U s' F ∧ same_observables s s' F.
  Proof.
    intros Hb HI Hok Hfr.
    destruct (publish_ok cfg s F t a ok HI Hok) as (s' & Hp & HI').
    rewrite Hb in Hp. exists s'. split; [done|].
    assert (HF : spec_publish_cfg cfg U F t a ok = F).
    { unfold spec_publish_cfg. unfold branch in Hb. destruct ok; rewrite Hb; simpl; by apply abandon_fresh. }
    rewrite HF in HI'. split; [done|]. by apply same_facts_same_observables.
  Qed.

  (** (c) already known / already confirmed on a fresh transaction: the same,
      but the call reports success *)
  Theorem known_answer_no_trace (cfg : pcfg) (s : store) (F : facts) (t : N) (a : answer) :
    cfg_class cfg a = drop_ok →
    Inv U s F → event_ok U F (Seen t) = true → fresh U F t = true →
    ∃ s', publish cfg U t a true s = (PSuccess, s') ∧ Inv U s' F ∧ same_observables s s' F.
  Proof.
    intros Hb HI Hok Hfr.
    destruct (publish_ok cfg s F t a true HI Hok) as (s' & Hp & HI').
    unfold branch in Hp. rewrite Hb in Hp. exists s'. split; [done|].
    assert (HF : spec_publish_cfg cfg U F t a true = F).
    { unfold spec_publish_cfg. rewrite Hb. simpl. by apply abandon_fresh. }
    rewrite HF in HI'. split; [done|]. by apply same_facts_same_observables.
  Qed.

  (** each outpoint is listed at most once in the spendable set *)
  Lemma NoDup_unspent_ops (s : store) (F : facts) (now : Z) :
    Inv U s F → NoDup (u_op <$> unspent_outputs U s now).
  Proof.
    intros HI. apply NoDup_fmap_2_strong; [|by eapply NoDup_unspent_outputs].
    intros u1 u2 H1 H2 Heq.
    apply (elem_of_unspent_outputs U s F Hwf HI) in H1 as (t1 & i1 & c1 & Hin1 & _ & _ & ->).
    apply (elem_of_unspent_outputs U s F Hwf HI) in H2 as (t2 & i2 & c2 & Hin2 & _ & _ & ->).
    rewrite !mk_utxo_op in Heq. injection Heq as Hid ->.
    apply (elem_of_credited_outputs U F Hwf) in Hin1 as (_ & Hx1 & _).
    apply (elem_of_credited_outputs U F Hwf) in Hin2 as (_ & Hx2 & _).
    rewrite Hid in Hx1. rewrite Hx1 in Hx2. by injection Hx2 as ->.
  Qed.

  (** (b) accepted / already in the backend's mempool: success, the
      transaction is recorded as unconfirmed - exactly once - next to what was
      there, and balances and spendable set are those of the ledger with the
      transaction known (each outpoint at most once). *)
  Theorem mempool_tx_recorded_once (cfg : pcfg) (s : store) (F : facts) (t : N) (a : answer) :
    cfg_class cfg a = keep_ok →
    Inv U s F → event_ok U F (Seen t) = true →
    ∃ s', publish cfg U t a true s = (PSuccess, s') ∧ Inv U s' (spec_seen U F t) ∧
          (known F t = false →
             unmined_hashes s' ≡ₚ t :: elements (f_unconf F) ∧ NoDup (unmined_hashes s') ∧
             t ∈ unmined_hashes s') ∧
          (∀ now, NoDup (u_op <$> unspent_outputs U s' now) ∧
                  unspent_outputs U s' now ≡ₚ spec_utxos U (spec_seen U F t) now) ∧
          (∀ minconf sync now, 0 <= minconf → (∀ c h b, f_conf F !! c = Some (h, b) → h <= sync) →
             balance U s' minconf sync now = spec_balance U (spec_seen U F t) minconf sync now).
  Proof.
    intros Hb HI Hok.
    destruct (publish_ok cfg s F t a true HI Hok) as (s' & Hp & HI').
    unfold branch in Hp. rewrite Hb in Hp. exists s'. split; [done|].
    unfold spec_publish_cfg in HI'. rewrite Hb in HI'. simpl in HI'.
    split; [done|]. split; [|split].
    - intros Hk.
      assert (Hperm : unmined_hashes s' ≡ₚ t :: elements (f_unconf F)).
      { rewrite (unmined_hashes_perm U s' _ HI'), (spec_seen_new F t Hk). simpl.
        apply elements_union_singleton. by apply known_false in Hk as [_ ?]. }
      split; [done|]. split.
      + rewrite Hperm. apply NoDup_cons. split; [|apply NoDup_elements].
        rewrite elem_of_elements. by apply known_false in Hk as [_ ?].
      + rewrite Hperm. by left.
    - intros now. split; [by eapply NoDup_unspent_ops|by apply utxos_correct].
    - intros minconf sync now Hm Hs. apply balance_correct; try done.
      intros c h b. unfold spec_seen. destruct (known F t); simpl; apply Hs.
  Qed.

  (** (d) a failed re-broadcast of a transaction that is ALREADY recorded as
      unconfirmed forgets it together with every unconfirmed transaction that
      (transitively) spends its outputs; the other ones stay. *)
  Theorem failed_rebroadcast_forgets_descendants (cfg : pcfg) (s : store) (F : facts) (t : N)
          (a : answer) (ok : bool) :
    act_removes (branch cfg a ok) = true →
    Inv U s F → t ∈ f_unconf F →
    ∃ s', publish cfg U t a ok s = (result_of (branch cfg a ok), s') ∧
          Inv U s' (spec_abandon U F t) ∧
          t ∉ f_unconf (spec_abandon U F t) ∧
          (∀ c, depends_on U F [t] c → c ∉ f_unconf (spec_abandon U F t)) ∧
          (∀ c, c ∈ f_unconf F → ¬ depends_on U F [t] c → c ∈ f_unconf (spec_abandon U F t)) ∧
          f_conf (spec_abandon U F t) = f_conf F ∧ f_leases (spec_abandon U F t) = f_leases F.
  Proof.
    intros Hb HI Ht.
    assert (Hk : known F t = true).
    { unfold known. rewrite (bool_decide_eq_true_2 (t ∈ f_unconf F)) by done. apply orb_true_r. }
    assert (Hok : event_ok U F (Seen t) = true).
    { simpl. destruct (fw_in_universe U F (inv_wf U s F HI) t (or_intror Ht)) as [x Hx]. rewrite Hx, Hk.
      pose proof (fw_coinbase_confirmed U F (inv_wf U s F HI) t Ht) as Hcb.
      unfold is_coinbase in Hcb. rewrite Hx in Hcb. by rewrite Hcb. }
    destruct (publish_ok cfg s F t a ok HI Hok) as (s' & Hp & HI').
    exists s'. split; [done|].
    assert (HF : spec_publish_cfg cfg U F t a ok = spec_abandon U F t).
    { unfold spec_publish_cfg. rewrite (spec_seen_known F t Hk). unfold branch in Hb.
      unfold spec_finish. destruct ok; by rewrite Hb. }
    rewrite HF in HI'. split; [done|]. unfold spec_abandon. split; [|split; [|split]].
    - apply rm_roots_gone. by left.
    - intros c Hd Hin. by apply rm_unconf_elem in Hin as [_ Hn].
    - intros c Hc Hn. by apply rm_unconf_elem.
    - done.
  Qed.

  (** the facts of the property text and of the expected configuration agree *)
  Lemma spec_publish_expected (F : facts) (t : N) (a : answer) (ok : bool) :
    spec_publish_cfg expected_cfg U F t a ok = spec_publish U F t a ok ∧
    result_of (branch expected_cfg a ok) = expected_result a ok.
  Proof.
    unfold spec_publish_cfg, spec_publish, expected_result, result_of, branch_of, stays, failed,
      is_mempool, is_known, spec_finish. simpl. unfold expected_class.
    destruct ok; simpl; [|done]. by destruct (class_of a).
  Qed.
End publish.

(** * 2b. The answer classification is total over the sentinels

    The configuration read from the source gives, for every exported sentinel
    of package chain, the branch that an error which Is this sentinel takes
    ([table_class base tbl]).  [table_sound] is decidable on the regenerated
    table; when it holds the configuration treats EVERY answer - whatever the
    sentinel's name - as the five branches treat the answer's class. *)
Lemma assoc_In {A} (k : string) (l : list (string * A)) (v : A) : assoc k l = Some v → In (k, v) l.
Proof.
  induction l as [|[k' v'] l IH]; [done|]. simpl. destruct (String.eqb k' k) eqn:E.
  - intros [= ->]. apply String.eqb_eq in E as ->. by left.
  - intros H. right. by apply IH.
Qed.

Lemma In_assoc {A} (k : string) (l : list (string * A)) (v : A) : In (k, v) l → is_Some (assoc k l).
Proof.
  induction l as [|[k' v'] l IH]; [done|]. simpl. intros [[= -> ->]|H].
  - by rewrite String.eqb_refl.
  - destruct (String.eqb k' k); [done|by apply IH].
Qed.

Lemma class_of_idem (a : answer) : class_of (class_of a) = class_of a.
Proof. destruct a as [| | | | |n]; try done. simpl. by destruct (sentinel_class n). Qed.

Lemma class_of_base (a : answer) : ∀ n, class_of a ≠ ASentinel n.
Proof. intros n'. destruct a as [| | | | |n]; try done. simpl. by destruct (sentinel_class n). Qed.

Definition table_sound (base : answer → action) (tbl : list (string * action)) : bool :=
  forallb (λ r, bool_decide (r.2 = base (class_of (ASentinel r.1)))) tbl &&
  forallb (λ r, bool_decide (is_Some (assoc r.1 tbl))) sentinel_classes.

Lemma table_class_by_class (base : answer → action) (tbl : list (string * action)) :
  table_sound base tbl = true → ∀ a, table_class base tbl a = base (class_of a).
Proof.
  intros [H1 H2]%andb_true_iff a. destruct a as [| | | | |n]; try done.
  unfold table_class. destruct (assoc n tbl) as [act|] eqn:E; simpl.
  - apply assoc_In in E. rewrite forallb_forall in H1. specialize (H1 _ E). by apply bool_decide_eq_true in H1.
  - f_equal. unfold sentinel_class. destruct (assoc n sentinel_classes) as [c|] eqn:Ec; [|done].
    apply assoc_In in Ec. rewrite forallb_forall in H2. specialize (H2 _ Ec). apply bool_decide_eq_true in H2.
    simpl in H2. rewrite E in H2. by destruct H2.
Qed.

(** the names of the regenerated table and of the model's list are the same set *)
Definition same_names {A B} (l1 : list (string * A)) (l2 : list (string * B)) : bool :=
  forallb (λ r, bool_decide (is_Some (assoc r.1 l2))) l1 && forallb (λ r, bool_decide (is_Some (assoc r.1 l1))) l2.

Lemma same_names_spec {A B} (l1 : list (string * A)) (l2 : list (string * B)) :
  same_names l1 l2 = true → ∀ n, In n (map fst l1) ↔ In n (map fst l2).
Proof.
  intros [H1 H2]%andb_true_iff n. rewrite forallb_forall in H1, H2. rewrite !in_map_iff. split.
  - intros ([k v] & <- & Hin). specialize (H1 _ Hin). apply bool_decide_eq_true in H1 as [w Hw].
    exists (k, w). split; [done|]. by apply assoc_In.
  - intros ([k v] & <- & Hin). specialize (H2 _ Hin). apply bool_decide_eq_true in H2 as [w Hw].
    exists (k, w). split; [done|]. by apply assoc_In.
Qed.

Section classes.
  Context (cfg : pcfg) (base : answer → action).
  Hypothesis Hcls : ∀ a, cfg_class cfg a = base (class_of a).

  Lemma rejection_class (a : answer) : is_rejection a = true → class_of a = AReject.
  Proof. unfold is_rejection, answer_eqb. by intros ?%bool_decide_eq_true. Qed.

  (** every answer of the rejection class takes the rejection branch *)
  Lemma by_class_rejection (a : answer) : base AReject = drop_err → is_rejection a = true → cfg_class cfg a = drop_err.
  Proof. intros Hb Ha. by rewrite Hcls, (rejection_class a Ha). Qed.

  Lemma by_class_mempool (a : answer) :
    base AAccept = keep_ok → base AInMempool = keep_ok → is_mempool a = true → cfg_class cfg a = keep_ok.
  Proof. intros H1 H2 Ha. rewrite Hcls. unfold is_mempool in Ha. by destruct (class_of a). Qed.

  Lemma by_class_known (a : answer) :
    admissible_known (base AKnown) = true → admissible_known (base AConfirmed) = true →
    is_known a = true → admissible_known (cfg_class cfg a) = true.
  Proof. intros H1 H2 Ha. rewrite Hcls. unfold is_known in Ha. by destruct (class_of a). Qed.

  (** The configuration of the code IS the configuration the text asks for
      (with the text's freedom on "already known / confirmed" resolved as the
      code resolves it): same branch for every answer and subscription outcome. *)
  Lemma meets_text :
    cfg_notify cfg = drop_err → base AAccept = keep_ok → base AInMempool = keep_ok → base AReject = drop_err →
    admissible_known (base AKnown) = true → admissible_known (base AConfirmed) = true →
    ∀ a ok, branch_of (text_cfg cfg) a ok = branch_of cfg a ok.
  Proof.
    intros Hn H1 H2 H3 H4 H5 a ok. unfold branch_of, text_cfg, text_action. destruct ok; simpl; [|done].
    destruct (is_known a) eqn:Hk.
    - by rewrite (by_class_known a H4 H5 Hk).
    - rewrite Hcls. unfold expected_class. unfold is_known in Hk. pose proof (class_of_base a) as Hb.
      destruct (class_of a) as [| | | | |n]; try done. by destruct (Hb n).
  Qed.
End classes.

Section known.
  Context (U : gmap N tx) (Hwf : wf_universe U = true).

  (** "already known / already confirmed" on a fresh transaction, for every
      configuration the text admits: either nothing is left (facts and
      observables of before the attempt), or the call reports success and the
      transaction is recorded as unconfirmed. *)
  Theorem known_answer_consistent (cfg : pcfg) (s : store) (F : facts) (t : N) (a : answer) :
    admissible_known (cfg_class cfg a) = true →
    Inv U s F → event_ok U F (Seen t) = true → fresh U F t = true →
    ∃ r s', publish cfg U t a true s = (r, s') ∧
            ((Inv U s' F ∧ same_observables U s s' F) ∨ (r = PSuccess ∧ Inv U s' (spec_seen U F t))).
  Proof.
    intros Hadm HI Hok Hfr.
    destruct (publish_ok U Hwf cfg s F t a true HI Hok) as (s' & Hp & HI').
    exists (result_of (branch_of cfg a true)), s'. split; [done|].
    unfold spec_publish_cfg, spec_finish, branch_of, result_of in *.
    unfold admissible_known in Hadm.
    destruct (cfg_class cfg a) as [rm er]. simpl in *. destruct rm.
    - left. rewrite (abandon_fresh U F t Hfr) in HI'. split; [done|]. by apply same_facts_same_observables.
    - right. destruct er; [done|]. by split.
  Qed.
End known.

(** * 2c. MapRPCErr never turns a rejection text into an "I have it" class *)
Lemma hits_spec (msg : string) (tbl : list (string * string)) (c : string) :
  In c (hits msg tbl) ↔ ∃ key, In (key, c) tbl ∧ match_err_str msg key = true.
Proof.
  unfold hits. rewrite in_map_iff. split.
  - intros ([k c'] & Hc & [Hin Hm]%filter_In). simpl in *. subst c'. by exists k.
  - intros (k & Hin & Hm). exists (k, c). split; [done|]. apply filter_In. by split.
Qed.

Lemma candidates_from_tables (T : map_tables) (b : backend) (msg : string) (c : string) :
  In c (map_candidates T b msg) →
  c = undefined_name ∨ ∃ tbl, In tbl (all_tables T) ∧ In c (hits msg tbl).
Proof.
  unfold all_tables. destruct b; simpl.
  - destruct (hits msg (mt_bitcoind T)) as [|x l] eqn:E1.
    + destruct (hits msg (mt_bitcoind28 T)) as [|y l'] eqn:E2.
      * intros [<-|[]]. by left.
      * intros H. right. exists (mt_bitcoind28 T). rewrite E2. split; [tauto|done].
    + intros [<-|[]]. right. exists (mt_bitcoind T). rewrite E1. split; [tauto|by left].
  - destruct (hits msg (mt_btcd T)) as [|x l] eqn:E1.
    + intros [<-|[]]. by left.
    + intros H. right. exists (mt_btcd T). rewrite E1. split; [tauto|done].
  - destruct (hits msg (mt_btcd T)) as [|x l] eqn:E1.
    + destruct (hits msg (mt_btcd_pre T)) as [|y l'] eqn:E2.
      * intros [<-|[]]. by left.
      * intros H. right. exists (mt_btcd_pre T). rewrite E2. split; [tauto|done].
    + intros H. right. exists (mt_btcd T). rewrite E1. split; [tauto|done].
  - destruct (hits msg (mt_btcd T)) as [|x l] eqn:E1.
    + destruct (hits msg (mt_btcd_pre T)) as [|y l'] eqn:E2.
      * intros [<-|[]]. by left.
      * intros H. right. exists (mt_btcd_pre T). rewrite E2. split; [tauto|done].
    + intros H. right. exists (mt_btcd T). rewrite E1. split; [tauto|done].
Qed.

(** For tables that respect the classes: a node's text that contains none of
    the "I have it already" texts is mapped, by every backend and whatever the
    iteration order of the Go maps, to a sentinel of the rejection class. *)
Theorem rejection_text_maps_to_rejection (T : map_tables) (b : backend) (msg : string) :
  tables_respect T = true → plain_rejection_text msg = true →
  ∀ c, In c (map_candidates T b msg) → sentinel_class c = AReject.
Proof.
  intros HT Hmsg c Hc.
  destruct (candidates_from_tables T b msg c Hc) as [->|(tbl & Htbl & Hhit)]; [done|].
  unfold tables_respect in HT. rewrite forallb_forall in HT. specialize (HT _ Htbl).
  apply hits_spec in Hhit as (key & Hin & Hm).
  unfold table_respects in HT. rewrite forallb_forall in HT. specialize (HT _ Hin).
  apply bool_decide_eq_true in HT. simpl in HT. rewrite HT.
  unfold text_class. destruct (assoc key accepting_texts) as [a|] eqn:E; [|done].
  apply assoc_In in E. unfold plain_rejection_text in Hmsg. rewrite forallb_forall in Hmsg.
  specialize (Hmsg _ E). simpl in Hmsg. by rewrite Hm in Hmsg.
Qed.

Lemma rejection_text_is_rejected (T : map_tables) (b : backend) (msg : string) :
  tables_respect T = true → plain_rejection_text msg = true →
  ∀ c, In c (map_candidates T b msg) → is_rejection (ASentinel c) = true.
Proof.
  intros HT Hm c Hc. unfold is_rejection, class_of.
  by rewrite (rejection_text_maps_to_rejection T b msg HT Hm c Hc).
Qed.

Section rejected_rebroadcast.
  Context (U : gmap N tx) (Hwf : wf_universe U = true).

  (** (d') the re-broadcast of a recorded transaction that is REJECTED: the
      caller of PublishTransaction gets the error *)
  Theorem rejected_rebroadcast_forgets_descendants (cfg : pcfg) (s : store) (F : facts) (t : N) (a : answer) :
    cfg_class cfg a = drop_err →
    Inv U s F → t ∈ f_unconf F →
    ∃ s', publish cfg U t a true s = (PError, s') ∧
          Inv U s' (spec_abandon U F t) ∧
          t ∉ f_unconf (spec_abandon U F t) ∧
          (∀ c, depends_on U F [t] c → c ∉ f_unconf (spec_abandon U F t)) ∧
          (∀ c, c ∈ f_unconf F → ¬ depends_on U F [t] c → c ∈ f_unconf (spec_abandon U F t)) ∧
          f_conf (spec_abandon U F t) = f_conf F ∧ f_leases (spec_abandon U F t) = f_leases F.
  Proof.
    intros Hb HI Ht.
    destruct (failed_rebroadcast_forgets_descendants U Hwf cfg s F t a true) as (s' & Hp & H); [|done|done|].
    { simpl. by rewrite Hb. }
    exists s'. split; [|done]. rewrite Hp. simpl. by rewrite Hb.
  Qed.
End rejected_rebroadcast.

(** the text-level facts and result when answer and truth coincide are those
    of the configuration [text_cfg] *)
Lemma spec_publish_text_diag (code : pcfg) (U : gmap N tx) (F : facts) (t : N) (a : answer) (ok : bool) :
  spec_publish_text code U F t a a ok = spec_publish_cfg (text_cfg code) U F t a ok ∧
  text_result code a a ok = cfg_result (text_cfg code) a ok.
Proof. unfold spec_publish_text, spec_publish_cfg, text_result, cfg_result, branch_of. by destruct ok. Qed.

Lemma spec_resend_text_diag (code : pcfg) (U : gmap N tx) : ∀ (l : list N) (answers : list answer) (F : facts),
  spec_resend_text code U l answers answers F = spec_resend_list (text_cfg code) U l answers F.
Proof. induction l as [|t l IH]; intros answers F; [done|]. simpl. by rewrite IH. Qed.
