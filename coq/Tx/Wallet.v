(** The WALLET layer of properties C01 / C02: what [wallet.Wallet] does with
    the notifications of its chain backend, as compositions of the
    transaction-store events of Tx/Hist.v plus the synced-to bookkeeping of
    the address manager, and the wallet-level queries named by the property.

      wallet/chainntfns.go  connectBlock     SetSyncedTo(block)
                            disconnectBlock  (only when ChainSynced) if the
                                             height is at or below the synced
                                             height AND the recorded hash at
                                             that height is the block's:
                                             SetSyncedTo(parent) and
                                             TxStore.Rollback(height);
                                             otherwise nothing
                            addRelevantTx    InsertTxCheckIfExists, return when
                                             it exists, AddCredit per credited
                                             output  (= Hist.apply_seen /
                                             apply_confirm)
                            FilteredBlockConnected: addRelevantTx for every
                                             transaction of the block in ONE
                                             database transaction
      waddrmgr/db.go        PutSyncedTo (predecessor check once a birthday
                            block is stored, height -> hash entry, pruning of
                            the entry MaxReorgDepth below), fetchBlockHash
      wallet/wallet.go      CalculateBalance(confirms) =
                              TxStore.Balance(confirms, SyncedTo().Height)
                            ListUnspent(minconf, maxconf, "") over
                              TxStore.UnspentOutputs: confirmations in
                              [minconf, maxconf], coinbase only when mature
                            confirms / confirmed
      wallet/utxos.go       UnspentOutputs(policy): TxStore.UnspentOutputs
                              with at least policy.RequiredConfirmations

    Every handler runs inside one walletdb.Update: an error leaves the state
    unchanged.  Which outputs are credits is the universe's [t_creds] (the
    wallet decides it from its addresses; the key set does not change inside a
    history, as in Hist.v).  No proofs here. *)
From stdpp Require Import gmap list numbers sorting.
From Coq Require Import ZArith NArith.
From Verif Require Import Tx.Store Tx.Ledger Tx.Hist.
Local Open Scope Z_scope.

Inductive wnotif :=
| WConnect (h : Z) (bhash : N) (btime : Z)                   (* chain.BlockConnected *)
| WDisconnect (h : Z) (bhash : N)                            (* chain.BlockDisconnected *)
| WRelevant (t : txid) (b : option (Z * N * Z))              (* chain.RelevantTx (None = unmined) *)
| WFiltered (h : Z) (bhash : N) (btime : Z) (ts : list txid) (* chain.FilteredBlockConnected *)
| WStore (e : event).                                        (* a direct call on Wallet.TxStore / lease API *)

Record wstate := {
  w_m : mstate;                 (* the transaction store and its clock *)
  w_hashes : gmap Z N;          (* sync bucket: height -> block hash *)
  w_tip : Z;                    (* Manager.SyncedTo().Height *)
  w_tiphash : N;                (* Manager.SyncedTo().Hash *)
  w_synced : bool;              (* Wallet.ChainSynced() *)
  w_bday : bool;                (* a birthday block is stored (enables the predecessor check) *)
}.

(** A wallet right after creation: synced to the genesis block (hash id 0). *)
Definition winit (synced : bool) : wstate :=
  {| w_m := init_state; w_hashes := {[ 0 := 0%N ]}; w_tip := 0; w_tiphash := 0%N; w_synced := synced; w_bday := false |}.

Definition max_reorg_depth : Z := 10000.

(** [Manager.SetSyncedTo] = [PutSyncedTo] + the memory update. *)
Definition set_synced_to (h : Z) (bhash : N) (w : wstate) : option wstate :=
  if bool_decide (0 < h) && w_bday w && negb (bool_decide (is_Some (w_hashes w !! (h - 1)))) then None
  else
    let hs := <[h := bhash]> (w_hashes w) in
    let hs := if bool_decide (0 < h - max_reorg_depth) then delete (h - max_reorg_depth) hs else hs in
    Some {| w_m := w_m w; w_hashes := hs; w_tip := h; w_tiphash := bhash; w_synced := w_synced w; w_bday := w_bday w |}.

Definition with_m (m : mstate) (w : wstate) : wstate :=
  {| w_m := m; w_hashes := w_hashes w; w_tip := w_tip w; w_tiphash := w_tiphash w; w_synced := w_synced w; w_bday := w_bday w |}.

(** Applying store events one after the other inside one database
    transaction; [None] = one of them failed (model: out of fuel). *)
Fixpoint store_steps (U : universe) (m : mstate) (es : list event) : option mstate :=
  match es with
  | [] => Some m
  | e :: es' =>
    match step U m e with
    | (_, OFuel) => None
    | (m', _) => store_steps U m' es'
    end
  end.

(** The store events a notification amounts to in state [w] ([None] = the
    handler fails before touching the store). *)
Definition relevant_event (t : txid) (b : option (Z * N * Z)) : event :=
  match b with
  | None => Seen t
  | Some (h, bhash, bt) => Confirm t h bhash bt
  end.

Definition disconnect_applies (w : wstate) (h : Z) (bhash : N) : option bool :=
  if negb (w_synced w) then Some false
  else if bool_decide (h <= w_tip w) then
    match w_hashes w !! h with
    | None => None                                   (* BlockHash: ErrBlockNotFound *)
    | Some x => Some (bool_decide (x = bhash))
    end
  else Some false.

Definition notif_events (w : wstate) (n : wnotif) : list event :=
  match n with
  | WConnect _ _ _ => []
  | WDisconnect h bhash => match disconnect_applies w h bhash with Some true => [Disconnect h] | _ => [] end
  | WRelevant t b => [relevant_event t b]
  | WFiltered h bhash bt ts => map (fun t => Confirm t h bhash bt) ts
  | WStore e => [e]
  end.

(** One notification: new state and whether the handler returned an error. *)
Definition wstep (U : universe) (w : wstate) (n : wnotif) : wstate * bool :=
  match n with
  | WConnect h bhash _ =>
    match set_synced_to h bhash w with Some w' => (w', false) | None => (w, true) end
  | WDisconnect h bhash =>
    match disconnect_applies w h bhash with
    | None => (w, true)
    | Some false => (w, false)
    | Some true =>
      match w_hashes w !! (h - 1) with
      | None => (w, true)                            (* BlockHash(parent) fails *)
      | Some ph =>
        match set_synced_to (h - 1) ph w with
        | None => (w, true)
        | Some w' =>
          match store_steps U (w_m w) [Disconnect h] with
          | Some m' => (with_m m' w', false)
          | None => (w, true)
          end
        end
      end
    end
  | _ =>
    match store_steps U (w_m w) (notif_events w n) with
    | Some m' => (with_m m' w, false)
    | None => (w, true)
    end
  end.

(** Did the step change the store?  (An error rolls everything back.) *)
Definition wstep_events (U : universe) (w : wstate) (n : wnotif) : list event :=
  if (wstep U w n).2 then [] else notif_events w n.

Definition wrun_from (U : universe) (w : wstate) (ns : list wnotif) : wstate :=
  foldl (fun w n => (wstep U w n).1) w ns.
Definition wrun (U : universe) (ns : list wnotif) : wstate := wrun_from U (winit true) ns.

(** The store-level history a notification history amounts to. *)
Fixpoint wevents_from (U : universe) (w : wstate) (ns : list wnotif) : list event :=
  match ns with
  | [] => []
  | n :: ns' => wstep_events U w n ++ wevents_from U (wstep U w n).1 ns'
  end.
Definition wevents (U : universe) (ns : list wnotif) : list event := wevents_from U (winit true) ns.

(** ** Queries *)

(** [confirms(txHeight, curHeight)] of wallet/wallet.go. *)
Definition confirms (txh cur : Z) : Z :=
  if bool_decide (txh = -1) || bool_decide (cur < txh) then 0 else cur - txh + 1.

Definition calculate_balance (U : universe) (w : wstate) (minconf : Z) : Z :=
  balance U (st (w_m w)) minconf (w_tip w) (clock (w_m w)).

(** ListUnspent(minconf, maxconf, ""): outpoint, amount, confirmations. *)
Definition list_unspent_of (tip minconf maxconf : Z) (l : list utxo) : list (outpoint * Z * Z) :=
  omap (fun u =>
    let c := confirms (u_height u) tip in
    if bool_decide (c < minconf) || bool_decide (maxconf < c) then None
    else if u_coinbase u && negb (bool_decide (coinbase_maturity <= c)) then None
    else Some (u_op u, u_amt u, c)) l.

Definition list_unspent (U : universe) (w : wstate) (minconf maxconf : Z) : list (outpoint * Z * Z) :=
  list_unspent_of (w_tip w) minconf maxconf (unspent_outputs U (st (w_m w)) (clock (w_m w))).

(** UnspentOutputs({account, minconf}). *)
Definition wallet_unspent_of (tip minconf : Z) (l : list utxo) : list utxo :=
  filter (fun u => minconf <= confirms (u_height u) tip) l.

Definition wallet_unspent (U : universe) (w : wstate) (minconf : Z) : list utxo :=
  wallet_unspent_of (w_tip w) minconf (unspent_outputs U (st (w_m w)) (clock (w_m w))).

(** The sync height covers every confirmed transaction (the property's
    "every sync height >= the highest confirmed block"). *)
Definition tip_covers (F : facts) (tip : Z) : bool :=
  forallb (fun kv : txid * blockid => bool_decide (kv.2.1 <= tip)) (map_to_list (f_conf F)).
