(** [Ledger.descendants] computes reachability ([descendants_correct]);
    [Store.remove_conflict] removes exactly a transaction and its unconfirmed
    descendants ([remove_conflict_correct]); [Abandon] preserves the invariant.
    Owner: prover-remove. *)
From stdpp Require Import gmap list numbers sorting.
From Coq Require Import ZArith NArith Lia.
From Verif Require Import Tx.Store Tx.Ledger Tx.Hist Tx.Inv.
Local Open Scope Z_scope.

(** * (a) [descendants] = reachability *)

Lemma filter_length_lt_mono {A} (P Q : A → Prop)
    `{∀ x, Decision (P x)} `{∀ x, Decision (Q x)} (l : list A) (x : A) :
  (∀ y, P y → Q y) → x ∈ l → Q x → ¬ P x →
  (length (filter P l) < length (filter Q l))%nat.
Proof.
  intros HPQ Hx HQx HPx.
  assert (Hle : ∀ l', (length (filter P l') ≤ length (filter Q l'))%nat).
  { induction l' as [|y l' IH]; [done|].
    rewrite !filter_cons.
    destruct (decide (P y)) as [HP|HP].
    - destruct (decide (Q y)) as [HQ|HQ]; [simpl; lia|]. destruct HQ; auto.
    - destruct (decide (Q y)); simpl; lia. }
  induction l as [|y l IH]; [by apply elem_of_nil in Hx|].
  rewrite !filter_cons.
  apply elem_of_cons in Hx as [->|Hx].
  - destruct (decide (P y)) as [HP|HP]; [done|].
    destruct (decide (Q y)) as [HQ|HQ]; [|done].
    simpl. specialize (Hle l). lia.
  - specialize (IH Hx).
    destruct (decide (P y)) as [HP|HP].
    + destruct (decide (Q y)) as [HQ|HQ]; [simpl; lia|]. destruct HQ; auto.
    + destruct (decide (Q y)); simpl; lia.
Qed.

Section desc.
  Context (U : universe).

  Lemma elem_of_new (uc acc : list N) (c : N) :
    c ∈ filter (fun c => bool_decide (c ∉ acc) ∧ existsb (fun p => spends_output_of U c p) acc) uc ↔
    c ∈ uc ∧ c ∉ acc ∧ ∃ p, p ∈ acc ∧ spends_output_of U c p = true.
  Proof.
    rewrite elem_of_list_filter. split.
    - intros [[Hna Hex] Huc]. apply bool_decide_unpack in Hna.
      apply Is_true_true in Hex. apply existsb_exists in Hex as (p & Hp & Hsp).
      split; [done|]. split; [done|]. exists p. split; [by apply elem_of_list_In|done].
    - intros (Huc & Hna & p & Hp & Hsp). split; [|done]. split.
      + by apply bool_decide_pack.
      + apply Is_true_true. apply existsb_exists. exists p.
        split; [by apply elem_of_list_In|done].
  Qed.

  Lemma descendants_sound F roots fuel (uc acc : list N) (t : N) :
    (∀ x, x ∈ uc → x ∈ f_unconf F) →
    (∀ x, x ∈ acc → depends_on U F roots x) →
    t ∈ descendants U fuel uc acc → depends_on U F roots t.
  Proof.
    intros Huc. revert acc. induction fuel as [|fuel IH]; intros acc Hacc; simpl.
    - apply Hacc.
    - destruct (filter _ uc) as [|n new] eqn:Hnew; [apply Hacc|].
      apply IH. intros x Hx. apply elem_of_app in Hx as [Hx|Hx]; [by apply Hacc|].
      rewrite <- Hnew in Hx. apply elem_of_new in Hx as (Hxu & _ & p & Hp & Hsp).
      eapply dep_step; [apply Hacc, Hp|by apply Huc|done].
  Qed.

  Lemma descendants_closed fuel (uc acc : list N) :
    (length (filter (λ c, c ∉ acc) uc) < fuel)%nat →
    (∀ x, x ∈ acc → x ∈ descendants U fuel uc acc) ∧
    (∀ c p, c ∈ uc → p ∈ descendants U fuel uc acc → spends_output_of U c p = true →
            c ∈ descendants U fuel uc acc).
  Proof.
    revert acc. induction fuel as [|fuel IH]; intros acc Hlen; [lia|]. simpl.
    destruct (filter (λ c, bool_decide _ ∧ _) uc) as [|n new] eqn:Hnew.
    - split; [done|]. intros c p Hc Hp Hsp.
      destruct (decide (c ∈ acc)) as [|Hna]; [done|].
      assert (Hin : c ∈ filter (fun c => bool_decide (c ∉ acc) ∧ existsb (fun p => spends_output_of U c p) acc) uc).
      { apply elem_of_new. eauto. }
      rewrite Hnew in Hin. by apply elem_of_nil in Hin.
    - assert (Hn : n ∈ filter (fun c => bool_decide (c ∉ acc) ∧ existsb (fun p => spends_output_of U c p) acc) uc).
      { rewrite Hnew. by left. }
      apply elem_of_new in Hn as (Hnu & Hnna & _).
      destruct (IH (acc ++ n :: new)) as [IH1 IH2].
      { assert (Hlt : (length (filter (λ c, c ∉ acc ++ n :: new) uc) < length (filter (λ c, c ∉ acc) uc))%nat).
        { apply (filter_length_lt_mono _ _ uc n); [|done|done|].
          - intros y Hy Hy'. apply Hy. apply elem_of_app. by left.
          - intros Hy. apply Hy. apply elem_of_app. right. by left. }
        lia. }
      split; [|done].
      intros x Hx. apply IH1. apply elem_of_app. by left.
  Qed.
End desc.

Lemma descendants_ok U : descendants_correct U.
Proof.
  intros F roots t uc. split.
  - apply descendants_sound.
    + intros x Hx. by apply elem_of_elements in Hx.
    + intros x Hx. by apply dep_root.
  - destruct (descendants_closed U (S (length uc)) uc roots) as [H1 H2].
    { pose proof (filter_length (λ c, c ∉ roots) uc). lia. }
    induction 1 as [r Hr|p c Hp IHp Hc Hsp]; [by apply H1|].
    apply (H2 c p); [by apply elem_of_elements|done|done].
Qed.
