(** [Ledger.descendants] computes reachability ([descendants_correct]);
    [Store.remove_conflict] removes exactly a transaction and its unconfirmed
    descendants ([remove_conflict_correct]); [Abandon] preserves the invariant.
    Owner: prover-remove. *)
From stdpp Require Import gmap list numbers sorting.
From Coq Require Import ZArith NArith Lia.
From Verif Require Import Tx.Store Tx.Ledger Tx.Hist Tx.Inv.
Local Open Scope Z_scope.

(** * (a) [descendants] = reachability *)

Lemma filter_length_lt_mono {A} (P Q : A → Prop)
    `{∀ x, Decision (P x)} `{∀ x, Decision (Q x)} (l : list A) (x : A) :
  (∀ y, P y → Q y) → x ∈ l → Q x → ¬ P x →
  (length (filter P l) < length (filter Q l))%nat.
Proof.
  intros HPQ Hx HQx HPx.
  assert (Hle : ∀ l', (length (filter P l') ≤ length (filter Q l'))%nat).
  { induction l' as [|y l' IH]; [done|].
    rewrite !filter_cons.
    destruct (decide (P y)) as [HP|HP].
    - destruct (decide (Q y)) as [HQ|HQ]; [simpl; lia|]. destruct HQ; auto.
    - destruct (decide (Q y)); simpl; lia. }
  induction l as [|y l IH]; [by apply elem_of_nil in Hx|].
  rewrite !filter_cons.
  apply elem_of_cons in Hx as [->|Hx].
  - destruct (decide (P y)) as [HP|HP]; [done|].
    destruct (decide (Q y)) as [HQ|HQ]; [|done].
    simpl. specialize (Hle l). lia.
  - specialize (IH Hx).
    destruct (decide (P y)) as [HP|HP].
    + destruct (decide (Q y)) as [HQ|HQ]; [simpl; lia|]. destruct HQ; auto.
    + destruct (decide (Q y)); simpl; lia.
Qed.

Section desc.
  Context (U : universe).

  Lemma elem_of_new (uc acc : list N) (c : N) :
    c ∈ filter (fun c => bool_decide (c ∉ acc) ∧ existsb (fun p => spends_output_of U c p) acc) uc ↔
    c ∈ uc ∧ c ∉ acc ∧ ∃ p, p ∈ acc ∧ spends_output_of U c p = true.
  Proof.
    rewrite elem_of_list_filter. split.
    - intros [[Hna Hex] Huc]. apply bool_decide_unpack in Hna.
      apply Is_true_true in Hex. apply existsb_exists in Hex as (p & Hp & Hsp).
      split; [done|]. split; [done|]. exists p. split; [by apply elem_of_list_In|done].
    - intros (Huc & Hna & p & Hp & Hsp). split; [|done]. split.
      + by apply bool_decide_pack.
      + apply Is_true_true. apply existsb_exists. exists p.
        split; [by apply elem_of_list_In|done].
  Qed.

  Lemma descendants_sound F roots fuel (uc acc : list N) (t : N) :
    (∀ x, x ∈ uc → x ∈ f_unconf F) →
    (∀ x, x ∈ acc → depends_on U F roots x) →
    t ∈ descendants U fuel uc acc → depends_on U F roots t.
  Proof.
    intros Huc. revert acc. induction fuel as [|fuel IH]; intros acc Hacc; simpl.
    - apply Hacc.
    - destruct (filter _ uc) as [|n new] eqn:Hnew; [apply Hacc|].
      apply IH. intros x Hx. apply elem_of_app in Hx as [Hx|Hx]; [by apply Hacc|].
      rewrite <- Hnew in Hx. apply elem_of_new in Hx as (Hxu & _ & p & Hp & Hsp).
      eapply dep_step; [apply Hacc, Hp|by apply Huc|done].
  Qed.

  Lemma descendants_closed fuel (uc acc : list N) :
    (length (filter (λ c, c ∉ acc) uc) < fuel)%nat →
    (∀ x, x ∈ acc → x ∈ descendants U fuel uc acc) ∧
    (∀ c p, c ∈ uc → p ∈ descendants U fuel uc acc → spends_output_of U c p = true →
            c ∈ descendants U fuel uc acc).
  Proof.
    revert acc. induction fuel as [|fuel IH]; intros acc Hlen; [lia|]. simpl.
    destruct (filter (λ c, bool_decide _ ∧ _) uc) as [|n new] eqn:Hnew.
    - split; [done|]. intros c p Hc Hp Hsp.
      destruct (decide (c ∈ acc)) as [|Hna]; [done|].
      assert (Hin : c ∈ filter (fun c => bool_decide (c ∉ acc) ∧ existsb (fun p => spends_output_of U c p) acc) uc).
      { apply elem_of_new. eauto. }
      rewrite Hnew in Hin. by apply elem_of_nil in Hin.
    - assert (Hn : n ∈ filter (fun c => bool_decide (c ∉ acc) ∧ existsb (fun p => spends_output_of U c p) acc) uc).
      { rewrite Hnew. by left. }
      apply elem_of_new in Hn as (Hnu & Hnna & _).
      destruct (IH (acc ++ n :: new)) as [IH1 IH2].
      { assert (Hlt : (length (filter (λ c, c ∉ acc ++ n :: new) uc) < length (filter (λ c, c ∉ acc) uc))%nat).
        { apply (filter_length_lt_mono _ _ uc n); [|done|done|].
          - intros y Hy Hy'. apply Hy. apply elem_of_app. by left.
          - intros Hy. apply Hy. apply elem_of_app. right. by left. }
        lia. }
      split; [|done].
      intros x Hx. apply IH1. apply elem_of_app. by left.
  Qed.
End desc.

Lemma descendants_ok U : descendants_correct U.
Proof.
  intros F roots t uc. split.
  - apply descendants_sound.
    + intros x Hx. by apply elem_of_elements in Hx.
    + intros x Hx. by apply dep_root.
  - destruct (descendants_closed U (S (length uc)) uc roots) as [H1 H2].
    { pose proof (filter_length (λ c, c ∉ roots) uc). lia. }
    induction 1 as [r Hr|p c Hp IHp Hc Hsp]; [by apply H1|].
    apply (H2 c p); [by apply elem_of_elements|done|done].
Qed.
(** * Well-formedness facts *)

Definition ins_in_range (U : gmap N tx) : Prop :=
  ∀ c tc op p, U !! c = Some tc → op ∈ t_ins tc → U !! op.1 = Some p →
               (N.to_nat op.2 < length (t_outs p))%nat.

Lemma ins_in_range_of_wf U : wf_universe U = true → ins_in_range U.
Proof.
  unfold wf_universe, ins_in_range_b. intros Hwf c tc op p Hc Hop Hp.
  apply andb_prop in Hwf as [_ Hwf].
  rewrite forallb_forall in Hwf.
  assert (Hin : In (c, tc) (map_to_list U)).
  { apply elem_of_list_In. by apply elem_of_map_to_list. }
  apply Hwf in Hin. rewrite forallb_forall in Hin.
  apply elem_of_list_In in Hop. apply Hin in Hop. simpl in Hop.
  rewrite Hp in Hop. by apply bool_decide_eq_true in Hop.
Qed.

Lemma wf_universe_tx U k t : wf_universe U = true → U !! k = Some t → wf_tx k t = true.
Proof.
  unfold wf_universe. intros Hwf Hk.
  apply andb_prop in Hwf as [Hwf _]. apply andb_prop in Hwf as [_ Hwf].
  rewrite forallb_forall in Hwf.
  apply (Hwf (k, t)). apply elem_of_list_In. by apply elem_of_map_to_list.
Qed.

Lemma wf_tx_unpack k t : wf_tx k t = true →
  t_id t = k ∧ NoDup (t_ins t) ∧ NoDup (map fst (t_creds t)) ∧
  (∀ ic, ic ∈ t_creds t → (N.to_nat ic.1 < length (t_outs t))%nat) ∧
  (∀ op, op ∈ t_ins t → (op.1 < k)%N).
Proof.
  unfold wf_tx. rewrite !andb_true_iff. intros [[[[[[H1 H2] H3] H4] H5] H6] H7].
  apply bool_decide_eq_true in H1, H2, H4.
  rewrite forallb_forall in H5, H6.
  repeat split; try done.
  - intros ic Hic. apply elem_of_list_In in Hic. apply H5 in Hic.
    by apply bool_decide_eq_true in Hic.
  - intros op Hop. apply elem_of_list_In in Hop. apply H6 in Hop.
    by apply bool_decide_eq_true in Hop.
Qed.

Lemma elem_of_indices {A} (l : list A) (i : N) : i ∈ indices l ↔ (N.to_nat i < length l)%nat.
Proof.
  unfold indices. rewrite elem_of_list_In, in_map_iff. split.
  - intros (x & <- & Hx). apply in_seq in Hx. lia.
  - intros Hi. exists (N.to_nat i). split; [lia|]. apply in_seq. lia.
Qed.

(** * The three mempool buckets, relative to an "alive" set *)

(** Everything except [unmined], [unmined_credits], [unmined_inputs] is the same. *)
Definition same_rest (s s' : store) : Prop :=
  blocks s' = blocks s ∧ txrecs s' = txrecs s ∧ credits s' = credits s ∧
  unspent s' = unspent s ∧ debits s' = debits s ∧ locked s' = locked s ∧ bal s' = bal s.

Lemma same_rest_refl s : same_rest s s.
Proof. by repeat split. Qed.
Lemma same_rest_trans s1 s2 s3 : same_rest s1 s2 → same_rest s2 s3 → same_rest s1 s3.
Proof. unfold same_rest. intros (?&?&?&?&?&?&?) (?&?&?&?&?&?&?). repeat split; congruence. Qed.
Lemma same_rest_set_unmined f s : same_rest s (set_unmined f s).
Proof. by repeat split. Qed.
Lemma same_rest_set_unmined_credits f s : same_rest s (set_unmined_credits f s).
Proof. by repeat split. Qed.
Lemma same_rest_set_unmined_inputs f s : same_rest s (set_unmined_inputs f s).
Proof. by repeat split. Qed.
Lemma same_rest_delete_unmined_input op h s : same_rest s (delete_unmined_input op h s).
Proof.
  unfold delete_unmined_input.
  destruct (unmined_inputs s !! op) as [[|x l]|]; try apply same_rest_refl.
  destruct (filter _ (x :: l)); apply same_rest_set_unmined_inputs.
Qed.
Lemma same_rest_put_unmined_input op h s : same_rest s (put_unmined_input op h s).
Proof. apply same_rest_set_unmined_inputs. Qed.

Lemma delete_unmined_input_unmined op h s : unmined (delete_unmined_input op h s) = unmined s.
Proof.
  unfold delete_unmined_input.
  destruct (unmined_inputs s !! op) as [[|x l]|]; try done.
  by destruct (filter _ (x :: l)).
Qed.
Lemma delete_unmined_input_unmined_credits op h s :
  unmined_credits (delete_unmined_input op h s) = unmined_credits s.
Proof.
  unfold delete_unmined_input.
  destruct (unmined_inputs s !! op) as [[|x l]|]; try done.
  by destruct (filter _ (x :: l)).
Qed.

(** [unmined_inputs] enumerates exactly the relation [R] (outpoint, spender). *)
Definition MIinv (s : store) (R : N * N → N → Prop) : Prop :=
  (∀ op l, unmined_inputs s !! op = Some l → l ≠ [] ∧ NoDup l ∧ ∀ u, u ∈ l ↔ R op u) ∧
  (∀ op u, R op u → is_Some (unmined_inputs s !! op)).

Lemma MIinv_ext s (R R' : N * N → N → Prop) :
  (∀ op u, R op u ↔ R' op u) → MIinv s R → MIinv s R'.
Proof.
  intros HR [Hs Hc]. split.
  - intros op l Hl. destruct (Hs op l Hl) as (H1 & H2 & H3).
    split; [done|]. split; [done|]. intros u. by rewrite H3.
  - intros op u Hu. apply (Hc op u). by apply HR.
Qed.

Lemma MIinv_same_mi s s' R : unmined_inputs s' = unmined_inputs s → MIinv s R → MIinv s' R.
Proof. unfold MIinv. intros ->. done. Qed.

Lemma MIinv_delete s (R : N * N → N → Prop) (op0 : N * N) (h : N) :
  MIinv s R →
  MIinv (delete_unmined_input op0 h s) (λ op u, R op u ∧ ¬ (op = op0 ∧ u = h)).
Proof.
  intros [Hs Hc]. unfold delete_unmined_input.
  destruct (unmined_inputs s !! op0) as [l0|] eqn:Hl0.
  - destruct (Hs op0 l0 Hl0) as (Hne0 & Hnd0 & Hel0).
    destruct l0 as [|x0 l0']; [done|].
    destruct (filter _ (x0 :: l0')) as [|y ys] eqn:Hf.
    + (* key deleted *)
      split; simpl.
      * intros op l Hl. apply lookup_delete_Some in Hl as [Hne Hl].
        destruct (Hs op l Hl) as (H1 & H2 & H3).
        split; [done|]. split; [done|]. intros u. rewrite H3. naive_solver.
      * intros op u [HR Hn]. destruct (decide (op = op0)) as [->|Hne].
        -- exfalso. assert (Hu : u ∈ @nil N).
           { rewrite <- Hf. apply elem_of_list_filter. split; [|by apply Hel0].
             intros ->. by apply Hn. }
           by apply elem_of_nil in Hu.
        -- rewrite lookup_delete_ne by done. by apply (Hc op u).
    + (* filtered list stored *)
      split; simpl.
      * intros op l Hl. destruct (decide (op = op0)) as [->|Hne].
        -- rewrite lookup_insert in Hl. injection Hl as <-.
           split; [done|]. rewrite <- Hf. split; [by apply NoDup_filter|].
           intros u. rewrite elem_of_list_filter, Hel0. naive_solver.
        -- rewrite lookup_insert_ne in Hl by done.
           destruct (Hs op l Hl) as (H1 & H2 & H3).
           split; [done|]. split; [done|]. intros u. rewrite H3. naive_solver.
      * intros op u [HR Hn]. destruct (decide (op = op0)) as [->|Hne].
        -- rewrite lookup_insert. by eexists.
        -- rewrite lookup_insert_ne by done. by apply (Hc op u).
  - split.
    + intros op l Hl. destruct (Hs op l Hl) as (H1 & H2 & H3).
      split; [done|]. split; [done|]. intros u. rewrite H3.
      assert (op ≠ op0) by congruence. naive_solver.
    + intros op u [HR _]. by apply (Hc op u).
Qed.

Lemma MIinv_delete_list (l : list (N * N)) (h : N) : ∀ s (R : N * N → N → Prop),
  MIinv s R →
  MIinv (foldl (λ s' op, delete_unmined_input op h s') s l) (λ op u, R op u ∧ ¬ (op ∈ l ∧ u = h)).
Proof.
  induction l as [|op0 l IH]; intros s R HM; simpl.
  - eapply MIinv_ext; [|exact HM]. intros op u. rewrite elem_of_nil. naive_solver.
  - eapply MIinv_ext; [|apply IH, MIinv_delete, HM].
    intros op u. simpl. rewrite elem_of_cons. naive_solver.
Qed.

Lemma MIinv_put s (R : N * N → N → Prop) (op0 : N * N) (h : N) :
  MIinv s R → ¬ R op0 h →
  MIinv (put_unmined_input op0 h s) (λ op u, R op u ∨ (op = op0 ∧ u = h)).
Proof.
  intros [Hs Hc] Hn. unfold put_unmined_input. split; simpl.
  - intros op l Hl. destruct (decide (op = op0)) as [->|Hne].
    + rewrite lookup_insert in Hl. injection Hl as <-.
      destruct (unmined_inputs s !! op0) as [l0|] eqn:Hl0; simpl.
      * destruct (Hs op0 l0 Hl0) as (H1 & H2 & H3).
        split; [by destruct l0|]. split.
        -- apply NoDup_app. split; [done|]. split; [|apply NoDup_singleton].
           intros x Hx Hx'. apply elem_of_list_singleton in Hx' as ->. by apply Hn, H3.
        -- intros u. rewrite elem_of_app, elem_of_list_singleton, H3. naive_solver.
      * split; [done|]. split; [apply NoDup_singleton|].
        intros u. rewrite elem_of_list_singleton. split; [naive_solver|].
        intros [HR|[_ ->]]; [|done]. apply Hc in HR. rewrite Hl0 in HR. by destruct HR.
    + rewrite lookup_insert_ne in Hl by done.
      destruct (Hs op l Hl) as (H1 & H2 & H3).
      split; [done|]. split; [done|]. intros u. rewrite H3. naive_solver.
  - intros op u Hu. destruct (decide (op = op0)) as [->|Hne].
    + rewrite lookup_insert. by eexists.
    + rewrite lookup_insert_ne by done. destruct Hu as [Hu|[? _]]; [|done]. by apply (Hc op u).
Qed.

(** * Reachability over a set of alive transactions *)
Section reach.
  Context (U : gmap N tx).

  Inductive reach (A : gset N) (roots : list N) : N → Prop :=
  | reach_root r : r ∈ roots → reach A roots r
  | reach_step p c : reach A roots p → c ∈ A → spends_output_of U c p = true → reach A roots c.

  Lemma depends_on_reach F roots c : depends_on U F roots c ↔ reach (f_unconf F) roots c.
  Proof.
    split.
    - induction 1 as [r Hr|p c' Hp IH Hc Hsp]; [by apply reach_root|by eapply reach_step].
    - induction 1 as [r Hr|p c' Hp IH Hc Hsp]; [by apply dep_root|by eapply dep_step].
  Qed.

  Lemma reach_dec A roots c : reach A roots c ∨ ¬ reach A roots c.
  Proof.
    set (F := {| f_conf := ∅; f_unconf := A; f_leases := ∅ |}).
    pose proof (descendants_ok U F roots c) as Hd. simpl in Hd.
    rewrite depends_on_reach in Hd. simpl in Hd.
    destruct (decide (c ∈ descendants U (S (length (elements A))) (elements A) roots)) as [Hin|Hin].
    - left. by apply Hd.
    - right. intros Hr. by apply Hin, Hd.
  Qed.

  Lemma reach_mono A A' roots roots' c :
    A ⊆ A' → (∀ r, r ∈ roots → r ∈ roots') → reach A roots c → reach A' roots' c.
  Proof.
    intros HA Hr. induction 1 as [r Hr'|p c' Hp IH Hc Hsp].
    - apply reach_root. by apply Hr.
    - eapply reach_step; [exact IH| |done]. by apply HA.
  Qed.

  Lemma reach_trans A roots roots' c :
    (∀ r, r ∈ roots' → reach A roots r) → reach A roots' c → reach A roots c.
  Proof.
    intros Hr. induction 1 as [r Hr'|p c' Hp IH Hc Hsp]; [by apply Hr|by eapply reach_step].
  Qed.

  Lemma reach_in A roots c : reach A roots c → c ∈ roots ∨ c ∈ A.
  Proof. destruct 1; [by left|by right]. Qed.

  Lemma reach_nil A c : ¬ reach A [] c.
  Proof. induction 1 as [r Hr|]; [by apply elem_of_nil in Hr|done]. Qed.

  Lemma spends_output_of_iff (c p : N) :
    spends_output_of U c p = true ↔ ∃ op, op ∈ tx_ins U c ∧ op.1 = p.
  Proof.
    unfold spends_output_of. rewrite existsb_exists. split.
    - intros (op & Hop & Heq). exists op. split; [by apply elem_of_list_In|].
      by apply bool_decide_eq_true in Heq.
    - intros (op & Hop & Heq). exists op. split; [by apply elem_of_list_In|].
      by apply bool_decide_eq_true.
  Qed.

  Context (Hwf : wf_universe U = true).

  Lemma tx_ins_lookup k t : U !! k = Some t → tx_ins U k = t_ins t.
  Proof. unfold tx_ins. by intros ->. Qed.

  Lemma spends_rank (c p : N) : spends_output_of U c p = true → (p < c)%N.
  Proof.
    rewrite spends_output_of_iff. intros (op & Hop & <-).
    unfold tx_ins in Hop. destruct (U !! c) as [tc|] eqn:Hc; [|by apply elem_of_nil in Hop].
    apply wf_universe_tx in Hc; [|done].
    apply wf_tx_unpack in Hc as (_ & _ & _ & _ & Hr). by apply Hr.
  Qed.

  Lemma reach_ge A (h c : N) : reach A [h] c → (h ≤ c)%N.
  Proof.
    induction 1 as [r Hr|p c' Hp IH Hc Hsp].
    - apply elem_of_list_singleton in Hr as ->. lia.
    - apply spends_rank in Hsp. lia.
  Qed.

  (** number of universe keys at or above [h]: bounds the recursion depth *)
  Definition above (h : N) : nat := size (filter (λ k, (h ≤ k)%N) (dom U)).

  Lemma above_le_size h : (above h ≤ size U)%nat.
  Proof.
    unfold above. rewrite <- (size_dom U).
    apply subseteq_size. intros k Hk. by apply elem_of_filter in Hk as [_ ?].
  Qed.

  Lemma above_lt (h c : N) : is_Some (U !! h) → (h < c)%N → (above c < above h)%nat.
  Proof.
    intros Hh Hlt. unfold above. apply subset_size.
    apply elem_of_dom in Hh.
    split.
    - intros k. rewrite !elem_of_filter. intros [? ?]. split; [lia|done].
    - intros Hsub. assert (Hin : h ∈ filter (λ k, (c ≤ k)%N) (dom U)).
      { apply Hsub. apply elem_of_filter. split; [lia|done]. }
      apply elem_of_filter in Hin as [? _]. lia.
  Qed.
End reach.

(** * (b) [remove_conflict] *)
Section remove.
  Context (U : gmap N tx) (Hwf : wf_universe U = true).

  Definition A_in_U (A : gset N) : Prop := ∀ t, t ∈ A → is_Some (U !! t).

  (** The mempool buckets describe the alive set [A]; the credits in [C] are
      already deleted (outputs of transactions on the recursion stack). *)
  Record PInv (s : store) (A : gset N) (C : gset (N * N)) : Prop := {
    pi_unmined : ∀ t, is_Some (unmined s !! t) ↔ t ∈ A;
    pi_mc : ∀ op a chg, unmined_credits s !! op = Some (a, chg) ↔
              (op.1 ∈ A ∧ is_credited U op chg ∧ a = amount_of U op ∧ op ∉ C);
    pi_mi : MIinv s (λ op u, u ∈ A ∧ op ∈ tx_ins U u);
  }.

  Lemma PInv_ext (s : store) (A A' : gset N) (C C' : gset (N * N)) :
    (∀ c, c ∈ A ↔ c ∈ A') → (∀ op, op ∈ C ↔ op ∈ C') → PInv s A C → PInv s A' C'.
  Proof.
    intros HA HC HP.
    assert (A = A') as <-. { apply leibniz_equiv. intros x. apply HA. }
    assert (C = C') as <-. { apply leibniz_equiv. intros x. apply HC. }
    done.
  Qed.

  Lemma PInv_delete_credit (s : store) (A : gset N) (C : gset (N * N)) (op0 : N * N) :
    PInv s A C → PInv (set_unmined_credits (delete op0) s) A (C ∪ {[op0]}).
  Proof.
    intros [H1 H2 H3]. split; [done| |done].
    intros op a chg. simpl. rewrite lookup_delete_Some, H2, not_elem_of_union, not_elem_of_singleton.
    naive_solver.
  Qed.

  Definition rc_inner (fuel : nat) (acc : option store) (sp : N) : option store :=
    match acc with
    | None => None
    | Some s' => match unmined s' !! sp with
                 | None => Some s'
                 | Some _ => remove_conflict U fuel sp s'
                 end
    end.

  Definition rc_step_out (fuel : nat) (h : N) (acc : option store) (i : N) : option store :=
    match acc with
    | None => None
    | Some s1 =>
      match foldl (rc_inner fuel) (Some s1) (default [] (unmined_inputs s1 !! (h, i))) with
      | None => None
      | Some s3 => Some (set_unmined_credits (delete (h, i)) s3)
      end
    end.

  Lemma remove_conflict_unfold fuel h s :
    remove_conflict U (S fuel) h s =
    match U !! h with
    | None => None
    | Some t =>
      match foldl (rc_step_out fuel h) (Some s) (indices (t_outs t)) with
      | None => None
      | Some s4 =>
        Some (set_unmined (delete h)
                (foldl (λ s' op, delete_unmined_input op h s') s4 (t_ins t)))
      end
    end.
  Proof. reflexivity. Qed.

  (** specification of one (recursive) call *)
  Definition rc_spec (fuel : nat) : Prop :=
    ∀ (h : N) (s : store) (A : gset N) (C : gset (N * N)), (above U h < fuel)%nat → A_in_U A → PInv s A C → h ∈ A →
      ∃ s' A', remove_conflict U fuel h s = Some s' ∧ PInv s' A' C ∧ same_rest s s' ∧
               (∀ c, c ∈ A' ↔ c ∈ A ∧ ¬ reach U A [h] c).

  (** loop invariant while [h] is being processed: [A] alive at entry, [Ac] alive now *)
  Record J (A : gset N) (h : N) (Ac : gset N) : Prop := {
    j_sub : Ac ⊆ A;
    j_h : h ∈ Ac;
    j_desc : ∀ c, c ∈ A → c ∉ Ac → reach U A [h] c;
    j_closed : ∀ p c, p ∈ A → p ∉ Ac → c ∈ A → spends_output_of U c p = true → c ∉ Ac;
  }.

  Lemma inner_loop (fuel : nat) (A : gset N) (h : N) (C : gset (N * N)) :
    rc_spec fuel → A_in_U A → (above U h < S fuel)%nat →
    ∀ (l : list N) (s : store) (Ac : gset N),
      (∀ sp, sp ∈ l → sp ∈ A ∧ spends_output_of U sp h = true) →
      J A h Ac → PInv s Ac C →
      ∃ s' Ac', foldl (rc_inner fuel) (Some s) l = Some s' ∧ PInv s' Ac' C ∧ same_rest s s' ∧
                J A h Ac' ∧ Ac' ⊆ Ac ∧ ∀ sp, sp ∈ l → sp ∉ Ac'.
  Proof.
    intros IHf HAU Hab. induction l as [|sp l IHl]; intros s Ac Hl HJ HP.
    - exists s, Ac. split; [done|]. split; [done|]. split; [apply same_rest_refl|].
      split; [done|]. split; [done|]. intros sp Hsp. by apply elem_of_nil in Hsp.
    - destruct (unmined s !! sp) as [[]|] eqn:Hm.
      + (* still alive: recursive call *)
        assert (HspAc : sp ∈ Ac). { apply (pi_unmined _ _ _ HP). by rewrite Hm. }
        destruct (Hl sp) as [HspA Hsph]; [by left|].
        assert (Hlt : (h < sp)%N) by by apply (spends_rank U Hwf).
        assert (HhU : is_Some (U !! h)).
        { apply HAU. apply (j_sub _ _ _ HJ), (j_h _ _ _ HJ). }
        destruct (IHf sp s Ac C) as (s1 & A1 & Hrc & HP1 & Hsr1 & HA1).
        { pose proof (above_lt U h sp HhU Hlt). lia. }
        { intros t Ht. apply HAU. by apply (j_sub _ _ _ HJ). }
        { done. }
        { done. }
        assert (HJ1 : J A h A1).
        { destruct HJ as [Hsub Hh Hdesc Hclosed]. split.
          - intros c Hc. apply HA1 in Hc as [Hc _]. by apply Hsub.
          - apply HA1. split; [done|]. intros Hr. apply (reach_ge U Hwf) in Hr. lia.
          - intros c HcA HcA1. destruct (decide (c ∈ Ac)) as [HcAc|HcAc]; [|by apply Hdesc].
            destruct (reach_dec U Ac [sp] c) as [Hr|Hr].
            + apply (reach_trans U A [h] [sp]).
              * intros r Hr'. apply elem_of_list_singleton in Hr' as ->.
                eapply reach_step; [apply reach_root; by left|done|done].
              * by apply (reach_mono U Ac A [sp] [sp]).
            + exfalso. apply HcA1. by apply HA1.
          - intros p c HpA HpA1 HcA Hsp HcA1. apply HA1 in HcA1 as [HcAc Hnr].
            destruct (decide (p ∈ Ac)) as [HpAc|HpAc].
            + destruct (reach_dec U Ac [sp] p) as [Hr|Hr].
              * apply Hnr. by eapply reach_step.
              * apply HpA1. by apply HA1.
            + by apply (Hclosed p c). }
        destruct (IHl s1 A1) as (s' & Ac' & Hf & HP' & Hsr' & HJ' & Hsub' & Hdone).
        { intros sp' Hsp'. apply Hl. by right. }
        { done. }
        { done. }
        assert (HA1sub : A1 ⊆ Ac). { intros c Hc. by apply HA1 in Hc as [? _]. }
        exists s', Ac'. split.
        { cbn [foldl]. unfold rc_inner at 2. by rewrite Hm, Hrc. }
        split; [done|]. split; [by eapply same_rest_trans|]. split; [done|].
        split; [set_solver|].
        intros sp' Hsp'. apply elem_of_cons in Hsp' as [->|Hsp']; [|by apply Hdone].
        intros Hin. apply Hsub', HA1 in Hin as [_ Hnr]. apply Hnr. apply reach_root. by left.
      + (* already removed through another path *)
        assert (HspAc : sp ∉ Ac).
        { intros Hin. apply (pi_unmined _ _ _ HP) in Hin. rewrite Hm in Hin. by destruct Hin. }
        destruct (IHl s Ac) as (s' & Ac' & Hf & HP' & Hsr' & HJ' & Hsub' & Hdone).
        { intros sp' Hsp'. apply Hl. by right. }
        { done. }
        { done. }
        exists s', Ac'. split.
        { cbn [foldl]. unfold rc_inner at 2. by rewrite Hm. }
        split; [done|]. split; [done|]. split; [done|]. split; [done|].
        intros sp' Hsp'. apply elem_of_cons in Hsp' as [->|Hsp']; [|by apply Hdone].
        intros Hin. by apply HspAc, Hsub'.
  Qed.

  Lemma outer_loop (fuel : nat) (A : gset N) (h : N) :
    rc_spec fuel → A_in_U A → (above U h < S fuel)%nat →
    ∀ (is : list N) (s : store) (Ac : gset N) (C : gset (N * N)),
      J A h Ac → PInv s Ac C →
      ∃ s' Ac', foldl (rc_step_out fuel h) (Some s) is = Some s' ∧
                PInv s' Ac' (C ∪ list_to_set ((λ i, (h, i)) <$> is)) ∧ same_rest s s' ∧
                J A h Ac' ∧ Ac' ⊆ Ac ∧
                ∀ i c, i ∈ is → c ∈ A → (h, i) ∈ tx_ins U c → c ∉ Ac'.
  Proof.
    intros IHf HAU Hab. induction is as [|i is IHis]; intros s Ac C HJ HP.
    - exists s, Ac. split; [done|]. split.
      { eapply PInv_ext; [done| |exact HP]. intros op. set_solver. }
      split; [apply same_rest_refl|]. split; [done|]. split; [done|].
      intros i c Hi. by apply elem_of_nil in Hi.
    - set (l := default [] (unmined_inputs s !! (h, i))).
      assert (Hl : ∀ sp, sp ∈ l → sp ∈ Ac ∧ (h, i) ∈ tx_ins U sp).
      { intros sp Hsp. unfold l in Hsp.
        destruct (unmined_inputs s !! (h, i)) as [l0|] eqn:Hmi; simpl in Hsp.
        - destruct (pi_mi _ _ _ HP) as [Hs _]. destruct (Hs _ _ Hmi) as (_ & _ & Hel).
          by apply Hel.
        - by apply elem_of_nil in Hsp. }
      destruct (inner_loop fuel A h C IHf HAU Hab l s Ac) as (s3 & A3 & Hf3 & HP3 & Hsr3 & HJ3 & Hsub3 & Hdone3).
      { intros sp Hsp. apply Hl in Hsp as [HspAc Hin]. split; [by apply (j_sub _ _ _ HJ)|].
        apply spends_output_of_iff. by exists (h, i). }
      { done. }
      { done. }
      apply (PInv_delete_credit _ _ _ (h, i)) in HP3.
      destruct (IHis _ A3 _ HJ3 HP3) as (s' & Ac' & Hf & HP' & Hsr' & HJ' & Hsub' & Hprog).
      exists s', Ac'. split.
      { cbn [foldl]. unfold rc_step_out at 2. fold l. by rewrite Hf3. }
      split.
      { eapply PInv_ext; [done| |exact HP']. intros op. rewrite fmap_cons. set_solver. }
      split.
      { eapply same_rest_trans; [exact Hsr3|]. eapply same_rest_trans; [|exact Hsr'].
        apply same_rest_set_unmined_credits. }
      split; [done|]. split; [set_solver|].
      intros i' c Hi' HcA Hin. apply elem_of_cons in Hi' as [->|Hi']; [|by apply (Hprog i' c)].
      intros HcAc'. apply Hsub' in HcAc'. apply (Hdone3 c); [|done].
      assert (HcAc : c ∈ Ac) by by apply Hsub3.
      destruct (pi_mi _ _ _ HP) as [Hs Hc].
      destruct (Hc (h, i) c) as [l0 Hl0]; [done|].
      unfold l. rewrite Hl0. simpl. destruct (Hs _ _ Hl0) as (_ & _ & Hel). by apply Hel.
  Qed.

  Lemma foldl_delete_unmined_input_unmined (l : list (N * N)) (h : N) (s : store) :
    unmined (foldl (λ s' op, delete_unmined_input op h s') s l) = unmined s.
  Proof.
    revert s. induction l as [|op l IH]; intros s; simpl; [done|].
    by rewrite IH, delete_unmined_input_unmined.
  Qed.
  Lemma foldl_delete_unmined_input_unmined_credits (l : list (N * N)) (h : N) (s : store) :
    unmined_credits (foldl (λ s' op, delete_unmined_input op h s') s l) = unmined_credits s.
  Proof.
    revert s. induction l as [|op l IH]; intros s; simpl; [done|].
    by rewrite IH, delete_unmined_input_unmined_credits.
  Qed.
  Lemma foldl_delete_unmined_input_same_rest (l : list (N * N)) (h : N) (s : store) :
    same_rest s (foldl (λ s' op, delete_unmined_input op h s') s l).
  Proof.
    revert s. induction l as [|op l IH]; intros s; simpl; [apply same_rest_refl|].
    eapply same_rest_trans; [apply same_rest_delete_unmined_input|apply IH].
  Qed.

  Lemma final_step (A : gset N) (h : N) (t : tx) (s4 : store) (An : gset N) (C : gset (N * N)) :
    A_in_U A → U !! h = Some t → J A h An →
    PInv s4 An (C ∪ list_to_set ((λ i, (h, i)) <$> indices (t_outs t))) →
    (∀ i c, i ∈ indices (t_outs t) → c ∈ A → (h, i) ∈ tx_ins U c → c ∉ An) →
    PInv (set_unmined (delete h) (foldl (λ s' op, delete_unmined_input op h s') s4 (t_ins t)))
         (An ∖ {[h]}) C ∧
    ∀ c, c ∈ An ∖ {[h]} ↔ c ∈ A ∧ ¬ reach U A [h] c.
  Proof.
    intros HAU Ht HJ HP Hprog.
    pose proof (ins_in_range_of_wf U Hwf) as Hrange.
    pose proof (wf_tx_unpack _ _ (wf_universe_tx U h t Hwf Ht)) as (Hid & _ & _ & Hcr & _).
    split.
    - destruct HP as [H1 H2 H3]. split.
      + intros x. simpl. rewrite foldl_delete_unmined_input_unmined, lookup_delete_is_Some, H1.
        set_solver.
      + intros op a chg. simpl. rewrite foldl_delete_unmined_input_unmined_credits, H2.
        split.
        * intros (HopA & Hcred & Ha & HnC).
          apply not_elem_of_union in HnC as [HnC HnL].
          split; [|done]. apply elem_of_difference. split; [done|].
          intros Heq. apply elem_of_singleton in Heq. apply HnL.
          apply elem_of_list_to_set, elem_of_list_fmap. exists op.2.
          split; [destruct op; simpl in *; congruence|].
          apply elem_of_indices. unfold is_credited, creds_of in Hcred.
          rewrite Heq, Ht in Hcred. apply (Hcr _ Hcred).
        * intros (HopA & Hcred & Ha & HnC).
          apply elem_of_difference in HopA as [HopA Hne].
          split; [done|]. split; [done|]. split; [done|].
          apply not_elem_of_union. split; [done|].
          intros Hin. apply elem_of_list_to_set, elem_of_list_fmap in Hin as (i & -> & _).
          apply Hne. by apply elem_of_singleton.
      + eapply MIinv_same_mi; [|eapply MIinv_ext; [|apply (MIinv_delete_list (t_ins t) h), H3]].
        { done. }
        intros op u. simpl. rewrite elem_of_difference, not_elem_of_singleton. split.
        * intros [[Hu Hop] Hn]. split; [|done]. split; [done|].
          intros ->. apply Hn. split; [|done]. by rewrite <- (tx_ins_lookup U h t Ht).
        * intros [[Hu Hne] Hop]. split; [done|]. by intros [_ ?].
    - assert (Hr : ∀ c, reach U A [h] c → c ∉ An ∨ c = h).
      { induction 1 as [r Hr|p c Hp IH Hc Hsp].
        - right. by apply elem_of_list_singleton in Hr.
        - left. destruct IH as [Hp'| ->].
          + apply (j_closed _ _ _ HJ p c); try done.
            destruct (reach_in U _ _ _ Hp) as [Hp''|]; [|done].
            apply elem_of_list_singleton in Hp'' as ->.
            apply (j_sub _ _ _ HJ), (j_h _ _ _ HJ).
          + apply spends_output_of_iff in Hsp as (op & Hop & Hop1).
            destruct op as [x i]; simpl in Hop1; subst x.
            apply (Hprog i c); [|done|done]. apply elem_of_indices.
            destruct (HAU c Hc) as [tc Htc]. rewrite (tx_ins_lookup U c tc Htc) in Hop.
            apply (Hrange c tc (h, i) t Htc Hop Ht). }
      intros c. rewrite elem_of_difference, not_elem_of_singleton. split.
      + intros [HcAn Hne]. split; [by apply (j_sub _ _ _ HJ)|].
        intros Hrc. by destruct (Hr c Hrc).
      + intros [HcA Hnr]. split.
        * destruct (decide (c ∈ An)) as [|Hn]; [done|]. exfalso. by apply Hnr, (j_desc _ _ _ HJ).
        * intros ->. apply Hnr, reach_root. by left.
  Qed.

  Lemma rc_spec_all fuel : rc_spec fuel.
  Proof.
    induction fuel as [|fuel IH]; intros h s A C Hab HAU HP Hh; [lia|].
    rewrite remove_conflict_unfold.
    destruct (HAU h Hh) as [t Ht]. rewrite Ht.
    assert (HJ0 : J A h A).
    { split; [done|done|by intros c ? ?|by intros p c ? ?]. }
    destruct (outer_loop fuel A h IH HAU Hab (indices (t_outs t)) s A C HJ0 HP)
      as (s4 & An & Hf & HP4 & Hsr4 & HJ4 & _ & Hprog).
    rewrite Hf.
    destruct (final_step A h t s4 An C HAU Ht HJ4 HP4 Hprog) as [HP' Hchar].
    eexists _, (An ∖ {[h]}). split; [done|]. split; [done|]. split; [|done].
    eapply same_rest_trans; [exact Hsr4|].
    eapply same_rest_trans; [apply (foldl_delete_unmined_input_same_rest (t_ins t) h)|].
    apply same_rest_set_unmined.
  Qed.
End remove.

(** * From [Inv] to [PInv] and back *)

Definition with_unconf (F : facts) (A : gset N) : facts :=
  {| f_conf := f_conf F; f_unconf := A; f_leases := f_leases F |}.

Lemma facts_eq (F G : facts) :
  f_conf F = f_conf G → f_unconf F = f_unconf G → f_leases F = f_leases G → F = G.
Proof. destruct F, G; simpl; congruence. Qed.

Section assemble.
  Context (U : gmap N tx).

  Lemma PInv_of_Inv (s : store) (F : facts) : Inv U s F → PInv U s (f_unconf F) ∅.
  Proof.
    intros HI. split.
    - exact (inv_unmined U s F HI).
    - intros op a chg. rewrite (inv_unmined_credits U s F HI).
      pose proof (not_elem_of_empty (C:=gset (N * N)) op). naive_solver.
    - split.
      + intros op l Hl. exact (inv_unmined_inputs_sound U s F HI op l Hl).
      + intros op u Hu. exact (inv_unmined_inputs_complete U s F HI op u Hu).
  Qed.

  (** only the clauses about the three mempool buckets depend on [f_unconf] *)
  Lemma Inv_with_unconf (s s' : store) (F : facts) (A' : gset N) :
    Inv U s F → same_rest s s' → facts_wf U (with_unconf F A') → PInv U s' A' ∅ →
    Inv U s' (with_unconf F A').
  Proof.
    intros HI (Hb & Ht & Hc & Hu & Hd & Hl & Hbal) Hwf' [P1 P2 [P3 P4]].
    split.
    - exact Hwf'.
    - rewrite Hb. exact (inv_blocks_sound U s F HI).
    - rewrite Hb. exact (inv_blocks_complete U s F HI).
    - rewrite Ht. exact (inv_txrecs U s F HI).
    - exact P1.
    - rewrite Hc. exact (inv_credits_sound U s F HI).
    - rewrite Hc. exact (inv_credits_complete U s F HI).
    - rewrite Hu. exact (inv_unspent U s F HI).
    - rewrite Hd. exact (inv_debits_sound U s F HI).
    - rewrite Hd. exact (inv_debits_complete U s F HI).
    - intros op a chg. rewrite P2.
      pose proof (not_elem_of_empty (C:=gset (N * N)) op). simpl. naive_solver.
    - intros op l Hl'. exact (P3 op l Hl').
    - intros op u Hu'. exact (P4 op u Hu').
    - rewrite Hbal, Hu. exact (inv_bal U s F HI).
    - rewrite Hl. exact (inv_locked U s F HI).
  Qed.

  Lemma facts_wf_shrink (F : facts) (A' : gset N) :
    facts_wf U F → A' ⊆ f_unconf F → facts_wf U (with_unconf F A').
  Proof.
    intros [W1 W2 W3 W4 W5 W6 W7 W8] Hsub. split; simpl.
    - intros t [Ht|Ht]; apply W1; [by left|right; by apply Hsub].
    - intros t Ht Hin. apply (W2 t Ht). by apply Hsub.
    - exact W3.
    - intros op m u Hm [Hu Hop]. apply (W4 op m u Hm). split; [by apply Hsub|done].
    - intros m h bh op Hm Hop [Hk|Hk]; apply (W5 m h bh op Hm Hop); [by left|right; by apply Hsub].
    - intros t Ht. apply W6. by apply Hsub.
    - exact W7.
    - exact W8.
  Qed.

  (** ** [remove_unconf_with_descendants] through [depends_on] *)

  Lemma rm_unconf_elem (F : facts) (roots : list N) (c : N) :
    c ∈ f_unconf (remove_unconf_with_descendants U F roots) ↔
    c ∈ f_unconf F ∧ ¬ depends_on U F roots c.
  Proof.
    unfold remove_unconf_with_descendants. simpl.
    rewrite elem_of_filter. rewrite (descendants_ok U F roots c). tauto.
  Qed.

  Lemma rm_conf (F : facts) roots : f_conf (remove_unconf_with_descendants U F roots) = f_conf F.
  Proof. done. Qed.
  Lemma rm_leases (F : facts) roots : f_leases (remove_unconf_with_descendants U F roots) = f_leases F.
  Proof. done. Qed.

  Lemma rm_eq_with_unconf (F : facts) (roots : list N) (A' : gset N) :
    (∀ c, c ∈ A' ↔ c ∈ f_unconf F ∧ ¬ depends_on U F roots c) →
    remove_unconf_with_descendants U F roots = with_unconf F A'.
  Proof.
    intros HA. apply facts_eq; [done| |done].
    apply leibniz_equiv. intros c. rewrite rm_unconf_elem. simpl. by rewrite HA.
  Qed.
End assemble.

Lemma remove_conflict_ok U : remove_conflict_correct U.
Proof.
  intros s F t Hwf HI Ht.
  destruct (rc_spec_all U Hwf (fuel_of U) t s (f_unconf F) ∅) as (s' & A' & Hrc & HP' & Hsr & HA').
  - unfold fuel_of. pose proof (above_le_size U t). lia.
  - intros x Hx. apply (fw_in_universe U F (inv_wf U s F HI)). by right.
  - by apply PInv_of_Inv.
  - done.
  - exists s'. split; [done|].
    rewrite (rm_eq_with_unconf U F [t] A').
    + apply (Inv_with_unconf U s s' F A'); [done|done| |done].
      apply facts_wf_shrink; [exact (inv_wf U s F HI)|].
      intros c Hc. by apply HA' in Hc as [? _].
    + intros c. rewrite HA'. by rewrite depends_on_reach.
Qed.

Lemma step_preserves_abandon U t : step_preserves U (Abandon t).
Proof.
  intros m sm Hwf HI Hclk Hok. simpl in Hok. apply bool_decide_eq_true in Hok.
  destruct (remove_conflict_ok U (st m) (fs sm) t Hwf HI Hok) as (s' & Hrc & HI').
  cbn [step]. rewrite Hrc. cbn. split; [done|]. split; [exact HI'|done].
Qed.

(** * Composition lemmas for [remove_unconf_with_descendants] (for the other proof files) *)
Section compose.
  Context (U : gmap N tx).
  Local Notation rm := (remove_unconf_with_descendants U).

  Lemma depends_on_dec (F : facts) (roots : list N) (c : N) :
    depends_on U F roots c ∨ ¬ depends_on U F roots c.
  Proof. rewrite depends_on_reach. apply reach_dec. Qed.

  Lemma depends_on_mono (F F' : facts) (roots roots' : list N) (c : N) :
    f_unconf F ⊆ f_unconf F' → (∀ r, r ∈ roots → r ∈ roots') →
    depends_on U F roots c → depends_on U F' roots' c.
  Proof. rewrite !depends_on_reach. apply reach_mono. Qed.

  Lemma depends_on_trans (F : facts) (roots roots' : list N) (c : N) :
    (∀ r, r ∈ roots' → depends_on U F roots r) → depends_on U F roots' c → depends_on U F roots c.
  Proof.
    intros Hr. rewrite !depends_on_reach. apply reach_trans.
    intros r Hr'. rewrite <- depends_on_reach. by apply Hr.
  Qed.

  Lemma depends_on_nil (F : facts) (c : N) : ¬ depends_on U F [] c.
  Proof. rewrite depends_on_reach. apply reach_nil. Qed.

  Lemma depends_on_app (F : facts) (r1 r2 : list N) (c : N) :
    depends_on U F (r1 ++ r2) c ↔ depends_on U F r1 c ∨ depends_on U F r2 c.
  Proof.
    split.
    - induction 1 as [r Hr|p c Hp IH Hc Hsp].
      + apply elem_of_app in Hr as [Hr|Hr]; [left|right]; by apply dep_root.
      + destruct IH as [IH|IH]; [left|right]; by eapply dep_step.
    - intros [H|H]; (eapply depends_on_mono; [done| |exact H]); intros r Hr; apply elem_of_app; auto.
  Qed.

  Lemma depends_on_in (F : facts) (roots : list N) (c : N) :
    depends_on U F roots c → c ∈ roots ∨ c ∈ f_unconf F.
  Proof. destruct 1; [by left|by right]. Qed.

  Lemma rm_unconf_subseteq (F : facts) (roots : list N) : f_unconf (rm F roots) ⊆ f_unconf F.
  Proof. intros c Hc. by apply rm_unconf_elem in Hc as [? _]. Qed.

  Lemma rm_roots_gone (F : facts) (roots : list N) (r : N) : r ∈ roots → r ∉ f_unconf (rm F roots).
  Proof. intros Hr Hin. apply rm_unconf_elem in Hin as [_ Hn]. by apply Hn, dep_root. Qed.

  (** the result only depends on which unconfirmed transactions are reachable *)
  Lemma rm_ext_unconf (F : facts) (r1 r2 : list N) :
    (∀ c, c ∈ f_unconf F → (depends_on U F r1 c ↔ depends_on U F r2 c)) → rm F r1 = rm F r2.
  Proof.
    intros H. apply facts_eq; [done| |done]. apply leibniz_equiv. intros c.
    rewrite !rm_unconf_elem. split; intros [Hc Hn]; (split; [done|]); by rewrite (H c Hc) in *.
  Qed.

  Lemma rm_ext_dep (F : facts) (r1 r2 : list N) :
    (∀ x, x ∈ r1 → depends_on U F r2 x) → (∀ x, x ∈ r2 → depends_on U F r1 x) → rm F r1 = rm F r2.
  Proof.
    intros H1 H2. apply rm_ext_unconf. intros c _. split; by apply depends_on_trans.
  Qed.

  Lemma rm_ext (F : facts) (r1 r2 : list N) : (∀ x, x ∈ r1 ↔ x ∈ r2) → rm F r1 = rm F r2.
  Proof. intros H. apply rm_ext_dep; intros x Hx; apply dep_root; by apply H. Qed.

  Lemma rm_nil (F : facts) : rm F [] = F.
  Proof.
    apply facts_eq; [done| |done]. apply leibniz_equiv. intros c. rewrite rm_unconf_elem.
    pose proof (depends_on_nil F c). tauto.
  Qed.

  Lemma depends_on_rm (F : facts) (r1 r2 : list N) (c : N) :
    depends_on U (rm F r1) r2 c → depends_on U F r2 c.
  Proof. apply depends_on_mono; [apply rm_unconf_subseteq|done]. Qed.

  Lemma depends_on_rm_split (F : facts) (r1 r2 : list N) (c : N) :
    depends_on U F (r1 ++ r2) c → depends_on U F r1 c ∨ depends_on U (rm F r1) r2 c.
  Proof.
    induction 1 as [r Hr|p c Hp IH Hc Hsp].
    - apply elem_of_app in Hr as [Hr|Hr]; [left|right]; by apply dep_root.
    - destruct IH as [IH|IH]; [left; by eapply dep_step|].
      destruct (depends_on_dec F r1 c) as [Hd|Hd]; [by left|]. right.
      eapply dep_step; [exact IH| |done]. by apply rm_unconf_elem.
  Qed.

  (** removing [r1] and then [r2] = removing [r1 ++ r2] *)
  Lemma rm_rm (F : facts) (r1 r2 : list N) : rm (rm F r1) r2 = rm F (r1 ++ r2).
  Proof.
    apply facts_eq; [done| |done]. apply leibniz_equiv. intros c.
    rewrite !rm_unconf_elem. split.
    - intros [[Hc Hn1] Hn2]. split; [done|]. intros Hd.
      by destruct (depends_on_rm_split F r1 r2 c Hd).
    - intros [Hc Hn]. split; [split; [done|]|].
      + intros Hd. apply Hn, depends_on_app. by left.
      + intros Hd. apply Hn, depends_on_app. right. by eapply depends_on_rm.
  Qed.

  Lemma rm_idemp (F : facts) (r : list N) : rm (rm F r) r = rm F r.
  Proof. rewrite rm_rm. apply rm_ext. intros x. rewrite elem_of_app. tauto. Qed.

  Lemma rm_absorb (F : facts) (r1 r2 : list N) :
    (∀ b, b ∈ r2 → depends_on U F r1 b) → rm F (r1 ++ r2) = rm F r1.
  Proof.
    intros H. apply rm_ext_dep.
    - intros x Hx. apply elem_of_app in Hx as [Hx|Hx]; [by apply dep_root|by apply H].
    - intros x Hx. apply dep_root, elem_of_app. by left.
  Qed.

  Lemma rm_comm (F : facts) (r1 r2 : list N) : rm (rm F r1) r2 = rm (rm F r2) r1.
  Proof. rewrite !rm_rm. apply rm_ext. intros x. rewrite !elem_of_app. tauto. Qed.

  Lemma rm_two (F : facts) (a b : N) : rm (rm F [a]) [b] = rm F [a; b].
  Proof. by rewrite rm_rm. Qed.

  (** a root that is neither unconfirmed nor spent by an unconfirmed tx is irrelevant;
      more generally roots may be dropped when nothing unconfirmed depends on them *)
  Lemma rm_drop_roots (F : facts) (r1 r2 : list N) :
    (∀ c, c ∈ f_unconf F → depends_on U F r2 c → depends_on U F r1 c) → rm F (r1 ++ r2) = rm F r1.
  Proof.
    intros H. apply rm_ext_unconf. intros c Hc. rewrite depends_on_app. split; [|by left].
    intros [Hd|Hd]; [done|by apply H].
  Qed.
End compose.

(** * Loop lemmas at the level of the mempool buckets ([PInv]) *)
Section pinv_compose.
  Context (U : gmap N tx) (Hwf : wf_universe U = true).
  Local Notation rm := (remove_unconf_with_descendants U).

  Lemma A_in_U_rm (F : facts) (roots : list N) :
    A_in_U U (f_unconf F) → A_in_U U (f_unconf (rm F roots)).
  Proof. intros H t Ht. apply H. by apply (rm_unconf_subseteq U F roots). Qed.

  Lemma A_in_U_of_Inv (s : store) (F : facts) : Inv U s F → A_in_U U (f_unconf F).
  Proof. intros HI x Hx. apply (fw_in_universe U F (inv_wf U s F HI)). by right. Qed.

  (** [remove_conflict] needs only the three mempool buckets *)
  Lemma remove_conflict_PInv (s : store) (F : facts) (C : gset (N * N)) (t : N) :
    A_in_U U (f_unconf F) → PInv U s (f_unconf F) C → t ∈ f_unconf F →
    ∃ s', remove_conflict U (fuel_of U) t s = Some s' ∧
          PInv U s' (f_unconf (rm F [t])) C ∧ same_rest s s'.
  Proof.
    intros HAU HP Ht.
    destruct (rc_spec_all U Hwf (fuel_of U) t s (f_unconf F) C) as (s' & A' & Hrc & HP' & Hsr & HA').
    - unfold fuel_of. pose proof (above_le_size U t). lia.
    - done.
    - done.
    - done.
    - exists s'. split; [done|]. split; [|done].
      eapply PInv_ext; [|done|exact HP'].
      intros c. by rewrite HA', rm_unconf_elem, depends_on_reach.
  Qed.

  Lemma Inv_rm (s s' : store) (F : facts) (roots : list N) :
    Inv U s F → same_rest s s' → PInv U s' (f_unconf (rm F roots)) ∅ → Inv U s' (rm F roots).
  Proof.
    intros HI Hsr HP.
    assert (Heq : rm F roots = with_unconf F (f_unconf (rm F roots))) by by apply facts_eq.
    rewrite Heq. apply (Inv_with_unconf U s s'); [done|done| |done].
    apply facts_wf_shrink; [exact (inv_wf U s F HI)|apply rm_unconf_subseteq].
  Qed.

  Lemma rm_cons_filter (F : facts) (a : N) (l : list N) :
    rm (rm F [a]) (filter (λ x, x ∈ f_unconf (rm F [a])) l) =
    rm F (a :: filter (λ x, x ∈ f_unconf F) l).
  Proof.
    rewrite rm_rm.
    change (a :: filter (λ x, x ∈ f_unconf F) l) with ([a] ++ filter (λ x, x ∈ f_unconf F) l).
    apply rm_ext_unconf.
    intros c _. rewrite !(depends_on_app U F [a]).
    split; (intros [Hd|Hd]; [by left|]).
    - right. eapply depends_on_mono; [done| |exact Hd].
      intros r Hr. apply elem_of_list_filter in Hr as [Hr Hrl].
      apply elem_of_list_filter. split; [|done]. by apply (rm_unconf_subseteq U F [a]).
    - induction Hd as [r Hr|p c' Hp IHp Hc' Hsp].
      + apply elem_of_list_filter in Hr as [HrF Hrl].
        destruct (depends_on_dec U F [a] r) as [Hdr|Hdr]; [by left|right].
        apply dep_root. apply elem_of_list_filter. split; [|done]. by apply rm_unconf_elem.
      + destruct IHp as [Hl|Hr']; [left|right]; by eapply dep_step.
  Qed.

  (** Removing a list of candidates one after the other, skipping those that
      are not (or no longer) in [unmined]; [f] is any step function that
      agrees with [rc_inner] while the alive set satisfies [P]. *)
  Lemma remove_list_PInv_gen (f : option store → N → option store) (P : gset N → Prop) :
    (∀ (s : store) (A : gset N) (C : gset (N * N)) (ds : N),
        PInv U s A C → P A → f (Some s) ds = rc_inner U (fuel_of U) (Some s) ds) →
    (∀ A A' : gset N, A' ⊆ A → P A → P A') →
    ∀ (l : list N) (s : store) (F : facts) (C : gset (N * N)),
      A_in_U U (f_unconf F) → P (f_unconf F) → PInv U s (f_unconf F) C →
      ∃ s', foldl f (Some s) l = Some s' ∧
            PInv U s' (f_unconf (rm F (filter (λ x, x ∈ f_unconf F) l))) C ∧ same_rest s s'.
  Proof.
    intros Hf HPmono. induction l as [|a l IH]; intros s F C HAU HPA HP.
    - exists s. split; [done|]. split; [|apply same_rest_refl]. by rewrite filter_nil, rm_nil.
    - cbn [foldl]. rewrite (Hf s _ C a HP HPA). unfold rc_inner. rewrite filter_cons.
      destruct (unmined s !! a) as [[]|] eqn:Hm.
      + assert (Ha : a ∈ f_unconf F). { apply (pi_unmined U s _ C HP). by rewrite Hm. }
        destruct (remove_conflict_PInv s F C a HAU HP Ha) as (s1 & Hrc & HP1 & Hsr1).
        rewrite Hrc.
        destruct (IH s1 (rm F [a]) C) as (s' & Hfold & HP' & Hsr').
        { by apply A_in_U_rm. }
        { eapply HPmono; [|exact HPA]. apply rm_unconf_subseteq. }
        { done. }
        exists s'. split; [done|]. rewrite decide_True by done.
        rewrite rm_cons_filter in HP'. split; [done|]. by eapply same_rest_trans.
      + assert (Ha : a ∉ f_unconf F).
        { intros Hin. apply (pi_unmined U s _ C HP) in Hin. rewrite Hm in Hin. by destruct Hin. }
        rewrite decide_False by done. by apply IH.
  Qed.

  Lemma depends_on_roots_exists (F : facts) (R : list N) (c : N) :
    depends_on U F R c ↔ ∃ u, u ∈ R ∧ depends_on U F [u] c.
  Proof.
    split.
    - induction 1 as [r Hr|p c Hp IH Hc Hsp].
      + exists r. split; [done|]. apply dep_root. by left.
      + destruct IH as (u & Hu & Hd). exists u. split; [done|]. by eapply dep_step.
    - intros (u & Hu & Hd). eapply depends_on_mono; [done| |exact Hd].
      intros r Hr. by apply elem_of_list_singleton in Hr as ->.
  Qed.

  (** one more outpoint whose unconfirmed spenders [R] are removed first *)
  Lemma spenders_char_step (F : facts) (R : list N) (op : N * N) (ops : list (N * N)) (c : N) :
    (∀ u, u ∈ R ↔ unconf_spender U F op u) →
    (c ∈ f_unconf (rm F R) ∧
     ¬ ∃ op' u, op' ∈ ops ∧ unconf_spender U (rm F R) op' u ∧ depends_on U (rm F R) [u] c) ↔
    (c ∈ f_unconf F ∧
     ¬ ∃ op' u, op' ∈ op :: ops ∧ unconf_spender U F op' u ∧ depends_on U F [u] c).
  Proof.
    intros HR. rewrite rm_unconf_elem. split.
    - intros [[Hc HnR] Hn]. split; [done|].
      intros (op' & u & Hop' & Hu & Hd). apply elem_of_cons in Hop' as [->|Hop'].
      + apply HnR. apply depends_on_roots_exists. exists u. split; [by apply HR|done].
      + destruct (depends_on_dec U F R u) as [HdRu|HdRu].
        * apply HnR. eapply depends_on_trans; [|exact Hd].
          intros r Hr. by apply elem_of_list_singleton in Hr as ->.
        * assert (Hd' : depends_on U F (R ++ [u]) c).
          { apply depends_on_app. by right. }
          apply depends_on_rm_split in Hd' as [Hd'|Hd']; [done|].
          apply Hn. exists op', u. split; [done|]. split; [|done].
          destruct Hu as [Hu Hin]. split; [|done]. by apply rm_unconf_elem.
    - intros [Hc Hn]. split; [split; [done|]|].
      + intros Hd. apply depends_on_roots_exists in Hd as (u & Hu & Hd).
        apply Hn. exists op, u. split; [by left|]. split; [by apply HR|done].
      + intros (op' & u & Hop' & [Hu Hin] & Hd). apply Hn. exists op', u.
        split; [by right|]. split.
        * split; [by apply (rm_unconf_subseteq U F R)|done].
        * by eapply depends_on_rm.
  Qed.

  Definition spenders_step (f : option store → N → option store)
      (acc : option store) (op : N * N) : option store :=
    match acc with
    | None => None
    | Some s' => foldl f (Some s') (default [] (unmined_inputs s' !! op))
    end.

  (** For every outpoint of [ops]: remove every unconfirmed spender (list read
      from [unmined_inputs] when the outpoint's turn comes) with its descendants. *)
  Lemma remove_spenders_PInv_gen (f : option store → N → option store) (P : gset N → Prop) :
    (∀ (s : store) (A : gset N) (C : gset (N * N)) (ds : N),
        PInv U s A C → P A → f (Some s) ds = rc_inner U (fuel_of U) (Some s) ds) →
    (∀ A A' : gset N, A' ⊆ A → P A → P A') →
    ∀ (ops : list (N * N)) (s : store) (F : facts) (C : gset (N * N)),
      A_in_U U (f_unconf F) → P (f_unconf F) → PInv U s (f_unconf F) C →
      ∃ s' A', foldl (spenders_step f) (Some s) ops = Some s' ∧ PInv U s' A' C ∧ same_rest s s' ∧
        ∀ c, c ∈ A' ↔
             c ∈ f_unconf F ∧
             ¬ ∃ op u, op ∈ ops ∧ unconf_spender U F op u ∧ depends_on U F [u] c.
  Proof.
    intros Hf HPmono. induction ops as [|op ops IH]; intros s F C HAU HPA HP.
    - exists s, (f_unconf F). split; [done|]. split; [done|]. split; [apply same_rest_refl|].
      intros c. split; [|by intros [? _]]. intros Hc. split; [done|].
      intros (op & u & Hop & _). by apply elem_of_nil in Hop.
    - cbn [foldl]. unfold spenders_step at 2.
      set (l := default [] (unmined_inputs s !! op)).
      destruct (remove_list_PInv_gen f P Hf HPmono l s F C HAU HPA HP) as (s1 & Hfold1 & HP1 & Hsr1).
      rewrite Hfold1.
      set (R := filter (λ x, x ∈ f_unconf F) l) in *.
      assert (HR : ∀ u, u ∈ R ↔ unconf_spender U F op u).
      { intros u. unfold R, l. rewrite elem_of_list_filter.
        destruct (pi_mi U s _ C HP) as [Hs Hc].
        destruct (unmined_inputs s !! op) as [l0|] eqn:Hl0; simpl.
        - destruct (Hs op l0 Hl0) as (_ & _ & Hel). rewrite Hel. unfold unconf_spender. tauto.
        - rewrite elem_of_nil. split; [tauto|]. intros [Hu Hin].
          destruct (Hc op u) as [? Hsome]; [done|]. rewrite Hl0 in Hsome. done. }
      destruct (IH s1 (rm F R) C) as (s' & A' & Hfold & HP' & Hsr' & HA').
      { by apply A_in_U_rm. }
      { eapply HPmono; [|exact HPA]. apply rm_unconf_subseteq. }
      { done. }
      exists s', A'. split; [done|]. split; [done|]. split; [by eapply same_rest_trans|].
      intros c. rewrite HA'. by apply spenders_char_step.
  Qed.

  (** the alive set after [remove_spenders] as an [rm] *)
  Lemma spenders_char_rm (F : facts) (ops : list (N * N)) (R : list N) (A' : gset N) :
    (∀ u, u ∈ R ↔ ∃ op, op ∈ ops ∧ unconf_spender U F op u) →
    (∀ c, c ∈ A' ↔ c ∈ f_unconf F ∧
                   ¬ ∃ op u, op ∈ ops ∧ unconf_spender U F op u ∧ depends_on U F [u] c) →
    A' = f_unconf (rm F R).
  Proof.
    intros HR HA'. apply leibniz_equiv. intros c.
    rewrite HA', rm_unconf_elem, depends_on_roots_exists. split.
    - intros [Hc Hn]. split; [done|]. intros (u & Hu & Hd). apply HR in Hu as (op & Hop & Hu).
      apply Hn. by exists op, u.
    - intros [Hc Hn]. split; [done|]. intros (op & u & Hop & Hu & Hd). apply Hn.
      exists u. split; [|done]. apply HR. by exists op.
  Qed.

  (** ** Instances *)

  Lemma remove_list_PInv (l : list N) (s : store) (F : facts) (C : gset (N * N)) :
    A_in_U U (f_unconf F) → PInv U s (f_unconf F) C →
    ∃ s', foldl (rc_inner U (fuel_of U)) (Some s) l = Some s' ∧
          PInv U s' (f_unconf (rm F (filter (λ x, x ∈ f_unconf F) l))) C ∧ same_rest s s'.
  Proof.
    intros HAU HP.
    by apply (remove_list_PInv_gen (rc_inner U (fuel_of U)) (λ _, True)).
  Qed.

  (** [rollback]'s clean-up after detached coinbases has this shape *)
  Lemma remove_spenders_PInv (ops : list (N * N)) (s : store) (F : facts) (C : gset (N * N)) :
    A_in_U U (f_unconf F) → PInv U s (f_unconf F) C →
    ∃ s' A', foldl (spenders_step (rc_inner U (fuel_of U))) (Some s) ops = Some s' ∧
      PInv U s' A' C ∧ same_rest s s' ∧
      ∀ c, c ∈ A' ↔
           c ∈ f_unconf F ∧
           ¬ ∃ op u, op ∈ ops ∧ unconf_spender U F op u ∧ depends_on U F [u] c.
  Proof.
    intros HAU HP.
    by apply (remove_spenders_PInv_gen (rc_inner U (fuel_of U)) (λ _, True)).
  Qed.

  (** [removeDoubleSpends] *)
  Definition rds_inner (fuel : nat) (tid : N) (acc : option store) (ds : N) : option store :=
    match acc with
    | None => None
    | Some s' =>
      if bool_decide (ds = tid) then Some s'
      else match unmined s' !! ds with
           | None => Some s'
           | Some _ => remove_conflict U fuel ds s'
           end
    end.

  Lemma remove_double_spends_unfold (fuel : nat) (t : tx) (s : store) :
    remove_double_spends U fuel t s =
    foldl (spenders_step (rds_inner fuel (t_id t))) (Some s) (t_ins t).
  Proof. reflexivity. Qed.

  Lemma remove_double_spends_PInv (t : tx) (s : store) (F : facts) (C : gset (N * N)) :
    A_in_U U (f_unconf F) → t_id t ∉ f_unconf F → PInv U s (f_unconf F) C →
    ∃ s' A', remove_double_spends U (fuel_of U) t s = Some s' ∧ PInv U s' A' C ∧ same_rest s s' ∧
      ∀ c, c ∈ A' ↔
           c ∈ f_unconf F ∧
           ¬ ∃ op u, op ∈ t_ins t ∧ unconf_spender U F op u ∧ depends_on U F [u] c.
  Proof.
    intros HAU Ht HP. rewrite remove_double_spends_unfold.
    apply (remove_spenders_PInv_gen (rds_inner (fuel_of U) (t_id t)) (λ A, t_id t ∉ A)); try done.
    - intros s0 A C0 ds HP0 HA. unfold rds_inner, rc_inner.
      destruct (bool_decide (ds = t_id t)) eqn:Hds; [|done].
      apply bool_decide_eq_true in Hds as ->.
      destruct (unmined s0 !! t_id t) eqn:Hm; [|done].
      exfalso. apply HA. apply (pi_unmined U s0 A C0 HP0). by rewrite Hm.
    - intros A A' Hsub HA Hin. by apply HA, Hsub.
  Qed.

  (** ** [Inv]-level corollaries *)

  Lemma remove_list_ok (l : list N) (s : store) (F : facts) :
    Inv U s F →
    ∃ s', foldl (rc_inner U (fuel_of U)) (Some s) l = Some s' ∧
          Inv U s' (rm F (filter (λ x, x ∈ f_unconf F) l)).
  Proof.
    intros HI.
    destruct (remove_list_PInv l s F ∅) as (s' & Hf & HP' & Hsr).
    - by eapply A_in_U_of_Inv.
    - by apply PInv_of_Inv.
    - exists s'. split; [done|]. by apply (Inv_rm s s').
  Qed.

  Lemma remove_spenders_ok (ops : list (N * N)) (R : list N) (s : store) (F : facts) :
    Inv U s F → (∀ u, u ∈ R ↔ ∃ op, op ∈ ops ∧ unconf_spender U F op u) →
    ∃ s', foldl (spenders_step (rc_inner U (fuel_of U))) (Some s) ops = Some s' ∧
          Inv U s' (rm F R).
  Proof.
    intros HI HR.
    destruct (remove_spenders_PInv ops s F ∅) as (s' & A' & Hf & HP' & Hsr & HA').
    - by eapply A_in_U_of_Inv.
    - by apply PInv_of_Inv.
    - exists s'. split; [done|]. apply (Inv_rm s s'); [done|done|].
      by rewrite <- (spenders_char_rm F ops R A').
  Qed.
End pinv_compose.

(** the clean-up loop at the end of [rollback], literally *)
Lemma rollback_cleanup_unfold (U : gmap N tx) (fuel : nat) (s2 : store) (cbc : list (N * N)) :
  foldl (fun (acc : option store) op =>
           match acc with
           | None => None
           | Some s' =>
             foldl (fun (acc : option store) sp =>
               match acc with
               | None => None
               | Some s'' =>
                 match unmined s'' !! sp with
                 | None => Some s''
                 | Some _ => remove_conflict U fuel sp s''
                 end
               end) (Some s') (default [] (unmined_inputs s' !! op))
           end) (Some s2) cbc =
  foldl (spenders_step (rc_inner U fuel)) (Some s2) cbc.
Proof. reflexivity. Qed.
