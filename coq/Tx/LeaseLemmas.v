(** Direct consequences of the lease operations of the model (no invariant
    needed): the clauses of C12 that speak about one operation. *)
From stdpp Require Import gmap list numbers sorting.
From Coq Require Import ZArith NArith.
From Verif Require Import Tx.Store.
Local Open Scope Z_scope.

Lemma is_locked_Some s op now l :
  is_locked s op now = Some l ↔ locked s !! op = Some l ∧ now < l_expiry l.
Proof.
  unfold is_locked. destruct (locked s !! op) as [l0|] eqn:E.
  - case_bool_decide as Hlt; split.
    + intros [= ->]. done.
    + intros [[= ->] _]. done.
    + done.
    + intros [[= ->] ?]. lia.
  - split; [done | intros [? _]; done].
Qed.

(** available again exactly when the expiry instant is reached (or no lease) *)
Lemma is_locked_None s op now :
  is_locked s op now = None ↔ (locked s !! op = None ∨ ∃ l, locked s !! op = Some l ∧ l_expiry l <= now).
Proof.
  unfold is_locked. destruct (locked s !! op) as [l0|] eqn:E.
  - case_bool_decide as Hlt; split.
    + done.
    + intros [?|(l & [= ->] & ?)]; [done | lia].
    + intros _. right. exists l0. split; [done | lia].
    + done.
  - split; [by left | done].
Qed.

Lemma lease_unknown_output_rejected id op dur now s :
  is_known_output s op = false → lock_output id op dur now s = (ErrUnknownOutput, s).
Proof. unfold lock_output. intros ->. done. Qed.

Lemma lease_other_id_rejected id op dur now s l :
  is_known_output s op = true → is_locked s op now = Some l → l_id l ≠ id →
  lock_output id op dur now s = (ErrAlreadyLocked, s).
Proof.
  unfold lock_output. intros -> -> Hne. simpl. case_bool_decide; [done | done].
Qed.

Lemma lease_same_id_extends id op dur now s l :
  is_known_output s op = true → is_locked s op now = Some l → l_id l = id →
  ∃ s', lock_output id op dur now s = (LockOk (now + dur), s') ∧
        locked s' !! op = Some {| l_id := id; l_expiry := trunc_sec (now + dur) |} ∧
        (∀ op', op' ≠ op → locked s' !! op' = locked s !! op').
Proof.
  unfold lock_output. intros -> -> <-. simpl. rewrite bool_decide_eq_true_2 by done.
  eexists. split; [done|]. destruct s; simpl. split.
  - by rewrite lookup_insert.
  - intros op' Hne. by rewrite lookup_insert_ne.
Qed.

Lemma lease_free_output_locks id op dur now s :
  is_known_output s op = true → is_locked s op now = None →
  ∃ s', lock_output id op dur now s = (LockOk (now + dur), s') ∧
        locked s' !! op = Some {| l_id := id; l_expiry := trunc_sec (now + dur) |} ∧
        (∀ op', op' ≠ op → locked s' !! op' = locked s !! op').
Proof.
  unfold lock_output. intros -> ->. simpl.
  eexists. split; [done|]. destruct s; simpl. split.
  - by rewrite lookup_insert.
  - intros op' Hne. by rewrite lookup_insert_ne.
Qed.

Lemma release_other_id_rejected id op now s l :
  is_known_output s op = true → is_locked s op now = Some l → l_id l ≠ id →
  unlock_output id op now s = (ErrUnlockNotAllowed, s).
Proof.
  unfold unlock_output. intros -> -> Hne. simpl. case_bool_decide; done.
Qed.

Lemma release_owner_frees id op now s l :
  is_known_output s op = true → is_locked s op now = Some l → l_id l = id →
  ∃ s', unlock_output id op now s = (UnlockOk, s') ∧ is_locked s' op now = None ∧
        (∀ op', op' ≠ op → locked s' !! op' = locked s !! op').
Proof.
  unfold unlock_output. intros -> -> <-. simpl. rewrite bool_decide_eq_true_2 by done.
  eexists. split; [done|]. unfold is_locked, unlock_raw. destruct s; simpl. split.
  - by rewrite lookup_delete.
  - intros op' Hne. by rewrite lookup_delete_ne.
Qed.

(** the operations touch nothing but the lease bucket *)
Lemma lock_output_only_leases id op dur now s r s' :
  lock_output id op dur now s = (r, s') →
  blocks s' = blocks s ∧ txrecs s' = txrecs s ∧ credits s' = credits s ∧ unspent s' = unspent s ∧
  debits s' = debits s ∧ unmined s' = unmined s ∧ unmined_credits s' = unmined_credits s ∧
  unmined_inputs s' = unmined_inputs s ∧ bal s' = bal s.
Proof.
  unfold lock_output. destruct (negb (is_known_output s op)); [intros [= <- <-]; done|].
  destruct (is_locked s op now) as [l|]; [case_bool_decide|]; intros [= <- <-]; destruct s; done.
Qed.

(** a leased output is not in the spendable set *)
Lemma leased_not_spendable U s op now :
  is_locked_b s op now = true → ∀ u, u ∈ unspent_outputs U s now → u_op u ≠ op.
Proof.
  intros Hl u Hu. unfold unspent_outputs, fetch_credits in Hu.
  apply elem_of_app in Hu as [Hu|Hu]; apply elem_of_list_omap in Hu as ([op' v] & _ & Hu); simpl in Hu.
  - destruct v as [h bh].
    destruct (is_locked_b s op' now) eqn:E; simpl in Hu; [done|].
    destruct (negb _) in Hu; simpl in Hu; [|done].
    destruct (U !! op'.1); [|done]. injection Hu as <-. simpl. intros ->. congruence.
  - destruct (is_locked_b s op' now) eqn:E; simpl in Hu; [done|].
    destruct (negb _) in Hu; simpl in Hu; [|done].
    destruct (unmined s !! op'.1); [|done]. destruct (U !! op'.1); [|done].
    injection Hu as <-. simpl. intros ->. congruence.
Qed.
