(** Observation correctness under the refinement invariant: the model's
    [balance], [unspent_outputs], [tx_details]/[unique_tx_details]/
    [unmined_hashes] agree with the ledger specification (the statements at
    the end of Inv.v).  Owner: prover-obs. *)
From stdpp Require Import gmap list numbers sorting.
From Coq Require Import ZArith NArith Lia.
From Verif Require Import Tx.Store Tx.Ledger Tx.Hist Tx.Inv.
Local Open Scope Z_scope.

(** * Well-formed universe toolkit *)

Record wf_tx_P (k : txid) (t : tx) : Prop := {
  wt_id : t_id t = k;
  wt_ins_nodup : NoDup (t_ins t);
  wt_outs_pos : ∀ a, a ∈ t_outs t → 0 < a;
  wt_creds_nodup : NoDup (map fst (t_creds t));
  wt_creds_range : ∀ ic, ic ∈ t_creds t → (N.to_nat ic.1 < length (t_outs t))%nat;
  wt_ins_lt : ∀ op, op ∈ t_ins t → (op.1 < k)%N;
  wt_coinbase : t_coinbase t = true → t_ins t = [];
}.

Lemma forallb_elem_of {A} (f : A → bool) l :
  forallb f l = true → ∀ x, x ∈ l → f x = true.
Proof.
  intros H x Hx. rewrite forallb_forall in H. apply H. by apply elem_of_list_In.
Qed.

Lemma wf_tx_spec k t : wf_tx k t = true → wf_tx_P k t.
Proof.
  unfold wf_tx. rewrite !andb_true_iff.
  intros [[[[[[H1 H2] H3] H4] H5] H6] H7].
  apply bool_decide_eq_true in H1. apply bool_decide_eq_true in H2.
  apply bool_decide_eq_true in H4.
  split; try done.
  - intros a Ha. apply (forallb_elem_of _ _ H3) in Ha. by apply bool_decide_eq_true in Ha.
  - intros ic Hic. apply (forallb_elem_of _ _ H5) in Hic. by apply bool_decide_eq_true in Hic.
  - intros op Hop. apply (forallb_elem_of _ _ H6) in Hop. by apply bool_decide_eq_true in Hop.
  - intros Hcb. rewrite Hcb in H7. simpl in H7. by apply bool_decide_eq_true in H7.
Qed.

Lemma wf_universe_lookup U k t : wf_universe U = true → U !! k = Some t → wf_tx_P k t.
Proof.
  unfold wf_universe. rewrite !andb_true_iff. intros [[_ H] _] Hk.
  apply wf_tx_spec.
  apply (forallb_elem_of _ _ H (k, t)). by apply elem_of_map_to_list.
Qed.

Lemma wf_universe_ins_in_range U k t op p :
  wf_universe U = true → U !! k = Some t → op ∈ t_ins t → U !! op.1 = Some p →
  (N.to_nat op.2 < length (t_outs p))%nat.
Proof.
  unfold wf_universe, ins_in_range_b. rewrite !andb_true_iff. intros [_ H] Hk Hop Hp.
  pose proof (forallb_elem_of _ _ H (k, t)) as H1. simpl in H1.
  pose proof (forallb_elem_of _ _ (H1 ltac:(by apply elem_of_map_to_list)) op Hop) as H2.
  simpl in H2. rewrite Hp in H2. by apply bool_decide_eq_true in H2.
Qed.

(** * General list / sum toolkit *)

Lemma sumZ_app l1 l2 : sumZ (l1 ++ l2) = sumZ l1 + sumZ l2.
Proof. unfold sumZ. induction l1 as [|x l1 IH]; simpl; lia. Qed.

Lemma sumZ_perm l1 l2 : l1 ≡ₚ l2 → sumZ l1 = sumZ l2.
Proof. unfold sumZ. induction 1; simpl; lia. Qed.

Lemma sumZ_omap {A} (f : A → option Z) l :
  sumZ (omap f l) = sumZ (map (λ x, default 0 (f x)) l).
Proof.
  unfold sumZ. induction l as [|x l IH]; [done|].
  change (omap f (x :: l)) with (match f x with Some y => y :: omap f l | None => omap f l end).
  simpl map. destruct (f x); simpl; lia.
Qed.

Lemma sumZ_map_ext {A} (f g : A → Z) l :
  (∀ x, x ∈ l → f x = g x) → sumZ (map f l) = sumZ (map g l).
Proof.
  unfold sumZ. induction l as [|x l IH]; simpl; intros H; [done|].
  rewrite H by left. rewrite IH; [done|]. intros y Hy. apply H. by right.
Qed.

Lemma sumZ_map_zero {A} (f : A → Z) l :
  (∀ x, x ∈ l → f x = 0) → sumZ (map f l) = 0.
Proof.
  unfold sumZ. induction l as [|x l IH]; simpl; intros H; [done|].
  rewrite H by left. rewrite IH; [done|]. intros y Hy. apply H. by right.
Qed.

Lemma sumZ_map_filter {A} (P : A → Prop) `{!∀ x, Decision (P x)} (f : A → Z) l :
  (∀ x, x ∈ l → ¬ P x → f x = 0) → sumZ (map f l) = sumZ (map f (filter P l)).
Proof.
  unfold sumZ. induction l as [|x l IH]; simpl; intros Hz; [done|].
  rewrite filter_cons. destruct (decide (P x)) as [HP|HP]; simpl.
  - rewrite IH; [done|]. intros y Hy. apply Hz. by right.
  - rewrite Hz by (done || left). rewrite IH; [done|]. intros y Hy. apply Hz. by right.
Qed.

Lemma sumZ_flat_map {A B} (g : A → list B) (f : B → Z) l :
  sumZ (map f (flat_map g l)) = sumZ (map (λ x, sumZ (map f (g x))) l).
Proof.
  induction l as [|x l IH]; simpl; [done|].
  rewrite map_app, sumZ_app, IH. done.
Qed.

Lemma sumZ_map_sub {A} (f g : A → Z) l :
  sumZ (map f l) - sumZ (map g l) = sumZ (map (λ x, f x - g x) l).
Proof. unfold sumZ. induction l as [|x l IH]; simpl; lia. Qed.

Lemma sumZ_map_map {A B} (f : B → Z) (g : A → B) l :
  sumZ (map f (map g l)) = sumZ (map (λ x, f (g x)) l).
Proof. by rewrite map_map. Qed.

Lemma foldl_sub {A} (G : Z → A → Z) (w : A → Z) l b0 :
  (∀ b x, x ∈ l → G b x = b - w x) → foldl G b0 l = b0 - sumZ (map w l).
Proof.
  unfold sumZ. revert b0. induction l as [|x l IH]; simpl; intros b0 H; [lia|].
  rewrite IH.
  - rewrite H by left. lia.
  - intros b y Hy. apply H. by right.
Qed.

Lemma foldl_add {A} (G : Z → A → Z) (w : A → Z) l b0 :
  (∀ b x, x ∈ l → G b x = b + w x) → foldl G b0 l = b0 + sumZ (map w l).
Proof.
  unfold sumZ. revert b0. induction l as [|x l IH]; simpl; intros b0 H; [lia|].
  rewrite IH.
  - rewrite H by left. lia.
  - intros b y Hy. apply H. by right.
Qed.

Lemma elem_of_flat_map {A B} (g : A → list B) l y :
  y ∈ flat_map g l ↔ ∃ x, x ∈ l ∧ y ∈ g x.
Proof.
  rewrite elem_of_list_In, in_flat_map. split.
  - intros (x & Hx & Hy). exists x. by rewrite !elem_of_list_In.
  - intros (x & Hx & Hy). exists x. by rewrite <-!elem_of_list_In.
Qed.

Lemma NoDup_flat_map {A B} (g : A → list B) l :
  NoDup l → (∀ x, x ∈ l → NoDup (g x)) →
  (∀ x1 x2 y, x1 ∈ l → x2 ∈ l → y ∈ g x1 → y ∈ g x2 → x1 = x2) →
  NoDup (flat_map g l).
Proof.
  induction 1 as [|x l Hx Hl IH]; simpl; intros Hg Hd; [constructor|].
  apply NoDup_app. split_and!.
  - apply Hg. left.
  - intros y Hy Hy'. apply elem_of_flat_map in Hy' as (x' & Hx' & Hy').
    assert (x = x') as -> by (eapply Hd; [left|by right|done..]). done.
  - apply IH.
    + intros z Hz. apply Hg. by right.
    + intros x1 x2 y H1 H2. apply Hd; by right.
Qed.

Lemma omap_cons' {A B} (f : A → option B) x (l : list A) :
  omap f (x :: l) = match f x with Some y => y :: omap f l | None => omap f l end.
Proof. done. Qed.

Lemma omap_ext_elem {A B} (f g : A → option B) (l : list A) :
  (∀ x, x ∈ l → f x = g x) → omap f l = omap g l.
Proof.
  induction l as [|x l IH]; intros H; [done|].
  rewrite !omap_cons'. rewrite H by left. rewrite IH; [done|]. intros y Hy. apply H. by right.
Qed.

Lemma omap_omap {A B C} (f : A → option B) (g : B → option C) (l : list A) :
  omap g (omap f l) = omap (λ x, f x ≫= g) l.
Proof.
  induction l as [|x l IH]; [done|].
  rewrite !omap_cons'. destruct (f x) as [y|].
  - rewrite omap_cons'. change (Some y ≫= g) with (g y). by rewrite IH.
  - change (None ≫= g) with (@None C). done.
Qed.

Lemma NoDup_omap {A B} (f : A → option B) (l : list A) :
  NoDup l →
  (∀ x1 x2 y, x1 ∈ l → x2 ∈ l → f x1 = Some y → f x2 = Some y → x1 = x2) →
  NoDup (omap f l).
Proof.
  induction 1 as [|x l Hx Hl IH]; intros Hinj; [constructor|].
  assert (NoDup (omap f l)) as IH'.
  { apply IH. intros x1 x2 y H1 H2. apply Hinj; by right. }
  rewrite omap_cons'.
  destruct (f x) as [y|] eqn:Hfx; [|done].
  constructor; [|done].
  intros Hy. apply elem_of_list_omap in Hy as (x' & Hx' & Hfx').
  assert (x = x') as -> by (eapply Hinj; [left|by right|done..]). done.
Qed.

Lemma NoDup_singleton_eq {A} (l : list A) a :
  NoDup l → (∀ x, x ∈ l ↔ x = a) → l = [a].
Proof.
  intros Hnd H. destruct l as [|x l].
  - exfalso. assert (a ∈ @nil A) as Ha by by apply H. inversion Ha.
  - assert (x = a) as -> by (apply H; left).
    destruct l as [|y l]; [done|].
    assert (y = a) as -> by (apply H; right; left).
    apply NoDup_cons in Hnd as [Hnd _]. exfalso. apply Hnd. left.
Qed.

Lemma map_fmap {A B} (f : A → B) (l : list A) : map f l = f <$> l.
Proof. done. Qed.

Lemma existsb_elem_of {A} (f : A → bool) l :
  existsb f l = true ↔ ∃ x, x ∈ l ∧ f x = true.
Proof.
  rewrite existsb_exists. split; intros (x & Hx & Hf); exists x.
  - by rewrite elem_of_list_In.
  - by rewrite <-elem_of_list_In.
Qed.

Lemma elem_of_indices {A} (l : list A) (i : N) :
  i ∈ indices l ↔ (N.to_nat i < length l)%nat.
Proof.
  unfold indices. rewrite map_fmap, elem_of_list_fmap. split.
  - intros (n & -> & Hn). apply elem_of_seq in Hn. rewrite Nat2N.id. lia.
  - intros Hi. exists (N.to_nat i). split; [by rewrite N2Nat.id|]. apply elem_of_seq. lia.
Qed.

Lemma NoDup_indices {A} (l : list A) : NoDup (indices l).
Proof.
  unfold indices. rewrite map_fmap. apply NoDup_fmap_2; [|apply NoDup_seq].
  intros x y Hxy. by apply Nat2N.inj.
Qed.

Lemma NoDup_fst_unique {A B} (l : list (A * B)) x y1 y2 :
  NoDup (map fst l) → (x, y1) ∈ l → (x, y2) ∈ l → y1 = y2.
Proof.
  induction l as [|[a b] l IH]; simpl; intros Hnd H1 H2; [by inversion H1|].
  apply NoDup_cons in Hnd as [Hnotin Hnd].
  apply elem_of_cons in H1 as [H1|H1]; apply elem_of_cons in H2 as [H2|H2].
  - congruence.
  - inversion H1; subst. exfalso. apply Hnotin. rewrite map_fmap.
    apply elem_of_list_fmap. by exists (a, y2).
  - inversion H2; subst. exfalso. apply Hnotin. rewrite map_fmap.
    apply elem_of_list_fmap. by exists (a, y1).
  - by apply IH.
Qed.

(** The contribution of one spendable output to [Balance minconf] at sync
    height [sync] (unmined outputs carry height -1). *)
Definition bal_contrib (minconf sync : Z) (u : utxo) : option Z :=
  if bool_decide (u_height u < 0) then (if bool_decide (minconf = 0) then Some (u_amt u) else None)
  else if bool_decide (minconf <= sync - u_height u + 1) &&
          (negb (u_coinbase u) || bool_decide (coinbase_maturity <= sync - u_height u + 1))
       then Some (u_amt u) else None.

(** ** Sorted credit lists and indexed inputs (for [tx_details]) *)

Global Instance N_le_dec_rel_trans : Transitive N_le_dec_rel.
Proof. intros x y z. unfold N_le_dec_rel. lia. Qed.
Global Instance N_le_dec_rel_total : Total N_le_dec_rel.
Proof. intros x y. unfold N_le_dec_rel. lia. Qed.

Lemma sorted_perm_unique (l1 l2 : list (N * bool)) :
  StronglySorted N_le_dec_rel l1 → StronglySorted N_le_dec_rel l2 → l1 ≡ₚ l2 →
  NoDup (map fst l1) → l1 = l2.
Proof.
  revert l2. induction l1 as [|x l1 IH]; intros l2 Hs1 Hs2 Hp Hnd.
  - by apply Permutation_nil in Hp.
  - destruct l2 as [|y l2]; [by apply Permutation_sym, Permutation_nil in Hp|].
    apply StronglySorted_inv in Hs1 as [Hs1 Hf1]. apply StronglySorted_inv in Hs2 as [Hs2 Hf2].
    simpl in Hnd. apply NoDup_cons in Hnd as [Hnotin Hnd].
    assert (x = y) as ->.
    { assert (x ∈ y :: l2) as Hx by (rewrite <-Hp; left).
      assert (y ∈ x :: l1) as Hy by (rewrite Hp; left).
      apply elem_of_cons in Hx as [Hx|Hx]; [done|].
      apply elem_of_cons in Hy as [Hy|Hy]; [done|].
      rewrite Forall_forall in Hf1, Hf2.
      pose proof (Hf1 _ Hy) as H1. pose proof (Hf2 _ Hx) as H2. unfold N_le_dec_rel in H1, H2.
      exfalso. apply Hnotin. rewrite map_fmap. apply elem_of_list_fmap. exists y. split; [lia|done]. }
    f_equal. apply IH; try done. by apply Permutation_cons_inv in Hp.
Qed.

Lemma sorted_indices_from k n : StronglySorted N.lt (map N.of_nat (seq k n)).
Proof.
  revert k. induction n as [|n IH]; intros k; simpl; constructor; [apply IH|].
  rewrite Forall_forall. intros j Hj. rewrite map_fmap in Hj.
  apply elem_of_list_fmap in Hj as (m & -> & Hm). apply elem_of_seq in Hm. lia.
Qed.

Lemma sorted_omap_sel (sel : N → option (N * bool)) l :
  (∀ i y, sel i = Some y → y.1 = i) → StronglySorted N.lt l →
  StronglySorted N_le_dec_rel (omap sel l).
Proof.
  intros Hsel. induction 1 as [|a l Hs IH Hf]; [constructor|].
  rewrite omap_cons'. destruct (sel a) as [x|] eqn:Hx; [|done].
  constructor; [done|]. rewrite Forall_forall. intros y Hy.
  apply elem_of_list_omap in Hy as (j & Hj & Hy). rewrite Forall_forall in Hf.
  apply Hf in Hj. apply Hsel in Hx, Hy. unfold N_le_dec_rel. lia.
Qed.

Lemma omap_indices_zip_from {A B} (l : list A) (f : N → option B) (g : N * A → option B) k :
  (∀ i x, l !! i = Some x → f (N.of_nat (k + i)) = g (N.of_nat (k + i), x)) →
  omap f (map N.of_nat (seq k (length l))) = omap g (zip (map N.of_nat (seq k (length l))) l).
Proof.
  revert k. induction l as [|x l IH]; intros k H; [done|].
  simpl length. simpl seq. simpl map. simpl zip. rewrite !omap_cons'.
  pose proof (H 0%nat x eq_refl) as H0. rewrite Nat.add_0_r in H0. rewrite H0.
  rewrite (IH (S k)); [done|].
  intros i y Hi. replace (S k + i)%nat with (k + S i)%nat by lia. by apply H.
Qed.

Lemma omap_indices_zip {A B} (l : list A) (f : N → option B) (g : N * A → option B) :
  (∀ i x, l !! i = Some x → f (N.of_nat i) = g (N.of_nat i, x)) →
  omap f (indices l) = omap g (zip (indices l) l).
Proof. intros H. unfold indices. by apply omap_indices_zip_from. Qed.

(** * Bucket characterisations under the invariant *)

Section obs.
  Context (U : gmap N tx) (s : store) (F : facts).
  Context (Hwf : wf_universe U = true) (HI : Inv U s F).

  Lemma known_true t : known F t = true ↔ is_Some (f_conf F !! t) ∨ t ∈ f_unconf F.
  Proof. unfold known. rewrite orb_true_iff, !bool_decide_eq_true. done. Qed.

  Lemma elem_of_conf_list t :
    t ∈ map fst (map_to_list (f_conf F)) ↔ is_Some (f_conf F !! t).
  Proof.
    rewrite map_fmap, elem_of_list_fmap. split.
    - intros ([k b] & -> & H). apply elem_of_map_to_list in H. by eexists.
    - intros [b H]. exists (t, b). split; [done|]. by apply elem_of_map_to_list.
  Qed.

  Lemma elem_of_known_list t :
    t ∈ known_list F ↔ is_Some (f_conf F !! t) ∨ t ∈ f_unconf F.
  Proof. unfold known_list. rewrite elem_of_app, elem_of_conf_list, elem_of_elements. done. Qed.

  Lemma NoDup_known_list : NoDup (known_list F).
  Proof.
    unfold known_list. apply NoDup_app. split_and!.
    - rewrite map_fmap. apply NoDup_fst_map_to_list.
    - intros t H1 H2. apply elem_of_conf_list in H1. apply elem_of_elements in H2.
      by eapply (fw_disjoint U F (inv_wf U s F HI)).
    - apply NoDup_elements.
  Qed.

  Lemma known_in_universe t :
    is_Some (f_conf F !! t) ∨ t ∈ f_unconf F → ∃ x, U !! t = Some x ∧ wf_tx_P t x.
  Proof.
    intros H. destruct (fw_in_universe U F (inv_wf U s F HI) t H) as [x Hx].
    exists x. split; [done|]. by eapply wf_universe_lookup.
  Qed.

  Lemma spends_true t op : spends U t op = true ↔ op ∈ tx_ins U t.
  Proof. unfold spends. by rewrite bool_decide_eq_true. Qed.

  Lemma spent_by_known_true op :
    spent_by_known U F op = true ↔
    (∃ m, conf_spender U F op m) ∨ (∃ u, unconf_spender U F op u).
  Proof.
    unfold spent_by_known, conf_spender, unconf_spender. rewrite existsb_elem_of. split.
    - intros (t & Ht & Hsp). apply spends_true in Hsp. apply elem_of_known_list in Ht as [Ht|Ht].
      + left. by exists t.
      + right. by exists t.
    - intros [(t & Ht & Hsp)|(t & Ht & Hsp)]; exists t; rewrite spends_true, elem_of_known_list; auto.
  Qed.

  Lemma spent_by_confirmed_true op :
    spent_by_confirmed U F op = true ↔ ∃ m, conf_spender U F op m.
  Proof.
    unfold spent_by_confirmed, conf_spender. rewrite existsb_elem_of. split.
    - intros (t & Ht & Hsp). apply spends_true in Hsp. apply elem_of_conf_list in Ht. by exists t.
    - intros (t & Ht & Hsp). exists t. by rewrite spends_true, elem_of_conf_list.
  Qed.

  Lemma unmined_inputs_some op :
    is_Some (unmined_inputs s !! op) ↔ ∃ u, unconf_spender U F op u.
  Proof.
    split.
    - intros [l Hl]. destruct (inv_unmined_inputs_sound U s F HI op l Hl) as (Hne & _ & Hiff).
      destruct l as [|u l]; [done|]. exists u. apply Hiff. left.
    - intros [u Hu]. by eapply inv_unmined_inputs_complete.
  Qed.

  Lemma is_locked_b_leased op now : is_locked_b s op now = leased F op now.
  Proof.
    unfold is_locked_b, is_locked, leased. rewrite (inv_locked U s F HI).
    destruct (f_leases F !! op) as [l|]; [|done]. by case_bool_decide.
  Qed.

  (** no confirmed transaction spends an output of an unconfirmed one *)
  Lemma unconf_no_conf_spender op :
    op.1 ∈ f_unconf F → ¬ ∃ m, conf_spender U F op m.
  Proof.
    intros Hu (m & [[h bh] Hm] & Hin).
    destruct (fw_parents_confirmed U F (inv_wf U s F HI) m h bh op Hm Hin (or_intror Hu))
      as (ph & pbh & Hp & _).
    eapply (fw_disjoint U F (inv_wf U s F HI)); [|exact Hu]. by eexists.
  Qed.

  Lemma creds_of_lookup t x : U !! t = Some x → creds_of U t = t_creds x.
  Proof. unfold creds_of. by intros ->. Qed.

  Lemma amount_of_lookup op x : U !! op.1 = Some x → amount_of U op = out_amount x op.2.
  Proof. unfold amount_of. by intros ->. Qed.

  Lemma credited_change_unique op c1 c2 :
    is_credited U op c1 → is_credited U op c2 → c1 = c2.
  Proof.
    unfold is_credited, creds_of. destruct (U !! op.1) as [x|] eqn:Hx; [|by intros H; inversion H].
    pose proof (wt_creds_nodup _ _ (wf_universe_lookup _ _ _ Hwf Hx)) as Hnd.
    intros H1 H2. by eapply NoDup_fst_unique.
  Qed.

  (** ** Spendable outputs *)

  Definition mk_utxo (t : tx) (i : N) : utxo :=
    match f_conf F !! t_id t with
    | Some (h, bhash) => {| u_op := (t_id t, i); u_amt := out_amount t i; u_height := h;
                            u_hash := bhash; u_coinbase := t_coinbase t |}
    | None => {| u_op := (t_id t, i); u_amt := out_amount t i; u_height := -1;
                 u_hash := 0%N; u_coinbase := t_coinbase t |}
    end.

  Lemma elem_of_credited_outputs t i chg :
    (t, i, chg) ∈ credited_outputs U F ↔
    (is_Some (f_conf F !! t_id t) ∨ t_id t ∈ f_unconf F) ∧ U !! t_id t = Some t ∧ (i, chg) ∈ t_creds t.
  Proof.
    unfold credited_outputs. rewrite elem_of_flat_map. split.
    - intros (h & Hh & Hin). destruct (U !! h) as [x|] eqn:Hx; [|by inversion Hin].
      rewrite map_fmap in Hin. apply elem_of_list_fmap in Hin as ([i' c'] & Heq & Hic).
      simpl in Heq. injection Heq as -> -> ->.
      pose proof (wt_id _ _ (wf_universe_lookup _ _ _ Hwf Hx)) as Hid. rewrite Hid.
      apply elem_of_known_list in Hh. done.
    - intros (Hk & Hx & Hic). exists (t_id t). split; [by apply elem_of_known_list|].
      rewrite Hx, map_fmap. apply elem_of_list_fmap. by exists (i, chg).
  Qed.

  Lemma NoDup_credited_outputs : NoDup (credited_outputs U F).
  Proof.
    unfold credited_outputs. apply NoDup_flat_map.
    - apply NoDup_known_list.
    - intros h _. destruct (U !! h) as [x|] eqn:Hx; [|constructor].
      rewrite map_fmap. apply NoDup_fmap_2.
      + intros [a1 b1] [a2 b2] Heq. simpl in Heq. by injection Heq as -> ->.
      + eapply NoDup_fmap_1. rewrite <-map_fmap.
        exact (wt_creds_nodup _ _ (wf_universe_lookup _ _ _ Hwf Hx)).
    - intros h1 h2 y _ _ H1 H2.
      destruct (U !! h1) as [x1|] eqn:Hx1; [|by inversion H1].
      destruct (U !! h2) as [x2|] eqn:Hx2; [|by inversion H2].
      rewrite map_fmap in H1, H2.
      apply elem_of_list_fmap in H1 as (ic1 & -> & _).
      apply elem_of_list_fmap in H2 as (ic2 & Heq & _).
      injection Heq as -> _ _.
      rewrite <-(wt_id _ _ (wf_universe_lookup _ _ _ Hwf Hx1)).
      by rewrite <-(wt_id _ _ (wf_universe_lookup _ _ _ Hwf Hx2)).
  Qed.

  (** the common description of both lists *)
  Definition is_utxo (now : Z) (u : utxo) : Prop :=
    ∃ t i chg, (t, i, chg) ∈ credited_outputs U F ∧
      spent_by_known U F (t_id t, i) = false ∧ leased F (t_id t, i) now = false ∧
      u = mk_utxo t i.

  Definition utxo_fn (now : Z) (x : tx * N * bool) : option utxo :=
    if spent_by_known U F (t_id x.1.1, x.1.2) || leased F (t_id x.1.1, x.1.2) now then None
    else Some (mk_utxo x.1.1 x.1.2).

  Lemma spec_utxos_alt now : spec_utxos U F now = omap (utxo_fn now) (credited_outputs U F).
  Proof.
    unfold spec_utxos. apply omap_ext_elem. intros [[t i] chg] _.
    unfold utxo_fn, mk_utxo; simpl. destruct (_ || _); [done|].
    by destruct (f_conf F !! t_id t) as [[h bh]|].
  Qed.

  Lemma elem_of_spec_utxos now u : u ∈ spec_utxos U F now ↔ is_utxo now u.
  Proof.
    rewrite spec_utxos_alt. unfold is_utxo. rewrite elem_of_list_omap. split.
    - intros ([[t i] chg] & Hin & Hf). unfold utxo_fn in Hf. simpl in Hf.
      destruct (spent_by_known U F (t_id t, i)) eqn:Hsp; [done|].
      destruct (leased F (t_id t, i) now) eqn:Hl; [done|]. simpl in Hf.
      injection Hf as <-. by exists t, i, chg.
    - intros (t & i & chg & Hin & Hsp & Hl & ->). exists (t, i, chg). split; [done|].
      unfold utxo_fn. simpl. rewrite Hsp, Hl. done.
  Qed.

  Definition keepb (op : N * N) (now : Z) : bool :=
    negb (is_locked_b s op now) && negb (bool_decide (is_Some (unmined_inputs s !! op))).

  Definition mined_fn (now : Z) (kv : (N * N) * (Z * N)) : option utxo :=
    if keepb kv.1 now then
      match U !! kv.1.1 with
      | Some t => Some {| u_op := kv.1; u_amt := out_amount t kv.1.2; u_height := kv.2.1;
                          u_hash := kv.2.2; u_coinbase := t_coinbase t |}
      | None => None
      end
    else None.

  Definition unm_fn (now : Z) (kv : (N * N) * (Z * bool)) : option utxo :=
    if keepb kv.1 now then
      match unmined s !! kv.1.1, U !! kv.1.1 with
      | Some _, Some t => Some {| u_op := kv.1; u_amt := out_amount t kv.1.2; u_height := -1;
                                  u_hash := 0%N; u_coinbase := t_coinbase t |}
      | _, _ => None
      end
    else None.

  Lemma unspent_outputs_alt now :
    unspent_outputs U s now =
    omap (mined_fn now) (map_to_list (unspent s)) ++ omap (unm_fn now) (map_to_list (unmined_credits s)).
  Proof.
    unfold unspent_outputs, fetch_credits. f_equal; apply omap_ext_elem.
    - by intros [op [h bh]] _.
    - by intros [op [a chg]] _.
  Qed.

  Lemma keepb_true op now :
    keepb op now = true ↔ leased F op now = false ∧ ¬ ∃ u, unconf_spender U F op u.
  Proof.
    unfold keepb. rewrite andb_true_iff, !negb_true_iff, is_locked_b_leased.
    rewrite bool_decide_eq_false, unmined_inputs_some. done.
  Qed.

  Lemma spent_by_known_false op :
    spent_by_known U F op = false ↔
    (¬ ∃ m, conf_spender U F op m) ∧ (¬ ∃ u, unconf_spender U F op u).
  Proof. rewrite <-not_true_iff_false, spent_by_known_true. tauto. Qed.

  Lemma conf_not_unconf t b : f_conf F !! t = Some b → t ∉ f_unconf F.
  Proof. intros Hc. eapply (fw_disjoint U F (inv_wf U s F HI)). by eexists. Qed.

  Lemma unconf_not_conf t : t ∈ f_unconf F → f_conf F !! t = None.
  Proof.
    intros Hu. destruct (f_conf F !! t) as [b|] eqn:Hc; [|done].
    exfalso. by eapply conf_not_unconf.
  Qed.

  Lemma elem_of_unspent_outputs now u : u ∈ unspent_outputs U s now ↔ is_utxo now u.
  Proof.
    rewrite unspent_outputs_alt, elem_of_app, !elem_of_list_omap. unfold is_utxo. split.
    - intros [([[h0 i0] [h bh]] & Hin & Hf)|([[h0 i0] [a chg]] & Hin & Hf)].
      + unfold mined_fn in Hf. simpl in Hf.
        destruct (keepb (h0, i0) now) eqn:Hk; [|done]. apply keepb_true in Hk as [Hl Hnu].
        destruct (U !! h0) as [t|] eqn:Ht; [|done]. injection Hf as <-.
        apply elem_of_map_to_list in Hin.
        apply (inv_unspent U s F HI) in Hin as (Hc & [chg Hcr] & Hns). simpl in Hc.
        pose proof (wt_id _ _ (wf_universe_lookup _ _ _ Hwf Ht)) as Hid.
        unfold is_credited in Hcr. simpl in Hcr. rewrite (creds_of_lookup _ _ Ht) in Hcr.
        exists t, i0, chg. rewrite Hid. split_and!.
        * apply elem_of_credited_outputs. rewrite Hid. split_and!; [left; by eexists|done..].
        * by apply spent_by_known_false.
        * done.
        * unfold mk_utxo. rewrite Hid, Hc. done.
      + unfold unm_fn in Hf. simpl in Hf.
        destruct (keepb (h0, i0) now) eqn:Hk; [|done]. apply keepb_true in Hk as [Hl Hnu].
        destruct (unmined s !! h0) as [[]|] eqn:Hm; [|done].
        destruct (U !! h0) as [t|] eqn:Ht; [|done]. injection Hf as <-.
        apply elem_of_map_to_list in Hin.
        apply (inv_unmined_credits U s F HI) in Hin as (Hu & Hcr & Ha). simpl in Hu.
        pose proof (wt_id _ _ (wf_universe_lookup _ _ _ Hwf Ht)) as Hid.
        unfold is_credited in Hcr. simpl in Hcr. rewrite (creds_of_lookup _ _ Ht) in Hcr.
        exists t, i0, chg. rewrite Hid. split_and!.
        * apply elem_of_credited_outputs. rewrite Hid. split_and!; [by right|done..].
        * apply spent_by_known_false. split; [|done]. by apply unconf_no_conf_spender.
        * done.
        * unfold mk_utxo. rewrite Hid, (unconf_not_conf _ Hu). done.
    - intros (t & i & chg & Hin & Hsp & Hl & ->).
      apply elem_of_credited_outputs in Hin as (Hk & Ht & Hic).
      apply spent_by_known_false in Hsp as [Hnc Hnu].
      assert (keepb (t_id t, i) now = true) as Hkeep by by apply keepb_true.
      destruct Hk as [[[h bh] Hc]|Hu].
      + left. exists ((t_id t, i), (h, bh)). split.
        * apply elem_of_map_to_list. apply (inv_unspent U s F HI). simpl. split_and!; [done| |done].
          exists chg. unfold is_credited. simpl. by rewrite (creds_of_lookup _ _ Ht).
        * unfold mined_fn, mk_utxo. simpl. rewrite Hkeep, Ht, Hc. done.
      + right. exists ((t_id t, i), (amount_of U (t_id t, i), chg)). split.
        * apply elem_of_map_to_list. apply (inv_unmined_credits U s F HI). simpl. split_and!; [done| |done].
          unfold is_credited. simpl. by rewrite (creds_of_lookup _ _ Ht).
        * unfold unm_fn, mk_utxo. simpl. rewrite Hkeep, Ht, (unconf_not_conf _ Hu).
          destruct (proj2 (inv_unmined U s F HI (t_id t)) Hu) as [[] ->]. done.
  Qed.

  Lemma mk_utxo_op t i : u_op (mk_utxo t i) = (t_id t, i).
  Proof. unfold mk_utxo. by destruct (f_conf F !! t_id t) as [[h bh]|]. Qed.

  Lemma utxo_fn_Some now x y : utxo_fn now x = Some y → y = mk_utxo x.1.1 x.1.2.
  Proof. unfold utxo_fn. destruct (_ || _); [done|]. by intros [= <-]. Qed.

  Lemma NoDup_spec_utxos now : NoDup (spec_utxos U F now).
  Proof.
    rewrite spec_utxos_alt. apply NoDup_omap; [apply NoDup_credited_outputs|].
    intros [[t1 i1] c1] [[t2 i2] c2] y H1 H2 Hf1 Hf2.
    apply utxo_fn_Some in Hf1, Hf2. simpl in Hf1, Hf2.
    assert (u_op y = (t_id t1, i1)) as Ho1 by (by rewrite Hf1, mk_utxo_op).
    assert (u_op y = (t_id t2, i2)) as Ho2 by (by rewrite Hf2, mk_utxo_op).
    rewrite Ho1 in Ho2. injection Ho2 as Hid ->.
    apply elem_of_credited_outputs in H1 as (_ & Ht1 & Hc1).
    apply elem_of_credited_outputs in H2 as (_ & Ht2 & Hc2).
    rewrite Hid, Ht2 in Ht1. injection Ht1 as <-.
    pose proof (wt_creds_nodup _ _ (wf_universe_lookup _ _ _ Hwf Ht2)) as Hnd.
    by rewrite (NoDup_fst_unique _ _ _ _ Hnd Hc1 Hc2).
  Qed.

  Lemma mined_fn_Some now kv y :
    mined_fn now kv = Some y → u_op y = kv.1 ∧ u_height y = kv.2.1 ∧ u_hash y = kv.2.2.
  Proof.
    unfold mined_fn. destruct (keepb kv.1 now); [|done].
    destruct (U !! kv.1.1); [|done]. by intros [= <-].
  Qed.

  Lemma unm_fn_Some now kv y : unm_fn now kv = Some y → u_op y = kv.1.
  Proof.
    unfold unm_fn. destruct (keepb kv.1 now); [|done].
    destruct (unmined s !! kv.1.1); [|done].
    destruct (U !! kv.1.1); [|done]. by intros [= <-].
  Qed.

  Lemma NoDup_unspent_outputs now : NoDup (unspent_outputs U s now).
  Proof.
    rewrite unspent_outputs_alt. apply NoDup_app. split_and!.
    - apply NoDup_omap; [apply NoDup_map_to_list|].
      intros [o1 [h1 b1]] [o2 [h2 b2]] y _ _ Hf1 Hf2.
      apply mined_fn_Some in Hf1 as (Ha1 & Hb1 & Hc1), Hf2 as (Ha2 & Hb2 & Hc2).
      simpl in *. congruence.
    - intros y H1 H2. apply elem_of_list_omap in H1 as ([o1 [h1 b1]] & Hin1 & Hf1).
      apply elem_of_list_omap in H2 as ([o2 [a2 c2]] & Hin2 & Hf2).
      apply mined_fn_Some in Hf1 as (Ha1 & _). apply unm_fn_Some in Hf2. simpl in *.
      rewrite Ha1 in Hf2. subst o2.
      apply elem_of_map_to_list in Hin1, Hin2.
      apply (inv_unspent U s F HI) in Hin1 as (Hc & _).
      apply (inv_unmined_credits U s F HI) in Hin2 as (Hu & _).
      by eapply conf_not_unconf.
    - apply NoDup_omap; [apply NoDup_map_to_list|].
      intros [o1 v1] [o2 v2] y Hin1 Hin2 Hf1 Hf2.
      apply unm_fn_Some in Hf1, Hf2. simpl in *. rewrite Hf1 in Hf2. subst o2.
      apply elem_of_map_to_list in Hin1, Hin2. congruence.
  Qed.
  (** ** Unmined hashes *)

  Lemma unmined_hashes_perm : unmined_hashes s ≡ₚ elements (f_unconf F).
  Proof.
    unfold unmined_hashes. apply NoDup_Permutation.
    - rewrite map_fmap. apply NoDup_fst_map_to_list.
    - apply NoDup_elements.
    - intros t. rewrite elem_of_elements, <-(inv_unmined U s F HI), map_fmap, elem_of_list_fmap. split.
      + intros ([k v] & -> & Hin). apply elem_of_map_to_list in Hin. by eexists.
      + intros [v Hv]. exists (t, v). split; [done|]. by apply elem_of_map_to_list.
  Qed.

  (** ** Balance: the model's folds as sums *)

  Definition young (minconf sync h : Z) (cb : bool) : bool :=
    bool_decide (sync - h + 1 < minconf) || (cb && bool_decide (sync - h + 1 < coinbase_maturity)).

  Definition w1 (now : Z) (kv : (N * N) * (Z * N)) : Z :=
    if keepb kv.1 now then 0
    else match credits s !! (kv.1.1, kv.2.1, kv.2.2, kv.1.2) with Some cv => c_amt cv | None => 0 end.

  Definition w_out (minconf sync now h : Z) (bh : N) (cb : bool) (txh i : N) : Z :=
    if keepb (txh, i) now then
      match credits s !! (txh, h, bh, i) with
      | None => 0
      | Some cv => if c_spent cv then 0 else if young minconf sync h cb then c_amt cv else 0
      end
    else 0.

  Definition w_tx (minconf sync now h : Z) (bh : N) (txh : N) : Z :=
    match U !! txh with
    | None => 0
    | Some t => sumZ (map (w_out minconf sync now h bh (t_coinbase t) txh) (indices (t_outs t)))
    end.

  Definition w_blk (minconf sync now : Z) (kv : Z * blockrec) : Z :=
    if bool_decide (kv.1 < sync - Z.max minconf coinbase_maturity) then 0
    else sumZ (map (w_tx minconf sync now kv.1 (b_hash kv.2)) (b_txs kv.2)).

  Definition w3 (now : Z) (kv : (N * N) * (Z * bool)) : Z :=
    if keepb kv.1 now then kv.2.1 else 0.

  Lemma balance_unfold minconf sync now :
    balance U s minconf sync now =
    bal s - sumZ (map (w1 now) (map_to_list (unspent s)))
          - sumZ (map (w_blk minconf sync now) (map_to_list (blocks s)))
          + (if bool_decide (minconf = 0)
             then sumZ (map (w3 now) (map_to_list (unmined_credits s))) else 0).
  Proof.
    unfold balance. cbv zeta.
    match goal with |- context [foldl ?G (bal s) ?l] =>
      rewrite (foldl_sub G (w1 now) l (bal s)) end.
    2:{ intros b [op [h bh]] _. unfold w1, keepb. simpl.
        destruct (is_locked_b s op now); simpl; [lia|].
        destruct (bool_decide (is_Some (unmined_inputs s !! op))); simpl; lia. }
    match goal with |- context [foldl ?G (bal s - ?x) ?l] =>
      rewrite (foldl_sub G (w_blk minconf sync now) l (bal s - x)) end.
    2:{ intros b [h br] _. unfold w_blk. simpl.
        destruct (bool_decide (h < sync - Z.max minconf coinbase_maturity)); [lia|].
        apply foldl_sub. intros b' txh _. unfold w_tx.
        destruct (U !! txh) as [t|]; [|lia].
        apply foldl_sub. intros b'' i _. unfold w_out, keepb.
        destruct (is_locked_b s (txh, i) now); simpl; [lia|].
        destruct (bool_decide (is_Some (unmined_inputs s !! (txh, i)))); simpl; [lia|].
        destruct (credits s !! (txh, h, b_hash br, i)) as [cv|]; [|lia].
        destruct (c_spent cv); [lia|]. unfold young.
        destruct (_ || _); lia. }
    destruct (bool_decide (minconf = 0)); [|lia].
    apply foldl_add. intros b [op [amt c]] _. unfold w3, keepb. simpl.
    destruct (is_locked_b s op now); simpl; [lia|].
    destruct (bool_decide (is_Some (unmined_inputs s !! op))); simpl; lia.
  Qed.

  (** every (tx, block, output index) incidence of the block records *)
  Definition quads : list (N * Z * N * N) :=
    flat_map (λ kv : Z * blockrec,
      flat_map (λ txh, match U !! txh with
                       | Some t => map (λ i, (txh, kv.1, b_hash kv.2, i)) (indices (t_outs t))
                       | None => []
                       end) (b_txs kv.2)) (map_to_list (blocks s)).

  Lemma elem_of_quads txh h bh i :
    (txh, h, bh, i) ∈ quads ↔
    ∃ br t, blocks s !! h = Some br ∧ b_hash br = bh ∧ txh ∈ b_txs br ∧
            U !! txh = Some t ∧ (N.to_nat i < length (t_outs t))%nat.
  Proof.
    unfold quads. rewrite elem_of_flat_map. split.
    - intros ([h' br] & Hin & Hq). apply elem_of_map_to_list in Hin. simpl in Hq.
      apply elem_of_flat_map in Hq as (txh' & Htx & Hq).
      destruct (U !! txh') as [t|] eqn:Ht; [|by inversion Hq].
      rewrite map_fmap in Hq. apply elem_of_list_fmap in Hq as (i' & Heq & Hi).
      injection Heq as -> -> -> ->. apply elem_of_indices in Hi.
      by exists br, t.
    - intros (br & t & Hb & Hbh & Htx & Ht & Hi). exists (h, br). split; [by apply elem_of_map_to_list|].
      simpl. apply elem_of_flat_map. exists txh. split; [done|]. rewrite Ht, map_fmap.
      apply elem_of_list_fmap. exists i. split; [by rewrite Hbh|]. by apply elem_of_indices.
  Qed.

  Lemma NoDup_quads : NoDup quads.
  Proof.
    unfold quads. apply NoDup_flat_map.
    - apply NoDup_map_to_list.
    - intros [h br] Hin. apply elem_of_map_to_list in Hin. simpl.
      destruct (inv_blocks_sound U s F HI h br Hin) as (_ & Hnd & _).
      apply NoDup_flat_map; [done| |].
      + intros txh _. destruct (U !! txh) as [t|]; [|constructor].
        rewrite map_fmap. apply NoDup_fmap_2; [|apply NoDup_indices].
        intros i1 i2 Heq. by injection Heq.
      + intros t1 t2 y _ _ H1 H2.
        destruct (U !! t1) as [x1|]; [|by inversion H1].
        destruct (U !! t2) as [x2|]; [|by inversion H2].
        rewrite map_fmap in H1, H2.
        apply elem_of_list_fmap in H1 as (i1 & -> & _).
        apply elem_of_list_fmap in H2 as (i2 & Heq & _). by injection Heq.
    - intros [h1 br1] [h2 br2] y Hin1 Hin2 H1 H2. simpl in H1, H2.
      apply elem_of_flat_map in H1 as (t1 & _ & H1).
      apply elem_of_flat_map in H2 as (t2 & _ & H2).
      destruct (U !! t1) as [x1|]; [|by inversion H1].
      destruct (U !! t2) as [x2|]; [|by inversion H2].
      rewrite map_fmap in H1, H2.
      apply elem_of_list_fmap in H1 as (i1 & -> & _).
      apply elem_of_list_fmap in H2 as (i2 & Heq & _).
      injection Heq as _ Hh _ _. subst h2.
      apply elem_of_map_to_list in Hin1, Hin2. congruence.
  Qed.

  Definition wq (minconf sync now : Z) (q : N * Z * N * N) : Z :=
    if bool_decide (q.1.1.2 < sync - Z.max minconf coinbase_maturity) then 0
    else w_out minconf sync now q.1.1.2 q.1.2 (is_coinbase U q.1.1.1) q.1.1.1 q.2.

  Lemma sum_blocks_quads minconf sync now :
    sumZ (map (w_blk minconf sync now) (map_to_list (blocks s))) =
    sumZ (map (wq minconf sync now) quads).
  Proof.
    unfold quads. rewrite sumZ_flat_map. apply sumZ_map_ext. intros [h br] _.
    unfold w_blk. simpl. rewrite sumZ_flat_map.
    destruct (bool_decide (h < sync - Z.max minconf coinbase_maturity)) eqn:Hlast.
    - symmetry. apply sumZ_map_zero. intros txh _. apply sumZ_map_zero. intros q Hq.
      destruct (U !! txh) as [t|]; [|by inversion Hq].
      rewrite map_fmap in Hq. apply elem_of_list_fmap in Hq as (i & -> & _).
      unfold wq. simpl. by rewrite Hlast.
    - apply sumZ_map_ext. intros txh _. unfold w_tx.
      destruct (U !! txh) as [t|] eqn:Ht; [|done].
      rewrite sumZ_map_map. apply sumZ_map_ext. intros i _.
      unfold wq. simpl. rewrite Hlast. unfold is_coinbase. by rewrite Ht.
  Qed.

  (** a present unspent-index entry has its credit record *)
  Lemma unspent_credit op h bh :
    unspent s !! op = Some (h, bh) →
    ∃ cv, credits s !! (op.1, h, bh, op.2) = Some cv ∧ c_amt cv = amount_of U op ∧ c_spent cv = false.
  Proof.
    intros Hu. apply (inv_unspent U s F HI) in Hu as (Hc & [chg Hcr] & Hns).
    destruct op as [t i]. simpl in *.
    destruct (inv_credits_complete U s F HI t h bh i chg Hc Hcr) as [cv Hcv].
    exists cv. split; [done|].
    destruct (inv_credits_sound U s F HI t h bh i cv Hcv) as (_ & _ & Ha & Hsp).
    split; [done|]. destruct (c_spent cv); [|done]. exfalso. apply Hns. by apply Hsp.
  Qed.

  Lemma credit_unspent t h bh i cv :
    credits s !! (t, h, bh, i) = Some cv → c_spent cv = false → unspent s !! (t, i) = Some (h, bh).
  Proof.
    intros Hcv Hsp. destruct (inv_credits_sound U s F HI t h bh i cv Hcv) as (Hc & Hcr & _ & Hiff).
    apply (inv_unspent U s F HI). simpl. split_and!; [done|by eexists|].
    intros Hm. apply Hiff in Hm. congruence.
  Qed.

  Definition w2 (minconf sync now : Z) (kv : (N * N) * (Z * N)) : Z :=
    if bool_decide (kv.2.1 < sync - Z.max minconf coinbase_maturity) then 0
    else if keepb kv.1 now then
           if young minconf sync kv.2.1 (is_coinbase U kv.1.1) then amount_of U kv.1 else 0
         else 0.

  Definition quad_entry (q : N * Z * N * N) : (N * N) * (Z * N) :=
    ((q.1.1.1, q.2), (q.1.1.2, q.1.2)).
  Definition quad_live (q : N * Z * N * N) : Prop :=
    unspent s !! (q.1.1.1, q.2) = Some (q.1.1.2, q.1.2).
  Global Instance quad_live_dec q : Decision (quad_live q).
  Proof. unfold quad_live. apply _. Defined.

  Lemma quads_unspent_perm : map quad_entry (filter quad_live quads) ≡ₚ map_to_list (unspent s).
  Proof.
    apply NoDup_Permutation.
    - rewrite map_fmap. apply NoDup_fmap_2; [|apply NoDup_filter, NoDup_quads].
      intros [[[t1 h1] b1] i1] [[[t2 h2] b2] i2] Heq. unfold quad_entry in Heq. simpl in Heq.
      by injection Heq as -> -> -> ->.
    - apply NoDup_map_to_list.
    - intros [[t i] [h bh]]. rewrite map_fmap, elem_of_list_fmap, elem_of_map_to_list. split.
      + intros ([[[t' h'] b'] i'] & Heq & Hin). apply elem_of_list_filter in Hin as [Hlive _].
        unfold quad_entry in Heq. simpl in Heq. injection Heq as -> -> -> ->. exact Hlive.
      + intros Hu. exists (t, h, bh, i). split; [done|]. apply elem_of_list_filter. split; [exact Hu|].
        apply (inv_unspent U s F HI) in Hu as (Hc & [chg Hcr] & Hns). simpl in *.
        destruct (inv_blocks_complete U s F HI t h bh Hc) as (br & Hb & Hbh & Htx).
        destruct (known_in_universe t) as (x & Hx & Hwx); [left; by eexists|].
        apply elem_of_quads. exists br, x. split_and!; try done.
        unfold is_credited in Hcr. simpl in Hcr. rewrite (creds_of_lookup _ _ Hx) in Hcr.
        exact (wt_creds_range _ _ Hwx _ Hcr).
  Qed.

  Lemma sum_quads_unspent minconf sync now :
    sumZ (map (wq minconf sync now) quads) =
    sumZ (map (w2 minconf sync now) (map_to_list (unspent s))).
  Proof.
    rewrite (sumZ_map_filter quad_live).
    2:{ intros [[[t h] bh] i] _ Hnl. unfold wq, w_out. simpl.
        destruct (bool_decide (h < _)); [done|].
        destruct (keepb (t, i) now); [|done].
        destruct (credits s !! (t, h, bh, i)) as [cv|] eqn:Hcv; [|done].
        destruct (c_spent cv) eqn:Hsp; [done|].
        exfalso. apply Hnl. unfold quad_live. simpl. by eapply credit_unspent. }
    rewrite <-(sumZ_perm _ _ (Permutation_map (w2 minconf sync now) quads_unspent_perm)).
    rewrite sumZ_map_map. apply sumZ_map_ext.
    intros [[[t h] bh] i] Hin. apply elem_of_list_filter in Hin as [Hlive _].
    unfold quad_live in Hlive. simpl in Hlive.
    destruct (unspent_credit _ _ _ Hlive) as (cv & Hcv & Ha & Hsp). simpl in Hcv.
    unfold wq, w2, w_out, quad_entry. simpl.
    destruct (bool_decide (h < _)); [done|].
    destruct (keepb (t, i) now); [|done].
    rewrite Hcv, Hsp, Ha. done.
  Qed.

  Lemma balance_as_utxo_sum minconf sync now :
    balance U s minconf sync now =
    sumZ (omap (bal_contrib minconf sync) (unspent_outputs U s now)).
  Proof.
    rewrite balance_unfold, sum_blocks_quads, sum_quads_unspent, (inv_bal U s F HI).
    rewrite unspent_outputs_alt, omap_app, sumZ_app, !omap_omap, !sumZ_omap.
    rewrite !sumZ_map_sub. f_equal.
    - apply sumZ_map_ext. intros [[t i] [h bh]] Hin. apply elem_of_map_to_list in Hin.
      destruct (unspent_credit _ _ _ Hin) as (cv & Hcv & Ha & Hsp). simpl in Hcv.
      pose proof Hin as Hin'. apply (inv_unspent U s F HI) in Hin' as (Hc & _ & _). simpl in Hc.
      destruct (known_in_universe t) as (x & Hx & Hwx); [left; by eexists|].
      pose proof (fw_heights_nonneg U F (inv_wf U s F HI) _ _ _ Hc) as Hh.
      unfold w1, w2, mined_fn. simpl. rewrite Hcv, Ha.
      destruct (keepb (t, i) now); simpl.
      + rewrite Hx. simpl. unfold bal_contrib. simpl.
        rewrite (amount_of_lookup (t, i) x Hx). simpl.
        rewrite (bool_decide_eq_false_2 (h < 0)) by lia.
        unfold young, is_coinbase. rewrite Hx. unfold coinbase_maturity.
        destruct (t_coinbase x); simpl; repeat case_bool_decide; simpl; lia.
      + destruct (bool_decide (h < _)); simpl; lia.
    - transitivity (sumZ (map (λ kv, if bool_decide (minconf = 0) then w3 now kv else 0)
                              (map_to_list (unmined_credits s)))).
      { destruct (bool_decide (minconf = 0)); [done|]. symmetry. by apply sumZ_map_zero. }
      apply sumZ_map_ext. intros [[t i] [a chg]] Hin. apply elem_of_map_to_list in Hin.
      apply (inv_unmined_credits U s F HI) in Hin as (Hu & _ & Ha). simpl in Hu.
      destruct (known_in_universe t) as (x & Hx & Hwx); [by right|].
      destruct (proj2 (inv_unmined U s F HI t) Hu) as [[] Hm].
      unfold w3, unm_fn. simpl. rewrite Hm, Hx.
      destruct (keepb (t, i) now); simpl; [|by destruct (bool_decide (minconf = 0))].
      unfold bal_contrib. simpl. rewrite Ha, (amount_of_lookup (t, i) x Hx). simpl.
      by destruct (bool_decide (minconf = 0)).
  Qed.

  Lemma spec_balance_as_utxo_sum minconf sync now :
    spec_balance U F minconf sync now =
    sumZ (omap (bal_contrib minconf sync) (spec_utxos U F now)).
  Proof.
    rewrite spec_utxos_alt, omap_omap. unfold spec_balance. fold sumZ. f_equal.
    apply omap_ext_elem. intros [[t i] chg] Hin. unfold utxo_fn. simpl.
    destruct (_ || _); [done|]. simpl. unfold bal_contrib, mk_utxo, confs_of.
    destruct (f_conf F !! t_id t) as [[h bh]|] eqn:Hc; simpl.
    - pose proof (fw_heights_nonneg U F (inv_wf U s F HI) _ _ _ Hc) as Hh.
      rewrite (bool_decide_eq_false_2 (h < 0)) by lia. done.
    - done.
  Qed.

  (** ** Transaction details *)

  Definition cred_sel (C : list (N * bool)) (i : N) : option (N * bool) :=
    (λ c, (i, c)) <$> ((list_to_map C : gmap N bool) !! i).

  Lemma cred_sel_Some C i y : cred_sel C i = Some y → y.1 = i ∧ (i, y.2) ∈ C.
  Proof.
    unfold cred_sel. destruct (_ !! i) as [c|] eqn:Hc; simpl; [|done].
    intros [= <-]. split; [done|]. by apply elem_of_list_to_map_2.
  Qed.

  Lemma sorted_creds t x :
    U !! t = Some x →
    merge_sort N_le_dec_rel (t_creds x) = omap (cred_sel (t_creds x)) (indices (t_outs x)).
  Proof.
    intros Hx. pose proof (wf_universe_lookup _ _ _ Hwf Hx) as Hwx.
    pose proof (wt_creds_nodup _ _ Hwx) as Hnd.
    apply sorted_perm_unique.
    - apply StronglySorted_merge_sort; apply _.
    - apply sorted_omap_sel; [|apply sorted_indices_from].
      intros i y Hy. by apply cred_sel_Some in Hy as [? _].
    - rewrite merge_sort_Permutation. apply NoDup_Permutation.
      + eapply NoDup_fmap_1. rewrite <-map_fmap. exact Hnd.
      + apply NoDup_omap; [apply NoDup_indices|].
        intros i1 i2 y _ _ H1 H2. apply cred_sel_Some in H1 as [H1 _], H2 as [H2 _]. congruence.
      + intros [i c]. rewrite elem_of_list_omap. split.
        * intros Hin. exists i. split.
          { apply elem_of_indices. exact (wt_creds_range _ _ Hwx _ Hin). }
          unfold cred_sel. rewrite (elem_of_list_to_map_1 (t_creds x) i c); [done| |done].
          by rewrite <-map_fmap.
        * intros (j & _ & Hsel). apply cred_sel_Some in Hsel as [Hj Hin]. simpl in *. by subst j.
    - rewrite map_fmap, merge_sort_Permutation, <-map_fmap. done.
  Qed.

  Lemma cred_sel_in x i c :
    NoDup (map fst (t_creds x)) → (i, c) ∈ t_creds x → cred_sel (t_creds x) i = Some (i, c).
  Proof.
    intros Hnd Hin. unfold cred_sel.
    rewrite (elem_of_list_to_map_1 (t_creds x) i c); [done| |done]. by rewrite <-map_fmap.
  Qed.

  Lemma credited_amount_Some op chg :
    is_credited U op chg → credited_amount U op = Some (amount_of U op).
  Proof.
    unfold is_credited, creds_of, credited_amount, amount_of.
    destruct (U !! op.1) as [x|]; [|by intros H; inversion H]. intros Hin.
    rewrite (proj2 (existsb_elem_of _ _)); [done|].
    exists (op.2, chg). split; [done|]. by apply bool_decide_eq_true.
  Qed.

  Lemma credited_amount_inv op a :
    credited_amount U op = Some a → ∃ chg, is_credited U op chg.
  Proof.
    unfold is_credited, creds_of, credited_amount.
    destruct (U !! op.1) as [x|]; [|done].
    destruct (existsb _ _) eqn:He; [|done]. intros _.
    apply existsb_elem_of in He as ([i c] & Hin & Heq). apply bool_decide_eq_true in Heq.
    simpl in Heq. subst i. by exists c.
  Qed.

  Lemma mined_spent_eq t h bh i cv :
    credits s !! (t, h, bh, i) = Some cv →
    c_spent cv || bool_decide (is_Some (unmined_inputs s !! (t, i))) = spent_by_known U F (t, i).
  Proof.
    intros Hcv. destruct (inv_credits_sound U s F HI t h bh i cv Hcv) as (_ & _ & _ & Hsp).
    apply eq_true_iff_eq.
    rewrite orb_true_iff, bool_decide_eq_true, unmined_inputs_some, spent_by_known_true, Hsp. done.
  Qed.

  Lemma mined_credits_eq t x h bh :
    U !! t = Some x → f_conf F !! t = Some (h, bh) →
    omap (λ i, match credits s !! (t, h, bh, i) with
               | None => None
               | Some cv =>
                 Some {| cr_index := i; cr_amt := c_amt cv;
                         cr_spent := c_spent cv || bool_decide (is_Some (unmined_inputs s !! (t, i)));
                         cr_change := c_change cv |}
               end) (indices (t_outs x)) =
    map (λ ic : N * bool, {| cr_index := ic.1; cr_amt := out_amount x ic.1;
                             cr_spent := spent_by_known U F (t, ic.1); cr_change := ic.2 |})
        (merge_sort N_le_dec_rel (t_creds x)).
  Proof.
    intros Hx Hc. pose proof (wf_universe_lookup _ _ _ Hwf Hx) as Hwx.
    rewrite (sorted_creds t x Hx), map_fmap, list_fmap_omap. apply omap_ext_elem. intros i _.
    destruct (cred_sel (t_creds x) i) as [[i' c]|] eqn:Hsel.
    - apply cred_sel_Some in Hsel as [Hi Hin]. simpl in Hi, Hin. subst i'.
      assert (is_credited U (t, i) c) as Hcr.
      { unfold is_credited. simpl. by rewrite (creds_of_lookup _ _ Hx). }
      destruct (inv_credits_complete U s F HI t h bh i c Hc Hcr) as [cv Hcv]. rewrite Hcv.
      destruct (inv_credits_sound U s F HI t h bh i cv Hcv) as (_ & Hcr' & Ha & _).
      rewrite (credited_change_unique _ _ _ Hcr' Hcr), Ha, (mined_spent_eq _ _ _ _ _ Hcv).
      rewrite (amount_of_lookup (t, i) x Hx). done.
    - destruct (credits s !! (t, h, bh, i)) as [cv|] eqn:Hcv; [|done]. exfalso.
      destruct (inv_credits_sound U s F HI t h bh i cv Hcv) as (_ & Hcr' & _).
      unfold is_credited in Hcr'. simpl in Hcr'. rewrite (creds_of_lookup _ _ Hx) in Hcr'.
      rewrite (cred_sel_in x i _ (wt_creds_nodup _ _ Hwx) Hcr') in Hsel. done.
  Qed.

  Lemma unmined_credits_eq t x :
    U !! t = Some x → t ∈ f_unconf F →
    omap (λ i, match unmined_credits s !! (t, i) with
               | None => None
               | Some (amt, chg) =>
                 Some {| cr_index := i; cr_amt := amt;
                         cr_spent := bool_decide (is_Some (unmined_inputs s !! (t, i)));
                         cr_change := chg |}
               end) (indices (t_outs x)) =
    map (λ ic : N * bool, {| cr_index := ic.1; cr_amt := out_amount x ic.1;
                             cr_spent := spent_by_known U F (t, ic.1); cr_change := ic.2 |})
        (merge_sort N_le_dec_rel (t_creds x)).
  Proof.
    intros Hx Hu. pose proof (wf_universe_lookup _ _ _ Hwf Hx) as Hwx.
    rewrite (sorted_creds t x Hx), map_fmap, list_fmap_omap. apply omap_ext_elem. intros i _.
    destruct (cred_sel (t_creds x) i) as [[i' c]|] eqn:Hsel.
    - apply cred_sel_Some in Hsel as [Hi Hin]. simpl in Hi, Hin. subst i'.
      assert (is_credited U (t, i) c) as Hcr.
      { unfold is_credited. simpl. by rewrite (creds_of_lookup _ _ Hx). }
      rewrite (proj2 (inv_unmined_credits U s F HI (t, i) (amount_of U (t, i)) c)) by done.
      simpl. rewrite (amount_of_lookup (t, i) x Hx). simpl. f_equal. f_equal.
      apply eq_true_iff_eq.
      rewrite bool_decide_eq_true, unmined_inputs_some, spent_by_known_true.
      pose proof (unconf_no_conf_spender (t, i) Hu). tauto.
    - destruct (unmined_credits s !! (t, i)) as [[a chg]|] eqn:Hmc; [|done]. exfalso.
      apply (inv_unmined_credits U s F HI) in Hmc as (_ & Hcr' & _).
      unfold is_credited in Hcr'. simpl in Hcr'. rewrite (creds_of_lookup _ _ Hx) in Hcr'.
      rewrite (cred_sel_in x i _ (wt_creds_nodup _ _ Hwx) Hcr') in Hsel. done.
  Qed.

  Definition spec_debit_fn (ii : N * (N * N)) : option (N * Z) :=
    let '(i, op) := ii in
    if known F op.1 then
      match credited_amount U op with
      | Some a => Some (i, a)
      | None => None
      end
    else None.

  Lemma mined_debits_eq t x h bh :
    U !! t = Some x → f_conf F !! t = Some (h, bh) →
    omap (λ i, match debits s !! (t, h, bh, i) with
               | None => None
               | Some (amt, _) => Some (i, amt)
               end) (indices (t_ins x)) =
    omap spec_debit_fn (zip (indices (t_ins x)) (t_ins x)).
  Proof.
    intros Hx Hc. apply omap_indices_zip. intros n op Hn. unfold spec_debit_fn.
    assert (input_at U t (N.of_nat n) = Some op) as Hat.
    { unfold input_at, tx_ins. by rewrite Hx, Nat2N.id. }
    assert (op ∈ tx_ins U t) as Hop.
    { unfold tx_ins. rewrite Hx. by eapply elem_of_list_lookup_2. }
    destruct (debits s !! (t, h, bh, N.of_nat n)) as [[amt ck]|] eqn:Hd.
    - destruct (inv_debits_sound U s F HI _ _ _ _ _ _ Hd)
        as (_ & op' & ph & pbh & Hat' & [chg Hcr] & Hcp & _ & ->).
      rewrite Hat in Hat'. injection Hat' as <-.
      rewrite (proj2 (known_true op.1)) by (left; by eexists).
      by rewrite (credited_amount_Some _ _ Hcr).
    - destruct (known F op.1) eqn:Hk; [|done].
      destruct (credited_amount U op) as [a|] eqn:Hca; [|done]. exfalso.
      apply credited_amount_inv in Hca as [chg Hcr]. apply known_true in Hk.
      destruct (fw_parents_confirmed U F (inv_wf U s F HI) t h bh op Hc Hop Hk)
        as (ph & pbh & Hcp & _).
      destruct (inv_debits_complete U s F HI t h bh (N.of_nat n) op ph pbh chg Hc Hat Hcr Hcp)
        as [v Hv]. congruence.
  Qed.

  Lemma unmined_debits_eq t x :
    U !! t = Some x → t ∈ f_unconf F →
    omap (λ ii : N * (N * N),
            let '(i, op) := ii in
            match cred_key_of_unspent s op with
            | Some ck => Some (i, match credits s !! ck with Some cv => c_amt cv | None => 0 end)
            | None =>
              match unmined_credits s !! op with
              | Some (amt, _) => Some (i, amt)
              | None => None
              end
            end) (zip (indices (t_ins x)) (t_ins x)) =
    omap spec_debit_fn (zip (indices (t_ins x)) (t_ins x)).
  Proof.
    intros Hx Hu. apply omap_ext_elem. intros [i op] Hin. unfold spec_debit_fn.
    assert (op ∈ tx_ins U t) as Hop.
    { unfold tx_ins. rewrite Hx. by eapply elem_of_zip_r. }
    unfold cred_key_of_unspent.
    destruct (unspent s !! op) as [[h' bh']|] eqn:Hus.
    - destruct (unspent_credit _ _ _ Hus) as (cv & Hcv & Ha & _). rewrite Hcv, Ha.
      apply (inv_unspent U s F HI) in Hus as (Hcp & [chg Hcr] & _).
      rewrite (proj2 (known_true op.1)) by (left; by eexists).
      by rewrite (credited_amount_Some _ _ Hcr).
    - destruct (unmined_credits s !! op) as [[a chg]|] eqn:Hmc.
      + apply (inv_unmined_credits U s F HI) in Hmc as (Hup & Hcr & ->).
        rewrite (proj2 (known_true op.1)) by by right.
        by rewrite (credited_amount_Some _ _ Hcr).
      + destruct (known F op.1) eqn:Hk; [|done].
        destruct (credited_amount U op) as [a|] eqn:Hca; [|done]. exfalso.
        apply credited_amount_inv in Hca as [chg Hcr]. apply known_true in Hk as [[[h' bh'] Hcp]|Hup].
        * assert (unspent s !! op = Some (h', bh')) as Hus'; [|congruence].
          apply (inv_unspent U s F HI). split_and!; [done|by eexists|].
          intros [m Hm]. eapply (fw_no_unconf_conflict U F (inv_wf U s F HI) op m t); [done|].
          by split.
        * assert (unmined_credits s !! op = Some (amount_of U op, chg)) as Hmc'; [|congruence].
          by apply (inv_unmined_credits U s F HI).
  Qed.

  Definition spec_details_of (t : N) (x : tx) : details :=
    {| d_block := f_conf F !! t;
       d_credits := map (λ ic : N * bool,
                       {| cr_index := ic.1; cr_amt := out_amount x ic.1;
                          cr_spent := spent_by_known U F (t, ic.1); cr_change := ic.2 |})
                     (merge_sort N_le_dec_rel (t_creds x));
       d_debits := omap spec_debit_fn (zip (indices (t_ins x)) (t_ins x)) |}.

  Lemma spec_details_known t x :
    known F t = true → U !! t = Some x → spec_details U F t = Some (spec_details_of t x).
  Proof. intros Hk Hx. unfold spec_details. rewrite Hk, Hx. done. Qed.

  Lemma spec_details_unknown t : known F t = false → spec_details U F t = None.
  Proof. intros Hk. unfold spec_details. by rewrite Hk. Qed.

  Lemma unmined_details_eq t x :
    U !! t = Some x → t ∈ f_unconf F → unmined_details U s t = spec_details_of t x.
  Proof.
    intros Hx Hu. unfold unmined_details, spec_details_of. rewrite Hx, (unconf_not_conf _ Hu).
    f_equal.
    - by apply unmined_credits_eq.
    - by apply (unmined_debits_eq t).
  Qed.

  Lemma mined_details_eq t x h bh :
    U !! t = Some x → f_conf F !! t = Some (h, bh) →
    mined_details U s (t, h, bh) = spec_details_of t x.
  Proof.
    intros Hx Hc. unfold mined_details, spec_details_of. rewrite Hx, Hc.
    f_equal.
    - by apply mined_credits_eq.
    - by apply mined_debits_eq.
  Qed.

  Lemma elem_of_mined_keys t k :
    k ∈ mined_keys_of t s ↔ k.1.1 = t ∧ f_conf F !! t = Some (k.1.2, k.2).
  Proof.
    unfold mined_keys_of. rewrite elem_of_list_filter, map_fmap, elem_of_list_fmap.
    destruct k as [[t' h] bh]. simpl. split.
    - intros [-> ([k []] & Heq & Hin)]. simpl in Heq. subst k.
      apply elem_of_map_to_list in Hin. split; [done|].
      apply (inv_txrecs U s F HI). by eexists.
    - intros [-> Hc]. split; [done|]. apply (inv_txrecs U s F HI) in Hc as [[] Hr].
      exists ((t, h, bh), tt). split; [done|]. by apply elem_of_map_to_list.
  Qed.

  Lemma mined_keys_conf t h bh : f_conf F !! t = Some (h, bh) → mined_keys_of t s = [(t, h, bh)].
  Proof.
    intros Hc. apply NoDup_singleton_eq.
    - unfold mined_keys_of. apply NoDup_filter. rewrite map_fmap. apply NoDup_fst_map_to_list.
    - intros [[t' h'] bh']. rewrite elem_of_mined_keys. simpl. split.
      + intros [-> Hc']. congruence.
      + intros [= -> -> ->]. done.
  Qed.

  Lemma mined_keys_none t : f_conf F !! t = None → mined_keys_of t s = [].
  Proof.
    intros Hc. apply elem_of_nil_inv. intros k Hk. apply elem_of_mined_keys in Hk as [_ Hk]. congruence.
  Qed.

  Lemma details_main t :
    tx_details U s t = spec_details U F t ∧
    unique_tx_details U s t (f_conf F !! t) = spec_details U F t.
  Proof.
    destruct (f_conf F !! t) as [[h bh]|] eqn:Hc.
    - destruct (known_in_universe t) as (x & Hx & _); [left; by eexists|].
      assert (unmined s !! t = None) as Hm.
      { destruct (unmined s !! t) as [v|] eqn:Hm; [|done]. exfalso.
        eapply conf_not_unconf; [done|]. apply (inv_unmined U s F HI). by eexists. }
      rewrite (spec_details_known t x); [|apply known_true; left; by eexists|done].
      split.
      + unfold tx_details. rewrite Hm, (mined_keys_conf _ _ _ Hc).
        transitivity (Some (mined_details U s (t, h, bh))); [done|].
        by rewrite (mined_details_eq t x h bh).
      + unfold unique_tx_details.
        destruct (proj2 (inv_txrecs U s F HI t h bh) Hc) as [[] Hr]. rewrite Hr.
        by rewrite (mined_details_eq t x h bh).
    - destruct (decide (t ∈ f_unconf F)) as [Hu|Hu].
      + destruct (known_in_universe t) as (x & Hx & _); [by right|].
        destruct (proj2 (inv_unmined U s F HI t) Hu) as [[] Hm].
        rewrite (spec_details_known t x); [|apply known_true; by right|done].
        unfold tx_details, unique_tx_details. rewrite Hm.
        by rewrite (unmined_details_eq t x).
      + assert (unmined s !! t = None) as Hm.
        { destruct (unmined s !! t) as [v|] eqn:Hm; [|done]. exfalso.
          apply Hu, (inv_unmined U s F HI). by eexists. }
        rewrite spec_details_unknown.
        2:{ apply not_true_iff_false. rewrite known_true. intros [[b Hb]|Hk]; [congruence|done]. }
        unfold tx_details, unique_tx_details. rewrite Hm, (mined_keys_none _ Hc). done.
  Qed.
End obs.

Lemma utxos_correct : utxos_statement.
Proof.
  intros U s F now Hwf HI. apply NoDup_Permutation.
  - by eapply NoDup_unspent_outputs.
  - by eapply NoDup_spec_utxos.
  - intros u. etrans; [by eapply elem_of_unspent_outputs|]. symmetry. by eapply elem_of_spec_utxos.
Qed.

Lemma balance_correct : balance_statement.
Proof.
  intros U s F minconf sync now Hwf HI _ _.
  erewrite balance_as_utxo_sum by done.
  erewrite spec_balance_as_utxo_sum by done.
  apply sumZ_perm. apply omap_Permutation. by apply utxos_correct.
Qed.

Lemma details_correct : details_statement.
Proof.
  intros U s F t Hwf HI.
  destruct (details_main U s F Hwf HI t) as [H1 H2].
  split_and!; [done|done|]. by eapply unmined_hashes_perm.
Qed.
