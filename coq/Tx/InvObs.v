(** Observation correctness under the refinement invariant: the model's
    [balance], [unspent_outputs], [tx_details]/[unique_tx_details]/
    [unmined_hashes] agree with the ledger specification (the statements at
    the end of Inv.v).  Owner: prover-obs. *)
From stdpp Require Import gmap list numbers sorting.
From Coq Require Import ZArith NArith Lia.
From Verif Require Import Tx.Store Tx.Ledger Tx.Hist Tx.Inv.
Local Open Scope Z_scope.

(** * Well-formed universe toolkit *)

Record wf_tx_P (k : txid) (t : tx) : Prop := {
  wt_id : t_id t = k;
  wt_ins_nodup : NoDup (t_ins t);
  wt_outs_pos : ∀ a, a ∈ t_outs t → 0 < a;
  wt_creds_nodup : NoDup (map fst (t_creds t));
  wt_creds_range : ∀ ic, ic ∈ t_creds t → (N.to_nat ic.1 < length (t_outs t))%nat;
  wt_ins_lt : ∀ op, op ∈ t_ins t → (op.1 < k)%N;
  wt_coinbase : t_coinbase t = true → t_ins t = [];
}.

Lemma forallb_elem_of {A} (f : A → bool) l :
  forallb f l = true → ∀ x, x ∈ l → f x = true.
Proof.
  intros H x Hx. rewrite forallb_forall in H. apply H. by apply elem_of_list_In.
Qed.

Lemma wf_tx_spec k t : wf_tx k t = true → wf_tx_P k t.
Proof.
  unfold wf_tx. rewrite !andb_true_iff.
  intros [[[[[[H1 H2] H3] H4] H5] H6] H7].
  apply bool_decide_eq_true in H1. apply bool_decide_eq_true in H2.
  apply bool_decide_eq_true in H4.
  split; try done.
  - intros a Ha. apply (forallb_elem_of _ _ H3) in Ha. by apply bool_decide_eq_true in Ha.
  - intros ic Hic. apply (forallb_elem_of _ _ H5) in Hic. by apply bool_decide_eq_true in Hic.
  - intros op Hop. apply (forallb_elem_of _ _ H6) in Hop. by apply bool_decide_eq_true in Hop.
  - intros Hcb. rewrite Hcb in H7. simpl in H7. by apply bool_decide_eq_true in H7.
Qed.

Lemma wf_universe_lookup U k t : wf_universe U = true → U !! k = Some t → wf_tx_P k t.
Proof.
  unfold wf_universe. rewrite !andb_true_iff. intros [[_ H] _] Hk.
  apply wf_tx_spec.
  apply (forallb_elem_of _ _ H (k, t)). by apply elem_of_map_to_list.
Qed.

Lemma wf_universe_ins_in_range U k t op p :
  wf_universe U = true → U !! k = Some t → op ∈ t_ins t → U !! op.1 = Some p →
  (N.to_nat op.2 < length (t_outs p))%nat.
Proof.
  unfold wf_universe, ins_in_range_b. rewrite !andb_true_iff. intros [_ H] Hk Hop Hp.
  pose proof (forallb_elem_of _ _ H (k, t)) as H1. simpl in H1.
  pose proof (forallb_elem_of _ _ (H1 ltac:(by apply elem_of_map_to_list)) op Hop) as H2.
  simpl in H2. rewrite Hp in H2. by apply bool_decide_eq_true in H2.
Qed.

(** * General list / sum toolkit *)

Lemma sumZ_app l1 l2 : sumZ (l1 ++ l2) = sumZ l1 + sumZ l2.
Proof. unfold sumZ. induction l1 as [|x l1 IH]; simpl; lia. Qed.

Lemma sumZ_perm l1 l2 : l1 ≡ₚ l2 → sumZ l1 = sumZ l2.
Proof. unfold sumZ. induction 1; simpl; lia. Qed.

Lemma sumZ_omap {A} (f : A → option Z) l :
  sumZ (omap f l) = sumZ (map (λ x, default 0 (f x)) l).
Proof.
  unfold sumZ. induction l as [|x l IH]; simpl; [done|].
  destruct (f x); simpl; lia.
Qed.

Lemma sumZ_map_ext {A} (f g : A → Z) l :
  (∀ x, x ∈ l → f x = g x) → sumZ (map f l) = sumZ (map g l).
Proof.
  unfold sumZ. induction l as [|x l IH]; simpl; intros H; [done|].
  rewrite H by left. rewrite IH; [done|]. intros y Hy. apply H. by right.
Qed.

Lemma sumZ_map_zero {A} (f : A → Z) l :
  (∀ x, x ∈ l → f x = 0) → sumZ (map f l) = 0.
Proof.
  unfold sumZ. induction l as [|x l IH]; simpl; intros H; [done|].
  rewrite H by left. rewrite IH; [done|]. intros y Hy. apply H. by right.
Qed.

Lemma sumZ_map_filter {A} (P : A → Prop) `{!∀ x, Decision (P x)} (f : A → Z) l :
  (∀ x, x ∈ l → ¬ P x → f x = 0) → sumZ (map f l) = sumZ (map f (filter P l)).
Proof.
  unfold sumZ. induction l as [|x l IH]; simpl; intros H; [done|].
  rewrite filter_cons. destruct (decide (P x)) as [HP|HP]; simpl.
  - rewrite IH; [done|]. intros y Hy. apply H. by right.
  - rewrite H by (done || left). rewrite IH; [done|]. intros y Hy. apply H. by right.
Qed.

Lemma sumZ_flat_map {A B} (g : A → list B) (f : B → Z) l :
  sumZ (map f (flat_map g l)) = sumZ (map (λ x, sumZ (map f (g x))) l).
Proof.
  induction l as [|x l IH]; simpl; [done|].
  rewrite map_app, sumZ_app, IH. done.
Qed.

Lemma sumZ_map_sub {A} (f g : A → Z) l :
  sumZ (map f l) - sumZ (map g l) = sumZ (map (λ x, f x - g x) l).
Proof. unfold sumZ. induction l as [|x l IH]; simpl; lia. Qed.

Lemma sumZ_map_map {A B} (f : B → Z) (g : A → B) l :
  sumZ (map f (map g l)) = sumZ (map (λ x, f (g x)) l).
Proof. by rewrite map_map. Qed.

Lemma foldl_sub {A} (G : Z → A → Z) (w : A → Z) l b0 :
  (∀ b x, x ∈ l → G b x = b - w x) → foldl G b0 l = b0 - sumZ (map w l).
Proof.
  unfold sumZ. revert b0. induction l as [|x l IH]; simpl; intros b0 H; [lia|].
  rewrite IH.
  - rewrite H by left. lia.
  - intros b y Hy. apply H. by right.
Qed.

Lemma foldl_add {A} (G : Z → A → Z) (w : A → Z) l b0 :
  (∀ b x, x ∈ l → G b x = b + w x) → foldl G b0 l = b0 + sumZ (map w l).
Proof.
  unfold sumZ. revert b0. induction l as [|x l IH]; simpl; intros b0 H; [lia|].
  rewrite IH.
  - rewrite H by left. lia.
  - intros b y Hy. apply H. by right.
Qed.

Lemma elem_of_flat_map {A B} (g : A → list B) l y :
  y ∈ flat_map g l ↔ ∃ x, x ∈ l ∧ y ∈ g x.
Proof.
  rewrite elem_of_list_In, in_flat_map. split.
  - intros (x & Hx & Hy). exists x. by rewrite !elem_of_list_In.
  - intros (x & Hx & Hy). exists x. by rewrite <-!elem_of_list_In.
Qed.

Lemma NoDup_flat_map {A B} (g : A → list B) l :
  NoDup l → (∀ x, x ∈ l → NoDup (g x)) →
  (∀ x1 x2 y, x1 ∈ l → x2 ∈ l → y ∈ g x1 → y ∈ g x2 → x1 = x2) →
  NoDup (flat_map g l).
Proof.
  induction 1 as [|x l Hx Hl IH]; simpl; intros Hg Hd; [constructor|].
  apply NoDup_app. split_and!.
  - apply Hg. left.
  - intros y Hy Hy'. apply elem_of_flat_map in Hy' as (x' & Hx' & Hy').
    assert (x = x') as -> by (eapply Hd; [left|by right|done..]). done.
  - apply IH.
    + intros z Hz. apply Hg. by right.
    + intros x1 x2 y H1 H2. apply Hd; by right.
Qed.

Lemma omap_ext_elem {A B} (f g : A → option B) l :
  (∀ x, x ∈ l → f x = g x) → omap f l = omap g l.
Proof.
  induction l as [|x l IH]; simpl; intros H; [done|].
  rewrite H by left. rewrite IH; [done|]. intros y Hy. apply H. by right.
Qed.

Lemma omap_omap {A B C} (f : A → option B) (g : B → option C) l :
  omap g (omap f l) = omap (λ x, f x ≫= g) l.
Proof.
  induction l as [|x l IH]; simpl; [done|].
  destruct (f x); simpl; rewrite IH; done.
Qed.

Lemma NoDup_omap {A B} (f : A → option B) l :
  NoDup l →
  (∀ x1 x2 y, x1 ∈ l → x2 ∈ l → f x1 = Some y → f x2 = Some y → x1 = x2) →
  NoDup (omap f l).
Proof.
  induction 1 as [|x l Hx Hl IH]; simpl; intros Hinj; [constructor|].
  assert (NoDup (omap f l)) as IH'.
  { apply IH. intros x1 x2 y H1 H2. apply Hinj; by right. }
  destruct (f x) as [y|] eqn:Hfx; [|done].
  constructor; [|done].
  intros Hy. apply elem_of_list_omap in Hy as (x' & Hx' & Hfx').
  assert (x = x') as -> by (eapply Hinj; [left|by right|done..]). done.
Qed.

Lemma NoDup_singleton_eq {A} (l : list A) a :
  NoDup l → (∀ x, x ∈ l ↔ x = a) → l = [a].
Proof.
  intros Hnd H. destruct l as [|x l].
  - exfalso. assert (a ∈ @nil A) as Ha by by apply H. inversion Ha.
  - assert (x = a) as -> by (apply H; left).
    destruct l as [|y l]; [done|].
    assert (y = a) as -> by (apply H; right; left).
    apply NoDup_cons in Hnd as [Hnd _]. exfalso. apply Hnd. left.
Qed.
