(** Executable comparison for the wallet layer of C01 / C02: the notification
    steps the harness delivered to a real wallet.Wallet are run on the model
    of Tx/Wallet.v; what CalculateBalance, ListUnspent and UnspentOutputs
    reported is compared with the model AND with the ledger specification of
    the generated store-level history (the oracle uses the facts of the
    ORIGINAL history and the sync height the wallet itself reports).

    Codes: 3x = implementation differs from the MODEL, 13x = implementation
    differs from the LEDGER (property violated), 906.. = the case is not an
    instance (translation bug in the harness). *)
From stdpp Require Import gmap list numbers sorting.
From Coq Require Import ZArith NArith.
From Verif Require Import Tx.Store Tx.Ledger Tx.Hist Tx.StoreCorr Tx.Wallet.
Local Open Scope Z_scope.

Record wobs := {
  wo_err : bool;                                        (* a query returned an error *)
  wo_tip : Z;                                           (* SyncedTo().Height *)
  wo_tiphash : N;
  wo_bal : list Z;                                      (* CalculateBalance per minconf *)
  wo_list : list ((Z * Z) * list (outpoint * Z * Z));   (* ListUnspent(min,max): outpoint, amount, confirmations *)
  wo_unsp : list (Z * list utxo);                       (* UnspentOutputs(minconf) *)
}.

Record wstepc := {
  ws_upto : nat;                                        (* model events applied once this step is over *)
  ws_notifs : list (wnotif * bool);                     (* notification, did the handler return an error *)
  ws_obs : option wobs;
}.

Record wcase := {
  wc_universe : list tx;
  wc_minconfs : list Z;
  wc_events : list event;                               (* the generated store-level history *)
  wc_steps : list wstepc;
}.

Definition lu_le (a b : outpoint * Z * Z) : Prop := op_le a.1.1 b.1.1.
Global Instance lu_le_dec a b : Decision (lu_le a b).
Proof. unfold lu_le, op_le. apply _. Defined.

Definition sort_lu := merge_sort lu_le.
Definition sort_ut := merge_sort utxo_le.

(** run the notifications of one step: new wallet, new spec state of the
    projection, failure codes *)
Fixpoint run_notifs (U : universe) (w : wstate) (sm : sstate) (l : list (wnotif * bool)) : wstate * sstate * list nat :=
  match l with
  | [] => (w, sm, [])
  | (n, ierr) :: l' =>
    let '(w', merr) := wstep U w n in
    let evs := wstep_events U w n in
    let ok := consistent_from U sm evs in
    let sm' := foldl (spec_step U) sm evs in
    let '(w2, sm2, fl) := run_notifs U w' sm' l' in
    (w2, sm2, (if ok then [] else [906%nat]) ++ (if eqb_on ierr merr then [] else [30%nat]) ++ fl)
  end.

Definition check_wobs (U : universe) (c : wcase) (w : wstate) (smp smo : sstate) (o : wobs) : list nat :=
  let Fo := fs smo in
  let now := sclock smo in
  let tip := wo_tip o in
  let cov := tip_covers Fo tip in
  first_fail
    [ (negb (wo_err o), 35%nat);
      (eqb_on (f_conf (fs smp)) (f_conf Fo) && eqb_on (f_unconf (fs smp)) (f_unconf Fo)
       && eqb_on (f_leases (fs smp)) (f_leases Fo), 908%nat);
      (eqb_on (w_tip w) tip && eqb_on (w_tiphash w) (wo_tiphash o), 34%nat);
      (eqb_on (map (calculate_balance U w) (wc_minconfs c)) (wo_bal o), 31%nat);
      (forallb (fun q : (Z * Z) * list (outpoint * Z * Z) =>
                  eqb_on (sort_lu (list_unspent U w q.1.1 q.1.2)) q.2) (wo_list o), 32%nat);
      (forallb (fun q : Z * list utxo => eqb_on (sort_ut (wallet_unspent U w q.1)) q.2) (wo_unsp o), 33%nat);
      (negb cov || eqb_on (map (fun mc => spec_balance U Fo mc tip now) (wc_minconfs c)) (wo_bal o), 131%nat);
      (negb cov || forallb (fun q : (Z * Z) * list (outpoint * Z * Z) =>
                  eqb_on (sort_lu (list_unspent_of tip q.1.1 q.1.2 (spec_utxos U Fo now))) q.2) (wo_list o), 132%nat);
      (negb cov || forallb (fun q : Z * list utxo =>
                  eqb_on (sort_ut (wallet_unspent_of tip q.1 (spec_utxos U Fo now))) q.2) (wo_unsp o), 133%nat) ].

Fixpoint check_wsteps (U : universe) (c : wcase) (i : nat) (w : wstate) (smp : sstate)
         (l : list wstepc) : list (nat * nat) :=
  match l with
  | [] => []
  | s :: l' =>
    let '(w', smp', fl) := run_notifs U w smp (ws_notifs s) in
    let smo := spec_run U (take (ws_upto s) (wc_events c)) in
    let fl2 := match ws_obs s with
               | None => []
               | Some o => check_wobs U c w' smp' smo o
               end in
    map (fun code => (i, code)) (fl ++ fl2) ++ check_wsteps U c (S i) w' smp' l'
  end.

Definition check_wcase (c : wcase) : list (nat * nat) :=
  let U := universe_of (wc_universe c) in
  check_wsteps U c 0 (winit true) {| fs := empty_facts; sclock := 0 |} (wc_steps c).

Fixpoint wfailures_from (i : nat) (l : list wcase) : list (nat * nat * nat) :=
  match l with
  | [] => []
  | c :: l' => map (fun '(e, code) => (i, e, code)) (check_wcase c) ++ wfailures_from (S i) l'
  end.

Definition wfailures := wfailures_from 0.

(** how many observations were compared with the ledger (sync height covers
    the confirmed transactions) - reported in the evidence *)
Fixpoint covered_obs (U : universe) (c : wcase) (l : list wstepc) : nat :=
  match l with
  | [] => 0
  | s :: l' =>
    (match ws_obs s with
     | Some o => if tip_covers (fs (spec_run U (take (ws_upto s) (wc_events c)))) (wo_tip o) then 1 else 0
     | None => 0
     end + covered_obs U c l')%nat
  end.
