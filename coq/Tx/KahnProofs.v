(** Proofs about the model of wtxmgr/kahnsort.go (Tx/Kahn.v).

    Main result [dependency_sort_correct]: for every set of transactions with
    distinct ids whose in-set spend relation is acyclic, and for every pair of
    iteration orders that are permutations of the set, [dependency_sort]
    terminates within its fuel, returns a permutation of the set, and every
    transaction comes after every member of the set it spends from. *)
From Verif Require Import Base.Prelude Tx.Kahn.
Local Open Scope N_scope.

(* ------------------------------------------------------------------ *)
(** * Generic list facts *)

Definition countP {A} (f : A -> bool) (l : list A) : nat := length (filter f l).

Lemma countP_nil {A} (f : A -> bool) : countP f [] = 0%nat.
Proof. reflexivity. Qed.

Lemma countP_cons {A} (f : A -> bool) x l :
  countP f (x :: l) = (Nat.b2n (f x) + countP f l)%nat.
Proof. unfold countP; simpl. destruct (f x); reflexivity. Qed.

Lemma countP_app {A} (f : A -> bool) l1 l2 :
  countP f (l1 ++ l2) = (countP f l1 + countP f l2)%nat.
Proof. unfold countP. rewrite filter_app, app_length. reflexivity. Qed.

Lemma countP_ext {A} (f g : A -> bool) l :
  (forall x, In x l -> f x = g x) -> countP f l = countP g l.
Proof.
  induction l as [|x l IH]; intros H; [reflexivity|].
  rewrite !countP_cons, (H x (or_introl eq_refl)), IH; [reflexivity|].
  intros y Hy. apply H. right; exact Hy.
Qed.

Lemma countP_zero {A} (f : A -> bool) l :
  countP f l = 0%nat <-> (forall x, In x l -> f x = false).
Proof.
  induction l as [|x l IH]; [split; [intros _ y []|reflexivity]|].
  rewrite countP_cons. split.
  - intros H y [<-|Hy].
    + destruct (f x); [discriminate|reflexivity].
    + apply IH; [destruct (f x); [discriminate|exact H]|exact Hy].
  - intros H. rewrite (H x (or_introl eq_refl)). simpl. apply IH.
    intros y Hy. apply H. right; exact Hy.
Qed.

Lemma countP_pos {A} (f : A -> bool) l x :
  In x l -> f x = true -> (0 < countP f l)%nat.
Proof.
  intros Hin Hf. destruct (countP f l) eqn:E; [|lia].
  rewrite (proj1 (countP_zero f l) E x Hin) in Hf. discriminate.
Qed.

(** [countP f = countP g + countP h] when it holds pointwise. *)
Lemma countP_split {A} (f g h : A -> bool) l :
  (forall x, In x l ->
     Nat.b2n (f x) = (Nat.b2n (g x) + Nat.b2n (h x))%nat) ->
  countP f l = (countP g l + countP h l)%nat.
Proof.
  induction l as [|x l IH]; intros H; [reflexivity|].
  rewrite !countP_cons, (H x (or_introl eq_refl)), IH; [lia|].
  intros y Hy. apply H. right; exact Hy.
Qed.

Lemma memN_In x l : memN x l = true <-> In x l.
Proof.
  unfold memN. rewrite existsb_exists. split.
  - intros [y [Hy E]]. apply N.eqb_eq in E. subst. exact Hy.
  - intros H. exists x. split; [exact H|apply N.eqb_refl].
Qed.

Lemma memN_false x l : memN x l = false <-> ~ In x l.
Proof.
  rewrite <- memN_In. destruct (memN x l).
  - split; [discriminate|intros H; exfalso; apply H; reflexivity].
  - split; [intros _ H; discriminate|reflexivity].
Qed.

Lemma count_occ_snoc (l : list N) x y :
  count_occ N.eq_dec (l ++ [x]) y
  = (count_occ N.eq_dec l y + Nat.b2n (x =? y)%N)%nat.
Proof.
  rewrite count_occ_app. simpl.
  destruct (N.eq_dec x y) as [e|ne].
  - subst. rewrite N.eqb_refl. reflexivity.
  - apply N.eqb_neq in ne. rewrite ne. reflexivity.
Qed.

Lemma NoDup_snoc {A} (l : list A) x : NoDup l -> ~ In x l -> NoDup (l ++ [x]).
Proof.
  intros Hl Hx. eapply Permutation_NoDup; [apply Permutation_cons_append|].
  constructor; assumption.
Qed.

Lemma NoDup_map_inj {A B} (f : A -> B) l x y :
  NoDup (map f l) -> In x l -> In y l -> f x = f y -> x = y.
Proof.
  induction l as [|a l IH]; simpl; intros Hnd Hx Hy E; [contradiction|].
  inv Hnd. destruct Hx as [->|Hx], Hy as [->|Hy].
  - reflexivity.
  - exfalso. apply H1. rewrite E. apply in_map. exact Hy.
  - exfalso. apply H1. rewrite <- E. apply in_map. exact Hx.
  - apply IH; assumption.
Qed.

Lemma NoDup_map_NoDup {A B} (f : A -> B) l : NoDup (map f l) -> NoDup l.
Proof.
  induction l as [|a l IH]; simpl; intros H; [constructor|].
  inv H. constructor; [|apply IH; assumption].
  intros Hin. apply H2. apply in_map. exact Hin.
Qed.

(* ------------------------------------------------------------------ *)
(** * The set and the graph as maps *)

Definition ids (l : list tx) : list N := map txid l.

Lemma set_lookup_Some set h t :
  set_lookup set h = Some t -> In t set /\ txid t = h.
Proof.
  induction set as [|a r IH]; simpl; [discriminate|].
  destruct (N.eqb_spec (txid a) h) as [e|ne].
  - intros H; inv H. split; [left|]; reflexivity.
  - intros H. destruct (IH H). split; [right|]; assumption.
Qed.

Lemma set_lookup_None set h : set_lookup set h = None -> ~ In h (ids set).
Proof.
  induction set as [|a r IH]; simpl; [intros _ []|].
  destruct (N.eqb_spec (txid a) h) as [e|ne]; [discriminate|].
  intros H [e|Hin]; [contradiction|]. exact (IH H Hin).
Qed.

Lemma set_lookup_In set t :
  NoDup (ids set) -> In t set -> set_lookup set (txid t) = Some t.
Proof.
  intros Hnd Hin.
  destruct (set_lookup set (txid t)) as [t'|] eqn:E.
  - destruct (set_lookup_Some _ _ _ E) as [Hin' Hid].
    f_equal. eapply NoDup_map_inj; eassumption.
  - exfalso. apply (set_lookup_None _ _ E). apply in_map. exact Hin.
Qed.

Lemma in_set_true set h : in_set set h = true <-> In h (ids set).
Proof.
  unfold in_set. destruct (set_lookup set h) as [t|] eqn:E.
  - destruct (set_lookup_Some _ _ _ E) as [Hin <-].
    split; [intros _; apply in_map; exact Hin|reflexivity].
  - split; [discriminate|]. intros H. exfalso. exact (set_lookup_None _ _ E H).
Qed.

Lemma gget_gset g k n k' :
  gget (gset g k n) k' = if k' =? k then Some n else gget g k'.
Proof. reflexivity. Qed.

Lemma indeg_gset g k n k' :
  indeg (gset g k n) k' = if k' =? k then in_degree n else indeg g k'.
Proof. unfold indeg. rewrite gget_gset. destruct (k' =? k); reflexivity. Qed.

Lemma outs_gset g k n k' :
  outs (gset g k n) k' = if k' =? k then out_edges n else outs g k'.
Proof. unfold outs. rewrite gget_gset. destruct (k' =? k); reflexivity. Qed.

(* ------------------------------------------------------------------ *)
(** * makeGraph *)

(** The in-set edges (parent id, child id) contributed by one transaction, one
    per spending input, and by a list of transactions in visiting order. *)
Definition edges_of (set : list tx) (t : tx) : list (N * N) :=
  map (fun p => (p, txid t)) (parents set t).
Definition edges (set order : list tx) : list (N * N) := flat_map (edges_of set) order.

Definition into (c : N) (e : N * N) : bool := snd e =? c.
Definition is_edge (p c : N) (e : N * N) : bool := (fst e =? p) && (snd e =? c).

(** What makeGraph has built after recording the edge list [E]:
    in-degrees and out-edge multiplicities both count [E] (parallel edges with
    multiplicity on both sides), every node carries the transaction of its key. *)
Record mg_inv (set : list tx) (g : graph) (E : list (N * N)) : Prop := {
  mg_in : forall k, indeg g k = N.of_nat (countP (into k) E);
  mg_out : forall k c, count_occ N.eq_dec (outs g k) c = countP (is_edge k c) E;
  mg_val : forall k n, gget g k = Some n -> set_lookup set k = Some (value n);
  mg_irr : forall e, In e E -> fst e <> snd e
}.

Lemma mg_inv_empty set : mg_inv set [] [].
Proof. split; try reflexivity; [discriminate|intros e []]. Qed.

(** The duplicate-edge test of makeGraph fires only for a self-spend. *)
Lemma dup_test_false set g E prev :
  mg_inv set g E -> existsb (fun e => e =? prev) (outs g prev) = false.
Proof.
  intros I. destruct (existsb _ _) eqn:X; [exfalso|reflexivity].
  apply existsb_exists in X. destruct X as [e [Hin He]].
  apply N.eqb_eq in He. subst e.
  apply (count_occ_In N.eq_dec) in Hin. rewrite (mg_out _ _ _ I) in Hin.
  destruct (countP (is_edge prev prev) E) eqn:C; [lia|].
  assert (Hex : exists e, In e E /\ is_edge prev prev e = true).
  { clear -C. induction E as [|e E IH]; [discriminate|].
    rewrite countP_cons in C. destruct (is_edge prev prev e) eqn:T.
    - exists e. split; [left; reflexivity|exact T].
    - destruct (IH C) as [e' [H1 H2]]. exists e'. split; [right|]; assumption. }
  destruct Hex as [e [HeE He]]. unfold is_edge in He.
  apply andb_true_iff in He. destruct He as [H1 H2].
  apply N.eqb_eq in H1, H2. apply (mg_irr _ _ _ I e HeE). congruence.
Qed.

Lemma add_input_inv set t g E i :
  mg_inv set g E ->
  set_lookup set (txid t) = Some t ->
  (in_set set (fst i) = true -> fst i <> txid t) ->
  mg_inv set (add_input set t g i)
         (E ++ if in_set set (fst i) then [(fst i, txid t)] else []).
Proof.
  intros I Ht Hne. unfold add_input, in_set in *.
  destruct (set_lookup set (fst i)) as [ptx|] eqn:Hl; [|rewrite app_nil_r; exact I].
  rewrite (dup_test_false _ _ _ _ I).
  specialize (Hne eq_refl).
  set (prev := fst i) in *. set (c := txid t) in *.
  assert (Hcp : (c =? prev) = false) by (apply N.eqb_neq; congruence).
  assert (Hpc : (prev =? c) = false) by (apply N.eqb_neq; congruence).
  split.
  - intros k. rewrite !indeg_gset, countP_app, countP_cons, countP_nil.
    change (into k (prev, c)) with (c =? k). cbn [in_degree].
    rewrite Hcp. rewrite (mg_in _ _ _ I c), (mg_in _ _ _ I prev), (mg_in _ _ _ I k).
    destruct (N.eqb_spec k c) as [->|n1].
    + rewrite N.eqb_refl. cbn [Nat.b2n]. lia.
    + assert (X : (c =? k) = false) by (apply N.eqb_neq; congruence). rewrite X.
      cbn [Nat.b2n]. destruct (N.eqb_spec k prev) as [->|n2]; lia.
  - intros k c'. rewrite !outs_gset, countP_app, countP_cons, countP_nil.
    change (is_edge k c' (prev, c)) with ((prev =? k) && (c =? c')). cbn [out_edges].
    rewrite Hcp.
    destruct (N.eqb_spec k c) as [->|n1].
    + rewrite Hpc. cbn [andb Nat.b2n]. rewrite (mg_out _ _ _ I). lia.
    + destruct (N.eqb_spec k prev) as [->|n2].
      * rewrite N.eqb_refl. cbn [andb]. rewrite count_occ_snoc, (mg_out _ _ _ I).
        lia.
      * assert (X : (prev =? k) = false) by (apply N.eqb_neq; congruence). rewrite X.
        cbn [andb Nat.b2n]. rewrite (mg_out _ _ _ I). lia.
  - intros k n. rewrite !gget_gset.
    destruct (N.eqb_spec k c) as [->|n1].
    + intros H; inv H. exact Ht.
    + destruct (N.eqb_spec k prev) as [->|n2].
      * intros H; inv H. simpl.
        destruct (gget g prev) as [pn|] eqn:G; [exact (mg_val _ _ _ I _ _ G)|exact Hl].
      * apply (mg_val _ _ _ I).
  - intros e He. apply in_app_or in He. destruct He as [He|[<-|[]]].
    + exact (mg_irr _ _ _ I e He).
    + simpl. exact Hne.
Qed.

Lemma add_inputs_inv set t : forall ins g E,
  mg_inv set g E ->
  set_lookup set (txid t) = Some t ->
  (forall i, In i ins -> in_set set (fst i) = true -> fst i <> txid t) ->
  mg_inv set (fold_left (add_input set t) ins g)
         (E ++ map (fun p => (p, txid t)) (filter (in_set set) (map fst ins))).
Proof.
  induction ins as [|i ins IH]; intros g E I Ht Hne; simpl.
  - rewrite app_nil_r. exact I.
  - assert (I' := add_input_inv set t g E i I Ht (Hne i (or_introl eq_refl))).
    specialize (IH _ _ I' Ht (fun j Hj => Hne j (or_intror Hj))).
    destruct (in_set set (fst i)); simpl.
    + rewrite <- app_assoc in IH. exact IH.
    + rewrite app_nil_r in IH. exact IH.
Qed.

Lemma mg_inv_fresh set g E t :
  mg_inv set g E -> gget g (txid t) = None -> set_lookup set (txid t) = Some t ->
  mg_inv set (gset g (txid t) (mkNode t [] 0)) E.
Proof.
  intros I Hn Ht. split.
  - intros k. rewrite indeg_gset. destruct (N.eqb_spec k (txid t)) as [->|ne].
    + simpl. rewrite <- (mg_in _ _ _ I). unfold indeg. rewrite Hn. reflexivity.
    + apply (mg_in _ _ _ I).
  - intros k c. rewrite outs_gset. destruct (N.eqb_spec k (txid t)) as [->|ne].
    + simpl. rewrite <- (mg_out _ _ _ I). unfold outs. rewrite Hn. reflexivity.
    + apply (mg_out _ _ _ I).
  - intros k n. rewrite gget_gset. destruct (N.eqb_spec k (txid t)) as [->|ne].
    + intros H; inv H. exact Ht.
    + apply (mg_val _ _ _ I).
  - apply (mg_irr _ _ _ I).
Qed.

Definition no_self_spend (set : list tx) (t : tx) : Prop :=
  forall p, In p (parents set t) -> p <> txid t.

Lemma visit_inv set g E t :
  mg_inv set g E -> set_lookup set (txid t) = Some t -> no_self_spend set t ->
  mg_inv set (visit set g t) (E ++ edges_of set t).
Proof.
  intros I Ht Hns. unfold visit, edges_of, parents.
  apply add_inputs_inv; [|exact Ht|].
  - destruct (gget g (txid t)) eqn:G; [exact I|apply mg_inv_fresh; assumption].
  - intros i Hi Hs. apply Hns. unfold parents. apply filter_In. split; [|exact Hs].
    apply in_map. exact Hi.
Qed.

Lemma make_graph_inv_gen set : forall order g E,
  mg_inv set g E ->
  (forall t, In t order -> set_lookup set (txid t) = Some t /\ no_self_spend set t) ->
  mg_inv set (fold_left (visit set) order g) (E ++ edges set order).
Proof.
  induction order as [|t order IH]; intros g E I H; simpl.
  - rewrite app_nil_r. exact I.
  - destruct (H t (or_introl eq_refl)) as [Ht Hns].
    rewrite app_assoc. apply IH; [apply visit_inv; assumption|].
    intros t' Ht'. apply H. right; exact Ht'.
Qed.

(** Domain of the graph: nodes are never removed, a visited transaction has
    a node. *)
Lemma add_input_dom set t g i k :
  gget g k <> None -> gget (add_input set t g i) k <> None.
Proof.
  intros H. unfold add_input. destruct (set_lookup set (fst i)); [|exact H].
  destruct (existsb _ _); [exact H|].
  rewrite !gget_gset. destruct (k =? txid t); [discriminate|].
  destruct (k =? fst i); [discriminate|exact H].
Qed.

Lemma add_inputs_dom set t k : forall ins g,
  gget g k <> None -> gget (fold_left (add_input set t) ins g) k <> None.
Proof.
  induction ins as [|i ins IH]; intros g H; simpl; [exact H|].
  apply IH. apply add_input_dom. exact H.
Qed.

Lemma visit_dom set g t k : gget g k <> None -> gget (visit set g t) k <> None.
Proof.
  intros H. unfold visit. apply add_inputs_dom.
  destruct (gget g (txid t)); [exact H|].
  rewrite gget_gset. destruct (k =? txid t); [discriminate|exact H].
Qed.

Lemma visit_dom_self set g t : gget (visit set g t) (txid t) <> None.
Proof.
  unfold visit. apply add_inputs_dom.
  destruct (gget g (txid t)) eqn:G; [rewrite G; discriminate|].
  rewrite gget_gset, N.eqb_refl. discriminate.
Qed.

Lemma make_graph_dom_gen set k : forall order g,
  (gget g k <> None \/ In k (ids order)) ->
  gget (fold_left (visit set) order g) k <> None.
Proof.
  induction order as [|t order IH]; intros g H; simpl.
  - destruct H as [H|[]]. exact H.
  - apply IH. destruct H as [H|[<-|H]].
    + left. apply visit_dom. exact H.
    + left. apply visit_dom_self.
    + right. exact H.
Qed.

(* ------------------------------------------------------------------ *)
(** * Kahn's loop

    Everything the loop needs to know about the graph built by makeGraph is
    collected as Section hypotheses (discharged below from [mg_inv]):
    [E] is the multiset of in-set edges, [rk] a rank that strictly increases
    along every edge. *)
Section Kahn.
  Variable set : list tx.
  Variable g0 : graph.
  Variable E : list (N * N).
  Variable rk : N -> nat.
  Hypothesis Hnd : NoDup (ids set).
  Hypothesis F_in : forall k, indeg g0 k = N.of_nat (countP (into k) E).
  Hypothesis F_out : forall k c, count_occ N.eq_dec (outs g0 k) c = countP (is_edge k c) E.
  Hypothesis F_val : forall k n, gget g0 k = Some n -> set_lookup set k = Some (value n).
  Hypothesis F_dom : forall k, In k (ids set) -> gget g0 k <> None.
  Hypothesis F_src : forall e, In e E -> In (fst e) (ids set).
  Hypothesis F_rk : forall e, In e E -> (rk (fst e) < rk (snd e))%nat.

  Definition inset (t : tx) : Prop := In t set.

  Lemma node_of_key k n : gget g0 k = Some n -> In (value n) set /\ txid (value n) = k.
  Proof. intros G. apply set_lookup_Some. apply F_val. exact G. Qed.

  Lemma inset_incl l : Forall inset l -> incl (ids l) (ids set).
  Proof.
    intros H k Hk. apply in_map_iff in Hk. destruct Hk as [t [<- Ht]].
    apply in_map. rewrite Forall_forall in H. apply H. exact Ht.
  Qed.

  (** The loop only ever rewrites in-degrees. *)
  Definition strip (n : node) : tx * list N := (value n, out_edges n).
  Definition same_shape (g : graph) : Prop :=
    forall k, option_map strip (gget g k) = option_map strip (gget g0 k).

  Lemma outs_shape g k : same_shape g -> outs g k = outs g0 k.
  Proof.
    intros H. specialize (H k). unfold outs.
    destruct (gget g k), (gget g0 k); simpl in H; try discriminate; [|reflexivity].
    unfold strip in H. congruence.
  Qed.

  (** Edges into [c] whose source has not been emitted yet. *)
  Definition pending (S : list N) (c : N) (e : N * N) : bool :=
    into c e && negb (memN (fst e) S).

  (** The Kahn invariant.  [S] = ids already emitted (sorted), [Q] = ids in
      the queue, [rem] = out-edges of the node being processed that are still
      to be relaxed (that node is already in [S]).
      - in-degree = number of edges from not-yet-emitted parents (+ the
        still-to-relax edges of the current node), with multiplicity;
      - a node is emitted or queued exactly when its in-degree is 0, once. *)
  Record kinv (rem S Q : list N) (g : graph) : Prop := {
    k_shape : same_shape g;
    k_deg : forall c, indeg g c
                      = N.of_nat (countP (pending S c) E + count_occ N.eq_dec rem c);
    k_nodup : NoDup (S ++ Q);
    k_zero : forall c, gget g0 c <> None -> (In c (S ++ Q) <-> indeg g c = 0)
  }.

  Lemma relax_inv c rem S s g :
    kinv (c :: rem) S (ids s) g -> Forall inset s ->
    kinv rem S (ids (fst (relax (s, g) c))) (snd (relax (s, g) c))
    /\ Forall inset (fst (relax (s, g) c)).
  Proof.
    intros K Hs. unfold relax.
    assert (Hdeg := k_deg _ _ _ _ K c).
    rewrite count_occ_cons_eq in Hdeg by reflexivity.
    unfold indeg in Hdeg. destruct (gget g c) as [m|] eqn:G; [|lia].
    destruct (N.eqb_spec (in_degree m) 0) as [z|nz]; [lia|].
    assert (Hsh := k_shape _ _ _ _ K c). rewrite G in Hsh.
    destruct (gget g0 c) as [n0|] eqn:G0; [|discriminate].
    unfold strip in Hsh. simpl in Hsh. injection Hsh as Hv Ho.
    destruct (node_of_key c n0 G0) as [Hin Hid].
    assert (Hc0 : gget g0 c <> None) by congruence.
    assert (HnotIn : ~ In c (S ++ ids s)).
    { intros X. apply (k_zero _ _ _ _ K c Hc0) in X. unfold indeg in X.
      rewrite G in X. contradiction. }
    set (d := in_degree m - 1).
    set (g' := gset g c (mkNode (value m) (out_edges m) d)).
    assert (A : same_shape g').
    { intros k. unfold g'. rewrite gget_gset. destruct (N.eqb_spec k c) as [->|ne].
      - rewrite G0. simpl. unfold strip; simpl. rewrite Hv, Ho. reflexivity.
      - apply (k_shape _ _ _ _ K). }
    assert (B : forall c', indeg g' c'
                = N.of_nat (countP (pending S c') E + count_occ N.eq_dec rem c')).
    { intros c'. unfold g'. rewrite indeg_gset. destruct (N.eqb_spec c' c) as [->|ne].
      - simpl. unfold d. lia.
      - rewrite (k_deg _ _ _ _ K c'). rewrite count_occ_cons_neq by congruence.
        reflexivity. }
    assert (Dc : indeg g' c = d).
    { unfold g'. rewrite indeg_gset, N.eqb_refl. reflexivity. }
    assert (Do : forall c', c' <> c -> indeg g' c' = indeg g c').
    { intros c' ne. unfold g'. rewrite indeg_gset.
      destruct (N.eqb_spec c' c); [contradiction|reflexivity]. }
    destruct (N.eqb_spec d 0) as [dz|dnz]; simpl.
    - assert (Hids : ids (s ++ [value m]) = ids s ++ [c]).
      { unfold ids. rewrite map_app. simpl. rewrite Hv, Hid. reflexivity. }
      split; [split|].
      + exact A.
      + exact B.
      + rewrite Hids, app_assoc. apply NoDup_snoc; [exact (k_nodup _ _ _ _ K)|exact HnotIn].
      + intros c' Hc'. rewrite Hids, app_assoc, in_app_iff.
        destruct (N.eq_dec c' c) as [->|ne].
        * rewrite Dc. split; [intros _; exact dz|intros _; right; left; reflexivity].
        * rewrite (Do c' ne). rewrite <- (k_zero _ _ _ _ K c' Hc'). simpl.
          split; [intros [H|[H|[]]]; [exact H|congruence]|intros H; left; exact H].
      + apply Forall_app. split; [exact Hs|].
        constructor; [rewrite Hv; exact Hin|constructor].
    - split; [split|exact Hs].
      + exact A.
      + exact B.
      + exact (k_nodup _ _ _ _ K).
      + intros c' Hc'. destruct (N.eq_dec c' c) as [->|ne].
        * rewrite Dc. split; [intros X; contradiction|intros X; contradiction].
        * rewrite (Do c' ne). exact (k_zero _ _ _ _ K c' Hc').
  Qed.

  Lemma relax_fold_inv : forall rem S s g,
    kinv rem S (ids s) g -> Forall inset s ->
    kinv [] S (ids (fst (fold_left relax rem (s, g)))) (snd (fold_left relax rem (s, g)))
    /\ Forall inset (fst (fold_left relax rem (s, g))).
  Proof.
    induction rem as [|c rem IH]; intros S s g K Hs; [simpl; split; assumption|].
    cbn [fold_left].
    destruct (relax_inv c rem S s g K Hs) as [K' Hs'].
    destruct (relax (s, g) c) as [s1 g1]. simpl in K', Hs'.
    apply IH; assumption.
  Qed.

  Lemma pending_split S n c e :
    ~ In n S ->
    Nat.b2n (pending S c e)
    = (Nat.b2n (pending (S ++ [n]) c e) + Nat.b2n (is_edge n c e))%nat.
  Proof.
    intros Hn. unfold pending, is_edge, into.
    destruct (snd e =? c); [|rewrite andb_false_r; reflexivity].
    rewrite andb_true_r. simpl.
    destruct (memN (fst e) S) eqn:M1.
    - assert (M2 : memN (fst e) (S ++ [n]) = true).
      { apply memN_In. apply in_or_app. left. apply memN_In. exact M1. }
      rewrite M2. apply memN_In in M1.
      destruct (N.eqb_spec (fst e) n) as [e1|ne]; [subst; contradiction|reflexivity].
    - destruct (N.eqb_spec (fst e) n) as [e1|ne].
      + assert (M2 : memN (fst e) (S ++ [n]) = true).
        { apply memN_In. apply in_or_app. right. left. symmetry. exact e1. }
        rewrite M2. reflexivity.
      + assert (M2 : memN (fst e) (S ++ [n]) = false).
        { apply memN_false. intros X. apply in_app_or in X. destruct X as [X|[X|[]]].
          - apply memN_false in M1. contradiction.
          - congruence. }
        rewrite M2. reflexivity.
  Qed.

  (** Parents-first, on ids: the target of an edge is preceded by its source. *)
  Definition topo (S : list N) : Prop :=
    forall e, In e E -> In (snd e) S ->
              exists l1 l2, S = l1 ++ snd e :: l2 /\ In (fst e) l1.

  (** The loop terminates within its fuel and keeps the invariant. *)
  Lemma kahn_inv : forall fuel s sorted g,
    kinv [] (ids sorted) (ids s) g -> Forall inset (sorted ++ s) -> topo (ids sorted) ->
    (length set < fuel + length sorted)%nat ->
    exists out g', kahn fuel s sorted g = Some out
                   /\ kinv [] (ids out) [] g' /\ Forall inset out /\ topo (ids out).
  Proof.
    induction fuel as [|fuel IH]; intros s sorted g K Hall Ht Hfuel.
    - (* out of fuel: impossible *)
      destruct s as [|t s'].
      + simpl. exists sorted, g. rewrite app_nil_r in Hall. repeat split; try assumption.
        * exact (k_shape _ _ _ _ K). * exact (k_deg _ _ _ _ K).
        * exact (k_nodup _ _ _ _ K). * apply (k_zero _ _ _ _ K c). assumption.
        * apply (k_zero _ _ _ _ K c). assumption.
      + exfalso.
        assert (L := NoDup_incl_length (k_nodup _ _ _ _ K)
                       (fun k Hk => inset_incl _ Hall k
                          ltac:(unfold ids in *; rewrite map_app; exact Hk))).
        rewrite app_length in L. unfold ids in L. rewrite !map_length in L. simpl in L. lia.
    - destruct s as [|t s'].
      + simpl. exists sorted, g. rewrite app_nil_r in Hall. repeat split; try assumption.
        * exact (k_shape _ _ _ _ K). * exact (k_deg _ _ _ _ K).
        * exact (k_nodup _ _ _ _ K). * apply (k_zero _ _ _ _ K c). assumption.
        * apply (k_zero _ _ _ _ K c). assumption.
      + simpl kahn. set (n := txid t).
        assert (Ht_in : In t set).
        { rewrite Forall_forall in Hall. apply Hall. apply in_or_app. right. left. reflexivity. }
        assert (Hn0 : gget g0 n <> None) by (apply F_dom, in_map; exact Ht_in).
        assert (Hnd' := k_nodup _ _ _ _ K). simpl in Hnd'.
        assert (HnS : ~ In n (ids sorted)).
        { intros X. apply NoDup_remove_2 in Hnd'. apply Hnd'. apply in_or_app. left. exact X. }
        assert (Hids : ids (sorted ++ [t]) = ids sorted ++ [n]).
        { unfold ids. rewrite map_app. reflexivity. }
        (* all parents of n have been emitted *)
        assert (Hpar : forall e, In e E -> snd e = n -> In (fst e) (ids sorted)).
        { intros e He Hs.
          assert (Z : indeg g n = 0).
          { apply (k_zero _ _ _ _ K n Hn0). apply in_or_app. right. left. reflexivity. }
          rewrite (k_deg _ _ _ _ K n) in Z. simpl in Z.
          assert (Z' : countP (pending (ids sorted) n) E = 0%nat) by lia.
          assert (P := proj1 (countP_zero _ _) Z' e He). unfold pending, into in P.
          rewrite Hs, N.eqb_refl in P. simpl in P.
          apply negb_false_iff in P. apply memN_In. exact P. }
        assert (K1 : kinv (outs g n) (ids (sorted ++ [t])) (ids s') g).
        { rewrite Hids. split.
          - exact (k_shape _ _ _ _ K).
          - intros c. rewrite (k_deg _ _ _ _ K c). simpl count_occ.
            rewrite (outs_shape g n (k_shape _ _ _ _ K)), F_out.
            rewrite (countP_split (pending (ids sorted) c) (pending (ids sorted ++ [n]) c)
                                  (is_edge n c) E).
            + f_equal. lia.
            + intros e _. apply pending_split. exact HnS.
          - rewrite <- app_assoc. exact Hnd'.
          - intros c Hc. rewrite <- app_assoc. exact (k_zero _ _ _ _ K c Hc). }
        assert (Hs' : Forall inset s').
        { apply Forall_app in Hall. destruct Hall as [_ H2]. inv H2. assumption. }
        destruct (relax_fold_inv _ _ _ _ K1 Hs') as [K2 Hs2].
        destruct (fold_left relax (outs g n) (s', g)) as [s2 g2]. simpl in K2, Hs2.
        apply (IH s2 (sorted ++ [t]) g2 K2).
        * apply Forall_app in Hall. destruct Hall as [H1 _].
          apply Forall_app. split; [|exact Hs2]. apply Forall_app. split; [exact H1|].
          constructor; [exact Ht_in|constructor].
        * rewrite Hids. intros e He Hin. apply in_app_or in Hin. destruct Hin as [Hin|[Hin|[]]].
          -- destruct (Ht e He Hin) as [l1 [l2 [Eq Hl1]]].
             exists l1, (l2 ++ [n]). split; [|exact Hl1].
             rewrite Eq, <- app_assoc. reflexivity.
          -- exists (ids sorted), []. split; [rewrite <- Hin; reflexivity|].
             apply Hpar; [exact He|symmetry; exact Hin].
        * rewrite app_length. simpl. lia.
  Qed.

  (** With an empty queue every member of the set has been emitted: by
      induction on the rank, all parents of a node are emitted, hence its
      in-degree is 0, hence it is emitted. *)
  Lemma kahn_complete Sd g :
    kinv [] Sd [] g -> forall k, In k (ids set) -> In k Sd.
  Proof.
    intros K.
    assert (H : forall m k, (rk k < m)%nat -> In k (ids set) -> In k Sd).
    { induction m as [|m IH]; intros k Hlt Hk; [lia|].
      assert (Hk0 := F_dom k Hk).
      assert (Z := k_zero _ _ _ _ K k Hk0). rewrite app_nil_r in Z. apply Z.
      rewrite (k_deg _ _ _ _ K k). simpl count_occ.
      assert (C : countP (pending Sd k) E = 0%nat).
      { apply countP_zero. intros e He. unfold pending, into.
        destruct (N.eqb_spec (snd e) k) as [Hs|]; [|reflexivity]. simpl.
        apply negb_false_iff, memN_In. apply IH; [|apply F_src; exact He].
        assert (R := F_rk e He). rewrite Hs in R. lia. }
      rewrite C. reflexivity. }
    intros k Hk. apply (H (S (rk k)) k); [lia|exact Hk].
  Qed.

  Lemma roots_spec : forall pi2,
    incl pi2 (ids set) ->
    ids (graph_roots pi2 g0) = filter (fun k => indeg g0 k =? 0) pi2
    /\ Forall inset (graph_roots pi2 g0).
  Proof.
    induction pi2 as [|k pi2 IH]; intros Hincl; [split; [reflexivity|constructor]|].
    destruct (IH (fun x Hx => Hincl x (or_intror Hx))) as [IH1 IH2].
    assert (Hk := F_dom k (Hincl k (or_introl eq_refl))).
    simpl. unfold indeg at 1. destruct (gget g0 k) as [n|] eqn:G; [|congruence].
    destruct (node_of_key k n G) as [Hin Hid].
    destruct (in_degree n =? 0); simpl.
    - split; [rewrite Hid; f_equal; exact IH1|constructor; assumption].
    - split; assumption.
  Qed.

  (** DependencySort after makeGraph, for any order of graphRoots. *)
  Lemma sort_from_graph pi2 :
    Permutation pi2 (ids set) ->
    exists out,
      (if (length (graph_roots pi2 g0) =? length set)%nat
       then Some (graph_roots pi2 g0)
       else kahn (S (length set)) (graph_roots pi2 g0) [] g0) = Some out
      /\ Permutation out set /\ topo (ids out).
  Proof.
    intros Hp.
    assert (Hincl : incl pi2 (ids set)) by (intros k Hk; eapply Permutation_in; eassumption).
    assert (Hnd2 : NoDup pi2) by (eapply Permutation_NoDup; [apply Permutation_sym|]; eassumption).
    destruct (roots_spec pi2 Hincl) as [Rids Rin].
    set (roots := graph_roots pi2 g0) in *.
    assert (RND : NoDup (ids roots)) by (rewrite Rids; apply NoDup_filter; exact Hnd2).
    assert (Rincl : incl roots set) by (intros t Ht; rewrite Forall_forall in Rin; exact (Rin t Ht)).
    assert (SND : NoDup set) by (apply (NoDup_map_NoDup txid); exact Hnd).
    destruct (Nat.eqb_spec (length roots) (length set)) as [Hlen|Hlen].
    - (* shortcut: as many roots as transactions, hence no edge *)
      exists roots. split; [reflexivity|]. split.
      + apply NoDup_Permutation_bis; [apply (NoDup_map_NoDup txid); exact RND|lia|exact Rincl].
      + intros e He Hin. exfalso. rewrite Rids in Hin. apply filter_In in Hin.
        destruct Hin as [_ Z]. apply N.eqb_eq in Z. rewrite F_in in Z.
        assert (P : (0 < countP (into (snd e)) E)%nat).
        { eapply countP_pos; [exact He|]. unfold into. apply N.eqb_refl. }
        lia.
    - assert (K0 : kinv [] (ids []) (ids roots) g0).
      { split.
        - intros k. reflexivity.
        - intros c. rewrite F_in. simpl count_occ. f_equal. rewrite Nat.add_0_r.
          apply countP_ext. intros e _. unfold pending. simpl. rewrite andb_true_r. reflexivity.
        - exact RND.
        - intros c Hc. simpl. rewrite Rids, filter_In, N.eqb_eq.
          split; [intros [_ H]; exact H|intros H; split; [|exact H]].
          destruct (gget g0 c) as [n|] eqn:G; [|congruence].
          destruct (node_of_key c n G) as [Hin Hid].
          eapply Permutation_in; [apply Permutation_sym; exact Hp|].
          rewrite <- Hid. apply in_map. exact Hin. }
      assert (T0 : topo (ids [])) by (intros e _ []).
      destruct (kahn_inv (S (length set)) roots [] g0 K0 Rin T0 ltac:(simpl; lia))
        as [out [g' [Hk [K [Hin Ht]]]]].
      exists out. split; [exact Hk|]. split; [|exact Ht].
      assert (OND : NoDup (ids out)).
      { assert (X := k_nodup _ _ _ _ K). rewrite app_nil_r in X. exact X. }
      apply NoDup_Permutation; [apply (NoDup_map_NoDup txid); exact OND|exact SND|].
      intros t. split.
      + rewrite Forall_forall in Hin. apply Hin.
      + intros Ht_in.
        assert (X := kahn_complete _ _ K (txid t) (in_map txid _ _ Ht_in)).
        apply in_map_iff in X. destruct X as [t' [Hid Ht']].
        rewrite Forall_forall in Hin.
        rewrite <- (NoDup_map_inj txid set t' t Hnd (Hin t' Ht') Ht_in Hid). exact Ht'.
  Qed.
End Kahn.

(* ------------------------------------------------------------------ *)
(** * The property, on transactions *)

(** [c] spends an output of [p], both members of the set. *)
Definition spends (set : list tx) (c p : tx) : Prop :=
  In c set /\ In p set /\ In (txid p) (map fst (inputs c)).

(** The spend relation restricted to the set is acyclic: some rank strictly
    decreases from a transaction to each member it spends from.  (Equivalent
    to the absence of a cycle: [no_cycle_of_acyclic], [acyclic_of_no_cycle]
    below.  Real transaction ids always satisfy it because an id commits to
    the ids of the inputs.) *)
Definition acyclic (set : list tx) : Prop :=
  exists rank : tx -> nat, forall c p, spends set c p -> (rank p < rank c)%nat.

Definition before {A} (a b : A) (l : list A) : Prop :=
  exists l1 l2 l3, l = l1 ++ a :: l2 ++ b :: l3.

Lemma in_edges set order e :
  In e (edges set order) <->
  exists t, In t order /\ snd e = txid t /\ In (fst e) (parents set t).
Proof.
  unfold edges, edges_of. rewrite in_flat_map. split.
  - intros [t [Ht He]]. apply in_map_iff in He. destruct He as [p [<- Hp]].
    exists t. auto.
  - intros [t [Ht [Hs Hp]]]. exists t. split; [exact Ht|].
    apply in_map_iff. exists (fst e). split; [|exact Hp].
    rewrite <- Hs. destruct e; reflexivity.
Qed.

Lemma in_parents set t p :
  In p (parents set t) <-> In p (ids set) /\ In p (map fst (inputs t)).
Proof.
  unfold parents. rewrite filter_In, in_set_true. tauto.
Qed.

Theorem dependency_sort_correct : forall set pi1 pi2,
  NoDup (ids set) -> acyclic set ->
  Permutation pi1 set -> Permutation pi2 (ids set) ->
  exists out,
    dependency_sort pi1 pi2 set = Some out
    /\ Permutation out set
    /\ forall p c, spends set c p -> before p c out.
Proof.
  intros set pi1 pi2 Hnd [rank Hrank] Hp1 Hp2.
  set (g0 := make_graph pi1 set). set (E := edges set pi1).
  set (rk := fun k => match set_lookup set k with Some t => rank t | None => 0%nat end).
  assert (Hin1 : forall t, In t pi1 -> In t set)
    by (intros t Ht; eapply Permutation_in; eassumption).
  assert (Hmem : forall t, In t pi1 ->
            set_lookup set (txid t) = Some t /\ no_self_spend set t).
  { intros t Ht. split; [apply set_lookup_In; auto|].
    intros p Hp Heq. apply in_parents in Hp. destruct Hp as [_ Hp].
    assert (X : spends set t t) by (repeat split; auto; rewrite <- Heq; exact Hp).
    specialize (Hrank _ _ X). lia. }
  assert (I : mg_inv set g0 E).
  { exact (make_graph_inv_gen set pi1 [] [] (mg_inv_empty set) Hmem). }
  assert (F_dom : forall k, In k (ids set) -> gget g0 k <> None).
  { intros k Hk. apply make_graph_dom_gen. right.
    eapply Permutation_in; [|exact Hk]. apply Permutation_map, Permutation_sym, Hp1. }
  assert (F_src : forall e, In e E -> In (fst e) (ids set)).
  { intros e He. apply in_edges in He. destruct He as [t [_ [_ Hp]]].
    apply in_parents in Hp. tauto. }
  assert (F_rk : forall e, In e E -> (rk (fst e) < rk (snd e))%nat).
  { intros e He. apply in_edges in He. destruct He as [t [Ht [Hs Hp]]].
    apply in_parents in Hp. destruct Hp as [Hp1' Hp2'].
    apply in_set_true in Hp1'. unfold in_set in Hp1'.
    unfold rk. rewrite Hs, (proj1 (Hmem t Ht)).
    destruct (set_lookup set (fst e)) as [tp|] eqn:L; [|discriminate].
    destruct (set_lookup_Some _ _ _ L) as [Htp Hid].
    apply Hrank. repeat split; auto. rewrite Hid. exact Hp2'. }
  destruct (sort_from_graph set g0 E rk Hnd (mg_in _ _ _ I) (mg_out _ _ _ I)
              (mg_val _ _ _ I) F_dom F_src F_rk pi2 Hp2) as [out [Hout [Hperm Htopo]]].
  exists out. split; [exact Hout|]. split; [exact Hperm|].
  intros p c [Hc [Hp Hsp]].
  assert (Hout_in : forall t, In t out -> In t set)
    by (intros t Ht; eapply Permutation_in; eassumption).
  assert (He : In (txid p, txid c) E).
  { apply in_edges. exists c. split; [|split; [reflexivity|]].
    - eapply Permutation_in; [apply Permutation_sym; exact Hp1|exact Hc].
    - simpl fst. apply in_parents. split; [apply in_map; exact Hp|exact Hsp]. }
  assert (Hc_out : In (txid c) (ids out)).
  { apply in_map. eapply Permutation_in; [apply Permutation_sym; exact Hperm|exact Hc]. }
  destruct (Htopo _ He Hc_out) as [l1 [l2 [Eq Hl1]]]. simpl in Eq, Hl1.
  unfold ids in Eq. apply map_eq_app in Eq. destruct Eq as [o1 [o2' [Eo [E1 E2]]]].
  apply map_eq_cons in E2. destruct E2 as [c' [o2 [Eo2 [Hidc _]]]]. subst o2'.
  assert (Hc' : c' = c).
  { apply (NoDup_map_inj txid set c' c Hnd); auto. apply Hout_in. rewrite Eo.
    apply in_or_app. right. left. reflexivity. }
  subst c'. rewrite <- E1 in Hl1. apply in_map_iff in Hl1.
  destruct Hl1 as [p' [Hidp Hp']].
  assert (Hpp : p' = p).
  { apply (NoDup_map_inj txid set p' p Hnd); auto. apply Hout_in. rewrite Eo.
    apply in_or_app. left. exact Hp'. }
  subst p'. apply in_split in Hp'. destruct Hp' as [a [b Eab]].
  exists a, b, o2. rewrite Eo, Eab, <- app_assoc. reflexivity.
Qed.

(** [acyclic] is the usual notion: it rules out every cycle of the spend
    relation (in particular a self-spend). *)
Lemma no_cycle_of_acyclic set :
  acyclic set -> forall t, ~ Relation_Operators.clos_trans tx (spends set) t t.
Proof.
  intros [rank Hr] t Hc.
  assert (H : forall a b, Relation_Operators.clos_trans tx (spends set) a b ->
                          (rank b < rank a)%nat).
  { intros a b Hab. induction Hab as [a b H|a b c _ IH1 _ IH2]; [apply Hr; exact H|lia]. }
  specialize (H _ _ Hc). lia.
Qed.

(* ------------------------------------------------------------------ *)
(** * The executable test [admissible] decides the property *)

(** The property on an order of ids: each member exactly once, every member
    after all its in-set parents. *)
Definition parents_first (set : list tx) (out : list N) : Prop :=
  forall t p, In t set -> In p (parents set t) -> before p (txid t) out.

Definition c14_spec (set : list tx) (out : list N) : Prop :=
  Permutation out (ids set) /\ parents_first set out.

Lemma NoDup_split_unique {A} (x : A) : forall l1 l2 l1' l2',
  NoDup (l1 ++ x :: l2) -> l1 ++ x :: l2 = l1' ++ x :: l2' -> l1 = l1'.
Proof.
  induction l1 as [|a l1 IH]; intros l2 l1' l2' Hnd Eq.
  - destruct l1' as [|b l1']; [reflexivity|]. simpl in *. inv Eq. inv Hnd.
    exfalso. apply H1. apply in_or_app. right. left. reflexivity.
  - destruct l1' as [|b l1']; simpl in *.
    + inv Eq. inv Hnd. exfalso. apply H1. apply in_or_app. right. left. reflexivity.
    + inv Eq. inv Hnd. f_equal. eapply IH; eassumption.
Qed.

Lemma admissible_from_sound set : forall out em,
  admissible_from set em out = true ->
  incl out (ids set)
  /\ NoDup out
  /\ (forall k, In k out -> ~ In k em)
  /\ (forall l1 k l2 t p, out = l1 ++ k :: l2 -> set_lookup set k = Some t ->
        In p (parents set t) -> In p em \/ In p l1).
Proof.
  induction out as [|k rest IH]; intros em H.
  - repeat split.
    + intros x [].
    + constructor.
    + intros x [].
    + intros l1 k l2 t p Eq. destruct l1; discriminate.
  - simpl in H. destruct (set_lookup set k) as [t|] eqn:L; [|discriminate].
    apply andb_true_iff in H. destruct H as [H H3].
    apply andb_true_iff in H. destruct H as [H1 H2].
    apply negb_true_iff, memN_false in H1.
    rewrite forallb_forall in H2.
    destruct (IH _ H3) as [I1 [I2 [I3 I4]]].
    destruct (set_lookup_Some _ _ _ L) as [Ht Hid].
    repeat split.
    + intros x [<-|Hx]; [rewrite <- Hid; apply in_map; exact Ht|apply I1; exact Hx].
    + constructor; [|exact I2]. intros X. apply (I3 k X). left. reflexivity.
    + intros x [<-|Hx]; [exact H1|]. intros X. apply (I3 x Hx). right. exact X.
    + intros l1 k' l2 t' p Eq L' Hp. destruct l1 as [|a l1]; simpl in Eq; inv Eq.
      * rewrite L in L'. inv L'. left. apply memN_In. apply H2. exact Hp.
      * destruct (I4 _ _ _ _ _ eq_refl L' Hp) as [[<-|X]|X].
        -- right. left. reflexivity.
        -- left. exact X.
        -- right. right. exact X.
Qed.

Lemma admissible_from_complete set : forall out em,
  incl out (ids set) -> NoDup out -> (forall k, In k out -> ~ In k em) ->
  (forall l1 k l2 t p, out = l1 ++ k :: l2 -> set_lookup set k = Some t ->
        In p (parents set t) -> In p em \/ In p l1) ->
  admissible_from set em out = true.
Proof.
  induction out as [|k rest IH]; intros em Hincl Hnd Hem Hpar; [reflexivity|].
  simpl. destruct (set_lookup set k) as [t|] eqn:L.
  - inv Hnd. apply andb_true_iff. split; [apply andb_true_iff; split|].
    + apply negb_true_iff, memN_false. apply Hem. left. reflexivity.
    + apply forallb_forall. intros p Hp. apply memN_In.
      destruct (Hpar [] k rest t p eq_refl L Hp) as [X|[]]. exact X.
    + apply IH.
      * intros x Hx. apply Hincl. right. exact Hx.
      * assumption.
      * intros x Hx [<-|X]; [contradiction|]. apply (Hem x (or_intror Hx) X).
      * intros l1 k' l2 t' p Eq L' Hp.
        destruct (Hpar (k :: l1) k' l2 t' p ltac:(rewrite Eq; reflexivity) L' Hp) as [X|[<-|X]].
        -- left. right. exact X.
        -- left. left. reflexivity.
        -- right. exact X.
  - exfalso. apply (set_lookup_None _ _ L). apply Hincl. left. reflexivity.
Qed.

Theorem admissible_spec set out :
  NoDup (ids set) -> (admissible set out = true <-> c14_spec set out).
Proof.
  intros Hnd. unfold admissible, c14_spec. split.
  - intros H. apply andb_true_iff in H. destruct H as [Hlen H].
    apply Nat.eqb_eq in Hlen.
    destruct (admissible_from_sound _ _ _ H) as [I1 [I2 [_ I4]]].
    assert (Hperm : Permutation out (ids set)).
    { apply NoDup_Permutation_bis; [exact I2| |exact I1].
      unfold ids. rewrite map_length. lia. }
    split; [exact Hperm|].
    intros t p Ht Hp.
    assert (X : In (txid t) out).
    { eapply Permutation_in; [apply Permutation_sym; exact Hperm|]. apply in_map. exact Ht. }
    apply in_split in X. destruct X as [l1 [l2 Eq]].
    destruct (I4 _ _ _ _ _ Eq (set_lookup_In _ _ Hnd Ht) Hp) as [[]|X].
    apply in_split in X. destruct X as [a [b Eab]].
    exists a, b, l2. rewrite Eq, Eab, <- app_assoc. reflexivity.
  - intros [Hperm Hpf].
    assert (OND : NoDup out).
    { eapply Permutation_NoDup; [apply Permutation_sym; exact Hperm|exact Hnd]. }
    apply andb_true_iff. split.
    + apply Nat.eqb_eq. rewrite (Permutation_length Hperm). unfold ids. apply map_length.
    + apply admissible_from_complete.
      * intros x Hx. eapply Permutation_in; eassumption.
      * exact OND.
      * intros k _ [].
      * intros l1 k l2 t p Eq L Hp. right.
        destruct (set_lookup_Some _ _ _ L) as [Ht Hid].
        destruct (Hpf t p Ht Hp) as [a [b [c Eq']]]. rewrite Hid in Eq'.
        assert (Y : l1 = a ++ p :: b).
        { apply (NoDup_split_unique k l1 l2 (a ++ p :: b) c).
          - rewrite <- Eq. exact OND.
          - rewrite <- Eq, Eq', <- app_assoc. reflexivity. }
        rewrite Y. apply in_or_app. right. left. reflexivity.
Qed.

(** Every output of the model passes the test used by the correspondence
    check (so "the implementation's output is admissible" is "the
    implementation's output is one that the model's specification allows"). *)
Theorem model_output_admissible : forall set pi1 pi2 out,
  NoDup (ids set) -> acyclic set ->
  Permutation pi1 set -> Permutation pi2 (ids set) ->
  dependency_sort pi1 pi2 set = Some out ->
  admissible set (ids out) = true.
Proof.
  intros set pi1 pi2 out Hnd Hac Hp1 Hp2 Hout.
  destruct (dependency_sort_correct set pi1 pi2 Hnd Hac Hp1 Hp2) as [out' [Ho [Hperm Hb]]].
  rewrite Hout in Ho. inv Ho.
  apply admissible_spec; [exact Hnd|]. split.
  - apply Permutation_map. exact Hperm.
  - intros t p Ht Hp. apply in_parents in Hp. destruct Hp as [Hp1' Hp2'].
    apply in_map_iff in Hp1'. destruct Hp1' as [tp [Hid Htp]].
    destruct (Hb tp t) as [a [b [c Eq]]].
    { repeat split; auto. rewrite Hid. exact Hp2'. }
    exists (ids a), (ids b), (ids c). rewrite Eq. unfold ids.
    rewrite map_app. simpl. rewrite map_app. simpl. rewrite Hid. reflexivity.
Qed.

(* ------------------------------------------------------------------ *)
(** * [acyclic] is "no cycle"

    On a finite set with distinct ids a rank exists as soon as the spend
    relation has no cycle: rank = length of the longest spend path below a
    transaction, computed with fuel [length set] (enough, since a longer path
    would repeat a member, i.e. contain a cycle). *)
Definition no_cycle (set : list tx) : Prop :=
  forall t, ~ Relation_Operators.clos_trans tx (spends set) t t.

Definition parent_txs (set : list tx) (t : tx) : list tx :=
  flat_map (fun h => match set_lookup set h with Some p => [p] | None => [] end)
           (map fst (inputs t)).

Lemma in_parent_txs set t p :
  NoDup (ids set) ->
  (In p (parent_txs set t) <-> In p set /\ In (txid p) (map fst (inputs t))).
Proof.
  intros Hnd. unfold parent_txs. rewrite in_flat_map. split.
  - intros [h [Hh Hp]]. destruct (set_lookup set h) as [q|] eqn:L; [|destruct Hp].
    destruct Hp as [<-|[]]. destruct (set_lookup_Some _ _ _ L) as [Hq <-]. auto.
  - intros [Hp Hi]. exists (txid p). split; [exact Hi|].
    rewrite (set_lookup_In _ _ Hnd Hp). left. reflexivity.
Qed.

Definition maxmap {A} (g : A -> nat) (l : list A) : nat :=
  fold_right (fun p acc => Nat.max (g p) acc) O l.

Lemma maxmap_ge {A} (g : A -> nat) l p : In p l -> (g p <= maxmap g l)%nat.
Proof.
  induction l as [|a l IH]; simpl; [intros []|]. intros [->|H]; [lia|].
  specialize (IH H). lia.
Qed.

Lemma maxmap_attained {A} (g : A -> nat) l :
  maxmap g l = O \/ exists p, In p l /\ maxmap g l = g p.
Proof.
  induction l as [|a l IH]; simpl; [left; reflexivity|].
  destruct (Nat.max_spec (g a) (maxmap g l)) as [[_ E]|[_ E]]; rewrite E.
  - destruct IH as [Z|[p [Hp Ep]]]; [left; exact Z|].
    right. exists p. split; [right; exact Hp|exact Ep].
  - right. exists a. split; [left|]; reflexivity.
Qed.

Lemma maxmap_le {A} (g h : A -> nat) l :
  (forall p, In p l -> (g p <= h p)%nat) -> (maxmap g l <= maxmap h l)%nat.
Proof.
  induction l as [|a l IH]; simpl; intros H; [lia|].
  assert (X := H a (or_introl eq_refl)).
  assert (Y := IH (fun p Hp => H p (or_intror Hp))). lia.
Qed.

Lemma maxmap_differs {A} (g h : A -> nat) l :
  maxmap g l <> maxmap h l -> exists p, In p l /\ g p <> h p.
Proof.
  induction l as [|a l IH]; simpl; intros Hne; [exfalso; apply Hne; reflexivity|].
  destruct (Nat.eq_dec (g a) (h a)) as [Ea|Na].
  - destruct IH as [p [Hp Np]]; [intros X; apply Hne; rewrite Ea, X; reflexivity|].
    exists p. split; [right; exact Hp|exact Np].
  - exists a. split; [left; reflexivity|exact Na].
Qed.

Fixpoint depth (set : list tx) (fuel : nat) (t : tx) : nat :=
  match fuel with
  | O => O
  | S f => maxmap (fun p => S (depth set f p)) (parent_txs set t)
  end.

Lemma depth_le_fuel set : forall f t, (depth set f t <= f)%nat.
Proof.
  induction f as [|f IH]; intros t; simpl; [lia|].
  destruct (maxmap_attained (fun p => S (depth set f p)) (parent_txs set t))
    as [Z|[p [_ E]]]; [lia|]. rewrite E. specialize (IH p). lia.
Qed.

Lemma depth_mono set : forall f t, (depth set f t <= depth set (S f) t)%nat.
Proof.
  induction f as [|f IH]; intros t; [simpl; lia|].
  change (depth set (S f) t) with (maxmap (fun p => S (depth set f p)) (parent_txs set t)).
  change (depth set (S (S f)) t)
    with (maxmap (fun p => S (depth set (S f) p)) (parent_txs set t)).
  apply maxmap_le. intros p _. specialize (IH p). lia.
Qed.

(** The depth grows with the fuel only while the fuel is the limit. *)
Lemma depth_grows set : forall f t,
  depth set (S f) t <> depth set f t -> depth set (S f) t = S f.
Proof.
  induction f as [|f IH]; intros t Hne.
  - simpl in *. destruct (maxmap_attained (fun _ : tx => 1%nat) (parent_txs set t))
      as [Z|[p [_ E]]]; [contradiction|exact E].
  - change (depth set (S f) t)
      with (maxmap (fun p => S (depth set f p)) (parent_txs set t)) in Hne.
    change (depth set (S (S f)) t)
      with (maxmap (fun p => S (depth set (S f) p)) (parent_txs set t)) in *.
    assert (Hex : exists p, In p (parent_txs set t) /\ depth set (S f) p <> depth set f p).
    { destruct (maxmap_differs _ _ _ Hne) as [p [Hp Np]]. exists p. split; [exact Hp|lia]. }
    destruct Hex as [p [Hp Np]]. specialize (IH p Np).
    assert (G := maxmap_ge (fun p => S (depth set (S f) p)) _ p Hp). cbv beta in G.
    assert (L := depth_le_fuel set (S (S f)) t).
    change (depth set (S (S f)) t)
      with (maxmap (fun p => S (depth set (S f) p)) (parent_txs set t)) in L.
    lia.
Qed.

(** A spend path: each element spends from the next one. *)
Fixpoint chain (set : list tx) (l : list tx) : Prop :=
  match l with
  | c :: r => match r with
              | p :: _ => spends set c p /\ chain set r
              | [] => True
              end
  | [] => True
  end.

Lemma chain_reach set : forall l a b,
  chain set (a :: l) -> In b l -> Relation_Operators.clos_trans tx (spends set) a b.
Proof.
  induction l as [|p r IH]; intros a b Hc Hb; [destruct Hb|].
  destruct Hc as [Hs Hc]. destruct Hb as [<-|Hb].
  - apply Relation_Operators.t_step. exact Hs.
  - eapply Relation_Operators.t_trans; [apply Relation_Operators.t_step; exact Hs|].
    apply IH; assumption.
Qed.

Lemma chain_app_inv set : forall l1 l2, chain set (l1 ++ l2) -> chain set l2.
Proof.
  induction l1 as [|a l1 IH]; intros l2 H; [exact H|].
  apply IH. simpl in H. destruct (l1 ++ l2); [exact I|]. destruct H as [_ H]. exact H.
Qed.

Lemma chain_in_set set : forall l a, In a set -> chain set (a :: l) -> Forall (fun x => In x set) (a :: l).
Proof.
  induction l as [|p r IH]; intros a Ha Hc; [constructor; [exact Ha|constructor]|].
  destruct Hc as [Hs Hc]. constructor; [exact Ha|].
  apply IH; [|exact Hc]. destruct Hs as [_ [Hp _]]. exact Hp.
Qed.

Lemma depth_chain set : NoDup (ids set) -> forall f t,
  In t set -> exists l, length l = depth set f t /\ chain set (t :: l).
Proof.
  intros Hnd. induction f as [|f IH]; intros t Ht.
  - exists []. split; [reflexivity|exact I].
  - simpl depth.
    destruct (maxmap_attained (fun p => S (depth set f p)) (parent_txs set t))
      as [Z|[p [Hp E]]].
    + exists []. split; [symmetry; exact Z|exact I].
    + apply (in_parent_txs _ _ _ Hnd) in Hp. destruct Hp as [Hp Hi].
      destruct (IH p Hp) as [l [Hl Hc]].
      exists (p :: l). split; [simpl; rewrite Hl, E; reflexivity|].
      split; [|exact Hc]. repeat split; assumption.
Qed.

Lemma dup_or_nodup : forall l : list N,
  NoDup l \/ exists a l1 l2 l3, l = l1 ++ a :: l2 ++ a :: l3.
Proof.
  induction l as [|x l IH]; [left; constructor|].
  destruct IH as [Hnd|[a [l1 [l2 [l3 E]]]]].
  - destruct (in_dec N.eq_dec x l) as [Hin|Hn].
    + right. apply in_split in Hin. destruct Hin as [l2 [l3 E]].
      exists x, [], l2, l3. rewrite E. reflexivity.
    + left. constructor; assumption.
  - right. exists a, (x :: l1), l2, l3. rewrite E. reflexivity.
Qed.

Lemma chain_nodup set l :
  NoDup (ids set) -> no_cycle set -> Forall (fun x => In x set) l -> chain set l ->
  NoDup (ids l).
Proof.
  intros Hnd Hnc Hin Hc.
  destruct (dup_or_nodup (ids l)) as [H|[x [m1 [m2 [m3 E]]]]]; [exact H|exfalso].
  unfold ids in E. apply map_eq_app in E. destruct E as [l1 [r1 [-> [_ E]]]].
  apply map_eq_cons in E. destruct E as [a [r2 [-> [Ha E]]]].
  apply map_eq_app in E. destruct E as [l2 [r3 [-> [_ E]]]].
  apply map_eq_cons in E. destruct E as [a' [l3 [-> [Ha' _]]]].
  rewrite Forall_forall in Hin.
  assert (Eq : a = a').
  { apply (NoDup_map_inj txid set a a' Hnd); [| |congruence].
    - apply Hin. apply in_or_app. right. left. reflexivity.
    - apply Hin. apply in_or_app. right. right. apply in_or_app. right. left. reflexivity. }
  subst a'. apply chain_app_inv in Hc.
  apply (Hnc a). apply (chain_reach set _ a a Hc).
  apply in_or_app. right. left. reflexivity.
Qed.

Theorem acyclic_of_no_cycle set : NoDup (ids set) -> no_cycle set -> acyclic set.
Proof.
  intros Hnd Hnc. exists (depth set (length set)).
  intros c p [Hc [Hp Hi]].
  assert (Bound : forall f t, In t set -> (depth set f t < length set)%nat).
  { intros f t Ht. destruct (depth_chain set Hnd f t Ht) as [l [Hl Hch]].
    assert (Hall := chain_in_set set l t Ht Hch).
    assert (ND := chain_nodup set (t :: l) Hnd Hnc Hall Hch).
    assert (Len : (length (ids (t :: l)) <= length (ids set))%nat).
    { apply NoDup_incl_length; [exact ND|]. intros x Hx. apply in_map_iff in Hx.
      destruct Hx as [y [<- Hy]]. apply in_map. rewrite Forall_forall in Hall. apply Hall. exact Hy. }
    unfold ids in Len. rewrite !map_length in Len. simpl in Len. lia. }
  assert (Step : (S (depth set (length set) p) <= depth set (S (length set)) c)%nat).
  { change (depth set (S (length set)) c)
      with (maxmap (fun q => S (depth set (length set) q)) (parent_txs set c)).
    apply (maxmap_ge (fun q => S (depth set (length set) q))).
    apply (in_parent_txs _ _ _ Hnd). split; assumption. }
  destruct (Nat.eq_dec (depth set (S (length set)) c) (depth set (length set) c)) as [E|NE].
  - lia.
  - apply depth_grows in NE. specialize (Bound (S (length set)) c Hc). lia.
Qed.

(** The main theorem with the hypothesis "no cycle". *)
Corollary dependency_sort_correct_no_cycle : forall set pi1 pi2,
  NoDup (ids set) -> no_cycle set ->
  Permutation pi1 set -> Permutation pi2 (ids set) ->
  exists out,
    dependency_sort pi1 pi2 set = Some out
    /\ Permutation out set
    /\ forall p c, spends set c p -> before p c out.
Proof.
  intros set pi1 pi2 Hnd Hnc. apply dependency_sort_correct; [exact Hnd|].
  apply acyclic_of_no_cycle; assumption.
Qed.
