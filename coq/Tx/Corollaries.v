(** Property-level corollaries of the refinement (C01, C02, C12, C13). *)
From stdpp Require Import gmap list numbers sorting.
From Coq Require Import ZArith NArith.
From Verif Require Import Tx.Store Tx.Ledger Tx.Hist Tx.Inv Tx.Refine Tx.InvObs Tx.InvLease Tx.RefineAll.
Local Open Scope Z_scope.

Lemma c01_holds (U : universe) (h p : list event) :
  wf_universe U = true → chain_consistent U h = true → p `prefix_of` h →
  let s := st (run U p) in let F := fs (spec_run U p) in let now := clock (run U p) in
  (∀ minconf sync, 0 <= minconf → (∀ t hh b, f_conf F !! t = Some (hh, b) → hh <= sync) →
     balance U s minconf sync now = spec_balance U F minconf sync now) ∧
  unspent_outputs U s now ≡ₚ spec_utxos U F now.
Proof.
  intros Hwf Hcons Hpre. destruct (refinement_prefix U h p Hwf Hcons Hpre) as [HI Hclk].
  split.
  - intros minconf sync Hmc Hsync. by apply balance_correct.
  - by apply utxos_correct.
Qed.

Definition same_facts (F1 F2 : facts) : Prop :=
  f_conf F1 = f_conf F2 ∧ f_unconf F1 = f_unconf F2 ∧ f_leases F1 = f_leases F2.

Lemma same_facts_eq F1 F2 : same_facts F1 F2 → F1 = F2.
Proof. intros (Hc & Hu & Hl). destruct F1, F2; simpl in *; by subst. Qed.

Lemma c02_holds (U : universe) (h1 h2 : list event) :
  wf_universe U = true → chain_consistent U h1 = true → chain_consistent U h2 = true →
  same_facts (fs (spec_run U h1)) (fs (spec_run U h2)) →
  let s1 := st (run U h1) in let s2 := st (run U h2) in
  (∀ minconf sync now, 0 <= minconf →
     (∀ t hh b, f_conf (fs (spec_run U h1)) !! t = Some (hh, b) → hh <= sync) →
     balance U s1 minconf sync now = balance U s2 minconf sync now) ∧
  (∀ now, unspent_outputs U s1 now ≡ₚ unspent_outputs U s2 now) ∧
  (∀ t, tx_details U s1 t = tx_details U s2 t).
Proof.
  intros Hwf Hc1 Hc2 Hsame.
  destruct (refinement U h1 Hwf Hc1) as [HI1 _]. destruct (refinement U h2 Hwf Hc2) as [HI2 _].
  pose proof (same_facts_eq _ _ Hsame) as HF.
  repeat split.
  - intros minconf sync now Hmc Hsync.
    rewrite (balance_correct U _ _ minconf sync now Hwf HI1 Hmc Hsync).
    rewrite HF in Hsync.
    rewrite (balance_correct U _ _ minconf sync now Hwf HI2 Hmc Hsync).
    by rewrite HF.
  - intros now. rewrite (utxos_correct U _ _ now Hwf HI1), (utxos_correct U _ _ now Hwf HI2). by rewrite HF.
  - intros t. destruct (details_correct U _ _ t Hwf HI1) as (-> & _).
    destruct (details_correct U _ _ t Hwf HI2) as (-> & _). by rewrite HF.
Qed.

Lemma c13_holds (U : universe) (h p : list event) (t : txid) :
  wf_universe U = true → chain_consistent U h = true → p `prefix_of` h →
  let s := st (run U p) in let F := fs (spec_run U p) in
  tx_details U s t = spec_details U F t ∧
  unique_tx_details U s t (f_conf F !! t) = spec_details U F t ∧
  unmined_hashes s ≡ₚ elements (f_unconf F).
Proof.
  intros Hwf Hcons Hpre. destruct (refinement_prefix U h p Hwf Hcons Hpre) as [HI _].
  by apply details_correct.
Qed.

Lemma c12_history_holds (U : universe) (h p : list event) :
  wf_universe U = true → chain_consistent U h = true → p `prefix_of` h →
  let s := st (run U p) in let F := fs (spec_run U p) in let now := clock (run U p) in
  locked s = f_leases F ∧
  (∀ op, is_known_output s op = known_output U F op) ∧
  (∀ minconf sync, 0 <= minconf → (∀ t hh b, f_conf F !! t = Some (hh, b) → hh <= sync) →
     balance U s minconf sync now = spec_balance U F minconf sync now) ∧
  unspent_outputs U s now ≡ₚ spec_utxos U F now.
Proof.
  intros Hwf Hcons Hpre. destruct (refinement_prefix U h p Hwf Hcons Hpre) as [HI Hclk].
  repeat split.
  - apply HI.
  - intros op. by apply is_known_output_spec.
  - intros minconf sync Hmc Hsync. by apply balance_correct.
  - by apply utxos_correct.
Qed.

(** ** The ledger steps in the words of property C02 *)
From Verif Require Import Tx.InvRemove Tx.InvRollback.

(** Disconnecting from height [h]: exactly the confirmations below [h]
    survive; the unconfirmed set afterwards consists of the previously
    unconfirmed transactions and the non-coinbase transactions of the detached
    blocks, minus everything that (transitively) depends on a coinbase
    transaction of a detached block; leases are untouched. *)
Lemma spec_disconnect_char U F h :
  (∀ t hh bh, f_conf (spec_disconnect U F h) !! t = Some (hh, bh) ↔ f_conf F !! t = Some (hh, bh) ∧ hh < h) ∧
  (∀ t, t ∈ f_unconf (spec_disconnect U F h) ↔
        (t ∈ f_unconf F ∨ ∃ hh bh, f_conf F !! t = Some (hh, bh) ∧ h <= hh ∧ is_coinbase U t = false) ∧
        ¬ depends_on U (disc_F1 U F h) (disc_cb U F h) t) ∧
  f_leases (spec_disconnect U F h) = f_leases F.
Proof.
  rewrite spec_disconnect_unfold. cbn zeta. split; [|split].
  - intros t hh bh. cbn [f_conf]. rewrite disc_conf_lookup. split; intros [? ?]; split; try done; lia.
  - intros t. cbn [f_unconf]. rewrite elem_of_filter.
    rewrite (descendants_ok U (disc_F1 U F h) (disc_cb U F h) t).
    assert (Hm : t ∈ f_unconf (disc_F1 U F h) ↔
                 (t ∈ f_unconf F ∨ ∃ hh bh, f_conf F !! t = Some (hh, bh) ∧ h <= hh ∧ is_coinbase U t = false)).
    { unfold disc_F1, disc_gone. cbn [f_unconf]. rewrite elem_of_union, elem_of_list_to_set, elem_of_list_filter.
      rewrite elem_of_list_fmap. split.
      - intros [?|[Hcb ([t' [hh bh]] & -> & Hin)]]; [by left|right].
        apply elem_of_list_filter in Hin as [Hge Hin]. apply elem_of_map_to_list in Hin. simpl in *.
        exists hh, bh. split; [done|]. split; [done|]. by destruct (is_coinbase U t').
      - intros [?|(hh & bh & Hc & Hge & Hcb)]; [by left|right]. split; [by rewrite Hcb|].
        exists (t, (hh, bh)). split; [done|]. apply elem_of_list_filter. split; [done|]. by apply elem_of_map_to_list. }
    rewrite Hm. tauto.
  - done.
Qed.

(** Confirming a not yet confirmed transaction [t] in block [b]: [t] becomes
    confirmed there and nothing else changes among the confirmed; the
    unconfirmed set loses [t], every unconfirmed transaction conflicting with
    [t] and all unconfirmed descendants of those - and nothing else; the leases
    of the outputs [t] spends are removed, the others stay. *)
Lemma spec_confirm_char U F t b :
  f_conf F !! t = None →
  let F1 := {| f_conf := <[t := b]> (f_conf F); f_unconf := f_unconf F ∖ {[t]};
               f_leases := foldl (fun m op => delete op m) (f_leases F) (tx_ins U t) |} in
  let cf := filter (fun u => conflicts U t u) (elements (f_unconf F1)) in
  f_conf (spec_confirm U F t b) = <[t := b]> (f_conf F) ∧
  (∀ u, u ∈ f_unconf (spec_confirm U F t b) ↔ u ∈ f_unconf F ∧ u ≠ t ∧ ¬ depends_on U F1 cf u) ∧
  (∀ op, f_leases (spec_confirm U F t b) !! op =
         if bool_decide (op ∈ tx_ins U t) then None else f_leases F !! op).
Proof.
  intros Hnone F1 cf. unfold spec_confirm. rewrite Hnone. fold F1. fold cf.
  split; [|split].
  - by rewrite rm_conf.
  - intros u. rewrite rm_unconf_elem. subst F1. cbn [f_unconf]. set_solver.
  - intros op. rewrite rm_leases. subst F1. cbn [f_leases].
    generalize (f_leases F). induction (tx_ins U t) as [|o l IH]; intros m.
    + cbn [foldl]. case_bool_decide as H0; [set_solver | done].
    + cbn [foldl]. rewrite IH. case_bool_decide as H1; case_bool_decide as H2; try done.
      * set_solver.
      * apply elem_of_cons in H2 as [->|?]; [by rewrite lookup_delete | done].
      * rewrite lookup_delete_ne; [done|]. set_solver.
Qed.
