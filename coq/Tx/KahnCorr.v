(** Executable comparison used by the correspondence check of C14.

    A case is the set of transactions handed to the implementation (real
    hashes interned to small ids) and the orders the implementation returned
    for it (wtxmgr.DependencySort run several times on maps built in different
    insertion orders, and Store.UnminedTxs on a real store), as id lists.

    Go does not expose the iteration order of its maps, so the iteration orders
    of a particular run cannot be handed to the model.  What is compared is
    therefore the property-relevant behaviour only:

      [case_ok]  every observed order is [admissible] (Tx/Kahn.v), i.e. it is a
                 run of Kahn's algorithm with *some* choice among the ready
                 nodes = it satisfies the property (KahnProofs.admissible_spec),
                 and the model itself, run on the same set with two different
                 pairs of iteration orders, terminates within its fuel with an
                 admissible output (KahnProofs.model_output_admissible says it
                 always does on acyclic sets: this re-checks it on the very
                 sets the implementation saw, including their acyclicity).

    A rewrite of the implementation that still returns a parents-first
    permutation (e.g. a LIFO work list) is not reported.

      [case_exact]  diagnostic only, never a failure: every observed order is
                 moreover one that the model produces for some pair of
                 iteration orders ([fifo_exact]: the roots first in any order,
                 then, for each emitted node in turn, the children whose last
                 parent it is, in any order).  The driver records the number of
                 cases where this does not hold as "model drift". *)
From Verif Require Import Base.Prelude Tx.Kahn.
Local Open Scope N_scope.

Definition case : Type := list tx * list (list N).

Fixpoint nodupN (l : list N) : bool :=
  match l with
  | [] => true
  | x :: r => negb (memN x r) && nodupN r
  end.

Definition idsN (l : list tx) : list N := map txid l.

(** ** Exact reproduction by the FIFO model (diagnostic) *)

Fixpoint index_of (k : N) (l : list N) : nat :=
  match l with
  | [] => O
  | x :: r => if x =? k then O else S (index_of k r)
  end.

(** The in-set parent of [t] that comes last in [out]. *)
Definition last_parent (set : list tx) (out : list N) (t : tx) : option N :=
  fold_left (fun acc p =>
               match acc with
               | None => Some p
               | Some q => if (index_of q out <? index_of p out)%nat then Some p else Some q
               end) (parents set t) None.

(** Children released while [k] is processed. *)
Definition group (set : list tx) (out : list N) (k : N) : list N :=
  idsN (filter (fun c => match last_parent set out c with
                         | Some q => q =? k
                         | None => false
                         end) set).

Fixpoint fifo_walk (set : list tx) (out pops rest : list N) : bool :=
  match pops with
  | [] => match rest with [] => true | _ => false end
  | k :: pops' =>
      let g := group set out k in
      let n := length g in
      let seg := firstn n rest in
      (length seg =? n)%nat && forallb (fun c => memN c g) seg
      && fifo_walk set out pops' (skipn n rest)
  end.

Definition is_root (set : list tx) (t : tx) : bool :=
  match parents set t with [] => true | _ => false end.

(** Assumes [out] is admissible (a duplicate-free enumeration of the set). *)
Definition fifo_exact (set : list tx) (out : list N) : bool :=
  let roots := idsN (filter (is_root set) set) in
  let nr := length roots in
  if (nr =? length set)%nat then true
  else forallb (fun k => memN k roots) (firstn nr out)
       && fifo_walk set out out (skipn nr out).

(** ** The comparison *)

Definition model_ok (set pi1 : list tx) (pi2 : list N) : bool :=
  match dependency_sort pi1 pi2 set with
  | Some out => admissible set (idsN out) && fifo_exact set (idsN out)
  | None => false
  end.

Definition case_ok (c : case) : bool :=
  let '(set, obs) := c in
  nodupN (idsN set)
  && forallb (admissible set) obs
  && model_ok set set (idsN set)
  && model_ok set (rev set) (rev (idsN set)).

Definition case_exact (c : case) : bool :=
  let '(set, obs) := c in
  forallb (fun o => negb (admissible set o) || fifo_exact set o) obs.

Fixpoint failing_from {A} (f : A -> bool) (i : nat) (l : list A) : list nat :=
  match l with
  | [] => []
  | c :: l' => if f c then failing_from f (S i) l' else i :: failing_from f (S i) l'
  end.

Definition mismatches : list case -> list nat := failing_from case_ok 0.
Definition inexact : list case -> list nat := failing_from case_exact 0.
