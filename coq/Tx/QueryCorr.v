(** Executable comparison for the query surface of C13 ([Tx.Query]): what
    the implementation answered to block-qualified lookups, range iterations
    with full details and early exit, PreviousPkScripts and
    Wallet.GetTransactions after every event, against the model and against
    the ledger specification.  Extends [StoreCorr.check_case] (whose codes it
    keeps) with the codes

      60 model: UniqueTxDetails(block)      260 ... differs from the ledger
      61 model: RangeTransactions (details) 261
      62 model: PreviousPkScripts           262
      63 model: GetTransactions             2600 + 10 * backend + shape
      64 observation malformed (table index out of range)

    For GetTransactions the ledger-level code names the chain backend the
    call went through (0 neutrino, 1 bitcoind, 2 btcd) and the shape of the
    identifiers (+1 start given by hash, +2 end given by hash), so that the
    oracle's site says which branch of the function's type switch failed.

    The order of the transactions inside one group is not compared (both
    sides are sorted by txid); the order of the groups is. *)
From stdpp Require Import gmap list numbers sorting.
From Coq Require Import ZArith NArith.
From Verif Require Import Tx.Store Tx.Ledger Tx.Hist Tx.StoreCorr Tx.Query.
Local Open Scope Z_scope.

(** compact wire format (all numbers Z) *)
Notation qdet := (Z * option (Z * Z) * list (Z * Z * bool * bool) * list (Z * Z))%type (only parsing).
Notation qsum := (Z * list (Z * Z) * list Z * Z)%type (only parsing).

Record qobs := {
  qo_tab : list qdet;                                  (* txid, block, credits, debits *)
  qo_uniq : list (Z * Z * Z * Z);                      (* txid, height, block id, -1 | table index *)
  qo_range : list (Z * Z * Z * bool * list (list Z));  (* begin, end, stop after k (0 never), error, groups of table indices *)
  qo_prev : list (Z * Z * Z * bool * list (Z * Z));    (* txid, height (-1: nil block), block id, error, outpoints *)
  qo_gt : list (Z * (Z * Z) * (Z * Z) * bool * bool * list (Z * Z * list qsum) * list qsum);
      (* backend, start ident, end ident (kind 0 nil / 1 height v / 2 hash answered v / 3 hash, backend error),
         cancel, error, mined blocks (height, block id, summaries), unmined summaries *)
}.

Definition dec_blk (b : option (Z * Z)) : option blockid :=
  match b with Some (h, x) => Some (h, Z.to_N x) | None => None end.

Definition dec_det (q : qdet) : txid * details :=
  let '(t, blk, cs, ds) := q in
  (Z.to_N t,
   {| d_block := dec_blk blk;
      d_credits := map (fun '(i, a, sp, ch) => {| cr_index := Z.to_N i; cr_amt := a; cr_spent := sp; cr_change := ch |}) cs;
      d_debits := map (fun '(i, a) => (Z.to_N i, a)) ds |}).

Definition dec_sum (q : qsum) : summary :=
  let '(t, ins, outs, fee) := q in
  {| sm_tx := Z.to_N t; sm_inputs := map (fun '(i, a) => (Z.to_N i, a)) ins;
     sm_outputs := map Z.to_N outs; sm_fee := fee |}.

Definition dec_ident (i : Z * Z) : option bident :=
  let '(k, v) := i in
  if bool_decide (k = 1) then Some (IdHeight v)
  else if bool_decide (k = 2) then Some (IdHash (Some v))
  else if bool_decide (k = 3) then Some (IdHash None)
  else None.

Global Instance summary_eq_dec : EqDecision summary. Proof. solve_decision. Defined.
Global Instance gt_result_eq_dec : EqDecision gt_result. Proof. solve_decision. Defined.

Definition td_le (a b : txid * details) : Prop := (a.1 <= b.1)%N.
Global Instance td_le_dec a b : Decision (td_le a b). Proof. unfold td_le. apply _. Defined.
Definition sm_le (a b : summary) : Prop := (sm_tx a <= sm_tx b)%N.
Global Instance sm_le_dec a b : Decision (sm_le a b). Proof. unfold sm_le. apply _. Defined.

Definition sort_groups (gs : list (list (txid * details))) : list (list (txid * details)) :=
  map (merge_sort td_le) gs.

Definition norm_gt (r : gt_result) : gt_result :=
  {| gt_mined := map (fun x : blockid * list summary => (x.1, merge_sort sm_le x.2)) (gt_mined r);
     gt_unmined := merge_sort sm_le (gt_unmined r) |}.

Definition lookup_tab (tab : list (txid * details)) (i : Z) : option (txid * details) :=
  if bool_decide (i < 0) then None else tab !! Z.to_nat i.

Definition resolve_group (tab : list (txid * details)) (g : list Z) : option (list (txid * details)) :=
  sequence_opt (map (lookup_tab tab) g).

Section qcheck.
  Context (U : universe) (m : mstate) (sm : sstate) (q : qobs).
  Let tab := map dec_det (qo_tab q).
  Let s := st m.
  Let F := fs sm.

  (** UniqueTxDetails(hash, block): model, ledger, well-formedness *)
  Definition q_uniq : bool * bool * bool :=
    foldl (fun (acc : bool * bool * bool) (x : Z * Z * Z * Z) =>
      let '(t, h, b, r) := x in
      let '(okm, oks, okw) := acc in
      let blk := Some (h, Z.to_N b) in
      let res := if bool_decide (r < 0) then Some None
                 else match lookup_tab tab r with
                      | Some (t', d) => if bool_decide (t' = Z.to_N t) then Some (Some d) else None
                      | None => None
                      end in
      match res with
      | None => (okm, oks, false)
      | Some od =>
        (okm && eqb_on (unique_tx_details U s (Z.to_N t) blk) od,
         oks && eqb_on (spec_unique U F (Z.to_N t) blk) od, okw)
      end) (true, true, true) (qo_uniq q).

  Definition q_range : bool * bool * bool :=
    foldl (fun (acc : bool * bool * bool) (x : Z * Z * Z * bool * list (list Z)) =>
      let '(b, e, k, err, gs) := x in
      let '(okm, oks, okw) := acc in
      match sequence_opt (map (resolve_group tab) gs) with
      | None => (okm, oks, false)
      | Some igs =>
        let igs' := sort_groups igs in
        (okm && negb err && eqb_on (sort_groups (range_collect U s b e (Z.to_nat k))) igs',
         oks && negb err && eqb_on (sort_groups (take_stop (Z.to_nat k) (spec_range U F b e))) igs', okw)
      end) (true, true, true) (qo_range q).

  Definition q_prev : bool * bool :=
    foldl (fun (acc : bool * bool) (x : Z * Z * Z * bool * list (Z * Z)) =>
      let '(t, h, b, err, ops) := x in
      let '(okm, oks) := acc in
      let blk := if bool_decide (h < 0) then None else Some (h, Z.to_N b) in
      let res := if err : bool then None else Some (map (fun '(a, i) => (Z.to_N a, Z.to_N i)) ops) in
      (okm && eqb_on (previous_pkscripts U s (Z.to_N t) blk) res,
       (* the property speaks about known transactions at their current status *)
       oks && (if known F (Z.to_N t) && eqb_on (f_conf F !! Z.to_N t) blk
               then eqb_on (Some (spec_prev U F (Z.to_N t))) res else true)))
      (true, true) (qo_prev q).

  Definition gt_code (bk : Z) (si ei : Z * Z) : nat :=
    Z.to_nat (2600 + 10 * bk + (if bool_decide (2 <= si.1) then 1 else 0) + (if bool_decide (2 <= ei.1) then 2 else 0)).

  Definition q_gt : bool * list nat :=
    foldl (fun (acc : bool * list nat)
               (x : Z * (Z * Z) * (Z * Z) * bool * bool * list (Z * Z * list qsum) * list qsum) =>
      let '(bk, si, ei, cancel, err, mined, unm) := x in
      let '(okm, bad) := acc in
      let res := if err : bool then None
                 else Some (norm_gt {| gt_mined := map (fun '(h, b, l) => ((h, Z.to_N b), map dec_sum l)) mined;
                                       gt_unmined := map dec_sum unm |}) in
      let mres := match get_transactions U s (dec_ident si) (dec_ident ei) cancel with
                  | GtOk r => Some (norm_gt r)
                  | _ => None
                  end in
      let sres := match spec_get_transactions U F (dec_ident si) (dec_ident ei) cancel with
                  | Some r => Some (norm_gt r)
                  | None => None
                  end in
      (okm && eqb_on mres res, if eqb_on sres res then bad else bad ++ [gt_code bk si ei])) (true, []) (qo_gt q).

  Definition qcheck_event : list nat :=
    let '(um, us, uw) := q_uniq in
    let '(rm, rs, rw) := q_range in
    let '(pm, ps) := q_prev in
    let '(gm, gs) := q_gt in
    first_fail [ (uw && rw, 64%nat); (um, 60%nat); (rm, 61%nat); (pm, 62%nat); (gm, 63%nat);
                 (us, 260%nat); (rs, 261%nat); (ps, 262%nat) ] ++ gs.
End qcheck.

Fixpoint qcheck_events (U : universe) (c : tcase) (i : nat) (m : mstate) (sm : sstate)
         (l : list (event * iobs)) (ql : list qobs) : list (nat * nat) :=
  match l with
  | [] => []
  | (e, io) :: l' =>
    let ok := event_ok U (fs sm) e in
    let '(m', o) := step U m e in
    let sm' := spec_step U sm e in
    let fails := (if ok then [] else [901%nat]) ++ (match o with OFuel => [902%nat] | _ => [] end)
                 ++ check_event U c m' sm' o io
                 ++ match ql with qo :: _ => qcheck_event U m' sm' qo | [] => [] end in
    map (fun code => (i, code)) fails ++ qcheck_events U c (S i) m' sm' l' (tail ql)
  end.

Definition qcheck_case (cq : tcase * list qobs) : list (nat * nat) :=
  let '(c, ql) := cq in
  let U := universe_of (tc_universe c) in
  (if wf_universe U && bool_decide (size U = length (tc_universe c)) then [] else [(0%nat, 905%nat)])
  ++ qcheck_events U c 0 init_state {| fs := empty_facts; sclock := 0 |} (tc_events c) ql
  ++ check_pair U c.

Fixpoint qfailures_from (i : nat) (l : list (tcase * list qobs)) : list (nat * nat * nat) :=
  match l with
  | [] => []
  | c :: l' => map (fun '(e, code) => (i, e, code)) (qcheck_case c) ++ qfailures_from (S i) l'
  end.

Definition qfailures := qfailures_from 0.
