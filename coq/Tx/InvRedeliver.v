(** Re-delivery of a notification for an already recorded transaction through
    the store API without the wallet's early return (InsertTx + AddCredit for
    every credit) changes nothing. *)
From stdpp Require Import gmap list numbers sorting.
From Coq Require Import ZArith NArith.
From Verif Require Import Tx.Store Tx.Ledger Tx.Hist Tx.Inv Tx.InvRemove Tx.InvSeen.
Local Open Scope Z_scope.

Lemma foldl_id_on {A B} (f : A → B → A) (l : list B) (a : A) :
  (∀ b, b ∈ l → f a b = a) → foldl f a l = a.
Proof.
  induction l as [|b l IH]; intros H; simpl; [done|].
  rewrite H by set_solver. apply IH. intros b' Hb'. apply H. set_solver.
Qed.

Lemma step_preserves_redeliver U t ob : step_preserves U (Redeliver t ob).
Proof.
  intros m sm Hwf HI Hclk Hok.
  cbn [event_ok] in Hok. apply andb_true_iff in Hok as [HU Hok].
  apply bool_decide_eq_true in HU. destruct HU as [x HUt].
  pose proof (wf_tx_unpack t x (wf_universe_tx U t x Hwf HUt)) as (Hid & _).
  cbn [step]. rewrite HUt. destruct ob as [[[bh bhash] bt]|].
  - (* re-delivery of the current confirmation *)
    apply bool_decide_eq_true in Hok.
    unfold insert_mined. rewrite Hid.
    rewrite bool_decide_eq_true_2 by (by apply (inv_txrecs U (st m) (fs sm) HI)).
    cbn [spec_step]. split; [discriminate|]. split; [|exact Hclk]. cbn [st].
    rewrite foldl_id_on; [exact HI|].
    intros [i chg] Hin. unfold add_credit. rewrite Hid. cbn [fst snd].
    rewrite bool_decide_eq_true_2; [done|].
    eapply (inv_credits_complete U (st m) (fs sm) HI t bh bhash i chg); [exact Hok|].
    unfold is_credited, creds_of. cbn [fst snd]. by rewrite HUt.
  - (* re-delivery as unconfirmed of a known transaction *)
    cbn [spec_step]. split; [discriminate|]. split; [|exact Hclk]. cbn [st].
    assert (Hknown : insert_mempool x (st m) = (true, st m)).
    { unfold insert_mempool. rewrite Hid.
      unfold known in Hok. apply orb_true_iff in Hok as [Hc|Hu].
      - apply bool_decide_eq_true in Hc.
        rewrite (proj2 (has_mined_record_iff U (st m) (fs sm) t HI)); [by rewrite orb_true_r | exact Hc].
      - apply bool_decide_eq_true in Hu.
        rewrite bool_decide_eq_true_2; [done|]. by apply (inv_unmined U (st m) (fs sm) HI). }
    rewrite Hknown. cbn [snd].
    rewrite foldl_id_on; [exact HI|].
    intros [i chg] Hin. unfold add_credit. rewrite Hid. cbn [fst snd].
    unfold known in Hok. apply orb_true_iff in Hok as [Hc|Hu].
    + apply bool_decide_eq_true in Hc.
      destruct (bool_decide (is_Some (unmined_credits (st m) !! (t, i)))); [done|].
      by rewrite (proj2 (has_mined_record_iff U (st m) (fs sm) t HI)).
    + apply bool_decide_eq_true in Hu.
      rewrite bool_decide_eq_true_2; [done|].
      exists (amount_of U (t, i), chg).
      apply (inv_unmined_credits U (st m) (fs sm) HI (t, i)). cbn [fst snd].
      split; [exact Hu|]. split; [|done]. unfold is_credited, creds_of. cbn [fst snd]. by rewrite HUt.
Qed.
