(** The abstract specification ("ledger truth") for the transaction store:
    facts = which transactions are confirmed in which block, which are
    unconfirmed, which outputs are leased.  Everything the property texts of
    C01, C02, C12, C13 and C20 say is a function of the facts only. *)
From stdpp Require Import gmap list numbers sorting.
From Coq Require Import ZArith NArith.
From Verif Require Import Tx.Store.
Local Open Scope Z_scope.

Record facts := {
  f_conf : gmap txid blockid;                 (* confirmed: txid -> (height, hash) *)
  f_unconf : gset txid;                       (* unconfirmed *)
  f_leases : gmap outpoint lockval;           (* raw leases (may be expired) *)
}.

Definition empty_facts : facts := {| f_conf := ∅; f_unconf := ∅; f_leases := ∅ |}.

Definition known (F : facts) (t : txid) : bool :=
  bool_decide (is_Some (f_conf F !! t)) || bool_decide (t ∈ f_unconf F).

Definition known_list (F : facts) : list txid :=
  map fst (map_to_list (f_conf F)) ++ elements (f_unconf F).

Definition tx_ins (U : universe) (t : txid) : list outpoint :=
  match U !! t with Some x => t_ins x | None => [] end.

Definition spends (U : universe) (t : txid) (op : outpoint) : bool :=
  bool_decide (op ∈ tx_ins U t).

(** some known transaction spends [op] *)
Definition spent_by_known (U : universe) (F : facts) (op : outpoint) : bool :=
  existsb (fun t => spends U t op) (known_list F).

Definition leased (F : facts) (op : outpoint) (now : Z) : bool :=
  match f_leases F !! op with
  | Some l => bool_decide (now < l_expiry l)
  | None => false
  end.

(** Every wallet-credited output of a known transaction, as a candidate. *)
Definition credited_outputs (U : universe) (F : facts) : list (tx * N * bool) :=
  flat_map (fun h => match U !! h with
                     | Some t => map (fun ic => (t, ic.1, ic.2)) (t_creds t)
                     | None => []
                     end) (known_list F).

Definition confs_of (F : facts) (t : txid) (sync : Z) : option Z :=
  match f_conf F !! t with
  | Some (h, _) => Some (sync - h + 1)
  | None => None
  end.

(** The spendable set: credited, unspent by any known tx, unleased. *)
Definition spec_utxos (U : universe) (F : facts) (now : Z) : list utxo :=
  omap (fun '(t, i, _) =>
    let op : outpoint := (t_id t, i) in
    if spent_by_known U F op || leased F op now then None
    else match f_conf F !! t_id t with
         | Some (h, bhash) => Some {| u_op := op; u_amt := out_amount t i; u_height := h; u_hash := bhash; u_coinbase := t_coinbase t |}
         | None => Some {| u_op := op; u_amt := out_amount t i; u_height := -1; u_hash := 0%N; u_coinbase := t_coinbase t |}
         end) (credited_outputs U F).

(** The balance for a minimum confirmation count at a sync height. *)
Definition spec_balance (U : universe) (F : facts) (minconf sync now : Z) : Z :=
  foldr Z.add 0 (omap (fun '(t, i, _) =>
    let op : outpoint := (t_id t, i) in
    if spent_by_known U F op || leased F op now then None
    else match confs_of F (t_id t) sync with
         | Some c => if bool_decide (minconf <= c) && (negb (t_coinbase t) || bool_decide (coinbase_maturity <= c))
                     then Some (out_amount t i) else None
         | None => if bool_decide (minconf = 0) then Some (out_amount t i) else None
         end) (credited_outputs U F)).

(** Everything that is ever watched: all credited outputs of known txs that
    no confirmed tx spends. *)

(** ** Spec-level steps *)

(** unconfirmed transactions that (transitively) spend an output of a tx in
    [roots] - computed by iterating to a fixpoint ([fuel] rounds suffice when
    fuel >= number of unconfirmed txs). *)
Definition spends_output_of (U : universe) (c p : txid) : bool :=
  existsb (fun op => bool_decide (op.1 = p)) (tx_ins U c).

Fixpoint descendants (U : universe) (fuel : nat) (unconf : list txid) (acc : list txid) : list txid :=
  match fuel with
  | O => acc
  | S f =>
    let new := filter (fun c => bool_decide (c ∉ acc) ∧ existsb (fun p => spends_output_of U c p) acc) unconf in
    match new with
    | [] => acc
    | _ => descendants U f unconf (acc ++ new)
    end
  end.

Definition remove_unconf_with_descendants (U : universe) (F : facts) (roots : list txid) : facts :=
  let uc := elements (f_unconf F) in
  let dead := descendants U (S (length uc)) uc roots in
  {| f_conf := f_conf F;
     f_unconf := filter (fun t => t ∉ dead) (f_unconf F);
     f_leases := f_leases F |}.

Definition conflicts (U : universe) (a b : txid) : bool :=
  bool_decide (a ≠ b) && existsb (fun op => spends U b op) (tx_ins U a).

Definition spec_seen (U : universe) (F : facts) (t : txid) : facts :=
  if known F t then F
  else {| f_conf := f_conf F; f_unconf := {[t]} ∪ f_unconf F; f_leases := f_leases F |}.

Definition spec_confirm (U : universe) (F : facts) (t : txid) (b : blockid) : facts :=
  match f_conf F !! t with
  | Some _ => F                                  (* re-delivery *)
  | None =>
    let F1 := {| f_conf := <[t := b]> (f_conf F); f_unconf := f_unconf F ∖ {[t]};
                 (* a confirmed spend removes the lease of each spent output *)
                 f_leases := foldl (fun m op => delete op m) (f_leases F) (tx_ins U t) |} in
    let cf := filter (fun u => conflicts U t u) (elements (f_unconf F1)) in
    remove_unconf_with_descendants U F1 cf
  end.

Definition is_coinbase (U : universe) (t : txid) : bool :=
  match U !! t with Some x => t_coinbase x | None => false end.

Definition spec_disconnect (U : universe) (F : facts) (h : Z) : facts :=
  let gone := filter (fun kv => h <= kv.2.1) (map_to_list (f_conf F)) in
  let gone_ids := map fst gone in
  let cb := filter (fun t => is_coinbase U t) gone_ids in
  let back := filter (fun t => negb (is_coinbase U t)) gone_ids in
  let F1 := {| f_conf := filter (fun kv => ¬ (h <= kv.2.1)) (f_conf F);
               f_unconf := f_unconf F ∪ list_to_set back;
               f_leases := f_leases F |} in
  (* coinbase txs disappear together with everything that depends on them *)
  let uc := elements (f_unconf F1) in
  let dead := descendants U (S (length uc)) uc cb in
  {| f_conf := f_conf F1;
     f_unconf := filter (fun t => t ∉ dead) (f_unconf F1);
     f_leases := f_leases F1 |}.

Definition spec_abandon (U : universe) (F : facts) (t : txid) : facts :=
  remove_unconf_with_descendants U F [t].

(** ** Transaction details at the spec level (C13) *)

Definition credited_amount (U : universe) (op : outpoint) : option Z :=
  match U !! op.1 with
  | Some t => if existsb (fun ic => bool_decide (ic.1 = op.2)) (t_creds t) then Some (out_amount t op.2) else None
  | None => None
  end.

Definition N_le_dec_rel (a b : N * bool) : Prop := (a.1 <= b.1)%N.
Global Instance N_le_dec_rel_dec a b : Decision (N_le_dec_rel a b).
Proof. unfold N_le_dec_rel. apply _. Defined.

Definition spec_details (U : universe) (F : facts) (h : txid) : option details :=
  if negb (known F h) then None
  else match U !! h with
       | None => None
       | Some t =>
         Some {| d_block := f_conf F !! h;
                 d_credits := map (fun ic : N * bool =>
                                {| cr_index := ic.1; cr_amt := out_amount t ic.1;
                                   cr_spent := spent_by_known U F (h, ic.1); cr_change := ic.2 |})
                                (merge_sort N_le_dec_rel (t_creds t));
                 d_debits := omap (fun (ii : N * outpoint) =>
                                let '(i, op) := ii in
                                if known F op.1 then
                                  match credited_amount U op with
                                  | Some a => Some (i, a)
                                  | None => None
                                  end
                                else None) (zip (indices (t_ins t)) (t_ins t)) |}
       end.
