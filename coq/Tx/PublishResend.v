(** The re-broadcast after a (re)synchronisation (resendUnminedTxs) and the
    corollaries over chain-consistent histories; continues Tx/PublishProofs.v.
    The order of the offered sequence comes from C14's theorem
    [KahnProofs.dependency_sort_correct]. *)
From stdpp Require Import gmap list numbers sorting.
From Coq Require Import ZArith NArith.
From Verif Require Import Tx.Store Tx.Ledger Tx.Hist Tx.Inv Tx.InvRemove Tx.InvSeen Tx.InvObs Tx.Refine.
From Verif Require Import Tx.Publish Tx.PublishProofs.
From Verif Require Tx.Kahn Tx.KahnProofs.
Local Open Scope Z_scope.
Local Open Scope stdpp_scope.

(** * 3. The re-broadcast after a (re)synchronisation *)

Section resend.
  Context (U : gmap N tx) (Hwf : wf_universe U = true).

  (** the loop over an arbitrary precomputed list never runs out of fuel and
      refines the specification, whatever the answers - also for elements that
      an earlier iteration already removed *)
  Lemma resend_list_ok (cfg : pcfg) : ∀ (l : list N) (answers : list answer) (s : store) (F : facts),
    Inv U s F → (∀ t, t ∈ l → is_Some (U !! t)) →
    ∃ rs s', resend_list cfg U l answers s = (rs, s') ∧
             Inv U s' (spec_resend_list cfg U l answers F) ∧
             length rs = length l ∧ PFuel ∉ rs.
  Proof.
    induction l as [|t l IH]; intros answers s F HI Hl.
    - exists [], s. split; [done|]. split; [done|]. split; [done|]. by intros ?%elem_of_nil.
    - cbn [resend_list spec_resend_list]. unfold publish_tx.
      destruct (finish_ok U Hwf (cfg_class cfg (hd AAccept answers)) s F t HI) as (s1 & Hf & HI1).
      { apply Hl. by left. }
      rewrite Hf.
      destruct (IH (tl answers) s1 _ HI1) as (rs & s' & Hr & HI' & Hlen & Hnf).
      { intros t' Ht'. apply Hl. by right. }
      rewrite Hr. eexists _, s'. split; [done|]. split; [done|]. split; [simpl; by rewrite Hlen|].
      intros [Heq|Hin]%elem_of_cons; [|done].
      unfold result_of in Heq. by destruct (act_error _).
  Qed.

  (** answers that keep every transaction leave the facts unchanged *)
  Lemma spec_resend_list_keep (cfg : pcfg) : ∀ (l : list N) (answers : list answer) (F : facts),
    (∀ a, a ∈ answers → act_removes (cfg_class cfg a) = false) →
    act_removes (cfg_class cfg AAccept) = false →
    spec_resend_list cfg U l answers F = F.
  Proof.
    induction l as [|t l IH]; intros answers F Ha Hacc; [done|].
    cbn [spec_resend_list]. unfold spec_finish.
    assert (Hh : act_removes (cfg_class cfg (hd AAccept answers)) = false).
    { destruct answers as [|a answers]; [done|]. apply Ha. by left. }
    rewrite Hh. apply IH; [|done]. intros a Hin. apply Ha. destruct answers; [done|]. by right.
  Qed.

  (** the set handed to DependencySort *)
  Lemma unmined_set_ids (s : store) : map Kahn.txid (unmined_set U s) = unmined_hashes s.
  Proof.
    unfold unmined_set. rewrite map_map. simpl. apply map_id.
  Qed.

  Lemma NoDup_unmined_hashes (s : store) : NoDup (unmined_hashes s).
  Proof. unfold unmined_hashes. rewrite map_fmap. apply NoDup_fst_map_to_list. Qed.

  Lemma In_unmined_set (s : store) (x : Kahn.tx) :
    In x (unmined_set U s) ↔ x.1 ∈ unmined_hashes s ∧ x.2 = tx_ins U x.1.
  Proof.
    unfold unmined_set. rewrite in_map_iff. split.
    - intros (h & <- & Hh). simpl. split; [by apply elem_of_list_In|done].
    - intros [Hh Hx]. exists x.1. split; [destruct x; simpl in *; by subst|by apply elem_of_list_In].
  Qed.

  Lemma unmined_set_acyclic (s : store) : KahnProofs.acyclic (unmined_set U s).
  Proof.
    exists (λ x, N.to_nat x.1). intros c p (Hc & Hp & Hsp).
    apply In_unmined_set in Hc as [_ Hcins].
    unfold Kahn.txid, Kahn.inputs in Hsp. rewrite Hcins in Hsp.
    apply in_map_iff in Hsp as (op & Hop1 & Hop%elem_of_list_In).
    unfold tx_ins in Hop. destruct (U !! c.1) as [tc|] eqn:Htc; [|by apply elem_of_nil in Hop].
    apply (wf_universe_tx U _ _ Hwf) in Htc.
    apply wf_tx_unpack in Htc as (_ & _ & _ & _ & Hr). specialize (Hr op Hop). lia.
  Qed.

  (** (e) For every pair of map iteration orders inside DependencySort: the
      sort terminates, the offered sequence lists every unconfirmed wallet
      transaction exactly once, every transaction comes after every
      unconfirmed transaction whose output it spends, every element is
      offered (one result per element), the fuel never runs out and the final
      store satisfies the invariant for the facts of the specification. *)
  Theorem resend_offers_all_parents_first (cfg : pcfg) (s : store) (F : facts)
          (pi1 : list Kahn.tx) (pi2 : list N) (answers : list answer) :
    Inv U s F →
    pi1 ≡ₚ unmined_set U s → pi2 ≡ₚ unmined_hashes s →
    ∃ l rs s', resend cfg U pi1 pi2 answers s = Some (l, rs, s') ∧
               l ≡ₚ elements (f_unconf F) ∧ NoDup l ∧
               (∀ p c, p ∈ f_unconf F → c ∈ f_unconf F → spends_output_of U c p = true →
                       KahnProofs.before p c l) ∧
               length rs = length l ∧ PFuel ∉ rs ∧
               Inv U s' (spec_resend_list cfg U l answers F).
  Proof.
    intros HI Hp1 Hp2.
    destruct (KahnProofs.dependency_sort_correct (unmined_set U s) pi1 pi2) as (out & Hout & Hperm & Hbefore).
    { unfold KahnProofs.ids. rewrite unmined_set_ids. apply NoDup_ListNoDup, NoDup_unmined_hashes. }
    { apply unmined_set_acyclic. }
    { exact Hp1. }
    { unfold KahnProofs.ids. by rewrite unmined_set_ids. }
    assert (Hl : map Kahn.txid out ≡ₚ elements (f_unconf F)).
    { rewrite Hperm, unmined_set_ids. by apply (unmined_hashes_perm U s F). }
    destruct (resend_list_ok cfg (map Kahn.txid out) answers s F HI) as (rs & s' & Hr & HI' & Hlen & Hnf).
    { intros t Ht. rewrite Hl in Ht. apply elem_of_elements in Ht.
      apply (fw_in_universe U F (inv_wf U s F HI)). by right. }
    unfold resend. rewrite Hout. cbv zeta. rewrite Hr.
    eexists _, rs, s'. split; [done|]. split; [done|]. split.
    { rewrite Hl. apply NoDup_elements. }
    split; [|done].
    intros p c Hp Hc Hsp.
    assert (Hmem : ∀ x, x ∈ f_unconf F → In (x, tx_ins U x) (unmined_set U s)).
    { intros x Hx. apply In_unmined_set. simpl. split; [|done].
      rewrite (unmined_hashes_perm U s F HI). by apply elem_of_elements. }
    destruct (Hbefore (p, tx_ins U p) (c, tx_ins U c)) as (l1 & l2 & l3 & Heq).
    { split; [by apply Hmem|]. split; [by apply Hmem|].
      unfold Kahn.txid, Kahn.inputs. simpl.
      apply spends_output_of_iff in Hsp as (op & Hop & <-).
      apply in_map. by apply elem_of_list_In. }
    exists (map Kahn.txid l1), (map Kahn.txid l2), (map Kahn.txid l3).
    rewrite Heq. rewrite !map_app. simpl. by rewrite map_app.
  Qed.
End resend.

(** * 4. Over histories

    [refinement_statement] (Tx/Inv.v) is the composition of the per-event
    preservation lemmas; the corollaries below take it as a hypothesis and
    transfer the theorems above to every state reached by a chain-consistent
    history. *)
Section histories.
  Hypothesis Href : refinement_statement.

  Corollary publish_after_history (cfg : pcfg) (U : gmap N tx) (h : list event) (t : N) (a : answer) (ok : bool) :
    wf_universe U = true → chain_consistent U h = true →
    event_ok U (fs (spec_run U h)) (Seen t) = true →
    ∃ s', publish cfg U t a ok (st (run U h)) = (result_of (branch cfg a ok), s') ∧
          Inv U s' (spec_publish_cfg cfg U (fs (spec_run U h)) t a ok).
  Proof.
    intros Hwf Hc Hok. destruct (Href U h Hwf Hc) as [HI _]. by apply publish_ok.
  Qed.

  Corollary failed_attempt_no_trace_after_history (cfg : pcfg) (U : gmap N tx) (h : list event) (t : N)
            (a : answer) (ok : bool) :
    branch cfg a ok = drop_err →
    wf_universe U = true → chain_consistent U h = true →
    event_ok U (fs (spec_run U h)) (Seen t) = true → fresh U (fs (spec_run U h)) t = true →
    ∃ s', publish cfg U t a ok (st (run U h)) = (PError, s') ∧
          Inv U s' (fs (spec_run U h)) ∧
          same_observables U (st (run U h)) s' (fs (spec_run U h)).
  Proof.
    intros Hb Hwf Hc Hok Hfr. destruct (Href U h Hwf Hc) as [HI _]. by apply failed_attempt_no_trace.
  Qed.

  Corollary resend_after_history (cfg : pcfg) (U : gmap N tx) (h : list event)
            (pi1 : list Kahn.tx) (pi2 : list N) (answers : list answer) :
    wf_universe U = true → chain_consistent U h = true →
    pi1 ≡ₚ unmined_set U (st (run U h)) → pi2 ≡ₚ unmined_hashes (st (run U h)) →
    ∃ l rs s', resend cfg U pi1 pi2 answers (st (run U h)) = Some (l, rs, s') ∧
               l ≡ₚ elements (f_unconf (fs (spec_run U h))) ∧ NoDup l ∧
               (∀ p c, p ∈ f_unconf (fs (spec_run U h)) → c ∈ f_unconf (fs (spec_run U h)) →
                       spends_output_of U c p = true → KahnProofs.before p c l).
  Proof.
    intros Hwf Hc Hp1 Hp2. destruct (Href U h Hwf Hc) as [HI _].
    destruct (resend_offers_all_parents_first U Hwf cfg _ _ pi1 pi2 answers HI Hp1 Hp2)
      as (l & rs & s' & H1 & H2 & H3 & H4 & _).
    by exists l, rs, s'.
  Qed.
End histories.
