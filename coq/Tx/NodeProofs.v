(** Every event sequence the abstract validating node of [Node.v] can emit
    is chain-consistent ([node_emits_consistent]).  Owner: prover-node. *)
From stdpp Require Import gmap list numbers sorting.
From Coq Require Import ZArith NArith Lia.
From Verif Require Import Tx.Store Tx.Ledger Tx.Hist Tx.Inv Tx.InvRemove Tx.InvRollback
  Tx.RefineAll Tx.Corollaries Tx.Node.
Local Open Scope Z_scope.

(** * Lists, chains *)

Lemma chain_txs_app (a b : list nblock) : chain_txs (a ++ b) = chain_txs b ++ chain_txs a.
Proof.
  induction a as [|x a IH]; simpl; [by rewrite app_nil_r|].
  by rewrite IH, app_assoc.
Qed.

Lemma elem_of_chain_txs (c : list nblock) (t : N) :
  t ∈ chain_txs c ↔ ∃ b, b ∈ c ∧ t ∈ nb_txs b.
Proof.
  induction c as [|x c IH]; simpl.
  - split; [by intros ?%elem_of_nil|]. intros (b & Hb & _). by apply elem_of_nil in Hb.
  - rewrite elem_of_app, IH. split.
    + intros [(b & Hb & Ht)|Ht]; [exists b; split; [by right|done]|exists x; split; [by left|done]].
    + intros (b & Hb & Ht). apply elem_of_cons in Hb as [->|Hb]; [by right|left; eauto].
Qed.

Lemma in_chain_txs c t h bh : in_chain c t h bh → t ∈ chain_txs c.
Proof. intros (b & Hb & Ht & _). apply elem_of_chain_txs. eauto. Qed.

Lemma chain_txs_in c t : t ∈ chain_txs c → ∃ h bh, in_chain c t h bh.
Proof.
  intros (b & Hb & Ht)%elem_of_chain_txs. exists (nb_height b), (nb_hash b), b. done.
Qed.

Lemma in_chain_cons blk c t h bh :
  in_chain (blk :: c) t h bh ↔
  (t ∈ nb_txs blk ∧ h = nb_height blk ∧ bh = nb_hash blk) ∨ in_chain c t h bh.
Proof.
  unfold in_chain. split.
  - intros (b & Hb & Ht & Hh & Hbh). apply elem_of_cons in Hb as [->|Hb]; [left; done|right; eauto].
  - intros [(Ht & -> & ->)|(b & Hb & Hrest)]; [exists blk; split; [by left|done]|].
    exists b. split; [by right|done].
Qed.

Lemma tip_height_ge c : chain_sorted c → -1 <= tip_height c.
Proof.
  induction c as [|b c IH]; simpl; [lia|]. intros [Hlt Hs]. specialize (IH Hs). lia.
Qed.

Lemma sorted_le_tip c b : chain_sorted c → b ∈ c → 0 <= nb_height b <= tip_height c.
Proof.
  induction c as [|x c IH]; simpl; [by intros _ ?%elem_of_nil|].
  intros [Hlt Hs] Hb. pose proof (tip_height_ge c Hs).
  apply elem_of_cons in Hb as [->|Hb]; [lia|]. specialize (IH Hs Hb). lia.
Qed.

Lemma chain_sorted_app a b :
  chain_sorted (a ++ b) → chain_sorted b ∧ ∀ x, x ∈ a → tip_height b < nb_height x.
Proof.
  induction a as [|y a IH]; simpl.
  - intros Hs. split; [done|]. by intros x ?%elem_of_nil.
  - intros [Hlt Hs]. destruct (IH Hs) as [Hb Ha]. split; [done|].
    intros x Hx. apply elem_of_cons in Hx as [->|Hx]; [|by apply Ha].
    destruct a as [|z a]; simpl in *; [done|].
    specialize (Ha z (elem_of_list_here _ _)). lia.
Qed.

Lemma in_chain_height c t h bh : chain_sorted c → in_chain c t h bh → 0 <= h <= tip_height c.
Proof. intros Hs (b & Hb & _ & <- & _). by apply sorted_le_tip. Qed.

Section lists.
  Context (U : universe).

  Lemma nds_app_l l1 l2 : no_double_spend U (l1 ++ l2) → no_double_spend U l1.
  Proof.
    intros H t1 t2 op H1 H2. apply H; apply elem_of_app; by left.
  Qed.

  Lemma pf_app_l l1 l2 : parents_first U (l1 ++ l2) → parents_first U l1.
  Proof.
    intros H k1 t k2 op -> Hop HU. apply (H k1 t (k2 ++ l2) op); [|done|done].
    by rewrite <- app_assoc.
  Qed.

  (** in a duplicate-free parents-first list a universe parent occurs
      strictly before its child; in particular it is not the child and it is
      in the list *)
  Lemma pf_parent_in l t op :
    parents_first U l → t ∈ l → op ∈ tx_ins U t → is_Some (U !! op.1) → op.1 ∈ l.
  Proof.
    intros Hpf Ht Hop HU. apply elem_of_list_split in Ht as (l1 & l2 & ->).
    apply elem_of_app. left. by apply (Hpf l1 t l2 op).
  Qed.

  (** a member of a prefix has all its universe parents in that prefix *)
  Lemma pf_prefix_closed l1 l2 t op :
    parents_first U (l1 ++ l2) → t ∈ l1 → op ∈ tx_ins U t → is_Some (U !! op.1) → op.1 ∈ l1.
  Proof. intros Hpf. apply pf_parent_in. by eapply pf_app_l. Qed.

  (** a transaction at or after the split point is not the parent of a
      member of the prefix *)
  Lemma pf_no_later_parent l1 l2 c t op :
    NoDup (l1 ++ l2) → parents_first U (l1 ++ l2) → c ∈ l1 → t ∈ l2 → is_Some (U !! t) →
    op ∈ tx_ins U c → op.1 ≠ t.
  Proof.
    intros Hnd Hpf Hc Ht HU Hop Heq. subst t.
    pose proof (pf_prefix_closed l1 l2 c op Hpf Hc Hop HU) as Hin.
    apply NoDup_app in Hnd as (_ & Hdisj & _). by apply (Hdisj _ Hin).
  Qed.

  Lemma spends_output_of_true c p :
    spends_output_of U c p = true ↔ ∃ op, op ∈ tx_ins U c ∧ op.1 = p.
  Proof.
    unfold spends_output_of. rewrite existsb_exists. split.
    - intros (op & Hin & Heq). exists op. split; [by apply elem_of_list_In|].
      by apply bool_decide_eq_true in Heq.
    - intros (op & Hin & Heq). exists op. split; [by apply elem_of_list_In|].
      by apply bool_decide_eq_true.
  Qed.

  Lemma conflicts_true a b :
    conflicts U a b = true ↔ a ≠ b ∧ ∃ op, op ∈ tx_ins U a ∧ op ∈ tx_ins U b.
  Proof.
    unfold conflicts, spends. rewrite andb_true_iff, bool_decide_eq_true, existsb_exists.
    split.
    - intros [Hne (op & Hin & Hb)]. split; [done|]. exists op.
      split; [by apply elem_of_list_In|]. by apply bool_decide_eq_true in Hb.
    - intros [Hne (op & Hin & Hb)]. split; [done|]. exists op.
      split; [by apply elem_of_list_In|]. by apply bool_decide_eq_true.
  Qed.

  Lemma shares_input_true a b :
    shares_input U a b = true ↔ a ≠ b ∧ ∃ op, op ∈ tx_ins U a ∧ op ∈ tx_ins U b.
  Proof. apply conflicts_true. Qed.

  Lemma tx_ins_lookup t x : U !! t = Some x → tx_ins U t = t_ins x.
  Proof. unfold tx_ins. by intros ->. Qed.

  Lemma is_coinbase_lookup t x : U !! t = Some x → is_coinbase U t = t_coinbase x.
  Proof. unfold is_coinbase. by intros ->. Qed.

  (** ** Eviction *)

  Lemma evict_elem M roots c :
    c ∈ evict U M roots ↔ c ∈ M ∧ ¬ depends_on U (pool_facts M) roots c.
  Proof. unfold evict. by rewrite rm_unconf_elem. Qed.

  Lemma evict_sub M roots c : c ∈ evict U M roots → c ∈ M.
  Proof. rewrite evict_elem. tauto. Qed.

  Lemma evict_not_root M roots c : c ∈ evict U M roots → c ∉ roots.
  Proof. rewrite evict_elem. intros [_ Hn] Hr. apply Hn. by apply dep_root. Qed.

  (** a survivor does not spend an output of a root *)
  Lemma evict_no_root_parent M roots c op :
    c ∈ evict U M roots → op ∈ tx_ins U c → op.1 ∉ roots.
  Proof.
    rewrite evict_elem. intros [Hc Hn] Hop Hr. apply Hn.
    eapply dep_step; [by apply dep_root| done |].
    apply spends_output_of_true. eauto.
  Qed.

  (** a mempool parent of a survivor survives *)
  Lemma evict_parent M roots c op :
    c ∈ evict U M roots → op ∈ tx_ins U c → op.1 ∈ M → op.1 ∈ evict U M roots.
  Proof.
    rewrite !evict_elem. intros [Hc Hn] Hop Hp. split; [done|]. intros Hd. apply Hn.
    eapply dep_step; [exact Hd|done|]. apply spends_output_of_true. eauto.
  Qed.

  Lemma elem_of_conflicting l M m :
    m ∈ conflicting U l M ↔ m ∈ M ∧ ∃ t, t ∈ l ∧ conflicts U t m = true.
  Proof.
    unfold conflicting. rewrite elem_of_list_filter, elem_of_elements.
    split.
    - intros [Hex Hm]. split; [done|]. apply Is_true_true in Hex.
      apply existsb_exists in Hex as (t & Ht & Hc). exists t. split; [by apply elem_of_list_In|done].
    - intros [Hm (t & Ht & Hc)]. split; [|done]. apply Is_true_true. apply existsb_exists.
      exists t. split; [by apply elem_of_list_In|done].
  Qed.

  (** a survivor of the eviction of [conflicting l M] shares no input with a
      member of [l] (other than itself) *)
  Lemma evict_conflicting_none l M m t op :
    m ∈ evict U M (conflicting U l M) → t ∈ l → t ≠ m → op ∈ tx_ins U t → op ∉ tx_ins U m.
  Proof.
    intros Hm Ht Hne Hop Hop'. apply (evict_not_root _ _ _ Hm).
    apply elem_of_conflicting. split; [by eapply evict_sub|].
    exists t. split; [done|]. apply conflicts_true. eauto.
  Qed.
End lists.

(** * The node validity invariant is preserved by every transition *)

Section valid.
  Context (U : universe).

  Lemma init_valid : nvalid U init_nstate.
  Proof.
    split; simpl.
    - split; simpl; try done.
      + constructor.
      + by intros t ?%elem_of_nil.
      + by intros t1 t2 op ?%elem_of_nil.
      + intros l1 t l2 op Heq. by destruct l1.
    - split; set_solver.
  Qed.

  Lemma accept_valid c M t x :
    chain_ok U c → pool_ok U c M →
    U !! t = Some x → t_coinbase x = false → t ∉ chain_txs c → t ∉ M →
    (∀ op, op ∈ t_ins x →
       (∀ c', c' ∈ chain_txs c → op ∉ tx_ins U c') ∧
       (is_Some (U !! op.1) → op.1 ∈ chain_txs c ∨ op.1 ∈ evict U M (conflicting U [t] M))) →
    pool_ok U c (accept_pool U M t).
  Proof.
    intros Hc [P1 P2 P3 P4 P5 P6] Hx Hcb Htc HtM Hins.
    pose proof (tx_ins_lookup U t x Hx) as Hti.
    assert (Hsplit : ∀ m, m ∈ accept_pool U M t →
              m = t ∨ (m ≠ t ∧ m ∈ M ∧ m ∈ evict U M (conflicting U [t] M))).
    { intros m Hm. unfold accept_pool in Hm. apply elem_of_union in Hm as [Hm|Hm].
      - left. by apply elem_of_singleton in Hm.
      - right. pose proof (evict_sub U _ _ _ Hm) as HmM. split; [|done]. intros ->. done. }
    split.
    - intros m [->|(_ & Hm & _)]%Hsplit; [by rewrite Hx|by apply P1].
    - intros m [->|(_ & Hm & _)]%Hsplit; [done|by apply P2].
    - intros m [->|(_ & Hm & _)]%Hsplit; [by rewrite (is_coinbase_lookup U t x Hx)|by apply P3].
    - intros t' m op Ht' [->|(_ & Hm & _)]%Hsplit Hop; [|by eapply P4].
      rewrite Hti. intros Hop'. destruct (Hins op Hop') as [Hno _]. by apply (Hno t' Ht').
    - intros m1 m2 op [->|(Hne1 & Hm1 & He1)]%Hsplit [->|(Hne2 & Hm2 & He2)]%Hsplit Ho1 Ho2.
      + done.
      + exfalso. eapply (evict_conflicting_none U [t] M m2 t op); [done|by left|done|done|done].
      + exfalso. eapply (evict_conflicting_none U [t] M m1 t op); [done|by left|done|done|done].
      + by eapply P5.
    - intros m op [->|(Hne & Hm & He)]%Hsplit Hop HU.
      + rewrite Hti in Hop. destruct (Hins op Hop) as [_ Hp]. destruct (Hp HU) as [?|?]; [by left|].
        right. unfold accept_pool. apply elem_of_union. by right.
      + destruct (P6 m op Hm Hop HU) as [?|Hp]; [by left|]. right.
        unfold accept_pool. apply elem_of_union. right. by eapply evict_parent.
  Qed.

  Lemma mine_valid c M blk :
    chain_ok U (blk :: c) → pool_ok U c M → pool_ok U (blk :: c) (mine_pool U M blk).
  Proof.
    intros Hc [P1 P2 P3 P4 P5 P6].
    set (M1 := M ∖ list_to_set (nb_txs blk)).
    assert (Hsplit : ∀ m, m ∈ mine_pool U M blk →
              m ∈ M ∧ m ∉ nb_txs blk ∧ m ∈ evict U M1 (conflicting U (nb_txs blk) M1)).
    { intros m Hm. unfold mine_pool in Hm. fold M1 in Hm.
      pose proof (evict_sub U _ _ _ Hm) as HmM. unfold M1 in HmM.
      apply elem_of_difference in HmM as [HmM Hnl]. rewrite elem_of_list_to_set in Hnl. done. }
    split.
    - intros m (Hm & _)%Hsplit. by apply P1.
    - intros m (Hm & Hnl & _)%Hsplit. simpl. rewrite elem_of_app. intros [?|?]; [by eapply P2|done].
    - intros m (Hm & _)%Hsplit. by apply P3.
    - intros t m op Ht (Hm & Hnl & He)%Hsplit Hop. simpl in Ht. apply elem_of_app in Ht as [Ht|Ht].
      + by eapply P4.
      + eapply (evict_conflicting_none U (nb_txs blk) M1 m t op); [done|done| |done].
        intros ->. done.
    - intros m1 m2 op (Hm1 & _)%Hsplit (Hm2 & _)%Hsplit. by apply P5.
    - intros m op (Hm & Hnl & He)%Hsplit Hop HU. simpl.
      destruct (P6 m op Hm Hop HU) as [Hp|Hp]; [left; apply elem_of_app; by left|].
      destruct (decide (op.1 ∈ nb_txs blk)) as [Hin|Hnin]; [left; apply elem_of_app; by right|].
      right. unfold mine_pool. fold M1. eapply evict_parent; [done|done|].
      unfold M1. apply elem_of_difference. split; [done|]. by rewrite elem_of_list_to_set.
  Qed.

  Lemma chain_ok_app rem surv : chain_ok U (rem ++ surv) → chain_ok U surv.
  Proof.
    intros [C1 C2 C3 C4 C5 C6]. rewrite chain_txs_app in *. split.
    - by apply chain_sorted_app in C1 as [? _].
    - by apply NoDup_app in C2 as [? _].
    - intros t Ht. apply C3. apply elem_of_app. by left.
    - by eapply nds_app_l.
    - by eapply pf_app_l.
    - by apply Forall_app in C6 as [_ ?].
  Qed.

  Lemma reorg_valid rem surv M :
    chain_ok U (rem ++ surv) → pool_ok U (rem ++ surv) M →
    pool_ok U surv (reorg_pool U M rem).
  Proof.
    intros [C1 C2 C3 C4 C5 C6] [P1 P2 P3 P4 P5 P6]. rewrite chain_txs_app in *.
    set (R := chain_txs rem) in *. set (S := chain_txs surv) in *.
    set (back := filter (λ t, negb (is_coinbase U t)) R).
    set (cbs := filter (λ t, is_coinbase U t) R).
    set (M0 := M ∪ list_to_set back).
    assert (Hback : ∀ m, m ∈ back ↔ m ∈ R ∧ is_coinbase U m = false).
    { intros m. unfold back. rewrite elem_of_list_filter.
      destruct (is_coinbase U m); simpl; naive_solver. }
    assert (Hcbs : ∀ m, m ∈ cbs ↔ m ∈ R ∧ is_coinbase U m = true).
    { intros m. unfold cbs. rewrite elem_of_list_filter.
      destruct (is_coinbase U m); simpl; naive_solver. }
    assert (HM0 : ∀ m, m ∈ M0 ↔ m ∈ M ∨ (m ∈ R ∧ is_coinbase U m = false)).
    { intros m. unfold M0. by rewrite elem_of_union, elem_of_list_to_set, Hback. }
    assert (Hsplit : ∀ m, m ∈ reorg_pool U M rem →
              (m ∈ M ∨ (m ∈ R ∧ is_coinbase U m = false)) ∧ m ∈ evict U M0 cbs).
    { intros m Hm. unfold reorg_pool in Hm. fold R back cbs M0 in Hm.
      split; [|done]. apply HM0. by eapply evict_sub. }
    apply NoDup_app in C2 as (HndS & Hdisj & HndR).
    split.
    - intros m ([Hm|[Hm _]] & _)%Hsplit; [by apply P1|]. apply C3, elem_of_app. by right.
    - intros m ([Hm|[Hm _]] & _)%Hsplit HS.
      + apply (P2 m Hm). apply elem_of_app. by left.
      + by apply (Hdisj m HS).
    - intros m ([Hm|[_ Hm]] & _)%Hsplit; [by apply P3|done].
    - intros t m op Ht ([Hm|[Hm _]] & _)%Hsplit Hop Hop'.
      + apply (P4 t m op); [apply elem_of_app; by left|done|done|done].
      + assert (t = m) as ->.
        { apply (C4 t m op); [apply elem_of_app; by left|apply elem_of_app; by right|done|done]. }
        by apply (Hdisj m Ht).
    - intros m1 m2 op ([Hm1|[Hm1 _]] & _)%Hsplit ([Hm2|[Hm2 _]] & _)%Hsplit Ho1 Ho2.
      + by eapply P5.
      + exfalso. apply (P4 m2 m1 op); [apply elem_of_app; by right|done|done|done].
      + exfalso. apply (P4 m1 m2 op); [apply elem_of_app; by right|done|done|done].
      + apply (C4 m1 m2 op); [apply elem_of_app; by right|apply elem_of_app; by right|done|done].
    - intros m op (Hm & He)%Hsplit Hop HU.
      assert (Hp : op.1 ∈ S ++ R ∨ op.1 ∈ M).
      { destruct Hm as [Hm|[Hm _]]; [by apply (P6 m op)|]. left.
        apply (pf_parent_in U (S ++ R) m op); [done|apply elem_of_app; by right|done|done]. }
      assert (HinM0 : op.1 ∈ M0 → op.1 ∈ reorg_pool U M rem).
      { intros Hin. unfold reorg_pool. fold R back cbs M0. by eapply evict_parent. }
      destruct Hp as [Hp|Hp].
      + apply elem_of_app in Hp as [Hp|Hp]; [by left|]. right.
        destruct (is_coinbase U op.1) eqn:Ecb.
        * exfalso. apply (evict_no_root_parent U M0 cbs m op He Hop). by apply Hcbs.
        * apply HinM0, HM0. by right.
      + right. apply HinM0, HM0. by left.
  Qed.

  Lemma evict_valid c M roots : pool_ok U c M → pool_ok U c (evict U M roots).
  Proof.
    intros [P1 P2 P3 P4 P5 P6]. split.
    - intros m Hm%evict_sub. by apply P1.
    - intros m Hm%evict_sub. by apply P2.
    - intros m Hm%evict_sub. by apply P3.
    - intros t m op Ht Hm%evict_sub. by apply P4.
    - intros m1 m2 op Hm1%evict_sub Hm2%evict_sub. by apply P5.
    - intros m op Hm Hop HU. destruct (P6 m op (evict_sub U _ _ _ Hm) Hop HU) as [?|Hp]; [by left|].
      right. by eapply evict_parent.
  Qed.

  Theorem nstep_valid s evs s' : nvalid U s → nstep U s evs s' → nvalid U s'.
  Proof.
    intros [Hc Hp] Hstep. destruct Hstep; try (split; simpl; assumption).
    - split; simpl; [done|]. by eapply accept_valid.
    - split; simpl; [done|]. by apply mine_valid.
    - rewrite <- (take_drop d (n_chain s)) in Hc, Hp. split; simpl.
      + by eapply chain_ok_app.
      + by apply reorg_valid.
    - split; simpl; [done|]. by apply evict_valid.
  Qed.

  Theorem nsteps_valid s evs s' : nvalid U s → nsteps U s evs s' → nvalid U s'.
  Proof.
    intros Hv Hsteps. induction Hsteps as [|s1 l1 s2 l2 s3 _ IH Hstep]; [done|].
    eapply nstep_valid; [|exact Hstep]. by apply IH.
  Qed.

  Corollary reachable_valid evs s : reachable U evs s → nvalid U s.
  Proof. apply nsteps_valid, init_valid. Qed.
End valid.

(** * The coupling between the node's chain and the wallet's facts *)

Section wallet.
  Context (U : universe).

  (** The wallet knows LESS than the node about unconfirmed transactions
      (missed [Seen], [Abandon], conflict removal) and possibly MORE (it keeps
      transactions the node has evicted), so nothing ties [f_unconf] to the
      mempool.  But every [Confirm] of a block member and every rollback is
      delivered within the transition that changes the chain: between
      transitions the confirmed facts ARE the chain.  [R] generalises
      "member of the chain" to the intermediate points of a transition. *)
  Record wcoupled (R : N → Z → N → Prop) (F : facts) : Prop := {
    wc_conf : ∀ t h bh, f_conf F !! t = Some (h, bh) ↔ R t h bh;
    wc_conf_univ : ∀ t h bh, R t h bh → is_Some (U !! t);
    wc_unconf_univ : ∀ t, t ∈ f_unconf F → is_Some (U !! t);
    wc_disjoint : ∀ t, is_Some (f_conf F !! t) → t ∉ f_unconf F;
  }.

  Definition coupled (c : list nblock) (F : facts) : Prop := wcoupled (in_chain c) F.

  Lemma wcoupled_ext R R' F :
    (∀ t h bh, R t h bh ↔ R' t h bh) → wcoupled R F → wcoupled R' F.
  Proof.
    intros HR [W1 W2 W3 W4]. split; [|  |done|done].
    - intros t h bh. by rewrite W1.
    - intros t h bh HR'. apply (W2 t h bh). by apply HR.
  Qed.

  Lemma wcoupled_same R F F' :
    f_conf F' = f_conf F → f_unconf F' = f_unconf F → wcoupled R F → wcoupled R F'.
  Proof. intros Hc Hu [W1 W2 W3 W4]. split; rewrite ?Hc, ?Hu; done. Qed.

  Lemma wcoupled_shrink R F F' :
    f_conf F' = f_conf F → f_unconf F' ⊆ f_unconf F → wcoupled R F → wcoupled R F'.
  Proof.
    intros Hc Hu [W1 W2 W3 W4]. split; rewrite ?Hc; try done.
    - intros t Ht. apply W3. by apply Hu.
    - intros t Ht Hin. apply (W4 t Ht). by apply Hu.
  Qed.

  Lemma coupled_init : coupled [] empty_facts.
  Proof.
    split; simpl.
    - intros t h bh. rewrite lookup_empty. split; [done|].
      intros (b & Hb & _). by apply elem_of_nil in Hb.
    - intros t h bh (b & Hb & _). by apply elem_of_nil in Hb.
    - set_solver.
    - intros t Ht. rewrite lookup_empty in Ht. by destruct Ht.
  Qed.

  (** ** What each event does to the coupling *)

  Lemma known_false F t : known F t = false → f_conf F !! t = None ∧ t ∉ f_unconf F.
  Proof.
    unfold known. intros [H1 H2]%orb_false_iff.
    apply bool_decide_eq_false in H1, H2. split; [|done].
    destruct (f_conf F !! t); [|done]. destruct H1. eauto.
  Qed.

  Lemma known_true F t : known F t = true → is_Some (f_conf F !! t) ∨ t ∈ f_unconf F.
  Proof.
    unfold known. intros [H|H]%orb_true_iff; apply bool_decide_eq_true in H; auto.
  Qed.

  Lemma seen_coupled R F t : is_Some (U !! t) → wcoupled R F → wcoupled R (spec_seen U F t).
  Proof.
    intros HU HW. unfold spec_seen. destruct (known F t) eqn:Hk; [done|].
    apply known_false in Hk as [Hnone Hnu]. destruct HW as [W1 W2 W3 W4]. split; simpl; try done.
    - intros t' [->%elem_of_singleton|Hin]%elem_of_union; [done|by apply W3].
    - intros t' Ht' [->%elem_of_singleton|Hin]%elem_of_union.
      + rewrite Hnone in Ht'. by destruct Ht'.
      + by apply (W4 t').
  Qed.

  Lemma confirm_new_coupled R F t h bh :
    is_Some (U !! t) → f_conf F !! t = None → wcoupled R F →
    wcoupled (fun t' h' bh' => R t' h' bh' ∨ (t' = t ∧ h' = h ∧ bh' = bh))
             (spec_confirm U F t (h, bh)).
  Proof.
    intros HU Hnone [W1 W2 W3 W4]. unfold spec_confirm. rewrite Hnone.
    set (F1 := {| f_conf := <[t:=(h, bh)]> (f_conf F); f_unconf := f_unconf F ∖ {[t]};
                  f_leases := _ |}).
    set (cf := filter _ _).
    assert (Hsub : ∀ c, c ∈ f_unconf (remove_unconf_with_descendants U F1 cf) →
                        c ∈ f_unconf F ∧ c ≠ t).
    { intros c [Hc _]%rm_unconf_elem. simpl in Hc. apply elem_of_difference in Hc as [Hc Hne].
      split; [done|]. intros ->. apply Hne. by apply elem_of_singleton. }
    split.
    - intros t' h' bh'. rewrite rm_conf. simpl. rewrite lookup_insert_Some. split.
      + intros [[<- Heq]|[Hne Hl]]; [right; by inversion Heq|left; by apply W1].
      + intros [HR|(-> & -> & ->)]; [|by left]. right. apply W1 in HR.
        split; [|done]. intros ->. congruence.
    - intros t' h' bh' [HR|(-> & _)]; [by eapply W2|done].
    - intros c [Hc _]%Hsub. by apply W3.
    - intros t' Ht' [Hc Hne]%Hsub. rewrite rm_conf in Ht'. simpl in Ht'.
      rewrite lookup_insert_ne in Ht' by done. by apply (W4 t').
  Qed.

  Lemma confirm_again F t b : is_Some (f_conf F !! t) → spec_confirm U F t b = F.
  Proof. intros [b' Hb]. unfold spec_confirm. by rewrite Hb. Qed.

  Lemma spec_disconnect_rm F h :
    spec_disconnect U F h = remove_unconf_with_descendants U (disc_F1 U F h) (disc_cb U F h).
  Proof. reflexivity. Qed.

  Lemma disconnect_coupled R F h :
    wcoupled R F → wcoupled (fun t h' bh' => R t h' bh' ∧ h' < h) (spec_disconnect U F h).
  Proof.
    intros [W1 W2 W3 W4]. rewrite spec_disconnect_rm. split.
    - intros t h' bh'. rewrite rm_conf, disc_conf_lookup, W1. split; intros [? ?]; split; try done; lia.
    - intros t h' bh' [HR _]. by eapply W2.
    - intros t [Ht _]%rm_unconf_elem. apply disc_unconf_elem in Ht as [Ht|[(hh & bh & Hc & _) _]].
      + by apply W3.
      + apply W1 in Hc. by eapply W2.
    - intros t [[h' bh'] Ht] [Hu _]%rm_unconf_elem. rewrite rm_conf in Ht.
      apply disc_conf_lookup in Ht as [Ht Hlt].
      apply disc_unconf_elem in Hu as [Hu|[(hh & bh & Hc & Hle) _]].
      + apply (W4 t); [by rewrite Ht|done].
      + rewrite Ht in Hc. inversion Hc; subst. lia.
  Qed.

  (** a rollback above every confirmed height changes nothing *)
  Lemma spec_disconnect_noop F h :
    (∀ t h' bh', f_conf F !! t = Some (h', bh') → h' < h) → spec_disconnect U F h = F.
  Proof.
    intros Hall. rewrite spec_disconnect_rm.
    assert (Hcb : disc_cb U F h = []).
    { apply elem_of_nil_inv. intros t [(hh & bh & Hc & Hle) _]%disc_cb_elem.
      specialize (Hall _ _ _ Hc). lia. }
    rewrite Hcb, rm_nil. apply facts_eq; [| |done].
    - simpl. apply map_filter_id. intros t [h' bh'] Hc. simpl. specialize (Hall _ _ _ Hc). lia.
    - apply leibniz_equiv. intros t. rewrite disc_unconf_elem. split; [|by left].
      intros [?|[(hh & bh & Hc & Hle) _]]; [done|]. specialize (Hall _ _ _ Hc). lia.
  Qed.

  Lemma abandon_coupled R F t : wcoupled R F → wcoupled R (spec_abandon U F t).
  Proof.
    apply wcoupled_shrink; [done|]. unfold spec_abandon. apply rm_unconf_subseteq.
  Qed.

  Lemma spec_lease_conf F id op dur now k :
    f_conf (spec_lease F id op dur now k) = f_conf F ∧
    f_unconf (spec_lease F id op dur now k) = f_unconf F.
  Proof. unfold spec_lease. repeat case_match; done. Qed.

  Lemma spec_release_conf F id op now k :
    f_conf (spec_release F id op now k) = f_conf F ∧
    f_unconf (spec_release F id op now k) = f_unconf F.
  Proof. unfold spec_release. repeat case_match; done. Qed.

  (** ** [event_ok] for what the node emits *)

  Lemma forallb_conf_list F (f : N → bool) :
    (∀ t b, f_conf F !! t = Some b → f t = true) → forallb f (conf_list F) = true.
  Proof.
    intros H. apply forallb_forall. intros t Hin%elem_of_list_In. unfold conf_list in Hin.
    apply elem_of_list_fmap in Hin as ([t' b] & -> & Hel%elem_of_map_to_list). eauto.
  Qed.

  Lemma height_hash_ok_intro F h bhash :
    (∀ t bh', f_conf F !! t = Some (h, bh') → bh' = bhash) → height_hash_ok F h bhash = true.
  Proof.
    intros H. apply forallb_forall. intros [t [h' bh']] Hin%elem_of_list_In%elem_of_map_to_list.
    simpl. case_bool_decide as Hh; simpl; [|done]. subst h'. apply bool_decide_eq_true. eauto.
  Qed.

  Lemma seen_ok c M F t :
    chain_ok U c → pool_ok U c M → coupled c F → t ∈ M → event_ok U F (Seen t) = true.
  Proof.
    intros [C1 C2 C3 C4 C5 C6] [P1 P2 P3 P4 P5 P6] [W1 W2 W3 W4] Ht. simpl.
    destruct (P1 t Ht) as [x Hx]. rewrite Hx.
    pose proof (P3 t Ht) as Hcb. rewrite (is_coinbase_lookup U t x Hx) in Hcb. rewrite Hcb. simpl.
    apply orb_true_iff. right. apply forallb_conf_list. intros c' [h bh] Hc'.
    apply W1, in_chain_txs in Hc'. apply andb_true_iff. split; apply negb_true_iff.
    - destruct (shares_input U t c') eqn:Hsh; [|done]. exfalso.
      apply shares_input_true in Hsh as [_ (op & Ho1 & Ho2)]. by apply (P4 c' t op).
    - destruct (spends_output_of U c' t) eqn:Hsp; [|done]. exfalso.
      apply spends_output_of_true in Hsp as (op & Hop & Heq).
      apply (P2 t Ht). rewrite <- Heq. apply (pf_parent_in U _ c' op); [done|done|done|].
      rewrite Heq. by apply P1.
  Qed.

  Lemma stale_seen_ok c F t x :
    chain_ok U c → coupled c F → U !! t = Some x → t_coinbase x = false →
    t ∉ chain_txs c → (∀ op c', op ∈ t_ins x → c' ∈ chain_txs c → op ∉ tx_ins U c') →
    event_ok U F (Seen t) = true.
  Proof.
    intros [C1 C2 C3 C4 C5 C6] [W1 W2 W3 W4] Hx Hcb Htc Hins. simpl. rewrite Hx, Hcb. simpl.
    apply orb_true_iff. right. apply forallb_conf_list. intros c' [h bh] Hc'.
    apply W1, in_chain_txs in Hc'. apply andb_true_iff. split; apply negb_true_iff.
    - destruct (shares_input U t c') eqn:Hsh; [|done]. exfalso.
      apply shares_input_true in Hsh as [_ (op & Ho1 & Ho2)].
      rewrite (tx_ins_lookup U t x Hx) in Ho1. by apply (Hins op c').
    - destruct (spends_output_of U c' t) eqn:Hsp; [|done]. exfalso.
      apply spends_output_of_true in Hsp as (op & Hop & Heq).
      apply Htc. rewrite <- Heq. apply (pf_parent_in U _ c' op); [done|done|done|].
      by rewrite Heq, Hx.
  Qed.

  (** a notification that repeats an existing confirmation *)
  Lemma confirm_again_ok R F t h bh bt :
    wcoupled R F → R t h bh → 0 <= h → (∀ t' bh', R t' h bh' → bh' = bh) →
    event_ok U F (Confirm t h bh bt) = true ∧ spec_confirm U F t (h, bh) = F.
  Proof.
    intros [W1 W2 W3 W4] HR Hh Hfun.
    pose proof (proj2 (W1 t h bh) HR) as Hc. split; [|apply confirm_again; by rewrite Hc].
    simpl. destruct (W2 t h bh HR) as [x Hx]. rewrite Hx, Hc.
    rewrite !andb_true_iff. repeat split.
    - by apply bool_decide_eq_true.
    - apply height_hash_ok_intro. intros t' bh' Hc'. apply (Hfun t'). by apply W1.
    - by apply bool_decide_eq_true.
  Qed.

  (** the wallet while the members of a new block are being delivered: the
      old chain plus the prefix [l1] of the block *)
  Definition Rmid (c : list nblock) (blk : nblock) (l1 : list N) : N → Z → N → Prop :=
    fun t h bh => in_chain c t h bh ∨ (t ∈ l1 ∧ h = nb_height blk ∧ bh = nb_hash blk).

  Lemma Rmid_fun c blk l1 t bh :
    chain_sorted (blk :: c) → Rmid c blk l1 t (nb_height blk) bh → bh = nb_hash blk.
  Proof.
    intros [Hlt Hs] [Hin|(_ & _ & ->)]; [|done].
    apply (in_chain_height c _ _ _ Hs) in Hin. lia.
  Qed.

  Lemma confirm_new_ok c blk l1 t l2 F bt :
    chain_ok U (blk :: c) → nb_txs blk = l1 ++ t :: l2 → wcoupled (Rmid c blk l1) F →
    f_conf F !! t = None ∧ is_Some (U !! t) ∧
    event_ok U F (Confirm t (nb_height blk) (nb_hash blk) bt) = true.
  Proof.
    intros [C1 C2 C3 C4 C5 C6] Hblk [W1 W2 W3 W4]. simpl in C2, C3, C4, C5.
    rewrite Hblk, app_assoc in C2, C3, C4, C5.
    set (P := chain_txs c ++ l1) in *.
    pose proof C1 as [Hlt Hs]. pose proof (tip_height_ge c Hs) as Htip.
    assert (HRP : ∀ t' h' bh', Rmid c blk l1 t' h' bh' → t' ∈ P ∧ h' <= nb_height blk).
    { intros t' h' bh' [Hin|(Hin & -> & _)].
      - split; [apply elem_of_app; left; by eapply in_chain_txs|].
        apply (in_chain_height c _ _ _ Hs) in Hin. lia.
      - split; [apply elem_of_app; by right|lia]. }
    assert (HPR : ∀ t', t' ∈ P → ∃ h' bh', Rmid c blk l1 t' h' bh').
    { intros t' [Hin|Hin]%elem_of_app.
      - destruct (chain_txs_in c t' Hin) as (h' & bh' & ?). exists h', bh'. by left.
      - exists (nb_height blk), (nb_hash blk). by right. }
    assert (HtP : t ∉ P).
    { intros Hin. apply NoDup_app in C2 as (_ & Hdisj & _). apply (Hdisj t Hin). by left. }
    assert (Hfull : t ∈ P ++ t :: l2) by (apply elem_of_app; right; by left).
    assert (Hnone : f_conf F !! t = None).
    { destruct (f_conf F !! t) as [[h' bh']|] eqn:Hc; [|done].
      apply W1, HRP in Hc as [? _]. done. }
    pose proof (C3 t Hfull) as HUt.
    split; [done|]. split; [done|]. destruct HUt as [x Hx].
    simpl. rewrite Hx, Hnone. rewrite !andb_true_iff. repeat split.
    - apply bool_decide_eq_true. lia.
    - apply height_hash_ok_intro. intros t' bh' Hc'. apply W1 in Hc'. by eapply Rmid_fun.
    - apply forallb_conf_list. intros c' [h' bh'] Hc'. apply W1, HRP in Hc' as [Hc' _].
      apply negb_true_iff. destruct (shares_input U t c') eqn:Hsh; [|done]. exfalso.
      apply shares_input_true in Hsh as [Hne (op & Ho1 & Ho2)]. apply Hne.
      apply (C4 t c' op); [done|apply elem_of_app; by left|done|done].
    - apply forallb_conf_list. intros c' [h' bh'] Hc'. apply W1, HRP in Hc' as [Hc' _].
      apply negb_true_iff. destruct (spends_output_of U c' t) eqn:Hsp; [|done]. exfalso.
      apply spends_output_of_true in Hsp as (op & Hop & Heq).
      apply (pf_no_later_parent U P (t :: l2) c' t op); [done|done|done|by left|by rewrite Hx|done|done].
    - apply forallb_forall. intros op Hop%elem_of_list_In.
      destruct (known F op.1) eqn:Hk; simpl; [|done].
      assert (HUp : is_Some (U !! op.1)).
      { apply known_true in Hk as [[[h' bh'] Hc]|Hu]; [|by apply W3].
        apply W1 in Hc. by eapply W2. }
      assert (HpP : op.1 ∈ P).
      { apply (C5 P t l2 op); [done| |done]. by rewrite (tx_ins_lookup U t x Hx). }
      destruct (HPR _ HpP) as (h' & bh' & HR). pose proof (HRP _ _ _ HR) as [_ Hle].
      apply W1 in HR. rewrite HR. by apply bool_decide_eq_true.
  Qed.

  Lemma consistent_from_app_eq w l1 l2 :
    consistent_from U w (l1 ++ l2) =
    consistent_from U w l1 && consistent_from U (foldl (spec_step U) w l1) l2.
  Proof.
    revert w. induction l1 as [|e l1 IH]; intros w; simpl; [done|].
    by rewrite IH, andb_assoc.
  Qed.

  Lemma sstate_eta (w : sstate) : {| fs := fs w; sclock := sclock w |} = w.
  Proof. by destruct w. Qed.

  (** repeated deliveries of a confirmation the wallet already has *)
  Lemma replicate_confirm_ok R w t h bh bt k :
    wcoupled R (fs w) → R t h bh → 0 <= h → (∀ t' bh', R t' h bh' → bh' = bh) →
    consistent_from U w (replicate k (Confirm t h bh bt)) = true ∧
    foldl (spec_step U) w (replicate k (Confirm t h bh bt)) = w.
  Proof.
    intros HW HR Hh Hfun. induction k as [|k [IH1 IH2]]; [done|].
    destruct (confirm_again_ok R (fs w) t h bh bt HW HR Hh Hfun) as [Hok Heq].
    cbn [replicate consistent_from foldl spec_step].
    rewrite Hok, Heq, sstate_eta. simpl. done.
  Qed.

  Lemma confirm_seq_ok c blk :
    chain_ok U (blk :: c) →
    ∀ l2 evs, confirm_seq blk l2 evs →
    ∀ l1 w, nb_txs blk = l1 ++ l2 → wcoupled (Rmid c blk l1) (fs w) →
      consistent_from U w evs = true ∧
      wcoupled (Rmid c blk (l1 ++ l2)) (fs (foldl (spec_step U) w evs)).
  Proof.
    intros Hc l2 evs Hseq.
    induction Hseq as [|t l k evs Hseq IH]; intros l1 w Hblk HW.
    - simpl. by rewrite app_nil_r.
    - pose proof (co_sorted U _ Hc) as Hsorted. pose proof Hsorted as [Hlt Hs].
      pose proof (tip_height_ge c Hs) as Htip.
      set (e := Confirm t (nb_height blk) (nb_hash blk) (nb_time blk)).
      destruct (confirm_new_ok c blk l1 t l (fs w) (nb_time blk) Hc Hblk HW) as (Hnone & HUt & Hok).
      fold e in Hok. set (w1 := spec_step U w e).
      assert (HW1 : wcoupled (Rmid c blk (l1 ++ [t])) (fs w1)).
      { unfold w1. simpl.
        eapply wcoupled_ext; [|apply (confirm_new_coupled _ (fs w) t (nb_height blk) (nb_hash blk) HUt Hnone HW)].
        intros t' h' bh'. unfold Rmid. rewrite elem_of_app, elem_of_list_singleton. naive_solver. }
      assert (HRt : Rmid c blk (l1 ++ [t]) t (nb_height blk) (nb_hash blk)).
      { right. split; [|done]. apply elem_of_app. right. by left. }
      destruct (replicate_confirm_ok _ w1 t (nb_height blk) (nb_hash blk) (nb_time blk) k HW1 HRt) as [Hrep1 Hrep2].
      { lia. }
      { intros t' bh'. by apply Rmid_fun. }
      change (replicate (S k) e ++ evs) with (e :: (replicate k e ++ evs)).
      cbn [consistent_from foldl]. fold w1. rewrite Hok. simpl.
      rewrite consistent_from_app_eq, foldl_app. fold e in Hrep1, Hrep2. rewrite Hrep1, Hrep2. simpl.
      destruct (IH (l1 ++ [t]) w1) as [IH1 IH2].
      { by rewrite <- app_assoc. }
      { done. }
      split; [done|]. by rewrite <- app_assoc in IH2.
  Qed.

  Lemma disconnects_ok hs :
    ∀ R w, Forall (fun h => 0 <= h) hs → wcoupled R (fs w) →
      consistent_from U w (map Disconnect hs) = true ∧
      wcoupled (fun t h' bh' => R t h' bh' ∧ Forall (fun h => h' < h) hs)
               (fs (foldl (spec_step U) w (map Disconnect hs))).
  Proof.
    induction hs as [|h hs IH]; intros R w Hpos HW; simpl.
    - split; [done|]. eapply wcoupled_ext; [|exact HW]. intros t h' bh'. split; [|tauto].
      intros HR. split; [done|constructor].
    - apply Forall_cons in Hpos as [Hh Hpos].
      destruct (IH _ (spec_step U w (Disconnect h)) Hpos (disconnect_coupled R (fs w) h HW)) as [IH1 IH2].
      split.
      + apply andb_true_iff. split; [by apply bool_decide_eq_true|done].
      + eapply wcoupled_ext; [|exact IH2]. intros t h' bh'. simpl. rewrite Forall_cons. tauto.
  Qed.

  Lemma sorted_height_inj c b1 b2 :
    chain_sorted c → b1 ∈ c → b2 ∈ c → nb_height b1 = nb_height b2 → b1 = b2.
  Proof.
    induction c as [|x c IH]; simpl; [by intros _ ?%elem_of_nil|].
    intros [Hlt Hs] H1 H2 Heq.
    apply elem_of_cons in H1 as [->|H1]; apply elem_of_cons in H2 as [->|H2]; try done.
    - pose proof (sorted_le_tip c b2 Hs H2). lia.
    - pose proof (sorted_le_tip c b1 Hs H1). lia.
    - by apply IH.
  Qed.
End wallet.

(** * Every transition emits consistent events and re-establishes the coupling *)

Section main.
  Context (U : universe).

  Lemma nstep_wallet s evs s' :
    nstep U s evs s' → n_w s' = foldl (spec_step U) (n_w s) evs.
  Proof. intros H. destruct H; reflexivity. Qed.

  Lemma in_chain_app a b t h bh : in_chain (a ++ b) t h bh ↔ in_chain a t h bh ∨ in_chain b t h bh.
  Proof.
    unfold in_chain. split.
    - intros (x & [Hx|Hx]%elem_of_app & Hrest); [left|right]; eauto.
    - intros [(x & Hx & Hrest)|(x & Hx & Hrest)]; exists x; (split; [|done]); apply elem_of_app; auto.
  Qed.

  (** the rollback heights of a reorg are non-negative and leave exactly the
      surviving blocks *)
  Lemma disc_ok_spec rem surv hs :
    chain_sorted (rem ++ surv) → disc_ok rem surv hs →
    Forall (fun h => 0 <= h) hs ∧
    ∀ t h' bh', (in_chain (rem ++ surv) t h' bh' ∧ Forall (fun h => h' < h) hs) ↔ in_chain surv t h' bh'.
  Proof.
    intros Hs [Hall Hex]. apply chain_sorted_app in Hs as [Hss Hrem].
    pose proof (tip_height_ge surv Hss) as Htip. split.
    - eapply Forall_impl; [exact Hall|]. simpl. intros h Hh. lia.
    - intros t h' bh'. rewrite in_chain_app. split.
      + intros [[(b & Hb & _ & <- & _)|Hin] Hlt]; [|done]. exfalso.
        apply Exists_exists in Hex as (h & Hh & Hle).
        pose proof (proj1 (Forall_forall _ _) Hle b Hb) as Hle'.
        pose proof (proj1 (Forall_forall _ _) Hlt h Hh) as Hlt'. simpl in *. lia.
      + intros Hin. split; [by right|]. apply (in_chain_height surv _ _ _ Hss) in Hin.
        eapply Forall_impl; [exact Hall|]. simpl. intros h Hh. lia.
  Qed.

  Lemma nstep_coupled s evs s' :
    nvalid U s → coupled U (n_chain s) (fs (n_w s)) → nstep U s evs s' →
    consistent_from U (n_w s) evs = true ∧ coupled U (n_chain s') (fs (n_w s')).
  Proof.
    intros Hv HW Hstep. pose proof (nstep_valid U s evs s' Hv Hstep) as Hv'.
    destruct Hv as [Hc Hp].
    destruct Hstep as [s t x announce Hx Hcb Htc HtM Hins|s blk evs Hblk Hfresh Hseq|s d hs Hd Hdisc
                      |s t Ht|s t Ht|s t x Hx Hcb Hst|s b t Hb Ht|s h Hh|s t Ht|s t ob Hok|s id op dur Hdur
                      |s id op|s dt Hdt|s]; cbn [n_chain n_pool n_w] in *.
    - (* accept *)
      destruct announce; [|done]. destruct Hv' as [Hc' Hp']. cbn [n_chain n_pool] in Hc', Hp'.
      split.
      + cbn [consistent_from]. rewrite andb_true_r.
        apply (seen_ok U _ _ _ t Hc' Hp' HW). unfold accept_pool. set_solver.
      + cbn. apply seen_coupled; [by rewrite Hx|done].
    - (* mine *)
      destruct (confirm_seq_ok U (n_chain s) blk Hblk (nb_txs blk) evs Hseq [] (n_w s)) as [H1 H2].
      { done. }
      { eapply wcoupled_ext; [|exact HW]. intros t h bh. unfold Rmid. split; [by left|].
        intros [?|(Hin & _)]; [done|]. by apply elem_of_nil in Hin. }
      split; [done|]. unfold wallet_after. eapply wcoupled_ext; [|exact H2].
      intros t h bh. rewrite in_chain_cons. unfold Rmid. simpl. tauto.
    - (* reorg *)
      pose proof (co_sorted U _ Hc) as Hs. rewrite <- (take_drop d (n_chain s)) in Hs, HW.
      destruct (disc_ok_spec _ _ hs Hs Hdisc) as [Hpos Hiff].
      destruct (disconnects_ok U hs _ (n_w s) Hpos HW) as [H1 H2].
      split; [done|]. unfold wallet_after. eapply wcoupled_ext; [|exact H2]. exact Hiff.
    - (* expire *) done.
    - (* reannounce *)
      split.
      + cbn [consistent_from]. rewrite andb_true_r. by apply (seen_ok U _ _ _ t Hc Hp HW).
      + cbn. apply seen_coupled; [|done]. by apply (po_univ U _ _ Hp).
    - (* stale seen *)
      split.
      + cbn [consistent_from]. rewrite andb_true_r.
        destruct Hst as [Hk|[Htc Hins]]; [cbn; by rewrite Hx, Hcb, Hk|].
        by apply (stale_seen_ok U (n_chain s) (fs (n_w s)) t x).
      + cbn. apply seen_coupled; [by rewrite Hx|done].
    - (* reconfirm *)
      pose proof (co_sorted U _ Hc) as Hs.
      destruct (confirm_again_ok U _ (fs (n_w s)) t (nb_height b) (nb_hash b) (nb_time b) HW) as [H1 H2].
      { exists b. done. }
      { by apply (sorted_le_tip _ b Hs). }
      { intros t' bh' (b' & Hb' & _ & Hh & <-).
        by rewrite (sorted_height_inj _ b' b Hs Hb' Hb Hh). }
      split.
      + cbn [consistent_from]. by rewrite H1.
      + cbn. by rewrite H2.
    - (* stale disconnect *)
      pose proof (co_sorted U _ Hc) as Hs. pose proof (tip_height_ge _ Hs) as Htip.
      assert (Hpos : Forall (fun h => 0 <= h) [h]) by (constructor; [lia|constructor]).
      destruct (disconnects_ok U [h] _ (n_w s) Hpos HW) as [H1 H2].
      split; [done|]. unfold wallet_after. eapply wcoupled_ext; [|exact H2].
      intros t h' bh'. split; [tauto|]. intros Hin. split; [done|].
      apply (in_chain_height _ _ _ _ Hs) in Hin. constructor; [lia|constructor].
    - (* abandon *)
      split.
      + cbn. rewrite andb_true_r. by apply bool_decide_eq_true.
      + cbn. by apply abandon_coupled.
    - (* redeliver *)
      split; [|done]. cbn [consistent_from]. by rewrite Hok.
    - (* lease *)
      split.
      + cbn. rewrite andb_true_r. by apply bool_decide_eq_true.
      + cbn. destruct (spec_lease_conf (fs (n_w s)) id op dur (sclock (n_w s))
                         (known_output U (fs (n_w s)) op)) as [E1 E2].
        by eapply wcoupled_same.
    - (* release *)
      split; [done|]. cbn.
      destruct (spec_release_conf (fs (n_w s)) id op (sclock (n_w s))
                  (known_output U (fs (n_w s)) op)) as [E1 E2].
      by eapply wcoupled_same.
    - (* tick *)
      split; [|done]. cbn. rewrite andb_true_r. by apply bool_decide_eq_true.
    - (* sweep *)
      split; [done|]. cbn. by apply (wcoupled_same U _ (fs (n_w s))).
  Qed.

  Lemma nsteps_coupled s1 evs s2 :
    nsteps U s1 evs s2 → nvalid U s1 → coupled U (n_chain s1) (fs (n_w s1)) →
    consistent_from U (n_w s1) evs = true ∧
    coupled U (n_chain s2) (fs (n_w s2)) ∧
    n_w s2 = foldl (spec_step U) (n_w s1) evs.
  Proof.
    intros Hsteps Hv HW. induction Hsteps as [|s1 l1 s2 l2 s3 Hsteps IH Hstep]; [done|].
    destruct (IH Hv HW) as (IH1 & IH2 & IH3).
    pose proof (nsteps_valid U _ _ _ Hv Hsteps) as Hv2.
    destruct (nstep_coupled _ _ _ Hv2 IH2 Hstep) as [H1 H2].
    rewrite consistent_from_app_eq, foldl_app, <- IH3, IH1, H1.
    split; [done|]. split; [done|]. by apply nstep_wallet.
  Qed.

  (** The invariant of every reachable state: the node state is valid, the
      ghost wallet state is the spec run of the emitted events, the wallet's
      confirmed facts are exactly the chain, and the events are consistent. *)
  Theorem reachable_inv evs s :
    reachable U evs s →
    nvalid U s ∧ n_w s = spec_run U evs ∧
    coupled U (n_chain s) (fs (spec_run U evs)) ∧
    chain_consistent U evs = true.
  Proof.
    intros Hr. destruct (nsteps_coupled _ _ _ Hr (init_valid U)) as (H1 & H2 & H3).
    { apply coupled_init. }
    split; [by eapply reachable_valid|]. split; [exact H3|].
    split; [|exact H1]. change (spec_run U evs) with (foldl (spec_step U) (n_w init_nstate) evs).
    by rewrite <- H3.
  Qed.
End main.

(** * Main theorem: the node only emits chain-consistent histories *)

Theorem node_emits_consistent : ∀ U evs,
  wf_universe U = true → emits U evs → chain_consistent U evs = true.
Proof. intros U evs _ [s Hr]. by apply (reachable_inv U evs s). Qed.

(** * The executable node is sound: every successful [exec] is a transition *)

Section exec_sound.
  Context (U : universe).

  Lemma sorted_b_sound c : sorted_b c = true → chain_sorted c.
  Proof.
    induction c as [|b c IH]; simpl; [done|].
    intros [H1 H2]%andb_true_iff. apply bool_decide_eq_true in H1. split; [done|by apply IH].
  Qed.

  Lemma nds_b_sound l : nds_b U l = true → no_double_spend U l.
  Proof.
    unfold nds_b. intros H t1 t2 op H1 H2 Ho1 Ho2.
    rewrite forallb_forall in H. apply elem_of_list_In in H1, H2, Ho1.
    specialize (H t1 H1). rewrite forallb_forall in H. specialize (H t2 H2).
    rewrite forallb_forall in H. specialize (H op Ho1).
    apply orb_true_iff in H as [H|H]; [|by apply bool_decide_eq_true in H].
    apply negb_true_iff in H. unfold spends in H. apply bool_decide_eq_false in H. done.
  Qed.

  Lemma pf_b_sound l : ∀ pre, pf_b U pre l = true →
    ∀ l1 t l2 op, l = l1 ++ t :: l2 → op ∈ tx_ins U t → is_Some (U !! op.1) → op.1 ∈ pre ++ l1.
  Proof.
    induction l as [|t0 l IH]; intros pre Hb l1 t l2 op Heq Hop HU.
    - by destruct l1.
    - simpl in Hb. apply andb_true_iff in Hb as [Hb1 Hb2].
      destruct l1 as [|t1 l1]; simpl in Heq; inversion Heq; subst.
      + rewrite app_nil_r. rewrite forallb_forall in Hb1.
        apply elem_of_list_In in Hop. specialize (Hb1 op Hop).
        apply orb_true_iff in Hb1 as [Hb1|Hb1]; [|by apply bool_decide_eq_true in Hb1].
        apply negb_true_iff, bool_decide_eq_false in Hb1. done.
      + specialize (IH (pre ++ [t1]) Hb2 l1 t l2 op eq_refl Hop HU).
        by rewrite <- app_assoc in IH.
  Qed.

  Lemma block_cb_b_sound b : block_cb_b U b = true → block_cb_ok U b.
  Proof.
    unfold block_cb_b. intros Hb l1 t l2 Heq Hcb. destruct l1 as [|t1 l1]; [done|]. exfalso.
    rewrite Heq in Hb. simpl in Hb. rewrite forallb_forall in Hb.
    assert (Hin : In t (l1 ++ t :: l2)) by (apply in_or_app; right; by left).
    specialize (Hb t Hin). by rewrite Hcb in Hb.
  Qed.

  Lemma chain_ok_b_sound c : chain_ok_b U c = true → chain_ok U c.
  Proof.
    unfold chain_ok_b. rewrite !andb_true_iff. intros [[[[[H1 H2] H3] H4] H5] H6]. split.
    - by apply sorted_b_sound.
    - by apply bool_decide_eq_true in H2.
    - intros t Ht%elem_of_list_In. rewrite forallb_forall in H3.
      specialize (H3 t Ht). by apply bool_decide_eq_true in H3.
    - by apply nds_b_sound.
    - intros l1 t l2 op Heq Hop HU. apply (pf_b_sound _ [] H5 l1 t l2 op Heq Hop HU).
    - apply Forall_forall. intros b Hb%elem_of_list_In. rewrite forallb_forall in H6.
      apply block_cb_b_sound. by apply H6.
  Qed.

  Lemma accept_ok_b_sound c M t :
    accept_ok_b U c M t = true →
    ∃ x, U !! t = Some x ∧ t_coinbase x = false ∧ t ∉ chain_txs c ∧ t ∉ M ∧
      (∀ op, op ∈ t_ins x →
         (∀ c', c' ∈ chain_txs c → op ∉ tx_ins U c') ∧
         (is_Some (U !! op.1) → op.1 ∈ chain_txs c ∨ op.1 ∈ evict U M (conflicting U [t] M))).
  Proof.
    unfold accept_ok_b. destruct (U !! t) as [x|]; [|done].
    rewrite !andb_true_iff. intros [[[H1 H2] H3] H4]. exists x.
    apply negb_true_iff in H1. apply bool_decide_eq_true in H2, H3.
    repeat split; try done.
    - intros c' Hc'%elem_of_list_In. rewrite forallb_forall in H4.
      apply elem_of_list_In in H. specialize (H4 op H). apply andb_true_iff in H4 as [H4 _].
      rewrite forallb_forall in H4. specialize (H4 c' Hc').
      apply negb_true_iff in H4. unfold spends in H4. by apply bool_decide_eq_false in H4.
    - intros HU. rewrite forallb_forall in H4.
      apply elem_of_list_In in H. specialize (H4 op H). apply andb_true_iff in H4 as [_ H4].
      rewrite !orb_true_iff in H4. destruct H4 as [[H4|H4]|H4].
      + apply negb_true_iff, bool_decide_eq_false in H4. done.
      + left. by apply bool_decide_eq_true in H4.
      + right. by apply bool_decide_eq_true in H4.
  Qed.

  Lemma confirm_evs_seq blk l : ∀ reps, confirm_seq blk l (confirm_evs blk l reps).
  Proof.
    induction l as [|t l IH]; intros reps; cbn [confirm_evs]; [constructor|].
    apply cs_cons. apply IH.
  Qed.

  Lemma exec_sound s a s' evs : exec U s a = Some (s', evs) → nstep U s evs s'.
  Proof.
    destruct a as [t announce|blk reps|d hs|t|t|t|i t|h|e]; cbn [exec].
    - destruct (accept_ok_b U (n_chain s) (n_pool s) t) eqn:Hok; [|done].
      intros [= <- <-]. apply accept_ok_b_sound in Hok as (x & Hx & Hcb & Htc & HtM & Hins).
      by eapply ns_accept.
    - destruct (chain_ok_b U (blk :: n_chain s) && _) eqn:Hok; [|done].
      intros [= <- <-]. apply andb_true_iff in Hok as [Hok Hfresh].
      apply bool_decide_eq_true in Hfresh. apply ns_mine; [by apply chain_ok_b_sound|done|].
      apply confirm_evs_seq.
    - destruct (bool_decide _ && bool_decide _) eqn:Hok; [|done].
      intros [= <- <-]. apply andb_true_iff in Hok as [Hd Hdisc].
      apply bool_decide_eq_true in Hd, Hdisc. by apply ns_reorg.
    - case_bool_decide as Ht; [|done]. intros [= <- <-]. by apply ns_expire.
    - case_bool_decide as Ht; [|done]. intros [= <- <-]. by apply ns_reannounce.
    - destruct (U !! t) as [x|] eqn:Hx; [|done].
      destruct (negb (t_coinbase x) && _) eqn:Hok; [|done]. intros [= <- <-].
      apply andb_true_iff in Hok as [Hcb Hok]. apply negb_true_iff in Hcb.
      apply (ns_stale_seen U s t x Hx Hcb).
      apply orb_true_iff in Hok as [Hk|Hok]; [by left|right].
      apply andb_true_iff in Hok as [Htc Hins]. apply bool_decide_eq_true in Htc.
      split; [done|]. intros op c Hop%elem_of_list_In Hc%elem_of_list_In.
      rewrite forallb_forall in Hins. specialize (Hins op Hop).
      rewrite forallb_forall in Hins. specialize (Hins c Hc).
      apply negb_true_iff in Hins. unfold spends in Hins. by apply bool_decide_eq_false in Hins.
    - destruct (n_chain s !! i) as [b|] eqn:Hb; [|done].
      case_bool_decide as Ht; [|done]. intros [= <- <-].
      apply ns_reconfirm; [by eapply elem_of_list_lookup_2|done].
    - case_bool_decide as Hh; [|done]. intros [= <- <-]. by apply ns_stale_disconnect.
    - destruct (wallet_event_ok U (fs (n_w s)) e) eqn:Hok; [|done]. intros [= <- <-].
      destruct e as [t|t h b bt|h|t|id op dur|id op|dt| |t ob]; simpl in Hok; try done.
      + apply ns_abandon. by apply bool_decide_eq_true in Hok.
      + apply ns_lease. by apply bool_decide_eq_true in Hok.
      + apply ns_release.
      + apply ns_tick. by apply bool_decide_eq_true in Hok.
      + apply ns_sweep.
      + by apply ns_redeliver.
  Qed.

  Lemma nsteps_cons s1 l1 s2 l2 s3 :
    nstep U s1 l1 s2 → nsteps U s2 l2 s3 → nsteps U s1 (l1 ++ l2) s3.
  Proof.
    intros Hstep Hsteps. induction Hsteps as [s2|s2 la s3 lb s4 Hsteps IH Hlast].
    - rewrite app_nil_r. apply (nsteps_step U s1 [] s1 l1 s2); [constructor|done].
    - rewrite app_assoc. eapply nsteps_step; [by apply IH|done].
  Qed.

  Lemma exec_all_sound acts : ∀ s s' evs,
    exec_all U s acts = Some (s', evs) → nsteps U s evs s'.
  Proof.
    induction acts as [|a acts IH]; intros s s' evs; cbn [exec_all].
    - intros [= <- <-]. constructor.
    - destruct (exec U s a) as [[s1 l1]|] eqn:Hex; [|done].
      destruct (exec_all U s1 acts) as [[s2 l2]|] eqn:Hall; [|done].
      intros [= <- <-]. eapply nsteps_cons; [eapply exec_sound; exact Hex|by apply IH].
  Qed.

  Corollary exec_all_emits acts s evs :
    exec_all U init_nstate acts = Some (s, evs) → emits U evs.
  Proof. intros H. exists s. eapply exec_all_sound. exact H. Qed.
End exec_sound.

(** * Restricted nodes

    The node of [Node.v] is deliberately liberal (no fee policy, no mempool
    limits, no coinbase maturity rule).  Any node whose transitions can be
    simulated by finitely many transitions of this one emitting the same
    events - e.g. one that additionally refuses immature coinbase spends and,
    after a reorg, evicts the mempool transactions that became immature
    ([ns_reorg] followed by [ns_expire]s) - emits only consistent histories
    as well. *)

Section restricted.
  Context (U : universe).

  Lemma nsteps_app s1 l1 s2 l2 s3 :
    nsteps U s1 l1 s2 → nsteps U s2 l2 s3 → nsteps U s1 (l1 ++ l2) s3.
  Proof.
    intros H1 H2. induction H2 as [s2|s2 la s3 lb s4 H2 IH Hlast].
    - by rewrite app_nil_r.
    - rewrite app_assoc. eapply nsteps_step; [by apply IH|done].
  Qed.

  Inductive steps_of (step : nstate → list event → nstate → Prop) :
      nstate → list event → nstate → Prop :=
  | steps_of_refl s : steps_of step s [] s
  | steps_of_step s1 l1 s2 l2 s3 :
      steps_of step s1 l1 s2 → step s2 l2 s3 → steps_of step s1 (l1 ++ l2) s3.

  Theorem restricted_node_consistent (step : nstate → list event → nstate → Prop) evs s :
    (∀ s1 l s2, step s1 l s2 → nsteps U s1 l s2) →
    steps_of step init_nstate evs s → chain_consistent U evs = true.
  Proof.
    intros Hsim Hrun. assert (Hn : nsteps U init_nstate evs s).
    { induction Hrun as [|s1 l1 s2 l2 s3 _ IH Hstep]; [constructor|].
      eapply nsteps_app; [exact IH|by apply Hsim]. }
    by apply (reachable_inv U evs s).
  Qed.
End restricted.

(** * The shapes of notifications and blocks named in the model's description *)

Section shapes.
  Context (U : universe).

  (** one [Disconnect h], h in (tip of the surviving chain, lowest removed height] *)
  Lemma disc_ok_single rem surv h :
    tip_height surv < h → Forall (fun b => h <= nb_height b) rem → disc_ok rem surv [h].
  Proof.
    intros Hlt Hle. split; [by repeat constructor|]. by apply Exists_cons_hd.
  Qed.

  (** in a sorted chain (tip first) the last block of a segment is its lowest *)
  Lemma sorted_last_lowest rem0 bl surv :
    chain_sorted ((rem0 ++ [bl]) ++ surv) →
    Forall (fun b => nb_height bl <= nb_height b) (rem0 ++ [bl]).
  Proof.
    induction rem0 as [|x rem0 IH]; simpl.
    - intros _. by repeat constructor.
    - intros [Hlt Hs]. specialize (IH Hs). constructor; [|done].
      destruct rem0 as [|y rem0]; simpl in *; [lia|].
      apply Forall_cons in IH as [Hy _]. lia.
  Qed.

  (** the tip-down sequence: one [Disconnect] per removed block at its own
      height, the last one at any h in (tip of the surviving chain, lowest
      removed height] *)
  Lemma disc_ok_tipdown rem0 bl surv h :
    chain_sorted ((rem0 ++ [bl]) ++ surv) → tip_height surv < h <= nb_height bl →
    disc_ok (rem0 ++ [bl]) surv (map nb_height rem0 ++ [h]).
  Proof.
    intros Hs [Hlt Hle]. pose proof (sorted_last_lowest _ _ _ Hs) as Hlow.
    apply chain_sorted_app in Hs as [_ Hrem]. split.
    - apply Forall_app. split; [|by repeat constructor].
      apply Forall_fmap, Forall_forall. intros b Hb. simpl. apply Hrem. apply elem_of_app. by left.
    - apply Exists_app. right. apply Exists_cons_hd.
      eapply Forall_impl; [exact Hlow|]. simpl. intros b Hb. lia.
  Qed.

  (** any stale / repeated [Disconnect] above the surviving chain may be
      inserted anywhere *)
  Lemma disc_ok_insert rem surv hs1 hs2 h :
    disc_ok rem surv (hs1 ++ hs2) → tip_height surv < h → disc_ok rem surv (hs1 ++ h :: hs2).
  Proof.
    intros [Hall Hex] Hlt. apply Forall_app in Hall as [H1 H2]. split.
    - apply Forall_app. split; [done|]. by constructor.
    - apply Exists_app in Hex as [Hex|Hex]; apply Exists_app; [by left|right]. by apply Exists_cons_tl.
  Qed.

  (** a [Disconnect] above everything the wallet has confirmed is a no-op
      of the spec; in particular any repeated [Disconnect] at or above
      (new tip + 1) after a reorg *)
  Lemma stale_disconnect_noop c F h :
    chain_sorted c → coupled U c F → tip_height c < h → spec_disconnect U F h = F.
  Proof.
    intros Hs HW Hlt. apply spec_disconnect_noop. intros t h' bh' Hc.
    apply (wc_conf U _ _ HW) in Hc. apply (in_chain_height c _ _ _ Hs) in Hc. lia.
  Qed.

  (** Blocks.  [ns_mine] accepts every block that keeps the chain valid.  This
      is the same as saying: the block is above the tip, a coinbase can only
      come first, and every member - coinbase, mempool member or never
      announced alike - is a new universe transaction that is valid against
      the chain plus the EARLIER members of the block: none of its inputs is
      already spent there, and its universe parents are there (so the
      mempool members come parents first and are closed under in-mempool
      parents).  For a mempool member the conditions about the old chain hold
      by [pool_ok]. *)
  Definition member_ok (c : list nblock) (l1 : list N) (t : N) : Prop :=
    is_Some (U !! t) ∧ t ∉ chain_txs c ++ l1 ∧
    ∀ op, op ∈ tx_ins U t →
      (∀ c', c' ∈ chain_txs c ++ l1 → op ∉ tx_ins U c') ∧
      (is_Some (U !! op.1) → op.1 ∈ chain_txs c ++ l1).

  Lemma snoc_split {A} (l1 : list A) (x : A) (l2 P : list A) (y : A) :
    l1 ++ x :: l2 = P ++ [y] →
    (l2 = [] ∧ l1 = P ∧ x = y) ∨ (∃ l2', l2 = l2' ++ [y] ∧ P = l1 ++ x :: l2').
  Proof.
    destruct l2 as [|z l2' _] using rev_ind.
    - intros Heq. apply (app_inj_tail l1 P x y) in Heq as [-> ->]. by left.
    - intros Heq. right. exists l2'.
      change (l1 ++ x :: l2' ++ [z]) with (l1 ++ (x :: l2') ++ [z]) in Heq.
      rewrite app_assoc in Heq. apply app_inj_tail in Heq as [<- ->]. done.
  Qed.

  Lemma txs_ok_snoc P t :
    NoDup P → (∀ x, x ∈ P → is_Some (U !! x)) → no_double_spend U P → parents_first U P →
    is_Some (U !! t) → t ∉ P →
    (∀ op, op ∈ tx_ins U t →
       (∀ c', c' ∈ P → op ∉ tx_ins U c') ∧ (is_Some (U !! op.1) → op.1 ∈ P)) →
    NoDup (P ++ [t]) ∧ (∀ x, x ∈ P ++ [t] → is_Some (U !! x)) ∧
    no_double_spend U (P ++ [t]) ∧ parents_first U (P ++ [t]).
  Proof.
    intros Hnd HU Hnds Hpf HUt HtP Hins. repeat split.
    - apply NoDup_app. split; [done|]. split; [|apply NoDup_singleton].
      intros x Hx ->%elem_of_list_singleton. done.
    - intros x [Hx| ->%elem_of_list_singleton]%elem_of_app; [by apply HU|done].
    - intros t1 t2 op [H1| ->%elem_of_list_singleton]%elem_of_app
                       [H2| ->%elem_of_list_singleton]%elem_of_app Ho1 Ho2.
      + by eapply Hnds.
      + exfalso. destruct (Hins op Ho2) as [Hno _]. by apply (Hno t1 H1).
      + exfalso. destruct (Hins op Ho1) as [Hno _]. by apply (Hno t2 H2).
      + done.
    - intros l1 t' l2 op Heq Hop HUp. symmetry in Heq.
      apply snoc_split in Heq as [(-> & -> & ->)|(l2' & -> & ->)].
      + destruct (Hins op Hop) as [_ Hp]. by apply Hp.
      + by apply (Hpf l1 t' l2' op).
  Qed.

  Lemma chain_ok_cons_intro c blk :
    chain_ok U c → tip_height c < nb_height blk → block_cb_ok U blk →
    (∀ l1 t l2, nb_txs blk = l1 ++ t :: l2 → member_ok c l1 t) →
    chain_ok U (blk :: c).
  Proof.
    intros [C1 C2 C3 C4 C5 C6] Hlt Hcb Hmem.
    assert (Hgen : ∀ l l', nb_txs blk = l ++ l' →
              NoDup (chain_txs c ++ l) ∧ (∀ x, x ∈ chain_txs c ++ l → is_Some (U !! x)) ∧
              no_double_spend U (chain_txs c ++ l) ∧ parents_first U (chain_txs c ++ l)).
    { induction l as [|t l IH] using rev_ind; intros l' Heq.
      - by rewrite app_nil_r.
      - rewrite <- app_assoc in Heq. simpl in Heq.
        destruct (IH _ Heq) as (I1 & I2 & I3 & I4).
        destruct (Hmem l t l' Heq) as (M1 & M2 & M3).
        rewrite app_assoc. by apply txs_ok_snoc. }
    destruct (Hgen (nb_txs blk) []) as (G1 & G2 & G3 & G4); [by rewrite app_nil_r|].
    split; simpl; try done. by constructor.
  Qed.

  (** and conversely every block accepted by [ns_mine] has this shape *)
  Lemma chain_ok_cons_elim c blk :
    chain_ok U (blk :: c) →
    chain_ok U c ∧ tip_height c < nb_height blk ∧ block_cb_ok U blk ∧
    ∀ l1 t l2, nb_txs blk = l1 ++ t :: l2 → member_ok c l1 t.
  Proof.
    intros Hc. pose proof (chain_ok_app U [blk] c Hc) as Hc0.
    destruct Hc as [C1 C2 C3 C4 C5 C6]. simpl in *. destruct C1 as [Hlt Hs].
    apply Forall_cons in C6 as [Hcb _].
    split; [done|]. split; [done|]. split; [done|].
    intros l1 t l2 Heq. rewrite Heq, app_assoc in C2, C3, C4, C5.
    pose proof C2 as (_ & Hdisj & _)%NoDup_app.
    split; [|split].
    - apply C3. apply elem_of_app. right. by left.
    - intros Hin. apply (Hdisj t Hin). by left.
    - intros op Hop. split.
      + intros c' Hc' Hop'.
        assert (c' = t) as ->.
        { apply (C4 c' t op); [apply elem_of_app; by left|apply elem_of_app; right; by left|done|done]. }
        apply (Hdisj t Hc'). by left.
      + intros HU. by apply (C5 _ t l2 op).
  Qed.
End shapes.

(** * Consequences for the wallet: C01 / C13 hold along every run of the node *)

Corollary node_refinement U evs :
  wf_universe U = true → emits U evs →
  Inv U (st (run U evs)) (fs (spec_run U evs)) ∧ clock (run U evs) = sclock (spec_run U evs).
Proof. intros Hwf He. apply refinement; [done|]. by apply node_emits_consistent. Qed.

Corollary node_facts_wf U evs :
  wf_universe U = true → emits U evs → facts_wf U (fs (spec_run U evs)).
Proof. intros Hwf He. destruct (node_refinement U evs Hwf He) as [HI _]. apply (inv_wf U _ _ HI). Qed.

(** what the wallet believes about unconfirmed transactions is compatible
    with the node's chain: they are not coinbase, not in the chain, and share
    no input with a chain transaction *)
Corollary reachable_wallet_unconf U evs s u :
  wf_universe U = true → reachable U evs s → u ∈ f_unconf (fs (n_w s)) →
  is_Some (U !! u) ∧ is_coinbase U u = false ∧ u ∉ chain_txs (n_chain s) ∧
  ∀ c op, c ∈ chain_txs (n_chain s) → op ∈ tx_ins U c → op ∉ tx_ins U u.
Proof.
  intros Hwf Hr Hu. destruct (reachable_inv U evs s Hr) as (Hv & Hw & HW & Hcons).
  assert (He : emits U evs) by (by exists s).
  pose proof (node_facts_wf U evs Hwf He) as Hfw. rewrite Hw in Hu.
  repeat split.
  - apply (fw_in_universe U _ Hfw). by right.
  - by apply (fw_coinbase_confirmed U _ Hfw).
  - intros Hin. apply chain_txs_in in Hin as (h & bh & Hin). apply (wc_conf U _ _ HW) in Hin.
    apply (fw_disjoint U _ Hfw u); [by rewrite Hin|done].
  - intros c op Hc Hop Hop'. apply chain_txs_in in Hc as (h & bh & Hin). apply (wc_conf U _ _ HW) in Hin.
    apply (fw_no_unconf_conflict U _ Hfw op c u); [split; [by rewrite Hin|done]|by split].
Qed.

Corollary node_c01 (U : universe) (evs p : list event) :
  wf_universe U = true → emits U evs → p `prefix_of` evs →
  let s := st (run U p) in let F := fs (spec_run U p) in let now := clock (run U p) in
  (∀ minconf sync, 0 <= minconf → (∀ t hh b, f_conf F !! t = Some (hh, b) → hh <= sync) →
     balance U s minconf sync now = spec_balance U F minconf sync now) ∧
  unspent_outputs U s now ≡ₚ spec_utxos U F now.
Proof. intros Hwf He Hp. apply (c01_holds U evs p Hwf); [by apply node_emits_consistent|done]. Qed.

Corollary node_c13 (U : universe) (evs p : list event) (t : txid) :
  wf_universe U = true → emits U evs → p `prefix_of` evs →
  let s := st (run U p) in let F := fs (spec_run U p) in
  tx_details U s t = spec_details U F t ∧
  unique_tx_details U s t (f_conf F !! t) = spec_details U F t ∧
  unmined_hashes s ≡ₚ elements (f_unconf F).
Proof. intros Hwf He Hp. apply (c13_holds U evs p t Hwf); [by apply node_emits_consistent|done]. Qed.

(** * The hypotheses are inhabited: a non-trivial run *)

Module demo.
  Definition mk (id : N) (ins : list (N * N)) (outs : list Z) (creds : list (N * bool)) (cb : bool) : tx :=
    {| t_id := id; t_ins := ins; t_outs := outs; t_creds := creds; t_coinbase := cb |}.

  (** 2 = coinbase; 3 spends an external outpoint; 4 spends 3 (child);
      5 double-spends 3's input (replacement); 6 spends the coinbase *)
  Definition demoU : gmap N tx := universe_of_list [
    mk 2 [] [5000] [(0%N, false)] true;
    mk 3 [(1%N, 0%N)] [1000; 2000] [(0%N, false); (1%N, true)] false;
    mk 4 [(3%N, 0%N)] [900] [(0%N, false)] false;
    mk 5 [(1%N, 0%N)] [2900] [(0%N, false)] false;
    mk 6 [(2%N, 0%N)] [4000] [(0%N, false)] false ].

  Definition blkA : nblock :=
    {| nb_height := 10; nb_hash := 1; nb_time := 1600006000; nb_txs := [2; 3; 4]%N |}.
  Definition blkB : nblock :=
    {| nb_height := 12; nb_hash := 2; nb_time := 1600007200; nb_txs := [6]%N |}.
  Definition blkC : nblock :=
    {| nb_height := 8; nb_hash := 3; nb_time := 1600004800; nb_txs := [3; 4]%N |}.

  Definition demo_script : list action := [
    AAccept 3 true; AAccept 4 true;       (* parent and child enter the mempool *)
    AAccept 5 true;                       (* replacement: 5 evicts 3 and its child 4 *)
    AStaleSeen 3;                         (* late notification of the replaced transaction *)
    AMine blkA [0; 1; 0]%nat;             (* coinbase 2, then 3 and 4 straight into the block
                                             (no longer in the mempool), 3 delivered twice; 5 evicted *)
    AStaleSeen 4;                         (* mempool notification arriving after the block *)
    AAccept 6 true;                       (* spends the coinbase *)
    AMine blkB [];                        (* height gap *)
    AReconfirm 1 3;                       (* duplicate delivery of an old confirmation *)
    AReorg 2 [12; 12; 7];                 (* tip-down with a stale repeat; 7 is a height without a
                                             wallet block; 6 dies with the coinbase *)
    AStaleDisconnect 9;
    AStaleSeen 5;                         (* 5 is in no mempool and unknown to the wallet again *)
    AWallet (Abandon 3);                  (* the wallet forgets 3 and 4, the node keeps them *)
    AReannounce 4;
    AWallet (Lease 1 (4%N, 0%N) 1000); AWallet (Tick 5); AWallet (Redeliver 4 None);
    AExpire 4; AAccept 4 false;           (* evicted and accepted again, unannounced *)
    AMine blkC [];                        (* the competing branch confirms 3 and 4 lower *)
    AWallet (Redeliver 3 (Some (8, 3%N, 1600004800))); AWallet Sweep ].

  Definition demo_events : list event := [
    Seen 3; Seen 4; Seen 5; Seen 3;
    Confirm 2 10 1 1600006000; Confirm 3 10 1 1600006000; Confirm 3 10 1 1600006000;
    Confirm 4 10 1 1600006000; Seen 4;
    Seen 6; Confirm 6 12 2 1600007200; Confirm 3 10 1 1600006000;
    Disconnect 12; Disconnect 12; Disconnect 7; Disconnect 9; Seen 5;
    Abandon 3; Seen 4; Lease 1 (4%N, 0%N) 1000; Tick 5; Redeliver 4 None;
    Confirm 3 8 3 1600004800; Confirm 4 8 3 1600004800;
    Redeliver 3 (Some (8, 3%N, 1600004800)); Sweep ].

  Example demo_wf : wf_universe demoU = true.
  Proof. vm_compute. reflexivity. Qed.

  Example demo_exec : option_map snd (exec_all demoU init_nstate demo_script) = Some demo_events.
  Proof. vm_compute. reflexivity. Qed.

  Example demo_emits : emits demoU demo_events.
  Proof.
    pose proof demo_exec as H.
    destruct (exec_all demoU init_nstate demo_script) as [[s evs]|] eqn:Hex; [|done].
    simpl in H. injection H as ->. by eapply exec_all_emits.
  Qed.

  (** by the theorem ... *)
  Example demo_consistent : chain_consistent demoU demo_events = true.
  Proof. exact (node_emits_consistent demoU demo_events demo_wf demo_emits). Qed.

  (** ... and, independently, by running the decidable predicate *)
  Example demo_consistent_computed : chain_consistent demoU demo_events = true.
  Proof. vm_compute. reflexivity. Qed.

  (** the final wallet facts: 3 and 4 confirmed in block C, nothing unconfirmed *)
  Example demo_final_facts :
    map_to_list (f_conf (fs (spec_run demoU demo_events))) = [(3%N, (8, 3%N)); (4%N, (8, 3%N))] ∧
    elements (f_unconf (fs (spec_run demoU demo_events))) = [].
  Proof. vm_compute. done. Qed.

  (** ** The boundary of the hypothesis

      What [event_ok] rejects is outside this node: both histories below need
      either notifications that overtake each other or a wallet whose set of
      relevant transactions grows (a rescan after a key import) - DESIGN.md
      treats them as the separate "inconsistent" stream.  By the theorem the
      node never emits them. *)

  (** a mempool notification for 5 delivered after the block that confirms
      the conflicting 3 *)
  Example stale_conflicting_seen_rejected :
    chain_consistent demoU [Confirm 3 10 1 0; Seen 5] = false.
  Proof. vm_compute. reflexivity. Qed.

  (** the parent 3 becomes relevant, and is delivered at its lower height,
      only after its child 4 has been confirmed *)
  Example late_parent_rejected :
    chain_consistent demoU [Confirm 4 10 1 0; Confirm 3 9 2 0] = false.
  Proof. vm_compute. reflexivity. Qed.

  Example node_never_emits_them :
    ¬ emits demoU [Confirm 3 10 1 0; Seen 5] ∧ ¬ emits demoU [Confirm 4 10 1 0; Confirm 3 9 2 0].
  Proof.
    split; intros H; apply (node_emits_consistent demoU _ demo_wf) in H; vm_compute in H; done.
  Qed.
End demo.
