(** [Seen t] ([insertMemPoolTx] + [addCredit] for every credited output)
    preserves the invariant.  Owner: prover-remove. *)
From stdpp Require Import gmap list numbers sorting.
From Coq Require Import ZArith NArith Lia.
From Verif Require Import Tx.Store Tx.Ledger Tx.Hist Tx.Inv Tx.InvRemove.
Local Open Scope Z_scope.

Lemma has_mined_record_same (h : N) (s s' : store) :
  txrecs s' = txrecs s → has_mined_record h s' = has_mined_record h s.
Proof. unfold has_mined_record, mined_keys_of. by intros ->. Qed.

Lemma elem_of_conf_list (F : facts) (c : N) : c ∈ conf_list F ↔ is_Some (f_conf F !! c).
Proof.
  unfold conf_list. rewrite elem_of_list_In, in_map_iff. split.
  - intros ([c' b] & Heq & Hin). simpl in Heq. subst c'.
    apply elem_of_list_In, elem_of_map_to_list in Hin. by eexists.
  - intros [b Hb]. exists (c, b). split; [done|].
    by apply elem_of_list_In, elem_of_map_to_list.
Qed.

Lemma known_true_iff (F : facts) (h : N) :
  known F h = true ↔ is_Some (f_conf F !! h) ∨ h ∈ f_unconf F.
Proof.
  unfold known. rewrite orb_true_iff, !bool_decide_eq_true. done.
Qed.

Lemma foldl_put_unmined_input_unmined (l : list (N * N)) (h : N) (s : store) :
  unmined (foldl (λ s' op, put_unmined_input op h s') s l) = unmined s.
Proof. revert s. induction l as [|op l IH]; intros s; simpl; [done|]. by rewrite IH. Qed.
Lemma foldl_put_unmined_input_unmined_credits (l : list (N * N)) (h : N) (s : store) :
  unmined_credits (foldl (λ s' op, put_unmined_input op h s') s l) = unmined_credits s.
Proof. revert s. induction l as [|op l IH]; intros s; simpl; [done|]. by rewrite IH. Qed.
Lemma foldl_put_unmined_input_same_rest (l : list (N * N)) (h : N) (s : store) :
  same_rest s (foldl (λ s' op, put_unmined_input op h s') s l).
Proof.
  revert s. induction l as [|op l IH]; intros s; simpl; [apply same_rest_refl|].
  eapply same_rest_trans; [apply same_rest_put_unmined_input|apply IH].
Qed.

Lemma MIinv_put_list (l : list (N * N)) (h : N) : ∀ (s : store) (R : N * N → N → Prop),
  NoDup l → (∀ op, op ∈ l → ¬ R op h) → MIinv s R →
  MIinv (foldl (λ s' op, put_unmined_input op h s') s l) (λ op u, R op u ∨ (op ∈ l ∧ u = h)).
Proof.
  induction l as [|op0 l IH]; intros s R Hnd Hn HM; simpl.
  - eapply MIinv_ext; [|exact HM]. intros op u. rewrite elem_of_nil. naive_solver.
  - apply NoDup_cons in Hnd as [Hop0 Hnd].
    eapply MIinv_ext; [|apply IH; [exact Hnd| |apply MIinv_put; [exact HM|]]].
    + intros op u. simpl. rewrite elem_of_cons. naive_solver.
    + intros op Hop [HR|[-> _]]; [|done]. apply (Hn op); [by right|done].
    + apply Hn. by left.
Qed.

Lemma NoDup_map_fst_inj {A B} (l : list (A * B)) (i : A) (a b : B) :
  NoDup (map fst l) → (i, a) ∈ l → (i, b) ∈ l → a = b.
Proof.
  induction l as [|[j c] l IH]; intros Hnd Ha Hb; [by apply elem_of_nil in Ha|].
  simpl in Hnd. apply NoDup_cons in Hnd as [Hj Hnd].
  assert (Hfst : ∀ d, (j, d) ∈ l → False).
  { intros d Hd. apply Hj. apply elem_of_list_In, in_map_iff. exists (j, d).
    split; [done|]. by apply elem_of_list_In. }
  apply elem_of_cons in Ha as [Ha|Ha], Hb as [Hb|Hb].
  - congruence.
  - injection Ha as -> ->. by destruct (Hfst b).
  - injection Hb as -> ->. by destruct (Hfst a).
  - by apply IH.
Qed.

Section seen.
  Context (U : gmap N tx) (Hwf : wf_universe U = true).

  Lemma has_mined_record_iff (s : store) (F : facts) (h : N) :
    Inv U s F → has_mined_record h s = true ↔ is_Some (f_conf F !! h).
  Proof.
    intros HI. unfold has_mined_record, mined_keys_of. split.
    - destruct (filter _ _) as [|k ks] eqn:Hf; [done|]. intros _.
      assert (Hk : k ∈ k :: ks) by by left.
      rewrite <- Hf in Hk. apply elem_of_list_filter in Hk as [Hk1 Hk].
      apply elem_of_list_In, in_map_iff in Hk as ([k' []] & Heq & Hin). simpl in Heq. subst k'.
      apply elem_of_list_In, elem_of_map_to_list in Hin.
      destruct k as [[h' ht] bh]. simpl in Hk1. subst h'.
      exists (ht, bh). apply (inv_txrecs U s F HI). by eexists.
    - intros [[ht bh] Hc]. apply (inv_txrecs U s F HI) in Hc as [[] Hc].
      destruct (filter _ _) as [|k ks] eqn:Hf; [|done]. exfalso.
      assert (Hk : (h, ht, bh) ∈ @nil (N * Z * N)); [|by apply elem_of_nil in Hk].
      rewrite <- Hf. apply elem_of_list_filter. split; [done|].
      apply elem_of_list_In, in_map_iff. exists ((h, ht, bh), ()). split; [done|].
      by apply elem_of_list_In, elem_of_map_to_list.
  Qed.

  Lemma has_mined_record_false (s : store) (F : facts) (h : N) :
    Inv U s F → f_conf F !! h = None → has_mined_record h s = false.
  Proof.
    intros HI Hn. destruct (has_mined_record h s) eqn:Hm; [|done].
    apply (has_mined_record_iff s F h HI) in Hm. rewrite Hn in Hm. by destruct Hm.
  Qed.

  Lemma insert_mempool_known (s : store) (F : facts) (x : tx) :
    Inv U s F → known F (t_id x) = true → insert_mempool x s = (true, s).
  Proof.
    intros HI Hk. unfold insert_mempool. apply known_true_iff in Hk as [Hk|Hk].
    - apply (has_mined_record_iff s F _ HI) in Hk. rewrite Hk. by rewrite orb_true_r.
    - apply (inv_unmined U s F HI) in Hk. by rewrite (bool_decide_eq_true_2 _ Hk).
  Qed.

  Lemma insert_mempool_fresh (s : store) (F : facts) (x : tx) :
    Inv U s F → known F (t_id x) = false →
    insert_mempool x s =
      (false, foldl (λ s' op, put_unmined_input op (t_id x) s')
                    (set_unmined (<[t_id x := tt]>) s) (t_ins x)).
  Proof.
    intros HI Hk. unfold insert_mempool.
    assert (Hnc : f_conf F !! t_id x = None).
    { destruct (f_conf F !! t_id x) eqn:Hc; [|done].
      assert (known F (t_id x) = true); [|congruence]. apply known_true_iff. left. by eexists. }
    assert (Hnu : t_id x ∉ f_unconf F).
    { intros Hin. assert (known F (t_id x) = true); [|congruence]. apply known_true_iff. by right. }
    rewrite bool_decide_eq_false_2.
    2:{ intros Hs. by apply Hnu, (inv_unmined U s F HI). }
    rewrite (has_mined_record_false s F _ HI Hnc). simpl.
    destruct (existsb _ _) eqn:Hex; [|done]. exfalso.
    apply existsb_exists in Hex as (i & _ & Hi). apply bool_decide_eq_true in Hi as [[ht bh] Hi].
    apply (inv_unspent U s F HI) in Hi as (Hc & _). simpl in Hc. congruence.
  Qed.

  Lemma facts_wf_seen (F : facts) (h : N) (x : tx) :
    facts_wf U F → U !! h = Some x → t_coinbase x = false → known F h = false →
    forallb (fun c => negb (shares_input U h c) && negb (spends_output_of U c h)) (conf_list F) = true →
    facts_wf U (with_unconf F ({[h]} ∪ f_unconf F)).
  Proof.
    intros [W1 W2 W3 W4 W5 W6 W7 W8] Hx Hcb Hk Hall.
    assert (Hnc : f_conf F !! h = None).
    { destruct (f_conf F !! h) eqn:Hc; [|done].
      assert (known F h = true); [|congruence]. apply known_true_iff. left. by eexists. }
    assert (Hconf : ∀ c, is_Some (f_conf F !! c) →
              shares_input U h c = false ∧ spends_output_of U c h = false).
    { intros c Hc. apply elem_of_conf_list, elem_of_list_In in Hc.
      rewrite forallb_forall in Hall. apply Hall in Hc.
      apply andb_prop in Hc as [H1 H2]. by apply negb_true_iff in H1, H2. }
    split; simpl.
    - intros t [Ht|Ht]; [apply W1; by left|].
      apply elem_of_union in Ht as [Ht|Ht]; [|apply W1; by right].
      apply elem_of_singleton in Ht as ->. by eexists.
    - intros t Ht Hin. apply elem_of_union in Hin as [Hin|Hin]; [|by apply (W2 t Ht)].
      apply elem_of_singleton in Hin as ->. rewrite Hnc in Ht. by destruct Ht.
    - exact W3.
    - intros op m u Hm [Hu Hop]. apply elem_of_union in Hu as [Hu|Hu].
      + apply elem_of_singleton in Hu as ->. destruct Hm as [Hm Hopm]. simpl in Hm.
        destruct (Hconf m Hm) as [Hsh _].
        assert (shares_input U h m = true); [|congruence].
        unfold shares_input. apply andb_true_intro. split.
        * apply bool_decide_eq_true. intros <-. rewrite Hnc in Hm. by destruct Hm.
        * apply existsb_exists. exists op. split; [by apply elem_of_list_In|].
          unfold spends. by apply bool_decide_eq_true.
      + apply (W4 op m u Hm). by split.
    - intros m hh bh op Hm Hop Hkn.
      assert (Hne : op.1 ≠ h).
      { intros Heq. destruct (Hconf m) as [_ Hsp]; [by eexists|].
        assert (spends_output_of U m h = true); [|congruence].
        apply spends_output_of_iff. by exists op. }
      apply (W5 m hh bh op Hm Hop). destruct Hkn as [Hkn|Hkn]; [by left|].
      apply elem_of_union in Hkn as [Hkn|Hkn]; [|by right].
      by apply elem_of_singleton in Hkn.
    - intros t Ht. apply elem_of_union in Ht as [Ht|Ht]; [|by apply W6].
      apply elem_of_singleton in Ht as ->. unfold is_coinbase. by rewrite Hx.
    - exact W7.
    - exact W8.
  Qed.

  (** credited outpoints of [x] *)
  Definition cred_ops (h : N) (l : list (N * bool)) : gset (N * N) :=
    list_to_set ((λ ic : N * bool, (h, ic.1)) <$> l).

  Lemma PInv_insert_mempool (s : store) (A : gset N) (h : N) (x : tx) :
    U !! h = Some x → h ∉ A → PInv U s A ∅ →
    PInv U (foldl (λ s' op, put_unmined_input op h s') (set_unmined (<[h := tt]>) s) (t_ins x))
         ({[h]} ∪ A) (cred_ops h (t_creds x)).
  Proof.
    intros Hx Hh [P1 P2 P3].
    pose proof (wf_tx_unpack _ _ (wf_universe_tx U h x Hwf Hx)) as (Hid & Hnd & _ & _ & _).
    split.
    - intros t. rewrite foldl_put_unmined_input_unmined. simpl.
      rewrite lookup_insert_is_Some, P1, elem_of_union, elem_of_singleton.
      destruct (decide (h = t)); naive_solver.
    - intros op a chg. rewrite foldl_put_unmined_input_unmined_credits. simpl. rewrite P2.
      split.
      + intros (HA & Hc & Ha & _). split; [apply elem_of_union; by right|].
        split; [done|]. split; [done|].
        intros Hin. apply elem_of_list_to_set, elem_of_list_fmap in Hin as (ic & -> & _).
        by apply Hh.
      + intros (HA & Hc & Ha & Hn). apply elem_of_union in HA as [HA|HA].
        * exfalso. apply elem_of_singleton in HA. apply Hn.
          apply elem_of_list_to_set, elem_of_list_fmap. exists (op.2, chg).
          split; [destruct op; simpl in *; congruence|].
          unfold is_credited, creds_of in Hc. by rewrite HA, Hx in Hc.
        * split; [done|]. split; [done|]. split; [done|]. apply not_elem_of_empty.
    - eapply MIinv_ext; [|apply (MIinv_put_list (t_ins x) h); [exact Hnd| |]].
      3:{ eapply MIinv_same_mi; [|exact P3]. done. }
      + intros op u. simpl. rewrite elem_of_union, elem_of_singleton.
        rewrite <- (tx_ins_lookup U h x Hx). split.
        * intros [[Hu Hop]|[Hop ->]]; [split; [by right|done]|split; [by left|done]].
        * intros [[->|Hu] Hop]; [right; by split|left; by split].
      + intros op _ [Hu _]. by apply Hh.
  Qed.

  Lemma PInv_add_credit (s : store) (A : gset N) (C : gset (N * N)) (h : N) (x : tx) (i : N) (chg : bool) :
    U !! h = Some x → h ∈ A → (i, chg) ∈ t_creds x → has_mined_record h s = false →
    PInv U s A C →
    PInv U (add_credit x None i chg s) A (C ∖ {[(h, i)]}).
  Proof.
    intros Hx Hh Hic Hm HP.
    pose proof (wf_tx_unpack _ _ (wf_universe_tx U h x Hwf Hx)) as (Hid & _ & Hndc & _ & _).
    unfold add_credit. rewrite Hid.
    destruct (bool_decide (is_Some (unmined_credits s !! (h, i)))) eqn:Hex.
    - apply bool_decide_eq_true in Hex as [[a chg'] Hex].
      apply (pi_mc U s A C HP) in Hex as (_ & _ & _ & Hn).
      eapply PInv_ext; [done| |exact HP]. intros op. set_solver.
    - apply bool_decide_eq_false in Hex. rewrite Hm.
      destruct HP as [P1 P2 P3]. split; [done| |done].
      intros op a chg'. simpl. rewrite lookup_insert_Some, P2. split.
      + intros [[<- Heq]|[Hne Hr]].
        * injection Heq as <- <-. simpl. split; [done|]. split.
          { unfold is_credited, creds_of. simpl. by rewrite Hx. }
          split; [unfold amount_of; simpl; by rewrite Hx|]. set_solver.
        * destruct Hr as (H1 & H2 & H3 & H4). split; [done|]. split; [done|]. split; [done|].
          set_solver.
      + intros (H1 & H2 & H3 & H4). destruct (decide ((h, i) = op)) as [<-|Hne].
        * left. split; [done|]. simpl in *.
          unfold is_credited, creds_of in H2. simpl in H2. rewrite Hx in H2.
          assert (chg' = chg) as ->.
          { by apply (NoDup_map_fst_inj (t_creds x) i chg' chg). }
          unfold amount_of in H3. simpl in H3. rewrite Hx in H3. by rewrite H3.
        * right. split; [done|]. split; [done|]. split; [done|]. split; [done|]. set_solver.
  Qed.

  Lemma add_credit_same_rest (x : tx) (i : N) (chg : bool) (s : store) :
    same_rest s (add_credit x None i chg s).
  Proof.
    unfold add_credit. destruct (bool_decide _); [apply same_rest_refl|].
    destruct (has_mined_record _ _); [apply same_rest_refl|apply same_rest_set_unmined_credits].
  Qed.

  Lemma PInv_add_credits (A : gset N) (h : N) (x : tx) :
    U !! h = Some x → h ∈ A →
    ∀ (l : list (N * bool)) (s : store) (C : gset (N * N)),
      (∀ ic, ic ∈ l → ic ∈ t_creds x) → has_mined_record h s = false → PInv U s A C →
      PInv U (foldl (λ s' ic, add_credit x None ic.1 ic.2 s') s l) A (C ∖ cred_ops h l) ∧
      same_rest s (foldl (λ s' ic, add_credit x None ic.1 ic.2 s') s l).
  Proof.
    intros Hx Hh. induction l as [|[i chg] l IH]; intros s C Hl Hm HP.
    - split; [|apply same_rest_refl]. eapply PInv_ext; [done| |exact HP].
      intros op. unfold cred_ops. set_solver.
    - cbn [foldl fst snd].
      pose proof (add_credit_same_rest x i chg s) as Hsr.
      destruct (IH (add_credit x None i chg s) (C ∖ {[(h, i)]})) as [HP' Hsr'].
      + intros ic Hic. apply Hl. by right.
      + rewrite <- Hm. apply has_mined_record_same. apply Hsr.
      + apply PInv_add_credit; try done. apply Hl. by left.
      + split; [|by eapply same_rest_trans].
        eapply PInv_ext; [done| |exact HP'].
        intros op. unfold cred_ops. rewrite fmap_cons. set_solver.
  Qed.
End seen.

Lemma step_preserves_seen U t : step_preserves U (Seen t).
Proof.
  intros m sm Hwf HI Hclk Hok. cbn [event_ok] in Hok.
  destruct (U !! t) as [x|] eqn:Hx; [|done].
  apply andb_prop in Hok as [Hcb Hok]. apply negb_true_iff in Hcb.
  pose proof (wf_tx_unpack _ _ (wf_universe_tx U t x Hwf Hx)) as (Hid & _).
  cbn [step spec_step]. rewrite Hx. cbn [st clock fs sclock].
  split; [done|]. split; [|done].
  unfold apply_seen, spec_seen.
  destruct (known (fs sm) t) eqn:Hk.
  - rewrite (insert_mempool_known U (st m) (fs sm) x HI) by (by rewrite Hid). exact HI.
  - rewrite (insert_mempool_fresh U (st m) (fs sm) x HI) by (by rewrite Hid). rewrite Hid.
    simpl in Hok.
    assert (Hnc : f_conf (fs sm) !! t = None).
    { destruct (f_conf (fs sm) !! t) eqn:Hc; [|done].
      assert (known (fs sm) t = true); [|congruence]. apply known_true_iff. left. by eexists. }
    assert (Hnu : t ∉ f_unconf (fs sm)).
    { intros Hin. assert (known (fs sm) t = true); [|congruence]. apply known_true_iff. by right. }
    pose proof (PInv_insert_mempool U Hwf (st m) (f_unconf (fs sm)) t x Hx Hnu
                  (PInv_of_Inv U (st m) (fs sm) HI)) as HP1.
    set (s1 := foldl (λ s' op, put_unmined_input op t s') (set_unmined (<[t := tt]>) (st m)) (t_ins x)) in *.
    assert (Hsr1 : same_rest (st m) s1).
    { eapply same_rest_trans; [apply (same_rest_set_unmined (<[t := tt]>))|].
      apply foldl_put_unmined_input_same_rest. }
    destruct (PInv_add_credits U Hwf ({[t]} ∪ f_unconf (fs sm)) t x Hx) with
      (l := t_creds x) (s := s1) (C := cred_ops t (t_creds x)) as [HP2 Hsr2].
    + apply elem_of_union. left. by apply elem_of_singleton.
    + done.
    + rewrite (has_mined_record_same t (st m) s1) by apply Hsr1.
      by apply (has_mined_record_false U (st m) (fs sm) t HI).
    + exact HP1.
    + apply (Inv_with_unconf U (st m) _ (fs sm) ({[t]} ∪ f_unconf (fs sm))).
      * exact HI.
      * by eapply same_rest_trans.
      * by apply (facts_wf_seen U (fs sm) t x (inv_wf U _ _ HI) Hx Hcb Hk).
      * eapply PInv_ext; [done| |exact HP2]. intros op. set_solver.
Qed.
