(** The wallet layer reduces to the store layer: a notification history is
    applied to the transaction store exactly as the store-level history
    [wevents] is, so every chain-consistent notification history inherits the
    store theorems of C01; the wallet-level queries are the store's queries at
    the synced height, filtered by functions of the reported entries only. *)
From stdpp Require Import gmap list numbers sorting.
From Coq Require Import ZArith NArith.
From Verif Require Import Tx.Store Tx.Ledger Tx.Hist Tx.Inv Tx.Refine Tx.RefineAll Tx.Corollaries Tx.InvRange Tx.Wallet.
Local Open Scope Z_scope.

Local Arguments step : simpl never.
Local Arguments rollback : simpl never.

Lemma store_steps_run U m es m' : store_steps U m es = Some m' → m' = run_from U m es.
Proof.
  revert m. induction es as [|e es IH]; intros m; simpl.
  - by intros [= <-].
  - destruct (step U m e) as [m1 o] eqn:E. simpl. destruct o; try done; apply IH.
Qed.

Lemma set_synced_to_m h b w w' : set_synced_to h b w = Some w' → w_m w' = w_m w.
Proof. unfold set_synced_to. case_match; [done|]. by intros [= <-]. Qed.

(** One notification acts on the store as its events do. *)
Lemma wstep_store U w n :
  w_m (wstep U w n).1 = run_from U (w_m w) (wstep_events U w n).
Proof.
  unfold wstep_events.
  assert (Hgen : ∀ es, match store_steps U (w_m w) es with
                       | Some m' => (with_m m' w, false)
                       | None => (w, true)
                       end = (wstep U w n) → es = notif_events w n →
                 w_m (wstep U w n).1 = run_from U (w_m w) (if (wstep U w n).2 then [] else notif_events w n)).
  { intros es <- ->. destruct (store_steps U (w_m w) (notif_events w n)) as [m'|] eqn:E; simpl; [|done].
    by apply store_steps_run. }
  destruct n as [h b bt|h b|t ob|h b bt ts|e].
  - simpl. destruct (set_synced_to h b w) as [w'|] eqn:E; simpl; [|done]. by apply set_synced_to_m in E.
  - cbn [wstep notif_events]. destruct (disconnect_applies w h b) as [[|]|] eqn:Ed; simpl; try done.
    destruct (w_hashes w !! (h - 1)) as [ph|]; simpl; [|done].
    destruct (set_synced_to (h - 1) ph w) as [w'|] eqn:Es; simpl; [|done].
    destruct (step U (w_m w) (Disconnect h)) as [m1 o] eqn:Est. destruct o; simpl; try done.
    all: by rewrite Est.
  - by apply (Hgen (notif_events w (WRelevant t ob))).
  - by apply (Hgen (notif_events w (WFiltered h b bt ts))).
  - by apply (Hgen (notif_events w (WStore e))).
Qed.

Lemma run_from_app U m h1 h2 : run_from U m (h1 ++ h2) = run_from U (run_from U m h1) h2.
Proof. unfold run_from. by rewrite foldl_app. Qed.

Lemma wrun_from_store U ns : ∀ w,
  w_m (wrun_from U w ns) = run_from U (w_m w) (wevents_from U w ns).
Proof.
  induction ns as [|n ns IH]; intros w; simpl; [done|].
  unfold wrun_from in *. simpl. rewrite IH, run_from_app. f_equal. apply wstep_store.
Qed.

Lemma wevents_from_app U p q : ∀ w,
  wevents_from U w (p ++ q) = wevents_from U w p ++ wevents_from U (wrun_from U w p) q.
Proof.
  induction p as [|n p IH]; intros w; simpl; [done|].
  rewrite IH, app_assoc. done.
Qed.

Lemma wevents_prefix U p ns : p `prefix_of` ns → wevents U p `prefix_of` wevents U ns.
Proof. intros [k ->]. unfold wevents. rewrite wevents_from_app. by eexists. Qed.

(** The store of the wallet after a notification history is the store after
    the store-level history it amounts to. *)
Lemma wrun_store U ns : w_m (wrun U ns) = run U (wevents U ns).
Proof. unfold wrun, wevents. by rewrite wrun_from_store. Qed.

Lemma tip_covers_spec F tip :
  tip_covers F tip = true ↔ ∀ t hh b, f_conf F !! t = Some (hh, b) → hh <= tip.
Proof.
  unfold tip_covers. rewrite forallb_forall. split.
  - intros H t hh b Hl. specialize (H (t, (hh, b))). rewrite bool_decide_eq_true in H. apply H.
    apply elem_of_list_In. by apply elem_of_map_to_list.
  - intros H [t [hh b]] Hin. apply bool_decide_eq_true. simpl. apply (H t hh b).
    apply elem_of_list_In in Hin. by apply elem_of_map_to_list in Hin.
Qed.

Lemma list_unspent_of_perm tip mc maxc l1 l2 :
  l1 ≡ₚ l2 → list_unspent_of tip mc maxc l1 ≡ₚ list_unspent_of tip mc maxc l2.
Proof. intros H. unfold list_unspent_of. by rewrite H. Qed.

Lemma wallet_unspent_of_perm tip mc l1 l2 :
  l1 ≡ₚ l2 → wallet_unspent_of tip mc l1 ≡ₚ wallet_unspent_of tip mc l2.
Proof. intros H. unfold wallet_unspent_of. by rewrite H. Qed.

(** C01 at the wallet layer: for every notification history whose
    store-level image is chain-consistent, after every prefix, whenever the
    synced height covers the confirmed transactions: CalculateBalance is the
    ledger balance at the synced height, ListUnspent and UnspentOutputs are
    the ledger's spendable outputs filtered by confirmations / maturity. *)
Theorem wallet_c01 (U : universe) (ns p : list wnotif) :
  wf_universe U = true → chain_consistent U (wevents U ns) = true → p `prefix_of` ns →
  let w := wrun U p in
  let F := fs (spec_run U (wevents U p)) in
  let now := clock (w_m w) in
  tip_covers F (w_tip w) = true →
  (∀ minconf, 0 <= minconf → calculate_balance U w minconf = spec_balance U F minconf (w_tip w) now) ∧
  (∀ minconf maxconf, list_unspent U w minconf maxconf ≡ₚ list_unspent_of (w_tip w) minconf maxconf (spec_utxos U F now)) ∧
  (∀ minconf, wallet_unspent U w minconf ≡ₚ wallet_unspent_of (w_tip w) minconf (spec_utxos U F now)).
Proof.
  intros Hwf Hcons Hpre w F now Hcov.
  pose proof (wevents_prefix U p ns Hpre) as Hpe.
  destruct (c01_holds U (wevents U ns) (wevents U p) Hwf Hcons Hpe) as [Hbal Hut].
  pose proof (proj1 (tip_covers_spec _ _) Hcov) as Hcov'.
  unfold calculate_balance, list_unspent, wallet_unspent. subst w now. rewrite !wrun_store.
  split; [|split].
  - intros mc Hmc. by apply Hbal.
  - intros mc maxc. by apply list_unspent_of_perm.
  - intros mc. by apply wallet_unspent_of_perm.
Qed.

(** The rescan set: [OutputsToWatch] is exactly the credited outputs of known
    transactions that no CONFIRMED transaction spends (unconfirmed ones
    included, leased ones included, those spent by unconfirmed transactions
    included), after every prefix of every chain-consistent history. *)
Theorem watch_set_is_ledgers (U : universe) (h p : list event) :
  wf_universe U = true → chain_consistent U h = true → p `prefix_of` h →
  map u_op (outputs_to_watch U (st (run U p)) (clock (run U p))) ≡ₚ spec_watch U (fs (spec_run U p)).
Proof.
  intros Hwf Hc Hp. destruct (refinement_prefix U h p Hwf Hc Hp) as [HI _].
  by apply watch_correct.
Qed.

(** ** When does the synced height cover the confirmed transactions?
    Whenever the backend announces a block before (or together with) its
    transactions: connects never lower the tip, and a transaction is
    delivered as confirmed only at a height at or below the tip. *)
Definition event_height_le (tip : Z) (e : event) : bool :=
  match e with
  | Confirm _ h _ _ => bool_decide (h <= tip)
  | _ => true
  end.

Definition notif_ordered (w : wstate) (n : wnotif) : bool :=
  match n with
  | WConnect h _ _ => bool_decide (w_tip w <= h)
  | WDisconnect _ _ => true
  | WRelevant _ (Some (h, _, _)) => bool_decide (h <= w_tip w)
  | WRelevant _ None => true
  | WFiltered h _ _ _ => bool_decide (h <= w_tip w)
  | WStore e => event_height_le (w_tip w) e
  end.

Fixpoint ordered_from (U : universe) (w : wstate) (ns : list wnotif) : bool :=
  match ns with
  | [] => true
  | n :: ns' => notif_ordered w n && ordered_from U (wstep U w n).1 ns'
  end.

Definition covers (F : facts) (tip : Z) : Prop := ∀ t hh b, f_conf F !! t = Some (hh, b) → hh <= tip.

Lemma rm_conf_eq U F roots : f_conf (remove_unconf_with_descendants U F roots) = f_conf F.
Proof. done. Qed.

Lemma spec_step_covers U sm e tip :
  covers (fs sm) tip → event_height_le tip e = true →
  (∀ h, e ≠ Disconnect h) → covers (fs (spec_step U sm e)) tip.
Proof.
  intros Hc Hle Hnd. destruct e as [t|t h b bt|h|t|id op dur|id op|dt| |t ob]; simpl in *; try done.
  - unfold spec_seen. by destruct (known (fs sm) t).
  - unfold spec_confirm. destruct (f_conf (fs sm) !! t) eqn:E; [done|].
    unfold covers, remove_unconf_with_descendants. cbn [f_conf fs]. intros t' hh b' Hl.
    destruct (decide (t' = t)) as [->|Hne].
    + rewrite lookup_insert in Hl. injection Hl as <- <-. by apply bool_decide_eq_true in Hle.
    + rewrite lookup_insert_ne in Hl by done. by eapply Hc.
  - by specialize (Hnd h).
  - unfold spec_lease. repeat case_match; try done.
  - unfold spec_release. repeat case_match; try done.
Qed.

Lemma spec_disconnect_covers U F h : covers (spec_disconnect U F h) (h - 1).
Proof.
  intros t hh b Hl. unfold spec_disconnect in Hl. simpl in Hl.
  apply map_filter_lookup_Some in Hl as [_ Hlt]. simpl in Hlt. lia.
Qed.

Lemma spec_disconnect_covers_mono U F h tip : covers F tip → covers (spec_disconnect U F h) tip.
Proof.
  intros Hc t hh b Hl. unfold spec_disconnect in Hl. simpl in Hl.
  apply map_filter_lookup_Some in Hl as [Hl _]. by eapply Hc.
Qed.

Lemma covers_mono F a b : covers F a → a <= b → covers F b.
Proof. intros H Hab t hh bb Hl. specialize (H t hh bb Hl). lia. Qed.

Definition spec_run_from' (U : universe) (sm : sstate) (h : list event) : sstate := foldl (spec_step U) sm h.

Lemma set_synced_to_tip h b w w' : set_synced_to h b w = Some w' → w_tip w' = h.
Proof. unfold set_synced_to. case_match; [done|]. by intros [= <-]. Qed.

Lemma wstep_covers U w n sm :
  covers (fs sm) (w_tip w) → notif_ordered w n = true →
  covers (fs (spec_run_from' U sm (wstep_events U w n))) (w_tip (wstep U w n).1).
Proof.
  intros Hc Hord. unfold wstep_events.
  destruct n as [h b bt|h b|t ob|h b bt ts|e].
  - simpl. simpl in Hord. apply bool_decide_eq_true in Hord.
    destruct (set_synced_to h b w) as [w'|] eqn:E; simpl; [|done].
    apply set_synced_to_tip in E. rewrite E. by eapply covers_mono.
  - cbn [wstep notif_events]. destruct (disconnect_applies w h b) as [[|]|] eqn:Ed; simpl; try done.
    destruct (w_hashes w !! (h - 1)) as [ph|]; simpl; [|done].
    destruct (set_synced_to (h - 1) ph w) as [w'|] eqn:Es; simpl; [|done].
    destruct (step U (w_m w) (Disconnect h)) as [m1 o] eqn:Est. destruct o; simpl; try done.
    all: rewrite (set_synced_to_tip _ _ _ _ Es); apply spec_disconnect_covers.
  - cbn [wstep]. destruct (store_steps U (w_m w) (notif_events w (WRelevant t ob))); simpl; [|done].
    apply spec_step_covers; [done| |by destruct ob as [[[? ?] ?]|]].
    destruct ob as [[[hh bb] tt]|]; simpl in *; done.
  - cbn [wstep]. destruct (store_steps U (w_m w) (notif_events w (WFiltered h b bt ts))); simpl; [|done].
    simpl in Hord. clear -Hc Hord. revert sm Hc. induction ts as [|t ts IH]; intros sm Hc; simpl; [done|].
    apply IH. by apply (spec_step_covers U sm (Confirm t h b bt)).
  - cbn [wstep]. destruct (store_steps U (w_m w) (notif_events w (WStore e))); simpl; [|done].
    destruct e as [t|t h b bt|h|t|id op dur|id op|dt| |t ob];
      try (by apply spec_step_covers).
    (* a direct Rollback(h) through the store API: the wallet keeps its tip;
       the remaining confirmations were covered before *)
    simpl. by apply spec_disconnect_covers_mono.
Qed.

Lemma ordered_from_app U p q : ∀ w,
  ordered_from U w (p ++ q) = true → ordered_from U w p = true.
Proof.
  induction p as [|n p IH]; intros w; simpl; [done|].
  rewrite !andb_true_iff. intros [? ?]. split; [done|]. by apply IH.
Qed.

Lemma ordered_covers_from U ns : ∀ w sm,
  covers (fs sm) (w_tip w) → ordered_from U w ns = true →
  covers (fs (spec_run_from' U sm (wevents_from U w ns))) (w_tip (wrun_from U w ns)).
Proof.
  induction ns as [|n ns IH]; intros w sm Hc Hord; simpl; [done|].
  simpl in Hord. apply andb_true_iff in Hord as [Hn Hrest].
  unfold spec_run_from', wrun_from in *. simpl. rewrite foldl_app.
  apply IH; [|done]. by apply wstep_covers.
Qed.

(** For a backend that announces a block no later than its transactions, the
    synced height covers the confirmed transactions after every prefix. *)
Theorem ordered_tip_covers (U : universe) (ns p : list wnotif) :
  ordered_from U (winit true) ns = true → p `prefix_of` ns →
  tip_covers (fs (spec_run U (wevents U p))) (w_tip (wrun U p)) = true.
Proof.
  intros Hord [k ->]. apply ordered_from_app in Hord.
  apply tip_covers_spec.
  apply (ordered_covers_from U p (winit true) {| fs := empty_facts; sclock := 0 |}); [|done].
  intros t hh b Hl. simpl in Hl. by rewrite lookup_empty in Hl.
Qed.

Theorem wallet_c01_ordered (U : universe) (ns p : list wnotif) :
  wf_universe U = true → chain_consistent U (wevents U ns) = true →
  ordered_from U (winit true) ns = true → p `prefix_of` ns →
  let w := wrun U p in
  let F := fs (spec_run U (wevents U p)) in
  let now := clock (w_m w) in
  (∀ minconf, 0 <= minconf → calculate_balance U w minconf = spec_balance U F minconf (w_tip w) now) ∧
  (∀ minconf maxconf, list_unspent U w minconf maxconf ≡ₚ list_unspent_of (w_tip w) minconf maxconf (spec_utxos U F now)) ∧
  (∀ minconf, wallet_unspent U w minconf ≡ₚ wallet_unspent_of (w_tip w) minconf (spec_utxos U F now)).
Proof.
  intros Hwf Hc Hord Hp. apply (wallet_c01 U ns p Hwf Hc Hp). by apply (ordered_tip_covers U ns p).
Qed.

(** C02 at the wallet layer: two notification histories (any interleaving of
    connects, tip-down disconnects, stale notifications, relevant
    transactions in any of the three delivery orders) whose store-level
    images are chain-consistent and establish the same facts leave stores
    that report the same balances, spendable outputs and details. *)
Theorem wallet_c02 (U : universe) (ns1 ns2 : list wnotif) :
  wf_universe U = true →
  chain_consistent U (wevents U ns1) = true → chain_consistent U (wevents U ns2) = true →
  same_facts (fs (spec_run U (wevents U ns1))) (fs (spec_run U (wevents U ns2))) →
  let s1 := st (w_m (wrun U ns1)) in let s2 := st (w_m (wrun U ns2)) in
  (∀ minconf sync now, 0 <= minconf →
     (∀ t hh b, f_conf (fs (spec_run U (wevents U ns1))) !! t = Some (hh, b) → hh <= sync) →
     balance U s1 minconf sync now = balance U s2 minconf sync now) ∧
  (∀ now, unspent_outputs U s1 now ≡ₚ unspent_outputs U s2 now) ∧
  (∀ t, tx_details U s1 t = tx_details U s2 t).
Proof.
  intros Hwf H1 H2 Hs. cbn zeta. rewrite !wrun_store. by apply c02_holds.
Qed.

(** What [disconnectBlock] does to the store: nothing, or exactly
    [Rollback(height)] - the latter precisely when the wallet is synced, the
    height is at or below the synced height, the recorded hash at that height
    is the block's, and the parent's hash is recorded. *)
Lemma wallet_disconnect_is_rollback U w h bhash :
  w_m (wstep U w (WDisconnect h bhash)).1 = w_m w ∨
  (disconnect_applies w h bhash = Some true ∧
   w_m (wstep U w (WDisconnect h bhash)).1 = (step U (w_m w) (Disconnect h)).1 ∧
   w_tip (wstep U w (WDisconnect h bhash)).1 = h - 1).
Proof.
  cbn [wstep]. destruct (disconnect_applies w h bhash) as [[|]|] eqn:Ed; simpl; try by left.
  destruct (w_hashes w !! (h - 1)) as [ph|]; simpl; [|by left].
  destruct (set_synced_to (h - 1) ph w) as [w'|] eqn:Es; simpl; [|by left].
  cbn [store_steps]. destruct (step U (w_m w) (Disconnect h)) as [m1 o] eqn:Est.
  destruct o; cbn [fst snd w_m with_m]; try by left.
  all: right; split; [done|]; split; [done|]; cbn [w_tip with_m]; by apply set_synced_to_tip in Es.
Qed.
