(** An abstract validating node together with the way the wallet is notified:
    a labelled transition system over a fixed universe [U].  Every transition
    carries the list of wallet events ([Hist.event]) it emits; [emits U evs]
    says that [evs] is the concatenation of the events of some run from the
    initial state.  [NodeProofs.node_emits_consistent] proves that every such
    [evs] satisfies [Hist.chain_consistent] - i.e. the hypothesis of
    C01/C02/C13 covers every history this node can produce.

    Definitions only; proofs are in [NodeProofs.v].  Owner: prover-node. *)
From stdpp Require Import gmap list numbers sorting.
From Coq Require Import ZArith NArith.
From Verif Require Import Tx.Store Tx.Ledger Tx.Hist.
Local Open Scope Z_scope.

(** A block of the best chain, restricted to the transactions of the
    universe (the wallet-relevant ones): height, hash id, time, members in
    block order. *)
Record nblock := { nb_height : Z; nb_hash : N; nb_time : Z; nb_txs : list txid }.

(** Node state: the best chain (TIP FIRST; blocks without universe
    transactions may simply be absent, so heights may have gaps), the mempool,
    and - as ghost state - the wallet's ledger state (facts and clock) after
    the notifications delivered so far. *)
Record nstate := {
  n_chain : list nblock;
  n_pool : gset N;
  n_w : sstate;
}.

Definition init_nstate : nstate :=
  {| n_chain := []; n_pool := ∅; n_w := {| fs := empty_facts; sclock := 0 |} |}.

(** All chain transactions, oldest block first, block order inside a block:
    the position in this list is the position in the chain. *)
Fixpoint chain_txs (c : list nblock) : list txid :=
  match c with
  | [] => []
  | b :: c' => chain_txs c' ++ nb_txs b
  end.

Definition tip_height (c : list nblock) : Z :=
  match c with [] => -1 | b :: _ => nb_height b end.

(** heights strictly increasing towards the tip, all >= 0 *)
Fixpoint chain_sorted (c : list nblock) : Prop :=
  match c with
  | [] => True
  | b :: c' => tip_height c' < nb_height b ∧ chain_sorted c'
  end.

Definition chain_hashes (c : list nblock) : list N := map nb_hash c.

(** [t] is a member of the block (h, bh) of the chain *)
Definition in_chain (c : list nblock) (t : txid) (h : Z) (bh : N) : Prop :=
  ∃ b, b ∈ c ∧ t ∈ nb_txs b ∧ nb_height b = h ∧ nb_hash b = bh.

(** The mempool as facts, to reuse [Ledger.descendants]: evicting [roots]
    removes every mempool transaction reachable from a root by spends among
    mempool transactions (roots need not be in the mempool themselves). *)
Definition pool_facts (M : gset N) : facts :=
  {| f_conf := ∅; f_unconf := M; f_leases := ∅ |}.

Section node.
  Context (U : universe).

  Definition evict (M : gset N) (roots : list txid) : gset N :=
    f_unconf (remove_unconf_with_descendants U (pool_facts M) roots).

  (** ** Validity of the node state *)

  (** no outpoint is spent by two transactions of the list *)
  Definition no_double_spend (l : list txid) : Prop :=
    ∀ t1 t2 op, t1 ∈ l → t2 ∈ l → op ∈ tx_ins U t1 → op ∈ tx_ins U t2 → t1 = t2.

  (** every input that names a universe transaction names one at a strictly
      earlier position *)
  Definition parents_first (l : list txid) : Prop :=
    ∀ l1 t l2 op, l = l1 ++ t :: l2 → op ∈ tx_ins U t → is_Some (U !! op.1) → op.1 ∈ l1.

  (** a coinbase transaction can only be the first member of a block *)
  Definition block_cb_ok (b : nblock) : Prop :=
    ∀ l1 t l2, nb_txs b = l1 ++ t :: l2 → is_coinbase U t = true → l1 = [].

  Record chain_ok (c : list nblock) : Prop := {
    co_sorted : chain_sorted c;
    co_nodup : NoDup (chain_txs c);
    co_univ : ∀ t, t ∈ chain_txs c → is_Some (U !! t);
    co_nds : no_double_spend (chain_txs c);
    co_pf : parents_first (chain_txs c);
    co_cb : Forall block_cb_ok c;
  }.

  Record pool_ok (c : list nblock) (M : gset N) : Prop := {
    po_univ : ∀ m, m ∈ M → is_Some (U !! m);
    po_fresh : ∀ m, m ∈ M → m ∉ chain_txs c;
    po_nocb : ∀ m, m ∈ M → is_coinbase U m = false;
    (* no mempool transaction spends an outpoint spent in the chain *)
    po_chain : ∀ t m op, t ∈ chain_txs c → m ∈ M → op ∈ tx_ins U t → op ∉ tx_ins U m;
    (* no two mempool transactions conflict (replacement = eviction) *)
    po_nds : ∀ m1 m2 op, m1 ∈ M → m2 ∈ M → op ∈ tx_ins U m1 → op ∈ tx_ins U m2 → m1 = m2;
    (* universe parents of a mempool transaction are in the chain or the mempool *)
    po_parents : ∀ m op, m ∈ M → op ∈ tx_ins U m → is_Some (U !! op.1) →
                 op.1 ∈ chain_txs c ∨ op.1 ∈ M;
  }.

  Definition nvalid (s : nstate) : Prop :=
    chain_ok (n_chain s) ∧ pool_ok (n_chain s) (n_pool s).

  (** ** Transitions *)

  Definition wallet_after (w : sstate) (evs : list event) : sstate :=
    foldl (spec_step U) w evs.

  (** mempool transactions that share an input with a member of [l] *)
  Definition conflicting (l : list txid) (M : gset N) : list txid :=
    filter (fun m => existsb (fun t => conflicts U t m) l) (elements M).

  (** accept: conflicting mempool transactions are replaced, i.e. evicted
      together with their mempool descendants *)
  Definition accept_pool (M : gset N) (t : txid) : gset N :=
    {[t]} ∪ evict M (conflicting [t] M).

  (** mine: members leave the mempool; mempool transactions conflicting with
      a member are evicted with their descendants *)
  Definition mine_pool (M : gset N) (blk : nblock) : gset N :=
    let M1 := M ∖ list_to_set (nb_txs blk) in
    evict M1 (conflicting (nb_txs blk) M1).

  (** reorg: non-coinbase transactions of the removed blocks return to the
      mempool, coinbase transactions vanish and everything that (transitively)
      spends them is evicted *)
  Definition reorg_pool (M : gset N) (removed : list nblock) : gset N :=
    let l := chain_txs removed in
    let back := filter (fun t => negb (is_coinbase U t)) l in
    let cbs := filter (fun t => is_coinbase U t) l in
    evict (M ∪ list_to_set back) cbs.

  (** [Confirm] notifications of a block: every member, in block order, each
      delivered one or more times *)
  Inductive confirm_seq (blk : nblock) : list txid → list event → Prop :=
  | cs_nil : confirm_seq blk [] []
  | cs_cons t l k evs :
      confirm_seq blk l evs →
      confirm_seq blk (t :: l)
        (replicate (S k) (Confirm t (nb_height blk) (nb_hash blk) (nb_time blk)) ++ evs).

  (** [Disconnect] notifications of a reorg that removes [removed] above
      [surv]: any sequence of rollback heights that never touches a surviving
      block and at least once reaches the lowest removed block.  This covers
      a single [Disconnect h] with h in (tip of surv, lowest removed height],
      the tip-down sequence with one [Disconnect] per removed block (the last
      one again with any such h), and any repeated / stale [Disconnect] in
      between (see [NodeProofs.disc_ok_single], [disc_ok_tipdown],
      [disc_ok_insert]). *)
  Definition disc_ok (removed surv : list nblock) (hs : list Z) : Prop :=
    Forall (fun h => tip_height surv < h) hs ∧
    Exists (fun h => Forall (fun b => h <= nb_height b) removed) hs.

  Inductive nstep : nstate → list event → nstate → Prop :=
  (* a new transaction enters the mempool; the wallet is told, or not *)
  | ns_accept s t x (announce : bool) :
      U !! t = Some x → t_coinbase x = false →
      t ∉ chain_txs (n_chain s) → t ∉ n_pool s →
      (∀ op, op ∈ t_ins x →
         (∀ c, c ∈ chain_txs (n_chain s) → op ∉ tx_ins U c) ∧
         (is_Some (U !! op.1) →
            op.1 ∈ chain_txs (n_chain s) ∨ op.1 ∈ evict (n_pool s) (conflicting [t] (n_pool s)))) →
      nstep s (if announce then [Seen t] else [])
        {| n_chain := n_chain s; n_pool := accept_pool (n_pool s) t;
           n_w := wallet_after (n_w s) (if announce then [Seen t] else []) |}
  (* a new block on top of the chain: any list of universe transactions that
     keeps the chain valid (optional coinbase first; parents first; mempool
     members and never-announced transactions alike) *)
  | ns_mine s blk evs :
      chain_ok (blk :: n_chain s) →
      nb_hash blk ∉ chain_hashes (n_chain s) →
      confirm_seq blk (nb_txs blk) evs →
      nstep s evs
        {| n_chain := blk :: n_chain s; n_pool := mine_pool (n_pool s) blk;
           n_w := wallet_after (n_w s) evs |}
  (* the top d >= 1 blocks are removed *)
  | ns_reorg s (d : nat) hs :
      (1 ≤ d ≤ length (n_chain s))%nat →
      disc_ok (take d (n_chain s)) (drop d (n_chain s)) hs →
      nstep s (map Disconnect hs)
        {| n_chain := drop d (n_chain s); n_pool := reorg_pool (n_pool s) (take d (n_chain s));
           n_w := wallet_after (n_w s) (map Disconnect hs) |}
  (* the node drops a mempool transaction (expiry, size limit) with its descendants *)
  | ns_expire s t :
      t ∈ n_pool s →
      nstep s []
        {| n_chain := n_chain s; n_pool := evict (n_pool s) [t]; n_w := n_w s |}
  (* a mempool transaction is announced (again) *)
  | ns_reannounce s t :
      t ∈ n_pool s →
      nstep s [Seen t]
        {| n_chain := n_chain s; n_pool := n_pool s; n_w := wallet_after (n_w s) [Seen t] |}
  (* a late or wallet-originated mempool notification for a transaction the
     node does not (or no longer) hold in its mempool: evicted, replaced,
     expired, already mined, or created by the wallet itself and refused by
     the node.  The only thing that can not happen is a notification for an
     unknown transaction that contradicts the chain. *)
  | ns_stale_seen s t x :
      U !! t = Some x → t_coinbase x = false →
      (known (fs (n_w s)) t = true ∨
       (t ∉ chain_txs (n_chain s) ∧
        ∀ op c, op ∈ t_ins x → c ∈ chain_txs (n_chain s) → op ∉ tx_ins U c)) →
      nstep s [Seen t]
        {| n_chain := n_chain s; n_pool := n_pool s; n_w := wallet_after (n_w s) [Seen t] |}
  (* a chain transaction is notified again (rescan, duplicate delivery) *)
  | ns_reconfirm s b t :
      b ∈ n_chain s → t ∈ nb_txs b →
      nstep s [Confirm t (nb_height b) (nb_hash b) (nb_time b)]
        {| n_chain := n_chain s; n_pool := n_pool s;
           n_w := wallet_after (n_w s) [Confirm t (nb_height b) (nb_hash b) (nb_time b)] |}
  (* a stale rollback notification above the tip *)
  | ns_stale_disconnect s h :
      tip_height (n_chain s) < h →
      nstep s [Disconnect h]
        {| n_chain := n_chain s; n_pool := n_pool s; n_w := wallet_after (n_w s) [Disconnect h] |}
  (* wallet-initiated events: no node change *)
  | ns_abandon s t :
      t ∈ f_unconf (fs (n_w s)) →
      nstep s [Abandon t]
        {| n_chain := n_chain s; n_pool := n_pool s; n_w := wallet_after (n_w s) [Abandon t] |}
  | ns_redeliver s t ob :
      event_ok U (fs (n_w s)) (Redeliver t ob) = true →
      nstep s [Redeliver t ob]
        {| n_chain := n_chain s; n_pool := n_pool s; n_w := wallet_after (n_w s) [Redeliver t ob] |}
  | ns_lease s id op dur :
      0 <= dur →
      nstep s [Lease id op dur]
        {| n_chain := n_chain s; n_pool := n_pool s; n_w := wallet_after (n_w s) [Lease id op dur] |}
  | ns_release s id op :
      nstep s [Release id op]
        {| n_chain := n_chain s; n_pool := n_pool s; n_w := wallet_after (n_w s) [Release id op] |}
  | ns_tick s dt :
      0 <= dt →
      nstep s [Tick dt]
        {| n_chain := n_chain s; n_pool := n_pool s; n_w := wallet_after (n_w s) [Tick dt] |}
  | ns_sweep s :
      nstep s [Sweep]
        {| n_chain := n_chain s; n_pool := n_pool s; n_w := wallet_after (n_w s) [Sweep] |}.

  (** reflexive-transitive closure, concatenating the emitted events *)
  Inductive nsteps : nstate → list event → nstate → Prop :=
  | nsteps_refl s : nsteps s [] s
  | nsteps_step s1 l1 s2 l2 s3 :
      nsteps s1 l1 s2 → nstep s2 l2 s3 → nsteps s1 (l1 ++ l2) s3.

  Definition reachable (evs : list event) (s : nstate) : Prop := nsteps init_nstate evs s.

  Definition emits (evs : list event) : Prop := ∃ s, reachable evs s.
End node.

(** * An executable version of the node

    [exec U s a] checks the side conditions of the transition named by the
    action [a] and returns the successor state with the emitted events
    ([NodeProofs.exec_sound]: every successful [exec] is an [nstep]).  It is
    used to exhibit concrete runs by computation. *)

Inductive action :=
| AAccept (t : txid) (announce : bool)
| AMine (blk : nblock) (reps : list nat)   (* reps: extra deliveries per member *)
| AReorg (d : nat) (hs : list Z)
| AExpire (t : txid)
| AReannounce (t : txid)
| AStaleSeen (t : txid)
| AReconfirm (i : nat) (t : txid)          (* block number i from the tip *)
| AStaleDisconnect (h : Z)
| AWallet (e : event).                     (* Abandon / Redeliver / Lease / Release / Tick / Sweep *)

Section exec.
  Context (U : universe).

  Fixpoint sorted_b (c : list nblock) : bool :=
    match c with
    | [] => true
    | b :: c' => bool_decide (tip_height c' < nb_height b) && sorted_b c'
    end.

  Definition nds_b (l : list txid) : bool :=
    forallb (fun t1 =>
      forallb (fun t2 =>
        forallb (fun op => negb (spends U t2 op) || bool_decide (t1 = t2)) (tx_ins U t1)) l) l.

  Fixpoint pf_b (pre l : list txid) : bool :=
    match l with
    | [] => true
    | t :: l' =>
      forallb (fun op : outpoint =>
                 negb (bool_decide (is_Some (U !! op.1))) || bool_decide (op.1 ∈ pre)) (tx_ins U t)
      && pf_b (pre ++ [t]) l'
    end.

  Definition block_cb_b (b : nblock) : bool :=
    match nb_txs b with
    | [] => true
    | _ :: tl => forallb (fun t => negb (is_coinbase U t)) tl
    end.

  Definition chain_ok_b (c : list nblock) : bool :=
    sorted_b c && bool_decide (NoDup (chain_txs c)) &&
    forallb (fun t => bool_decide (is_Some (U !! t))) (chain_txs c) &&
    nds_b (chain_txs c) && pf_b [] (chain_txs c) && forallb block_cb_b c.

  Definition accept_ok_b (c : list nblock) (M : gset N) (t : txid) : bool :=
    match U !! t with
    | None => false
    | Some x =>
      negb (t_coinbase x) && bool_decide (t ∉ chain_txs c) && bool_decide (t ∉ M) &&
      forallb (fun op : outpoint =>
        forallb (fun c' => negb (spends U c' op)) (chain_txs c) &&
        (negb (bool_decide (is_Some (U !! op.1))) ||
         bool_decide (op.1 ∈ chain_txs c) ||
         bool_decide (op.1 ∈ evict U M (conflicting U [t] M)))) (t_ins x)
    end.

  Fixpoint confirm_evs (blk : nblock) (l : list txid) (reps : list nat) : list event :=
    match l with
    | [] => []
    | t :: l' =>
      replicate (S (hd O reps)) (Confirm t (nb_height blk) (nb_hash blk) (nb_time blk))
      ++ confirm_evs blk l' (tl reps)
    end.

  Global Instance disc_ok_dec removed surv hs : Decision (disc_ok removed surv hs).
  Proof. unfold disc_ok. apply _. Defined.

  Definition wallet_event_ok (F : facts) (e : event) : bool :=
    match e with
    | Abandon _ | Redeliver _ _ | Lease _ _ _ | Release _ _ | Tick _ | Sweep => event_ok U F e
    | _ => false
    end.

  Definition same_node (s : nstate) (evs : list event) : nstate :=
    {| n_chain := n_chain s; n_pool := n_pool s; n_w := wallet_after U (n_w s) evs |}.

  Definition exec (s : nstate) (a : action) : option (nstate * list event) :=
    match a with
    | AAccept t announce =>
      if accept_ok_b (n_chain s) (n_pool s) t then
        let evs := if announce then [Seen t] else [] in
        Some ({| n_chain := n_chain s; n_pool := accept_pool U (n_pool s) t;
                 n_w := wallet_after U (n_w s) evs |}, evs)
      else None
    | AMine blk reps =>
      if chain_ok_b (blk :: n_chain s) && bool_decide (nb_hash blk ∉ chain_hashes (n_chain s)) then
        let evs := confirm_evs blk (nb_txs blk) reps in
        Some ({| n_chain := blk :: n_chain s; n_pool := mine_pool U (n_pool s) blk;
                 n_w := wallet_after U (n_w s) evs |}, evs)
      else None
    | AReorg d hs =>
      if bool_decide (1 ≤ d ≤ length (n_chain s))%nat &&
         bool_decide (disc_ok (take d (n_chain s)) (drop d (n_chain s)) hs) then
        Some ({| n_chain := drop d (n_chain s);
                 n_pool := reorg_pool U (n_pool s) (take d (n_chain s));
                 n_w := wallet_after U (n_w s) (map Disconnect hs) |}, map Disconnect hs)
      else None
    | AExpire t =>
      if bool_decide (t ∈ n_pool s) then
        Some ({| n_chain := n_chain s; n_pool := evict U (n_pool s) [t]; n_w := n_w s |}, [])
      else None
    | AReannounce t =>
      if bool_decide (t ∈ n_pool s) then Some (same_node s [Seen t], [Seen t]) else None
    | AStaleSeen t =>
      match U !! t with
      | Some x =>
        if negb (t_coinbase x) &&
           (known (fs (n_w s)) t ||
            (bool_decide (t ∉ chain_txs (n_chain s)) &&
             forallb (fun op => forallb (fun c => negb (spends U c op)) (chain_txs (n_chain s)))
                     (t_ins x)))
        then Some (same_node s [Seen t], [Seen t]) else None
      | None => None
      end
    | AReconfirm i t =>
      match n_chain s !! i with
      | Some b =>
        if bool_decide (t ∈ nb_txs b) then
          let e := Confirm t (nb_height b) (nb_hash b) (nb_time b) in Some (same_node s [e], [e])
        else None
      | None => None
      end
    | AStaleDisconnect h =>
      if bool_decide (tip_height (n_chain s) < h) then
        Some (same_node s [Disconnect h], [Disconnect h])
      else None
    | AWallet e =>
      if wallet_event_ok (fs (n_w s)) e then Some (same_node s [e], [e]) else None
    end.

  Fixpoint exec_all (s : nstate) (acts : list action) : option (nstate * list event) :=
    match acts with
    | [] => Some (s, [])
    | a :: acts' =>
      match exec s a with
      | None => None
      | Some (s1, l1) =>
        match exec_all s1 acts' with
        | None => None
        | Some (s2, l2) => Some (s2, l1 ++ l2)
        end
      end
    end.
End exec.
