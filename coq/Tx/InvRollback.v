(** [step_preserves U (Disconnect h)]: [Store.rollback] re-establishes the
    refinement invariant for [Ledger.spec_disconnect].  (owner: prover-rollback)

    Structure:
    - general helpers (sums over [map_to_list], facts drawn from [wf_universe]);
    - [InvG]: the invariant generalised over six predicates saying which
      mined records / debits / credits have already been removed and which
      unmined records / inputs / credits have already been added.  Every
      primitive mutation of [rollback_tx] changes one predicate by one point;
    - [InvD done] := [InvG] for the parameters determined by the set [done]
      of already detached transactions.  It is ORDER INDEPENDENT: a debit of a
      still-mined transaction may point to a credit that is gone (its parent
      is in [done]); that is the [amt = 0] branch;
    - the loop over blocks, deletion of the block records, [Inv] for the facts
      in which the coinbase descendants are still present;
    - the coinbase-descendant phase through [remove_conflict_correct]. *)
From stdpp Require Import gmap list numbers sorting.
From Coq Require Import ZArith NArith Lia.
From Verif Require Import Tx.Store Tx.Ledger Tx.Hist Tx.Inv.
Local Open Scope Z_scope.

(** * General helpers *)

Lemma rb_sumZ_perm l1 l2 : l1 ≡ₚ l2 → sumZ l1 = sumZ l2.
Proof. unfold sumZ. induction 1; simpl; lia. Qed.

Definition usum (U : gmap N tx) (m : gmap (N * N) (Z * N)) : Z :=
  sumZ (map (fun kv : (N * N) * (Z * N) => amount_of U kv.1) (map_to_list m)).

Lemma usum_insert U m k v : m !! k = None → usum U (<[k := v]> m) = amount_of U k + usum U m.
Proof.
  intros Hk. unfold usum.
  rewrite (rb_sumZ_perm _ _ (fmap_Permutation _ _ _ (map_to_list_insert m k v Hk))).
  reflexivity.
Qed.

Lemma usum_delete U m k v : m !! k = Some v → usum U m = amount_of U k + usum U (delete k m).
Proof.
  intros Hk. unfold usum.
  rewrite <- (rb_sumZ_perm _ _ (fmap_Permutation _ _ _ (map_to_list_delete m k v Hk))).
  reflexivity.
Qed.

Lemma rb_forallb_elem {A} (f : A → bool) l x : forallb f l = true → x ∈ l → f x = true.
Proof.
  intros Hf Hx. rewrite forallb_forall in Hf. apply Hf. by apply elem_of_list_In.
Qed.

Lemma rb_elem_indices {A} (l : list A) (i : N) : i ∈ indices l ↔ (N.to_nat i < length l)%nat.
Proof.
  unfold indices. rewrite elem_of_list_fmap. split.
  - intros (n & -> & Hn). apply elem_of_seq in Hn. rewrite Nat2N.id. lia.
  - intros Hi. exists (N.to_nat i). split; [by rewrite N2Nat.id|]. apply elem_of_seq. lia.
Qed.

Lemma rb_NoDup_indices {A} (l : list A) : NoDup (indices l).
Proof.
  unfold indices. apply NoDup_fmap_2; [|apply NoDup_seq].
  intros a b Hab. by apply Nat2N.inj.
Qed.

Lemma rb_zip_indices_lookup {A} (l : list A) (j : N) (x : A) :
  (j, x) ∈ zip (indices l) l ↔ l !! N.to_nat j = Some x.
Proof.
  unfold indices.
  assert (Hgen : ∀ (l : list A) k, (j, x) ∈ zip (map N.of_nat (seq k (length l))) l ↔
            (k ≤ N.to_nat j)%nat ∧ l !! (N.to_nat j - k)%nat = Some x).
  { clear l. induction l as [|a l IH]; intros k; simpl.
    - split; [by intros ?%elem_of_nil|]. intros [_ Hl]. by rewrite lookup_nil in Hl.
    - rewrite elem_of_cons, IH. split.
      + intros [Heq|[Hk Hl]].
        * injection Heq as -> ->. rewrite Nat2N.id. split; [lia|]. by rewrite Nat.sub_diag.
        * split; [lia|]. replace (N.to_nat j - k)%nat with (S (N.to_nat j - S k)) by lia. done.
      + intros [Hk Hl]. destruct (decide (N.to_nat j = k)) as [Hjk|Hjk].
        * left. rewrite Hjk, Nat.sub_diag in Hl. simpl in Hl. injection Hl as ->.
          f_equal. rewrite <- Hjk. by rewrite N2Nat.id.
        * right. split; [lia|].
          replace (N.to_nat j - k)%nat with (S (N.to_nat j - S k)) in Hl by lia. done. }
  rewrite Hgen. rewrite Nat.sub_0_r. split; [by intros [_ ?]|]. intros ?; split; [lia|done].
Qed.

(** * Facts drawn from [wf_universe] *)

Section wfu.
  Context (U : gmap N tx) (HwfU : wf_universe U = true).

  Lemma rb_wf_tx k x : U !! k = Some x → wf_tx k x = true.
  Proof.
    intros Hk. unfold wf_universe in HwfU.
    apply andb_true_iff in HwfU as [HwfU _]. apply andb_true_iff in HwfU as [_ Hall].
    apply (rb_forallb_elem _ _ (k, x) Hall). by apply elem_of_map_to_list.
  Qed.

  Lemma rb_wf_parts k x : U !! k = Some x →
    t_id x = k ∧ NoDup (t_ins x) ∧ (∀ a, a ∈ t_outs x → 0 < a) ∧
    (∀ ic, ic ∈ t_creds x → (N.to_nat ic.1 < length (t_outs x))%nat) ∧
    (t_coinbase x = true → t_ins x = []).
  Proof.
    intros Hk. pose proof (rb_wf_tx k x Hk) as Hw. unfold wf_tx in Hw.
    repeat (apply andb_true_iff in Hw as [Hw ?]).
    repeat split.
    - by apply bool_decide_eq_true in Hw.
    - match goal with H : bool_decide (NoDup (t_ins x)) = true |- _ => by apply bool_decide_eq_true in H end.
    - intros a Ha.
      match goal with H : forallb _ (t_outs x) = true |- _ =>
        pose proof (rb_forallb_elem _ _ a H Ha) as Hpos end.
      by apply bool_decide_eq_true in Hpos.
    - intros ic Hic.
      match goal with H : forallb _ (t_creds x) = true |- _ =>
        pose proof (rb_forallb_elem _ _ ic H Hic) as Hr end.
      by apply bool_decide_eq_true in Hr.
    - intros Hcb.
      match goal with H : (negb (t_coinbase x) || _) = true |- _ => rewrite Hcb in H; simpl in H;
        by apply bool_decide_eq_true in H end.
  Qed.

  Lemma rb_ins_in_range c x op p : U !! c = Some x → op ∈ t_ins x → U !! op.1 = Some p →
    (N.to_nat op.2 < length (t_outs p))%nat.
  Proof.
    intros Hc Hop Hp. unfold wf_universe in HwfU.
    apply andb_true_iff in HwfU as [_ Hr]. unfold ins_in_range_b in Hr.
    pose proof (rb_forallb_elem _ _ (c, x) Hr) as H1. simpl in H1.
    specialize (H1 ltac:(by apply elem_of_map_to_list)).
    pose proof (rb_forallb_elem _ _ op H1 Hop) as H2. simpl in H2. rewrite Hp in H2.
    by apply bool_decide_eq_true in H2.
  Qed.

  Lemma rb_credited_pos op chg : is_credited U op chg → 0 < amount_of U op.
  Proof.
    unfold is_credited, creds_of, amount_of. destruct (U !! op.1) as [x|] eqn:Hx; [|by intros ?%elem_of_nil].
    intros Hc. destruct (rb_wf_parts _ _ Hx) as (_ & _ & Hpos & Hr & _).
    specialize (Hr _ Hc). simpl in Hr. apply Hpos. unfold out_amount.
    apply elem_of_list_In. apply nth_In. done.
  Qed.

  Lemma rb_credited_in_range t x i chg : U !! t = Some x → is_credited U (t, i) chg →
    (N.to_nat i < length (t_outs x))%nat.
  Proof.
    unfold is_credited, creds_of. simpl. intros Hx. rewrite Hx. intros Hc.
    destruct (rb_wf_parts _ _ Hx) as (_ & _ & _ & Hr & _). by specialize (Hr _ Hc).
  Qed.

  Lemma rb_input_at_inj m j j' op : input_at U m j = Some op → input_at U m j' = Some op → j = j'.
  Proof.
    unfold input_at, tx_ins. destruct (U !! m) as [x|] eqn:Hx; [|by rewrite lookup_nil].
    intros H1 H2. destruct (rb_wf_parts _ _ Hx) as (_ & Hnd & _).
    apply N2Nat.inj. eapply NoDup_lookup; eauto.
  Qed.
End wfu.

Lemma rb_input_at_elem U m op : op ∈ tx_ins U m ↔ ∃ j, input_at U m j = Some op.
Proof.
  unfold input_at. rewrite elem_of_list_lookup. split.
  - intros [n Hn]. exists (N.of_nat n). by rewrite Nat2N.id.
  - intros [j Hj]. by exists (N.to_nat j).
Qed.

(** * The generalised invariant *)

Record prm := {
  pTR : N → Prop;            (* mined record removed *)
  pUM : N → Prop;            (* unmined record added *)
  pUI : N * N → N → Prop;    (* unmined input (outpoint, spender) added *)
  pDG : N → N * N → Prop;    (* debit of (spender, outpoint) removed *)
  pCG : N * N → Prop;        (* mined credit removed *)
  pUC : N * N → Prop;        (* unmined credit added *)
}.

Section invg.
  Context (U : gmap N tx) (F : facts) (B : gmap Z blockrec).

  Record InvG (P : prm) (s : store) (mb : Z) : Prop := {
    g_blocks : blocks s = B;
    g_txrecs : ∀ t h bh, is_Some (txrecs s !! (t, h, bh)) ↔ f_conf F !! t = Some (h, bh) ∧ ¬ pTR P t;
    g_unmined : ∀ t, is_Some (unmined s !! t) ↔ t ∈ f_unconf F ∨ pUM P t;
    g_credits_sound : ∀ t h bh i cv, credits s !! (t, h, bh, i) = Some cv →
        f_conf F !! t = Some (h, bh) ∧ ¬ pCG P (t, i) ∧ is_credited U (t, i) (c_change cv) ∧
        c_amt cv = amount_of U (t, i) ∧
        (c_spent cv = true ↔ ∃ m, conf_spender U F (t, i) m ∧ ¬ pDG P m (t, i));
    g_credits_complete : ∀ t h bh i chg, f_conf F !! t = Some (h, bh) → is_credited U (t, i) chg →
        ¬ pCG P (t, i) → is_Some (credits s !! (t, h, bh, i));
    g_unspent : ∀ op h bh, unspent s !! op = Some (h, bh) ↔
        (f_conf F !! op.1 = Some (h, bh) ∧ (∃ chg, is_credited U op chg) ∧ ¬ pCG P op ∧
         ¬ ∃ m, conf_spender U F op m ∧ ¬ pDG P m op);
    g_debits_sound : ∀ m h bh j a ck, debits s !! (m, h, bh, j) = Some (a, ck) →
        f_conf F !! m = Some (h, bh) ∧
        ∃ op ph pbh, input_at U m j = Some op ∧ ¬ pDG P m op ∧ (∃ chg, is_credited U op chg) ∧
                     f_conf F !! op.1 = Some (ph, pbh) ∧ ck = (op.1, ph, pbh, op.2) ∧ a = amount_of U op;
    g_debits_complete : ∀ m h bh j op ph pbh chg, f_conf F !! m = Some (h, bh) →
        input_at U m j = Some op → ¬ pDG P m op →
        is_credited U op chg → f_conf F !! op.1 = Some (ph, pbh) →
        is_Some (debits s !! (m, h, bh, j));
    g_unmined_credits : ∀ op a chg, unmined_credits s !! op = Some (a, chg) ↔
        ((op.1 ∈ f_unconf F ∨ pUC P op) ∧ is_credited U op chg ∧ a = amount_of U op);
    g_ui_sound : ∀ op l, unmined_inputs s !! op = Some l →
        l ≠ [] ∧ NoDup l ∧ ∀ u, u ∈ l ↔ (unconf_spender U F op u ∨ pUI P op u);
    g_ui_complete : ∀ op u, (unconf_spender U F op u ∨ pUI P op u) → is_Some (unmined_inputs s !! op);
    g_mb : mb = usum U (unspent s);
    g_locked : locked s = f_leases F;
  }.

  (** The parameters only matter on guarded points. *)
  Lemma InvG_equiv P P' s mb :
    InvG P s mb →
    (∀ t, pTR P t ↔ pTR P' t) →
    (∀ t, pUM P t ↔ pUM P' t) →
    (∀ op u, pUI P op u ↔ pUI P' op u) →
    (∀ m op, op ∈ tx_ins U m → (pDG P m op ↔ pDG P' m op)) →
    (∀ op chg, is_credited U op chg → (pCG P op ↔ pCG P' op)) →
    (∀ op chg, is_credited U op chg → (pUC P op ↔ pUC P' op)) →
    InvG P' s mb.
  Proof.
    intros [Hb Htr Hum Hcs Hcc Hus Hds Hdc Huc Huis Huic Hmb Hlo] HTR HUM HUI HDG HCG HUC.
    assert (Hsp : ∀ op, (∃ m, conf_spender U F op m ∧ ¬ pDG P m op) ↔
                        (∃ m, conf_spender U F op m ∧ ¬ pDG P' m op)).
    { intros op. split; intros (m & Hm & Hn); exists m; (split; [done|]);
        destruct Hm as [? Hin]; by rewrite (HDG m op Hin) in *. }
    constructor; try done.
    - intros t h bh. rewrite <- HTR. done.
    - intros t. rewrite <- HUM. done.
    - intros t h bh i cv Hc. destruct (Hcs _ _ _ _ _ Hc) as (H1 & H2 & H3 & H4 & H5).
      repeat split; try done.
      + by rewrite <- (HCG _ _ H3).
      + intros Hs. apply Hsp, H5, Hs.
      + intros Hs. apply H5, Hsp, Hs.
    - intros t h bh i chg H1 H2 H3. eapply Hcc; eauto. by rewrite (HCG _ _ H2).
    - intros op h bh. rewrite Hus. split.
      + intros (H1 & [chg H2] & H3 & H4). repeat split; eauto.
        * by rewrite <- (HCG _ _ H2).
        * by rewrite <- Hsp.
      + intros (H1 & [chg H2] & H3 & H4). repeat split; eauto.
        * by rewrite (HCG _ _ H2).
        * by rewrite Hsp.
    - intros m h bh j a ck Hd. destruct (Hds _ _ _ _ _ _ Hd) as (H1 & op & ph & pbh & H2 & H3 & H4).
      split; [done|]. exists op, ph, pbh. split; [done|]. split; [|done].
      rewrite <- HDG; [done|]. apply rb_input_at_elem. eauto.
    - intros m h bh j op ph pbh chg H1 H2 H3 H4 H5. eapply Hdc; eauto.
      rewrite HDG; [done|]. apply rb_input_at_elem. eauto.
    - intros op a chg. rewrite Huc. split.
      + intros (H1 & H2 & H3). repeat split; try done. by rewrite <- (HUC _ _ H2).
      + intros (H1 & H2 & H3). repeat split; try done. by rewrite (HUC _ _ H2).
    - intros op l Hl. destruct (Huis _ _ Hl) as (H1 & H2 & H3). repeat split; try done.
      + intros Hu. rewrite <- HUI. by apply H3.
      + intros Hu. apply H3. by rewrite HUI.
    - intros op u Hu. apply (Huic op u). by rewrite HUI.
  Qed.
End invg.

(** * The inner loops of [rollback_tx] as top-level functions *)

Definition rb_debit_part (h : N) (bh : Z) (bhash : N) (i : N) (op : N * N) (s'1 : store) (mb' : Z) : store * Z :=
  let dk : N * Z * N * N := (h, bh, bhash, i) in
  match debits s'1 !! dk with
  | None => (s'1, mb')
  | Some (_, ck) =>
    let '(amt, s'2) :=
      match credits s'1 !! ck with
      | None => (0, s'1)
      | Some cv => (c_amt cv,
                    set_credits (<[ck := {| c_amt := c_amt cv; c_spent := false; c_change := c_change cv; c_by := None |}]>) s'1)
      end in
    let s'3 := set_debits (delete dk) s'2 in
    if bool_decide (amt = 0) then (s'3, mb')
    else
      let '(ch, cheight, chash, _) := ck in
      (set_unspent (<[op := (cheight, chash)]>) s'3, mb' + amt)
  end.

Definition rb_step_in (h : N) (bh : Z) (bhash : N) (acc : store * Z) (ii : N * (N * N)) : store * Z :=
  let '(s', mb') := acc in
  let '(i, op) := ii in
  rb_debit_part h bh bhash i op (put_unmined_input op h s') mb'.

Definition rb_step_out (t : tx) (h : N) (bh : Z) (bhash : N) (acc : store * Z) (i : N) : store * Z :=
  let '(s', mb') := acc in
  let ck : N * Z * N * N := (h, bh, bhash, i) in
  match credits s' !! ck with
  | None => acc
  | Some cv =>
    let op : N * N := (h, i) in
    let s'1 := set_unmined_credits (<[op := (c_amt cv, c_change cv)]>) s' in
    let s'2 := set_credits (delete ck) s'1 in
    match cred_key_of_unspent s'2 op with
    | Some _ => (set_unspent (delete op) s'2, mb' - out_amount t i)
    | None => (s'2, mb')
    end
  end.

Definition rb_step_cb (t : tx) (h : N) (bh : Z) (bhash : N) (acc : store * Z * list (N * N)) (i : N)
  : store * Z * list (N * N) :=
  let '(s', mb', cbc') := acc in
  let ck : N * Z * N * N := (h, bh, bhash, i) in
  let op : N * N := (h, i) in
  match credits s' !! ck with
  | None => (s', mb', cbc' ++ [op])
  | Some _ =>
    let '(s'', mb'') :=
      match cred_key_of_unspent s' op with
      | Some _ => (set_unspent (delete op) s', mb' - out_amount t i)
      | None => (s', mb')
      end in
    (set_credits (delete ck) s'', mb'', cbc' ++ [op])
  end.

Lemma rollback_tx_unfold U bh bhash s mb cbc h :
  rollback_tx U bh bhash (s, mb, cbc) h =
  match U !! h with
  | None => (s, mb, cbc)
  | Some t =>
    let s1 := set_txrecs (delete (h, bh, bhash)) s in
    if t_coinbase t then foldl (rb_step_cb t h bh bhash) (s1, mb, cbc) (indices (t_outs t))
    else
      let s2 := set_unmined (<[h := tt]>) s1 in
      let '(s3, mb1) := foldl (rb_step_in h bh bhash) (s2, mb) (zip (indices (t_ins t)) (t_ins t)) in
      let '(s4, mb2) := foldl (rb_step_out t h bh bhash) (s3, mb1) (indices (t_outs t)) in
      (s4, mb2, cbc)
  end.
Proof. reflexivity. Qed.

Lemma rb_credited_chg_inj U (HwfU : wf_universe U = true) op c1 c2 :
  is_credited U op c1 → is_credited U op c2 → c1 = c2.
Proof.
  unfold is_credited, creds_of. destruct (U !! op.1) as [x|] eqn:Hx; [|by intros ?%elem_of_nil].
  pose proof (rb_wf_tx U HwfU _ _ Hx) as Hw. unfold wf_tx in Hw.
  repeat (apply andb_true_iff in Hw as [Hw ?]).
  assert (Hnd : NoDup (map fst (t_creds x))).
  { match goal with H : bool_decide (NoDup (map fst (t_creds x))) = true |- _ => by apply bool_decide_eq_true in H end. }
  intros [n1 Hn1]%elem_of_list_lookup [n2 Hn2]%elem_of_list_lookup.
  assert (n1 = n2) as ->.
  { eapply (NoDup_lookup _ n1 n2 op.2 Hnd); rewrite list_lookup_fmap.
    - by rewrite Hn1. - by rewrite Hn2. }
  congruence.
Qed.

(** * Primitive steps *)

Section steps.
  Context (U : gmap N tx) (HwfU : wf_universe U = true).
  Context (F : facts) (Hfw : facts_wf U F) (B : gmap Z blockrec).

  Lemma g_step_txrec P s mb t bh bhash :
    InvG U F B P s mb → f_conf F !! t = Some (bh, bhash) →
    InvG U F B {| pTR := λ x, pTR P x ∨ x = t; pUM := pUM P; pUI := pUI P;
                  pDG := pDG P; pCG := pCG P; pUC := pUC P |}
         (set_txrecs (delete (t, bh, bhash)) s) mb.
  Proof.
    intros [Hb Htr Hum Hcs Hcc Hus Hds Hdc Huc Huis Huic Hmb Hlo] Hc.
    constructor; simpl; try done.
    intros t' h' bh'. split.
    - intros [v Hv]. apply lookup_delete_Some in Hv as [Hne Hv].
      destruct (proj1 (Htr t' h' bh') (mk_is_Some _ _ Hv)) as [H1 H2]. split; [done|].
      intros [?|Heq]; [done|]. subst t'. rewrite Hc in H1. congruence.
    - intros [H1 H2]. rewrite lookup_delete_ne.
      + apply Htr. split; [done|]. tauto.
      + intros Heq. injection Heq as <- _ _. tauto.
  Qed.

  Lemma g_step_unmined P s mb t :
    InvG U F B P s mb →
    InvG U F B {| pTR := pTR P; pUM := λ x, pUM P x ∨ x = t; pUI := pUI P;
                  pDG := pDG P; pCG := pCG P; pUC := pUC P |}
         (set_unmined (<[t := tt]>) s) mb.
  Proof.
    intros [Hb Htr Hum Hcs Hcc Hus Hds Hdc Huc Huis Huic Hmb Hlo].
    constructor; simpl; try done.
    intros t'. destruct (decide (t' = t)) as [->|Hne].
    - rewrite lookup_insert. split; [tauto|]. by eexists.
    - rewrite lookup_insert_ne by done. rewrite Hum. tauto.
  Qed.

  Lemma g_step_put_input P s mb op t :
    InvG U F B P s mb → ¬ (unconf_spender U F op t ∨ pUI P op t) →
    InvG U F B {| pTR := pTR P; pUM := pUM P; pUI := λ o u, pUI P o u ∨ (o = op ∧ u = t);
                  pDG := pDG P; pCG := pCG P; pUC := pUC P |}
         (put_unmined_input op t s) mb.
  Proof.
    intros [Hb Htr Hum Hcs Hcc Hus Hds Hdc Huc Huis Huic Hmb Hlo] Hnew.
    constructor; simpl; try done.
    - intros op' l. destruct (decide (op' = op)) as [->|Hne].
      + rewrite lookup_insert. intros Hl. injection Hl as <-.
        destruct (unmined_inputs s !! op) as [l0|] eqn:Hl0; simpl.
        * destruct (Huis _ _ Hl0) as (H1 & H2 & H3). split; [by destruct l0|]. split.
          -- apply NoDup_app. split; [done|]. split; [|apply NoDup_singleton].
             intros x Hx ->%elem_of_list_singleton. apply Hnew. by apply H3.
          -- intros u. rewrite elem_of_app, elem_of_list_singleton, H3.
             split; [intros [[?|?]|?]; auto|intros [?|[?|[_ ?]]]; auto].
        * split; [done|]. split; [apply NoDup_singleton|].
          intros u. rewrite elem_of_list_singleton. split; [intros ->; right; right; done|].
          intros [Hu|[Hu|[_ ->]]]; [| |done].
          -- destruct (Huic op u (or_introl Hu)) as [? ?]. congruence.
          -- destruct (Huic op u (or_intror Hu)) as [? ?]. congruence.
      + rewrite lookup_insert_ne by done. intros Hl.
        destruct (Huis _ _ Hl) as (H1 & H2 & H3). repeat split; try done.
        * intros Hu. apply H3 in Hu. tauto.
        * intros [Hu|[Hu|[? _]]]; [apply H3; tauto|apply H3; tauto|done].
    - intros op' u Hu. destruct (decide (op' = op)) as [->|Hne].
      + rewrite lookup_insert. by eexists.
      + rewrite lookup_insert_ne by done. apply (Huic op' u).
        destruct Hu as [?|[?|[? _]]]; [by left|by right|done].
  Qed.
End steps.

Definition addDG (P : prm) (t : N) (op : N * N) : prm :=
  {| pTR := pTR P; pUM := pUM P; pUI := pUI P;
     pDG := λ m o, pDG P m o ∨ (m = t ∧ o = op); pCG := pCG P; pUC := pUC P |}.

Section step_debit.
  Context (U : gmap N tx) (HwfU : wf_universe U = true).
  Context (F : facts) (Hfw : facts_wf U F) (B : gmap Z blockrec).

  Lemma g_step_debit P s mb t bh bhash j op :
    InvG U F B P s mb → f_conf F !! t = Some (bh, bhash) → input_at U t j = Some op →
    InvG U F B (addDG P t op) (rb_debit_part t bh bhash j op s mb).1 (rb_debit_part t bh bhash j op s mb).2.
  Proof.
    intros [Hb Htr Hum Hcs Hcc Hus Hds Hdc Huc Huis Huic Hmb Hlo] Hc Hin.
    destruct op as [p i].
    assert (Hsp_t : conf_spender U F (p, i) t).
    { split; [rewrite Hc; eauto | apply rb_input_at_elem; eauto]. }
    assert (Hother : ∀ op', op' ≠ (p, i) →
              ((∃ m, conf_spender U F op' m ∧ ¬ pDG P m op') ↔
               (∃ m, conf_spender U F op' m ∧ ¬ (pDG P m op' ∨ m = t ∧ op' = (p, i))))).
    { intros op' Hne; split; intros (m & Hm & Hn); exists m; (split; [done|]).
      - intros [?|[_ ?]]; done.
      - intros ?; apply Hn; by left. }
    assert (Hnone : ¬ ∃ m, conf_spender U F (p, i) m ∧ ¬ (pDG P m (p, i) ∨ m = t ∧ (p, i) = (p, i))).
    { intros (m & Hm & Hn). apply Hn. right. split; [|done].
      eapply (fw_one_conf_spender U F Hfw); eauto. }
    assert (Hdsound' : ∀ m h0 bh0 j0 a0 ck0,
              (t, bh, bhash, j) ≠ (m, h0, bh0, j0) → debits s !! (m, h0, bh0, j0) = Some (a0, ck0) →
              f_conf F !! m = Some (h0, bh0) ∧
              ∃ op1 ph pbh, input_at U m j0 = Some op1 ∧ ¬ (pDG P m op1 ∨ m = t ∧ op1 = (p, i)) ∧
                (∃ chg, is_credited U op1 chg) ∧ f_conf F !! op1.1 = Some (ph, pbh) ∧
                ck0 = (op1.1, ph, pbh, op1.2) ∧ a0 = amount_of U op1).
    { intros m h0 bh0 j0 a0 ck0 Hne Hl.
      destruct (Hds _ _ _ _ _ _ Hl) as (H1 & op1 & ph1 & pbh1 & H2 & H3 & H4).
      split; [done|]. exists op1, ph1, pbh1. split; [done|]. split; [|done].
      intros [?|[-> ->]]; [done|]. apply Hne.
      assert (j0 = j) as -> by (eapply rb_input_at_inj; eauto).
      rewrite Hc in H1. by injection H1 as <- <-. }
    assert (Hdcomp' : ∀ m h0 bh0 j0 op1 ph1 pbh1 chg1, f_conf F !! m = Some (h0, bh0) →
              input_at U m j0 = Some op1 → ¬ (pDG P m op1 ∨ m = t ∧ op1 = (p, i)) →
              is_credited U op1 chg1 → f_conf F !! op1.1 = Some (ph1, pbh1) →
              is_Some (delete (t, bh, bhash, j) (debits s) !! (m, h0, bh0, j0))).
    { intros m h0 bh0 j0 op1 ph1 pbh1 chg1 H1 H2 H3 H4 H5.
      destruct (decide ((t, bh, bhash, j) = (m, h0, bh0, j0))) as [Heq|Hne].
      - injection Heq as <- <- <- <-. exfalso. apply H3. right. split; [done|]. congruence.
      - rewrite lookup_delete_ne by done. eapply Hdc; eauto. }
    unfold rb_debit_part.
    destruct (debits s !! (t, bh, bhash, j)) as [[a ck]|] eqn:Hd.
    - destruct (Hds _ _ _ _ _ _ Hd) as (_ & op0 & ph & pbh & Hin0 & HnDG & [chg Hcr] & Hpc & -> & ->).
      assert (op0 = (p, i)) as -> by congruence. simpl in Hpc. simpl.
      assert (Hunone : unspent s !! (p, i) = None).
      { destruct (unspent s !! (p, i)) as [[h0 bh0]|] eqn:Hu; [|done].
        apply Hus in Hu as (_ & _ & _ & Hno). exfalso. apply Hno. exists t. split; done. }
      destruct (credits s !! (p, ph, pbh, i)) as [cv|] eqn:Hcv.
      + (* the credit is still there: mark it unspent again *)
        destruct (Hcs _ _ _ _ _ Hcv) as (_ & HnCG & Hcr' & Hamt & Hspent).
        pose proof (rb_credited_pos U HwfU _ _ Hcr') as Hpos.
        case_bool_decide as Hz; [lia|]. simpl.
        constructor; simpl; try done.
        * intros t0 h0 bh0 i0 cv0 Hl.
          destruct (decide ((t0, h0, bh0, i0) = (p, ph, pbh, i))) as [Heq|Hne].
          -- injection Heq as -> -> -> ->. rewrite lookup_insert in Hl. injection Hl as <-. simpl.
             repeat split; try done.
          -- rewrite lookup_insert_ne in Hl by done.
             destruct (Hcs _ _ _ _ _ Hl) as (H1 & H2 & H3 & H4 & H5).
             repeat split; try done.
             ++ intros Hs. apply Hother; [|by apply H5].
                intros [= -> ->]. apply Hne. rewrite Hpc in H1. by injection H1 as <- <-.
             ++ intros Hs. apply H5. eapply Hother; [|done].
                intros [= -> ->]. apply Hne. rewrite Hpc in H1. by injection H1 as <- <-.
        * intros t0 h0 bh0 i0 chg0 H1 H2 H3.
          destruct (decide ((t0, h0, bh0, i0) = (p, ph, pbh, i))) as [Heq|Hne].
          -- rewrite Heq, lookup_insert. by eexists.
          -- rewrite lookup_insert_ne by done. eapply Hcc; eauto.
        * intros op' h0 bh0. destruct (decide (op' = (p, i))) as [->|Hne].
          -- rewrite lookup_insert. simpl. split.
             ++ intros [= <- <-]. repeat split; eauto.
             ++ intros (H1 & _). rewrite Hpc in H1. congruence.
          -- rewrite lookup_insert_ne by done. rewrite Hus.
             split; intros (H1 & H2 & H3 & H4); repeat split; try done.
             ++ intros Hex. apply H4. by apply Hother.
             ++ intros Hex. apply H4. by apply Hother.
        * intros m h0 bh0 j0 a0 ck0 Hl. apply lookup_delete_Some in Hl as [Hne Hl]. eauto.
        * rewrite usum_insert by done. rewrite Hamt, Hmb. lia.
      + (* the credit is already gone: amount 0 *)
        simpl. constructor; simpl; try done.
        * intros t0 h0 bh0 i0 cv0 Hl.
          destruct (Hcs _ _ _ _ _ Hl) as (H1 & H2 & H3 & H4 & H5).
          assert (Hne : (t0, i0) ≠ (p, i)).
          { intros [= -> ->]. rewrite Hpc in H1. injection H1 as <- <-. congruence. }
          repeat split; try done.
          ++ intros Hs. apply Hother; [done|by apply H5].
          ++ intros Hs. apply H5. by eapply Hother.
        * intros op' h0 bh0. destruct (decide (op' = (p, i))) as [->|Hne].
          -- rewrite Hunone. split; [done|]. simpl. intros (H1 & [chg' H2] & H3 & _). exfalso.
             destruct (Hcc p _ _ i chg' H1 H2 H3) as [? Hx].
             rewrite Hpc in H1. injection H1 as <- <-. congruence.
          -- rewrite Hus.
             split; intros (H1 & H2 & H3 & H4); repeat split; try done.
             ++ intros Hex. apply H4. by apply Hother.
             ++ intros Hex. apply H4. by apply Hother.
        * intros m h0 bh0 j0 a0 ck0 Hl. apply lookup_delete_Some in Hl as [Hne Hl]. eauto.
    - (* not a debit: nothing recorded for this input *)
      simpl.
      assert (Hgone : ∀ chg ph pbh, is_credited U (p, i) chg → f_conf F !! p = Some (ph, pbh) →
                ¬ ∃ m, conf_spender U F (p, i) m ∧ ¬ pDG P m (p, i)).
      { intros chg ph pbh H1 H2 (m & Hm & Hn).
        assert (m = t) as -> by (eapply (fw_one_conf_spender U F Hfw); eauto).
        destruct (Hdc t bh bhash j (p, i) ph pbh chg Hc Hin Hn H1 H2) as [? Hx]. congruence. }
      constructor; simpl; try done.
      + intros t0 h0 bh0 i0 cv0 Hl.
        destruct (Hcs _ _ _ _ _ Hl) as (H1 & H2 & H3 & H4 & H5).
        repeat split; try done.
        * intros Hs. apply H5 in Hs. destruct (decide ((t0, i0) = (p, i))) as [Heq|Hne].
          -- injection Heq as -> ->. destruct (Hgone _ _ _ H3 H1 Hs).
          -- by apply Hother.
        * intros Hs. apply H5. destruct (decide ((t0, i0) = (p, i))) as [Heq|Hne].
          -- injection Heq as -> ->. destruct (Hnone Hs).
          -- by eapply Hother.
      + intros op' h0 bh0. rewrite Hus.
        split; intros (H1 & [chg' H2] & H3 & H4); repeat split; eauto.
        * intros Hex. destruct (decide (op' = (p, i))) as [->|Hne]; [destruct (Hnone Hex)|].
          apply H4. by apply Hother.
        * intros Hex. destruct (decide (op' = (p, i))) as [->|Hne]; [destruct (Hgone _ _ _ H2 H1 Hex)|].
          apply H4. by apply Hother.
      + intros m h0 bh0 j0 a0 ck0 Hl. apply Hdsound'; [|done].
        intros Heq. rewrite <- Heq in Hl. congruence.
      + intros m h0 bh0 j0 op1 ph1 pbh1 chg1 H1 H2 H3 H4 H5. eapply Hdc; eauto.
  Qed.
End step_debit.

Definition addCG (P : prm) (op : N * N) : prm :=
  {| pTR := pTR P; pUM := pUM P; pUI := pUI P; pDG := pDG P;
     pCG := λ o, pCG P o ∨ o = op; pUC := pUC P |}.
Definition addUC (P : prm) (op : N * N) : prm :=
  {| pTR := pTR P; pUM := pUM P; pUI := pUI P; pDG := pDG P;
     pCG := pCG P; pUC := λ o, pUC P o ∨ o = op |}.

Section step_credit.
  Context (U : gmap N tx) (HwfU : wf_universe U = true).
  Context (F : facts) (Hfw : facts_wf U F) (B : gmap Z blockrec).

  (** add the unmined credit for an existing mined credit *)
  Lemma g_step_uc P s mb t bh bhash i cv :
    InvG U F B P s mb → credits s !! (t, bh, bhash, i) = Some cv →
    InvG U F B (addUC P (t, i)) (set_unmined_credits (<[(t, i) := (c_amt cv, c_change cv)]>) s) mb.
  Proof.
    intros [Hb Htr Hum Hcs Hcc Hus Hds Hdc Huc Huis Huic Hmb Hlo] Hcv.
    destruct (Hcs _ _ _ _ _ Hcv) as (Hc & HnCG & Hcr & Hamt & _).
    constructor; simpl; try done.
    intros op' a chg. destruct (decide (op' = (t, i))) as [->|Hne].
    - rewrite lookup_insert. split.
      + intros [= <- <-]. split; [right; by right|done].
      + intros (_ & H2 & ->). f_equal. f_equal; [done|].
        eapply rb_credited_chg_inj; eauto.
    - rewrite lookup_insert_ne by done. rewrite Huc.
      split; intros (H1 & H2 & H3); (split; [|done]).
      + destruct H1; [by left|right; by left].
      + destruct H1 as [?|[?|?]]; [by left|by right|done].
  Qed.

  Lemma g_step_uc_none P s mb t bh bhash i :
    InvG U F B P s mb → f_conf F !! t = Some (bh, bhash) → credits s !! (t, bh, bhash, i) = None →
    ¬ pCG P (t, i) →
    InvG U F B (addUC P (t, i)) s mb.
  Proof.
    intros HI Hc Hcv HnCG. eapply InvG_equiv; [exact HI|..]; simpl; try done.
    intros op chg Hcr. split; [by left|]. intros [?| ->]; [done|]. exfalso.
    destruct (g_credits_complete _ _ _ _ _ _ HI t bh bhash i chg Hc Hcr HnCG) as [? Hx]. congruence.
  Qed.

  (** delete a mined credit together with its unspent entry *)
  Lemma g_step_cg P s mb t x bh bhash i :
    InvG U F B P s mb → f_conf F !! t = Some (bh, bhash) → U !! t = Some x →
    InvG U F B (addCG P (t, i))
      (set_credits (delete (t, bh, bhash, i))
         (match unspent s !! (t, i) with Some _ => set_unspent (delete (t, i)) s | None => s end))
      (match unspent s !! (t, i) with Some _ => mb - out_amount x i | None => mb end).
  Proof.
    intros [Hb Htr Hum Hcs Hcc Hus Hds Hdc Huc Huis Huic Hmb Hlo] Hc Hx.
    assert (Hcs' : ∀ t0 h0 bh0 i0 cv0, delete (t, bh, bhash, i) (credits s) !! (t0, h0, bh0, i0) = Some cv0 →
        f_conf F !! t0 = Some (h0, bh0) ∧ ¬ (pCG P (t0, i0) ∨ (t0, i0) = (t, i)) ∧
        is_credited U (t0, i0) (c_change cv0) ∧ c_amt cv0 = amount_of U (t0, i0) ∧
        (c_spent cv0 = true ↔ ∃ m, conf_spender U F (t0, i0) m ∧ ¬ pDG P m (t0, i0))).
    { intros t0 h0 bh0 i0 cv0 Hl. apply lookup_delete_Some in Hl as [Hne Hl].
      destruct (Hcs _ _ _ _ _ Hl) as (H1 & H2 & H3 & H4 & H5). repeat split; try done; [|by apply H5|by apply H5].
      intros [?|Heq]; [done|]. injection Heq as -> ->. apply Hne.
      rewrite Hc in H1. by injection H1 as <- <-. }
    assert (Hcc' : ∀ t0 h0 bh0 i0 chg0, f_conf F !! t0 = Some (h0, bh0) → is_credited U (t0, i0) chg0 →
        ¬ (pCG P (t0, i0) ∨ (t0, i0) = (t, i)) →
        is_Some (delete (t, bh, bhash, i) (credits s) !! (t0, h0, bh0, i0))).
    { intros t0 h0 bh0 i0 chg0 H1 H2 H3. rewrite lookup_delete_ne.
      - eapply Hcc; eauto.
      - intros Heq. injection Heq as <- <- <- <-. apply H3. by right. }
    assert (Hus' : ∀ op' h1 bh1, op' ≠ (t, i) →
        (unspent s !! op' = Some (h1, bh1) ↔
         f_conf F !! op'.1 = Some (h1, bh1) ∧ (∃ chg, is_credited U op' chg) ∧
         ¬ (pCG P op' ∨ op' = (t, i)) ∧ ¬ ∃ m, conf_spender U F op' m ∧ ¬ pDG P m op')).
    { intros op' h1 bh1 Hne. rewrite Hus.
      split; intros (H1 & H2 & H3 & H4); repeat split; try done.
      - intros [?|?]; done.
      - intros ?; apply H3; by left. }
    destruct (unspent s !! (t, i)) as [[h0 bh0]|] eqn:Hu.
    - constructor; simpl; try done.
      + intros op' h1 bh1. destruct (decide (op' = (t, i))) as [->|Hne].
        * rewrite lookup_delete. split; [done|]. intros (_ & _ & H3 & _). destruct H3. by right.
        * rewrite lookup_delete_ne by done. by apply Hus'.
      + rewrite (usum_delete U _ _ _ Hu) in Hmb. unfold amount_of in Hmb. simpl in Hmb.
        rewrite Hx in Hmb. lia.
    - constructor; simpl; try done.
      intros op' h1 bh1. destruct (decide (op' = (t, i))) as [->|Hne].
      + rewrite Hu. split; [done|]. intros (_ & _ & H3 & _). destruct H3. by right.
      + by apply Hus'.
  Qed.

  (** no mined credit at this output: only the bookkeeping moves on *)
  Lemma g_step_cg_none P s mb t bh bhash i :
    InvG U F B P s mb → f_conf F !! t = Some (bh, bhash) → credits s !! (t, bh, bhash, i) = None →
    InvG U F B (addCG P (t, i)) s mb.
  Proof.
    intros [Hb Htr Hum Hcs Hcc Hus Hds Hdc Huc Huis Huic Hmb Hlo] Hc Hcv.
    constructor; simpl; try done.
    - intros t0 h0 bh0 i0 cv0 Hl.
      destruct (Hcs _ _ _ _ _ Hl) as (H1 & H2 & H3 & H4 & H5). repeat split; try done; [|by apply H5|by apply H5].
      intros [?|Heq]; [done|]. injection Heq as -> ->.
      rewrite Hc in H1. injection H1 as <- <-. congruence.
    - intros t0 h0 bh0 i0 chg0 H1 H2 H3. eapply Hcc; eauto.
    - intros op' h1 bh1. rewrite Hus. split; intros (H1 & H2 & H3 & H4); repeat split; try done.
      + intros [?| ->]; [done|]. destruct H2 as [chg H2]. simpl in H1.
        destruct (Hcc _ _ _ _ _ H1 H2 H3) as [? Hy].
        rewrite Hc in H1. injection H1 as <- <-. congruence.
      + intros ?; apply H3; by left.
  Qed.
End step_credit.

(** * The three inner loops *)

Definition addIns (P : prm) (t : N) (ops : list (N * N)) : prm :=
  {| pTR := pTR P; pUM := pUM P;
     pUI := λ o u, pUI P o u ∨ (o ∈ ops ∧ u = t);
     pDG := λ m o, pDG P m o ∨ (m = t ∧ o ∈ ops);
     pCG := pCG P; pUC := pUC P |}.
Definition addOuts (P : prm) (t : N) (l : list N) : prm :=
  {| pTR := pTR P; pUM := pUM P; pUI := pUI P; pDG := pDG P;
     pCG := λ o, pCG P o ∨ (o.1 = t ∧ o.2 ∈ l);
     pUC := λ o, pUC P o ∨ (o.1 = t ∧ o.2 ∈ l) |}.
Definition addCbOuts (P : prm) (t : N) (l : list N) : prm :=
  {| pTR := pTR P; pUM := pUM P; pUI := pUI P; pDG := pDG P;
     pCG := λ o, pCG P o ∨ (o.1 = t ∧ o.2 ∈ l);
     pUC := pUC P |}.

Lemma rb_pair_cons (Q : Prop) (a t b i : N) l :
  ((Q ∨ (a, b) = (t, i)) ∨ (a = t ∧ b ∈ l)) ↔ (Q ∨ (a = t ∧ b ∈ i :: l)).
Proof.
  rewrite elem_of_cons. split.
  - intros [[?|[= -> ->]]|[? ?]]; auto.
  - intros [?|[-> [->|?]]]; auto.
Qed.

Section folds.
  Context (U : gmap N tx) (HwfU : wf_universe U = true).
  Context (F : facts) (Hfw : facts_wf U F) (B : gmap Z blockrec).
  Context (t : N) (x : tx) (bh : Z) (bhash : N).
  Context (Hc : f_conf F !! t = Some (bh, bhash)) (Hx : U !! t = Some x).

  Lemma g_fold_in l : ∀ P s mb,
    InvG U F B P s mb → t ∉ f_unconf F →
    (∀ j op, (j, op) ∈ l → input_at U t j = Some op) →
    NoDup (l.*2) → (∀ op, op ∈ l.*2 → ¬ pUI P op t) →
    InvG U F B (addIns P t (l.*2)) (foldl (rb_step_in t bh bhash) (s, mb) l).1
                                   (foldl (rb_step_in t bh bhash) (s, mb) l).2.
  Proof.
    induction l as [|[j op] l IH]; intros P s mb HI Hnu Hin Hnd Hfresh.
    - simpl. eapply InvG_equiv; [exact HI|..]; simpl; try done.
      + intros o u. split; [by left|]. intros [?|[?%elem_of_nil _]]; done.
      + intros m o _. split; [by left|]. intros [?|[_ ?%elem_of_nil]]; done.
    - cbn [foldl].
      change (rb_step_in t bh bhash (s, mb) (j, op))
        with (rb_debit_part t bh bhash j op (put_unmined_input op t s) mb).
      rewrite fmap_cons in Hnd, Hfresh. simpl in Hnd, Hfresh.
      apply NoDup_cons in Hnd as [Hnotin Hnd].
      assert (H1 : ¬ (unconf_spender U F op t ∨ pUI P op t)).
      { intros [[? _]|?]; [done|]. eapply Hfresh; [|done]. by left. }
      pose proof (g_step_put_input U F B P s mb op t HI H1) as H2.
      pose proof (g_step_debit U HwfU F Hfw B _ _ _ t bh bhash j op H2 Hc
                    (Hin j op ltac:(by left))) as H3.
      destruct (rb_debit_part t bh bhash j op (put_unmined_input op t s) mb) as [s' mb'].
      simpl in H3.
      eapply InvG_equiv; [apply (IH _ s' mb' H3 Hnu)|..]; simpl; try done.
      + intros j' op' Hel. apply Hin. by right.
      + intros op' Hel [?|[-> _]]; [|done]. eapply Hfresh; [|done]. by right.
      + intros o u. rewrite elem_of_cons.
        split; [intros [[?|[-> ->]]|[? ->]]; auto|intros [?|[[->|?] ->]]; auto].
      + intros m o _. rewrite elem_of_cons.
        split; [intros [[?|[-> ->]]|[-> ?]]; auto|intros [?|[-> [->|?]]]; auto].
  Qed.

  Lemma g_fold_out l : ∀ P s mb,
    InvG U F B P s mb → NoDup l → (∀ i, i ∈ l → ¬ pCG P (t, i)) →
    InvG U F B (addOuts P t l) (foldl (rb_step_out x t bh bhash) (s, mb) l).1
                               (foldl (rb_step_out x t bh bhash) (s, mb) l).2.
  Proof.
    induction l as [|i l IH]; intros P s mb HI Hnd Hfresh.
    - simpl. eapply InvG_equiv; [exact HI|..]; simpl; try done.
      + intros o _ _. split; [by left|]. intros [?|[_ ?%elem_of_nil]]; done.
      + intros o _ _. split; [by left|]. intros [?|[_ ?%elem_of_nil]]; done.
    - cbn [foldl]. apply NoDup_cons in Hnd as [Hnotin Hnd].
      assert (Hstep : InvG U F B (addCG (addUC P (t, i)) (t, i))
                (rb_step_out x t bh bhash (s, mb) i).1 (rb_step_out x t bh bhash (s, mb) i).2).
      { unfold rb_step_out. destruct (credits s !! (t, bh, bhash, i)) as [cv|] eqn:Hcv.
        - pose proof (g_step_uc U HwfU F B P s mb t bh bhash i cv HI Hcv) as H1.
          pose proof (g_step_cg U F B _ _ _ t x bh bhash i H1 Hc Hx) as H2.
          unfold cred_key_of_unspent. simpl in H2. simpl.
          destruct (unspent s !! (t, i)) as [[h0 bh0]|]; simpl; exact H2.
        - simpl. eapply g_step_cg_none; eauto.
          eapply g_step_uc_none; eauto. apply Hfresh. by left. }
      destruct (rb_step_out x t bh bhash (s, mb) i) as [s' mb']. simpl in Hstep.
      eapply InvG_equiv; [apply (IH _ s' mb' Hstep Hnd)|..]; simpl; try done.
      + intros i' Hel [?|[= ->]]; [|done]. eapply Hfresh; [|done]. by right.
      + intros [a b] _ _. simpl. apply rb_pair_cons.
      + intros [a b] _ _. simpl. apply rb_pair_cons.
  Qed.

  Lemma g_fold_cb l : ∀ P s mb cbc,
    InvG U F B P s mb →
    InvG U F B (addCbOuts P t l) (foldl (rb_step_cb x t bh bhash) (s, mb, cbc) l).1.1
                                 (foldl (rb_step_cb x t bh bhash) (s, mb, cbc) l).1.2 ∧
    (foldl (rb_step_cb x t bh bhash) (s, mb, cbc) l).2 = cbc ++ map (λ i, (t, i)) l.
  Proof.
    induction l as [|i l IH]; intros P s mb cbc HI.
    - simpl. rewrite app_nil_r. split; [|done].
      eapply InvG_equiv; [exact HI|..]; simpl; try done.
      intros o _ _. split; [by left|]. intros [?|[_ ?%elem_of_nil]]; done.
    - cbn [foldl].
      assert (Hstep : InvG U F B (addCG P (t, i))
                (rb_step_cb x t bh bhash (s, mb, cbc) i).1.1 (rb_step_cb x t bh bhash (s, mb, cbc) i).1.2 ∧
                (rb_step_cb x t bh bhash (s, mb, cbc) i).2 = cbc ++ [(t, i)]).
      { unfold rb_step_cb. destruct (credits s !! (t, bh, bhash, i)) as [cv|] eqn:Hcv.
        - pose proof (g_step_cg U F B _ _ _ t x bh bhash i HI Hc Hx) as H2.
          unfold cred_key_of_unspent.
          destruct (unspent s !! (t, i)) as [[h0 bh0]|]; simpl; split; try done; exact H2.
        - simpl. split; [|done]. eapply g_step_cg_none; eauto. }
      destruct (rb_step_cb x t bh bhash (s, mb, cbc) i) as [[s' mb'] cbc']. simpl in Hstep.
      destruct Hstep as [Hstep ->].
      destruct (IH _ s' mb' (cbc ++ [(t, i)]) Hstep) as [IH1 IH2]. split.
      + eapply InvG_equiv; [exact IH1|..]; simpl; try done.
        intros [a b] _ _. simpl. apply rb_pair_cons.
      + rewrite IH2. simpl. by rewrite <- app_assoc.
  Qed.
End folds.

(** * The invariant between two transactions of the detaching loop *)

Definition prm_of (U : gmap N tx) (done : gset N) : prm :=
  {| pTR := λ t, t ∈ done;
     pUM := λ t, t ∈ done ∧ is_coinbase U t = false;
     pUI := λ op u, u ∈ done ∧ is_coinbase U u = false ∧ op ∈ tx_ins U u;
     pDG := λ m op, m ∈ done;
     pCG := λ op, op.1 ∈ done;
     pUC := λ op, op.1 ∈ done ∧ is_coinbase U op.1 = false |}.

Definition InvD (U : gmap N tx) (F : facts) (B : gmap Z blockrec) (done : gset N) (s : store) (mb : Z) : Prop :=
  InvG U F B (prm_of U done) s mb.

(** the outpoints a detached transaction contributes to the coinbase list *)
Definition cb_outs (U : gmap N tx) (t : N) : list (N * N) :=
  match U !! t with
  | Some x => if t_coinbase x then map (λ i, (t, i)) (indices (t_outs x)) else []
  | None => []
  end.

Lemma rb_indices_length {A} (l : list A) : length (indices l) = length l.
Proof. unfold indices. by rewrite map_length, seq_length. Qed.

Section tx_step.
  Context (U : gmap N tx) (HwfU : wf_universe U = true).
  Context (F : facts) (Hfw : facts_wf U F) (B : gmap Z blockrec).

  Lemma rollback_tx_InvD done s mb cbc t bh bhash :
    InvD U F B done s mb → f_conf F !! t = Some (bh, bhash) → t ∉ done →
    InvD U F B (done ∪ {[t]}) (rollback_tx U bh bhash (s, mb, cbc) t).1.1
                              (rollback_tx U bh bhash (s, mb, cbc) t).1.2 ∧
    (rollback_tx U bh bhash (s, mb, cbc) t).2 = cbc ++ cb_outs U t.
  Proof.
    intros HI Hc Hnd. unfold InvD in *.
    destruct (fw_in_universe U F Hfw t) as [x Hx]; [left; rewrite Hc; eauto|].
    destruct (rb_wf_parts U HwfU _ _ Hx) as (Hid & Hndins & Hpos & Hrange & Hcbins).
    rewrite rollback_tx_unfold. unfold cb_outs. rewrite Hx.
    pose proof (g_step_txrec U F B _ _ _ t bh bhash HI Hc) as H1.
    assert (HinT : ∀ t', t' ∈ done ∪ {[t]} ↔ t' ∈ done ∨ t' = t).
    { intros t'. rewrite elem_of_union, elem_of_singleton. done. }
    assert (Hcred_range : ∀ i chg, is_credited U (t, i) chg → i ∈ indices (t_outs x)).
    { intros i chg Hcr. apply rb_elem_indices. eapply rb_credited_in_range; eauto. }
    destruct (t_coinbase x) eqn:Hcb.
    - (* coinbase: the credits disappear *)
      assert (Hcbt : is_coinbase U t = true) by (unfold is_coinbase; by rewrite Hx).
      destruct (g_fold_cb U F B t x bh bhash Hc Hx (indices (t_outs x)) _ _ _ cbc H1) as [H2 H3].
      simpl. split; [|exact H3].
      eapply InvG_equiv; [exact H2|..]; simpl.
      + intros t'. by rewrite HinT.
      + intros t'. rewrite HinT. split; [intros [? ?]; auto|].
        intros [[?| ->] ?]; [done|congruence].
      + intros op u. rewrite HinT. split; [intros (? & ? & ?); auto|].
        intros ([?| ->] & ? & ?); [done|congruence].
      + intros m op Hin. rewrite HinT. split; [auto|]. intros [?| ->]; [done|].
        unfold tx_ins in Hin. rewrite Hx, (Hcbins eq_refl) in Hin. by apply elem_of_nil in Hin.
      + intros [a b] chg Hcr. simpl. rewrite HinT. split.
        * intros [?|[? _]]; auto.
        * intros [?| ->]; [by left|]. right. split; [done|]. eauto.
      + intros [a b] chg Hcr. simpl. rewrite HinT. split; [intros [? ?]; auto|].
        intros [[?| ->] ?]; [done|congruence].
    - (* ordinary transaction: moved to the unmined buckets *)
      assert (Hcbt : is_coinbase U t = false) by (unfold is_coinbase; by rewrite Hx).
      pose proof (g_step_unmined U F B _ _ _ t H1) as H2.
      assert (Hsnd : (zip (indices (t_ins x)) (t_ins x)).*2 = t_ins x).
      { apply snd_zip. by rewrite rb_indices_length. }
      pose proof (g_fold_in U HwfU F Hfw B t bh bhash Hc (zip (indices (t_ins x)) (t_ins x)) _ _ _ H2) as H3.
      rewrite Hsnd in H3. simpl.
      destruct (foldl (rb_step_in t bh bhash) _ (zip (indices (t_ins x)) (t_ins x))) as [s3 mb1].
      simpl in H3.
      assert (H3' : InvG U F B (addIns {| pTR := λ x0, (λ x1, x1 ∈ done) x0 ∨ x0 = t;
                       pUM := λ x0, (λ t0, t0 ∈ done ∧ is_coinbase U t0 = false) x0 ∨ x0 = t;
                       pUI := pUI (prm_of U done); pDG := pDG (prm_of U done);
                       pCG := pCG (prm_of U done); pUC := pUC (prm_of U done) |} t (t_ins x)) s3 mb1).
      { apply H3.
        - intros Hu. eapply (fw_disjoint U F Hfw t); [rewrite Hc; eauto|done].
        - intros j op Hel. apply rb_zip_indices_lookup in Hel. unfold input_at, tx_ins. by rewrite Hx.
        - done.
        - intros op _ (? & _). done. }
      clear H3.
      pose proof (g_fold_out U HwfU F B t x bh bhash Hc Hx (indices (t_outs x)) _ s3 mb1 H3'
                    (rb_NoDup_indices _)) as H4.
      destruct (foldl (rb_step_out x t bh bhash) (s3, mb1) (indices (t_outs x))) as [s4 mb2].
      simpl. rewrite app_nil_r. split; [|done].
      eapply InvG_equiv; [apply H4|..]; simpl.
      + intros i _ ?. done.
      + intros t'. by rewrite HinT.
      + intros t'. rewrite HinT. split.
        * intros [[? ?]| ->]; auto.
        * intros [[?| ->] ?]; auto.
      + intros op u. rewrite HinT. split.
        * intros [(? & ? & ?)|[? ->]]; [auto|]. split; [by right|]. split; [done|].
          unfold tx_ins. by rewrite Hx.
        * intros ([?| ->] & ? & Hin); [left; auto|]. right. split; [|done].
          unfold tx_ins in Hin. by rewrite Hx in Hin.
      + intros m op Hin. rewrite HinT. split.
        * intros [?|[? _]]; auto.
        * intros [?| ->]; [by left|]. right. split; [done|].
          unfold tx_ins in Hin. by rewrite Hx in Hin.
      + intros [a b] chg Hcr. simpl. rewrite HinT. split.
        * intros [?|[? _]]; auto.
        * intros [?| ->]; [by left|]. right. split; [done|]. eauto.
      + intros [a b] chg Hcr. simpl. rewrite HinT. split.
        * intros [[? ?]|[-> _]]; auto.
        * intros [[?| ->] ?]; [left; auto|]. right. split; [done|]. eauto.
  Qed.
End tx_step.

(** * [rollback] with its local functions named *)

Definition rb_step_block (U : gmap N tx) (acc : store * Z * list (N * N)) (h : Z) : store * Z * list (N * N) :=
  match blocks acc.1.1 !! h with
  | None => acc
  | Some br => foldl (rollback_tx U h (b_hash br)) acc (b_txs br)
  end.

Definition rb_remove_spenders (U : gmap N tx) (fuel : nat) (acc : option store) (sps : list N) : option store :=
  foldl (fun (acc : option store) sp =>
           match acc with
           | None => None
           | Some s'' =>
             match unmined s'' !! sp with
             | None => Some s''
             | Some _ => remove_conflict U fuel sp s''
             end
           end) acc sps.

Definition rb_phaseD (U : gmap N tx) (fuel : nat) (s2 : store) (cbc : list (N * N)) : option store :=
  foldl (fun (acc : option store) op =>
           match acc with
           | None => None
           | Some s' => rb_remove_spenders U fuel (Some s') (default [] (unmined_inputs s' !! op))
           end) (Some s2) cbc.

Definition rb_del_blocks (s1 : store) (hs : list Z) : store :=
  foldl (fun s' h => set_blocks (delete h) s') s1 hs.

Lemma rollback_unfold U fuel height s :
  rollback U fuel height s =
  let hs := heights_from s height in
  let '(s1, mb, cbc) := foldl (rb_step_block U) (s, bal s, []) hs in
  match rb_phaseD U fuel (rb_del_blocks s1 hs) cbc with
  | None => None
  | Some s4 => Some (set_bal (fun _ => mb) s4)
  end.
Proof. reflexivity. Qed.

Lemma heights_from_spec s height x :
  x ∈ heights_from s height ↔ height <= x ∧ is_Some (blocks s !! x).
Proof.
  unfold heights_from. rewrite elem_of_reverse, merge_sort_Permutation, elem_of_list_filter.
  rewrite elem_of_list_fmap. split.
  - intros [Hle ([k v] & -> & Hel)]. apply elem_of_map_to_list in Hel. simpl. eauto.
  - intros [Hle [v Hv]]. split; [done|]. exists (x, v). split; [done|]. by apply elem_of_map_to_list.
Qed.

Lemma heights_from_NoDup s height : NoDup (heights_from s height).
Proof.
  unfold heights_from. rewrite reverse_Permutation, merge_sort_Permutation.
  apply NoDup_filter, NoDup_fst_map_to_list.
Qed.

(** * The loops over a block and over the blocks *)

Section loops.
  Context (U : gmap N tx) (HwfU : wf_universe U = true).
  Context (F : facts) (s0 : store) (HInv0 : Inv U s0 F).
  Let B := blocks s0.
  Let Hfw : facts_wf U F := inv_wf U s0 F HInv0.

  Lemma rollback_block hh bhash txs : ∀ done s mb cbc,
    InvD U F B done s mb → NoDup txs →
    (∀ t, t ∈ txs → f_conf F !! t = Some (hh, bhash) ∧ t ∉ done) →
    InvD U F B (done ∪ list_to_set txs) (foldl (rollback_tx U hh bhash) (s, mb, cbc) txs).1.1
                                        (foldl (rollback_tx U hh bhash) (s, mb, cbc) txs).1.2 ∧
    (foldl (rollback_tx U hh bhash) (s, mb, cbc) txs).2 = cbc ++ mjoin (cb_outs U <$> txs).
  Proof.
    induction txs as [|t txs IH]; intros done s mb cbc HI Hnd Htxs.
    - simpl. rewrite app_nil_r. split; [|done].
      replace (done ∪ ∅) with done by set_solver. done.
    - cbn [foldl]. apply NoDup_cons in Hnd as [Hnotin Hnd].
      destruct (Htxs t ltac:(by left)) as [Hc Hnd_t].
      destruct (rollback_tx_InvD U HwfU F Hfw B done s mb cbc t hh bhash HI Hc Hnd_t) as [H1 H2].
      destruct (rollback_tx U hh bhash (s, mb, cbc) t) as [[s' mb'] cbc']. simpl in H1, H2. subst cbc'.
      destruct (IH (done ∪ {[t]}) s' mb' (cbc ++ cb_outs U t) H1 Hnd) as [H3 H4].
      + intros t' Hel. destruct (Htxs t' ltac:(by right)) as [? ?]. split; [done|].
        intros [?|?%elem_of_singleton]%elem_of_union; [done|]. congruence.
      + split.
        * replace (done ∪ list_to_set (t :: txs)) with (done ∪ {[t]} ∪ list_to_set txs); [done|].
          simpl. by rewrite (assoc_L (∪)).
        * rewrite H4.
          change (mjoin (cb_outs U <$> t :: txs)) with (cb_outs U t ++ mjoin (cb_outs U <$> txs)).
          by rewrite <- app_assoc.
  Qed.

  Definition loop_inv (acc : store * Z * list (N * N)) (visited : list Z) : Prop :=
    ∃ done : gset N,
      InvD U F B done acc.1.1 acc.1.2 ∧
      (∀ t, t ∈ done ↔ ∃ h bh, f_conf F !! t = Some (h, bh) ∧ h ∈ visited) ∧
      (∀ op, op ∈ acc.2 ↔ ∃ t, t ∈ done ∧ op ∈ cb_outs U t).

  Lemma rollback_blocks hs : ∀ acc visited,
    loop_inv acc visited → NoDup hs → (∀ h, h ∈ hs → h ∉ visited) →
    loop_inv (foldl (rb_step_block U) acc hs) (visited ++ hs).
  Proof.
    induction hs as [|hh hs IH]; intros acc visited HL Hnd Hfresh.
    - simpl. by rewrite app_nil_r.
    - cbn [foldl]. apply NoDup_cons in Hnd as [Hnotin Hnd].
      replace (visited ++ hh :: hs) with ((visited ++ [hh]) ++ hs) by (by rewrite <- app_assoc).
      apply IH; [|done|].
      2:{ intros h Hel [?|?%elem_of_list_singleton]%elem_of_app.
          - eapply Hfresh; [by right|done].
          - subst. done. }
      destruct HL as (done & HI & Hdone & Hcbc).
      destruct acc as [[s mb] cbc]. simpl in HI, Hcbc.
      pose proof (g_blocks _ _ _ _ _ _ HI) as HB.
      unfold rb_step_block. simpl. rewrite HB.
      destruct (B !! hh) as [br|] eqn:Hbr.
      + destruct (inv_blocks_sound U s0 F HInv0 hh br Hbr) as (_ & Hndtx & Hconf).
        destruct (rollback_block hh (b_hash br) (b_txs br) done s mb cbc HI Hndtx) as [H1 H2].
        { intros t Hel. split; [by apply Hconf|].
          intros (h' & bh' & Hc' & Hv)%Hdone. rewrite (Hconf t Hel) in Hc'. injection Hc' as <- <-.
          eapply Hfresh; [by left|done]. }
        exists (done ∪ list_to_set (b_txs br)). split; [done|]. split.
        * intros t. rewrite elem_of_union, elem_of_list_to_set, Hdone. split.
          -- intros [(h' & bh' & Hc' & Hv)|Hel].
             ++ exists h', bh'. split; [done|]. apply elem_of_app. by left.
             ++ exists hh, (b_hash br). split; [by apply Hconf|]. apply elem_of_app. right. by left.
          -- intros (h' & bh' & Hc' & [Hv|Hv%elem_of_list_singleton]%elem_of_app).
             ++ left. eauto.
             ++ subst h'. right. destruct (inv_blocks_complete U s0 F HInv0 _ _ _ Hc') as (br' & Hbr' & _ & Hel).
                fold B in Hbr'. rewrite Hbr in Hbr'. by injection Hbr' as <-.
        * intros op. rewrite H2, elem_of_app, Hcbc. split.
          -- intros [(t & Ht & Hop)|Hop].
             ++ exists t. split; [|done]. apply elem_of_union. by left.
             ++ apply elem_of_list_join in Hop as (l & Hop & Hl).
                apply elem_of_list_fmap in Hl as (t & -> & Hel).
                exists t. split; [|done]. apply elem_of_union. right. by apply elem_of_list_to_set.
          -- intros (t & [Ht|Ht%elem_of_list_to_set]%elem_of_union & Hop).
             ++ left. eauto.
             ++ right. apply elem_of_list_join. exists (cb_outs U t). split; [done|].
                apply elem_of_list_fmap. eauto.
      + exists done. split; [done|]. split; [|done].
        intros t. rewrite Hdone. split.
        * intros (h' & bh' & Hc' & Hv). exists h', bh'. split; [done|]. apply elem_of_app. by left.
        * intros (h' & bh' & Hc' & [Hv|Hv%elem_of_list_singleton]%elem_of_app); [eauto|].
          subst h'. destruct (inv_blocks_complete U s0 F HInv0 _ _ _ Hc') as (br' & Hbr' & _).
          fold B in Hbr'. congruence.
  Qed.
End loops.

(** * The facts after detaching, before the coinbase descendants are removed *)

Definition disc_gone (F : facts) (h : Z) : list N :=
  map fst (filter (fun kv : N * (Z * N) => h <= kv.2.1) (map_to_list (f_conf F))).
Definition disc_cb (U : gmap N tx) (F : facts) (h : Z) : list N :=
  filter (fun t => is_coinbase U t) (disc_gone F h).
Definition disc_F1 (U : gmap N tx) (F : facts) (h : Z) : facts :=
  {| f_conf := filter (fun kv : N * (Z * N) => ¬ (h <= kv.2.1)) (f_conf F);
     f_unconf := f_unconf F ∪ list_to_set (filter (fun t => negb (is_coinbase U t)) (disc_gone F h));
     f_leases := f_leases F |}.

Lemma spec_disconnect_unfold U F h :
  spec_disconnect U F h =
  let F1 := disc_F1 U F h in
  let uc := elements (f_unconf F1) in
  {| f_conf := f_conf F1;
     f_unconf := filter (fun t => t ∉ descendants U (S (length uc)) uc (disc_cb U F h)) (f_unconf F1);
     f_leases := f_leases F1 |}.
Proof. reflexivity. Qed.

Lemma disc_conf_lookup U F h t hh bh :
  f_conf (disc_F1 U F h) !! t = Some (hh, bh) ↔ f_conf F !! t = Some (hh, bh) ∧ ¬ (h <= hh).
Proof. simpl. rewrite map_filter_lookup_Some. simpl. done. Qed.

Lemma disc_gone_elem F h t :
  t ∈ disc_gone F h ↔ ∃ hh bh, f_conf F !! t = Some (hh, bh) ∧ h <= hh.
Proof.
  unfold disc_gone. rewrite elem_of_list_fmap. split.
  - intros ([k [hh bh]] & -> & Hel). apply elem_of_list_filter in Hel as [Hle Hel].
    apply elem_of_map_to_list in Hel. simpl in *. eauto.
  - intros (hh & bh & Hc & Hle). exists (t, (hh, bh)). split; [done|].
    apply elem_of_list_filter. split; [done|]. by apply elem_of_map_to_list.
Qed.

Lemma disc_unconf_elem U F h t :
  t ∈ f_unconf (disc_F1 U F h) ↔
  t ∈ f_unconf F ∨ ((∃ hh bh, f_conf F !! t = Some (hh, bh) ∧ h <= hh) ∧ is_coinbase U t = false).
Proof.
  simpl. rewrite elem_of_union, elem_of_list_to_set, elem_of_list_filter, disc_gone_elem.
  destruct (is_coinbase U t); simpl; split; intros [?|[? ?]]; auto; try done.
Qed.

Lemma disc_cb_elem U F h t :
  t ∈ disc_cb U F h ↔ (∃ hh bh, f_conf F !! t = Some (hh, bh) ∧ h <= hh) ∧ is_coinbase U t = true.
Proof.
  unfold disc_cb. rewrite elem_of_list_filter, disc_gone_elem.
  destruct (is_coinbase U t); simpl; split; intros [? ?]; auto; try done.
Qed.

Lemma disc_facts_wf U F h : facts_wf U F → facts_wf U (disc_F1 U F h).
Proof.
  intros Hfw. constructor.
  - intros t [[[hh bh] Hc]|Hu].
    + apply disc_conf_lookup in Hc as [Hc _]. apply (fw_in_universe U F Hfw). left. rewrite Hc. eauto.
    + apply disc_unconf_elem in Hu as [Hu|[(hh & bh & Hc & _) _]]; apply (fw_in_universe U F Hfw).
      * by right.
      * left. rewrite Hc. eauto.
  - intros t [[hh bh] Hc] Hu. apply disc_conf_lookup in Hc as [Hc Hlt].
    apply disc_unconf_elem in Hu as [Hu|[(hh' & bh' & Hc' & Hle) _]].
    + eapply (fw_disjoint U F Hfw t); [rewrite Hc; eauto|done].
    + rewrite Hc in Hc'. injection Hc' as <- <-. lia.
  - intros op m1 m2 [[[h1 b1] H1] Hi1] [[[h2 b2] H2] Hi2].
    apply disc_conf_lookup in H1 as [H1 _]. apply disc_conf_lookup in H2 as [H2 _].
    eapply (fw_one_conf_spender U F Hfw op); (split; [|done]); [rewrite H1|rewrite H2]; eauto.
  - intros op m u [[[h1 b1] H1] Hi1] [Hu Hi2]. apply disc_conf_lookup in H1 as [H1 Hlt].
    apply disc_unconf_elem in Hu as [Hu|[(hh' & bh' & Hc' & Hle) _]].
    + eapply (fw_no_unconf_conflict U F Hfw op m u); [|split; done]. split; [rewrite H1; eauto|done].
    + assert (m = u) as ->.
      { eapply (fw_one_conf_spender U F Hfw op); (split; [|done]); [rewrite H1|rewrite Hc']; eauto. }
      rewrite H1 in Hc'. injection Hc' as <- <-. lia.
  - intros m hm bh op Hc Hin Hk. apply disc_conf_lookup in Hc as [Hc Hlt].
    destruct (fw_parents_confirmed U F Hfw m hm bh op Hc Hin) as (ph & pbh & Hp & Hle).
    + destruct Hk as [[[h1 b1] H1]|Hu].
      * apply disc_conf_lookup in H1 as [H1 _]. left. rewrite H1. eauto.
      * apply disc_unconf_elem in Hu as [Hu|[(hh' & bh' & Hc' & _) _]]; [by right|].
        left. rewrite Hc'. eauto.
    + exists ph, pbh. split; [|done]. apply disc_conf_lookup. split; [done|lia].
  - intros t Hu. apply disc_unconf_elem in Hu as [Hu|[_ ?]]; [|done].
    by apply (fw_coinbase_confirmed U F Hfw).
  - intros t1 t2 hh b1 b2 H1 H2. apply disc_conf_lookup in H1 as [H1 _]. apply disc_conf_lookup in H2 as [H2 _].
    eapply (fw_one_hash_per_height U F Hfw); eauto.
  - intros t hh b H1. apply disc_conf_lookup in H1 as [H1 _]. eapply (fw_heights_nonneg U F Hfw); eauto.
Qed.

(** * From the loop invariant to [Inv] for [disc_F1] *)

Lemma rb_del_blocks_spec hs : ∀ s1,
  txrecs (rb_del_blocks s1 hs) = txrecs s1 ∧ credits (rb_del_blocks s1 hs) = credits s1 ∧
  unspent (rb_del_blocks s1 hs) = unspent s1 ∧ debits (rb_del_blocks s1 hs) = debits s1 ∧
  unmined (rb_del_blocks s1 hs) = unmined s1 ∧ unmined_credits (rb_del_blocks s1 hs) = unmined_credits s1 ∧
  unmined_inputs (rb_del_blocks s1 hs) = unmined_inputs s1 ∧ locked (rb_del_blocks s1 hs) = locked s1 ∧
  bal (rb_del_blocks s1 hs) = bal s1 ∧
  (∀ x, x ∈ hs → blocks (rb_del_blocks s1 hs) !! x = None) ∧
  (∀ x, x ∉ hs → blocks (rb_del_blocks s1 hs) !! x = blocks s1 !! x).
Proof.
  unfold rb_del_blocks. induction hs as [|h hs IH]; intros s1.
  - simpl. repeat split; try done. intros x ?%elem_of_nil. done.
  - cbn [foldl]. destruct (IH (set_blocks (delete h) s1)) as (H1 & H2 & H3 & H4 & H5 & H6 & H7 & H8 & H9 & H10 & H11).
    repeat split; try done.
    + intros x Hx. destruct (decide (x ∈ hs)) as [Hin|Hnin]; [by apply H10|].
      rewrite H11 by done. simpl. apply elem_of_cons in Hx as [->|?]; [|done]. apply lookup_delete.
    + intros x Hx. apply not_elem_of_cons in Hx as [Hne Hx]. rewrite H11 by done. simpl.
      by rewrite lookup_delete_ne.
Qed.

Section finish.
  Context (U : gmap N tx) (HwfU : wf_universe U = true).
  Context (F : facts) (s0 : store) (HInv0 : Inv U s0 F) (h : Z).
  Let B := blocks s0.
  Let Hfw : facts_wf U F := inv_wf U s0 F HInv0.
  Let hs := heights_from s0 h.
  Let F1 := disc_F1 U F h.

  Lemma InvD_finish done s1 mb :
    InvD U F B done s1 mb →
    (∀ t, t ∈ done ↔ ∃ hh bh, f_conf F !! t = Some (hh, bh) ∧ hh ∈ hs) →
    Inv U (set_bal (fun _ => mb) (rb_del_blocks s1 hs)) F1.
  Proof.
    intros [Hb Htr Hum Hcs Hcc Hus Hds Hdc Huc Huis Huic Hmb Hlo] Hdone0. simpl in *.
    assert (Hdone : ∀ t, t ∈ done ↔ ∃ hh bh, f_conf F !! t = Some (hh, bh) ∧ h <= hh).
    { intros t. rewrite Hdone0. split.
      - intros (hh & bh & Hc & Hin). apply heights_from_spec in Hin as [? _]. eauto.
      - intros (hh & bh & Hc & Hle). exists hh, bh. split; [done|]. apply heights_from_spec. split; [done|].
        destruct (inv_blocks_complete U s0 F HInv0 _ _ _ Hc) as (br & Hbr & _). rewrite Hbr. eauto. }
    assert (HF1conf : ∀ t hh bh, f_conf F1 !! t = Some (hh, bh) ↔ f_conf F !! t = Some (hh, bh) ∧ t ∉ done).
    { intros t hh bh. unfold F1. rewrite disc_conf_lookup. split; intros [Hc Hn]; (split; [done|]).
      - intros (hh' & bh' & Hc' & Hle)%Hdone. rewrite Hc in Hc'. injection Hc' as <- <-. done.
      - intros Hle. apply Hn, Hdone. eauto. }
    assert (HF1unc : ∀ t, t ∈ f_unconf F1 ↔ t ∈ f_unconf F ∨ (t ∈ done ∧ is_coinbase U t = false)).
    { intros t. unfold F1. rewrite disc_unconf_elem, Hdone. done. }
    assert (HF1sp : ∀ op m, conf_spender U F1 op m ↔ conf_spender U F op m ∧ m ∉ done).
    { intros op m. unfold conf_spender. split.
      - intros [[[hh bh] Hc] Hin]. apply HF1conf in Hc as [Hc Hn]. split; [|done]. split; [|done]. rewrite Hc. eauto.
      - intros [[[[hh bh] Hc] Hin] Hn]. split; [|done]. exists (hh, bh). apply HF1conf. done. }
    assert (HF1usp : ∀ op u, unconf_spender U F1 op u ↔
              unconf_spender U F op u ∨ (u ∈ done ∧ is_coinbase U u = false ∧ op ∈ tx_ins U u)).
    { intros op u. unfold unconf_spender. rewrite HF1unc. split.
      - intros [[?|[? ?]] ?]; [left|right]; done.
      - intros [[? ?]|(? & ? & ?)]; (split; [|done]); [by left|by right]. }
    assert (Hrem : ∀ op, (∃ m, conf_spender U F1 op m) ↔ (∃ m, conf_spender U F op m ∧ m ∉ done)).
    { intros op. split; intros [m Hm]; exists m; by apply HF1sp. }
    destruct (rb_del_blocks_spec hs s1) as (E1 & E2 & E3 & E4 & E5 & E6 & E7 & E8 & E9 & E10 & E11).
    constructor;
      cbn [set_bal blocks txrecs credits unspent debits unmined unmined_credits unmined_inputs locked bal];
      rewrite ?E1, ?E2, ?E3, ?E4, ?E5, ?E6, ?E7, ?E8.
    - apply disc_facts_wf, Hfw.
    - intros x br Hx.
      assert (Hxn : x ∉ hs). { intros Hin. rewrite (E10 x Hin) in Hx. done. }
      rewrite (E11 x Hxn), Hb in Hx.
      destruct (inv_blocks_sound U s0 F HInv0 x br Hx) as (H1 & H2 & H3).
      split; [done|]. split; [done|]. intros t Ht. apply disc_conf_lookup. split; [by apply H3|].
      intros Hle. apply Hxn. apply heights_from_spec. split; [done|]. fold B. rewrite Hx. eauto.
    - intros t hh bh Hc. apply disc_conf_lookup in Hc as [Hc Hlt].
      destruct (inv_blocks_complete U s0 F HInv0 _ _ _ Hc) as (br & Hbr & Hh & Hel).
      exists br. split; [|done]. rewrite E11, Hb; [done|].
      intros [? _]%heights_from_spec. done.
    - intros t hh bh. rewrite Htr, HF1conf. done.
    - intros t. rewrite Hum, HF1unc. done.
    - intros t hh bh i cv Hl. destruct (Hcs _ _ _ _ _ Hl) as (H1 & H2 & H3 & H4 & H5).
      split; [by apply HF1conf|]. split; [done|]. split; [done|]. rewrite H5. symmetry. apply Hrem.
    - intros t hh bh i chg Hc Hcr. apply HF1conf in Hc as [Hc Hn]. eapply Hcc; eauto.
    - intros op hh bh. rewrite Hus, HF1conf, Hrem. split.
      + intros (? & ? & ? & ?). done.
      + intros ([? ?] & ? & ?). done.
    - intros m hm bh j a ck Hl. destruct (Hds _ _ _ _ _ _ Hl) as (H1 & op & ph & pbh & H2 & H3 & H4 & H5 & H6 & H7).
      split; [by apply HF1conf|]. exists op, ph, pbh. repeat split; try done.
      apply disc_conf_lookup. split; [done|].
      destruct (fw_parents_confirmed U F Hfw m hm bh op H1) as (ph' & pbh' & Hp & Hle).
      { apply rb_input_at_elem. eauto. }
      { left. rewrite H5. eauto. }
      rewrite H5 in Hp. injection Hp as <- <-.
      intros Hge. apply H3, Hdone. exists hm, bh. split; [done|lia].
    - intros m hm bh j op ph pbh chg Hc Hin Hcr Hp.
      apply HF1conf in Hc as [Hc Hn]. apply disc_conf_lookup in Hp as [Hp _]. eapply Hdc; eauto.
    - intros op a chg. rewrite Huc, HF1unc. done.
    - intros op l Hl. destruct (Huis _ _ Hl) as (H1 & H2 & H3). split; [done|]. split; [done|].
      intros u. rewrite H3, HF1usp. done.
    - intros op u Hu. apply (Huic op u). by apply HF1usp.
    - rewrite Hmb. reflexivity.
    - done.
  Qed.
End finish.

(** * The coinbase-descendant phase *)

Lemma rb_dep_in U F roots t : depends_on U F roots t → t ∈ roots ∨ t ∈ f_unconf F.
Proof. induction 1; auto. Qed.

Lemma rb_dep_mono U F F1 sp roots t :
  depends_on U F [sp] t → f_unconf F ⊆ f_unconf F1 → depends_on U F1 roots sp →
  depends_on U F1 roots t.
Proof.
  intros Hd Hsub Hsp. induction Hd as [r Hr|p c Hp IH Hc Hs].
  - apply elem_of_list_singleton in Hr. by subst.
  - eapply dep_step; eauto.
Qed.

Lemma rb_spends_output_of_iff U c p :
  spends_output_of U c p = true ↔ ∃ op, op ∈ tx_ins U c ∧ op.1 = p.
Proof.
  unfold spends_output_of. rewrite existsb_exists. split.
  - intros (op & Hin & Hb). exists op. split; [by apply elem_of_list_In|]. by apply bool_decide_eq_true in Hb.
  - intros (op & Hin & Hb). exists op. split; [by apply elem_of_list_In|]. by apply bool_decide_eq_true.
Qed.

Section phaseD.
  Context (U : gmap N tx) (HwfU : wf_universe U = true).
  Hypothesis Hdesc : descendants_correct U.
  Hypothesis Hrc : remove_conflict_correct U.
  Context (F1 : facts) (cb : list N).

  Lemma rb_rm_elem F roots t :
    t ∈ f_unconf (remove_unconf_with_descendants U F roots) ↔ t ∈ f_unconf F ∧ ¬ depends_on U F roots t.
  Proof.
    unfold remove_unconf_with_descendants. simpl. rewrite elem_of_filter.
    rewrite (Hdesc F roots t). tauto.
  Qed.

  Definition PD (s : store) (Fk : facts) : Prop :=
    Inv U s Fk ∧ f_conf Fk = f_conf F1 ∧ f_leases Fk = f_leases F1 ∧
    f_unconf Fk ⊆ f_unconf F1 ∧
    (∀ t, t ∈ f_unconf F1 → t ∉ f_unconf Fk → depends_on U F1 cb t) ∧
    (∀ c p, c ∈ f_unconf Fk → p ∈ f_unconf F1 → p ∉ f_unconf Fk → spends_output_of U c p = true → False).

  Lemma PD_remove s Fk sp :
    PD s Fk → sp ∈ f_unconf Fk → depends_on U F1 cb sp →
    ∃ s', remove_conflict U (fuel_of U) sp s = Some s' ∧
          PD s' (remove_unconf_with_descendants U Fk [sp]) ∧
          sp ∉ f_unconf (remove_unconf_with_descendants U Fk [sp]).
  Proof.
    intros (HI & Hcf & Hle & Hsub & Hrem & Hclo) Hsp Hdsp.
    destruct (Hrc s Fk sp HwfU HI Hsp) as (s' & Hs' & HI').
    exists s'. split; [done|]. split.
    - split; [done|]. split; [done|]. split; [done|]. split; [|split].
      + intros t Ht. apply rb_rm_elem in Ht as [Ht _]. by apply Hsub.
      + intros t Ht1 Htn. destruct (decide (t ∈ f_unconf Fk)) as [Htk|Htk]; [|by apply Hrem].
        destruct (decide (t ∈ descendants U (S (length (elements (f_unconf Fk)))) (elements (f_unconf Fk)) [sp]))
          as [Hd|Hd].
        * apply (Hdesc Fk [sp] t) in Hd. eapply rb_dep_mono; eauto.
        * exfalso. apply Htn. unfold remove_unconf_with_descendants. simpl. apply elem_of_filter. done.
      + intros c p Hc Hp1 Hpn Hs. apply rb_rm_elem in Hc as [Hc Hcn].
        destruct (decide (p ∈ f_unconf Fk)) as [Hpk|Hpk]; [|by eapply Hclo].
        apply Hcn. eapply dep_step; [|done|done].
        destruct (decide (p ∈ descendants U (S (length (elements (f_unconf Fk)))) (elements (f_unconf Fk)) [sp]))
          as [Hd|Hd].
        * by apply (Hdesc Fk [sp] p) in Hd.
        * exfalso. apply Hpn. unfold remove_unconf_with_descendants. simpl. apply elem_of_filter. done.
    - intros Hin. apply rb_rm_elem in Hin as [_ Hn]. apply Hn. apply dep_root. by left.
  Qed.

  Lemma PD_spenders sps : ∀ s Fk,
    PD s Fk → (∀ sp, sp ∈ sps → sp ∈ f_unconf Fk → depends_on U F1 cb sp) →
    ∃ s' Fk', rb_remove_spenders U (fuel_of U) (Some s) sps = Some s' ∧ PD s' Fk' ∧
              f_unconf Fk' ⊆ f_unconf Fk ∧ ∀ sp, sp ∈ sps → sp ∉ f_unconf Fk'.
  Proof.
    induction sps as [|sp sps IH]; intros s Fk HPD Hdir.
    - exists s, Fk. split; [done|]. split; [done|]. split; [done|]. intros sp ?%elem_of_nil. done.
    - unfold rb_remove_spenders. cbn [foldl]. fold (rb_remove_spenders U (fuel_of U)).
      destruct (unmined s !! sp) as [[]|] eqn:Hm.
      + assert (Hsp : sp ∈ f_unconf Fk).
        { destruct HPD as (HI & _). apply (inv_unmined U s Fk HI). rewrite Hm. eauto. }
        destruct (PD_remove s Fk sp HPD Hsp (Hdir sp ltac:(by left) Hsp)) as (s1 & Hs1 & HPD1 & Hgone).
        rewrite Hs1.
        destruct (IH s1 _ HPD1) as (s' & Fk' & Hs' & HPD' & Hsub' & Hgone').
        { intros sp' Hel Hin. apply Hdir; [by right|]. apply rb_rm_elem in Hin as [? _]. done. }
        exists s', Fk'. split; [done|]. split; [done|]. split.
        * intros t Ht. apply Hsub' in Ht. apply rb_rm_elem in Ht as [? _]. done.
        * intros sp' [->|Hel]%elem_of_cons; [|by apply Hgone'].
          intros Hin. apply Hgone. by apply Hsub'.
      + assert (Hsp : sp ∉ f_unconf Fk).
        { destruct HPD as (HI & _). intros Hin. apply (inv_unmined U s Fk HI) in Hin. rewrite Hm in Hin.
          by destruct Hin. }
        destruct (IH s Fk HPD) as (s' & Fk' & Hs' & HPD' & Hsub' & Hgone').
        { intros sp' Hel Hin. apply Hdir; [by right|done]. }
        exists s', Fk'. split; [done|]. split; [done|]. split; [done|].
        intros sp' [->|Hel]%elem_of_cons; [|by apply Hgone'].
        intros Hin. apply Hsp. by apply Hsub'.
  Qed.

  Lemma PD_outpoints cbc : ∀ s Fk,
    PD s Fk → (∀ op, op ∈ cbc → op.1 ∈ cb) →
    ∃ s' Fk', rb_phaseD U (fuel_of U) s cbc = Some s' ∧ PD s' Fk' ∧
              f_unconf Fk' ⊆ f_unconf Fk ∧
              ∀ op u, op ∈ cbc → u ∈ f_unconf Fk' → op ∉ tx_ins U u.
  Proof.
    unfold rb_phaseD. induction cbc as [|op cbc IH]; intros s Fk HPD Hcb.
    - exists s, Fk. split; [done|]. split; [done|]. split; [done|]. intros op u ?%elem_of_nil. done.
    - cbn [foldl].
      destruct (PD_spenders (default [] (unmined_inputs s !! op)) s Fk HPD) as (s1 & Fk1 & Hs1 & HPD1 & Hsub1 & Hgone1).
      { intros sp Hel Hin. destruct HPD as (HI & _ & _ & Hsub & _).
        destruct (unmined_inputs s !! op) as [l|] eqn:Hl; [|by apply elem_of_nil in Hel]. simpl in Hel.
        destruct (inv_unmined_inputs_sound U s Fk HI op l Hl) as (_ & _ & Hl3).
        apply Hl3 in Hel as [_ Hop].
        eapply dep_step; [apply dep_root, (Hcb op); by left|by apply Hsub|].
        apply rb_spends_output_of_iff. eauto. }
      rewrite Hs1.
      destruct (IH s1 Fk1 HPD1) as (s' & Fk' & Hs' & HPD' & Hsub' & Hgone').
      { intros op' Hel. apply Hcb. by right. }
      exists s', Fk'. split; [done|]. split; [done|]. split; [set_solver|].
      intros op' u [->|Hel]%elem_of_cons Hu; [|by eapply Hgone'].
      intros Hin. apply Hsub' in Hu. pose proof (Hsub1 _ Hu) as Huk.
      destruct HPD as (HI & _).
      destruct (inv_unmined_inputs_complete U s Fk HI op u (conj Huk Hin)) as [l Hl].
      destruct (inv_unmined_inputs_sound U s Fk HI op l Hl) as (_ & _ & Hl3).
      apply (Hgone1 u); [|done]. rewrite Hl. simpl. apply Hl3. split; done.
  Qed.

  (** the set of survivors is exactly the spec's *)
  Lemma PD_final s Fk (cbc : list (N * N)) :
    PD s Fk → (∀ r, r ∈ cb → r ∉ f_unconf F1) →
    (∀ r x i, r ∈ cb → U !! r = Some x → (N.to_nat i < length (t_outs x))%nat → (r, i) ∈ cbc) →
    (∀ t, t ∈ f_unconf F1 → is_Some (U !! t)) → (∀ r, r ∈ cb → is_Some (U !! r)) →
    (∀ op u, op ∈ cbc → u ∈ f_unconf Fk → op ∉ tx_ins U u) →
    Fk = remove_unconf_with_descendants U F1 cb.
  Proof.
    intros (HI & Hcf & Hle & Hsub & Hrem & Hclo) Hcbu Hcbc HinU HcbU Hnosp.
    assert (Hcomplete : ∀ t, depends_on U F1 cb t → t ∈ f_unconf Fk → False).
    { intros t Hd. induction Hd as [r Hr|p c Hp IH Hc Hs]; intros Hin.
      - eapply Hcbu; [done|]. by apply Hsub.
      - destruct (decide (p ∈ cb)) as [Hpcb|Hpcb].
        + apply rb_spends_output_of_iff in Hs as ([a i] & Hop & Hp1). simpl in Hp1. subst a.
          destruct (HcbU p Hpcb) as [xp Hxp]. destruct (HinU c Hc) as [xc Hxc].
          eapply (Hnosp (p, i) c); [|done|done].
          eapply Hcbc; [done|done|].
          eapply (rb_ins_in_range U HwfU c xc (p, i) xp); [done| |done].
          unfold tx_ins in Hop. by rewrite Hxc in Hop.
        + destruct (rb_dep_in _ _ _ _ Hp) as [?|Hp1]; [done|].
          destruct (decide (p ∈ f_unconf Fk)) as [Hpk|Hpk]; [by apply IH|].
          eapply Hclo; eauto. }
    destruct Fk as [cf uc le]. simpl in *. subst cf le.
    unfold remove_unconf_with_descendants. f_equal.
    apply set_eq. intros t. rewrite elem_of_filter, (Hdesc F1 cb t). split.
    - intros Ht. split; [|by apply Hsub]. intros Hd. by eapply Hcomplete.
    - intros [Hn Ht]. destruct (decide (t ∈ uc)) as [|Hnt]; [done|]. destruct Hn. by apply Hrem.
  Qed.
End phaseD.

(** * [remove_conflict] does not look at the stored balance *)

Definition rb_rc_step_out (U : gmap N tx) (fuel' : nat) (h : N) (acc : option store) (i : N) : option store :=
  match acc with
  | None => None
  | Some s1 =>
    match rb_remove_spenders U fuel' (Some s1) (default [] (unmined_inputs s1 !! (h, i))) with
    | None => None
    | Some s3 => Some (set_unmined_credits (delete (h, i)) s3)
    end
  end.

Lemma rb_remove_conflict_unfold U fuel' h s :
  remove_conflict U (S fuel') h s =
  match U !! h with
  | None => None
  | Some t =>
    match foldl (rb_rc_step_out U fuel' h) (Some s) (indices (t_outs t)) with
    | None => None
    | Some s4 => Some (set_unmined (delete h) (foldl (fun s' op => delete_unmined_input op h s') s4 (t_ins t)))
    end
  end.
Proof. reflexivity. Qed.

Section setbal.
  Context (U : gmap N tx) (f : Z → Z).

  Lemma rb_dui_set_bal op h s :
    delete_unmined_input op h (set_bal f s) = set_bal f (delete_unmined_input op h s).
  Proof.
    unfold delete_unmined_input. simpl. destruct (unmined_inputs s !! op) as [[|a l]|]; try done.
    destruct (filter (λ x, x ≠ h) (a :: l)); done.
  Qed.

  Lemma rb_dui_fold_set_bal h l : ∀ s,
    foldl (fun s' op => delete_unmined_input op h s') (set_bal f s) l =
    set_bal f (foldl (fun s' op => delete_unmined_input op h s') s l).
  Proof. induction l as [|op l IH]; intros s; simpl; [done|]. by rewrite rb_dui_set_bal, IH. Qed.

  Lemma rb_spenders_set_bal n :
    (∀ t s, remove_conflict U n t (set_bal f s) = set_bal f <$> remove_conflict U n t s) →
    ∀ sps o, rb_remove_spenders U n (set_bal f <$> o) sps = set_bal f <$> rb_remove_spenders U n o sps.
  Proof.
    intros IHrc. unfold rb_remove_spenders. induction sps as [|sp sps IH]; intros o; [done|].
    cbn [foldl]. rewrite <- IH. f_equal.
    destruct o as [s|]; simpl; [|done].
    destruct (unmined s !! sp); [|done]. apply IHrc.
  Qed.

  Lemma rb_remove_conflict_set_bal n : ∀ t s,
    remove_conflict U n t (set_bal f s) = set_bal f <$> remove_conflict U n t s.
  Proof.
    induction n as [|n IHn]; intros t s; [done|].
    rewrite !rb_remove_conflict_unfold. destruct (U !! t) as [x|]; [|done].
    assert (Hfold : ∀ l o, foldl (rb_rc_step_out U n t) (set_bal f <$> o) l =
                           set_bal f <$> foldl (rb_rc_step_out U n t) o l).
    { induction l as [|i l IHl]; intros o; [done|]. cbn [foldl]. rewrite <- IHl. f_equal.
      destruct o as [s1|]; simpl; [|done].
      pose proof (rb_spenders_set_bal n IHn (default [] (unmined_inputs s1 !! (t, i))) (Some s1)) as Hsp.
      simpl in Hsp. rewrite Hsp.
      destruct (rb_remove_spenders U n (Some s1) (default [] (unmined_inputs s1 !! (t, i)))); done. }
    specialize (Hfold (indices (t_outs x)) (Some s)). simpl in Hfold. rewrite Hfold.
    destruct (foldl (rb_rc_step_out U n t) (Some s) (indices (t_outs x))) as [s4|]; simpl; [|done].
    by rewrite rb_dui_fold_set_bal.
  Qed.

  Lemma rb_phaseD_set_bal n cbc s :
    rb_phaseD U n (set_bal f s) cbc = set_bal f <$> rb_phaseD U n s cbc.
  Proof.
    unfold rb_phaseD.
    change (Some (set_bal f s)) with (set_bal f <$> Some s). generalize (Some s) as o.
    induction cbc as [|op cbc IH]; intros o; [done|].
    cbn [foldl]. rewrite <- IH. f_equal.
    destruct o as [s1|]; simpl; [|done].
    apply (rb_spenders_set_bal n (rb_remove_conflict_set_bal n) _ (Some s1)).
  Qed.
End setbal.

(** * Assembly *)

Lemma Inv_to_InvD U s F : Inv U s F → InvD U F (blocks s) ∅ s (bal s).
Proof.
  intros HI. destruct HI as [Hwf Hbs Hbc Htr Hum Hcs Hcc Hus Hds Hdc Huc Huis Huic Hbal Hlo].
  assert (Hne : ∀ t : N, ¬ t ∈ (∅ : gset N)) by (intros t; apply not_elem_of_empty).
  assert (Hsp : ∀ op, (∃ m, conf_spender U F op m) ↔ (∃ m : N, conf_spender U F op m ∧ ¬ m ∈ (∅ : gset N))).
  { intros op. split; [intros [m Hm]; exists m; split; [done|apply Hne]|intros (m & Hm & _); eauto]. }
  constructor; simpl.
  - done.
  - intros t h bh. rewrite Htr. split; [intros ?; split; [done|apply Hne]|by intros [? _]].
  - intros t. rewrite Hum. split; [by left|]. intros [?|[He _]]; [done|destruct (Hne _ He)].
  - intros t h bh i cv Hl. destruct (Hcs _ _ _ _ _ Hl) as (H1 & H2 & H3 & H4).
    split; [done|]. split; [apply Hne|]. split; [done|]. split; [done|]. rewrite H4. apply Hsp.
  - intros t h bh i chg H1 H2 _. eapply Hcc; eauto.
  - intros op h bh. rewrite Hus, Hsp. split.
    + intros (? & ? & ?). split; [done|]. split; [done|]. split; [apply Hne|done].
    + intros (? & ? & _ & ?). done.
  - intros m h bh j a ck Hl. destruct (Hds _ _ _ _ _ _ Hl) as (H1 & op & ph & pbh & H2 & H3).
    split; [done|]. exists op, ph, pbh. split; [done|]. split; [apply Hne|done].
  - intros m h bh j op ph pbh chg H1 H2 _ H3 H4. eapply Hdc; eauto.
  - intros op a chg. rewrite Huc. split.
    + intros (? & ? & ?). split; [by left|done].
    + intros ([?|[He _]] & ? & ?); [done|destruct (Hne _ He)].
  - intros op l Hl. destruct (Huis _ _ Hl) as (H1 & H2 & H3). split; [done|]. split; [done|].
    intros u. rewrite H3. split; [by left|]. intros [?|(He & _)]; [done|destruct (Hne _ He)].
  - intros op u [Hu|(He & _)]; [|destruct (Hne _ He)]. by eapply Huic.
  - rewrite Hbal. reflexivity.
  - done.
Qed.

Section main.
  Context (U : gmap N tx).
  Hypothesis Hdesc : descendants_correct U.
  Hypothesis Hrc : remove_conflict_correct U.

  Lemma rollback_refines s0 F h :
    wf_universe U = true → Inv U s0 F →
    ∃ s', rollback U (fuel_of U) h s0 = Some s' ∧ Inv U s' (spec_disconnect U F h).
  Proof.
    intros HwfU HInv0.
    pose proof (inv_wf U s0 F HInv0) as Hfw.
    rewrite rollback_unfold. cbv zeta.
    set (hs := heights_from s0 h).
    (* the detaching loop *)
    assert (HL0 : loop_inv U F s0 (s0, bal s0, []) []).
    { exists ∅. split; [by apply Inv_to_InvD|]. split.
      - intros t. split; [set_solver|]. intros (? & ? & _ & ?%elem_of_nil). done.
      - intros op. split; [by intros ?%elem_of_nil|]. intros (t & ? & _). set_solver. }
    pose proof (rollback_blocks U HwfU F s0 HInv0 hs _ [] HL0 (heights_from_NoDup s0 h)
                  ltac:(by intros ? _ ?%elem_of_nil)) as HL.
    destruct (foldl (rb_step_block U) (s0, bal s0, []) hs) as [[s1 mb] cbc].
    destruct HL as (done & HID & Hdone0 & Hcbc). simpl in HID, Hdone0, Hcbc.
    assert (Hdone : ∀ t, t ∈ done ↔ ∃ hh bh, f_conf F !! t = Some (hh, bh) ∧ h <= hh).
    { intros t. rewrite Hdone0. split.
      - intros (hh & bh & Hc & Hin). apply heights_from_spec in Hin as [? _]. eauto.
      - intros (hh & bh & Hc & Hle). exists hh, bh. split; [done|]. apply heights_from_spec. split; [done|].
        destruct (inv_blocks_complete U s0 F HInv0 _ _ _ Hc) as (br & Hbr & _). rewrite Hbr. eauto. }
    (* block records deleted: the invariant for the facts that still contain the coinbase descendants *)
    pose proof (InvD_finish U F s0 HInv0 h done s1 mb HID Hdone0) as HI1.
    set (s2 := rb_del_blocks s1 hs) in *.
    set (F1 := disc_F1 U F h) in *.
    set (cb := disc_cb U F h).
    assert (HPD : PD U F1 cb (set_bal (λ _, mb) s2) F1).
    { split; [done|]. split; [done|]. split; [done|]. split; [done|]. split; [done|].
      intros c p _ ? ?. done. }
    assert (Hcb1 : ∀ op, op ∈ cbc → op.1 ∈ cb).
    { intros op (t & Ht & Hop)%Hcbc. unfold cb_outs in Hop.
      destruct (U !! t) as [x|] eqn:Hx; [|by apply elem_of_nil in Hop].
      destruct (t_coinbase x) eqn:Hcbx; [|by apply elem_of_nil in Hop].
      apply elem_of_list_fmap in Hop as (i & -> & _). simpl.
      apply disc_cb_elem. split; [by apply Hdone|]. unfold is_coinbase. by rewrite Hx. }
    destruct (PD_outpoints U HwfU Hdesc Hrc F1 cb cbc _ F1 HPD Hcb1) as (s' & Fk & Hs' & HPD' & _ & Hnosp).
    assert (HFk : Fk = remove_unconf_with_descendants U F1 cb).
    { eapply (PD_final U HwfU Hdesc F1 cb s' Fk cbc HPD'); [| | | |exact Hnosp].
      - intros r [(hh & bh & Hc & Hle) Hcbr]%disc_cb_elem [Hu|[_ ?]]%disc_unconf_elem; [|congruence].
        eapply (fw_disjoint U F Hfw r); [rewrite Hc; eauto|done].
      - intros r x i [Hr Hcbr]%disc_cb_elem Hx Hi. apply Hcbc. exists r. split; [by apply Hdone|].
        unfold cb_outs. rewrite Hx. unfold is_coinbase in Hcbr. rewrite Hx in Hcbr. rewrite Hcbr.
        apply elem_of_list_fmap. exists i. split; [done|]. by apply rb_elem_indices.
      - intros t Ht. apply (fw_in_universe U F1 (disc_facts_wf U F h Hfw)). by right.
      - intros r [(hh & bh & Hc & _) _]%disc_cb_elem. apply (fw_in_universe U F Hfw). left. rewrite Hc. eauto. }
    rewrite rb_phaseD_set_bal in Hs'.
    destruct (rb_phaseD U (fuel_of U) s2 cbc) as [s4|]; [|done].
    simpl in Hs'. injection Hs' as <-.
    exists (set_bal (λ _, mb) s4). split; [done|].
    destruct HPD' as (HI' & _). rewrite HFk in HI'.
    rewrite spec_disconnect_unfold. exact HI'.
  Qed.

  Lemma step_preserves_disconnect_hyp h : step_preserves U (Disconnect h).
  Proof.
    intros m sm HwfU HInv Hclk _. simpl.
    destruct (rollback_refines (st m) (fs sm) h HwfU HInv) as (s' & Hs' & HI').
    rewrite Hs'. split; [done|]. split; [exact HI'|exact Hclk].
  Qed.
End main.

(** * The obligation without hypotheses: the two interface statements are
      closed in [InvRemove.v] ([descendants_ok], [remove_conflict_ok]). *)
From Verif Require Tx.InvRemove.

Lemma rollback_refines_closed U s0 F h :
  wf_universe U = true → Inv U s0 F →
  ∃ s', rollback U (fuel_of U) h s0 = Some s' ∧ Inv U s' (spec_disconnect U F h).
Proof.
  apply rollback_refines; [apply InvRemove.descendants_ok|apply InvRemove.remove_conflict_ok].
Qed.

Lemma step_preserves_disconnect U h : step_preserves U (Disconnect h).
Proof.
  apply step_preserves_disconnect_hyp; [apply InvRemove.descendants_ok|apply InvRemove.remove_conflict_ok].
Qed.

Print Assumptions step_preserves_disconnect.

(** * Non-vacuity: a history whose [Disconnect] detaches a coinbase with an
      unconfirmed spender and a parent/child pair of the same block. *)
Module rb_example.
  Definition t1 : tx := {| t_id := 1%N; t_ins := []; t_outs := [50]; t_creds := [(0%N, false)]; t_coinbase := true |}.
  Definition t2 : tx := {| t_id := 2%N; t_ins := [(1%N, 0%N)]; t_outs := [10]; t_creds := [(0%N, false)]; t_coinbase := false |}.
  Definition t3 : tx := {| t_id := 3%N; t_ins := []; t_outs := [30]; t_creds := [(0%N, false)]; t_coinbase := false |}.
  Definition t4 : tx := {| t_id := 4%N; t_ins := [(3%N, 0%N)]; t_outs := [20]; t_creds := [(0%N, true)]; t_coinbase := false |}.
  Definition U : gmap N tx := <[1%N := t1]> (<[2%N := t2]> (<[3%N := t3]> (<[4%N := t4]> ∅))).
  Definition hist : list event :=
    [Confirm 1%N 0 7%N 0; Confirm 3%N 1 8%N 0; Confirm 4%N 1 8%N 0; Seen 2%N; Disconnect 0].

  Example wf : wf_universe U = true. Proof. by vm_compute. Qed.
  Example consistent : chain_consistent U hist = true. Proof. by vm_compute. Qed.
  Example before :
    (bal (st (run U (take 4 hist))), elements (f_unconf (fs (spec_run U (take 4 hist)))))
    = (70, [2%N]).
  Proof. by vm_compute. Qed.
  Example after :
    (bal (st (run U hist)), (map_to_list (unmined (st (run U hist)))).*1,
     elements (f_unconf (fs (spec_run U hist))), map_to_list (f_conf (fs (spec_run U hist))))
    = (0, [3%N; 4%N], [3%N; 4%N], []).
  Proof. by vm_compute. Qed.
End rb_example.
