(** [step_preserves U (Disconnect h)]: [Store.rollback] re-establishes the
    refinement invariant for [Ledger.spec_disconnect].  (owner: prover-rollback)

    Structure:
    - general helpers (sums over [map_to_list], facts drawn from [wf_universe]);
    - [InvG]: the invariant generalised over six predicates saying which
      mined records / debits / credits have already been removed and which
      unmined records / inputs / credits have already been added.  Every
      primitive mutation of [rollback_tx] changes one predicate by one point;
    - [InvD done] := [InvG] for the parameters determined by the set [done]
      of already detached transactions.  It is ORDER INDEPENDENT: a debit of a
      still-mined transaction may point to a credit that is gone (its parent
      is in [done]); that is the [amt = 0] branch;
    - the loop over blocks, deletion of the block records, [Inv] for the facts
      in which the coinbase descendants are still present;
    - the coinbase-descendant phase through [remove_conflict_correct]. *)
From stdpp Require Import gmap list numbers sorting.
From Coq Require Import ZArith NArith Lia.
From Verif Require Import Tx.Store Tx.Ledger Tx.Hist Tx.Inv.
Local Open Scope Z_scope.

(** * General helpers *)

Lemma rb_sumZ_perm l1 l2 : l1 ≡ₚ l2 → sumZ l1 = sumZ l2.
Proof. unfold sumZ. induction 1; simpl; lia. Qed.

Definition usum (U : gmap N tx) (m : gmap (N * N) (Z * N)) : Z :=
  sumZ (map (fun kv : (N * N) * (Z * N) => amount_of U kv.1) (map_to_list m)).

Lemma usum_insert U m k v : m !! k = None → usum U (<[k := v]> m) = amount_of U k + usum U m.
Proof.
  intros Hk. unfold usum.
  rewrite (rb_sumZ_perm _ _ (fmap_Permutation _ _ _ (map_to_list_insert m k v Hk))).
  reflexivity.
Qed.

Lemma usum_delete U m k v : m !! k = Some v → usum U m = amount_of U k + usum U (delete k m).
Proof.
  intros Hk. unfold usum.
  rewrite <- (rb_sumZ_perm _ _ (fmap_Permutation _ _ _ (map_to_list_delete m k v Hk))).
  reflexivity.
Qed.

Lemma rb_forallb_elem {A} (f : A → bool) l x : forallb f l = true → x ∈ l → f x = true.
Proof.
  intros Hf Hx. rewrite forallb_forall in Hf. apply Hf. by apply elem_of_list_In.
Qed.

Lemma rb_elem_indices {A} (l : list A) (i : N) : i ∈ indices l ↔ (N.to_nat i < length l)%nat.
Proof.
  unfold indices. rewrite elem_of_list_fmap. split.
  - intros (n & -> & Hn). apply elem_of_seq in Hn. rewrite Nat2N.id. lia.
  - intros Hi. exists (N.to_nat i). split; [by rewrite N2Nat.id|]. apply elem_of_seq. lia.
Qed.

Lemma rb_NoDup_indices {A} (l : list A) : NoDup (indices l).
Proof.
  unfold indices. apply NoDup_fmap_2; [|apply NoDup_seq].
  intros a b Hab. by apply Nat2N.inj.
Qed.

Lemma rb_zip_indices_lookup {A} (l : list A) (j : N) (x : A) :
  (j, x) ∈ zip (indices l) l ↔ l !! N.to_nat j = Some x.
Proof.
  unfold indices.
  assert (Hgen : ∀ (l : list A) k, (j, x) ∈ zip (map N.of_nat (seq k (length l))) l ↔
            (k ≤ N.to_nat j)%nat ∧ l !! (N.to_nat j - k)%nat = Some x).
  { clear l. induction l as [|a l IH]; intros k; simpl.
    - split; [by intros ?%elem_of_nil|]. intros [_ Hl]. by rewrite lookup_nil in Hl.
    - rewrite elem_of_cons, IH. split.
      + intros [Heq|[Hk Hl]].
        * injection Heq as -> ->. rewrite Nat2N.id. split; [lia|]. by rewrite Nat.sub_diag.
        * split; [lia|]. replace (N.to_nat j - k)%nat with (S (N.to_nat j - S k)) by lia. done.
      + intros [Hk Hl]. destruct (decide (N.to_nat j = k)) as [Hjk|Hjk].
        * left. rewrite Hjk, Nat.sub_diag in Hl. simpl in Hl. injection Hl as ->.
          f_equal. rewrite <- Hjk. by rewrite N2Nat.id.
        * right. split; [lia|].
          replace (N.to_nat j - k)%nat with (S (N.to_nat j - S k)) in Hl by lia. done. }
  rewrite Hgen. rewrite Nat.sub_0_r. split; [by intros [_ ?]|]. intros ?; split; [lia|done].
Qed.

(** * Facts drawn from [wf_universe] *)

Section wfu.
  Context (U : gmap N tx) (HwfU : wf_universe U = true).

  Lemma rb_wf_tx k x : U !! k = Some x → wf_tx k x = true.
  Proof.
    intros Hk. unfold wf_universe in HwfU.
    apply andb_true_iff in HwfU as [HwfU _]. apply andb_true_iff in HwfU as [_ Hall].
    apply (rb_forallb_elem _ _ (k, x) Hall). by apply elem_of_map_to_list.
  Qed.

  Lemma rb_wf_parts k x : U !! k = Some x →
    t_id x = k ∧ NoDup (t_ins x) ∧ (∀ a, a ∈ t_outs x → 0 < a) ∧
    (∀ ic, ic ∈ t_creds x → (N.to_nat ic.1 < length (t_outs x))%nat) ∧
    (t_coinbase x = true → t_ins x = []).
  Proof.
    intros Hk. pose proof (rb_wf_tx k x Hk) as Hw. unfold wf_tx in Hw.
    repeat (apply andb_true_iff in Hw as [Hw ?]).
    repeat split.
    - by apply bool_decide_eq_true in Hw.
    - match goal with H : bool_decide (NoDup (t_ins x)) = true |- _ => by apply bool_decide_eq_true in H end.
    - intros a Ha.
      match goal with H : forallb _ (t_outs x) = true |- _ =>
        pose proof (rb_forallb_elem _ _ a H Ha) as Hpos end.
      by apply bool_decide_eq_true in Hpos.
    - intros ic Hic.
      match goal with H : forallb _ (t_creds x) = true |- _ =>
        pose proof (rb_forallb_elem _ _ ic H Hic) as Hr end.
      by apply bool_decide_eq_true in Hr.
    - intros Hcb.
      match goal with H : (negb (t_coinbase x) || _) = true |- _ => rewrite Hcb in H; simpl in H;
        by apply bool_decide_eq_true in H end.
  Qed.

  Lemma rb_ins_in_range c x op p : U !! c = Some x → op ∈ t_ins x → U !! op.1 = Some p →
    (N.to_nat op.2 < length (t_outs p))%nat.
  Proof.
    intros Hc Hop Hp. unfold wf_universe in HwfU.
    apply andb_true_iff in HwfU as [_ Hr]. unfold ins_in_range_b in Hr.
    pose proof (rb_forallb_elem _ _ (c, x) Hr) as H1. simpl in H1.
    specialize (H1 ltac:(by apply elem_of_map_to_list)).
    pose proof (rb_forallb_elem _ _ op H1 Hop) as H2. simpl in H2. rewrite Hp in H2.
    by apply bool_decide_eq_true in H2.
  Qed.

  Lemma rb_credited_pos op chg : is_credited U op chg → 0 < amount_of U op.
  Proof.
    unfold is_credited, creds_of, amount_of. destruct (U !! op.1) as [x|] eqn:Hx; [|by intros ?%elem_of_nil].
    intros Hc. destruct (rb_wf_parts _ _ Hx) as (_ & _ & Hpos & Hr & _).
    specialize (Hr _ Hc). simpl in Hr. apply Hpos. unfold out_amount.
    apply elem_of_list_In. apply nth_In. done.
  Qed.

  Lemma rb_credited_in_range t x i chg : U !! t = Some x → is_credited U (t, i) chg →
    (N.to_nat i < length (t_outs x))%nat.
  Proof.
    unfold is_credited, creds_of. simpl. intros Hx. rewrite Hx. intros Hc.
    destruct (rb_wf_parts _ _ Hx) as (_ & _ & _ & Hr & _). by specialize (Hr _ Hc).
  Qed.

  Lemma rb_input_at_inj m j j' op : input_at U m j = Some op → input_at U m j' = Some op → j = j'.
  Proof.
    unfold input_at, tx_ins. destruct (U !! m) as [x|] eqn:Hx; [|by rewrite lookup_nil].
    intros H1 H2. destruct (rb_wf_parts _ _ Hx) as (_ & Hnd & _).
    apply N2Nat.inj. eapply NoDup_lookup; eauto.
  Qed.
End wfu.

Lemma rb_input_at_elem U m op : op ∈ tx_ins U m ↔ ∃ j, input_at U m j = Some op.
Proof.
  unfold input_at. rewrite elem_of_list_lookup. split.
  - intros [n Hn]. exists (N.of_nat n). by rewrite Nat2N.id.
  - intros [j Hj]. by exists (N.to_nat j).
Qed.

(** * The generalised invariant *)

Record prm := {
  pTR : N → Prop;            (* mined record removed *)
  pUM : N → Prop;            (* unmined record added *)
  pUI : N * N → N → Prop;    (* unmined input (outpoint, spender) added *)
  pDG : N → N * N → Prop;    (* debit of (spender, outpoint) removed *)
  pCG : N * N → Prop;        (* mined credit removed *)
  pUC : N * N → Prop;        (* unmined credit added *)
}.

Section invg.
  Context (U : gmap N tx) (F : facts) (B : gmap Z blockrec).

  Record InvG (P : prm) (s : store) (mb : Z) : Prop := {
    g_blocks : blocks s = B;
    g_txrecs : ∀ t h bh, is_Some (txrecs s !! (t, h, bh)) ↔ f_conf F !! t = Some (h, bh) ∧ ¬ pTR P t;
    g_unmined : ∀ t, is_Some (unmined s !! t) ↔ t ∈ f_unconf F ∨ pUM P t;
    g_credits_sound : ∀ t h bh i cv, credits s !! (t, h, bh, i) = Some cv →
        f_conf F !! t = Some (h, bh) ∧ ¬ pCG P (t, i) ∧ is_credited U (t, i) (c_change cv) ∧
        c_amt cv = amount_of U (t, i) ∧
        (c_spent cv = true ↔ ∃ m, conf_spender U F (t, i) m ∧ ¬ pDG P m (t, i));
    g_credits_complete : ∀ t h bh i chg, f_conf F !! t = Some (h, bh) → is_credited U (t, i) chg →
        ¬ pCG P (t, i) → is_Some (credits s !! (t, h, bh, i));
    g_unspent : ∀ op h bh, unspent s !! op = Some (h, bh) ↔
        (f_conf F !! op.1 = Some (h, bh) ∧ (∃ chg, is_credited U op chg) ∧ ¬ pCG P op ∧
         ¬ ∃ m, conf_spender U F op m ∧ ¬ pDG P m op);
    g_debits_sound : ∀ m h bh j a ck, debits s !! (m, h, bh, j) = Some (a, ck) →
        f_conf F !! m = Some (h, bh) ∧
        ∃ op ph pbh, input_at U m j = Some op ∧ ¬ pDG P m op ∧ (∃ chg, is_credited U op chg) ∧
                     f_conf F !! op.1 = Some (ph, pbh) ∧ ck = (op.1, ph, pbh, op.2) ∧ a = amount_of U op;
    g_debits_complete : ∀ m h bh j op ph pbh chg, f_conf F !! m = Some (h, bh) →
        input_at U m j = Some op → ¬ pDG P m op →
        is_credited U op chg → f_conf F !! op.1 = Some (ph, pbh) →
        is_Some (debits s !! (m, h, bh, j));
    g_unmined_credits : ∀ op a chg, unmined_credits s !! op = Some (a, chg) ↔
        ((op.1 ∈ f_unconf F ∨ pUC P op) ∧ is_credited U op chg ∧ a = amount_of U op);
    g_ui_sound : ∀ op l, unmined_inputs s !! op = Some l →
        l ≠ [] ∧ NoDup l ∧ ∀ u, u ∈ l ↔ (unconf_spender U F op u ∨ pUI P op u);
    g_ui_complete : ∀ op u, (unconf_spender U F op u ∨ pUI P op u) → is_Some (unmined_inputs s !! op);
    g_mb : mb = usum U (unspent s);
    g_locked : locked s = f_leases F;
  }.

  (** The parameters only matter on guarded points. *)
  Lemma InvG_equiv P P' s mb :
    InvG P s mb →
    (∀ t, pTR P t ↔ pTR P' t) →
    (∀ t, pUM P t ↔ pUM P' t) →
    (∀ op u, pUI P op u ↔ pUI P' op u) →
    (∀ m op, op ∈ tx_ins U m → (pDG P m op ↔ pDG P' m op)) →
    (∀ op chg, is_credited U op chg → (pCG P op ↔ pCG P' op)) →
    (∀ op chg, is_credited U op chg → (pUC P op ↔ pUC P' op)) →
    InvG P' s mb.
  Proof.
    intros [] HTR HUM HUI HDG HCG HUC.
    assert (Hsp : ∀ op, (∃ m, conf_spender U F op m ∧ ¬ pDG P m op) ↔
                        (∃ m, conf_spender U F op m ∧ ¬ pDG P' m op)).
    { intros op. split; intros (m & Hm & Hn); exists m; (split; [done|]);
        destruct Hm as [? Hin]; by rewrite (HDG m op Hin) in *. }
    constructor; try done.
    - intros t h bh. rewrite <- HTR. done.
    - intros t. rewrite <- HUM. done.
    - intros t h bh i cv Hc. destruct (g_credits_sound0 _ _ _ _ _ Hc) as (H1 & H2 & H3 & H4 & H5).
      repeat split; try done.
      + by rewrite <- (HCG _ _ H3).
      + intros Hs. apply Hsp, H5, Hs.
      + intros Hs. apply H5, Hsp, Hs.
    - intros t h bh i chg H1 H2 H3. eapply g_credits_complete0; eauto. by rewrite (HCG _ _ H2).
    - intros op h bh. rewrite g_unspent0. split.
      + intros (H1 & [chg H2] & H3 & H4). repeat split; eauto.
        * by rewrite <- (HCG _ _ H2).
        * by rewrite <- Hsp.
      + intros (H1 & [chg H2] & H3 & H4). repeat split; eauto.
        * by rewrite (HCG _ _ H2).
        * by rewrite Hsp.
    - intros m h bh j a ck Hd. destruct (g_debits_sound0 _ _ _ _ _ _ Hd) as (H1 & op & ph & pbh & H2 & H3 & H4).
      split; [done|]. exists op, ph, pbh. split; [done|]. split; [|done].
      rewrite <- HDG; [done|]. apply rb_input_at_elem. eauto.
    - intros m h bh j op ph pbh chg H1 H2 H3 H4 H5. eapply g_debits_complete0; eauto.
      rewrite HDG; [done|]. apply rb_input_at_elem. eauto.
    - intros op a chg. rewrite g_unmined_credits0. split.
      + intros (H1 & H2 & H3). repeat split; try done. by rewrite <- (HUC _ _ H2).
      + intros (H1 & H2 & H3). repeat split; try done. by rewrite (HUC _ _ H2).
    - intros op l Hl. destruct (g_ui_sound0 _ _ Hl) as (H1 & H2 & H3). repeat split; try done.
      + intros Hu. rewrite <- HUI. by apply H3.
      + intros Hu. apply H3. by rewrite HUI.
    - intros op u Hu. apply (g_ui_complete0 op u). by rewrite HUI.
  Qed.
End invg.

(** * The inner loops of [rollback_tx] as top-level functions *)

Definition rb_debit_part (h : N) (bh : Z) (bhash : N) (i : N) (op : N * N) (s'1 : store) (mb' : Z) : store * Z :=
  let dk : N * Z * N * N := (h, bh, bhash, i) in
  match debits s'1 !! dk with
  | None => (s'1, mb')
  | Some (_, ck) =>
    let '(amt, s'2) :=
      match credits s'1 !! ck with
      | None => (0, s'1)
      | Some cv => (c_amt cv,
                    set_credits (<[ck := {| c_amt := c_amt cv; c_spent := false; c_change := c_change cv; c_by := None |}]>) s'1)
      end in
    let s'3 := set_debits (delete dk) s'2 in
    if bool_decide (amt = 0) then (s'3, mb')
    else
      let '(ch, cheight, chash, _) := ck in
      (set_unspent (<[op := (cheight, chash)]>) s'3, mb' + amt)
  end.

Definition rb_step_in (h : N) (bh : Z) (bhash : N) (acc : store * Z) (ii : N * (N * N)) : store * Z :=
  let '(s', mb') := acc in
  let '(i, op) := ii in
  rb_debit_part h bh bhash i op (put_unmined_input op h s') mb'.

Definition rb_step_out (t : tx) (h : N) (bh : Z) (bhash : N) (acc : store * Z) (i : N) : store * Z :=
  let '(s', mb') := acc in
  let ck : N * Z * N * N := (h, bh, bhash, i) in
  match credits s' !! ck with
  | None => acc
  | Some cv =>
    let op : N * N := (h, i) in
    let s'1 := set_unmined_credits (<[op := (c_amt cv, c_change cv)]>) s' in
    let s'2 := set_credits (delete ck) s'1 in
    match cred_key_of_unspent s'2 op with
    | Some _ => (set_unspent (delete op) s'2, mb' - out_amount t i)
    | None => (s'2, mb')
    end
  end.

Definition rb_step_cb (t : tx) (h : N) (bh : Z) (bhash : N) (acc : store * Z * list (N * N)) (i : N)
  : store * Z * list (N * N) :=
  let '(s', mb', cbc') := acc in
  let ck : N * Z * N * N := (h, bh, bhash, i) in
  let op : N * N := (h, i) in
  match credits s' !! ck with
  | None => (s', mb', cbc' ++ [op])
  | Some _ =>
    let '(s'', mb'') :=
      match cred_key_of_unspent s' op with
      | Some _ => (set_unspent (delete op) s', mb' - out_amount t i)
      | None => (s', mb')
      end in
    (set_credits (delete ck) s'', mb'', cbc' ++ [op])
  end.

Lemma rollback_tx_unfold U bh bhash s mb cbc h :
  rollback_tx U bh bhash (s, mb, cbc) h =
  match U !! h with
  | None => (s, mb, cbc)
  | Some t =>
    let s1 := set_txrecs (delete (h, bh, bhash)) s in
    if t_coinbase t then foldl (rb_step_cb t h bh bhash) (s1, mb, cbc) (indices (t_outs t))
    else
      let s2 := set_unmined (<[h := tt]>) s1 in
      let '(s3, mb1) := foldl (rb_step_in h bh bhash) (s2, mb) (zip (indices (t_ins t)) (t_ins t)) in
      let '(s4, mb2) := foldl (rb_step_out t h bh bhash) (s3, mb1) (indices (t_outs t)) in
      (s4, mb2, cbc)
  end.
Proof. reflexivity. Qed.

Lemma rb_credited_chg_inj U (HwfU : wf_universe U = true) op c1 c2 :
  is_credited U op c1 → is_credited U op c2 → c1 = c2.
Proof.
  unfold is_credited, creds_of. destruct (U !! op.1) as [x|] eqn:Hx; [|by intros ?%elem_of_nil].
  pose proof (rb_wf_tx U HwfU _ _ Hx) as Hw. unfold wf_tx in Hw.
  repeat (apply andb_true_iff in Hw as [Hw ?]).
  assert (Hnd : NoDup (map fst (t_creds x))).
  { match goal with H : bool_decide (NoDup (map fst (t_creds x))) = true |- _ => by apply bool_decide_eq_true in H end. }
  intros [n1 Hn1]%elem_of_list_lookup [n2 Hn2]%elem_of_list_lookup.
  assert (n1 = n2) as ->.
  { eapply (NoDup_lookup _ n1 n2 op.2 Hnd); rewrite list_lookup_fmap.
    - by rewrite Hn1. - by rewrite Hn2. }
  congruence.
Qed.

(** * Primitive steps *)

Section steps.
  Context (U : gmap N tx) (HwfU : wf_universe U = true).
  Context (F : facts) (Hfw : facts_wf U F) (B : gmap Z blockrec).

  Lemma g_step_txrec P s mb t bh bhash :
    InvG U F B P s mb → f_conf F !! t = Some (bh, bhash) →
    InvG U F B {| pTR := λ x, pTR P x ∨ x = t; pUM := pUM P; pUI := pUI P;
                  pDG := pDG P; pCG := pCG P; pUC := pUC P |}
         (set_txrecs (delete (t, bh, bhash)) s) mb.
  Proof.
    intros [Hb Htr Hum Hcs Hcc Hus Hds Hdc Huc Huis Huic Hmb Hlo] Hc.
    constructor; simpl; try done.
    intros t' h' bh'. split.
    - intros [v Hv]. apply lookup_delete_Some in Hv as [Hne Hv].
      destruct (proj1 (Htr t' h' bh') (mk_is_Some _ _ Hv)) as [H1 H2]. split; [done|].
      intros [?|Heq]; [done|]. subst t'. rewrite Hc in H1. congruence.
    - intros [H1 H2]. rewrite lookup_delete_ne.
      + apply Htr. split; [done|]. tauto.
      + intros Heq. injection Heq as <- _ _. tauto.
  Qed.

  Lemma g_step_unmined P s mb t :
    InvG U F B P s mb →
    InvG U F B {| pTR := pTR P; pUM := λ x, pUM P x ∨ x = t; pUI := pUI P;
                  pDG := pDG P; pCG := pCG P; pUC := pUC P |}
         (set_unmined (<[t := tt]>) s) mb.
  Proof.
    intros [Hb Htr Hum Hcs Hcc Hus Hds Hdc Huc Huis Huic Hmb Hlo].
    constructor; simpl; try done.
    intros t'. destruct (decide (t' = t)) as [->|Hne].
    - rewrite lookup_insert. split; [tauto|]. by eexists.
    - rewrite lookup_insert_ne by done. rewrite Hum. tauto.
  Qed.

  Lemma g_step_put_input P s mb op t :
    InvG U F B P s mb → ¬ (unconf_spender U F op t ∨ pUI P op t) →
    InvG U F B {| pTR := pTR P; pUM := pUM P; pUI := λ o u, pUI P o u ∨ (o = op ∧ u = t);
                  pDG := pDG P; pCG := pCG P; pUC := pUC P |}
         (put_unmined_input op t s) mb.
  Proof.
    intros [Hb Htr Hum Hcs Hcc Hus Hds Hdc Huc Huis Huic Hmb Hlo] Hnew.
    constructor; simpl; try done.
    - intros op' l. destruct (decide (op' = op)) as [->|Hne].
      + rewrite lookup_insert. intros Hl. injection Hl as <-.
        destruct (unmined_inputs s !! op) as [l0|] eqn:Hl0; simpl.
        * destruct (Huis _ _ Hl0) as (H1 & H2 & H3). split; [by destruct l0|]. split.
          -- apply NoDup_app. split; [done|]. split; [|apply NoDup_singleton].
             intros x Hx ->%elem_of_list_singleton. apply Hnew. by apply H3.
          -- intros u. rewrite elem_of_app, elem_of_list_singleton, H3.
             split; [intros [[?|?]|?]; auto|intros [?|[?|[_ ?]]]; auto].
        * split; [done|]. split; [apply NoDup_singleton|].
          intros u. rewrite elem_of_list_singleton. split; [intros ->; right; right; done|].
          intros [Hu|[Hu|[_ ->]]]; [| |done].
          -- destruct (Huic op u (or_introl Hu)) as [? ?]. congruence.
          -- destruct (Huic op u (or_intror Hu)) as [? ?]. congruence.
      + rewrite lookup_insert_ne by done. intros Hl.
        destruct (Huis _ _ Hl) as (H1 & H2 & H3). repeat split; try done.
        * intros Hu. apply H3 in Hu. tauto.
        * intros [Hu|[Hu|[? _]]]; [apply H3; tauto|apply H3; tauto|done].
    - intros op' u Hu. destruct (decide (op' = op)) as [->|Hne].
      + rewrite lookup_insert. by eexists.
      + rewrite lookup_insert_ne by done. apply (Huic op' u).
        destruct Hu as [?|[?|[? _]]]; [by left|by right|done].
  Qed.
End steps.

Definition addDG (P : prm) (t : N) (op : N * N) : prm :=
  {| pTR := pTR P; pUM := pUM P; pUI := pUI P;
     pDG := λ m o, pDG P m o ∨ (m = t ∧ o = op); pCG := pCG P; pUC := pUC P |}.

Section step_debit.
  Context (U : gmap N tx) (HwfU : wf_universe U = true).
  Context (F : facts) (Hfw : facts_wf U F) (B : gmap Z blockrec).

  Lemma g_step_debit P s mb t bh bhash j op :
    InvG U F B P s mb → f_conf F !! t = Some (bh, bhash) → input_at U t j = Some op →
    InvG U F B (addDG P t op) (rb_debit_part t bh bhash j op s mb).1 (rb_debit_part t bh bhash j op s mb).2.
  Proof.
    intros [Hb Htr Hum Hcs Hcc Hus Hds Hdc Huc Huis Huic Hmb Hlo] Hc Hin.
    destruct op as [p i].
    assert (Hsp_t : conf_spender U F (p, i) t).
    { split; [rewrite Hc; eauto | apply rb_input_at_elem; eauto]. }
    assert (Hother : ∀ op', op' ≠ (p, i) →
              ((∃ m, conf_spender U F op' m ∧ ¬ pDG P m op') ↔
               (∃ m, conf_spender U F op' m ∧ ¬ (pDG P m op' ∨ m = t ∧ op' = (p, i))))).
    { intros op' Hne; split; intros (m & Hm & Hn); exists m; (split; [done|]).
      - intros [?|[_ ?]]; done.
      - intros ?; apply Hn; by left. }
    assert (Hnone : ¬ ∃ m, conf_spender U F (p, i) m ∧ ¬ (pDG P m (p, i) ∨ m = t ∧ (p, i) = (p, i))).
    { intros (m & Hm & Hn). apply Hn. right. split; [|done].
      eapply (fw_one_conf_spender U F Hfw); eauto. }
    assert (Hdsound' : ∀ m h0 bh0 j0 a0 ck0,
              (t, bh, bhash, j) ≠ (m, h0, bh0, j0) → debits s !! (m, h0, bh0, j0) = Some (a0, ck0) →
              f_conf F !! m = Some (h0, bh0) ∧
              ∃ op1 ph pbh, input_at U m j0 = Some op1 ∧ ¬ (pDG P m op1 ∨ m = t ∧ op1 = (p, i)) ∧
                (∃ chg, is_credited U op1 chg) ∧ f_conf F !! op1.1 = Some (ph, pbh) ∧
                ck0 = (op1.1, ph, pbh, op1.2) ∧ a0 = amount_of U op1).
    { intros m h0 bh0 j0 a0 ck0 Hne Hl.
      destruct (Hds _ _ _ _ _ _ Hl) as (H1 & op1 & ph1 & pbh1 & H2 & H3 & H4).
      split; [done|]. exists op1, ph1, pbh1. split; [done|]. split; [|done].
      intros [?|[-> ->]]; [done|]. apply Hne.
      assert (j0 = j) as -> by (eapply rb_input_at_inj; eauto).
      rewrite Hc in H1. by injection H1 as <- <-. }
    assert (Hdcomp' : ∀ m h0 bh0 j0 op1 ph1 pbh1 chg1, f_conf F !! m = Some (h0, bh0) →
              input_at U m j0 = Some op1 → ¬ (pDG P m op1 ∨ m = t ∧ op1 = (p, i)) →
              is_credited U op1 chg1 → f_conf F !! op1.1 = Some (ph1, pbh1) →
              is_Some (delete (t, bh, bhash, j) (debits s) !! (m, h0, bh0, j0))).
    { intros m h0 bh0 j0 op1 ph1 pbh1 chg1 H1 H2 H3 H4 H5.
      destruct (decide ((t, bh, bhash, j) = (m, h0, bh0, j0))) as [Heq|Hne].
      - injection Heq as <- <- <- <-. exfalso. apply H3. right. split; [done|]. congruence.
      - rewrite lookup_delete_ne by done. eapply Hdc; eauto. }
    unfold rb_debit_part.
    destruct (debits s !! (t, bh, bhash, j)) as [[a ck]|] eqn:Hd.
    - destruct (Hds _ _ _ _ _ _ Hd) as (_ & op0 & ph & pbh & Hin0 & HnDG & [chg Hcr] & Hpc & -> & ->).
      assert (op0 = (p, i)) as -> by congruence. simpl in Hpc. simpl.
      assert (Hunone : unspent s !! (p, i) = None).
      { destruct (unspent s !! (p, i)) as [[h0 bh0]|] eqn:Hu; [|done].
        apply Hus in Hu as (_ & _ & _ & Hno). exfalso. apply Hno. exists t. split; done. }
      destruct (credits s !! (p, ph, pbh, i)) as [cv|] eqn:Hcv.
      + (* the credit is still there: mark it unspent again *)
        destruct (Hcs _ _ _ _ _ Hcv) as (_ & HnCG & Hcr' & Hamt & Hspent).
        pose proof (rb_credited_pos U HwfU _ _ Hcr') as Hpos.
        case_bool_decide as Hz; [lia|]. simpl.
        constructor; simpl; try done.
        * intros t0 h0 bh0 i0 cv0 Hl.
          destruct (decide ((t0, h0, bh0, i0) = (p, ph, pbh, i))) as [Heq|Hne].
          -- injection Heq as -> -> -> ->. rewrite lookup_insert in Hl. injection Hl as <-. simpl.
             repeat split; try done.
          -- rewrite lookup_insert_ne in Hl by done.
             destruct (Hcs _ _ _ _ _ Hl) as (H1 & H2 & H3 & H4 & H5).
             repeat split; try done.
             ++ intros Hs. apply Hother; [|by apply H5].
                intros [= -> ->]. apply Hne. rewrite Hpc in H1. by injection H1 as <- <-.
             ++ intros Hs. apply H5. eapply Hother; [|done].
                intros [= -> ->]. apply Hne. rewrite Hpc in H1. by injection H1 as <- <-.
        * intros t0 h0 bh0 i0 chg0 H1 H2 H3.
          destruct (decide ((t0, h0, bh0, i0) = (p, ph, pbh, i))) as [Heq|Hne].
          -- rewrite Heq, lookup_insert. by eexists.
          -- rewrite lookup_insert_ne by done. eapply Hcc; eauto.
        * intros op' h0 bh0. destruct (decide (op' = (p, i))) as [->|Hne].
          -- rewrite lookup_insert. simpl. split.
             ++ intros [= <- <-]. repeat split; eauto.
             ++ intros (H1 & _). rewrite Hpc in H1. congruence.
          -- rewrite lookup_insert_ne by done. rewrite Hus.
             split; intros (H1 & H2 & H3 & H4); repeat split; try done.
             ++ intros Hex. apply H4. by apply Hother.
             ++ intros Hex. apply H4. by apply Hother.
        * intros m h0 bh0 j0 a0 ck0 Hl. apply lookup_delete_Some in Hl as [Hne Hl]. eauto.
        * rewrite usum_insert by done. rewrite Hamt, Hmb. lia.
      + (* the credit is already gone: amount 0 *)
        simpl. constructor; simpl; try done.
        * intros t0 h0 bh0 i0 cv0 Hl.
          destruct (Hcs _ _ _ _ _ Hl) as (H1 & H2 & H3 & H4 & H5).
          assert (Hne : (t0, i0) ≠ (p, i)).
          { intros [= -> ->]. rewrite Hpc in H1. injection H1 as <- <-. congruence. }
          repeat split; try done.
          ++ intros Hs. apply Hother; [done|by apply H5].
          ++ intros Hs. apply H5. by eapply Hother.
        * intros op' h0 bh0. destruct (decide (op' = (p, i))) as [->|Hne].
          -- rewrite Hunone. split; [done|]. simpl. intros (H1 & [chg' H2] & H3 & _). exfalso.
             destruct (Hcc p _ _ i chg' H1 H2 H3) as [? Hx].
             rewrite Hpc in H1. injection H1 as <- <-. congruence.
          -- rewrite Hus.
             split; intros (H1 & H2 & H3 & H4); repeat split; try done.
             ++ intros Hex. apply H4. by apply Hother.
             ++ intros Hex. apply H4. by apply Hother.
        * intros m h0 bh0 j0 a0 ck0 Hl. apply lookup_delete_Some in Hl as [Hne Hl]. eauto.
    - (* not a debit: nothing recorded for this input *)
      simpl.
      assert (Hgone : ∀ chg ph pbh, is_credited U (p, i) chg → f_conf F !! p = Some (ph, pbh) →
                ¬ ∃ m, conf_spender U F (p, i) m ∧ ¬ pDG P m (p, i)).
      { intros chg ph pbh H1 H2 (m & Hm & Hn).
        assert (m = t) as -> by (eapply (fw_one_conf_spender U F Hfw); eauto).
        destruct (Hdc t bh bhash j (p, i) ph pbh chg Hc Hin Hn H1 H2) as [? Hx]. congruence. }
      constructor; simpl; try done.
      + intros t0 h0 bh0 i0 cv0 Hl.
        destruct (Hcs _ _ _ _ _ Hl) as (H1 & H2 & H3 & H4 & H5).
        repeat split; try done.
        * intros Hs. apply H5 in Hs. destruct (decide ((t0, i0) = (p, i))) as [Heq|Hne].
          -- injection Heq as -> ->. destruct (Hgone _ _ _ H3 H1 Hs).
          -- by apply Hother.
        * intros Hs. apply H5. destruct (decide ((t0, i0) = (p, i))) as [Heq|Hne].
          -- injection Heq as -> ->. destruct (Hnone Hs).
          -- by eapply Hother.
      + intros op' h0 bh0. rewrite Hus.
        split; intros (H1 & [chg' H2] & H3 & H4); repeat split; eauto.
        * intros Hex. destruct (decide (op' = (p, i))) as [->|Hne]; [destruct (Hnone Hex)|].
          apply H4. by apply Hother.
        * intros Hex. destruct (decide (op' = (p, i))) as [->|Hne]; [destruct (Hgone _ _ _ H2 H1 Hex)|].
          apply H4. by apply Hother.
      + intros m h0 bh0 j0 a0 ck0 Hl. apply Hdsound'; [|done].
        intros Heq. rewrite <- Heq in Hl. congruence.
      + intros m h0 bh0 j0 op1 ph1 pbh1 chg1 H1 H2 H3 H4 H5. eapply Hdc; eauto.
  Qed.
End step_debit.

Definition addCG (P : prm) (op : N * N) : prm :=
  {| pTR := pTR P; pUM := pUM P; pUI := pUI P; pDG := pDG P;
     pCG := λ o, pCG P o ∨ o = op; pUC := pUC P |}.
Definition addUC (P : prm) (op : N * N) : prm :=
  {| pTR := pTR P; pUM := pUM P; pUI := pUI P; pDG := pDG P;
     pCG := pCG P; pUC := λ o, pUC P o ∨ o = op |}.

Section step_credit.
  Context (U : gmap N tx) (HwfU : wf_universe U = true).
  Context (F : facts) (Hfw : facts_wf U F) (B : gmap Z blockrec).

  (** add the unmined credit for an existing mined credit *)
  Lemma g_step_uc P s mb t bh bhash i cv :
    InvG U F B P s mb → credits s !! (t, bh, bhash, i) = Some cv →
    InvG U F B (addUC P (t, i)) (set_unmined_credits (<[(t, i) := (c_amt cv, c_change cv)]>) s) mb.
  Proof.
    intros [Hb Htr Hum Hcs Hcc Hus Hds Hdc Huc Huis Huic Hmb Hlo] Hcv.
    destruct (Hcs _ _ _ _ _ Hcv) as (Hc & HnCG & Hcr & Hamt & _).
    constructor; simpl; try done.
    intros op' a chg. destruct (decide (op' = (t, i))) as [->|Hne].
    - rewrite lookup_insert. split.
      + intros [= <- <-]. split; [right; by right|done].
      + intros (_ & H2 & ->). f_equal. f_equal; [done|].
        eapply rb_credited_chg_inj; eauto.
    - rewrite lookup_insert_ne by done. rewrite Huc.
      split; intros (H1 & H2 & H3); (split; [|done]).
      + destruct H1; [by left|right; by left].
      + destruct H1 as [?|[?|?]]; [by left|by right|done].
  Qed.

  Lemma g_step_uc_none P s mb t bh bhash i :
    InvG U F B P s mb → f_conf F !! t = Some (bh, bhash) → credits s !! (t, bh, bhash, i) = None →
    ¬ pCG P (t, i) →
    InvG U F B (addUC P (t, i)) s mb.
  Proof.
    intros HI Hc Hcv HnCG. eapply InvG_equiv; [exact HI|..]; simpl; try done.
    intros op chg Hcr. split; [by left|]. intros [?| ->]; [done|]. exfalso.
    destruct (g_credits_complete _ _ _ _ _ _ HI t bh bhash i chg Hc Hcr HnCG) as [? Hx]. congruence.
  Qed.

  (** delete a mined credit together with its unspent entry *)
  Lemma g_step_cg P s mb t x bh bhash i :
    InvG U F B P s mb → f_conf F !! t = Some (bh, bhash) → U !! t = Some x →
    InvG U F B (addCG P (t, i))
      (set_credits (delete (t, bh, bhash, i))
         (match unspent s !! (t, i) with Some _ => set_unspent (delete (t, i)) s | None => s end))
      (match unspent s !! (t, i) with Some _ => mb - out_amount x i | None => mb end).
  Proof.
    intros [Hb Htr Hum Hcs Hcc Hus Hds Hdc Huc Huis Huic Hmb Hlo] Hc Hx.
    assert (Hcs' : ∀ t0 h0 bh0 i0 cv0, delete (t, bh, bhash, i) (credits s) !! (t0, h0, bh0, i0) = Some cv0 →
        f_conf F !! t0 = Some (h0, bh0) ∧ ¬ (pCG P (t0, i0) ∨ (t0, i0) = (t, i)) ∧
        is_credited U (t0, i0) (c_change cv0) ∧ c_amt cv0 = amount_of U (t0, i0) ∧
        (c_spent cv0 = true ↔ ∃ m, conf_spender U F (t0, i0) m ∧ ¬ pDG P m (t0, i0))).
    { intros t0 h0 bh0 i0 cv0 Hl. apply lookup_delete_Some in Hl as [Hne Hl].
      destruct (Hcs _ _ _ _ _ Hl) as (H1 & H2 & H3 & H4 & H5). repeat split; try done; [|by apply H5|by apply H5].
      intros [?|Heq]; [done|]. injection Heq as -> ->. apply Hne.
      rewrite Hc in H1. by injection H1 as <- <-. }
    assert (Hcc' : ∀ t0 h0 bh0 i0 chg0, f_conf F !! t0 = Some (h0, bh0) → is_credited U (t0, i0) chg0 →
        ¬ (pCG P (t0, i0) ∨ (t0, i0) = (t, i)) →
        is_Some (delete (t, bh, bhash, i) (credits s) !! (t0, h0, bh0, i0))).
    { intros t0 h0 bh0 i0 chg0 H1 H2 H3. rewrite lookup_delete_ne.
      - eapply Hcc; eauto.
      - intros Heq. injection Heq as <- <- <- <-. apply H3. by right. }
    assert (Hus' : ∀ op' h1 bh1, op' ≠ (t, i) →
        (unspent s !! op' = Some (h1, bh1) ↔
         f_conf F !! op'.1 = Some (h1, bh1) ∧ (∃ chg, is_credited U op' chg) ∧
         ¬ (pCG P op' ∨ op' = (t, i)) ∧ ¬ ∃ m, conf_spender U F op' m ∧ ¬ pDG P m op')).
    { intros op' h1 bh1 Hne. rewrite Hus.
      split; intros (H1 & H2 & H3 & H4); repeat split; try done.
      - intros [?|?]; done.
      - intros ?; apply H3; by left. }
    destruct (unspent s !! (t, i)) as [[h0 bh0]|] eqn:Hu.
    - constructor; simpl; try done.
      + intros op' h1 bh1. destruct (decide (op' = (t, i))) as [->|Hne].
        * rewrite lookup_delete. split; [done|]. intros (_ & _ & H3 & _). destruct H3. by right.
        * rewrite lookup_delete_ne by done. by apply Hus'.
      + rewrite (usum_delete U _ _ _ Hu) in Hmb. unfold amount_of in Hmb. simpl in Hmb.
        rewrite Hx in Hmb. lia.
    - constructor; simpl; try done.
      intros op' h1 bh1. destruct (decide (op' = (t, i))) as [->|Hne].
      + rewrite Hu. split; [done|]. intros (_ & _ & H3 & _). destruct H3. by right.
      + by apply Hus'.
  Qed.

  (** no mined credit at this output: only the bookkeeping moves on *)
  Lemma g_step_cg_none P s mb t bh bhash i :
    InvG U F B P s mb → f_conf F !! t = Some (bh, bhash) → credits s !! (t, bh, bhash, i) = None →
    InvG U F B (addCG P (t, i)) s mb.
  Proof.
    intros [Hb Htr Hum Hcs Hcc Hus Hds Hdc Huc Huis Huic Hmb Hlo] Hc Hcv.
    constructor; simpl; try done.
    - intros t0 h0 bh0 i0 cv0 Hl.
      destruct (Hcs _ _ _ _ _ Hl) as (H1 & H2 & H3 & H4 & H5). repeat split; try done; [|by apply H5|by apply H5].
      intros [?|Heq]; [done|]. injection Heq as -> ->.
      rewrite Hc in H1. injection H1 as <- <-. congruence.
    - intros t0 h0 bh0 i0 chg0 H1 H2 H3. eapply Hcc; eauto.
    - intros op' h1 bh1. rewrite Hus. split; intros (H1 & H2 & H3 & H4); repeat split; try done.
      + intros [?| ->]; [done|]. destruct H2 as [chg H2]. simpl in H1.
        destruct (Hcc _ _ _ _ _ H1 H2 H3) as [? Hy].
        rewrite Hc in H1. injection H1 as <- <-. congruence.
      + intros ?; apply H3; by left.
  Qed.
End step_credit.
