(** Executable comparison for the correspondence checks of C01, C02, C12 and
    C13: the model ([Store]) and the specification ([Ledger]) are evaluated
    on the same history the implementation ran, and compared with what the
    implementation reported after every event. *)
From stdpp Require Import gmap list numbers sorting.
From Coq Require Import ZArith NArith.
From Verif Require Import Tx.Store Tx.Ledger Tx.Hist.
Local Open Scope Z_scope.

Global Instance utxo_eq_dec : EqDecision utxo. Proof. solve_decision. Defined.
Global Instance credit_rec_eq_dec : EqDecision credit_rec. Proof. solve_decision. Defined.
Global Instance details_eq_dec : EqDecision details. Proof. solve_decision. Defined.
Global Instance lockval_eq_dec : EqDecision lockval. Proof. solve_decision. Defined.

Definition op_le (a b : outpoint) : Prop := (a.1 < b.1)%N ∨ (a.1 = b.1 ∧ (a.2 <= b.2)%N).
Global Instance op_le_dec a b : Decision (op_le a b).
Proof. unfold op_le. apply _. Defined.
Definition utxo_le (a b : utxo) : Prop := op_le (u_op a) (u_op b).
Global Instance utxo_le_dec a b : Decision (utxo_le a b).
Proof. unfold utxo_le, op_le. apply _. Defined.
Definition N_le' (a b : N) : Prop := (a <= b)%N.
Global Instance N_le'_dec a b : Decision (N_le' a b).
Proof. unfold N_le'. apply _. Defined.
Definition lock_le (a b : outpoint * lockval) : Prop := op_le a.1 b.1.
Global Instance lock_le_dec a b : Decision (lock_le a b).
Proof. unfold lock_le, op_le. apply _. Defined.

(** Implementation observation after one event (canonical form written by
    the harness: lists sorted by outpoint / txid). *)
Record iobs := {
  io_err : bool;
  io_lock : N;                     (* 0 none, 1 ok, 2 unknown, 3 already locked, 4 unlock not allowed *)
  io_expiry : Z;
  io_tip : Z;
  io_bal : list Z;                 (* minconfs x syncoffs, row-major *)
  io_utxos : list utxo;
  io_watch : list outpoint;
  io_unmined : list txid;
  io_locked : list (outpoint * lockval);
  io_details : list (txid * option details);
  io_unique : list (txid * option details);
  io_ranges : list ((Z * Z) * list (Z * list txid));
}.

Record tcase := {
  tc_universe : list tx;
  tc_minconfs : list Z;
  tc_syncoffs : list Z;
  tc_details : bool;
  tc_events : list (event * iobs);
  tc_events_b : list event;        (* C02: a second history, same final facts *)
  tc_obs_b : option iobs;
}.

Definition universe_of (l : list tx) : universe := list_to_map (map (fun t => (t_id t, t)) l).

Definition lock_code (o : outp) : N * Z :=
  match o with
  | OLock (LockOk e) => (1%N, e)
  | OLock UnlockOk => (1%N, 0)
  | OLock ErrUnknownOutput => (2%N, 0)
  | OLock ErrAlreadyLocked => (3%N, 0)
  | OLock ErrUnlockNotAllowed => (4%N, 0)
  | _ => (0%N, 0)
  end.

Definition sync_list (tip : Z) (offs : list Z) : list Z := map (fun o => Z.max tip 0 + o) offs.

Definition sort_details (l : list (txid * details)) : list txid := map fst l.

Definition group_of (unm : bool) (h : Z) (g : list (txid * details)) : Z * list txid :=
  if unm then (-1, merge_sort N_le' (map fst g)) else (h, map fst g).

(** Observation computed from the model state. *)
Section model_obs.
  Context (U : universe) (c : tcase).

  Definition m_bal (m : mstate) (tip : Z) : list Z :=
    flat_map (fun mc => map (fun sy => balance U (st m) mc sy (clock m)) (sync_list tip (tc_syncoffs c))) (tc_minconfs c).
  Definition m_utxos (m : mstate) : list utxo := merge_sort utxo_le (unspent_outputs U (st m) (clock m)).
  Definition m_watch (m : mstate) : list outpoint := merge_sort op_le (map u_op (outputs_to_watch U (st m) (clock m))).
  Definition m_unmined (m : mstate) : list txid := merge_sort N_le' (unmined_hashes (st m)).
  Definition m_locked (m : mstate) : list (outpoint * lockval) := merge_sort lock_le (list_locked (st m) (clock m)).
  Definition m_details (m : mstate) : list (txid * option details) :=
    map (fun t => (t_id t, tx_details U (st m) (t_id t))) (tc_universe c).
  Definition m_unique (m : mstate) : list (txid * option details) :=
    map (fun t => (t_id t, unique_tx_details U (st m) (t_id t) None)) (tc_universe c).
  Definition m_range (m : mstate) (q : Z * Z) : list (Z * list txid) :=
    let '(b, e) := q in
    let blocks_part := map (fun g => (match g with
                                      | (_, d) :: _ => match d_block d with Some (h, _) => h | None => -1 end
                                      | [] => -2 end, map fst g)) (range_blocks U (st m) b e) in
    let unm_part := map (fun g => (-1, merge_sort N_le' (map fst g))) (range_unmined U (st m)) in
    if bool_decide (b < 0) then unm_part ++ blocks_part
    else blocks_part ++ (if bool_decide (e < 0) then unm_part else []).
End model_obs.

(** Observation predicted by the specification (facts only). *)
Section spec_obs.
  Context (U : universe) (c : tcase).
  Definition s_bal (m : sstate) (tip : Z) : list Z :=
    flat_map (fun mc => map (fun sy => spec_balance U (fs m) mc sy (sclock m)) (sync_list tip (tc_syncoffs c))) (tc_minconfs c).
  Definition s_utxos (m : sstate) : list utxo := merge_sort utxo_le (spec_utxos U (fs m) (sclock m)).
  Definition s_unmined (m : sstate) : list txid := merge_sort N_le' (elements (f_unconf (fs m))).
  (** the rescan set (OutputsToWatch): every credited output of a known
      transaction that no CONFIRMED transaction spends (= InvRange.spec_watch) *)
  Definition s_watch (m : sstate) : list outpoint :=
    merge_sort op_le (omap (fun x : tx * N * bool =>
                              if known_output U (fs m) (t_id x.1.1, x.1.2) then Some (t_id x.1.1, x.1.2) else None)
                           (credited_outputs U (fs m))).
  Definition s_locked (m : sstate) : list (outpoint * lockval) :=
    merge_sort lock_le (filter (fun kv => sclock m < l_expiry kv.2) (map_to_list (f_leases (fs m)))).
  Definition s_details (m : sstate) : list (txid * option details) :=
    map (fun t => (t_id t, spec_details U (fs m) (t_id t))) (tc_universe c).
  (** what range iteration must report, from the facts alone: one group per
      confirmed height inside the range (ascending, or descending when
      begin >= end after the -1 substitution), holding exactly the
      transactions confirmed at that height; the unconfirmed group first when
      begin < 0, last when only end < 0 *)
  Definition s_range (m : sstate) (q : Z * Z) : list (Z * list txid) :=
    let '(b, e) := q in
    let b' := if bool_decide (b < 0) then max_i32 else b in
    let e' := if bool_decide (e < 0) then max_i32 else e in
    let confs := map_to_list (f_conf (fs m)) in
    let hs := merge_sort Z.le (remove_dups (map (fun kv : txid * blockid => kv.2.1) confs)) in
    let sel := if bool_decide (b' < e')
               then filter (fun h => b' <= h ∧ h <= e') hs
               else reverse (filter (fun h => e' <= h ∧ h <= b') hs) in
    let groups := map (fun h => (h, merge_sort N_le'
                        (omap (fun kv : txid * blockid => if bool_decide (kv.2.1 = h) then Some kv.1 else None) confs))) sel in
    let unm := match elements (f_unconf (fs m)) with
               | [] => []
               | l => [(-1, merge_sort N_le' l)]
               end in
    if bool_decide (b < 0) then unm ++ groups
    else groups ++ (if bool_decide (e < 0) then unm else []).
  Definition s_tip (m : sstate) : Z := foldr Z.max (-1) (map (fun kv : txid * blockid => kv.2.1) (map_to_list (f_conf (fs m)))).
End spec_obs.

(** Failure codes: 1x = implementation differs from the MODEL,
    1xx = implementation differs from the SPECIFICATION (property violated),
    9xx = the case itself is not admissible (generator bug). *)
Definition first_fail (l : list (bool * nat)) : list nat :=
  omap (fun '(ok, code) => if ok : bool then None else Some code) l.

Definition eqb_on {A} `{EqDecision A} (a b : A) : bool := bool_decide (a = b).

Definition check_event (U : universe) (c : tcase) (m : mstate) (sm : sstate) (o : outp) (io : iobs) : list nat :=
  let tip := io_tip io in
  let '(lc, le) := lock_code o in
  first_fail
    ([ (negb (io_err io), 10%nat);
       (eqb_on (s_tip sm) tip, 900%nat);
       (eqb_on lc (io_lock io), 11%nat);
       (match o with OLock (LockOk _) => eqb_on le (io_expiry io) | _ => true end, 12%nat);
       (* 25: the returned expiry denotes the granted lease: the instant asked for
          (now + dur) or the stored, second-truncated one (C12 uses 25, not 12) *)
       (match o with
        | OLock (LockOk _) => eqb_on le (io_expiry io) || eqb_on (trunc_sec le) (io_expiry io)
        | _ => true end, 25%nat);
       (eqb_on (m_bal U c m tip) (io_bal io), 13%nat);
       (eqb_on (m_utxos U m) (io_utxos io), 14%nat);
       (eqb_on (m_watch U m) (io_watch io), 15%nat);
       (eqb_on (m_unmined m) (io_unmined io), 16%nat);
       (eqb_on (m_locked m) (io_locked io), 17%nat);
       (eqb_on (s_bal U c sm tip) (io_bal io), 113%nat);
       (eqb_on (s_utxos U sm) (io_utxos io), 114%nat);
       (eqb_on (s_watch U sm) (io_watch io), 115%nat);
       (eqb_on (s_unmined sm) (io_unmined io), 116%nat);
       (eqb_on (s_locked sm) (io_locked io), 117%nat) ]
     ++ (if tc_details c then
           [ (eqb_on (m_details U c m) (io_details io), 18%nat);
             (eqb_on (m_unique U c m) (io_unique io), 19%nat);
             (forallb (fun qr => eqb_on (m_range U m qr.1) qr.2) (io_ranges io), 20%nat);
             (eqb_on (s_details U c sm) (io_details io), 118%nat);
             (forallb (fun qr => eqb_on (s_range sm qr.1)
                                        (map (fun g : Z * list txid => (g.1, merge_sort N_le' g.2)) qr.2))
                      (io_ranges io), 120%nat) ]
         else [])).

Fixpoint check_events (U : universe) (c : tcase) (i : nat) (m : mstate) (sm : sstate)
         (l : list (event * iobs)) : list (nat * nat) :=
  match l with
  | [] => []
  | (e, io) :: l' =>
    let ok := event_ok U (fs sm) e in
    let '(m', o) := step U m e in
    let sm' := spec_step U sm e in
    let fails := (if ok then [] else [901%nat]) ++ (match o with OFuel => [902%nat] | _ => [] end)
                 ++ check_event U c m' sm' o io in
    map (fun code => (i, code)) fails ++ check_events U c (S i) m' sm' l'
  end.

(** C02: the second history must be consistent, establish the same facts,
    and the model and the implementation must report the same observables. *)
Definition check_pair (U : universe) (c : tcase) : list (nat * nat) :=
  match tc_obs_b c with
  | None => []
  | Some iob =>
    let ha := map fst (tc_events c) in
    let hb := tc_events_b c in
    let ma := run U ha in let mb := run U hb in
    let sa := spec_run U ha in let sb := spec_run U hb in
    let tip := io_tip iob in
    map (fun code => (length ha, code)) (first_fail
      [ (chain_consistent U hb, 903%nat);
        (* same_facts of Corollaries.v: confirmed, unconfirmed AND the raw leases (and the clock) *)
        (eqb_on (f_conf (fs sa)) (f_conf (fs sb)) && eqb_on (f_unconf (fs sa)) (f_unconf (fs sb))
         && eqb_on (f_leases (fs sa)) (f_leases (fs sb)) && eqb_on (sclock sa) (sclock sb), 904%nat);
        (eqb_on (m_bal U c mb tip) (io_bal iob), 21%nat);
        (eqb_on (m_utxos U mb) (io_utxos iob), 22%nat);
        (eqb_on (m_details U c mb) (io_details iob), 23%nat);
        (* model: the two histories are observationally equal *)
        (eqb_on (m_bal U c ma tip) (m_bal U c mb tip) && eqb_on (m_utxos U ma) (m_utxos U mb)
         && eqb_on (m_details U c ma) (m_details U c mb), 24%nat);
        (eqb_on (s_bal U c sb tip) (io_bal iob), 121%nat);
        (eqb_on (s_utxos U sb) (io_utxos iob), 122%nat);
        (eqb_on (s_details U c sb) (io_details iob), 123%nat) ])
  end.

Definition check_case (c : tcase) : list (nat * nat) :=
  let U := universe_of (tc_universe c) in
  (if wf_universe U && bool_decide (size U = length (tc_universe c)) then [] else [(0%nat, 905%nat)])
  ++ check_events U c 0 init_state {| fs := empty_facts; sclock := 0 |} (tc_events c)
  ++ check_pair U c.

Fixpoint failures_from (i : nat) (l : list tcase) : list (nat * nat * nat) :=
  match l with
  | [] => []
  | c :: l' => map (fun '(e, code) => (i, e, code)) (check_case c) ++ failures_from (S i) l'
  end.

Definition failures := failures_from 0.
