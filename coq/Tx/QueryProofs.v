(** Proofs about the query surface modelled in [Tx.Query] (property C13):
    block-qualified lookup, range iteration with its callback and against the
    ledger group by group, [PreviousPkScripts], [Wallet.GetTransactions].
    Everything is stated under the refinement invariant [Inv U s F]. *)
From stdpp Require Import gmap list numbers sorting.
From Coq Require Import ZArith NArith Lia.
From Verif Require Import Tx.Store Tx.Ledger Tx.Hist Tx.Inv Tx.InvObs Tx.InvLease Tx.InvRange Tx.Query.
Local Open Scope Z_scope.

(** * The callback of RangeTransactions (no invariant needed) *)

Lemma run_groups_app {A} (f : A → list (N * details) → bool * A) gs1 gs2 a :
  run_groups f (gs1 ++ gs2) a =
  if (run_groups f gs1 a).1 then (true, (run_groups f gs1 a).2)
  else run_groups f gs2 (run_groups f gs1 a).2.
Proof.
  revert a. induction gs1 as [|g gs1 IH]; intros a; simpl; [done|].
  destruct (f a g) as [brk a'] eqn:Hf. destruct brk; [done|]. apply IH.
Qed.

Lemma run_groups_stopped {A} (f : A → list (N * details) → bool * A) gs a :
  (run_groups f gs a).1 = true → run_groups f gs a = (true, (run_groups f gs a).2).
Proof. destruct (run_groups f gs a) as [b a']. simpl. by intros ->. Qed.

(** the callback form delivers the groups of [range_transactions] in order,
    until the callback answers "stop" *)
Lemma range_transactions_cb_eq {A} (f : A → list (N * details) → bool * A) U s b e a :
  range_transactions_cb f U s b e a = (run_groups f (range_transactions U s b e) a).2.
Proof.
  unfold range_transactions_cb, range_transactions. case_bool_decide as Hb.
  - rewrite run_groups_app.
    destruct (run_groups f (range_unmined U s) a) as [brk a'] eqn:H1. simpl.
    destruct brk; [done|].
    destruct (run_groups f (range_blocks U s b e) a') as [brk2 a2] eqn:H2.
    rewrite andb_false_r. simpl. done.
  - simpl. case_bool_decide as He.
    + rewrite run_groups_app.
      destruct (run_groups f (range_blocks U s b e) a) as [brk2 a2] eqn:H2. simpl.
      destruct brk2; simpl; done.
    + rewrite app_nil_r.
      destruct (run_groups f (range_blocks U s b e) a) as [brk2 a2] eqn:H2.
      rewrite andb_false_r. done.
Qed.

Lemma run_collect_never gs n acc :
  (run_groups (collect_cb 0) gs (n, acc)).2.2 = acc ++ gs.
Proof.
  revert n acc. induction gs as [|g gs IH]; intros n acc; simpl; [by rewrite app_nil_r|].
  rewrite IH. by rewrite <-app_assoc.
Qed.

Lemma run_collect_stop k gs n acc :
  (n < k)%nat → (run_groups (collect_cb k) gs (n, acc)).2.2 = acc ++ take (k - n) gs.
Proof.
  revert n acc. induction gs as [|g gs IH]; intros n acc Hn; simpl.
  - by rewrite take_nil, app_nil_r.
  - case_bool_decide as Hk; simpl.
    + replace (k - n)%nat with 1%nat by lia. simpl. by rewrite take_0.
    + rewrite IH by lia. replace (k - n)%nat with (S (k - S n)) by lia. simpl. by rewrite <-app_assoc.
Qed.

(** early exit: a callback that answers "stop" on its [k]-th call has seen
    exactly the first [k] groups; one that never does has seen all of them *)
Lemma range_collect_eq U s b e k :
  range_collect U s b e k = take_stop k (range_transactions U s b e).
Proof.
  unfold range_collect. rewrite range_transactions_cb_eq. destruct k as [|k].
  - by rewrite run_collect_never.
  - rewrite run_collect_stop by lia. by rewrite Nat.sub_0_r.
Qed.

(** * General list lemmas *)

Lemma SSorted_lt_unique (l1 l2 : list Z) :
  StronglySorted Z.lt l1 → StronglySorted Z.lt l2 → (∀ x, x ∈ l1 ↔ x ∈ l2) → l1 = l2.
Proof.
  revert l2. induction l1 as [|x l1 IH]; intros l2 H1 H2 Heq.
  - destruct l2 as [|y l2]; [done|]. exfalso. assert (y ∈ @nil Z) as Hy by (apply Heq; left). inversion Hy.
  - destruct l2 as [|y l2].
    { exfalso. assert (x ∈ @nil Z) as Hx by (apply Heq; left). inversion Hx. }
    apply StronglySorted_inv in H1 as [H1 Hf1]. apply StronglySorted_inv in H2 as [H2 Hf2].
    rewrite Forall_forall in Hf1, Hf2.
    assert (x = y) as ->.
    { assert (x ∈ y :: l2) as Hx by (apply Heq; left).
      assert (y ∈ x :: l1) as Hy by (apply Heq; left).
      apply elem_of_cons in Hx as [Hx|Hx]; [done|].
      apply elem_of_cons in Hy as [Hy|Hy]; [done|].
      pose proof (Hf1 _ Hy). pose proof (Hf2 _ Hx). lia. }
    f_equal. apply IH; [done|done|]. intros z. split; intros Hz.
    + assert (z ∈ y :: l2) as Hz' by (apply Heq; by right).
      apply elem_of_cons in Hz' as [->|Hz']; [|done]. pose proof (Hf1 _ Hz). lia.
    + assert (z ∈ y :: l1) as Hz' by (apply Heq; by right).
      apply elem_of_cons in Hz' as [->|Hz']; [|done]. pose proof (Hf2 _ Hz). lia.
Qed.

Lemma omap_snd_zip {A B C} (g : B → option C) (is : list A) (l : list B) :
  length is = length l → omap (λ ii : A * B, g ii.2) (zip is l) = omap g l.
Proof.
  revert is. induction l as [|x l IH]; intros [|i is] Hlen; try done.
  simpl zip. rewrite !omap_cons'. simpl. rewrite IH; [done|]. simpl in Hlen. lia.
Qed.

Lemma sequence_opt_filter {A} (P : A → Prop) `{!∀ x, Decision (P x)} (l : list A) :
  sequence_opt (omap (λ x, if decide (P x) then Some (Some x) else None) l) = Some (filter P l).
Proof.
  induction l as [|x l IH]; [done|].
  rewrite omap_cons', filter_cons. destruct (decide (P x)); [|done].
  unfold sequence_opt in *. simpl. by rewrite IH.
Qed.

Lemma length_indices {A} (l : list A) : length (indices l) = length l.
Proof. unfold indices. by rewrite map_length, seq_length. Qed.

Lemma Forall2_conj_Forall_r {A B} (R : A → B → Prop) (P : B → Prop) l1 l2 :
  Forall2 R l1 l2 → Forall P l2 → Forall2 (λ x y, R x y ∧ P y) l1 l2.
Proof.
  induction 1 as [|x y l1 l2 Hxy H IH]; intros Hf; [constructor|].
  apply Forall_cons in Hf as [Hy Hf]. constructor; [done|by apply IH].
Qed.

Lemma my_outputs_nil idxs : my_outputs idxs [] = [].
Proof. induction idxs as [|i r IH]; [done|]. simpl. done. Qed.

(** over the ascending output indices the walk of [makeTxSummary] finds every
    credit *)
Lemma my_outputs_omap (sel : N → option credit_rec) idxs :
  NoDup idxs → (∀ i c, sel i = Some c → cr_index c = i) →
  my_outputs idxs (omap sel idxs) = map cr_index (omap sel idxs).
Proof.
  intros Hnd Hsel. induction Hnd as [|i r Hi Hnd IH]; [done|].
  rewrite omap_cons'. destruct (sel i) as [c|] eqn:Hc.
  - simpl. rewrite (Hsel _ _ Hc). rewrite bool_decide_eq_true_2 by done. by rewrite IH.
  - simpl. destruct (omap sel r) as [|c' cs] eqn:Hr.
    + by rewrite my_outputs_nil.
    + assert (c' ∈ omap sel r) as Hin by (rewrite Hr; left).
      apply elem_of_list_omap in Hin as (j & Hj & Hsj). apply Hsel in Hsj.
      rewrite bool_decide_eq_false_2; [done|]. intros Heq. apply Hi. congruence.
Qed.


(** * GetTransactions results up to the order inside a group *)

Definition gt_equiv (r1 r2 : gt_result) : Prop :=
  Forall2 (λ x y : (Z * N) * list summary, x.1 = y.1 ∧ x.2 ≡ₚ y.2) (gt_mined r1) (gt_mined r2) ∧
  gt_unmined r1 ≡ₚ gt_unmined r2.

(** all members of a group report the same block (or none) *)
Definition uniform_block (g : list (N * details)) : Prop :=
  ∃ ob, ∀ t d, (t, d) ∈ g → d_block d = ob.

Lemma gt_step_equiv U r r' g g' :
  gt_equiv r r' → g ≡ₚ g' → uniform_block g' → gt_equiv (gt_step U r g) (gt_step U r' g').
Proof.
  intros [Hm Hu] Hp [ob Hob].
  destruct g as [|[t d0] g1]; destruct g' as [|[t' d0'] g1'].
  - done.
  - by apply Permutation_nil_cons in Hp.
  - by apply Permutation_sym, Permutation_nil_cons in Hp.
  - assert (d_block d0' = ob) as H1 by (apply (Hob t'); left).
    assert (d_block d0 = ob) as H2 by (apply (Hob t); rewrite <-Hp; left).
    unfold gt_step. rewrite H1, H2. destruct ob as [b|]; split; cbn [gt_mined gt_unmined]; try done.
    + apply Forall2_app; [done|]. constructor; [|constructor]. split; [done|].
      cbn [snd]. rewrite !map_fmap. by apply fmap_Permutation.
    + rewrite !map_fmap. by apply fmap_Permutation.
Qed.

Lemma foldl_gt_step_equiv U gs gs' r r' :
  gt_equiv r r' → Forall2 (λ g g', g ≡ₚ g' ∧ uniform_block g') gs gs' →
  gt_equiv (foldl (gt_step U) r gs) (foldl (gt_step U) r' gs').
Proof.
  intros Hr Hf. revert r r' Hr. induction Hf as [|g g' gs gs' [Hp Hu] Hf IH]; intros r r' Hr; [done|].
  simpl. apply IH. by apply gt_step_equiv.
Qed.

Lemma map_ext_Forall {A B} (f g : A → B) l : Forall (λ x, f x = g x) l → map f l = map g l.
Proof. induction 1 as [|x l Hx Hl IH]; [done|]. simpl. by rewrite Hx, IH. Qed.

(** * Under the invariant *)

Section query.
  Context (U : gmap N tx) (s : store) (F : facts).
  Context (Hwf : wf_universe U = true) (HI : Inv U s F).

  (** ** Lookup qualified by a block *)

  (** [UniqueTxDetails] returns the ledger's details iff the ledger has the
      transaction at exactly the named status: confirmed in exactly that block
      (height and hash), resp. unconfirmed for [None]; nothing otherwise - in
      particular nothing for the block a transaction was confirmed in before a
      reorganisation, and nothing for a block it never was in *)
  Lemma unique_qualified t b : unique_tx_details U s t b = spec_unique U F t b.
  Proof.
    destruct (details_correct U s F t Hwf HI) as (_ & H2 & _).
    destruct b as [[h bh]|]; simpl.
    - case_bool_decide as Hc.
      + by rewrite Hc in H2.
      + destruct (txrecs s !! (t, h, bh)) as [[]|] eqn:Hr; [|done].
        exfalso. apply Hc. apply (inv_txrecs U s F HI). by eexists.
    - case_bool_decide as Hu.
      + by rewrite (unconf_not_conf U s F HI t Hu) in H2.
      + destruct (unmined s !! t) as [[]|] eqn:Hm; [|done].
        exfalso. apply Hu, (inv_unmined U s F HI). by eexists.
  Qed.

  (** ** Range iteration against the ledger, group by group *)

  Lemma elem_of_conf_heights h : h ∈ conf_heights F ↔ conf_height F h.
  Proof.
    unfold conf_heights, conf_height. rewrite merge_sort_Permutation, elem_of_remove_dups, map_fmap, elem_of_list_fmap.
    split.
    - intros ([t [hh bh]] & -> & Hin). apply elem_of_map_to_list in Hin. by exists t, bh.
    - intros (t & bh & Hc). exists (t, (h, bh)). split; [done|]. by apply elem_of_map_to_list.
  Qed.

  Lemma conf_heights_sorted : StronglySorted Z.lt (conf_heights F).
  Proof.
    apply SSorted_le_lt.
    - unfold conf_heights. apply StronglySorted_merge_sort; apply _.
    - unfold conf_heights. rewrite merge_sort_Permutation. apply NoDup_remove_dups.
  Qed.

  Lemma block_heights_eq : block_heights s = conf_heights F.
  Proof.
    apply SSorted_lt_unique; [apply block_heights_sorted|apply conf_heights_sorted|].
    intros h. rewrite elem_of_block_heights, elem_of_conf_heights. by apply (block_conf_height U).
  Qed.

  Lemma rb_sel_eq b' e' : rb_sel s b' e' = spec_sel F b' e'.
  Proof. unfold rb_sel, spec_sel. by rewrite block_heights_eq. Qed.

  Lemma elem_of_conf_at h t : t ∈ conf_at F h ↔ ∃ bh, f_conf F !! t = Some (h, bh).
  Proof.
    unfold conf_at. rewrite elem_of_list_omap. split.
    - intros ([t' [hh bh]] & Hin & Hf). simpl in Hf. case_bool_decide as Hh; [|done].
      injection Hf as <-. subst hh. apply elem_of_map_to_list in Hin. by exists bh.
    - intros [bh Hc]. exists (t, (h, bh)). split; [by apply elem_of_map_to_list|].
      simpl. by rewrite bool_decide_eq_true_2.
  Qed.

  Lemma NoDup_conf_at h : NoDup (conf_at F h).
  Proof.
    unfold conf_at. apply NoDup_omap; [apply NoDup_map_to_list|].
    intros [t1 [h1 b1]] [t2 [h2 b2]] y H1 H2 Hf1 Hf2. simpl in Hf1, Hf2.
    case_bool_decide; [|done]. case_bool_decide; [|done].
    injection Hf1 as <-. injection Hf2 as <-.
    apply elem_of_map_to_list in H1, H2. congruence.
  Qed.

  Lemma elem_of_with_details l t d :
    (t, d) ∈ with_details U F l ↔ t ∈ l ∧ spec_details U F t = Some d.
  Proof.
    unfold with_details. rewrite elem_of_list_omap. split.
    - intros (t' & Hin & Hf). destruct (spec_details U F t') as [d'|] eqn:Hd; [|done].
      injection Hf as <- <-. done.
    - intros [Hin Hd]. exists t. split; [done|]. by rewrite Hd.
  Qed.

  Lemma NoDup_with_details l : NoDup l → NoDup (with_details U F l).
  Proof.
    intros Hnd. unfold with_details. apply NoDup_omap; [done|].
    intros t1 t2 y _ _ H1 H2. destruct (spec_details U F t1); [|done]. destruct (spec_details U F t2); [|done].
    congruence.
  Qed.

  (** one block group = the transactions the ledger has confirmed at that
      height, each once, with the ledger's details *)
  Lemma rb_group_perm h br :
    blocks s !! h = Some br →
    map (λ txh, (txh, mined_details U s (txh, h, b_hash br))) (b_txs br) ≡ₚ with_details U F (conf_at F h).
  Proof.
    intros Hbr. destruct (inv_blocks_sound U s F HI h br Hbr) as (_ & Hnd & Hall).
    apply NoDup_Permutation.
    - apply (NoDup_fmap_1 fst). rewrite <-map_fmap, map_fst_pair. done.
    - apply NoDup_with_details, NoDup_conf_at.
    - intros [t d]. rewrite elem_of_with_details, elem_of_conf_at, map_fmap, elem_of_list_fmap. split.
      + intros (t' & [= -> ->] & Hin). pose proof (Hall _ Hin) as Hc. split; [by eexists|].
        symmetry. by apply (mined_details_spec U s F Hwf HI).
      + intros [[bh Hc] Hd].
        destruct (inv_blocks_complete U s F HI t h bh Hc) as (br' & Hbr' & Hbh & Hin).
        assert (br' = br) as -> by congruence. subst bh.
        exists t. split; [|done]. f_equal.
        pose proof (mined_details_spec U s F Hwf HI t h (b_hash br) Hc) as Hm. congruence.
  Qed.

  Lemma rb_groups_perm l :
    (∀ h, h ∈ l → is_Some (blocks s !! h)) →
    Forall2 (≡ₚ) (omap (rb_group U s) l) (map (λ h, with_details U F (conf_at F h)) l).
  Proof.
    induction l as [|h l IH]; intros Hall; [constructor|].
    rewrite omap_cons'. destruct (Hall h) as [br Hbr]; [left|].
    unfold rb_group at 1. rewrite Hbr. simpl map. constructor.
    - by apply rb_group_perm.
    - apply IH. intros h' Hh'. apply Hall. by right.
  Qed.

  Lemma range_blocks_perm b e :
    Forall2 (≡ₚ) (range_blocks U s b e) (spec_range_blocks U F b e).
  Proof.
    rewrite range_blocks_alt. unfold spec_range_blocks. fold (rb_bound b). fold (rb_bound e).
    rewrite <-rb_sel_eq. apply rb_groups_perm. intros h Hh. by apply elem_of_rb_sel in Hh as [? _].
  Qed.

  Lemma with_details_unconf l :
    (∀ t, t ∈ l → t ∈ f_unconf F) →
    with_details U F l = map (λ t, (t, unmined_details U s t)) l.
  Proof.
    induction l as [|t l IH]; intros Hall; [done|].
    unfold with_details. rewrite omap_cons'.
    rewrite <-(unmined_details_spec U s F Hwf HI t) by (apply Hall; left).
    simpl. f_equal. apply IH. intros t' Ht'. apply Hall. by right.
  Qed.

  Lemma range_unmined_perm : Forall2 (≡ₚ) (range_unmined U s) (spec_range_unmined U F).
  Proof.
    destruct (details_correct U s F 0%N Hwf HI) as (_ & _ & Hp).
    unfold range_unmined, spec_range_unmined.
    destruct (unmined_hashes s) as [|x l] eqn:Hl; destruct (elements (f_unconf F)) as [|y l'] eqn:Hl'.
    - constructor.
    - by apply Permutation_nil_cons in Hp.
    - by apply Permutation_sym, Permutation_nil_cons in Hp.
    - constructor; [|constructor].
      rewrite with_details_unconf.
      + rewrite !map_fmap. by apply fmap_Permutation.
      + intros t Ht. apply elem_of_elements. by rewrite Hl'.
  Qed.

  (** [RangeTransactions begin end], any direction, -1 on either side: the
      groups delivered are, in order, the groups the ledger prescribes, each a
      permutation of the prescribed group (every transaction of the group
      exactly once, with the ledger's full details) *)
  Lemma range_equals_spec b e :
    Forall2 (≡ₚ) (range_transactions U s b e) (spec_range U F b e).
  Proof.
    unfold range_transactions, spec_range. case_bool_decide.
    - apply Forall2_app; [apply range_unmined_perm|apply range_blocks_perm].
    - apply Forall2_app; [apply range_blocks_perm|]. case_bool_decide; [apply range_unmined_perm|constructor].
  Qed.

  Lemma range_collect_equals_spec b e k :
    Forall2 (≡ₚ) (range_collect U s b e k) (take_stop k (spec_range U F b e)).
  Proof.
    rewrite range_collect_eq. destruct k as [|k]; simpl; [apply range_equals_spec|].
    apply Forall2_take, range_equals_spec.
  Qed.

  (** ** PreviousPkScripts *)

  Definition spends_credit (op : N * N) : Prop := known F op.1 && credited U op = true.

  Lemma spends_credit_iff op :
    spends_credit op ↔ (is_Some (f_conf F !! op.1) ∨ op.1 ∈ f_unconf F) ∧ ∃ chg, is_credited U op chg.
  Proof. unfold spends_credit. by rewrite andb_true_iff, known_true, credited_true. Qed.

  Lemma script_of_input t x op :
    U !! t = Some x → op ∈ t_ins x → (is_Some (f_conf F !! op.1) ∨ op.1 ∈ f_unconf F) →
    script_of U op = Some op.
  Proof.
    intros Hx Hop Hk. destruct (known_in_universe U s F Hwf HI op.1 Hk) as (p & Hp & _).
    unfold script_of. rewrite Hp.
    rewrite bool_decide_eq_true_2; [done|]. by eapply (wf_universe_ins_in_range U t x op p).
  Qed.

  Lemma prev_unmined t x :
    U !! t = Some x → t ∈ f_unconf F →
    previous_pkscripts U s t None = Some (spec_prev U F t).
  Proof.
    intros Hx Hu. unfold previous_pkscripts, spec_prev.
    rewrite <-(sequence_opt_filter spends_credit). f_equal. apply omap_ext_elem. intros op Hop.
    assert (op ∈ t_ins x) as Hop' by (unfold tx_ins in Hop; by rewrite Hx in Hop).
    destruct (decide (spends_credit op)) as [Hsc|Hsc].
    - apply spends_credit_iff in Hsc as [Hk [chg Hcr]].
      rewrite (script_of_input t x op Hx Hop' Hk). destruct Hk as [[[ph pbh] Hcp]|Hup].
      + assert (unmined s !! op.1 = None) as ->.
        { destruct (unmined s !! op.1) as [[]|] eqn:Hm; [|done]. exfalso.
          eapply (conf_not_unconf U s F HI); [done|]. apply (inv_unmined U s F HI). by eexists. }
        assert (unspent s !! op = Some (ph, pbh)) as ->.
        { apply (inv_unspent U s F HI). split_and!; [done|by eexists|].
          intros [m Hm]. eapply (fw_no_unconf_conflict U F (inv_wf U s F HI) op m t); [done|]. by split. }
        destruct (proj2 (inv_txrecs U s F HI op.1 ph pbh) Hcp) as [[] ->]. done.
      + destruct (proj2 (inv_unmined U s F HI op.1) Hup) as [[] ->].
        rewrite bool_decide_eq_true_2; [done|]. exists (amount_of U op, chg).
        by apply (inv_unmined_credits U s F HI).
    - destruct (unmined s !! op.1) as [[]|] eqn:Hm.
      + rewrite bool_decide_eq_false_2; [done|]. intros [[a chg] Hmc]. apply Hsc, spends_credit_iff.
        apply (inv_unmined_credits U s F HI) in Hmc as (Hup & Hcr & _). split; [by right|by eexists].
      + destruct (unspent s !! op) as [[ph pbh]|] eqn:Hus; [|done]. exfalso. apply Hsc, spends_credit_iff.
        apply (inv_unspent U s F HI) in Hus as (Hcp & Hcr & _). split; [left; by eexists|done].
  Qed.

  Lemma prev_mined t x h bh :
    U !! t = Some x → f_conf F !! t = Some (h, bh) →
    previous_pkscripts U s t (Some (h, bh)) = Some (spec_prev U F t).
  Proof.
    intros Hx Hc. unfold previous_pkscripts, spec_prev.
    rewrite <-(sequence_opt_filter spends_credit). f_equal.
    rewrite <-(omap_snd_zip (λ x0, if decide (spends_credit x0) then Some (Some x0) else None)
                 (indices (tx_ins U t)) (tx_ins U t)) by apply length_indices.
    apply omap_indices_zip. intros n op Hn. simpl.
    assert (input_at U t (N.of_nat n) = Some op) as Hat.
    { unfold input_at. by rewrite Nat2N.id. }
    assert (op ∈ tx_ins U t) as Hop by (by eapply elem_of_list_lookup_2).
    assert (op ∈ t_ins x) as Hop' by (unfold tx_ins in Hop; by rewrite Hx in Hop).
    destruct (debits s !! (t, h, bh, N.of_nat n)) as [[amt ck]|] eqn:Hd.
    - destruct (inv_debits_sound U s F HI _ _ _ _ _ _ Hd)
        as (_ & op' & ph & pbh & Hat' & Hcr & Hcp & -> & _).
      rewrite Hat in Hat'. injection Hat' as <-.
      destruct (proj2 (inv_txrecs U s F HI op.1 ph pbh) Hcp) as [[] ->].
      assert (is_Some (f_conf F !! op.1) ∨ op.1 ∈ f_unconf F) as Hk by (left; by eexists).
      destruct op as [o1 o2]. simpl in *.
      rewrite (script_of_input t x (o1, o2) Hx Hop' Hk).
      rewrite decide_True; [done|]. by apply spends_credit_iff.
    - rewrite decide_False; [done|]. intros [Hk [chg Hcr]]%spends_credit_iff.
      destruct (fw_parents_confirmed U F (inv_wf U s F HI) t h bh op Hc Hop Hk) as (ph & pbh & Hcp & _).
      destruct (inv_debits_complete U s F HI t h bh (N.of_nat n) op ph pbh chg Hc Hat Hcr Hcp) as [v Hv].
      congruence.
  Qed.

  (** for a known transaction asked at its current status: exactly one script
      per input that spends a wallet credit (an output credited to the wallet
      by a known transaction), in input order - never a data error *)
  Lemma previous_pkscripts_correct t :
    known F t = true →
    previous_pkscripts U s t (f_conf F !! t) = Some (spec_prev U F t).
  Proof.
    intros Hk. apply known_true in Hk.
    destruct (known_in_universe U s F Hwf HI t Hk) as (x & Hx & _).
    destruct (f_conf F !! t) as [[h bh]|] eqn:Hc.
    - by apply (prev_mined t x).
    - destruct Hk as [[b Hb]|Hu]; [congruence|]. by apply (prev_unmined t x).
  Qed.

  (** ** Wallet.GetTransactions *)

  (** what the model's range iteration puts into a group *)
  Definition model_entry (td : N * details) : Prop :=
    (∃ h bh, td.2 = mined_details U s (td.1, h, bh)) ∨ td.2 = unmined_details U s td.1.

  (** the output walk of [makeTxSummary] lists exactly the credits *)
  Lemma summary_model_entry td : model_entry td → summary_of U td = spec_summary U td.
  Proof.
    destruct td as [t d]. intros Hme. unfold summary_of, spec_summary. f_equal.
    destruct Hme as [(h & bh & Hd)|Hd]; simpl in Hd; subst d.
    - unfold mined_details. cbn [d_credits]. destruct (U !! t) as [x|]; [|done].
      apply my_outputs_omap; [apply NoDup_indices|].
      intros i c Hc. destruct (credits s !! (t, h, bh, i)); [|done]. by injection Hc as <-.
    - unfold unmined_details. cbn [d_credits]. destruct (U !! t) as [x|]; [|done].
      apply my_outputs_omap; [apply NoDup_indices|].
      intros i c Hc. destruct (unmined_credits s !! (t, i)) as [[a chg]|]; [|done]. by injection Hc as <-.
  Qed.

  Definition good_group (g : list (N * details)) : Prop := g ≠ [] ∧ Forall model_entry g.

  Lemma range_blocks_entries b e : Forall good_group (range_blocks U s b e).
  Proof.
    rewrite range_blocks_alt. apply Forall_forall. intros g Hg.
    apply elem_of_list_omap in Hg as (h & _ & Hg). unfold rb_group in Hg.
    destruct (blocks s !! h) as [br|] eqn:Hbr; [|done]. injection Hg as <-.
    destruct (inv_blocks_sound U s F HI h br Hbr) as (Hne & _ & _). split.
    - destruct (b_txs br); done.
    - apply Forall_forall. intros td Htd. rewrite map_fmap in Htd.
      apply elem_of_list_fmap in Htd as (t & -> & _). left. by exists h, (b_hash br).
  Qed.

  Lemma range_unmined_entries : Forall good_group (range_unmined U s).
  Proof.
    unfold range_unmined. destruct (unmined_hashes s) as [|x l]; [constructor|].
    constructor; [|constructor]. split; [done|].
    apply Forall_forall. intros td Htd. rewrite map_fmap in Htd.
    apply elem_of_list_fmap in Htd as (t & -> & _). by right.
  Qed.

  Lemma range_entries b e : Forall good_group (range_transactions U s b e).
  Proof.
    unfold range_transactions. case_bool_decide.
    - apply Forall_app. split; [apply range_unmined_entries|apply range_blocks_entries].
    - apply Forall_app. split; [apply range_blocks_entries|].
      case_bool_decide; [apply range_unmined_entries|constructor].
  Qed.

  Lemma gt_cb_step cancel r g :
    good_group g → gt_cb U cancel (Some r) g = (cancel, Some (gt_step U r g)).
  Proof.
    intros [Hne Hall]. unfold gt_cb, gt_step. destruct g as [|[t d0] g']; [done|].
    assert (map (summary_of U) ((t, d0) :: g') = map (spec_summary U) ((t, d0) :: g')) as ->.
    { apply map_ext_Forall. eapply Forall_impl; [exact Hall|]. intros td. apply summary_model_entry. }
    by destruct (d_block d0).
  Qed.

  Lemma run_gt_cb_all gs r :
    Forall good_group gs →
    run_groups (gt_cb U false) gs (Some r) = (false, Some (foldl (gt_step U) r gs)).
  Proof.
    intros Hf. revert r. induction Hf as [|g gs Hg Hf IH]; intros r; [done|].
    cbn [run_groups]. rewrite (gt_cb_step false r g Hg). apply IH.
  Qed.

  Lemma run_gt_cb_cancel gs r :
    Forall good_group gs →
    (run_groups (gt_cb U true) gs (Some r)).2 = Some (foldl (gt_step U) r (take 1 gs)).
  Proof.
    intros Hf. destruct Hf as [|g gs Hg Hf]; [done|].
    cbn [run_groups]. rewrite (gt_cb_step true r g Hg). simpl. done.
  Qed.

  (** GetTransactions is the range iteration over the resolved heights
      (defaults 0 and -1; a hash resolves to what the chain backend answers, a
      backend error is returned): every block group becomes one entry of the
      mined list, in iteration order, the unconfirmed group becomes the unmined
      list; a closed cancel channel stops after the first group *)
  Lemma get_transactions_model start end_ cancel :
    get_transactions U s start end_ cancel =
    match resolve_ident 0 start, resolve_ident (-1) end_ with
    | Some b, Some e =>
      GtOk (spec_gt_of_groups U (take_stop (if cancel then 1%nat else O) (range_transactions U s b e)))
    | _, _ => GtErr
    end.
  Proof.
    unfold get_transactions. destruct (resolve_ident 0 start) as [b|]; [|done].
    destruct (resolve_ident (-1) end_) as [e|]; [|done].
    rewrite range_transactions_cb_eq. unfold spec_gt_of_groups. destruct cancel.
    - by rewrite (run_gt_cb_cancel _ _ (range_entries b e)).
    - by rewrite (run_gt_cb_all _ _ (range_entries b e)).
  Qed.

  Lemma spec_details_block t d : spec_details U F t = Some d → d_block d = f_conf F !! t.
  Proof.
    unfold spec_details. destruct (negb (known F t)); [done|]. destruct (U !! t); [|done].
    by intros [= <-].
  Qed.

  Lemma spec_range_uniform b e : Forall uniform_block (spec_range U F b e).
  Proof.
    assert (Forall uniform_block (spec_range_unmined U F)) as Hunm.
    { unfold spec_range_unmined. destruct (elements (f_unconf F)) as [|y l] eqn:Hl; [constructor|].
      constructor; [|constructor]. exists None. intros t d Hin.
      apply elem_of_with_details in Hin as [Hin Hd]. rewrite (spec_details_block _ _ Hd).
      apply (unconf_not_conf U s F HI). apply elem_of_elements. by rewrite Hl. }
    assert (Forall uniform_block (spec_range_blocks U F b e)) as Hblk.
    { unfold spec_range_blocks. apply Forall_forall. intros g Hg. rewrite map_fmap in Hg.
      apply elem_of_list_fmap in Hg as (h & -> & _).
      destruct (conf_at F h) as [|t0 l] eqn:Hca.
      - exists None. intros t d Hin. inversion Hin.
      - assert (t0 ∈ conf_at F h) as H0 by (rewrite Hca; left).
        apply elem_of_conf_at in H0 as [bh0 H0]. exists (Some (h, bh0)). intros t d Hin.
        apply elem_of_with_details in Hin as [Hin Hd]. rewrite (spec_details_block _ _ Hd).
        rewrite <-Hca in Hin. apply elem_of_conf_at in Hin as [bh Hc]. rewrite Hc.
        by rewrite (fw_one_hash_per_height U F (inv_wf U s F HI) _ _ _ _ _ Hc H0). }
    unfold spec_range. case_bool_decide.
    - apply Forall_app. done.
    - apply Forall_app. split; [done|]. case_bool_decide; [done|constructor].
  Qed.

  (** GetTransactions against the ledger: the same outcome the facts
      prescribe - one entry per confirmed height of the resolved range holding
      the transactions currently confirmed there (each once, under that block,
      with the ledger's debits, credited outputs and fee), the unconfirmed
      transactions in the unmined list - up to the order inside a group *)
  Lemma get_transactions_correct start end_ cancel :
    match spec_get_transactions U F start end_ cancel with
    | Some r' => ∃ r, get_transactions U s start end_ cancel = GtOk r ∧ gt_equiv r r'
    | None => get_transactions U s start end_ cancel = GtErr
    end.
  Proof.
    rewrite get_transactions_model. unfold spec_get_transactions.
    destruct (resolve_ident 0 start) as [b|]; [|done].
    destruct (resolve_ident (-1) end_) as [e|]; [|done].
    eexists. split; [done|]. unfold spec_gt_of_groups.
    apply foldl_gt_step_equiv; [split; constructor|].
    apply Forall2_conj_Forall_r.
    - destruct cancel; simpl; [apply Forall2_take|]; apply range_equals_spec.
    - destruct cancel; simpl; [apply Forall_take|]; apply spec_range_uniform.
  Qed.
End query.

(** * The complete listing: every known transaction exactly once *)

Definition gt_txids (r : gt_result) : list N :=
  flat_map (λ x : (Z * N) * list summary, map sm_tx x.2) (gt_mined r) ++ map sm_tx (gt_unmined r).

Definition group_block (g : list (N * details)) : option (Z * N) :=
  match g with (_, d0) :: _ => d_block d0 | [] => None end.

Lemma map_sm_tx_summary U (g : list (N * details)) : map sm_tx (map (spec_summary U) g) = map fst g.
Proof. induction g as [|[t d] g IH]; [done|]. simpl. by rewrite IH. Qed.

Lemma foldl_gt_step_mined U gs r :
  Forall (λ g, is_Some (group_block g)) gs →
  foldl (gt_step U) r gs =
  {| gt_mined := gt_mined r ++ omap (λ g, match group_block g with
                                         | Some b => Some (b, map (spec_summary U) g)
                                         | None => None end) gs;
     gt_unmined := gt_unmined r |}.
Proof.
  intros Hf. revert r. induction Hf as [|g gs [b Hb] Hf IH]; intros r.
  - simpl. rewrite app_nil_r. by destruct r.
  - cbn [foldl]. rewrite IH. rewrite omap_cons', Hb.
    destruct g as [|[t d0] g']; [done|]. simpl in Hb. unfold gt_step. rewrite Hb.
    cbn [gt_mined gt_unmined]. by rewrite <-app_assoc.
Qed.

Lemma gt_step_unmined U r (g : list (N * details)) :
  g ≠ [] → (∀ t d, (t, d) ∈ g → d_block d = None) →
  gt_step U r g = {| gt_mined := gt_mined r; gt_unmined := map (spec_summary U) g |}.
Proof.
  intros Hne Hall. destruct g as [|[t0 d0] g']; [done|].
  unfold gt_step. by rewrite (Hall t0 d0) by left.
Qed.

Section all.
  Context (U : gmap N tx) (s : store) (F : facts).
  Context (Hwf : wf_universe U = true) (HI : Inv U s F).

  Definition block_group_at (g : list (N * details)) : Prop :=
    g ≠ [] ∧ ∃ blk, ∀ t d, (t, d) ∈ g → f_conf F !! t = Some blk ∧ d_block d = Some blk.

  Lemma block_group_facts b e : Forall block_group_at (range_blocks U s b e).
  Proof.
    rewrite range_blocks_alt. apply Forall_forall. intros g Hg.
    apply elem_of_list_omap in Hg as (h & _ & Hg). unfold rb_group in Hg.
    destruct (blocks s !! h) as [br|] eqn:Hbr; [|done]. injection Hg as <-.
    destruct (inv_blocks_sound U s F HI h br Hbr) as (Hne & _ & Hall). split.
    - destruct (b_txs br); done.
    - exists (h, b_hash br). intros t d Hin. rewrite map_fmap in Hin.
      apply elem_of_list_fmap in Hin as (t' & [= -> ->] & Hin). split; [by apply Hall|done].
  Qed.

  Lemma block_group_block g : block_group_at g → ∃ blk, group_block g = Some blk ∧
    ∀ t d, (t, d) ∈ g → f_conf F !! t = Some blk.
  Proof.
    intros [Hne [blk Hall]]. exists blk. destruct g as [|[t d0] g']; [done|]. split.
    - simpl. apply (Hall t d0). left.
    - intros t' d Hin. by apply (Hall t' d).
  Qed.

  Lemma mined_entries_txids gs :
    Forall block_group_at gs →
    flat_map (λ x : (Z * N) * list summary, map sm_tx x.2)
      (omap (λ g, match group_block g with
                  | Some b => Some (b, map (spec_summary U) g)
                  | None => None end) gs) = group_txids gs.
  Proof.
    induction 1 as [|g gs Hg Hbg IH]; [done|].
    rewrite omap_cons'. destruct (block_group_block g Hg) as (blk & -> & _).
    unfold group_txids in *. simpl. by rewrite IH, map_sm_tx_summary.
  Qed.

  (** GetTransactions(nil, nil): every transaction the ledger knows is
      listed exactly once - a confirmed one in the entry of the block that
      currently confirms it, an unconfirmed one in the unmined list; removed
      transactions nowhere *)
  Lemma get_transactions_all_once :
    (∀ t hh b, f_conf F !! t = Some (hh, b) → hh <= max_i32) →
    ∃ r, get_transactions U s None None false = GtOk r ∧
         gt_txids r ≡ₚ known_list F ∧
         (∀ blk txs x, (blk, txs) ∈ gt_mined r → x ∈ txs → f_conf F !! sm_tx x = Some blk) ∧
         (∀ x, x ∈ gt_unmined r → sm_tx x ∈ f_unconf F).
  Proof.
    intros Hmax. rewrite (get_transactions_model U s F HI). cbn [resolve_ident take_stop].
    eexists. split; [done|].
    destruct (range_correct U s F Hwf HI) as (_ & _ & Hune & Hung & Hall).
    destruct (Hall Hmax) as (Hfwd & Hperm & _).
    rewrite Hfwd in Hperm. unfold spec_gt_of_groups. rewrite Hfwd, foldl_app.
    pose proof (block_group_facts 0 (-1)) as Hbg.
    rewrite (foldl_gt_step_mined U (range_blocks U s 0 (-1))).
    2:{ eapply Forall_impl; [exact Hbg|]. intros g Hg.
        destruct (block_group_block g Hg) as (blk & -> & _). by eexists. }
    cbn [gt_mined gt_unmined app].
    set (mined := omap _ (range_blocks U s 0 (-1))).
    assert (Hmined_ids : flat_map (λ x : (Z * N) * list summary, map sm_tx x.2) mined
                         = group_txids (range_blocks U s 0 (-1))).
    { subst mined. by apply mined_entries_txids. }
    assert (Hmined_in : ∀ blk txs x, (blk, txs) ∈ mined → x ∈ txs → f_conf F !! sm_tx x = Some blk).
    { subst mined. intros blk txs x Hin Hx. apply elem_of_list_omap in Hin as (g & Hg & Hf).
      rewrite Forall_forall in Hbg. destruct (block_group_block g (Hbg g Hg)) as (blk' & Hgb & Hmem).
      rewrite Hgb in Hf. injection Hf as <- <-. rewrite map_fmap in Hx.
      apply elem_of_list_fmap in Hx as ([t d] & -> & Htd). simpl. by apply (Hmem t d). }
    destruct (decide (f_unconf F = ∅)) as [He|Hne].
    - rewrite (proj2 Hune He) in *. cbn [foldl gt_mined gt_unmined]. split_and!.
      + unfold gt_txids. cbn [gt_mined gt_unmined]. rewrite Hmined_ids.
        rewrite app_nil_r in Hperm. simpl. by rewrite app_nil_r.
      + done.
      + intros x Hx. inversion Hx.
    - destruct (Hung Hne) as (g & Hg & Hgnd & Hgp & Hgd). rewrite Hg in *.
      assert (g ≠ []) as Hgne.
      { intros ->. simpl in Hgp. apply Permutation_nil in Hgp. apply Hne.
        apply leibniz_equiv. by apply elements_empty_inv. }
      cbn [foldl]. rewrite (gt_step_unmined U _ g Hgne).
      2:{ intros t d Hin. by destruct (Hgd t d Hin) as [-> _]. }
      cbn [gt_mined gt_unmined]. split_and!.
      + unfold gt_txids. cbn [gt_mined gt_unmined]. rewrite Hmined_ids, map_sm_tx_summary.
        rewrite group_txids_app in Hperm. unfold group_txids at 2 in Hperm. simpl in Hperm.
        by rewrite app_nil_r in Hperm.
      + done.
      + intros x Hx. rewrite map_fmap in Hx. apply elem_of_list_fmap in Hx as ([t d] & -> & Htd).
        simpl. apply elem_of_elements. rewrite <-Hgp. rewrite map_fmap. apply elem_of_list_fmap.
        by exists (t, d).
  Qed.
End all.

(** * The statements over chain-consistent histories (quoted by Properties/C13.v) *)
From Verif Require Import Tx.Refine Tx.RefineAll.

Lemma c13_block_lookup (U : gmap N tx) (h p : list event) (t : N) :
  wf_universe U = true → chain_consistent U h = true → p `prefix_of` h →
  let s := st (run U p) in let F := fs (spec_run U p) in
  (∀ bb : Z * N, unique_tx_details U s t (Some bb) =
                 if bool_decide (f_conf F !! t = Some bb) then spec_details U F t else None) ∧
  unique_tx_details U s t None = if bool_decide (t ∈ f_unconf F) then spec_details U F t else None.
Proof.
  intros Hwf Hcons Hpre. destruct (refinement_prefix U h p Hwf Hcons Hpre) as [HI _].
  split; [intros bb|]; by rewrite (unique_qualified U _ _ Hwf HI).
Qed.

Lemma c13_range_groups (U : gmap N tx) (h p : list event) (b e : Z) (k : nat) :
  wf_universe U = true → chain_consistent U h = true → p `prefix_of` h →
  let s := st (run U p) in let F := fs (spec_run U p) in
  range_collect U s b e k = take_stop k (range_transactions U s b e) ∧
  Forall2 (≡ₚ) (range_collect U s b e k) (take_stop k (spec_range U F b e)).
Proof.
  intros Hwf Hcons Hpre. destruct (refinement_prefix U h p Hwf Hcons Hpre) as [HI _].
  split; [apply range_collect_eq|by apply range_collect_equals_spec].
Qed.

Lemma c13_previous_scripts (U : gmap N tx) (h p : list event) (t : N) :
  wf_universe U = true → chain_consistent U h = true → p `prefix_of` h →
  let s := st (run U p) in let F := fs (spec_run U p) in
  known F t = true →
  previous_pkscripts U s t (f_conf F !! t) = Some (spec_prev U F t).
Proof.
  intros Hwf Hcons Hpre. destruct (refinement_prefix U h p Hwf Hcons Hpre) as [HI _].
  by apply previous_pkscripts_correct.
Qed.

Lemma c13_get_transactions (U : gmap N tx) (h p : list event) (start end_ : option bident) (cancel : bool) :
  wf_universe U = true → chain_consistent U h = true → p `prefix_of` h →
  let s := st (run U p) in let F := fs (spec_run U p) in
  get_transactions U s start end_ cancel =
    match resolve_ident 0 start, resolve_ident (-1) end_ with
    | Some b, Some e =>
      GtOk (spec_gt_of_groups U (take_stop (if cancel then 1%nat else O) (range_transactions U s b e)))
    | _, _ => GtErr
    end ∧
  match spec_get_transactions U F start end_ cancel with
  | Some r' => ∃ r, get_transactions U s start end_ cancel = GtOk r ∧ gt_equiv r r'
  | None => get_transactions U s start end_ cancel = GtErr
  end.
Proof.
  intros Hwf Hcons Hpre. destruct (refinement_prefix U h p Hwf Hcons Hpre) as [HI _].
  split; [by apply (get_transactions_model U _ _ HI)|by apply get_transactions_correct].
Qed.

Lemma c13_get_transactions_all (U : gmap N tx) (h p : list event) :
  wf_universe U = true → chain_consistent U h = true → p `prefix_of` h →
  let s := st (run U p) in let F := fs (spec_run U p) in
  (∀ t hh b, f_conf F !! t = Some (hh, b) → hh <= max_i32) →
  ∃ r, get_transactions U s None None false = GtOk r ∧
       gt_txids r ≡ₚ known_list F ∧
       (∀ blk txs x, (blk, txs) ∈ gt_mined r → x ∈ txs → f_conf F !! sm_tx x = Some blk) ∧
       (∀ x, x ∈ gt_unmined r → sm_tx x ∈ f_unconf F).
Proof.
  intros Hwf Hcons Hpre. destruct (refinement_prefix U h p Hwf Hcons Hpre) as [HI _].
  by apply get_transactions_all_once.
Qed.
