(** C14 - Unconfirmed transactions are returned parents-first, each exactly
    once.  Property theorems only; proofs are in Tx/KahnProofs.v, the model of
    wtxmgr/kahnsort.go in Tx/Kahn.v.

    Vocabulary (Tx/Kahn.v, Tx/KahnProofs.v):
      tx                = (txid, list of (previous txid, output index))
      spends set c p    = c and p are members of [set] and c has an input whose
                          previous txid is p's
      acyclic set       = some rank  tx -> nat  strictly decreases from every
                          member to every member it spends from (equivalently:
                          the spend relation has no cycle, C14_acyclic_iff_no_cycle)
      before p c out    = out = l1 ++ p :: l2 ++ c :: l3
      dependency_sort pi1 pi2 set
                        = DependencySort(set) when makeGraph ranges over the
                          map in order pi1 and graphRoots over the graph in
                          order pi2; None = the explicit fuel of the Kahn loop
                          ran out. *)
From Verif Require Import Base.Prelude Tx.Kahn Tx.KahnProofs.
Local Open Scope N_scope.

(** For EVERY finite set of transactions with distinct ids whose spend
    relation restricted to the set is acyclic, and EVERY pair of map iteration
    orders: the sort terminates within its fuel, its output contains every
    member of the set exactly once (a permutation of the set) and every
    transaction comes after every member of the set one of whose outputs it
    spends - chains, diamonds, parallel edges, independent components,
    conflicting siblings and the no-edge shortcut included. *)
Theorem C14_dependency_sort : forall (set pi1 : list tx) (pi2 : list N),
  NoDup (map txid set) ->
  acyclic set ->
  Permutation pi1 set ->
  Permutation pi2 (map txid set) ->
  exists out,
    dependency_sort pi1 pi2 set = Some out
    /\ Permutation out set
    /\ forall p c, spends set c p -> before p c out.
Proof. exact dependency_sort_correct. Qed.
Print Assumptions C14_dependency_sort.

(** The executable test that the correspondence run applies to the orders
    returned by the implementation decides exactly the property: the order
    lists each id of the set once and every member after all its in-set
    parents. *)
Theorem C14_admissible_is_the_property : forall (set : list tx) (out : list N),
  NoDup (map txid set) ->
  (admissible set out = true <->
   Permutation out (map txid set)
   /\ forall t p, In t set -> In p (parents set t) -> before p (txid t) out).
Proof. exact admissible_spec. Qed.
Print Assumptions C14_admissible_is_the_property.

(** ... and every output of the model passes that test, for all iteration
    orders. *)
Theorem C14_model_outputs_admissible : forall set pi1 pi2 out,
  NoDup (map txid set) -> acyclic set ->
  Permutation pi1 set -> Permutation pi2 (map txid set) ->
  dependency_sort pi1 pi2 set = Some out ->
  admissible set (map txid out) = true.
Proof. exact model_output_admissible. Qed.
Print Assumptions C14_model_outputs_admissible.

(** [acyclic] is the usual notion: on a set with distinct ids a rank exists
    exactly when the spend relation has no cycle (rank = longest spend path).
    So the theorem above holds under the hypothesis "no cycle" as well. *)
Theorem C14_acyclic_iff_no_cycle : forall set,
  NoDup (map txid set) ->
  (acyclic set <-> forall t, ~ Relation_Operators.clos_trans tx (spends set) t t).
Proof.
  intros set Hnd. split.
  - exact (no_cycle_of_acyclic set).
  - exact (acyclic_of_no_cycle set Hnd).
Qed.
Print Assumptions C14_acyclic_iff_no_cycle.

Theorem C14_dependency_sort_no_cycle : forall (set pi1 : list tx) (pi2 : list N),
  NoDup (map txid set) ->
  (forall t, ~ Relation_Operators.clos_trans tx (spends set) t t) ->
  Permutation pi1 set ->
  Permutation pi2 (map txid set) ->
  exists out,
    dependency_sort pi1 pi2 set = Some out
    /\ Permutation out set
    /\ forall p c, spends set c p -> before p c out.
Proof. exact dependency_sort_correct_no_cycle. Qed.
Print Assumptions C14_dependency_sort_no_cycle.

(* ------------------------------------------------------------------ *)
(** Non-vacuity.  A diamond 1 -> {2,3} -> 4 in which 2 spends two outputs of 1
    (parallel edge), 4 also spends 1 directly, 5 and 6 are conflicting siblings
    spending the same outpoint (3,1), 7 -> 8 is a separate component, 9 is an
    isolated transaction, and several inputs refer to transactions outside the
    set (ids >= 100). *)
Definition ex_set : list tx :=
  [ (4, [(2,0); (3,0); (1,3)]);
    (2, [(1,0); (1,1)]);
    (8, [(7,0); (300,1)]);
    (1, [(100,0)]);
    (6, [(3,1)]);
    (3, [(1,2); (200,0)]);
    (5, [(3,1)]);
    (9, [(400,0)]);
    (7, [(300,0)]) ].

Definition ex_rank (t : tx) : nat :=
  match txid t with 1 | 7 | 9 => 0%nat | 2 | 3 | 8 => 1%nat | _ => 2%nat end.

Example C14_hypotheses_satisfiable : NoDup (map txid ex_set) /\ acyclic ex_set.
Proof.
  split.
  - apply (NoDup_count_occ' N.eq_dec). intros x Hx. simpl in Hx.
    repeat (destruct Hx as [<-|Hx]; [vm_compute; reflexivity|]). contradiction.
  - exists ex_rank. intros c p [Hc [Hp Hs]]. simpl in Hc, Hp.
    repeat (destruct Hc as [<-|Hc]);
      try contradiction;
      repeat (destruct Hp as [<-|Hp]); try contradiction;
      simpl in Hs; vm_compute;
      try lia; (repeat (destruct Hs as [Hs|Hs]; [discriminate Hs|])); contradiction.
Qed.

(** The model on that set with two different pairs of iteration orders, and
    the shortcut on a set without internal edges. *)
Example C14_runs :
  option_map (map txid) (dependency_sort ex_set (map txid ex_set) ex_set)
    = Some [1; 9; 7; 2; 3; 8; 4; 6; 5]
  /\ option_map (map txid) (dependency_sort (rev ex_set) (rev (map txid ex_set)) ex_set)
    = Some [7; 9; 1; 8; 3; 2; 5; 6; 4]
  /\ admissible ex_set [1; 9; 7; 2; 3; 8; 4; 6; 5] = true
  /\ admissible ex_set [7; 9; 1; 8; 3; 2; 5; 6; 4] = true
  /\ admissible ex_set [1; 2; 4; 3; 5; 6; 7; 8; 9] = false   (* 4 before its parent 3 *)
  /\ admissible ex_set [1; 2; 3; 4; 5; 6; 7; 8] = false      (* 9 missing *)
  /\ admissible ex_set [1; 2; 3; 4; 5; 6; 7; 8; 9; 9] = false (* duplicate *)
  /\ option_map (map txid)
       (dependency_sort [(3,[(100,0)]); (1,[(100,1)]); (2,[(200,0)])] [2; 3; 1]
                        [(1,[(100,1)]); (2,[(200,0)]); (3,[(100,0)])])
     = Some [2; 3; 1].
Proof. vm_compute. repeat split. Qed.

(** The in-degree and the out-edge list both keep parallel edges (the
    duplicate-edge test of makeGraph never fires on an acyclic set). *)
Example C14_parallel_edges_kept :
  let g := make_graph ex_set ex_set in
  outs g 1 = [4; 2; 2; 3] /\ indeg g 2 = 2 /\ indeg g 4 = 3 /\ outs g 3 = [4; 6; 5].
Proof. vm_compute. repeat split. Qed.
