(** C04 - No secret ever reaches the database file unencrypted.
    Property theorems only; the model is Addr/Taint.v (disk effects of
    waddrmgr as symbolic terms), proofs are in Addr/TaintProofs.v.

    Reading guide.  [T : table] says, for every write site of the code (a
    place where the result of an [X.Encrypt(arg)] call is stored), which key
    [X] is and what class of data [arg] is; the model's operations build
    every sealed field from it ([sealT T site ctx]).  The table of the
    current tree, [Generated.TaintSites.table], is regenerated from the
    source by lib/extract_c04.py (receiver of each Encrypt call, origin of
    its argument).  All theorems hold for EVERY table that passes the
    decidable check [table_ok]; [C04_current_table_ok] discharges that check
    for the regenerated table by computation - it is the one obligation that
    breaks when a source edit seals a secret under a key of the public chain
    (or lets private material survive the conversion in a field that is kept).
    [run T sp h] is the manager after the operation history [h] (one
    operation = one committed database transaction); [boundaries T sp init h]
    lists the state after every prefix, i.e. every commit boundary.
    [sp] says whether deletePrivateKeys strips secret taproot script rows;
    the value for the current tree is Generated.TaintSites.wo_strips_taproot.
    [occurs a c t]: atom [a] occurs in the stored term [t] below the wrappers
    [c] (sealings [WEnc k], one-way functions [WOneWay]).
    [allowed strict a c] is the rule of the property:
      passphrase  - only below a one-way function (the snacl digest);
      secret      - only below a sealing under cryptoPriv / cryptoScript /
                    masterPriv ([strict = true]: cryptoScript does not count,
                    and a secret script is then only required to be treated
                    like sensitive data - DESIGN section 6, S5);
      sensitive   - only below a sealing or a hash (xpubs, public keys,
                    address hashes, public scripts; the model is the address
                    manager's namespace - the transaction store necessarily
                    holds output scripts in the clear once a transaction is
                    recorded, which is the property's "until");
      public      - anywhere.

    What is NOT claimed.  The theorems speak about the LIVE rows of the
    database.  bbolt does not overwrite the pages a transaction frees: after
    a conversion to watching-only the file image still holds, in such pages,
    the ciphertexts of the deleted rows (main/mpriv parameters, cpriv,
    cscript, mhdpriv, ctpriv, account and imported private keys), and a
    holder of the OLD private passphrase can open them.  The property's text
    asks for "no ... key ... in raw or serialized text form" at every commit
    point (ciphertext is neither) and, after conversion, that "no passphrase
    unlocks it and no call returns private material" (behaviour of the
    reopened wallet): freed pages are outside its letter.  The harness
    measures that residue (evidence: observations) and does not raise it. *)
From Coq Require Import String.
From Verif Require Import Base.Prelude Addr.Taint Addr.TaintProofs.
From Verif Require Generated.TaintSites.
From Verif Require Addr.TaintCorr.
Local Open Scope N_scope.

(** The table regenerated from the current source passes the check, and so
    does every other place of the source where an Encrypt result is stored. *)
Theorem C04_current_table_ok : table_ok TaintSites.table = true.
Proof. vm_compute. reflexivity. Qed.
Print Assumptions C04_current_table_ok.

Theorem C04_all_source_sites_safe : TaintCorr.source_sites_ok = true.
Proof. vm_compute. reflexivity. Qed.
Print Assumptions C04_all_source_sites_safe.

(** what [table_ok] asks of each site, spelled out: the sealing key is of the
    private chain whenever the content is secret (in both readings of the
    script key), passphrases and the seed are never sealed at all, and a
    field that survives the conversion holds nothing private *)
Theorem C04_table_ok_meaning : forall T s,
  table_ok T = true ->
  (forall strict, cclass strict (e_content (T s)) = Secret -> priv_key strict (e_key (T s)) = true) /\
  (forall strict, cclass strict (e_content (T s)) <> Passphrase) /\
  content_never (e_content (T s)) = false /\
  (site_survives s = true -> content_private (e_content (T s)) = false).
Proof. intros T s HT. exact (table_ok_meaning T s HT). Qed.
Print Assumptions C04_table_ok_meaning.

(** (a)+(b) At every commit boundary of every history, every atom of every
    stored key and value sits in an allowed context - in both readings of
    the script key - and the seed and the derived address private keys are
    not written in any form. *)
Theorem C04_every_commit_boundary : forall T sp h st r t a c,
  table_ok T = true ->
  In st (boundaries T sp init h) -> In r (dsk st) -> In t (fields r) -> occurs a c t ->
  allowed false a c /\ allowed true a c /\ never_atom a = false.
Proof.
  intros T sp h st r t a c HT Hst Hr Ht Hoc.
  destruct (every_boundary_ok T sp h st r HT Hst Hr) as (H1 & H2 & H3).
  split; [exact (ok_row_occurrence false r t a c H1 Ht Hoc)|].
  split; [exact (ok_row_occurrence true r t a c H2 Ht Hoc)|].
  exact (avoids_never_occurrence r t a c H3 Ht Hoc).
Qed.
Print Assumptions C04_every_commit_boundary.

(** The property read directly: "anything secret is readable only with the
    private passphrase".  A reader who holds the file at any commit boundary
    and the PUBLIC passphrase only ([reads]: he opens a sealing when he holds
    its key; he holds the master public key, the all-zero script key in the
    strict reading, and every key whose bytes he can read) learns no secret
    atom and no passphrase. *)
Theorem C04_public_passphrase_reader_learns_no_secret : forall T sp h st strict a,
  table_ok T = true -> In st (boundaries T sp init h) -> reads strict (dsk st) a ->
  class_of strict a <> Secret /\ class_of strict a <> Passphrase.
Proof. exact public_reader_boundary. Qed.
Print Assumptions C04_public_passphrase_reader_learns_no_secret.

(** the commit boundaries are the states after the non-empty prefixes *)
Theorem C04_boundaries_are_prefixes : forall T sp h st,
  In st (boundaries T sp init h) -> exists n, st = run T sp (firstn (S n) h).
Proof. intros T sp h st H. exact (boundaries_prefix T sp h init st H). Qed.
Print Assumptions C04_boundaries_are_prefixes.

(** Lock and Unlock write nothing. *)
Theorem C04_lock_unlock_no_disk_effect : forall T sp st o,
  (o = OLock \/ exists b, o = OUnlock b) ->
  dsk (fst (step T sp st o)) = dsk st /\ (forall ws, writes T sp st o = Some ws -> ws = []).
Proof.
  intros T sp st o Ho. split.
  - exact (lock_unlock_no_disk_effect T sp st o Ho).
  - intros ws. exact (lock_unlock_writes_nothing T sp st o ws Ho).
Qed.
Print Assumptions C04_lock_unlock_no_disk_effect.

(** (c) After a conversion to watching-only (of an existing manager) and any
    continuation - reopen included - a LIVE row of the database holds no
    private material in any form, sealed or not (no secret atom, no private
    passphrase not even hashed), unless it is a secret taproot script row and
    the code does not strip those.  (Pages that bbolt has freed are not rows:
    see "What is NOT claimed" above.) *)
Theorem C04_watching_only_general : forall T sp h1 h2 r,
  table_ok T = true ->
  created (run T sp h1) = true ->
  In r (dsk (run T sp (h1 ++ OConvert :: h2))) ->
  (forall t a c, In t (fields r) -> occurs a c t -> private_atom a = false)
  \/ (sp = false /\ tr_secret_row r = true).
Proof.
  intros T sp h1 h2 r HT C Hin.
  destruct (watching_only_rows T sp h1 h2 r HT C Hin) as [H|H]; [left|right; exact H].
  intros t a c Ht Hoc. exact (clean_row_occurrence r t a c H Ht Hoc).
Qed.
Print Assumptions C04_watching_only_general.

(** ... hence no private material at all if the code strips taproot rows, *)
Theorem C04_watching_only_if_stripped : forall T h1 h2 r t a c,
  table_ok T = true ->
  created (run T true h1) = true ->
  In r (dsk (run T true (h1 ++ OConvert :: h2))) ->
  In t (fields r) -> occurs a c t -> private_atom a = false.
Proof.
  intros T h1 h2 r t a c HT C Hin Ht Hoc.
  exact (clean_row_occurrence r t a c (watching_only_clean_if_stripped T h1 h2 r HT C Hin) Ht Hoc).
Qed.
Print Assumptions C04_watching_only_if_stripped.

(** ... and, on any tree, for every history that imports no secret taproot
    script (the decidable predicate K = [no_secret_taproot]). *)
Theorem C04_watching_only_outside_K : forall T sp h1 h2 r t a c,
  table_ok T = true ->
  no_secret_taproot (h1 ++ OConvert :: h2) = true ->
  created (run T sp h1) = true ->
  In r (dsk (run T sp (h1 ++ OConvert :: h2))) ->
  In t (fields r) -> occurs a c t -> private_atom a = false.
Proof.
  intros T sp h1 h2 r t a c HT K C Hin Ht Hoc.
  exact (clean_row_occurrence r t a c (watching_only_clean_outside_K T sp h1 h2 r HT K C Hin) Ht Hoc).
Qed.
Print Assumptions C04_watching_only_outside_K.

(** Every row keyed by the hash of an address id (address rows, both
    address/account index levels, used flags) that exists at some point still
    exists after any continuation, conversion included: all addresses stay
    known; and the conversion only blanks private fields. *)
Theorem C04_addresses_survive : forall T sp h1 h2 p t,
  has p (Hash t) (dsk (run T sp h1)) = true ->
  has p (Hash t) (dsk (run T sp (h1 ++ h2))) = true.
Proof. exact addresses_survive. Qed.
Print Assumptions C04_addresses_survive.

Theorem C04_conversion_keeps_public_fields : forall sp p v v',
  strip_val sp p v = Some v' ->
  length v' = length v /\
  forall n t, nth_error v' n = Some t -> t = Const 0 \/ nth_error v n = Some t.
Proof.
  intros sp p v v' H. exact (strip_keeps_public_fields sp p v v' (strip_val_shape sp p v v' H)).
Qed.
Print Assumptions C04_conversion_keeps_public_fields.

(** After the conversion the manager is watching-only for good (the flag a
    later Open reads is set): Unlock answers ErrWatchingOnly whatever the
    passphrase, and every call that could hand out private material is
    refused.  (The answers of the real accessors of a reopened watching-only
    manager are compared with [api] by the correspondence, code 9.) *)
Theorem C04_watching_only_api : forall T sp h1 h2 c,
  created (run T sp h1) = true ->
  let st := run T sp (h1 ++ OConvert :: h2) in
  wo st = true /\ disk_wo (dsk st) = true /\
  refuses (api st c) = true /\ api st CUnlock = ErrWatchingOnly.
Proof.
  intros T sp h1 h2 c C st.
  split; [exact (proj2 (after_convert_wo T sp h1 h2 C))|].
  split; [exact (watching_only_flag_on_disk T sp h1 h2 C)|].
  exact (watching_only_api T sp h1 h2 c C).
Qed.
Print Assumptions C04_watching_only_api.

(** The statements above instantiated at the table and the flag regenerated
    from the current source. *)
Theorem C04_current_tree : forall h,
  let T := TaintSites.table in
  let sp := TaintSites.wo_strips_taproot in
  (forall st r t a c, In st (boundaries T sp init h) -> In r (dsk st) -> In t (fields r) -> occurs a c t ->
     allowed false a c /\ allowed true a c /\ never_atom a = false) /\
  (forall st strict a, In st (boundaries T sp init h) -> reads strict (dsk st) a ->
     class_of strict a <> Secret /\ class_of strict a <> Passphrase) /\
  (forall h1 h2 r, h = h1 ++ OConvert :: h2 -> created (run T sp h1) = true -> In r (dsk (run T sp h)) ->
     (forall t a c, In t (fields r) -> occurs a c t -> private_atom a = false)
     \/ (sp = false /\ tr_secret_row r = true)).
Proof.
  intros h T sp. split; [|split].
  - intros st r t a c. exact (C04_every_commit_boundary T sp h st r t a c C04_current_table_ok).
  - intros st strict a. exact (C04_public_passphrase_reader_learns_no_secret T sp h st strict a C04_current_table_ok).
  - intros h1 h2 r ->. exact (C04_watching_only_general T sp h1 h2 r C04_current_table_ok).
Qed.
Print Assumptions C04_current_tree.

(** S5 as a lemma: the key named cryptoScript is a constant in memory. *)
Theorem C04_script_key_is_not_secret :
  sealing_key_is_constant KCryptoScript = true /\ priv_key true KCryptoScript = false.
Proof. split; reflexivity. Qed.
Print Assumptions C04_script_key_is_not_secret.

(* ------------------------------------------------------------ non-vacuity *)

Definition T0 := TaintSites.table.

Definition ex_hist : list op :=
  [OCreate; OReopen; OUnlock true; ONewAccount (84, 0) 5 6; ODerive (84, 0) 1 false 3;
   OImportPriv (44, 0) 1 true; OImportScript (84, 0) 2 34 (KTaproot true);
   OImportScript (84, 0) 3 30 KP2SH; OImportScript (84, 0) 4 30 (KWitness false);
   OImportXpub (84, 0) 9 7 5 true; ODerive (84, 0) 2 true 2; OChangePass true true; OLock].

(** the disk really holds sealed secrets, sealed sensitive data and the
    passphrase digests before the conversion ... *)
Example C04_nonvacuous_rows :
  let d := dsk (run T0 false ex_hist) in
  length d = 87%nat /\
  get [BMain] (kstr "mhdpriv") d = Some [Enc KCryptoPriv (Clear SMasterXprv)] /\
  get [BMain] (kstr "mhdpub") d = Some [Enc KCryptoPub (Clear PMasterXpub)] /\
  get [BMain] (kstr "cpriv") d = Some [Enc KMasterPriv (Clear SKeyPriv)] /\
  get [BMain] (kstr "mpriv") d = Some (master_params true 1) /\
  get (p_scope (84, 0) ++ [BAddr]) (kaddr (AChain (84, 0) 1 false 2)) d = Some chain_val /\
  get (p_scope (44, 0) ++ [BAddr]) (kaddr (AImp 1)) d = Some (import_val T0 1 true true) /\
  existsb (fun r => negb (clean_row r)) d = true.
Proof. vm_compute. repeat split. Qed.

(** ... the checker is not trivially true: clear or wrongly sealed material
    is rejected, in the right mode, *)
Example C04_checker_rejects :
  ok false false false false (Clear (SAcctXprv (84, 0) 0)) = false /\
  ok false false false false (Enc KCryptoPub (Clear (SImpPriv 1))) = false /\
  ok false false false false (Enc KCryptoPriv (Clear (SImpPriv 1))) = true /\
  ok false false false false (Clear (PAcctXpub (84, 0) 0)) = false /\
  ok false false false false (Clear (PAddrId (AImp 1))) = false /\
  ok false false false false (Hash (Clear (PAddrId (AImp 1)))) = true /\
  ok false false false false (Clear (SPass true 0)) = false /\
  ok false false false false (Enc KCryptoPriv (Clear (SPass true 0))) = false /\
  ok false false false false (Hash (Kdf (Cat (Clear (SPass true 0)) (Clear (USalt true 0))))) = true /\
  ok false false false false (Enc KCryptoScript (Clear (SScript 1 30))) = true /\
  ok true false false false (Enc KCryptoScript (Clear (SImpPriv 1))) = false.
Proof. vm_compute. repeat split. Qed.

(** ... [table_ok] is not trivially true either: the table of the current
    tree with ONE entry changed the way a wrong-key regression would change
    it is rejected - the master private key sealed into the master-HD-PUBLIC
    row under the public crypto key (same length, never read back, survives
    the conversion); an imported private key sealed under the public or the
    script crypto key; the private crypto key sealed under the master PUBLIC
    key; a passphrase sealed anywhere; private material in a field that the
    conversion keeps - *)
Definition site_eq_dec : forall a b : site, {a = b} + {a <> b}.
Proof. decide equality. Defined.

Definition with_entry (s0 : site) (e : entry) : table :=
  fun s => if site_eq_dec s s0 then e else T0 s.

Example C04_table_ok_rejects :
  table_ok (with_entry XCreateMhdPub {| e_key := KCryptoPub; e_content := CtMasterXprv |}) = false /\
  table_ok (with_entry XImpPriv {| e_key := KCryptoPub; e_content := CtPrivKey |}) = false /\
  table_ok (with_entry XImpPriv {| e_key := KCryptoScript; e_content := CtPrivKey |}) = false /\
  table_ok (with_entry XCreateCPriv {| e_key := KMasterPub; e_content := CtKeyPriv |}) = false /\
  table_ok (with_entry XNewAcctPub {| e_key := KCryptoPub; e_content := CtAcctXprv |}) = false /\
  table_ok (with_entry XNewAcctPub {| e_key := KCryptoPriv; e_content := CtAcctXprv |}) = false /\
  table_ok (with_entry XScriptSecret {| e_key := KCryptoPub; e_content := CtSecretScript |}) = false /\
  table_ok (with_entry XCreateMhdPriv {| e_key := KCryptoPriv; e_content := CtPassphrase |}) = false /\
  table_ok (with_entry XCreateMhdPriv {| e_key := KCryptoPriv; e_content := CtUnknown |}) = false /\
  table_ok (with_entry XImpPub {| e_key := KCryptoPriv; e_content := CtPubKey |}) = true.
Proof. vm_compute. repeat split. Qed.

(** ... and conversion: for a tree whose deletePrivateKeys has no case for
    taproot script rows ([sp = false]: the code before fix 71c2e41) exactly
    the secret taproot script row keeps private material (the witness
    [C04_watch_only_residue_at_K]); with taproot stripping ([sp = true], the
    current tree: TaintSites.wo_strips_taproot), or without that import,
    nothing does; all addresses are still there. *)
Example C04_watch_only_residue_at_K :
  let d := dsk (run T0 false (ex_hist ++ [OConvert; OReopen; ODerive (84, 0) 1 false 1])) in
  filter (fun r => negb (clean_row r)) d =
    [ {| r_path := p_scope (84, 0) ++ [BAddr]; r_key := kaddr (AScr 2 32);
         r_val := script_val T0 2 34 (KTaproot true) |} ] /\
  wo (run T0 false (ex_hist ++ [OConvert; OReopen])) = true /\
  has (p_scope (84, 0) ++ [BAddr]) (kaddr (AChain (84, 0) 1 false 3)) d = true /\
  has (p_scope (84, 0) ++ [BAddr]) (kaddr (AScr 3 20)) d = true /\
  get [BMain] (kstr "mpriv") d = None /\ get [BMain] (kstr "cpriv") d = None /\
  get [BMain] (kstr "mpub") d = Some (master_params false 0).
Proof. vm_compute. repeat split. Qed.

Example C04_watch_only_clean_examples :
  forallb clean_row (dsk (run T0 true (ex_hist ++ [OConvert; OReopen]))) = true /\
  forallb clean_row
    (dsk (run T0 false (filter (fun o => negb (secret_taproot_import o)) ex_hist ++ [OConvert; OReopen]))) = true /\
  no_secret_taproot (filter (fun o => negb (secret_taproot_import o)) ex_hist ++ [OConvert; OReopen]) = true.
Proof. vm_compute. repeat split. Qed.

(** the reader theorem is about a reader who really reads something: with the
    public passphrase he learns the master public key ... *)
Example C04_reader_reads_public_data :
  reads false (dsk (run T0 false ex_hist)) PMasterXpub.
Proof.
  eapply reads_field with (r := {| r_path := [BMain]; r_key := kstr "mhdpub"; r_val := [Enc KCryptoPub (Clear PMasterXpub)] |})
                          (t := Enc KCryptoPub (Clear PMasterXpub)) (c := [WEnc KCryptoPub]).
  - vm_compute. tauto.
  - simpl. tauto.
  - repeat constructor.
  - constructor; [|constructor]. apply holds_cpub.
    eapply reads_field with (r := {| r_path := [BMain]; r_key := kstr "cpub"; r_val := [Enc KMasterPub (Clear PKeyPub)] |})
                            (t := Enc KMasterPub (Clear PKeyPub)) (c := [WEnc KMasterPub]).
    + vm_compute. tauto.
    + simpl. tauto.
    + repeat constructor.
    + constructor; [apply holds_master_pub|constructor].
Qed.
