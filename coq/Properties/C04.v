(** C04 - No secret ever reaches the database file unencrypted.
    Property theorems only; the model is Addr/Taint.v (disk effects of
    waddrmgr as symbolic terms), proofs are in Addr/TaintProofs.v.

    Reading guide.  [run sp h] is the manager after the operation history
    [h] (one operation = one committed database transaction); [boundaries sp
    init h] lists the state after every prefix, i.e. every commit boundary.
    [sp] says whether deletePrivateKeys strips secret taproot script rows;
    the value for the current tree is Generated.TaintSites.wo_strips_taproot.
    [occurs a c t]: atom [a] occurs in the stored term [t] below the wrappers
    [c] (sealings [WEnc k], one-way functions [WOneWay]).
    [allowed strict a c] is the rule of the property:
      passphrase  - only below a one-way function (the snacl digest);
      secret      - only below a sealing under cryptoPriv / cryptoScript /
                    masterPriv ([strict = true]: cryptoScript does not count,
                    and a secret script is then only required to be treated
                    like sensitive data - DESIGN section 6, S5);
      sensitive   - only below a sealing or a hash (xpubs, public keys,
                    address hashes, public scripts; the model is the address
                    manager's namespace - the transaction store necessarily
                    holds output scripts in the clear once a transaction is
                    recorded, which is the property's "until");
      public      - anywhere. *)
From Coq Require Import String.
From Verif Require Import Base.Prelude Addr.Taint Addr.TaintProofs.
From Verif Require Generated.TaintSites.
Local Open Scope N_scope.

(** (a)+(b) At every commit boundary of every history, every atom of every
    stored key and value sits in an allowed context - in both readings of
    the script key - and the seed and the derived address private keys are
    not written in any form. *)
Theorem C04_every_commit_boundary : forall sp h st r t a c,
  In st (boundaries sp init h) -> In r (dsk st) -> In t (fields r) -> occurs a c t ->
  allowed false a c /\ allowed true a c /\ never_atom a = false.
Proof.
  intros sp h st r t a c Hst Hr Ht Hoc.
  destruct (every_boundary_ok sp h st r Hst Hr) as (H1 & H2 & H3).
  split; [exact (ok_row_occurrence false r t a c H1 Ht Hoc)|].
  split; [exact (ok_row_occurrence true r t a c H2 Ht Hoc)|].
  exact (avoids_never_occurrence r t a c H3 Ht Hoc).
Qed.
Print Assumptions C04_every_commit_boundary.

(** the commit boundaries are the states after the non-empty prefixes *)
Theorem C04_boundaries_are_prefixes : forall sp h st,
  In st (boundaries sp init h) -> exists n, st = run sp (firstn (S n) h).
Proof. intros sp h st H. exact (boundaries_prefix sp h init st H). Qed.
Print Assumptions C04_boundaries_are_prefixes.

(** Lock and Unlock write nothing. *)
Theorem C04_lock_unlock_no_disk_effect : forall sp st o,
  (o = OLock \/ exists b, o = OUnlock b) ->
  dsk (fst (step sp st o)) = dsk st /\ (forall ws, writes sp st o = Some ws -> ws = []).
Proof.
  intros sp st o Ho. split.
  - exact (lock_unlock_no_disk_effect sp st o Ho).
  - intros ws. exact (lock_unlock_writes_nothing sp st o ws Ho).
Qed.
Print Assumptions C04_lock_unlock_no_disk_effect.

(** (c) After a conversion to watching-only (of an existing manager) and any
    continuation - reopen included - a stored row holds no private material
    in ANY form, sealed or not (no secret atom, no private passphrase not even
    hashed), unless it is a secret taproot script row and the code does not
    strip those. *)
Theorem C04_watching_only_general : forall sp h1 h2 r,
  created (run sp h1) = true ->
  In r (dsk (run sp (h1 ++ OConvert :: h2))) ->
  (forall t a c, In t (fields r) -> occurs a c t -> private_atom a = false)
  \/ (sp = false /\ tr_secret_row r = true).
Proof.
  intros sp h1 h2 r C Hin.
  destruct (watching_only_rows sp h1 h2 r C Hin) as [H|H]; [left|right; exact H].
  intros t a c Ht Hoc. exact (clean_row_occurrence r t a c H Ht Hoc).
Qed.
Print Assumptions C04_watching_only_general.

(** ... hence no private material at all if the code strips taproot rows, *)
Theorem C04_watching_only_if_stripped : forall h1 h2 r t a c,
  created (run true h1) = true ->
  In r (dsk (run true (h1 ++ OConvert :: h2))) ->
  In t (fields r) -> occurs a c t -> private_atom a = false.
Proof.
  intros h1 h2 r t a c C Hin Ht Hoc.
  exact (clean_row_occurrence r t a c (watching_only_clean_if_stripped h1 h2 r C Hin) Ht Hoc).
Qed.
Print Assumptions C04_watching_only_if_stripped.

(** ... and, on any tree, for every history that imports no secret taproot
    script (the decidable predicate K = [no_secret_taproot]). *)
Theorem C04_watching_only_outside_K : forall sp h1 h2 r t a c,
  no_secret_taproot (h1 ++ OConvert :: h2) = true ->
  created (run sp h1) = true ->
  In r (dsk (run sp (h1 ++ OConvert :: h2))) ->
  In t (fields r) -> occurs a c t -> private_atom a = false.
Proof.
  intros sp h1 h2 r t a c K C Hin Ht Hoc.
  exact (clean_row_occurrence r t a c (watching_only_clean_outside_K sp h1 h2 r K C Hin) Ht Hoc).
Qed.
Print Assumptions C04_watching_only_outside_K.

(** Every row keyed by the hash of an address id (address rows, both
    address/account index levels, used flags) that exists at some point still
    exists after any continuation, conversion included: all addresses stay
    known; and the conversion only blanks private fields. *)
Theorem C04_addresses_survive : forall sp h1 h2 p t,
  has p (Hash t) (dsk (run sp h1)) = true ->
  has p (Hash t) (dsk (run sp (h1 ++ h2))) = true.
Proof. exact addresses_survive. Qed.
Print Assumptions C04_addresses_survive.

Theorem C04_conversion_keeps_public_fields : forall sp p v v',
  strip_val sp p v = Some v' ->
  length v' = length v /\
  forall n t, nth_error v' n = Some t -> t = Const 0 \/ nth_error v n = Some t.
Proof.
  intros sp p v v' H. exact (strip_keeps_public_fields sp p v v' (strip_val_shape sp p v v' H)).
Qed.
Print Assumptions C04_conversion_keeps_public_fields.

(** After the conversion the manager is watching-only for good (the flag a
    later Open reads is set): Unlock answers ErrWatchingOnly whatever the
    passphrase, and every call that could hand out private material is
    refused. *)
Theorem C04_watching_only_api : forall sp h1 h2 c,
  created (run sp h1) = true ->
  let st := run sp (h1 ++ OConvert :: h2) in
  wo st = true /\ disk_wo (dsk st) = true /\
  refuses (api st c) = true /\ api st CUnlock = ErrWatchingOnly.
Proof.
  intros sp h1 h2 c C st.
  destruct (after_convert sp true h1 h2 (admissible_true_all _) C) as [_ Hw].
  split; [exact Hw|]. split; [exact (watching_only_flag_on_disk sp h1 h2 C)|].
  exact (watching_only_api sp h1 h2 c C).
Qed.
Print Assumptions C04_watching_only_api.

(** The statements above instantiated at the flag regenerated from the
    current source of deletePrivateKeys. *)
Theorem C04_current_tree : forall h1 h2 r,
  created (run TaintSites.wo_strips_taproot h1) = true ->
  In r (dsk (run TaintSites.wo_strips_taproot (h1 ++ OConvert :: h2))) ->
  (forall t a c, In t (fields r) -> occurs a c t -> private_atom a = false)
  \/ (TaintSites.wo_strips_taproot = false /\ tr_secret_row r = true).
Proof. exact (C04_watching_only_general TaintSites.wo_strips_taproot). Qed.
Print Assumptions C04_current_tree.

(** S5 as a lemma: the key named cryptoScript is a constant in memory. *)
Theorem C04_script_key_is_not_secret :
  sealing_key_is_constant KCryptoScript = true /\ priv_key true KCryptoScript = false.
Proof. split; reflexivity. Qed.
Print Assumptions C04_script_key_is_not_secret.

(* ------------------------------------------------------------ non-vacuity *)

Definition ex_hist : list op :=
  [OCreate; OReopen; OUnlock true; ONewAccount (84, 0) 5 6; ODerive (84, 0) 1 false 3;
   OImportPriv (44, 0) 1 true; OImportScript (84, 0) 2 34 (KTaproot true);
   OImportScript (84, 0) 3 30 KP2SH; OImportScript (84, 0) 4 30 (KWitness false);
   OImportXpub (84, 0) 9 7 5 true; ODerive (84, 0) 2 true 2; OChangePass true true; OLock].

(** the disk really holds sealed secrets, sealed sensitive data and the
    passphrase digests before the conversion ... *)
Example C04_nonvacuous_rows :
  let d := dsk (run false ex_hist) in
  length d = 87%nat /\
  get [BMain] (kstr "mhdpriv") d = Some [Enc KCryptoPriv (Clear SMasterXprv)] /\
  get [BMain] (kstr "cpriv") d = Some [Enc KMasterPriv (Clear SKeyPriv)] /\
  get [BMain] (kstr "mpriv") d = Some (master_params true 1) /\
  get (p_scope (84, 0) ++ [BAddr]) (kaddr (AChain (84, 0) 1 false 2)) d = Some chain_val /\
  get (p_scope (44, 0) ++ [BAddr]) (kaddr (AImp 1)) d = Some (import_val 1 true true) /\
  existsb (fun r => negb (clean_row r)) d = true.
Proof. vm_compute. repeat split. Qed.

(** ... the checker is not trivially true: clear or wrongly sealed material
    is rejected, in the right mode, *)
Example C04_checker_rejects :
  ok false false false false (Clear (SAcctXprv (84, 0) 0)) = false /\
  ok false false false false (Enc KCryptoPub (Clear (SImpPriv 1))) = false /\
  ok false false false false (Enc KCryptoPriv (Clear (SImpPriv 1))) = true /\
  ok false false false false (Clear (PAcctXpub (84, 0) 0)) = false /\
  ok false false false false (Clear (PAddrId (AImp 1))) = false /\
  ok false false false false (Hash (Clear (PAddrId (AImp 1)))) = true /\
  ok false false false false (Clear (SPass true 0)) = false /\
  ok false false false false (Enc KCryptoPriv (Clear (SPass true 0))) = false /\
  ok false false false false (Hash (Kdf (Cat (Clear (SPass true 0)) (Clear (USalt true 0))))) = true /\
  ok false false false false (Enc KCryptoScript (Clear (SScript 1 30))) = true /\
  ok true false false false (Enc KCryptoScript (Clear (SImpPriv 1))) = false.
Proof. vm_compute. repeat split. Qed.

(** ... and conversion: with the current code ([sp = false]) exactly the
    secret taproot script row keeps private material (the witness
    [C04_watch_only_residue_at_K]); with taproot stripping, or without that
    import, nothing does; all addresses are still there. *)
Example C04_watch_only_residue_at_K :
  let d := dsk (run false (ex_hist ++ [OConvert; OReopen; ODerive (84, 0) 1 false 1])) in
  filter (fun r => negb (clean_row r)) d =
    [ {| r_path := p_scope (84, 0) ++ [BAddr]; r_key := kaddr (AScr 2 32);
         r_val := script_val 2 34 (KTaproot true) |} ] /\
  wo (run false (ex_hist ++ [OConvert; OReopen])) = true /\
  has (p_scope (84, 0) ++ [BAddr]) (kaddr (AChain (84, 0) 1 false 3)) d = true /\
  has (p_scope (84, 0) ++ [BAddr]) (kaddr (AScr 3 20)) d = true /\
  get [BMain] (kstr "mpriv") d = None /\ get [BMain] (kstr "cpriv") d = None /\
  get [BMain] (kstr "mpub") d = Some (master_params false 0).
Proof. vm_compute. repeat split. Qed.

Example C04_watch_only_clean_examples :
  forallb clean_row (dsk (run true (ex_hist ++ [OConvert; OReopen]))) = true /\
  forallb clean_row
    (dsk (run false (filter (fun o => negb (secret_taproot_import o)) ex_hist ++ [OConvert; OReopen]))) = true /\
  no_secret_taproot (filter (fun o => negb (secret_taproot_import o)) ex_hist ++ [OConvert; OReopen]) = true.
Proof. vm_compute. repeat split. Qed.
