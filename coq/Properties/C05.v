(** C05 - Locked or wrong passphrase means no private-key access, and memory is
    wiped.  Property theorems only; the model is Addr/Lock.v, the proofs are in
    Addr/LockProofs.v.

    The model is parameterised by facts regenerated from waddrmgr's source on
    every run (Generated/LockFacts.v, instantiated as [the_facts] in
    Addr/LockCorr.v).  [C05_facts_of_this_tree] requires fourteen of them to be
    true (nine about the lock discipline, five saying that lock() ZEROES what
    it clears or drops) and is proved by [eq_refl]: on a tree where one of them
    is false this file stops compiling at that theorem (proof-side detection),
    while the [C05_refuted_*] theorems in front of it, which hold on every
    tree, show for each fact what goes wrong without it.

    Five further facts say that an object which leaves the manager's state
    WHILE IT IS UNLOCKED (MarkUsed, InvalidateAccountCache, a replaced last
    address, the derive-on-unlock queue, LRU eviction) is wiped first.  They are
    FALSE on the present tree (known findings evicted_cleartext_survives_lock,
    known_findings.json): lock() cannot reach such an object, and its clear text
    survives Lock.  The model records every such buffer in [gone] instead of
    forgetting it; the memory clause "no clear-text copy anywhere"
    ([C05_locked_holds_no_cleartext_anywhere]) is therefore stated under the
    premise [evict_ok the_facts], which this tree does not satisfy: on this
    tree that theorem says nothing, and [C05_refuted_without_eviction_wipe]
    says why.  What IS proved for this tree: everything the manager can still
    reach is wiped ([C05_locked_holds_no_cleartext]), what lock() itself drops
    is zeroed ([C05_lock_clears]), and nothing but a restart ever removes an
    entry from [gone] ([C05_dropped_never_forgotten]). *)
From Verif Require Import Base.Prelude Generated.LockFacts Addr.Lock Addr.LockProofs Addr.LockCorr.
Local Open Scope N_scope.

(* ------------------------------------------------------------------ witnesses (tree independent) *)

Definition mkAll (a b c d e f g h i z1 z2 z3 z4 z5 e1 e2 e3 e4 e5 : bool) : facts :=
  {| f_cache_checked := a; f_lock_purges_cache := b; f_lock_wipes_wscripts := c; f_lock_wipes_last := d;
     f_unlock_skips_keyless := e; f_keyless_not_queued := f; f_change_rejects_empty := g;
     f_privkey_checks_first := h; f_unlock_preloads := i;
     f_z_acct := z1; f_z_key := z2; f_z_script := z3; f_z_cache := z4; f_z_mgr := z5;
     f_e_markused := e1; f_e_invalidate := e2; f_e_next := e3; f_e_unlock := e4; f_e_lru := e5;
     f_cache_cap := 3 |}.
Definition mkF9 (a b c d e f g h i : bool) : facts :=
  mkAll a b c d e f g h i true true true true true true true true true true.
(* lock() zeroes: account keys, address keys, scripts, cached keys, manager keys *)
Definition mkZ (z1 z2 z3 z4 z5 : bool) : facts :=
  mkAll true true true true true true true true true z1 z2 z3 z4 z5 true true true true true.
(* dropped objects are wiped by: MarkUsed, InvalidateAccountCache, nextAddresses, Unlock, LRU eviction *)
Definition mkE (e1 e2 e3 e4 e5 : bool) : facts :=
  mkAll true true true true true true true true true true true true true true e1 e2 e3 e4 e5.
Definition mkF (a b c d e f g : bool) : facts := mkF9 a b c d e f g true true.

Definition last_rc (F : facts) (ops : list op) : option rc := last (map Some (snd (run F (init 4 9 1) ops))) None.
Definition after (F : facts) (ops : list op) : state := exec F (init 4 9 1) ops.

(** S2 as found (no lock test in front of the cache AND the cache survives
    Lock): a derived private key comes back while the manager is locked. *)
Theorem C05_refuted_cached_key_returned_while_locked :
  let F := mkF false false true true true true true in
  let ops := [OpUnlock 1; OpAcctProps 0 0; OpDeriveCache 0 0 0 7; OpLock; OpDeriveCache 0 0 0 7] in
  last_rc F ops = Some ROk /\ locked (after F ops) = true.
Proof. vm_compute. split; reflexivity. Qed.
Print Assumptions C05_refuted_cached_key_returned_while_locked.

(** Without the lock test alone: not a locked / watching-only error. *)
Theorem C05_refuted_without_cache_check :
  let F := mkF false true true true true true true in
  let ops := [OpUnlock 1; OpAcctProps 0 0; OpLock; OpDeriveCache 0 0 0 7] in
  last_rc F ops = Some ROther /\ locked (after F ops) = true.
Proof. vm_compute. split; reflexivity. Qed.
Print Assumptions C05_refuted_without_cache_check.

(** Without the purge alone: cached keys are still in memory after Lock. *)
Theorem C05_refuted_without_cache_purge :
  let F := mkF true false true true true true true in
  let ops := [OpUnlock 1; OpAcctProps 0 0; OpDeriveCache 0 0 0 7; OpLock] in
  last_rc F ops = Some ROk /\ locked (after F ops) = true /\ wiped (sm (after F ops)) = false.
Proof. vm_compute. repeat split; reflexivity. Qed.
Print Assumptions C05_refuted_without_cache_purge.

(** S6: the clear text of a secret witness / taproot script survives Lock. *)
Theorem C05_refuted_without_witness_script_wipe :
  let F := mkF true true false true true true true in
  let ops k := [OpUnlock 1; OpImportScript 0 5 k true; OpLock] in
  (last_rc F (ops KWitness) = Some ROk /\ wiped (sm (after F (ops KWitness))) = false) /\
  (last_rc F (ops KTaproot) = Some ROk /\ wiped (sm (after F (ops KTaproot))) = false) /\
  wiped (sm (after F (ops KP2SH))) = true.
Proof. vm_compute. repeat split; reflexivity. Qed.
Print Assumptions C05_refuted_without_witness_script_wipe.

(** The address objects accountInfo keeps next to the addrs map
    (lastExternalAddr / lastInternalAddr) keep their private key across Lock. *)
Theorem C05_refuted_without_last_addr_wipe :
  let F := mkF true true true false true true true in
  let ops := [OpUnlock 1; OpAcctProps 0 0; OpLock] in
  last_rc F ops = Some ROk /\ locked (after F ops) = true /\ wiped (sm (after F ops)) = false.
Proof. vm_compute. repeat split; reflexivity. Qed.
Print Assumptions C05_refuted_without_last_addr_wipe.

(** A cached account without private key (imported xpub): the right
    passphrase is rejected - or, once Unlock skips such accounts but their
    addresses are still queued for derivation, Unlock dereferences nil. *)
Theorem C05_refuted_without_keyless_account_handling :
  let ops := [OpNewWatchAccount 2; OpAcctProps 2 1; OpUnlock 1] in
  (last_rc (mkF true true true true false true true) ops = Some RCrypto /\
   locked (after (mkF true true true true false true true) ops) = true /\
   cur_pass (after (mkF true true true true false true true) ops) = Some 1) /\
  last_rc (mkF true true true true true false true) ops = Some RPanic /\
  last_rc (mkF true true true true true true true) ops = Some ROk.
Proof. vm_compute. repeat split; reflexivity. Qed.
Print Assumptions C05_refuted_without_keyless_account_handling.

(** An empty private passphrase (Create refuses it, ChangePassphrase must
    too): append(salt[:], passphrase...) aliases the manager's salt, the
    zero.Bytes that follows wipes it, and the current passphrase is then
    rejected by the already-unlocked path of Unlock - which locks the manager. *)
Theorem C05_refuted_without_empty_passphrase_check :
  let F := mkF true true true true true true false in
  let ops := [OpUnlock 1; OpChangePriv 1 empty_pass; OpUnlock empty_pass] in
  last_rc F ops = Some RWrongPass /\ locked (after F ops) = true /\ cur_pass (after F ops) = Some empty_pass.
Proof. vm_compute. repeat split; reflexivity. Qed.
Print Assumptions C05_refuted_without_empty_passphrase_check.

(** managedAddress.PrivKey with its lock test only on the path that decrypts:
    an address object that still holds its clear text - one the manager no
    longer tracks (the result of DeriveFromKeyPath or ForEachAccountAddress, an
    address evicted by MarkUsed) and the caller kept across Lock - hands out
    the key while the manager is locked. *)
Theorem C05_refuted_without_lock_test_in_privkey :
  let F := mkF9 true true true true true true true false true in
  step F (init 4 9 1) (OpHeldPrivKey true true) = (init 4 9 1, ROk) /\ locked (init 4 9 1) = true /\
  step all_true (init 4 9 1) (OpHeldPrivKey true true) = (init 4 9 1, RLocked).
Proof. vm_compute. repeat split; reflexivity. Qed.
Print Assumptions C05_refuted_without_lock_test_in_privkey.

(** InvalidateAccountCache drops an account that still has addresses waiting
    for their private key: Unlock reloads it while the manager is still locked
    (no private key), ignores the ECPrivKey error and dereferences nil. *)
Theorem C05_refuted_without_account_preload_in_unlock :
  let ops := [OpNextAddr 0 0 false; OpInvalidate 0 0; OpUnlock 1] in
  last_rc (mkF9 true true true true true true true true false) ops = Some RPanic /\
  last_rc all_true ops = Some ROk /\ locked (after all_true ops) = false.
Proof. vm_compute. repeat split; reflexivity. Qed.
Print Assumptions C05_refuted_without_account_preload_in_unlock.

(** Clearing the FIELD is not wiping the BYTES.  lock() that drops a buffer
    (`acctKeyPriv = nil`, `privKeyCT = nil`, `scriptClearText = nil`,
    `privKeyCache.Delete`) without zeroing it first leaves nothing the manager
    can reach ([wiped] holds) - and the clear text in memory ([gone_dead] does
    not).  Without the in-place wipes of the manager's own keys [wiped] fails. *)
Theorem C05_refuted_without_zeroing :
  let res F ops := let s := after F ops in (locked s, wiped (sm s), gone_dead s) in
  res (mkZ false true true true true) [OpUnlock 1; OpAcctProps 0 0; OpLock] = (true, true, false) /\
  res (mkZ true false true true true) [OpUnlock 1; OpNextAddr 0 0 false; OpLock] = (true, true, false) /\
  res (mkZ true true false true true) [OpUnlock 1; OpImportScript 0 5 KP2SH true; OpLock] = (true, true, false) /\
  res (mkZ true true false true true) [OpUnlock 1; OpImportScript 0 5 KWitness true; OpLock] = (true, true, false) /\
  res (mkZ true true true false true) [OpUnlock 1; OpAcctProps 0 0; OpDeriveCache 0 0 0 7; OpLock] = (true, true, false) /\
  res (mkZ true true true true false) [OpUnlock 1; OpLock] = (true, false, true) /\
  (* a failed Unlock on an unlocked manager runs the same lock() *)
  res (mkZ true false true true true) [OpUnlock 1; OpNextAddr 0 0 false; OpUnlock 2] = (true, true, false) /\
  res all_true [OpUnlock 1; OpAcctProps 0 0; OpNextAddr 0 0 false; OpImportScript 0 5 KWitness true;
                OpDeriveCache 0 0 0 7; OpUnlock 2] = (true, true, true).
Proof. vm_compute. repeat split; reflexivity. Qed.
Print Assumptions C05_refuted_without_zeroing.

(** An object that leaves the manager's state while the manager is unlocked is
    out of lock()'s reach: unless the site that drops it wipes it, its clear
    text survives Lock.  One history per site: MarkUsed (an address that is not
    its account's last one), InvalidateAccountCache (account key and last-address
    objects), nextAddresses (the last-address object loadAccountInfo built),
    Unlock (the read-back object of an address issued while locked gets its key
    and is forgotten), the LRU of derived keys (capacity 3 here) pushing out its
    oldest entry.  With the five wipes in place every one of them ends clean. *)
Theorem C05_refuted_without_eviction_wipe :
  let res F ops := let s := after F ops in (locked s, wiped (sm s), gone_dead s) in
  let h1 := [OpUnlock 1; OpNextAddr 0 0 false; OpNextAddr 0 0 false; OpMarkUsed 0 (KChain 0 0 0); OpLock] in
  let h2 := [OpUnlock 1; OpAcctProps 0 0; OpInvalidate 0 0; OpLock] in
  let h3 := [OpUnlock 1; OpAcctProps 0 0; OpNextAddr 0 0 false; OpLock] in
  let h4 := [OpNextAddr 0 0 false; OpUnlock 1; OpLock] in
  let h5 := [OpUnlock 1; OpAcctProps 0 0; OpCacheFill 0 0 0 100 4; OpLock] in
  res (mkE false true true true true) h1 = (true, true, false) /\
  res (mkE true false true true true) h2 = (true, true, false) /\
  res (mkE true true false true true) h3 = (true, true, false) /\
  res (mkE true true true false true) h4 = (true, true, false) /\
  res (mkE true true true true false) h5 = (true, true, false) /\
  map (res (mkE true true true true true)) [h1; h2; h3; h4; h5] = repeat (true, true, true) 5.
Proof. vm_compute. repeat split; reflexivity. Qed.
Print Assumptions C05_refuted_without_eviction_wipe.

(* ------------------------------------------------------------------ the tree that is checked *)

(** The source has the fourteen behaviours (see Generated/LockFacts.v for what
    the extractor saw).  Fails to compile when one of them is missing. *)
Theorem C05_facts_of_this_tree : facts_ok the_facts.
Proof. repeat split; exact eq_refl. Qed.
Print Assumptions C05_facts_of_this_tree.

(** (i) Access control, in EVERY state with [locked \/ watch] (reachable or
    not): private-key export, derivation by path (both variants), secret-script
    access, private/script decryption and encryption, account creation
    (NewAccount, NewRawAccount; a new key scope on a locked manager), key
    import and secret-script import return a locked / watching-only error and
    no key material, and leave the state as the address lookup left it.  The
    last two clauses are about address OBJECTS the caller kept from earlier
    operations: whatever such an object holds, and whether or not the manager
    still tracks it, PrivKey/ExportPrivKey and Script on it fail the same way.
    (ImportPrivateKey on a watching-only manager is documented to succeed and to
    keep the public key only: exactly that is stated.) *)
Theorem C05_access_control : access_control_statement the_facts.
Proof. exact (access_control the_facts eq_refl eq_refl). Qed.
Print Assumptions C05_access_control.

(** (i), (iii) For all histories: a locked or watching-only manager holds no
    secret clear text at all - master key, crypto keys, hashed passphrase,
    account keys, address keys (also those of accountInfo.last*Addr), secret
    scripts of every kind, cached derived keys. *)
Theorem C05_locked_holds_no_cleartext : forall nsc pub priv ops,
  priv <> empty_pass ->
  let s := exec the_facts (init nsc pub priv) ops in
  locked s = true \/ watch s = true -> wiped (sm s) = true.
Proof. intros nsc pub priv ops. exact (locked_holds_no_cleartext the_facts nsc pub priv ops C05_facts_of_this_tree). Qed.
Print Assumptions C05_locked_holds_no_cleartext.

(** (iii) Lock itself, from ANY state. *)
Theorem C05_lock_clears : forall s s',
  step the_facts s OpLock = (s', ROk) ->
  (locked s' = true /\ wiped (sm s') = true) /\
  (* what lock() itself drops is zeroed; what was dropped before is out of its reach *)
  exists g, gone s' = gone s ++ g /\ Forall dead g.
Proof.
  intros s s' H. split.
  - exact (lock_clears_step the_facts s s' eq_refl eq_refl eq_refl eq_refl H).
  - exact (lock_and_dropped the_facts s s' (facts_ok_zero the_facts C05_facts_of_this_tree) H).
Qed.
Print Assumptions C05_lock_clears.

(** (iii) Nothing but a restart (a NEW manager) ever removes or changes an
    entry of the record of dropped buffers: the model does not forget what the
    manager can no longer reach. *)
Theorem C05_dropped_never_forgotten : forall s o s' r,
  (forall p, o <> OpOpen p) -> step the_facts s o = (s', r) -> exists g, gone s' = gone s ++ g.
Proof. exact (dropped_never_forgotten the_facts). Qed.
Print Assumptions C05_dropped_never_forgotten.

(** (iii), complete - UNDER THE PREMISE that every site which drops an object
    from the manager's state wipes it first ([evict_ok]: MarkUsed,
    InvalidateAccountCache, nextAddresses, Unlock; false on the present tree,
    see the header): for all histories no buffer the manager ever owned holds
    clear text, reachable from the manager or not - except the derived keys the
    LRU pushes out, which are covered when [lru_eviction_zeroes] holds too. *)
Theorem C05_locked_holds_no_cleartext_anywhere : evict_ok the_facts ->
  forall nsc pub priv ops, priv <> empty_pass ->
  let s := exec the_facts (init nsc pub priv) ops in
  gone_dead_but_lru s = true /\
  (lru_eviction_zeroes = true ->
   gone_dead s = true /\ (locked s = true \/ watch s = true -> wiped_all s = true)).
Proof.
  intros HE nsc pub priv ops Hp.
  exact (locked_holds_no_cleartext_anywhere the_facts nsc pub priv ops C05_facts_of_this_tree HE Hp).
Qed.
Print Assumptions C05_locked_holds_no_cleartext_anywhere.

(** (ii) For all histories (whatever accounts, addresses, imports and
    derive-on-unlock entries exist): the current private passphrase unlocks;
    every other passphrase fails, leaves the manager locked - an UNLOCKED
    manager is locked by it, as Unlock's code does - and wiped, and changes
    nothing on disk. *)
Theorem C05_current_passphrase_unlocks_any_other_fails : forall nsc pub priv ops,
  priv <> empty_pass ->
  let s := exec the_facts (init nsc pub priv) ops in
  watch s = false -> passphrase_statement the_facts s.
Proof. intros nsc pub priv ops. exact (passphrase_always the_facts nsc pub priv ops C05_facts_of_this_tree). Qed.
Print Assumptions C05_current_passphrase_unlocks_any_other_fails.

(** (iv) A private passphrase change is authorised by the current passphrase
    only, does not change the lock state, and from then on - immediately and
    after every later history without another change or a conversion, restarts
    (OpOpen) included - the new passphrase is the one that unlocks and the old
    one (like every other) fails and leaves the manager locked.  A failed
    change changes nothing. *)
Theorem C05_passphrase_change : forall nsc pub priv ops old new,
  priv <> empty_pass ->
  let s := exec the_facts (init nsc pub priv) ops in
  forall s1 r, step the_facts s (OpChangePriv old new) = (s1, r) ->
  (r = ROk ->
     cur_pass s = Some old /\ locked s1 = locked s /\
     forall ops', forallb keeps_priv ops' = true ->
       let s2 := exec the_facts s1 ops' in
       watch s2 = false /\ cur_pass s2 = Some new /\ passphrase_statement the_facts s2) /\
  (r <> ROk -> s1 = s).
Proof.
  intros nsc pub priv ops old new.
  exact (passphrase_change the_facts nsc pub priv ops old new C05_facts_of_this_tree).
Qed.
Print Assumptions C05_passphrase_change.

(** (iv) The public passphrase: a restart succeeds with exactly the current
    one (and yields a locked, wiped manager); a change is authorised by the
    current one and installs the new one. *)
Theorem C05_public_passphrase : forall nsc pub priv ops,
  priv <> empty_pass ->
  let s := exec the_facts (init nsc pub priv) ops in
  (forall p, (p = cur_pub_pass s ->
                exists s', step the_facts s (OpOpen p) = (s', ROk) /\ locked s' = true /\
                           wiped (sm s') = true /\ sd s' = sd s) /\
             (p <> cur_pub_pass s -> step the_facts s (OpOpen p) = (s, RWrongPass))) /\
  (forall old new s', step the_facts s (OpChangePub old new) = (s', ROk) ->
     cur_pub_pass s = old /\ cur_pub_pass s' = new).
Proof. intros nsc pub priv ops. exact (public_passphrase the_facts nsc pub priv ops C05_facts_of_this_tree). Qed.
Print Assumptions C05_public_passphrase.

(* ------------------------------------------------------------------ non-vacuity *)

(** A history that reaches the situations the theorems speak about: addresses
    issued while locked (derive-on-unlock queue), a watch-only account loaded,
    imports of a key and of secret scripts of the three kinds, a cached derived
    key, a passphrase change while unlocked, a wrong passphrase on the unlocked
    manager (locks and wipes it), a restart, the old passphrase, the new one. *)
Example C05_nonvacuous :
  let ops := [OpNextAddr 0 0 false; OpNewWatchAccount 2; OpAcctProps 2 1; OpUnlock 1;
              OpImportPriv 0 5; OpImportScript 0 6 KP2SH true; OpImportScript 0 7 KWitness true;
              OpImportScript 1 8 KTaproot true; OpDeriveCache 0 0 0 3; OpPrivKey 0 (KChain 0 0 0);
              OpMarkUsed 0 (KChain 0 0 0); OpForEach 0 0; OpInvalidate 0 0; OpNextAddr 0 0 false;
              OpChangePriv 1 6] in
  let s := exec the_facts (init 4 9 1) ops in
  locked s = false /\ wiped (sm s) = false /\ cur_pass s = Some 6 /\
  snd (run the_facts (init 4 9 1) ops) = [ROk; ROk; ROk; ROk; ROk; ROk; ROk; ROk; ROk; ROk; ROk; ROk; ROk; ROk; ROk] /\
  snd (run the_facts s [OpUnlock 1; OpPrivKey 0 (KChain 0 0 0); OpScript 0 (KScr 7); OpDeriveCache 0 0 0 3;
                        OpOpen 9; OpUnlock 1; OpUnlock 6; OpPrivKey 0 (KChain 0 0 0); OpLock])
    = [RWrongPass; RLocked; RLocked; RLocked; ROk; RWrongPass; ROk; ROk; ROk] /\
  wiped (sm (exec the_facts s [OpUnlock 1])) = true /\
  wiped (sm (exec the_facts s [OpLock])) = true.
Proof. vm_compute. repeat split; reflexivity. Qed.

(** The one-pass evaluation of a run of DeriveFromKeyPathCache calls agrees
    with the call-by-call loop (capacity 3: with evictions, on a cache that
    already holds entries of this and of another scope). *)
Example C05_cache_fill_one_pass_agrees :
  let F := mkE false false false false false in
  let s := exec F (init 4 9 1) [OpUnlock 1; OpAcctProps 0 0; OpAcctProps 1 0; OpDeriveCache 1 0 0 2;
                                OpDeriveCache 0 0 0 7; OpDeriveCache 0 0 1 1] in
  cache_fill F 0 0 0 100 5 s = cache_fill_loop F 0 0 0 100 5 s /\
  cache_fill F 0 0 0 100 1 s = cache_fill_loop F 0 0 0 100 1 s /\
  cache_fill F 0 0 0 5 4 s = cache_fill_loop F 0 0 0 5 4 s /\       (* overlaps a cached path: the loop is used *)
  gone_live_count GCache (fst (cache_fill F 0 0 0 100 5 s)) = 4%nat.
Proof. vm_compute. repeat split; reflexivity. Qed.

(** The premises of the access-control clauses are satisfiable: a locked state
    in which the address, the secret script and the account exist. *)
Example C05_access_control_nonvacuous :
  let s := exec the_facts (init 4 9 1)
             [OpUnlock 1; OpNextAddr 0 0 false; OpImportScript 0 7 KWitness true; OpLock] in
  locked s = true /\
  (exists s1 imp enc ct, load_addr the_facts 0 (KChain 0 0 0) s = Some (s1, OKey imp enc ct)) /\
  (exists s1 ct, load_addr the_facts 0 (KScr 7) s = Some (s1, OScript KWitness true ct)) /\
  load_acct the_facts 0 0 s <> None.
Proof.
  vm_compute. split; [reflexivity|]. split; [repeat eexists|]. split; [repeat eexists | discriminate].
Qed.
