(** C12 - A leased output stays out of reach until released or expired.
    Property theorems only. *)
From stdpp Require Import gmap list numbers sorting.
From Coq Require Import ZArith NArith.
From Verif Require Import Tx.Store Tx.Ledger Tx.Hist Tx.Inv Tx.Refine Tx.LeaseLemmas Tx.InvObs Tx.InvLease Tx.RefineAll Tx.Corollaries.
Local Open Scope Z_scope.

(** Per-operation clauses, valid in EVERY store state (hence in every state
    reached by any interleaving of lease, release, clock, sweep, receipt,
    spend, confirmation and reorg events), for every pair of identifiers and
    every instant. *)
Theorem C12_excluded_from_spendable : ∀ U s op now,
  is_locked_b s op now = true → ∀ u, u ∈ unspent_outputs U s now → u_op u ≠ op.
Proof. exact LeaseLemmas.leased_not_spendable. Qed.
Print Assumptions C12_excluded_from_spendable.

Theorem C12_other_id_cannot_lease : ∀ id op dur now s l,
  is_known_output s op = true → is_locked s op now = Some l → l_id l ≠ id →
  lock_output id op dur now s = (ErrAlreadyLocked, s).
Proof. exact LeaseLemmas.lease_other_id_rejected. Qed.
Print Assumptions C12_other_id_cannot_lease.

Theorem C12_other_id_cannot_release : ∀ id op now s l,
  is_known_output s op = true → is_locked s op now = Some l → l_id l ≠ id →
  unlock_output id op now s = (ErrUnlockNotAllowed, s).
Proof. exact LeaseLemmas.release_other_id_rejected. Qed.
Print Assumptions C12_other_id_cannot_release.

Theorem C12_same_id_extends : ∀ id op dur now s l,
  is_known_output s op = true → is_locked s op now = Some l → l_id l = id →
  ∃ s', lock_output id op dur now s = (LockOk (now + dur), s') ∧
        locked s' !! op = Some {| l_id := id; l_expiry := trunc_sec (now + dur) |} ∧
        (∀ op', op' ≠ op → locked s' !! op' = locked s !! op').
Proof. exact LeaseLemmas.lease_same_id_extends. Qed.
Print Assumptions C12_same_id_extends.

Theorem C12_owner_release_frees : ∀ id op now s l,
  is_known_output s op = true → is_locked s op now = Some l → l_id l = id →
  ∃ s', unlock_output id op now s = (UnlockOk, s') ∧ is_locked s' op now = None ∧
        (∀ op', op' ≠ op → locked s' !! op' = locked s !! op').
Proof. exact LeaseLemmas.release_owner_frees. Qed.
Print Assumptions C12_owner_release_frees.

(** "available again exactly when the expiry time is reached" *)
Theorem C12_expires_exactly_at_expiry : ∀ s op now,
  is_locked s op now = None ↔
  (locked s !! op = None ∨ ∃ l, locked s !! op = Some l ∧ l_expiry l <= now).
Proof. exact LeaseLemmas.is_locked_None. Qed.
Print Assumptions C12_expires_exactly_at_expiry.

Theorem C12_unknown_output_rejected : ∀ id op dur now s,
  is_known_output s op = false → lock_output id op dur now s = (ErrUnknownOutput, s).
Proof. exact LeaseLemmas.lease_unknown_output_rejected. Qed.
Print Assumptions C12_unknown_output_rejected.

(** History-level clauses: after every prefix of every chain-consistent
    history (any interleaving of lease, release, clock, sweep, receipt, spend,
    confirmation and reorg events) the lease bucket equals the ledger's leases,
    "known output" means credited output of a known transaction that no
    confirmed transaction spends, and balance and spendable set are the
    ledger's - which exclude every leased output ([leased] in [spec_balance] /
    [spec_utxos]) and count a leased and unconfirmed-spent output once. *)
Theorem C12_leases_follow_ledger :
  ∀ (U : universe) (h p : list event),
    wf_universe U = true → chain_consistent U h = true → p `prefix_of` h →
    let s := st (run U p) in let F := fs (spec_run U p) in let now := clock (run U p) in
    locked s = f_leases F ∧
    (∀ op, is_known_output s op = known_output U F op) ∧
    (∀ minconf sync, 0 <= minconf → (∀ t hh b, f_conf F !! t = Some (hh, b) → hh <= sync) →
       balance U s minconf sync now = spec_balance U F minconf sync now) ∧
    unspent_outputs U s now ≡ₚ spec_utxos U F now.
Proof. exact c12_history_holds. Qed.
Print Assumptions C12_leases_follow_ledger.

(** A leased output contributes nothing to the balance. *)
Theorem C12_excluded_from_balance : ∀ U s F op now l minconf sync,
  wf_universe U = true → Inv U s F → is_locked s op now = Some l →
  balance U s minconf sync now =
  sumZ (omap (bal_contrib minconf sync) (filter (λ u, u_op u ≠ op) (unspent_outputs U s now))).
Proof. exact lease_excludes_from_balance. Qed.
Print Assumptions C12_excluded_from_balance.

(** A confirmed spend of the output removes the lease (ledger step). *)
Theorem C12_confirmed_spend_removes_lease : ∀ U F t b op,
  f_conf F !! t = None → op ∈ tx_ins U t → f_leases (spec_confirm U F t b) !! op = None.
Proof.
  intros U F t b op Hn Hin. destruct (spec_confirm_char U F t b Hn) as (_ & _ & Hl).
  rewrite Hl. by rewrite bool_decide_eq_true_2.
Qed.
Print Assumptions C12_confirmed_spend_removes_lease.

(** Leases survive restart: the lease bucket is part of the database state
    (the model's [store] has no in-memory part), exercised by the harness with
    a close-and-reopen of the file. *)
