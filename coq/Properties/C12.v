(** C12 - A leased output stays out of reach until released or expired.
    Property theorems only.

    Two kinds of theorem, and what ties each to the code:

    (A) PER-OPERATION facts about the transcribed functions [lock_output],
        [unlock_output], [is_locked], [unspent_outputs] of the model
        (Store.v), valid in every store state, reachable or not:
        [C12_excluded_from_spendable], [C12_other_id_cannot_lease],
        [C12_other_id_cannot_release], [C12_same_id_extends],
        [C12_owner_release_frees], [C12_expires_exactly_at_expiry],
        [C12_unknown_output_rejected].  They unfold the definitions; they are
        tied to wtxmgr only by the correspondence (every LockOutput /
        UnlockOutput / ListLockedOutputs / Balance / UnspentOutputs result of
        the real store is compared with these functions on the same history)
        and say nothing about which states occur.

    (B) HISTORY-LEVEL facts, about every state reached by a prefix of a
        chain-consistent history, relating the store to the LEDGER (facts):
        [C12_leases_follow_ledger], [C12_excluded_from_balance] (under the
        refinement invariant), and the corollaries that instantiate (A) at
        reachable states through the refinement: [C12_hist_other_id_cannot_lease],
        [C12_hist_other_id_cannot_release], [C12_hist_leasable_by_anyone_iff_expired],
        [C12_hist_available_iff_expired].  Their premise is what the ledger
        says ("the output is leased to A until e"), their conclusion what the
        store does.  [C12_confirmed_spend_removes_lease] is a fact about the
        ledger step; it reaches the store through [C12_leases_follow_ledger].

    The expiry returned by a successful lease: the model returns the instant
    asked for ([now + dur]); the stored lease is truncated to whole seconds.
    No clause of the property depends on which of the two an implementation
    returns (both denote the granted lease), so the correspondence accepts
    either (StoreCorr code 25). *)
From stdpp Require Import gmap list numbers sorting.
From Coq Require Import ZArith NArith.
From Verif Require Import Tx.Store Tx.Ledger Tx.Hist Tx.Inv Tx.Refine Tx.LeaseLemmas Tx.InvObs Tx.InvLease Tx.RefineAll Tx.Corollaries.
Local Open Scope Z_scope.

(** (A) Per-operation clauses, valid in EVERY store state (hence in every state
    reached by any interleaving of lease, release, clock, sweep, receipt,
    spend, confirmation and reorg events), for every pair of identifiers and
    every instant. *)
Theorem C12_excluded_from_spendable : ∀ U s op now,
  is_locked_b s op now = true → ∀ u, u ∈ unspent_outputs U s now → u_op u ≠ op.
Proof. exact LeaseLemmas.leased_not_spendable. Qed.
Print Assumptions C12_excluded_from_spendable.

Theorem C12_other_id_cannot_lease : ∀ id op dur now s l,
  is_known_output s op = true → is_locked s op now = Some l → l_id l ≠ id →
  lock_output id op dur now s = (ErrAlreadyLocked, s).
Proof. exact LeaseLemmas.lease_other_id_rejected. Qed.
Print Assumptions C12_other_id_cannot_lease.

Theorem C12_other_id_cannot_release : ∀ id op now s l,
  is_known_output s op = true → is_locked s op now = Some l → l_id l ≠ id →
  unlock_output id op now s = (ErrUnlockNotAllowed, s).
Proof. exact LeaseLemmas.release_other_id_rejected. Qed.
Print Assumptions C12_other_id_cannot_release.

Theorem C12_same_id_extends : ∀ id op dur now s l,
  is_known_output s op = true → is_locked s op now = Some l → l_id l = id →
  ∃ s', lock_output id op dur now s = (LockOk (now + dur), s') ∧
        locked s' !! op = Some {| l_id := id; l_expiry := trunc_sec (now + dur) |} ∧
        (∀ op', op' ≠ op → locked s' !! op' = locked s !! op').
Proof. exact LeaseLemmas.lease_same_id_extends. Qed.
Print Assumptions C12_same_id_extends.

Theorem C12_owner_release_frees : ∀ id op now s l,
  is_known_output s op = true → is_locked s op now = Some l → l_id l = id →
  ∃ s', unlock_output id op now s = (UnlockOk, s') ∧ is_locked s' op now = None ∧
        (∀ op', op' ≠ op → locked s' !! op' = locked s !! op').
Proof. exact LeaseLemmas.release_owner_frees. Qed.
Print Assumptions C12_owner_release_frees.

(** "available again exactly when the expiry time is reached" *)
Theorem C12_expires_exactly_at_expiry : ∀ s op now,
  is_locked s op now = None ↔
  (locked s !! op = None ∨ ∃ l, locked s !! op = Some l ∧ l_expiry l <= now).
Proof. exact LeaseLemmas.is_locked_None. Qed.
Print Assumptions C12_expires_exactly_at_expiry.

Theorem C12_unknown_output_rejected : ∀ id op dur now s,
  is_known_output s op = false → lock_output id op dur now s = (ErrUnknownOutput, s).
Proof. exact LeaseLemmas.lease_unknown_output_rejected. Qed.
Print Assumptions C12_unknown_output_rejected.

(** (B) History-level clauses: after every prefix of every chain-consistent
    history (any interleaving of lease, release, clock, sweep, receipt, spend,
    confirmation and reorg events) the lease bucket equals the ledger's leases,
    "known output" means credited output of a known transaction that no
    confirmed transaction spends, and balance and spendable set are the
    ledger's - which exclude every leased output ([leased] in [spec_balance] /
    [spec_utxos]) and count a leased and unconfirmed-spent output once. *)
Theorem C12_leases_follow_ledger :
  ∀ (U : universe) (h p : list event),
    wf_universe U = true → chain_consistent U h = true → p `prefix_of` h →
    let s := st (run U p) in let F := fs (spec_run U p) in let now := clock (run U p) in
    locked s = f_leases F ∧
    (∀ op, is_known_output s op = known_output U F op) ∧
    (∀ minconf sync, 0 <= minconf → (∀ t hh b, f_conf F !! t = Some (hh, b) → hh <= sync) →
       balance U s minconf sync now = spec_balance U F minconf sync now) ∧
    unspent_outputs U s now ≡ₚ spec_utxos U F now.
Proof. exact c12_history_holds. Qed.
Print Assumptions C12_leases_follow_ledger.

(** A leased output contributes nothing to the balance. *)
Theorem C12_excluded_from_balance : ∀ U s F op now l minconf sync,
  wf_universe U = true → Inv U s F → is_locked s op now = Some l →
  balance U s minconf sync now =
  sumZ (omap (bal_contrib minconf sync) (filter (λ u, u_op u ≠ op) (unspent_outputs U s now))).
Proof. exact lease_excludes_from_balance. Qed.
Print Assumptions C12_excluded_from_balance.

(** A confirmed spend of the output removes the lease (ledger step). *)
Theorem C12_confirmed_spend_removes_lease : ∀ U F t b op,
  f_conf F !! t = None → op ∈ tx_ins U t → f_leases (spec_confirm U F t b) !! op = None.
Proof.
  intros U F t b op Hn Hin. destruct (spec_confirm_char U F t b Hn) as (_ & _ & Hl).
  rewrite Hl. by rewrite bool_decide_eq_true_2.
Qed.
Print Assumptions C12_confirmed_spend_removes_lease.

(** (B) continued: the per-operation clauses at reachable states.  [p] is any
    prefix of any chain-consistent history [h]; [run U p] is the store state
    and clock the history reached, [spec_run U p] the ledger.  If the ledger
    holds [op] leased to [l_id l] until [l_expiry l] and that instant has not
    been reached, a lease request under another identifier changes neither the
    store nor the ledger and fails (with "already locked" when the output is
    known) ... *)
Theorem C12_hist_other_id_cannot_lease : ∀ (U : universe) (h p : list event) id' op dur l,
  wf_universe U = true → chain_consistent U h = true → p `prefix_of` h →
  f_leases (fs (spec_run U p)) !! op = Some l → sclock (spec_run U p) < l_expiry l → l_id l ≠ id' →
  (step U (run U p) (Lease id' op dur)).1 = run U p ∧
  spec_step U (spec_run U p) (Lease id' op dur) = spec_run U p ∧
  ((step U (run U p) (Lease id' op dur)).2 = OLock ErrAlreadyLocked ∨
   (step U (run U p) (Lease id' op dur)).2 = OLock ErrUnknownOutput) ∧
  (known_output U (fs (spec_run U p)) op = true →
   (step U (run U p) (Lease id' op dur)).2 = OLock ErrAlreadyLocked).
Proof.
  intros U h p id' op dur l Hwf Hc Hp. destruct (refinement_prefix U h p Hwf Hc Hp) as [HI Hclk].
  by apply reach_other_id_cannot_lease.
Qed.
Print Assumptions C12_hist_other_id_cannot_lease.

(** ... and so does a release under another identifier. *)
Theorem C12_hist_other_id_cannot_release : ∀ (U : universe) (h p : list event) id' op l,
  wf_universe U = true → chain_consistent U h = true → p `prefix_of` h →
  f_leases (fs (spec_run U p)) !! op = Some l → sclock (spec_run U p) < l_expiry l → l_id l ≠ id' →
  (step U (run U p) (Release id' op)).1 = run U p ∧
  spec_step U (spec_run U p) (Release id' op) = spec_run U p ∧
  (step U (run U p) (Release id' op)).2 ≠ OLock UnlockOk ∧
  (known_output U (fs (spec_run U p)) op = true →
   (step U (run U p) (Release id' op)).2 = OLock ErrUnlockNotAllowed).
Proof.
  intros U h p id' op l Hwf Hc Hp. destruct (refinement_prefix U h p Hwf Hc Hp) as [HI Hclk].
  by apply reach_other_id_cannot_release.
Qed.
Print Assumptions C12_hist_other_id_cannot_release.

(** The output becomes leasable by anyone EXACTLY at the expiry instant: for a
    known output the ledger holds leased to another identifier, the request is
    granted if and only if the expiry has been reached. *)
Theorem C12_hist_leasable_by_anyone_iff_expired : ∀ (U : universe) (h p : list event) id' op dur l,
  wf_universe U = true → chain_consistent U h = true → p `prefix_of` h →
  f_leases (fs (spec_run U p)) !! op = Some l → l_id l ≠ id' →
  known_output U (fs (spec_run U p)) op = true →
  ((step U (run U p) (Lease id' op dur)).2 = OLock (LockOk (clock (run U p) + dur)) ↔
   l_expiry l <= sclock (spec_run U p)).
Proof.
  intros U h p id' op dur l Hwf Hc Hp. destruct (refinement_prefix U h p Hwf Hc Hp) as [HI Hclk].
  by apply reach_leasable_by_anyone_iff_expired.
Qed.
Print Assumptions C12_hist_leasable_by_anyone_iff_expired.

(** ... and it is back in the spendable set exactly from that instant on
    (provided it would be there when leases are ignored). *)
Theorem C12_hist_available_iff_expired : ∀ (U : universe) (h p : list event) op l u,
  wf_universe U = true → chain_consistent U h = true → p `prefix_of` h →
  f_leases (fs (spec_run U p)) !! op = Some l → u_op u = op →
  (u ∈ unspent_outputs U (st (run U p)) (clock (run U p)) ↔
   l_expiry l <= sclock (spec_run U p) ∧
   u ∈ fetch_credits U (st (run U p)) (clock (run U p)) true false).
Proof.
  intros U h p op l u Hwf Hc Hp. destruct (refinement_prefix U h p Hwf Hc Hp) as [HI Hclk].
  by apply reach_available_iff_expired.
Qed.
Print Assumptions C12_hist_available_iff_expired.

(** "Leases survive restart".  The transaction store keeps no lease state in
    memory: the lease bucket is part of the database, and the model's [store]
    is exactly the database state.  For such a store the clause means: closing
    and reopening is the IDENTITY step - after it every query answers what the
    model and the ledger predict from the unchanged state.  The harness has the
    event "restart" (close and reopen the database file; in the wallet-level
    cases stop the wallet, close, reopen, start), rendered for the model as
    [Tick 0], whose model and ledger steps are the identity (below), and
    compares the lease list, balances and spendable set after the restart with
    both.  That the real store has no in-memory lease state is NOT proved (it
    is what the restart event tests): partial. *)
Theorem C12_restart_step_is_identity_partial : ∀ (U : universe) (m : mstate) (sm : sstate),
  step U m (Tick 0) = (m, ONone) ∧ spec_step U sm (Tick 0) = sm.
Proof. exact restart_step_is_identity. Qed.
Print Assumptions C12_restart_step_is_identity_partial.
