(** C07 - Authored transactions conserve value and pay at least the requested
    fee rate.  Property theorems only; proofs are in Fee/FeeProofs.v.

    The theorems are about [author generated_cfg], the model instantiated with
    what wallet/txsizes, wallet/txrules and wallet/txauthor say NOW
    (Generated/TxsizesConsts.v).  Three regenerated facts are discharged here by
    computation ([eq_refl]); when the source makes one of them false this file
    stops compiling and the check reports the broken obligation:
      - [consts_exact]            the size constants are the worst-case signed sizes,
                                  rates are per 1000 bytes, the relay floor is 1000;
      - [varint_counts_change]    EstimateVirtualSize takes the compact-size of the
                                  output count over the count INCLUDING the change output;
      - [init_guess_minimal]      the first size guess of NewUnsignedTransaction is not
                                  larger than the estimate for any single input. *)
From Verif Require Import Base.Prelude Generated.TxsizesConsts Fee.Fee Fee.FeeProofs.
Local Open Scope Z_scope.

(** Well-formed requests: script lengths and the requested total are
    non-negative, the change script has the declared, positive length. *)
Definition request_ok (outs : list txout) (chg : Z) : Prop :=
  outs_wf outs /\ 0 <= sum_values outs /\ 0 < chg.

(** The loop of NewUnsignedTransaction ends within |coins| + 1 rounds. *)
Theorem C07_terminates : forall outs rate chg chgwit coins,
  request_ok outs chg -> 0 <= rate ->
  author generated_cfg outs rate chg chgwit coins <> OutOfFuel /\
  match author generated_cfg outs rate chg chgwit coins with
  | Success a => (a_rounds a <= length coins + 1)%nat
  | InsufficientFunds r => (r <= length coins + 1)%nat
  | OutOfFuel => True
  end.
Proof.
  intros outs rate chg chgwit coins (Ho & Hv & Hc) Hr. split.
  - apply (author_terminates generated_cfg outs rate chg chgwit coins eq_refl Ho Hv Hc Hr).
    exact (proj1 (init_minimal_spec generated_cfg eq_refl)).
  - exact (author_rounds generated_cfg outs rate chg chgwit coins).
Qed.
Print Assumptions C07_terminates.

(** Success keeps the requested outputs unchanged and in order; a change
    output is only ever appended, at index [length outs]; the inputs are a
    prefix of the offered arrangement. *)
Theorem C07_outputs_kept : forall outs rate chg chgwit coins a,
  request_ok outs chg ->
  author generated_cfg outs rate chg chgwit coins = Success a ->
  firstn (length outs) (a_outs a) = outs /\
  match a_change a with
  | Some c => a_outs a = outs ++ [mkOut c chg] /\ a_change_index a = Some (length outs)
  | None => a_outs a = outs /\ a_change_index a = None
  end /\
  (exists rest, coins = a_inputs a ++ rest) /\ a_total_in a = sum_coins (a_inputs a).
Proof.
  intros outs rate chg chgwit coins a (Ho & Hv & Hc) H.
  pose proof (success_outputs generated_cfg outs rate chg chgwit coins a H) as (H1 & H2).
  pose proof (success_inputs generated_cfg outs rate chg chgwit coins a H) as (H3 & H4).
  repeat split; assumption.
Qed.
Print Assumptions C07_outputs_kept.

(** Inputs total exactly outputs plus fee; the fee is the required fee for the
    estimated size of exactly this transaction when there is a change output,
    and at least that otherwise. *)
Theorem C07_value_conserved : forall outs rate chg chgwit coins a,
  request_ok outs chg ->
  author generated_cfg outs rate chg chgwit coins = Success a ->
  sum_coins (a_inputs a) = sum_values (a_outs a) + paid_fee a /\
  sum_values (a_outs a) = sum_values outs + match a_change a with Some c => c | None => 0 end /\
  match a_change a with
  | Some _ => paid_fee a = a_req_fee a
  | None => a_req_fee a <= paid_fee a
  end.
Proof.
  intros outs rate chg chgwit coins a _ H.
  exact (success_conservation generated_cfg outs rate chg chgwit coins a H).
Qed.
Print Assumptions C07_value_conserved.

(** The fee is no lower than the requested rate applied to the REAL signed
    virtual size: for every number of requested outputs, every mix of input
    kinds and every admissible assignment of signature lengths. *)
Theorem C07_fee_covers_real_size : forall outs rate chg chgwit coins a sigs,
  request_ok outs chg -> default_relay_fee_per_kb <= rate ->
  author generated_cfg outs rate chg chgwit coins = Success a ->
  length sigs = length (a_inputs a) ->
  admissible (combine (map fst (a_inputs a)) sigs) ->
  fee_for rate (real_vsize (combine (map fst (a_inputs a)) sigs) (a_outs a)) <= paid_fee a.
Proof.
  intros outs rate chg chgwit coins a sigs (Ho & Hv & Hc) Hr H Hl Ha.
  exact (success_fee_covers_real generated_cfg outs rate chg chgwit coins eq_refl Ho Hc a H sigs eq_refl Hr Hl Ha).
Qed.
Print Assumptions C07_fee_covers_real_size.

(** [fee_for] is the rate applied to the size: per 1000 bytes, rounded down,
    capped at the money supply (above the point where the "zero fee becomes
    the rate" rule can fire). *)
Theorem C07_fee_for_is_rate_times_size : forall rate size,
  0 <= rate -> 1000 <= rate * size ->
  fee_for rate size = Z.min (rate * size / 1000) max_satoshi.
Proof. exact (fun rate size => fee_for_spec rate size eq_refl). Qed.
Print Assumptions C07_fee_for_is_rate_times_size.

(** The fee stays below the rate applied to the worst-case size estimate of
    exactly this transaction (its inputs, the requested outputs, one change
    output) plus one dust threshold of the change script; with a change output
    it is exactly the former. *)
Theorem C07_fee_upper_bound : forall outs rate chg chgwit coins a,
  request_ok outs chg ->
  author generated_cfg outs rate chg chgwit coins = Success a ->
  a_est a = est_vsize_gen true (counts_of (map fst (a_inputs a))) outs chg /\
  paid_fee a < fee_for rate (a_est a) + dust_threshold chg chgwit /\
  (a_change a <> None -> paid_fee a = fee_for rate (a_est a)).
Proof.
  intros outs rate chg chgwit coins a (Ho & Hv & Hc) H.
  pose proof (success_fee_lower generated_cfg outs rate chg chgwit coins a H) as (He & _).
  pose proof (success_fee_upper generated_cfg outs rate chg chgwit coins eq_refl Hc a H) as (H1 & H2).
  rewrite (est_size_vcc generated_cfg outs chg _ eq_refl) in He.
  split; [exact He|split; assumption].
Qed.
Print Assumptions C07_fee_upper_bound.

(** A change output is never zero and never dust. *)
Theorem C07_change_never_dust : forall outs rate chg chgwit coins a c,
  request_ok outs chg ->
  author generated_cfg outs rate chg chgwit coins = Success a ->
  a_change a = Some c ->
  0 < c /\ is_dust c chg chgwit default_relay_fee_per_kb = false /\ dust_threshold chg chgwit <= c.
Proof.
  intros outs rate chg chgwit coins a c (Ho & Hv & Hc) H.
  exact (success_change generated_cfg outs rate chg chgwit coins eq_refl Hc a H c).
Qed.
Print Assumptions C07_change_never_dust.

(** Insufficient funds is reported only when no prefix of the offered
    arrangement - in particular not all the coins together - covers the
    outputs plus the fee required for the transaction spending that prefix. *)
Theorem C07_insufficient_funds : forall outs rate chg chgwit coins r,
  request_ok outs chg -> default_relay_fee_per_kb <= rate ->
  author generated_cfg outs rate chg chgwit coins = InsufficientFunds r ->
  sum_coins coins < sum_values outs
     + fee_for rate (est_vsize_gen true (counts_of (map fst coins)) outs chg) /\
  forall Q q, coins = Q ++ q ->
    sum_coins Q < sum_values outs + fee_for rate (est_vsize_gen true (counts_of (map fst Q)) outs chg).
Proof.
  intros outs rate chg chgwit coins r (Ho & Hv & Hc) Hr H. split.
  - rewrite <- (est_size_vcc generated_cfg outs chg _ eq_refl).
    exact (author_insufficient generated_cfg outs rate chg chgwit coins eq_refl Ho Hv Hc r eq_refl Hr H).
  - intros Q q HQ. rewrite <- (est_size_vcc generated_cfg outs chg _ eq_refl).
    exact (author_insufficient_no_prefix generated_cfg outs rate chg chgwit coins eq_refl Ho Hv Hc r eq_refl Hr H Q q HQ).
Qed.
Print Assumptions C07_insufficient_funds.

(** ** Non-vacuity and the witnesses kept for the record *)

Definition outs252 : list txout := repeat (mkOut 1000 22) 252.

(** 252 requested outputs + change (253: the compact-size boundary), one
    P2WPKH coin, relay floor: success with change, and the fee covers the real
    size for a 71-byte signature. *)
Example C07_nonvacuous_boundary :
  match author generated_cfg outs252 1000 22 true [(P2WPKH, 1000000)] with
  | Success a =>
      a_change a = Some (1000000 - 252000 - a_req_fee a) /\ length (a_outs a) = 253%nat /\
      real_vsize [(P2WPKH, 71)] (a_outs a) <= a_est a /\
      fee_for 1000 (real_vsize [(P2WPKH, 71)] (a_outs a)) <= paid_fee a
  | _ => False
  end.
Proof. vm_compute. repeat split; discriminate. Qed.

(** Several rounds, mixed kinds, dust remainder given to the fee; and
    insufficient funds one satoshi below. *)
Example C07_nonvacuous_rounds :
  (match author generated_cfg [mkOut 5000 25] 2000 22 true [(P2PKH, 5300); (P2TR, 500); (NP2WPKH, 100)] with
   | Success a => a_rounds a = 2%nat /\ length (a_inputs a) = 2%nat /\ a_change a = None
                  /\ paid_fee a = 800 /\ a_req_fee a = 566 /\ dust_threshold 22 true = 294
   | _ => False
   end) /\
  author generated_cfg [mkOut 5000 25] 2000 22 true [(P2PKH, 5300); (P2TR, 200); (NP2WPKH, 1)]
    = InsufficientFunds 3.
Proof. vm_compute. repeat split. Qed.

(** Witness at the pinned commit, defect 1 (compact-size over [len(txOuts)]):
    the estimate is 2 bytes below the real size and the fee is below the rate. *)
Example C07_refuted_at_pinned_varint :
  match author pinned_cfg outs252 1000 22 true [(P2WPKH, 1000000)] with
  | Success a =>
      a_est a + 2 = real_vsize [(P2WPKH, 71)] (a_outs a) /\
      paid_fee a < fee_for 1000 (real_vsize [(P2WPKH, 71)] (a_outs a))
  | _ => False
  end.
Proof. vm_compute. repeat split. Qed.

(** Witness at the pinned commit, defect 2 (first guess = one P2WPKH input):
    a single P2TR coin that covers the outputs plus its own required fee is
    reported as insufficient funds; with the smallest guess it is spent. *)
Example C07_refuted_at_pinned_init_guess :
  author pinned_cfg [] 52583 34 true [(P2TR, 6054)] = InsufficientFunds 1 /\
  0 + fee_for 52583 (est_vsize_gen true (counts_of [P2TR]) [] 34) <= 6054 /\
  init_minimal pinned_cfg = false /\
  match author fixed_cfg [] 52583 34 true [(P2TR, 6054)] with
  | Success a => paid_fee a = 6054 /\ a_req_fee a = 5889
  | _ => False
  end.
Proof. vm_compute. repeat split; discriminate. Qed.

(** Why the admissibility predicate asks for low-S (<= 71 byte) signatures on
    P2PKH inputs of a transaction that also has witness inputs: with 72-byte
    signatures on five P2PKH inputs the estimate is one byte short (every
    P2PKH input carries one uncounted byte of empty witness). *)
Example C07_high_s_mixed_not_covered :
  let ins := [(P2PKH, 72); (P2PKH, 72); (P2PKH, 72); (P2PKH, 72); (P2PKH, 72); (P2WPKH, 72)] in
  est_vsize_gen true (counts_of (map fst ins)) [mkOut 1000 22] 22 + 1
  = real_vsize ins [mkOut 1000 22; mkOut 600 22].
Proof. vm_compute. reflexivity. Qed.
