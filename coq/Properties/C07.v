(** C07 - Authored transactions conserve value and pay at least the requested
    fee rate.  Property theorems only; proofs are in Fee/FeeProofs.v.

    The theorems are about [author generated_cfg] (txauthor.NewUnsignedTransaction
    over the wallet's two input sources) and [wallet_author] (the wallet-level
    function of wallet/createtx.go and wallet/psbt.go: change source, authoring
    loop, RandomizeChangePosition), the model instantiated with what
    wallet/txsizes, wallet/txrules, wallet/txauthor and wallet/createtx.go say
    NOW (Generated/TxsizesConsts.v).  The regenerated facts are discharged here
    by computation ([eq_refl]); when the source makes one of them false this
    file stops compiling and the check reports the broken obligation:
      - [consts_sane]             the size constants are sizes (>= 0), fee rates are per
                                  1000 bytes, the relay floor is at least 1000 sat/kvB;
      - [sizes_cover]             INEQUALITIES only: what EstimateVirtualSize allots to one
                                  input of each kind is at least the proven worst-case weight
                                  of a signed input of that kind, the witness part is rounded
                                  up (a MORE conservative constant keeps every theorem);
      - [relay_floor_exact]       only for the upper bound of the fee ("plus one dust
                                  threshold" is the network's threshold at 1000 sat/kvB);
      - [change_sizes_cover]      the wallet's change source never declares a script size
                                  below the length of the script it produces;
      - [varint_counts_change]    EstimateVirtualSize takes the compact-size of the
                                  output count over the count INCLUDING the change output;
      - [init_guess_minimal]      the first size guess of NewUnsignedTransaction is not
                                  larger than the estimate for any single input.

    Signature hypothesis ([admissible unc], exact): every ECDSA input carries a DER
    signature of at most 72 bytes (71 for a P2PKH input of a transaction that also has
    witness inputs; btcec signs low-S: at most 71) plus the sighash byte and a 33-byte
    compressed public key; a P2TR key spend a Schnorr signature of at most 65 bytes.
    A P2PKH input signed with an UNCOMPRESSED 65-byte key is admissible only if
    [unc = p2pkh_covers_uncompressed] is true - it is false for the current constants,
    and [C07_uncompressed_key_refuted] shows that the bound then fails (known finding:
    fee_below_rate_uncompressed_key). *)
From Coq Require Import Permutation.
From Verif Require Import Base.Prelude Generated.TxsizesConsts Fee.Fee Fee.FeeProofs.
Local Open Scope Z_scope.

(** Well-formed requests: script lengths and the requested total are
    non-negative, the declared change script length is positive and not below
    the real one. *)
Definition request_ok (outs : list txout) (chg chgr : Z) : Prop :=
  outs_wf outs /\ 0 <= sum_values outs /\ 0 < chg /\ 0 <= chgr <= chg.

Definition wrequest_ok (outs : list txout) : Prop := outs_wf outs /\ 0 <= sum_values outs.

(** ** txauthor.NewUnsignedTransaction over makeInputSource ([fixed = false])
       or constantInputSource ([fixed = true]) *)

(** The loop of NewUnsignedTransaction ends within |coins| + 1 rounds. *)
Theorem C07_terminates : forall fixed outs rate chg chgr chgwit coins,
  request_ok outs chg chgr -> 0 <= rate ->
  author generated_cfg fixed outs rate chg chgr chgwit coins <> OutOfFuel /\
  match author generated_cfg fixed outs rate chg chgr chgwit coins with
  | Success a => (a_rounds a <= length coins + 1)%nat
  | InsufficientFunds r => (r <= length coins + 1)%nat
  | OutOfFuel => True
  end.
Proof.
  intros fixed outs rate chg chgr chgwit coins (Ho & Hv & Hc & Hr) Hrate. split.
  - apply (author_terminates generated_cfg fixed outs rate chg chgr chgwit coins eq_refl Ho Hv Hc Hrate).
    exact (proj1 (init_minimal_spec generated_cfg eq_refl)).
  - exact (author_rounds generated_cfg fixed outs rate chg chgr chgwit coins).
Qed.
Print Assumptions C07_terminates.

(** Success keeps the requested outputs unchanged; txauthor appends the change
    output; the inputs are a prefix of the offered arrangement (the whole of an
    explicit selection) and the total the input source reported is the sum of
    THEIR values. *)
Theorem C07_outputs_kept : forall fixed outs rate chg chgr chgwit coins a,
  request_ok outs chg chgr ->
  author generated_cfg fixed outs rate chg chgr chgwit coins = Success a ->
  firstn (length outs) (a_outs a) = outs /\
  match a_change a with
  | Some c => a_outs a = outs ++ [mkOut c chgr] /\ a_change_index a = Some (length outs)
  | None => a_outs a = outs /\ a_change_index a = None
  end /\
  (exists rest, coins = a_inputs a ++ rest) /\ a_total_in a = sum_coins (a_inputs a) /\
  (fixed = true -> a_inputs a = coins).
Proof.
  intros fixed outs rate chg chgr chgwit coins a _ H.
  pose proof (success_outputs generated_cfg fixed outs rate chg chgr chgwit coins a H) as (H1 & H2).
  pose proof (success_inputs generated_cfg fixed outs rate chg chgr chgwit coins a H) as (H3 & H4).
  repeat split; try assumption. intros ->. exact (author_fixed_inputs _ _ _ _ _ _ _ _ H).
Qed.
Print Assumptions C07_outputs_kept.

(** The values of the coins spent total exactly the outputs plus the fee of the
    transaction; the fee is the required fee for the estimated size of exactly
    this transaction when there is a change output, and at least that otherwise. *)
Theorem C07_value_conserved : forall fixed outs rate chg chgr chgwit coins a,
  request_ok outs chg chgr ->
  author generated_cfg fixed outs rate chg chgr chgwit coins = Success a ->
  sum_coins (a_inputs a) = sum_values (a_outs a) + tx_fee a /\
  sum_values (a_outs a) = sum_values outs + match a_change a with Some c => c | None => 0 end /\
  match a_change a with
  | Some _ => tx_fee a = a_req_fee a
  | None => a_req_fee a <= tx_fee a
  end.
Proof.
  intros fixed outs rate chg chgr chgwit coins a _ H.
  rewrite (success_tx_fee generated_cfg fixed outs rate chg chgr chgwit coins a H).
  exact (success_conservation generated_cfg fixed outs rate chg chgr chgwit coins a H).
Qed.
Print Assumptions C07_value_conserved.

(** The fee is no lower than the requested rate applied to the REAL signed
    virtual size: for every number of requested outputs, every mix of input
    kinds and every admissible assignment of signature and key lengths. *)
Theorem C07_fee_covers_real_size : forall fixed outs rate chg chgr chgwit coins a sigs,
  request_ok outs chg chgr -> default_relay_fee_per_kb <= rate ->
  author generated_cfg fixed outs rate chg chgr chgwit coins = Success a ->
  length sigs = length (a_inputs a) ->
  admissible p2pkh_covers_uncompressed (mk_sinputs (map fst (a_inputs a)) sigs) ->
  fee_for rate (real_vsize (mk_sinputs (map fst (a_inputs a)) sigs) (a_outs a)) <= tx_fee a.
Proof.
  intros fixed outs rate chg chgr chgwit coins a sigs (Ho & Hv & Hc & Hr0 & Hr1) Hr H Hl Ha.
  rewrite (success_tx_fee generated_cfg fixed outs rate chg chgr chgwit coins a H).
  exact (success_fee_covers_real generated_cfg fixed outs rate chg chgr chgwit coins eq_refl Ho Hc Hr0 a H
           p2pkh_covers_uncompressed sigs eq_refl Hr1 eq_refl Hr Hl Ha).
Qed.
Print Assumptions C07_fee_covers_real_size.

(** [fee_for] is the rate applied to the size: per 1000 bytes, rounded down,
    capped at the money supply (above the point where the "zero fee becomes
    the rate" rule can fire). *)
Theorem C07_fee_for_is_rate_times_size : forall rate size,
  0 <= rate -> 1000 <= rate * size ->
  fee_for rate size = Z.min (rate * size / 1000) max_satoshi.
Proof. exact (fun rate size => fee_for_spec rate size eq_refl). Qed.
Print Assumptions C07_fee_for_is_rate_times_size.

(** The fee stays below the rate applied to the worst-case size estimate of
    exactly this transaction (its inputs, the requested outputs, one change
    output) plus one dust threshold of the change script; with a change output
    it is exactly the former. *)
Theorem C07_fee_upper_bound : forall fixed outs rate chg chgr chgwit coins a,
  request_ok outs chg chgr ->
  author generated_cfg fixed outs rate chg chgr chgwit coins = Success a ->
  a_est a = est_vsize_gen true (counts_of (map fst (a_inputs a))) outs chg /\
  tx_fee a < fee_for rate (a_est a) + dust_threshold chgr chgwit /\
  (a_change a <> None -> tx_fee a = fee_for rate (a_est a)).
Proof.
  intros fixed outs rate chg chgr chgwit coins a (Ho & Hv & Hc & Hr0 & Hr1) H.
  rewrite (success_tx_fee generated_cfg fixed outs rate chg chgr chgwit coins a H).
  pose proof (success_fee_lower generated_cfg fixed outs rate chg chgr chgwit coins a H) as (He & _).
  pose proof (success_fee_upper generated_cfg fixed outs rate chg chgr chgwit coins eq_refl Hr0 a H eq_refl) as (H1 & H2).
  rewrite (est_size_vcc generated_cfg outs chg _ eq_refl) in He.
  split; [exact He|split; assumption].
Qed.
Print Assumptions C07_fee_upper_bound.

(** A change output is never zero and never dust. *)
Theorem C07_change_never_dust : forall fixed outs rate chg chgr chgwit coins a c,
  request_ok outs chg chgr ->
  author generated_cfg fixed outs rate chg chgr chgwit coins = Success a ->
  a_change a = Some c ->
  0 < c /\ is_dust c chgr chgwit default_relay_fee_per_kb = false /\ dust_threshold chgr chgwit <= c.
Proof.
  intros fixed outs rate chg chgr chgwit coins a c (Ho & Hv & Hc & Hr0 & Hr1) H.
  exact (success_change generated_cfg fixed outs rate chg chgr chgwit coins eq_refl Hr0 a H c).
Qed.
Print Assumptions C07_change_never_dust.

(** Insufficient funds is reported only when the offered coins together do not
    cover the outputs plus the fee required for the transaction spending all of
    them; under automatic selection no prefix of the offered arrangement covers
    the outputs plus the fee required for spending that prefix. *)
Theorem C07_insufficient_funds : forall fixed outs rate chg chgr chgwit coins r,
  request_ok outs chg chgr -> default_relay_fee_per_kb <= rate ->
  author generated_cfg fixed outs rate chg chgr chgwit coins = InsufficientFunds r ->
  sum_coins coins < sum_values outs
     + fee_for rate (est_vsize_gen true (counts_of (map fst coins)) outs chg) /\
  (fixed = false -> forall Q q, coins = Q ++ q ->
    sum_coins Q < sum_values outs + fee_for rate (est_vsize_gen true (counts_of (map fst Q)) outs chg)).
Proof.
  intros fixed outs rate chg chgr chgwit coins r (Ho & Hv & Hc & Hr0 & Hr1) Hr H. split.
  - rewrite <- (est_size_vcc generated_cfg outs chg _ eq_refl).
    exact (author_insufficient generated_cfg fixed outs rate chg chgr chgwit coins eq_refl Ho Hv Hc r eq_refl Hr H).
  - intros -> Q q HQ. rewrite <- (est_size_vcc generated_cfg outs chg _ eq_refl).
    exact (author_insufficient_no_prefix generated_cfg outs rate chg chgr chgwit coins eq_refl Ho Hv Hc r eq_refl Hr H Q q HQ).
Qed.
Print Assumptions C07_insufficient_funds.

(** ** The wallet-level function: change source + authoring loop +
       RandomizeChangePosition, for every coin list, every requested output
       list, every rate, every change address type, either input source and
       every random draw *)

(** Every requested output is present exactly once with its amount and script
    length (the outputs are a permutation of the requested ones plus the
    change), the change output - with the length of the script the change
    source really produces - sits at ChangeIndex. *)
Theorem C07_wallet_outputs_once : forall fixed randomizes outs rate k coins rnd a,
  wrequest_ok outs ->
  wallet_author fixed randomizes outs rate k coins rnd = Success a ->
  match a_change a with
  | Some c => Permutation (a_outs a) (outs ++ [mkOut c (change_real k)]) /\
              exists r, a_change_index a = Some r /\ nth_error (a_outs a) r = Some (mkOut c (change_real k))
  | None => a_outs a = outs /\ a_change_index a = None
  end.
Proof.
  intros fixed randomizes outs rate k coins rnd a _ H.
  exact (wallet_outputs fixed randomizes outs rate k coins rnd eq_refl eq_refl a H).
Qed.
Print Assumptions C07_wallet_outputs_once.

(** The inputs are a prefix of the arrangement (the whole explicit selection);
    the total the input source accumulated is the sum of their values; the
    values of the coins spent total exactly the outputs plus the fee; the fee is
    the required fee of the worst-case estimate when there is change, at least
    that otherwise. *)
Theorem C07_wallet_value_conserved : forall fixed randomizes outs rate k coins rnd a,
  wrequest_ok outs ->
  wallet_author fixed randomizes outs rate k coins rnd = Success a ->
  ((exists rest, coins = a_inputs a ++ rest) /\ a_total_in a = sum_coins (a_inputs a) /\
   (fixed = true -> a_inputs a = coins)) /\
  sum_coins (a_inputs a) = sum_values (a_outs a) + tx_fee a /\
  sum_values (a_outs a) = sum_values outs + match a_change a with Some c => c | None => 0 end /\
  a_req_fee a = fee_for rate (a_est a) /\
  match a_change a with
  | Some _ => tx_fee a = a_req_fee a
  | None => a_req_fee a <= tx_fee a
  end.
Proof.
  intros fixed randomizes outs rate k coins rnd a _ H. split.
  - exact (wallet_inputs fixed randomizes outs rate k coins rnd eq_refl eq_refl a H).
  - exact (wallet_conservation fixed randomizes outs rate k coins rnd eq_refl eq_refl a H).
Qed.
Print Assumptions C07_wallet_value_conserved.

(** The fee of the wallet-authored transaction is no lower than the requested
    rate applied to its real signed virtual size. *)
Theorem C07_wallet_fee_covers_real_size : forall fixed randomizes outs rate k coins rnd a sigs,
  wrequest_ok outs -> default_relay_fee_per_kb <= rate ->
  wallet_author fixed randomizes outs rate k coins rnd = Success a ->
  length sigs = length (a_inputs a) ->
  admissible p2pkh_covers_uncompressed (mk_sinputs (map fst (a_inputs a)) sigs) ->
  fee_for rate (real_vsize (mk_sinputs (map fst (a_inputs a)) sigs) (a_outs a)) <= tx_fee a.
Proof.
  intros fixed randomizes outs rate k coins rnd a sigs (Ho & Hv) Hr H Hl Ha.
  exact (wallet_fee_covers_real fixed randomizes outs rate k coins rnd eq_refl eq_refl Ho a H
           p2pkh_covers_uncompressed sigs eq_refl eq_refl Hr Hl Ha).
Qed.
Print Assumptions C07_wallet_fee_covers_real_size.

(** ... and no higher than the rate applied to the worst-case estimate plus one
    dust threshold of the change script. *)
Theorem C07_wallet_fee_upper_bound : forall fixed randomizes outs rate k coins rnd a,
  wrequest_ok outs ->
  wallet_author fixed randomizes outs rate k coins rnd = Success a ->
  tx_fee a < fee_for rate (a_est a) + dust_threshold (change_real k) (change_wit k) /\
  (a_change a <> None -> tx_fee a = fee_for rate (a_est a)).
Proof.
  intros fixed randomizes outs rate k coins rnd a _ H.
  exact (wallet_fee_upper fixed randomizes outs rate k coins rnd eq_refl eq_refl a H eq_refl).
Qed.
Print Assumptions C07_wallet_fee_upper_bound.

(** The change output is never zero and never dust; with non-negative
    requested amounts no output is negative and the outputs never exceed the
    coins spent. *)
Theorem C07_wallet_change_and_amounts : forall fixed randomizes outs rate k coins rnd a,
  wrequest_ok outs ->
  wallet_author fixed randomizes outs rate k coins rnd = Success a ->
  (forall c, a_change a = Some c -> 0 < c /\ dust_threshold (change_real k) (change_wit k) <= c) /\
  (Forall (fun o => 0 <= out_value o) outs ->
   Forall (fun o => 0 <= out_value o) (a_outs a) /\ sum_values (a_outs a) <= sum_coins (a_inputs a)).
Proof.
  intros fixed randomizes outs rate k coins rnd a _ H. split.
  - intros c Hc. exact (wallet_change fixed randomizes outs rate k coins rnd eq_refl eq_refl a H c Hc).
  - exact (wallet_amounts fixed randomizes outs rate k coins rnd eq_refl eq_refl a H).
Qed.
Print Assumptions C07_wallet_change_and_amounts.

(** The wallet-level function terminates, and reports insufficient funds only
    when the offered coins do not cover the outputs plus the required fee. *)
Theorem C07_wallet_insufficient_funds : forall fixed randomizes outs rate k coins rnd,
  wrequest_ok outs -> default_relay_fee_per_kb <= rate ->
  wallet_author fixed randomizes outs rate k coins rnd <> OutOfFuel /\
  forall r, wallet_author fixed randomizes outs rate k coins rnd = InsufficientFunds r ->
    sum_coins coins < sum_values outs
       + fee_for rate (est_vsize_gen true (counts_of (map fst coins)) outs (change_decl k)).
Proof.
  intros fixed randomizes outs rate k coins rnd (Ho & Hv) Hr.
  pose proof (change_real_pos k) as Hp. pose proof (change_sizes_cover_spec eq_refl k) as Hk.
  assert (Hreq : request_ok outs (change_decl k) (change_real k)) by (unfold request_ok; repeat split; try assumption; lia).
  assert (H0 : 0 <= rate) by (pose proof (consts_sane_relay eq_refl); lia).
  split.
  - intros F. apply wallet_author_fuel in F.
    exact (proj1 (C07_terminates fixed outs rate _ _ (change_wit k) coins Hreq H0) F).
  - intros r H. apply wallet_author_insufficient in H.
    exact (proj1 (C07_insufficient_funds fixed outs rate _ _ (change_wit k) coins r Hreq Hr H)).
Qed.
Print Assumptions C07_wallet_insufficient_funds.

(** ** Non-vacuity and the witnesses kept for the record *)

(** The witnesses with exact numbers are computed with the constants of the
    tree they were found on; they are stated under that premise, so that a
    source whose constants differ (a more conservative size, say) keeps this
    file compiling - the theorems above need inequalities only. *)
Definition consts_as_recorded : bool :=
  (est_in_p2pkh =? 149) && (est_in_p2wpkh =? 41) && (est_in_p2tr =? 41) && (est_in_nested =? 64)
  && (est_ww_marker =? 2) && (est_ww_p2wpkh =? 109) && (est_ww_p2tr =? 67) && (est_ww_nested =? 109)
  && (witness_round_add =? 3) && (fee_divisor =? 1000) && (default_relay_fee_per_kb =? 1000)
  && (change_size_pubkeyhash =? 25) && (change_size_nested_witness_pubkey =? 23)
  && (change_size_witness_pubkey =? 22) && (change_size_taproot_pubkey =? 34).

Ltac witness := vm_compute; let H := fresh in intros H;
  first [discriminate H | (repeat split; discriminate) | repeat split].

Definition outs252 : list txout := repeat (mkOut 1000 22) 252.

(** 252 requested outputs + change (253: the compact-size boundary), one
    P2WPKH coin, relay floor: success with change, and the fee covers the real
    size for a 71-byte signature. *)
Example C07_nonvacuous_boundary :
  match author generated_cfg false outs252 1000 22 22 true [(P2WPKH, 1000000)] with
  | Success a =>
      a_change a = Some (1000000 - 252000 - a_req_fee a) /\ length (a_outs a) = 253%nat /\
      real_vsize [mkSin P2WPKH 71 33] (a_outs a) <= a_est a /\
      fee_for 1000 (real_vsize [mkSin P2WPKH 71 33] (a_outs a)) <= tx_fee a
  | _ => False
  end.
Proof. vm_compute. repeat split; discriminate. Qed.

(** Several rounds over the accumulating input source, mixed kinds, dust
    remainder given to the fee; and insufficient funds one satoshi below. *)
Example C07_nonvacuous_rounds : consts_as_recorded = true ->
  (match author generated_cfg false [mkOut 5000 25] 2000 22 22 true [(P2PKH, 5300); (P2TR, 500); (NP2WPKH, 100)] with
   | Success a => a_rounds a = 2%nat /\ length (a_inputs a) = 2%nat /\ a_change a = None
                  /\ a_total_in a = 5800 /\ tx_fee a = 800 /\ a_req_fee a = 566 /\ dust_threshold 22 true = 294
   | _ => False
   end) /\
  author generated_cfg false [mkOut 5000 25] 2000 22 22 true [(P2PKH, 5300); (P2TR, 200); (NP2WPKH, 1)]
    = InsufficientFunds 3.
Proof. witness. Qed.

(** The wallet-level function: an explicit selection of three coins is spent
    whole although the first would do; the draw 0 moves the P2TR change output
    to the front and the requested payment stays intact. *)
Example C07_nonvacuous_wallet :
  match wallet_author true true [mkOut 5000 25; mkOut 7000 22] 1000 ChP2TR
          [(P2WPKH, 40000); (P2PKH, 3000); (P2TR, 2000)] 3 with
  | Success a => length (a_inputs a) = 3%nat /\ a_change_index a = Some 0%nat /\
                 a_outs a = [mkOut (45000 - 12000 - a_req_fee a) 34; mkOut 7000 22; mkOut 5000 25] /\
                 sum_coins (a_inputs a) = sum_values (a_outs a) + a_req_fee a
  | _ => False
  end.
Proof. vm_compute. repeat split. Qed.

(** Witness at the pinned commit, defect 1 (compact-size over [len(txOuts)]):
    the estimate is 2 bytes below the real size and the fee is below the rate. *)
Example C07_refuted_at_pinned_varint : consts_as_recorded = true ->
  match author pinned_cfg false outs252 1000 22 22 true [(P2WPKH, 1000000)] with
  | Success a =>
      a_est a + 2 = real_vsize [mkSin P2WPKH 71 33] (a_outs a) /\
      tx_fee a < fee_for 1000 (real_vsize [mkSin P2WPKH 71 33] (a_outs a))
  | _ => False
  end.
Proof. witness. Qed.

(** Witness at the pinned commit, defect 2 (first guess = one P2WPKH input):
    a single P2TR coin that covers the outputs plus its own required fee is
    reported as insufficient funds; with the smallest guess it is spent. *)
Example C07_refuted_at_pinned_init_guess : consts_as_recorded = true ->
  author pinned_cfg false [] 52583 34 34 true [(P2TR, 6054)] = InsufficientFunds 1 /\
  0 + fee_for 52583 (est_vsize_gen true (counts_of [P2TR]) [] 34) <= 6054 /\
  init_minimal pinned_cfg = false /\
  match author fixed_cfg false [] 52583 34 34 true [(P2TR, 6054)] with
  | Success a => tx_fee a = 6054 /\ a_req_fee a = 5889
  | _ => False
  end.
Proof. witness. Qed.

(** Why the admissibility predicate asks for low-S (<= 71 byte) signatures on
    P2PKH inputs of a transaction that also has witness inputs: with 72-byte
    signatures on five P2PKH inputs the estimate is one byte short (every
    P2PKH input carries one uncounted byte of empty witness). *)
Example C07_high_s_mixed_not_covered : consts_as_recorded = true ->
  let ins := [mkSin P2PKH 72 33; mkSin P2PKH 72 33; mkSin P2PKH 72 33; mkSin P2PKH 72 33; mkSin P2PKH 72 33;
              mkSin P2WPKH 72 33] in
  est_vsize_gen true (counts_of (map si_kind ins)) [mkOut 1000 22] 22 + 1
  = real_vsize ins [mkOut 1000 22; mkOut 600 22].
Proof. witness. Qed.

(** Why an UNCOMPRESSED key is outside the admissible inputs while the P2PKH
    allotment does not cover it: one P2PKH coin of 100000 held by an
    uncompressed key, one P2WPKH output of 60000, the relay floor - the signed
    input is 32 bytes larger than estimated and the fee is below the rate
    applied to the real size (replayed on the implementation by
    corpus/C07/uncompressed_key_p2pkh.jsonl; known finding
    fee_below_rate_uncompressed_key).  Stated under the premise so that a repair
    (a P2PKH constant sized for 65-byte keys) keeps this file compiling. *)
Example C07_uncompressed_key_refuted :
  p2pkh_covers_uncompressed = false ->
  match author generated_cfg false [mkOut 60000 22] 1000 22 22 true [(P2PKH, 100000)] with
  | Success a =>
      a_est a + 30 <= real_vsize [mkSin P2PKH 70 65] (a_outs a) /\
      tx_fee a < fee_for 1000 (real_vsize [mkSin P2PKH 70 65] (a_outs a))
  | _ => False
  end.
Proof. witness. Qed.
