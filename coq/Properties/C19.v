(** C19 - Database upgrades apply each pending migration once, in order, or
    not at all.  Property theorems only; proofs are in Migrate/MigrateProofs.v. *)
From Verif Require Import Base.Prelude Migrate.Migrate Migrate.MigrateProofs.
Local Open Scope N_scope.

(** The pending list is exactly the declared entries numbered above the stored
    version (a permutation of the filter: each once, nothing else), whatever
    the declaration order, in ascending order - strictly ascending when the
    declared numbers are distinct. *)
Theorem C19_pending_exact : forall cur vs,
  Permutation (versions_to_apply cur vs) (filter (fun v => cur <? num v) vs)
  /\ StronglySorted le_num (versions_to_apply cur vs)
  /\ Forall (fun v => cur < num v) (versions_to_apply cur vs)
  /\ (NoDup (map num vs) ->
      StronglySorted (fun a b => num a < num b) (versions_to_apply cur vs)).
Proof.
  intros cur vs. repeat split.
  - exact (versions_to_apply_perm cur vs).
  - exact (versions_to_apply_sorted cur vs).
  - exact (versions_to_apply_above cur vs).
  - exact (versions_to_apply_strict cur vs).
Qed.
Print Assumptions C19_pending_exact.

(** Success: every pending non-nil migration was invoked, once, in pending
    order, and the latest version is recorded. *)
Theorem C19_success : forall vs s s' inv,
  upgrade vs s = (Ok, s', inv) ->
  stored s' = latest vs /\
  inv = map num (filter invocable (versions_to_apply (stored s) vs)).
Proof.
  intros vs s s' inv H. split.
  - exact (upgrade_ok_version vs s s' inv H).
  - exact (upgrade_ok_invoked vs s s' inv H).
Qed.
Print Assumptions C19_success.

(** Failure at any position: only the pending migrations up to the failing
    one ran, and version and data are unchanged once the transaction aborts. *)
Theorem C19_failure : forall vs s n s' inv,
  upgrade vs s = (ErrMigration n, s', inv) ->
  s' = s /\
  exists l1 v l2,
    versions_to_apply (stored s) vs = l1 ++ v :: l2 /\
    existsb fails l1 = false /\ fails v = true /\ num v = n /\
    inv = map num (filter invocable l1) ++ [n].
Proof.
  intros vs s n s' inv H. split.
  - apply (upgrade_error_unchanged vs s _ s' inv H). discriminate.
  - exact (upgrade_fail_invoked vs s n s' inv H).
Qed.
Print Assumptions C19_failure.

(** A database newer than the software is refused without modification and
    without running anything; and every non-Ok outcome leaves it unchanged. *)
Theorem C19_reversion : forall vs s,
  latest vs < stored s -> upgrade vs s = (ErrReversion, s, []).
Proof. exact upgrade_reversion. Qed.
Print Assumptions C19_reversion.

Theorem C19_error_unchanged : forall vs s o s' inv,
  upgrade vs s = (o, s', inv) -> o <> Ok -> s' = s.
Proof. exact upgrade_error_unchanged. Qed.
Print Assumptions C19_error_unchanged.

(** Non-vacuity: an unordered table with a nil entry, a gap and a failing
    entry exercises every hypothesis above. *)
Example C19_nonvacuous :
  let vs := [ {| num := 5; vmig := MOk 50 |}; {| num := 2; vmig := MNil |};
              {| num := 7; vmig := MFail 70 |}; {| num := 3; vmig := MOk 30 |};
              {| num := 1; vmig := MOk 10 |} ] in
  upgrade vs {| stored := 1; data := [] |}
    = (ErrMigration 7, {| stored := 1; data := [] |}, [3; 5; 7]) /\
  upgrade (tl (tl (tl vs)) ++ [ {| num := 6; vmig := MNil |} ]) {| stored := 0; data := [9] |}
    = (Ok, {| stored := 6; data := [9; 10; 30] |}, [1; 3]) /\
  upgrade vs {| stored := 8; data := [] |} = (ErrReversion, {| stored := 8; data := [] |}, []).
Proof. vm_compute. repeat split. Qed.
